"""Generate the harness go.mod from the target repo's go.mod (requires + replaces) so the module graph is identical."""
import os, re, shutil

def gen(repo, harness):
    src = open(os.path.join(repo, 'go.mod')).read()
    out = []
    out.append('module verif/harness\n')
    m = re.search(r'^go\s+(\S+)', src, re.M)
    out.append('go %s\n' % (m.group(1) if m else '1.21'))
    body = re.sub(r'^module\s+\S+\s*$', '', src, flags=re.M)
    body = re.sub(r'^go\s+\S+\s*$', '', body, flags=re.M)
    body = re.sub(r'^toolchain\s+\S+\s*$', '', body, flags=re.M)
    out.append(body.strip() + '\n')
    out.append('\nrequire github.com/33cn/chain33 v0.0.0\n')
    out.append('replace github.com/33cn/chain33 => %s\n' % repo)
    extra = os.path.join(harness, 'go.mod.extra')
    if os.path.exists(extra):
        out.append(open(extra).read())
    text = '\n'.join(out)
    p = os.path.join(harness, 'go.mod')
    if not os.path.exists(p) or open(p).read() != text:
        open(p, 'w').write(text)
    s = open(os.path.join(repo, 'go.sum')).read()
    sp = os.path.join(harness, 'go.sum')
    extra_sum = os.path.join(harness, 'go.sum.extra')
    if os.path.exists(extra_sum):
        s += open(extra_sum).read()
    if not os.path.exists(sp) or open(sp).read() != s:
        open(sp, 'w').write(s)
