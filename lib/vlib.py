"""Shared machinery for bin/check: TLC runs (exhaustive, behaviour generation, trace
validation), harness builds, replay/record invocations, known findings, evidence.

Exit-code contract (DESIGN 2.6): 0 held, 1 violation reproduced on the real code,
2 machinery failure (never a verdict)."""
import glob
import hashlib
import json
import os
import re
import shutil
import subprocess
import sys
import tempfile
import time
import fcntl

VERIF = os.path.dirname(os.path.dirname(os.path.abspath(__file__)))
REPO = os.environ.get('VERIF_REPO', '/repo')
SPEC = os.path.join(VERIF, 'spec')
HARNESS = os.path.join(VERIF, 'harness')
BUILD = os.path.join(VERIF, 'build')
EVID = os.path.join(VERIF, 'evidence')
REPLAYS = os.path.join(VERIF, 'replays')
if REPO != '/repo':
    # mutation / seeded-change runs never touch the committed evidence or replays
    _h = hashlib.sha1(REPO.encode()).hexdigest()[:8]
    EVID = os.path.join(tempfile.gettempdir(), 'verif-mut-' + _h, 'evidence')
    REPLAYS = os.path.join(tempfile.gettempdir(), 'verif-mut-' + _h, 'replays')

GOENV = dict(GOFLAGS='-mod=mod', GOPROXY='off', GOSUMDB='off', GOTOOLCHAIN='local')


class _Slot:
    """Machine-wide semaphore for heavy jobs (TLC runs): at most VERIF_SLOTS (default 4) at a time, so that
    many checks started in parallel do not oversubscribe the 16 cores / RAM."""
    def __init__(self, kind='tlc', n=None):
        self.kind = kind
        self.n = n or int(os.environ.get('VERIF_SLOTS', '4'))
        self.f = None

    def __enter__(self):
        d = os.path.join(tempfile.gettempdir(), 'verif-slots')
        os.makedirs(d, exist_ok=True)
        t0 = time.time()
        while True:
            for i in range(self.n):
                f = open(os.path.join(d, '%s-%d.lock' % (self.kind, i)), 'w')
                try:
                    fcntl.flock(f, fcntl.LOCK_EX | fcntl.LOCK_NB)
                    self.f = f
                    w = time.time() - t0
                    if w > 5:
                        log('[slot] waited %.0fs for a %s slot' % (w, self.kind))
                    return self
                except OSError:
                    f.close()
            time.sleep(0.5 + (os.getpid() % 7) / 10.0)

    def __exit__(self, *a):
        try:
            fcntl.flock(self.f, fcntl.LOCK_UN)
            self.f.close()
        except Exception:
            pass


class Broken(Exception):
    """Machinery failure: exit 2."""


def log(*a):
    print(*a, flush=True)


def sh(cmd, cwd=None, timeout=None, env=None, check=False, capture=True):
    e = dict(os.environ)
    e.update(GOENV)
    if env:
        e.update(env)
    try:
        p = subprocess.run(cmd, cwd=cwd, env=e, timeout=timeout, shell=isinstance(cmd, str),
                           stdout=subprocess.PIPE if capture else None,
                           stderr=subprocess.STDOUT if capture else None, text=True, errors='replace')
    except subprocess.TimeoutExpired as ex:
        out = ex.stdout or ''
        if isinstance(out, bytes):
            out = out.decode(errors='replace')
        return 124, out
    if check and p.returncode != 0:
        raise Broken('command failed (%d): %s\n%s' % (p.returncode, cmd, (p.stdout or '')[-4000:]))
    return p.returncode, p.stdout or ''


# ----------------------------------------------------------------------------------
# harness build

def gen_gomod():
    sys.path.insert(0, os.path.join(VERIF, 'lib'))
    import gomod
    gomod.gen(REPO, HARNESS)


def build(drv, tags='verif', race=False):
    """Build harness/drv/<drv> against the repo's current working tree; returns binary path."""
    os.makedirs(BUILD, exist_ok=True)
    suffix = ''
    if REPO != '/repo':
        suffix = '-' + hashlib.sha1(REPO.encode()).hexdigest()[:8]
    out = os.path.join(BUILD, 'vh-%s%s%s' % (drv, '-race' if race else '', suffix))
    harness = HARNESS
    lock = open(os.path.join(BUILD, '.lock' + suffix), 'w')
    fcntl.flock(lock, fcntl.LOCK_EX)
    try:
        if REPO != '/repo':
            # mutation runs (VERIF_REPO=<worktree>): build from a private copy of the harness so that
            # the generated go.mod of the registered checks is never touched
            harness = os.path.join(tempfile.gettempdir(), 'verif-harness' + suffix)
            sh(['rsync', '-a', '--delete', '--exclude', 'go.mod', '--exclude', 'go.sum', '--exclude', '.bin', HARNESS + '/', harness + '/'], check=True)
        sys.path.insert(0, os.path.join(VERIF, 'lib'))
        import gomod
        gomod.gen(REPO, harness)
        if REPO != '/repo':
            os.makedirs(os.path.join(harness, '.bin'), exist_ok=True)
            out = os.path.join(harness, '.bin', os.path.basename(out))
    finally:
        fcntl.flock(lock, fcntl.LOCK_UN)
        lock.close()
    cmd = ['go', 'build', '-tags', tags]
    if race:
        cmd.append('-race')
    tmp_out = out + '.tmp%d' % os.getpid()
    cmd += ['-o', tmp_out, './drv/' + drv]
    t0 = time.time()
    rc, o = sh(cmd, cwd=harness, timeout=1800)
    if rc != 0:
        raise Broken('harness build failed for %s:\n%s' % (drv, o[-6000:]))
    os.replace(tmp_out, out)
    log('[build] vh-%s in %.1fs' % (drv, time.time() - t0))
    return out


# ----------------------------------------------------------------------------------
# TLC

TLC_JAR = '/opt/veriftools/tla/tla2tools.jar:/opt/veriftools/tla/CommunityModules-deps.jar'


def _tlc_cmd(args, heap=None, dfs=False, xss='512m'):
    cmd = ['java', '-XX:+UseParallelGC', '-XX:ParallelGCThreads=4', '-Xss' + xss]
    if heap:
        cmd.append('-Xmx' + heap)
    if dfs:
        cmd.append('-Dtlc2.tool.queue.IStateQueue=StateDeque')
    cmd += ['-cp', TLC_JAR, 'tlc2.TLC'] + args
    return cmd


class Ctx:
    def __init__(self, prop, tier, seed, fam, level='model_checking'):
        self.prop, self.tier, self.seed, self.fam = prop, tier, int(seed), fam
        self.level = level
        self.t0 = time.time()
        self.scratch = tempfile.mkdtemp(prefix='verif-%s-' % prop)
        self.states = 0
        self.transitions = 0
        self.evaluations = 0
        self.nontrivial = 0
        self.traces = 0
        self.samples = []
        self.assumptions = []
        self.notes = []
        self.mismatches = []      # dicts with signature, replay
        self.extra = {}
        self.exhaustive = False
        self.rule = ''
        self.mc_runs = []
        self.checker_cmds = []
        os.makedirs(REPLAYS, exist_ok=True)

    # -- spec staging ------------------------------------------------------------
    def stage(self, fam=None):
        """Copy spec/<fam> and spec/lib into a scratch directory (TLC litters)."""
        fam = fam or self.fam
        d = tempfile.mkdtemp(prefix='spec-', dir=self.scratch)
        for src in (os.path.join(SPEC, 'lib'), os.path.join(SPEC, fam)):
            if os.path.isdir(src):
                for f in os.listdir(src):
                    p = os.path.join(src, f)
                    if os.path.isfile(p):
                        shutil.copy(p, d)
        return d

    def write_cfg(self, d, name, text):
        open(os.path.join(d, name), 'w').write(text)

    # -- exhaustive model checking -------------------------------------------------
    def tlc_mc(self, module, cfg=None, workers=8, timeout=900, fam=None, expect_violation=False,
               coverage=False, heap='6g', stage=None, count=True, extra_args=()):
        d = stage or self.stage(fam)
        cfg = cfg or module + '.cfg'
        args = ['-workers', str(workers), '-metadir', os.path.join(d, 'md-' + module + str(time.time())),
                '-config', cfg, '-noGenerateSpecTE']
        if coverage:
            args += ['-coverage', '1']
        args += list(extra_args)
        args.append(module)
        t0 = time.time()
        cmd = _tlc_cmd(args, heap=heap)
        self.checker_cmds.append('tlc ' + ' '.join(args[:-1]).replace(d, '<scratch>') + ' ' + module)
        with _Slot():
            t0 = time.time()
            rc, out = sh(cmd, cwd=d, timeout=timeout)
        res = parse_tlc(out)
        res.update(rc=rc, wall=time.time() - t0, out=out, dir=d, module=module, cfg=cfg)
        if rc == 124:
            raise Broken('TLC timeout on %s/%s after %ds' % (module, cfg, timeout))
        if res['error'] and not res['violation']:
            raise Broken('TLC error on %s/%s:\n%s' % (module, cfg, out[-3000:]))
        if rc != 0 and not res['violation']:
            raise Broken('TLC ended abnormally (rc=%d) on %s/%s:\n%s' % (rc, module, cfg, out[-2000:]))
        if rc == 0 and 'Model checking completed' not in out and 'Finished in' not in out:
            raise Broken('TLC did not complete on %s/%s:\n%s' % (module, cfg, out[-2000:]))
        if res['violation'] and not expect_violation:
            raise Broken('specification %s/%s violates its own property %s — spec defect, not a verdict:\n%s'
                         % (module, cfg, res['violation'], out[-3000:]))
        if count:
            self.states += res['distinct']
            self.transitions += res['generated']
        self.mc_runs.append(dict(module=module, cfg=cfg, generated=res['generated'], distinct=res['distinct'],
                                 depth=res['depth'], wall_s=round(res['wall'], 1), violation=res['violation']))
        log('[tlc-mc] %s/%s: %d generated, %d distinct, depth %s, %.1fs%s' %
            (module, cfg, res['generated'], res['distinct'], res['depth'], res['wall'],
             (' [spec property refuted on the model: ' + str(res['violation']) + ']') if res['violation'] else ''))
        if coverage:
            zeros = [l for l in out.splitlines() if re.search(r'^<\w+ line .*>: 0:0\s*$', l)]
            res['zero_actions'] = zeros
        return res

    # -- behaviour generation by simulation ---------------------------------------------
    def tlc_sim(self, module, cfg, num, depth, fam=None, seed=None, timeout=600, stage=None, keep_init=False):
        d = stage or self.stage(fam)
        outdir = tempfile.mkdtemp(prefix='sim-', dir=self.scratch)
        seed = self.seed if seed is None else seed
        args = ['-workers', '1', '-simulate', 'file=%s/b,num=%d' % (outdir, num), '-depth', str(depth),
                '-seed', str(seed), '-metadir', os.path.join(d, 'md-sim' + str(time.time())), '-config', cfg,
                '-noGenerateSpecTE', module]
        with _Slot():
            t0 = time.time()
            rc, out = sh(_tlc_cmd(args, heap='4g'), cwd=d, timeout=timeout)
        if rc == 124:
            raise Broken('TLC simulate timeout %s/%s' % (module, cfg))
        if rc != 0 and 'Error' in out:
            raise Broken('TLC simulate error %s/%s:\n%s' % (module, cfg, out[-3000:]))
        bs = []
        files = sorted(glob.glob(outdir + '/b_*'), key=lambda p: [int(x) for x in re.findall(r'\d+', os.path.basename(p))])
        for i, f in enumerate(files):
            steps = parse_sim_file(f)
            if not keep_init and steps and steps[0].get('op') == 'Init':
                steps = steps[1:]
            if steps:
                bs.append(dict(fam=self.fam, cfg=cfg, id='s%d-%06d' % (seed, i), steps=steps))
        shutil.rmtree(outdir, ignore_errors=True)
        m = re.search(r'The number of states generated: (\d+)', out)
        gen = int(m.group(1)) if m else 0
        log('[tlc-sim] %s/%s: %d behaviours (depth %d, seed %d), %d states, %.1fs' % (module, cfg, len(bs), depth, seed, gen, time.time() - t0))
        self.checker_cmds.append('tlc -simulate num=%d -depth %d -seed %d -config %s %s' % (num, depth, seed, cfg, module))
        return bs

    # -- exhaustive behaviour export: the spec prints "@@B <json>" for every complete history --
    def tlc_genall(self, module, cfg, fam=None, timeout=900, workers=1, stage=None, heap='8g', count=False):
        d = stage or self.stage(fam)
        args = ['-workers', str(workers), '-metadir', os.path.join(d, 'md-gen' + str(time.time())), '-config', cfg,
                '-noGenerateSpecTE', module]
        with _Slot():
            t0 = time.time()
            rc, out = sh(_tlc_cmd(args, heap=heap), cwd=d, timeout=timeout)
        if rc == 124:
            raise Broken('TLC genall timeout %s/%s' % (module, cfg))
        res = parse_tlc(out)
        if res['error'] or res['violation']:
            raise Broken('TLC genall error %s/%s:\n%s' % (module, cfg, out[-3000:]))
        bs = []
        for line in out.splitlines():
            i = line.find('@@B')
            if i < 0:
                continue
            j = line.find('"', line.find('"', i) + 1)
            k = line.rfind('"')
            if j < 0 or k <= j:
                continue
            raw = line[j:k + 1]
            try:
                hist = json.loads(json.loads(raw))
            except Exception:
                try:
                    hist = json.loads(tla_unescape(raw[1:-1]))
                except Exception as ex:
                    raise Broken('cannot parse @@B line: %s (%s)' % (line[:200], ex))
            steps = [json.loads(s) if isinstance(s, str) else s for s in hist]
            steps = [s for s in steps if s.get('op') != 'Init']
            if steps:
                bs.append(dict(fam=self.fam, cfg=cfg, id='a%06d' % len(bs), steps=steps))
        if count:
            self.states += res['distinct']
            self.transitions += res['generated']
        log('[tlc-genall] %s/%s: %d complete behaviours, %d distinct states, %.1fs' % (module, cfg, len(bs), res['distinct'], time.time() - t0))
        self.checker_cmds.append('tlc -config %s %s  (exhaustive behaviour export)' % (cfg, module))
        res['behaviours'] = bs
        return bs

    # -- trace validation ------------------------------------------------------------------
    def tlc_trace(self, module, cfg, trace_path, fam=None, timeout=900, dfs=False, stage=None, heap='8g', consts=None):
        """Validate an ndjson trace with <module> (reads file 'trace.ndjson' in its cwd).
        The trace spec prints '@@HWM <n>' lines (high-water mark of matched events) or relies on
        POSTCONDITION; returns dict(accepted, matched, total)."""
        d = stage or self.stage(fam)
        shutil.copy(trace_path, os.path.join(d, 'trace.ndjson'))
        total = sum(1 for l in open(trace_path) if l.strip())
        args = ['-workers', '1', '-metadir', os.path.join(d, 'md-tr' + str(time.time())), '-config', cfg, '-noGenerateSpecTE']
        if dfs:
            args += ['-checkpoint', '0']  # StateDeque cannot checkpoint (TLC throws at the 30-minute checkpoint)
        args.append(module)
        with _Slot():
            t0 = time.time()
            rc, out = sh(_tlc_cmd(args, heap=heap, dfs=dfs), cwd=d, timeout=timeout)
        if rc == 124:
            raise Broken('TLC trace validation timeout %s' % module)
        res = parse_tlc(out)
        hw = [int(x) for x in re.findall(r'@@HWM\D+(\d+)', out)]
        matched = max(hw) if hw else None
        accepted = (rc == 0 and not res['error'] and not res['violation'])
        post_failed = bool(re.search(r'Postcondition .* is false', out)) or ('Postcondition' in out and 'violated' in out)
        if post_failed:
            accepted = False
        inv = res['violation']
        if res['error'] and not post_failed and not inv:
            raise Broken('TLC error in trace validation %s:\n%s' % (module, out[-3000:]))
        log('[tlc-trace] %s: %s, %s/%d events matched, %d states, %.1fs' %
            (module, 'ACCEPTED' if accepted else 'REJECTED', matched if matched is not None else '?', total, res['distinct'], time.time() - t0))
        self.checker_cmds.append('tlc -config %s %s  (trace validation, %d events)' % (cfg, module, total))
        return dict(accepted=accepted, matched=matched, total=total, out=out, violation=inv, states=res['distinct'])

    # -- harness invocations ---------------------------------------------------------------
    def write_behaviours(self, bs, name='behaviours.ndjson'):
        p = os.path.join(self.scratch, name)
        with open(p, 'w') as f:
            for b in bs:
                f.write(json.dumps(b, separators=(',', ':')) + '\n')
        return p

    def replay(self, binary, bs, opts=None, par=8, timeout=1500, count=True, env=None, name=None):
        """Replay behaviours into the real code; merges mismatches into the context."""
        if not bs:
            raise Broken('no behaviours to replay (generator produced nothing)')
        name = name or 'behaviours-%d.ndjson' % len(os.listdir(self.scratch))
        p = self.write_behaviours(bs, name)
        outp = p + '.summary.json'
        optstr = ','.join('%s=%s' % kv for kv in (opts or {}).items())
        cmd = [binary, 'replay', '--in', p, '--out', outp, '--replays', REPLAYS, '--prop', self.prop,
               '--tier', self.tier, '--seed', str(self.seed), '--par', str(par), '--opt', optstr]
        t0 = time.time()
        rc, out = sh(cmd, cwd=self.scratch, timeout=timeout, env=env)
        if rc == 124:
            raise Broken('replay timeout (%ds)' % timeout)
        if not os.path.exists(outp):
            raise Broken('replay driver died rc=%d:\n%s' % (rc, out[-4000:]))
        s = json.load(open(outp))
        s['mismatches'] = s.get('mismatches') or []
        if s.get('errors'):
            raise Broken('replay driver errors: %s' % s['errors'][:5])
        log('[replay] %s %s: %d behaviours, %d steps, %d compared, %d non-trivial, %d mismatching signatures, %.1fs' %
            (os.path.basename(binary), optstr, s['behaviours'], s['steps'], s['compared'], s['nontrivial'], len(s['mismatches']), time.time() - t0))
        if count:
            self.evaluations += s['behaviours']
            self.traces += s['behaviours']
            self.nontrivial += s['nontrivial']
            for x in s.get('samples') or []:
                if len(self.samples) < 4:
                    self.samples.append(x)
        for m in s['mismatches']:
            self.mismatches.append(m)
        return s

    def record(self, binary, recorder='default', opts=None, timeout=1500, env=None, name=None):
        name = name or 'trace-%d.ndjson' % len(os.listdir(self.scratch))
        tp = os.path.join(self.scratch, name)
        sp = tp + '.summary.json'
        optstr = ','.join('%s=%s' % kv for kv in (opts or {}).items())
        cmd = [binary, 'record', '--out', tp, '--summary', sp, '--prop', self.prop, '--tier', self.tier,
               '--seed', str(self.seed), '--recorder', recorder, '--opt', optstr]
        t0 = time.time()
        rc, out = sh(cmd, cwd=self.scratch, timeout=timeout, env=env)
        if rc == 124:
            raise Broken('record timeout')
        if rc != 0 or not os.path.exists(sp):
            raise Broken('recorder failed rc=%d:\n%s' % (rc, out[-4000:]))
        s = json.load(open(sp))
        n = sum(1 for l in open(tp) if l.strip())
        log('[record] %s/%s %s: %d events, %d traces, %.1fs' % (os.path.basename(binary), recorder, optstr, n, s.get('behaviours', 0), time.time() - t0))
        return tp, s

    def validate_recording(self, binary, module, cfg, recorder='default', opts=None, dfs=False, fam=None,
                           timeout=900, selftest=False, stage=None):
        """record -> TLC trace validation. On rejection a replay file naming the trace prefix is kept."""
        tp, s = self.record(binary, recorder, opts)
        r = self.tlc_trace(module, cfg, tp, fam=fam, dfs=dfs, timeout=timeout, stage=stage)
        self.states += r['states']
        ntr = s.get('behaviours', 1)
        if r['accepted']:
            self.traces += ntr
            self.evaluations += ntr
            self.nontrivial += s.get('nontrivial', 0)
            for x in (s.get('samples') or [])[:2]:
                if len(self.samples) < 6:
                    self.samples.append(x)
        else:
            # keep the trace prefix for replay
            os.makedirs(REPLAYS, exist_ok=True)
            keep = os.path.join(REPLAYS, '%s-%s-trace-%d-%s.json' % (self.prop, self.fam, self.seed, recorder))
            lines = [l for l in open(tp) if l.strip()]
            m = r['matched'] if r['matched'] is not None else 0
            failing = json.loads(lines[m]) if m < len(lines) else None
            sig = 'trace|%s|event=%s' % (recorder, trace_sig(failing))
            json.dump(dict(property=self.prop, family=self.fam, seed=self.seed, tier=self.tier, opts=opts or {},
                           extra=dict(kind='trace', recorder=recorder, module=module, cfg=cfg, matched=m,
                                      failing_event=failing, invariant=r['violation'],
                                      prefix=[json.loads(l) for l in lines[max(0, m - 30):m + 1]]),
                           signature=sig), open(keep, 'w'), indent=1)
            self.mismatches.append(dict(signature=sig, replay=keep, expected='trace accepted by ' + module,
                                        observed='rejected at event %d: %s' % (m, json.dumps(failing)[:300]), field='trace'))
        if selftest and r['accepted']:
            self.trace_selftest(module, cfg, tp, fam=fam, dfs=dfs)
        return r, s

    def trace_selftest(self, module, cfg, tp, fam=None, dfs=False, mutate=None, stage=None):
        """Anti-vacuity: corrupt one recorded reply and require TLC to reject."""
        lines = [json.loads(l) for l in open(tp) if l.strip()]
        idx = None
        for i in range(len(lines) - 1, -1, -1):
            if mutate and mutate(lines[i]):
                idx = i
                break
            if not mutate and 'ret' in lines[i] and lines[i]['ret'] not in ('ok', '-', None):
                lines[i]['ret'] = corrupt(lines[i]['ret'])
                idx = i
                break
        if idx is None:
            self.notes.append('selftest: no corruptible event')
            return
        bad = tp + '.bad'
        with open(bad, 'w') as f:
            for l in lines:
                f.write(json.dumps(l) + '\n')
        r = self.tlc_trace(module, cfg, bad, fam=fam, dfs=dfs, stage=stage)
        if r['accepted']:
            raise Broken('binding self-test failed: corrupted trace (event %d) was accepted by %s' % (idx, module))
        self.extra['selftest_corrupted_trace_rejected'] = True

    # -- verdict ------------------------------------------------------------------------------
    def finish(self, level_keys=None):
        return finish(self)


def compact_sample(x):
    """Drop bulky projections from a behaviour sample (kept: op, arguments, predicted reply)."""
    try:
        if isinstance(x, dict) and isinstance(x.get('steps'), list):
            y = dict(x)
            y['steps'] = [{k: v for k, v in s.items() if k != 'chk' or len(json.dumps(v)) < 200} for s in x['steps'][:40]]
            return y
    except Exception:
        pass
    return x


def corrupt(v):
    if isinstance(v, bool):
        return not v
    if isinstance(v, (int, float)):
        return v + 1
    if isinstance(v, str):
        return v + '~'
    if isinstance(v, list):
        return v + ['~']
    if isinstance(v, dict):
        d = dict(v)
        d['~'] = 1
        return d
    return '~'


def trace_sig(ev):
    if not ev:
        return 'end'
    return '%s' % ev.get('ev', ev.get('op', '?'))


def tla_unescape(s):
    return s.replace('\\"', '"').replace('\\\\', '\\')


ACT_RE = re.compile(r'^/\\ act = "(.*)"\s*$')


def parse_sim_file(path):
    steps = []
    for line in open(path, errors='replace'):
        m = ACT_RE.match(line.rstrip('\n'))
        if m:
            raw = m.group(1)
            try:
                steps.append(json.loads(json.loads('"' + raw + '"')))
            except Exception:
                steps.append(json.loads(tla_unescape(raw)))
    return steps


def parse_tlc(out):
    res = dict(generated=0, distinct=0, depth=None, error=False, violation=None)
    m = re.findall(r'(\d+) states generated, (\d+) distinct states found', out)
    if m:
        res['generated'], res['distinct'] = int(m[-1][0]), int(m[-1][1])
    m = re.search(r'depth of the complete state graph search is (\d+)', out)
    if m:
        res['depth'] = int(m.group(1))
    m = re.search(r'Error: Invariant (\S+) is violated', out)
    if m:
        res['violation'] = m.group(1)
    m2 = re.search(r'Error: Action property (\S+) is violated', out)
    if m2:
        res['violation'] = m2.group(1)
    m3 = re.search(r'Temporal property (\S+) was violated', out)
    if m3:
        res['violation'] = res['violation'] or m3.group(1)
    if 'Temporal properties were violated' in out:
        res['violation'] = res['violation'] or 'temporal'
    if re.search(r'^Error:', out, re.M) or 'Exception' in out and 'tlc2' in out:
        res['error'] = True
    return res


# ----------------------------------------------------------------------------------
# known findings, evidence, verdict

def load_known():
    p = os.path.join(VERIF, 'known_findings.json')
    if not os.path.exists(p):
        return []
    return json.load(open(p)).get('findings', [])


def finish(ctx):
    known = [k for k in load_known() if k.get('property') == ctx.prop and k.get('status') == 'known']
    ksigs = {k['signature']: k for k in known}
    reported_known = {}
    violations = []
    for m in ctx.mismatches:
        sig = m.get('signature', '')
        if sig in ksigs:
            reported_known[sig] = m
        else:
            violations.append(m)
    wall = time.time() - ctx.t0
    ctx.samples = [compact_sample(x) for x in ctx.samples]
    cov = dict(states=ctx.states, transitions=ctx.transitions,
               traces_validated_against_impl=ctx.traces,
               evaluations=ctx.evaluations, distinct_nontrivial=ctx.nontrivial,
               rule=ctx.rule, samples=ctx.samples[:6] or [],
               exhaustive=bool(ctx.exhaustive), mc_runs=ctx.mc_runs,
               checker_cmd='; '.join(ctx.checker_cmds[:12]),
               known_findings_reproduced=sorted(reported_known.keys()),
               violation_signatures=sorted({v.get('signature', '') for v in violations}))
    cov.update(ctx.extra)
    ev = dict(property_id=ctx.prop, tier=ctx.tier, seed=ctx.seed, level=ctx.level, coverage=cov,
              assumptions=ctx.assumptions, wall_s=round(wall, 2), violations=len(violations), notes=ctx.notes)
    rc = 0
    if violations:
        rc = 1
    else:
        # anti-vacuity
        if ctx.level == 'model_checking' and (ctx.states < 1 or ctx.transitions < 1):
            log('BROKEN: no states explored')
            rc = 2
        if ctx.nontrivial < 2 or ctx.evaluations < 1 or not ctx.samples:
            log('BROKEN: vacuous run (evaluations=%d distinct_nontrivial=%d samples=%d)' % (ctx.evaluations, ctx.nontrivial, len(ctx.samples)))
            rc = 2
    os.makedirs(EVID, exist_ok=True)
    if rc != 2:
        json.dump(ev, open(os.path.join(EVID, ctx.prop + '.json'), 'w'), indent=1, default=str)
    for sig in sorted(reported_known):
        log('KNOWN-FINDING: property=%s %s' % (ctx.prop, sig))
    if violations:
        seen = set()
        for v in violations:
            if v.get('signature') in seen:
                continue
            seen.add(v.get('signature'))
            log('  disagreement: %s\n    expected=%s\n    observed=%s' % (v.get('signature'), json.dumps(v.get('expected'))[:400], json.dumps(v.get('observed'))[:400]))
        log('VIOLATION property=%s replay=%s' % (ctx.prop, violations[0].get('replay')))
    log('RESULT property=%s tier=%s seed=%d states=%d behaviours=%d traces=%d nontrivial=%d wall_s=%.1f exit=%d' %
        (ctx.prop, ctx.tier, ctx.seed, ctx.states, ctx.evaluations, ctx.traces, ctx.nontrivial, wall, rc))
    shutil.rmtree(ctx.scratch, ignore_errors=True)
    return rc
