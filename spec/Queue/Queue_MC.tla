---- MODULE Queue_MC ----
EXTENDS Queue
\* threads 1,2 requesters (clients 1,2), 3 responder and 4,5 closers on client 3 (subscribed to topic 1)
MCClientOf == [x \in 1..5 |-> IF x <= 2 THEN x ELSE 3]
MCSubOf == [c \in 1..3 |-> IF c = 3 THEN 1 ELSE 0]
\* requester 2 shares the subscriber's client (a module that both serves and asks)
MCClientOfShared == [x \in 1..5 |-> IF x = 1 THEN 1 ELSE 3]
====
