---- MODULE Queue_MC ----
EXTENDS Queue
====
