SPECIFICATION TSpec
CONSTANTS
  Clients = {1,2,3,4,5,6,7,8,101,102,103}
  Topics = {1,2,3}
  Msgs = {1,2,3,4,5,6,7,8,9,10,11,12,13,14,15,16,17,18,19,20,21,22,23,24,25,26,27,28,29,30,31,32,33,34,35,36,37,38,39,40,41,42,43,44,45,46,47,48,49,50,51,52,53,54,55,56,57,58,59,60,61,62,63,64,65,66,67,68,69,70,71,72,73,74,75,76,77,78,79,80}
  Requesters = {1,2,3,4,5,6,7,8,51,52,53}
  Responders = {110,111,119,120,121,129,130,131,139}
  Closers = {201,202,209}
  HighCap = 64
  LowCap = 40960
  RecvCap = 5
  MaxReq = 64
  SendModes = {"block", "zero", "timed"}
  WaitModes = {"block", "timed"}
  WRs = {TRUE, FALSE}
  ReqTopics = {1,2,3}
  CloseTargets = {1,2,3,4,5,6,7,8,101,102,103}
  QueueClose = TRUE
  FixLowDone = TRUE
  FixCloseSweep = TRUE
  FreeAfterTimeout = FALSE
  EmitOn = FALSE
INVARIANTS Mark TypeOK ReplyToOwnRequest AtMostOnce ErrAfterClose PoolClean
POSTCONDITION TraceDone
CHECK_DEADLOCK FALSE
