\* thorough A: two requesters, three pooled objects, four requests
SPECIFICATION Spec
CONSTANTS
  Clients = {1, 2, 101}
  Topics = {1}
  Msgs = {1, 2, 3}
  Requesters = {1, 2}
  Responders = {110}
  Closers = {}
  HighCap = 1
  LowCap = 1
  RecvCap = 1
  MaxReq = 4
  SendModes = {"block"}
  WaitModes = {"block", "timed"}
  WRs = {TRUE}
  ReqTopics = {1}
  CloseTargets = {}
  QueueClose = FALSE
  FixLowDone = TRUE
  FixCloseSweep = TRUE
  FreeAfterTimeout = FALSE
  EmitOn = FALSE
VIEW view
INVARIANTS TypeOK ReplyToOwnRequest AtMostOnce ErrAfterClose PoolClean
CHECK_DEADLOCK FALSE
