------------------------------- MODULE Queue -------------------------------
(***************************************************************************)
(* Mechanism model of chain33's message bus (queue/queue.go, client.go).   *)
(* Property C36.  One action per critical section / channel operation of   *)
(* the implementation:                                                      *)
(*                                                                         *)
(*  topic  (chanSub)  : ex (created by the first chanSub(topic) call),      *)
(*                      closed (isClose=1, `done` closed), high/low buffers *)
(*                      (kept after the close: goroutines that fetched the  *)
(*                      chanSub before the close still use the channels)    *)
(*  message object    : st new/pool/live, payload req, topic, wr (sent with *)
(*                      waitReply), slot = chReply (buffered chan of 1).    *)
(*                      A freed object keeps its slot (sync.Pool reuse).    *)
(*  client            : done (client.done closed), closed (isClosed),       *)
(*                      recv buffer, rclosed (recv closed), pump goroutine  *)
(*  queue             : qflag (isClose), qsw (Close swept the topics)       *)
(*                                                                         *)
(* The constants FixLowDone / FixCloseSweep select the code as found (FALSE) *)
(* or after the repairs /repo 9cd5910 and 4a048ea (TRUE, all registered     *)
(* configs); the FALSE variants are kept as configs whose liveness must fail *)
(* (Queue_LivePreLow / Queue_LivePreSweep).                                  *)
(*                                                                         *)
(* Calls are split into start / internal steps / effect / return, because   *)
(* the bus is lock-free: a recorded execution logs start and end of a call  *)
(* and the state change is an internal step between them.                   *)
(*                                                                         *)
(* Users modelled: requester threads (NewMessage -> Send -> Wait -> Free),  *)
(* responder threads (Recv -> Reply | ignore), closer threads (client.Close *)
(* and queue.Close).  Requesters obey FreeMessage's documented contract     *)
(* (free only after the reply was consumed / the send failed, nobody else   *)
(* references the message) unless FreeAfterTimeout (anti-vacuity configs).  *)
(*                                                                         *)
(* Deliberately NOT demanded (the property does not state it):              *)
(*  - which error a failed call returns (only ok / error classes);          *)
(*  - that Close()/Recv return (a pump blocked on a full recv buffer keeps  *)
(*    client.Close waiting; responders are not woken by queue.Close);       *)
(*  - Close() of a client that never subscribed: a no-op by construction    *)
(*    (client.go: topic == nil), such a client is not "closed";             *)
(*  - a Send in flight while its own (subscribed) client is being closed is *)
(*    only obliged to return when the topic it sends to or the queue closes *)
(*  - concurrent Close of the same client, Sub concurrent with Close, more  *)
(*    than one Sub per client, replying twice, waiting on an unsent message *)
(*    (misuse; TestQueueClose_ConcurrentPanic documents the maintainers'    *)
(*    view of concurrent closes);                                           *)
(*  - a Wait started after a close may still return the (own) reply.        *)
(* Reply message objects are not pool members of the model: their reply     *)
(* slot is never written, a recycled one is indistinguishable from a new    *)
(* one.                                                                     *)
(***************************************************************************)
EXTENDS Integers, Sequences, FiniteSets, Json, TLC

CONSTANTS Clients, Topics, Msgs,          \* small integers (> 0)
          Requesters, Responders, Closers,\* disjoint sets of thread ids
          HighCap, LowCap, RecvCap,
          MaxReq,                         \* bound on NewMessage calls
          SendModes, WaitModes,           \* subsets of {"block","zero","timed"} / {"block","timed"} used by requesters
          WRs,                            \* subset of BOOLEAN: waitReply flags used
          ReqTopics,                      \* topics requesters send to
          CloseTargets,                   \* clients the closers may Close()
          QueueClose,                     \* closers may call queue.Close()
          FixLowDone,       \* TRUE = code after /repo commit 9cd5910: sendLowTimeout(-1) also selects on sub.done
          FixCloseSweep,    \* TRUE = code after /repo commit 4a048ea: Close stores isClose before the sweep and
                            \* chanSub creates a topic first used afterwards closed. FALSE = the code as found.
          FreeAfterTimeout, \* contract-breaking requester (free a sent message without consuming the reply)
          EmitOn

VARIABLES qflag, qsw, qstarted, tp, cl, ob, th, nreq, deliv, bad, cret, qret, act
vars == <<qflag, qsw, qstarted, tp, cl, ob, th, nreq, deliv, bad, cret, qret, act>>
view == <<qflag, qsw, qstarted, tp, cl, ob, th, nreq, deliv, bad, cret, qret>>

Threads == Requesters \cup Responders \cup Closers
\* Naming convention shared with the driver: requester x < 50 owns client x; requester 50+k shares the
\* subscriber client 100+k (a module that serves and asks); responder 100+10k+j reads client 100+k;
\* client 100+k is subscribed to topic k; closers (>= 200) have no client of their own.
ClientOf == [x \in Threads |-> IF x < 50 THEN x ELSE IF x < 100 THEN x + 50 ELSE IF x < 200 THEN 100 + ((x - 100) \div 10) ELSE 0]
SubOf == [c \in Clients |-> IF c > 100 THEN c - 100 ELSE 0]
SubClients == {c \in Clients : SubOf[c] # 0}

Emit(r) == act' = IF EmitOn THEN ToJson(r) ELSE ""
Tau == act' = IF EmitOn THEN ToJson([op |-> "tau"]) ELSE ""

IdleTh == [pc |-> "idle", m |-> 0, req |-> 0, wr |-> FALSE, mode |-> "-", ret |-> "-", aft |-> FALSE, echo |-> 0, c |-> 0]
NoTopic == [ex |-> FALSE, closed |-> FALSE, high |-> <<>>, low |-> <<>>]
OpenTopic == [ex |-> TRUE, closed |-> FALSE, high |-> <<>>, low |-> <<>>]

\* P: the clients that exist (subscribers among them have called Sub, which creates their topic and pump)
InitWith(P) ==
  /\ qflag = FALSE /\ qsw = FALSE /\ qstarted = FALSE
  /\ tp = [t \in Topics |-> IF \E c \in P : SubOf[c] = t THEN OpenTopic ELSE NoTopic]
  /\ cl = [c \in Clients |-> [done |-> FALSE, closed |-> FALSE, rclosed |-> FALSE, recv |-> <<>>,
                              pp |-> IF c \in P /\ SubOf[c] # 0 THEN "outer" ELSE "none", pi |-> 0]]
  /\ ob = [o \in Msgs |-> [st |-> "new", req |-> 0, topic |-> 0, wr |-> FALSE, slot |-> <<>>]]
  /\ th = [x \in Threads |-> IdleTh]
  /\ nreq = 0 /\ deliv = [i \in 1..MaxReq |-> 0] /\ bad = {} /\ cret = {} /\ qret = FALSE
Init == InitWith(Clients) /\ act = IF EmitOn THEN ToJson([op |-> "Init"]) ELSE ""

\* chanSub(t) under q.mu: creates the topic on first use
Ensure(t) == IF tp[t].ex THEN tp
             ELSE [tp EXCEPT ![t] = [OpenTopic EXCEPT !.closed = (FixCloseSweep /\ qflag)]]
\* closeTopic / the sweep of queue.Close: sentinel into both buffers when there is room, done closed
CloseT(rec) == IF rec.ex /\ ~rec.closed
               THEN [rec EXCEPT !.closed = TRUE,
                                !.high = IF Len(@) < HighCap THEN Append(@, 0) ELSE @,
                                !.low = IF Len(@) < LowCap THEN Append(@, 0) ELSE @]
               ELSE rec

\* a call whose start lies after the return of a close that concerns it
AfterClose(c, t) == qret \/ c \in cret \/ (\E c2 \in cret : SubOf[c2] = t)

Set(x, r) == th' = [th EXCEPT ![x] = r]
Goto(x, p) == th' = [th EXCEPT ![x].pc = p]
Ret(x, p, v) == th' = [th EXCEPT ![x].pc = p, ![x].ret = v]

-----------------------------------------------------------------------------
\* Requester r

\* q: the unique payload of the request
New(r, o, t, w, q) ==
  /\ th[r].pc = "idle" /\ nreq < MaxReq
  /\ ob[o].st \in {"new", "pool"}
  /\ ob' = [ob EXCEPT ![o].st = "live", ![o].req = q, ![o].topic = t, ![o].wr = w]
  /\ nreq' = nreq + 1
  /\ Set(r, [IdleTh EXCEPT !.pc = "have", !.m = o, !.req = q, !.wr = w])
  /\ UNCHANGED <<qflag, qsw, qstarted, tp, cl, deliv, bad, cret, qret>>
  /\ Emit([op |-> "New", th |-> r, m |-> o, req |-> q, topic |-> t, wr |-> w])
\* never-used objects are interchangeable: the model checker takes the smallest
FreshMin(o) == ob[o].st = "new" => \A o2 \in Msgs : ob[o2].st = "new" => o <= o2

SendS(r, md) ==
  /\ th[r].pc = "have"
  /\ Set(r, [th[r] EXCEPT !.pc = "s1", !.mode = md, !.aft = AfterClose(ClientOf[r], ob[th[r].m].topic)])
  /\ UNCHANGED <<qflag, qsw, qstarted, tp, cl, ob, nreq, deliv, bad, cret, qret>>
  /\ Emit([op |-> "SendS", th |-> r, mode |-> md])

S1(r) == /\ th[r].pc = "s1"
         /\ IF cl[ClientOf[r]].closed THEN Ret(r, "sr", "closed") ELSE Goto(r, "s2")
         /\ UNCHANGED <<qflag, qsw, qstarted, tp, cl, ob, nreq, deliv, bad, cret, qret>> /\ Tau
S2(r) == /\ th[r].pc = "s2"
         /\ IF qflag THEN Ret(r, "sr", "closed") ELSE Goto(r, "s3")
         /\ UNCHANGED <<qflag, qsw, qstarted, tp, cl, ob, nreq, deliv, bad, cret, qret>> /\ Tau
S3(r) == LET t == ob[th[r].m].topic IN
         /\ th[r].pc = "s3"
         /\ tp' = Ensure(t)
         /\ IF tp'[t].closed THEN Ret(r, "sr", "closed") ELSE Goto(r, "s4")
         /\ UNCHANGED <<qflag, qsw, qstarted, cl, ob, nreq, deliv, bad, cret, qret>> /\ Tau

\* the select / channel send of queue.send, sendLowTimeout, sendAsyn
S4(r) ==
  LET o == th[r].m
      t == ob[o].topic
      w == th[r].wr
      md == th[r].mode
      buf == IF w THEN tp[t].high ELSE tp[t].low
      room == Len(buf) < (IF w THEN HighCap ELSE LowCap)
      Enq == tp' = IF w THEN [tp EXCEPT ![t].high = Append(@, o)] ELSE [tp EXCEPT ![t].low = Append(@, o)]
  IN
  /\ th[r].pc = "s4"
  /\ \/ /\ room /\ Enq /\ Ret(r, "sr", "ok")
     \/ /\ md = "block" /\ tp[t].closed /\ (w \/ FixLowDone) /\ Ret(r, "sr", "closed") /\ UNCHANGED tp
     \/ /\ md = "zero" /\ ~room /\ Ret(r, "sr", "full") /\ UNCHANGED tp
     \/ /\ md = "zero" /\ ~w /\ (qflag \/ tp[t].closed) /\ Ret(r, "sr", "closed") /\ UNCHANGED tp   \* sendAsyn re-checks
     \/ /\ md = "timed" /\ Ret(r, "sr", "timeout") /\ UNCHANGED tp
  /\ UNCHANGED <<qflag, qsw, qstarted, cl, ob, nreq, deliv, bad, cret, qret>> /\ Tau

SendE(r) ==
  /\ th[r].pc = "sr"
  /\ LET v == th[r].ret IN
     /\ bad' = IF v = "ok" /\ th[r].aft THEN bad \cup {"okAfterClose"} ELSE bad
     /\ IF v = "ok" THEN IF th[r].wr THEN Goto(r, "sent") ELSE Set(r, IdleTh)
        ELSE Goto(r, "fail")
     /\ Emit([op |-> "SendE", th |-> r, ret |-> v])
  /\ UNCHANGED <<qflag, qsw, qstarted, tp, cl, ob, nreq, deliv, cret, qret>>

WaitS(r, md) ==
  /\ th[r].pc = "sent"
  /\ Set(r, [th[r] EXCEPT !.pc = "w1", !.mode = md])
  /\ UNCHANGED <<qflag, qsw, qstarted, tp, cl, ob, nreq, deliv, bad, cret, qret>>
  /\ Emit([op |-> "WaitS", th |-> r, mode |-> md])

W1(r) == /\ th[r].pc = "w1"
         /\ tp' = Ensure(ob[th[r].m].topic)
         /\ Goto(r, "w2")
         /\ UNCHANGED <<qflag, qsw, qstarted, cl, ob, nreq, deliv, bad, cret, qret>> /\ Tau

W2(r) ==
  LET o == th[r].m
      t == ob[o].topic IN
  /\ th[r].pc = "w2"
  /\ \/ /\ ob[o].slot # <<>>
        /\ ob' = [ob EXCEPT ![o].slot = <<>>]
        /\ LET rp == Head(ob[o].slot) IN
           IF rp[1] = "ok" THEN Set(r, [th[r] EXCEPT !.pc = "wr", !.ret = "reply", !.echo = rp[2]])
           ELSE Set(r, [th[r] EXCEPT !.pc = "wr", !.ret = "errreply"])
     \/ /\ tp[t].closed /\ Ret(r, "wr", "closed") /\ UNCHANGED ob
     \/ /\ cl[ClientOf[r]].done /\ Ret(r, "wr", "closed") /\ UNCHANGED ob
     \/ /\ th[r].mode = "timed" /\ Ret(r, "wr", "timeout") /\ UNCHANGED ob
  /\ UNCHANGED <<qflag, qsw, qstarted, tp, cl, nreq, deliv, bad, cret, qret>> /\ Tau

WaitE(r) ==
  /\ th[r].pc = "wr"
  /\ LET v == th[r].ret IN
     /\ bad' = IF v = "reply" /\ th[r].echo # th[r].req THEN bad \cup {"crossTalk"} ELSE bad
     /\ IF v = "reply" THEN Goto(r, "got")
        ELSE IF v = "timeout" THEN Goto(r, "sent")
        ELSE Set(r, IdleTh)                         \* the message is abandoned, never freed
     /\ Emit([op |-> "WaitE", th |-> r, ret |-> v, echo |-> IF v = "reply" THEN th[r].echo ELSE 0])
  /\ UNCHANGED <<qflag, qsw, qstarted, tp, cl, ob, nreq, deliv, cret, qret>>

\* FreeMessage by the requester: after the reply was consumed, or after a send that did not enqueue
Free(r) ==
  /\ th[r].pc \in {"got", "fail"} \/ (FreeAfterTimeout /\ th[r].pc = "sent")
  /\ ob' = [ob EXCEPT ![th[r].m].st = "pool"]
  /\ Set(r, IdleTh)
  /\ UNCHANGED <<qflag, qsw, qstarted, tp, cl, nreq, deliv, bad, cret, qret>>
  /\ Emit([op |-> "Free", th |-> r, m |-> th[r].m])

\* the requester forgets its message without recycling it
Drop(r) ==
  /\ th[r].pc \in {"got", "fail", "sent"}
  /\ Set(r, IdleTh)
  /\ UNCHANGED <<qflag, qsw, qstarted, tp, cl, ob, nreq, deliv, bad, cret, qret>>
  /\ Emit([op |-> "Drop", th |-> r])

-----------------------------------------------------------------------------
\* Responder s (reads client.Recv())

RecvS(s) ==
  /\ th[s].pc = "idle"
  /\ Goto(s, "r1")
  /\ UNCHANGED <<qflag, qsw, qstarted, tp, cl, ob, nreq, deliv, bad, cret, qret>>
  /\ Emit([op |-> "RecvS", th |-> s])

R1(s) ==
  LET c == ClientOf[s] IN
  /\ th[s].pc = "r1"
  /\ \/ /\ cl[c].recv # <<>>
        /\ LET o == Head(cl[c].recv)
               p == ob[o].req IN          \* the payload is read when the message is received
           /\ cl' = [cl EXCEPT ![c].recv = Tail(@)]
           /\ Set(s, [th[s] EXCEPT !.pc = "rr", !.ret = "msg", !.m = o, !.req = p, !.wr = ob[o].wr])
           /\ deliv' = IF p \in DOMAIN deliv THEN [deliv EXCEPT ![p] = @ + 1] ELSE deliv
     \/ /\ cl[c].recv = <<>> /\ cl[c].rclosed
        /\ Ret(s, "rr", "closed") /\ UNCHANGED <<cl, deliv>>
  /\ UNCHANGED <<qflag, qsw, qstarted, tp, ob, nreq, bad, cret, qret>> /\ Tau

RecvE(s) ==
  /\ th[s].pc = "rr"
  /\ IF th[s].ret = "msg" THEN Goto(s, "hold") ELSE Goto(s, "end")
  /\ UNCHANGED <<qflag, qsw, qstarted, tp, cl, ob, nreq, deliv, bad, cret, qret>>
  /\ Emit([op |-> "RecvE", th |-> s, ret |-> th[s].ret, m |-> th[s].m, req |-> th[s].req, wr |-> th[s].wr])

\* msg.Reply(reply echoing the payload): one channel send into the message's reply slot
Reply(s) ==
  /\ th[s].pc = "hold" /\ th[s].wr
  /\ ob[th[s].m].slot = <<>>
  /\ ob' = [ob EXCEPT ![th[s].m].slot = << <<"ok", th[s].req>> >>]
  /\ Set(s, IdleTh)
  /\ UNCHANGED <<qflag, qsw, qstarted, tp, cl, nreq, deliv, bad, cret, qret>>
  /\ Emit([op |-> "Reply", th |-> s, m |-> th[s].m, req |-> th[s].req])

\* the responder never answers (slow / stopped module), or recycles an asynchronous message
Ignore(s) ==
  /\ th[s].pc = "hold"
  /\ Set(s, IdleTh)
  /\ UNCHANGED <<qflag, qsw, qstarted, tp, cl, ob, nreq, deliv, bad, cret, qret>>
  /\ Emit([op |-> "Ignore", th |-> s])

FreeAsync(s) ==
  /\ th[s].pc = "hold" /\ ~th[s].wr
  /\ ob' = [ob EXCEPT ![th[s].m].st = "pool"]
  /\ Set(s, IdleTh)
  /\ UNCHANGED <<qflag, qsw, qstarted, tp, cl, nreq, deliv, bad, cret, qret>>
  /\ Emit([op |-> "Free", th |-> s, m |-> th[s].m])

-----------------------------------------------------------------------------
\* The subscriber pump goroutine of client c (client.Sub)

Taken(c, x) == IF x = 0 \/ cl[c].closed          \* isEnd: sentinel / client closed
               THEN [cl EXCEPT ![c].pp = "exit"]
               ELSE [cl EXCEPT ![c].pp = "put", ![c].pi = x]

PumpOuter(c) ==
  LET t == SubOf[c] IN
  /\ cl[c].pp = "outer"
  /\ \/ /\ tp[t].high # <<>>
        /\ tp' = [tp EXCEPT ![t].high = Tail(@)] /\ cl' = Taken(c, Head(tp[t].high))
     \/ /\ tp[t].closed /\ cl' = [cl EXCEPT ![c].pp = "exit"] /\ UNCHANGED tp
     \/ /\ tp[t].high = <<>> /\ ~tp[t].closed /\ cl' = [cl EXCEPT ![c].pp = "inner"] /\ UNCHANGED tp
  /\ UNCHANGED <<qflag, qsw, qstarted, ob, th, nreq, deliv, bad, cret, qret>> /\ Tau

PumpInner(c) ==
  LET t == SubOf[c] IN
  /\ cl[c].pp = "inner"
  /\ \/ /\ tp[t].high # <<>>
        /\ tp' = [tp EXCEPT ![t].high = Tail(@)] /\ cl' = Taken(c, Head(tp[t].high))
     \/ /\ tp[t].low # <<>>
        /\ tp' = [tp EXCEPT ![t].low = Tail(@)] /\ cl' = Taken(c, Head(tp[t].low))
     \/ /\ cl[c].done /\ cl' = [cl EXCEPT ![c].pp = "exit"] /\ UNCHANGED tp
  /\ UNCHANGED <<qflag, qsw, qstarted, ob, th, nreq, deliv, bad, cret, qret>> /\ Tau

PumpPut(c) ==
  /\ cl[c].pp = "put" /\ Len(cl[c].recv) < RecvCap
  /\ cl' = [cl EXCEPT ![c].recv = Append(@, cl[c].pi), ![c].pp = "outer", ![c].pi = 0]
  /\ UNCHANGED <<qflag, qsw, qstarted, tp, ob, th, nreq, deliv, bad, cret, qret>> /\ Tau

-----------------------------------------------------------------------------
\* Closer k

CloseCS(k, c) ==
  /\ th[k].pc = "idle"
  /\ \A k2 \in Closers : th[k2].c # c          \* one Close per client at a time ...
  /\ c \notin cret                             \* ... and not again after it returned
  /\ Set(k, [IdleTh EXCEPT !.pc = "k1", !.c = c])
  /\ UNCHANGED <<qflag, qsw, qstarted, tp, cl, ob, nreq, deliv, bad, cret, qret>>
  /\ Emit([op |-> "CloseCS", th |-> k, c |-> c])

K1(k) == /\ th[k].pc = "k1"
         /\ IF cl[th[k].c].closed \/ SubOf[th[k].c] = 0 THEN Ret(k, "kr", "noop") ELSE Goto(k, "k2")
         /\ UNCHANGED <<qflag, qsw, qstarted, tp, cl, ob, nreq, deliv, bad, cret, qret>> /\ Tau
K2(k) == LET t == SubOf[th[k].c] IN
         /\ th[k].pc = "k2"
         /\ tp' = [tp EXCEPT ![t] = CloseT(@)]
         /\ Goto(k, "k3")
         /\ UNCHANGED <<qflag, qsw, qstarted, cl, ob, nreq, deliv, bad, cret, qret>> /\ Tau
K3(k) == /\ th[k].pc = "k3"
         /\ cl' = [cl EXCEPT ![th[k].c].done = TRUE]
         /\ Goto(k, "k4")
         /\ UNCHANGED <<qflag, qsw, qstarted, tp, ob, nreq, deliv, bad, cret, qret>> /\ Tau
K4(k) == /\ th[k].pc = "k4" /\ cl[th[k].c].pp = "exit"            \* wg.Wait()
         /\ Goto(k, "k5")
         /\ UNCHANGED <<qflag, qsw, qstarted, tp, cl, ob, nreq, deliv, bad, cret, qret>> /\ Tau
K5(k) == /\ th[k].pc = "k5"
         /\ cl' = [cl EXCEPT ![th[k].c].closed = TRUE, ![th[k].c].rclosed = TRUE]
         /\ Goto(k, "k6")
         /\ UNCHANGED <<qflag, qsw, qstarted, tp, ob, nreq, deliv, bad, cret, qret>> /\ Tau
\* the drain loop: every message left in recv is answered with ErrChannelClosed
K6(k) == LET c == th[k].c IN
         /\ th[k].pc = "k6"
         /\ IF cl[c].recv = <<>> THEN Ret(k, "kr", "ok") /\ UNCHANGED <<cl, ob>>
            ELSE LET o == Head(cl[c].recv) IN
                 /\ ob[o].slot = <<>>
                 /\ ob' = [ob EXCEPT ![o].slot = << <<"err", 0>> >>]
                 /\ cl' = [cl EXCEPT ![c].recv = Tail(@)]
                 /\ UNCHANGED th
         /\ UNCHANGED <<qflag, qsw, qstarted, tp, nreq, deliv, bad, cret, qret>> /\ Tau

CloseCE(k) ==
  /\ th[k].pc = "kr"
  /\ cret' = IF th[k].ret = "ok" THEN cret \cup {th[k].c} ELSE cret
  /\ Set(k, IdleTh)
  /\ UNCHANGED <<qflag, qsw, qstarted, tp, cl, ob, nreq, deliv, bad, qret>>
  /\ Emit([op |-> "CloseCE", th |-> k, c |-> th[k].c, ret |-> th[k].ret])

CloseQS(k) ==
  /\ th[k].pc = "idle" /\ ~qstarted /\ QueueClose
  /\ qstarted' = TRUE
  /\ Goto(k, IF FixCloseSweep THEN "q0" ELSE "q1")
  /\ UNCHANGED <<qflag, qsw, tp, cl, ob, nreq, deliv, bad, cret, qret>>
  /\ Emit([op |-> "CloseQS", th |-> k])
\* repaired code: isClose is stored first (under q.mu, but readers do not take the lock), then the sweep
Q0(k) == /\ th[k].pc = "q0"
         /\ qflag' = TRUE
         /\ Goto(k, "q1")
         /\ UNCHANGED <<qsw, qstarted, tp, cl, ob, nreq, deliv, bad, cret, qret>> /\ Tau
\* the sweep under q.mu
Q1(k) == /\ th[k].pc = "q1"
         /\ tp' = [t \in Topics |-> CloseT(tp[t])]
         /\ qsw' = TRUE
         /\ Goto(k, IF FixCloseSweep THEN "qr" ELSE "q2")
         /\ UNCHANGED <<qflag, qstarted, cl, ob, nreq, deliv, bad, cret, qret>> /\ Tau
\* code as found: isClose was stored after the sweep
Q2(k) == /\ th[k].pc = "q2"
         /\ qflag' = TRUE
         /\ Goto(k, "qr")
         /\ UNCHANGED <<qsw, qstarted, tp, cl, ob, nreq, deliv, bad, cret, qret>> /\ Tau
CloseQE(k) ==
  /\ th[k].pc = "qr"
  /\ qret' = TRUE
  /\ Set(k, IdleTh)
  /\ UNCHANGED <<qflag, qsw, qstarted, tp, cl, ob, nreq, deliv, bad, cret>>
  /\ Emit([op |-> "CloseQE", th |-> k])

-----------------------------------------------------------------------------

ReqInternal(r) == S1(r) \/ S2(r) \/ S3(r) \/ S4(r) \/ W1(r) \/ W2(r)
ReqStep(r) == \/ \E o \in Msgs, t \in ReqTopics, w \in WRs : FreshMin(o) /\ New(r, o, t, w, nreq + 1)
              \/ \E md \in SendModes : SendS(r, md)
              \/ \E md \in WaitModes : WaitS(r, md)
              \/ ReqInternal(r) \/ SendE(r) \/ WaitE(r) \/ Free(r) \/ Drop(r)
RespStep(s) == RecvS(s) \/ R1(s) \/ RecvE(s) \/ Reply(s) \/ Ignore(s) \/ FreeAsync(s)
PumpStep(c) == PumpOuter(c) \/ PumpInner(c) \/ PumpPut(c)
CloserStep(k) == \/ \E c \in CloseTargets : CloseCS(k, c)
                 \/ K1(k) \/ K2(k) \/ K3(k) \/ K4(k) \/ K5(k) \/ K6(k) \/ CloseCE(k)
                 \/ CloseQS(k) \/ Q0(k) \/ Q1(k) \/ Q2(k) \/ CloseQE(k)

Next == \/ \E r \in Requesters : ReqStep(r)
        \/ \E s \in Responders : RespStep(s)
        \/ \E c \in SubClients : PumpStep(c)
        \/ \E k \in Closers : CloserStep(k)

Spec == Init /\ [][Next]_vars
\* weak fairness of the steps of a call in progress only (nobody is obliged to start calls,
\* responders may stop answering, the pump and the closers need not be fair)
FairSpec == Spec /\ \A r \in Requesters : WF_vars(ReqInternal(r))

-----------------------------------------------------------------------------
\* The property

TypeOK == /\ \A o \in Msgs : Len(ob[o].slot) <= 1
          /\ \A t \in Topics : Len(tp[t].high) <= HighCap /\ Len(tp[t].low) <= LowCap
          /\ \A c \in Clients : Len(cl[c].recv) <= RecvCap

\* a Wait returns the reply produced for its own request (or an error)
ReplyToOwnRequest == "crossTalk" \notin bad
\* every request is received by the subscriber at most once
AtMostOnce == \A i \in 1..MaxReq : deliv[i] <= 1
\* a Send started after the return of a close that concerns it does not succeed
ErrAfterClose == "okAfterClose" \notin bad
\* under the contract the pool only holds messages with an empty reply slot
PoolClean == \A o \in Msgs : ob[o].st = "pool" => ob[o].slot = <<>>

InCall(r) == th[r].pc \in {"s1", "s2", "s3", "s4", "w1", "w2"}
CallTopic(r) == ob[th[r].m].topic
\* closes after which the call in progress must return
Trigger(r) == \/ qsw
              \/ tp[CallTopic(r)].closed
              \/ (th[r].pc \in {"w1", "w2"} /\ cl[ClientOf[r]].done)
ClosedCallsReturn == \A r \in Requesters : (InCall(r) /\ Trigger(r)) ~> ~InCall(r)
=============================================================================
