\* thorough: two requesters with overlapping requests on one topic while the subscriber client is closed
SPECIFICATION Spec
CONSTANTS
  Clients = {1, 2, 101}
  Topics = {1}
  Msgs = {1, 2}
  Requesters = {1, 2}
  Responders = {110}
  Closers = {201}
  HighCap = 1
  LowCap = 1
  RecvCap = 1
  MaxReq = 2
  SendModes = {"block"}
  WaitModes = {"block"}
  WRs = {TRUE}
  ReqTopics = {1}
  CloseTargets = {101}
  QueueClose = FALSE
  FixLowDone = TRUE
  FixCloseSweep = TRUE
  FreeAfterTimeout = FALSE
  EmitOn = FALSE
VIEW view
INVARIANTS TypeOK ReplyToOwnRequest AtMostOnce ErrAfterClose PoolClean
CHECK_DEADLOCK FALSE
