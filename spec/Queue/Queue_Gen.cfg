\* behaviour generation (-simulate): the call starts of each behaviour form a schedule for binding A
SPECIFICATION Spec
CONSTANTS
  Clients = {1, 2, 101, 102}
  Topics = {1, 2, 3}
  Msgs = {1, 2, 3, 4}
  Requesters = {1, 2, 51}
  Responders = {110, 120}
  Closers = {201, 202}
  HighCap = 2
  LowCap = 2
  RecvCap = 2
  MaxReq = 6
  SendModes = {"block", "zero", "timed"}
  WaitModes = {"block", "timed"}
  WRs = {TRUE, FALSE}
  ReqTopics = {1, 2, 3}
  CloseTargets = {1, 101, 102}
  QueueClose = TRUE
  FixLowDone = TRUE
  FixCloseSweep = TRUE
  FreeAfterTimeout = FALSE
  EmitOn = TRUE
CHECK_DEADLOCK FALSE
