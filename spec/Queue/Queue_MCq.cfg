SPECIFICATION Spec
CONSTANTS
  Clients = {1, 2, 3}
  Topics = {1, 2}
  Msgs = {1, 2}
  Requesters = {1, 2}
  Responders = {3}
  Closers = {4}
  ClientOf <- MCClientOf
  SubOf <- MCSubOf
  HighCap = 1
  LowCap = 1
  RecvCap = 1
  MaxReq = 2
  FixLowDone = TRUE
  FixCloseSweep = TRUE
  FreeAfterTimeout = FALSE
  EmitOn = FALSE
VIEW view
INVARIANTS TypeOK ReplyToOwnRequest AtMostOnce ErrAfterClose PoolClean
CHECK_DEADLOCK FALSE
