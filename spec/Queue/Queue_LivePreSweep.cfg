\* implementation without the Close-sweep repair: liveness expected to FAIL (topic created behind the sweep)
SPECIFICATION FairSpec
CONSTANTS
  Clients = {1, 2, 101}
  Topics = {1, 2}
  Msgs = {1, 2}
  Requesters = {1}
  Responders = {110}
  Closers = {201}
  HighCap = 1
  LowCap = 1
  RecvCap = 1
  MaxReq = 2
  SendModes = {"block"}
  WaitModes = {"block"}
  WRs = {TRUE, FALSE}
  ReqTopics = {1, 2}
  CloseTargets = {101}
  QueueClose = TRUE
  FixLowDone = TRUE
  FixCloseSweep = FALSE
  FreeAfterTimeout = FALSE
  EmitOn = FALSE
INVARIANTS TypeOK ReplyToOwnRequest AtMostOnce ErrAfterClose
PROPERTIES ClosedCallsReturn
CHECK_DEADLOCK FALSE
