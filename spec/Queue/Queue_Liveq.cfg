\* quick liveness: one request, all of client.Close / queue.Close
SPECIFICATION FairSpec
CONSTANTS
  Clients = {1, 2, 101}
  Topics = {1, 2}
  Msgs = {1, 2}
  Requesters = {1}
  Responders = {110}
  Closers = {201}
  HighCap = 1
  LowCap = 1
  RecvCap = 1
  MaxReq = 1
  SendModes = {"block", "zero", "timed"}
  WaitModes = {"block", "timed"}
  WRs = {TRUE, FALSE}
  ReqTopics = {1, 2}
  CloseTargets = {101}
  QueueClose = TRUE
  FixLowDone = TRUE
  FixCloseSweep = TRUE
  FreeAfterTimeout = FALSE
  EmitOn = FALSE
INVARIANTS TypeOK ReplyToOwnRequest AtMostOnce ErrAfterClose
PROPERTIES ClosedCallsReturn
CHECK_DEADLOCK FALSE
