\* quick B: one requester, the responder and one closer (client.Close of the subscriber, queue.Close), two topics
\* (topic 2 has no subscriber and is created on demand), all send/wait modes, both priorities
SPECIFICATION Spec
CONSTANTS
  Clients = {1, 2, 101}
  Topics = {1, 2}
  Msgs = {1, 2}
  Requesters = {1}
  Responders = {110}
  Closers = {201}
  HighCap = 1
  LowCap = 1
  RecvCap = 1
  MaxReq = 2
  SendModes = {"block", "zero", "timed"}
  WaitModes = {"block", "timed"}
  WRs = {TRUE, FALSE}
  ReqTopics = {1, 2}
  CloseTargets = {101}
  QueueClose = TRUE
  FixLowDone = TRUE
  FixCloseSweep = TRUE
  FreeAfterTimeout = FALSE
  EmitOn = FALSE
VIEW view
INVARIANTS TypeOK ReplyToOwnRequest AtMostOnce ErrAfterClose PoolClean
CHECK_DEADLOCK FALSE
