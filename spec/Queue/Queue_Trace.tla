---------------------------- MODULE Queue_Trace ----------------------------
(* Trace specification (bindings A and B): the driver logs the start and the  *)
(* end of every bus call (file order = real-time order of the log calls, per  *)
(* thread sequence numbers for reading); the state changes of a call are      *)
(* silent steps of Queue between its two events, so TLC searches for a        *)
(* linearisation that explains every recorded outcome.  Error codes are not   *)
(* compared (ok / error classes only; a timeout is kept apart because the     *)
(* requester may wait again).                                                 *)
EXTENDS Queue, TraceLib

VARIABLE l
tvars == <<vars, l>>

Ev == Trace[l]
IsEvent(e) == l <= Len(Trace) /\ Ev.ev = e /\ l' = l + 1
X == Ev.th

TInit == InitWith({}) /\ act = "" /\ l = 1

\* a new world: the Reset event lists the clients that exist
TReset ==
  LET P == SeqToSet(Ev.clients) IN
  /\ IsEvent("Reset")
  /\ qflag' = FALSE /\ qsw' = FALSE /\ qstarted' = FALSE
  /\ tp' = [t \in Topics |-> IF \E c \in P : SubOf[c] = t THEN OpenTopic ELSE NoTopic]
  /\ cl' = [c \in Clients |-> [done |-> FALSE, closed |-> FALSE, rclosed |-> FALSE, recv |-> <<>>,
                               pp |-> IF c \in P /\ SubOf[c] # 0 THEN "outer" ELSE "none", pi |-> 0]]
  /\ ob' = [o \in Msgs |-> [st |-> "new", req |-> 0, topic |-> 0, wr |-> FALSE, slot |-> <<>>]]
  /\ th' = [x \in Threads |-> IdleTh]
  /\ nreq' = 0 /\ deliv' = [i \in 1..MaxReq |-> 0] /\ bad' = {} /\ cret' = {} /\ qret' = FALSE
  /\ act' = act

TNew == IsEvent("New") /\ New(X, Ev.m, Ev.topic, Ev.wr, Ev.req)
TSendS == IsEvent("SendS") /\ SendS(X, Ev.mode)
TSendE == /\ IsEvent("SendE") /\ th[X].pc = "sr"
          /\ (Ev.ret = "ok") <=> (th[X].ret = "ok")
          /\ SendE(X)
TWaitS == IsEvent("WaitS") /\ WaitS(X, Ev.mode)
TWaitE == /\ IsEvent("WaitE") /\ th[X].pc = "wr"
          /\ CASE Ev.ret = "reply" -> th[X].ret = "reply" /\ th[X].echo = Ev.echo
               [] Ev.ret = "timeout" -> th[X].ret = "timeout"
               [] OTHER -> th[X].ret \in {"closed", "errreply"}
          /\ WaitE(X)
TFree == /\ IsEvent("Free") /\ th[X].m = Ev.m
         /\ IF X < 100 THEN Free(X) ELSE FreeAsync(X)
TDrop == IsEvent("Drop") /\ Drop(X)
TRecvS == IsEvent("RecvS") /\ RecvS(X)
TRecvE == /\ IsEvent("RecvE") /\ th[X].pc = "rr" /\ th[X].ret = Ev.ret
          /\ Ev.ret = "msg" => (th[X].m = Ev.m /\ th[X].req = Ev.req /\ th[X].wr = Ev.wr)
          /\ RecvE(X)
TReply == IsEvent("Reply") /\ th[X].m = Ev.m /\ Reply(X)
TIgnore == IsEvent("Ignore") /\ Ignore(X)
TCloseCS == IsEvent("CloseCS") /\ CloseCS(X, Ev.c)
TCloseCE == IsEvent("CloseCE") /\ th[X].c = Ev.c /\ CloseCE(X)
TCloseQS == IsEvent("CloseQS") /\ CloseQS(X)
TCloseQE == IsEvent("CloseQE") /\ CloseQE(X)

Internal == \/ \E r \in Requesters : ReqInternal(r)
            \/ \E s \in Responders : R1(s)
            \/ \E c \in SubClients : PumpStep(c)
            \/ \E k \in Closers : K1(k) \/ K2(k) \/ K3(k) \/ K4(k) \/ K5(k) \/ K6(k) \/ Q0(k) \/ Q1(k) \/ Q2(k)

TNext == \/ TReset \/ TNew \/ TSendS \/ TSendE \/ TWaitS \/ TWaitE \/ TFree \/ TDrop
         \/ TRecvS \/ TRecvE \/ TReply \/ TIgnore \/ TCloseCS \/ TCloseCE \/ TCloseQS \/ TCloseQE
         \/ (Internal /\ l' = l)
TSpec == TInit /\ [][TNext]_tvars

Mark == MarkHWM(l - 1)
=============================================================================
