\* anti-vacuity: a requester that breaks the FreeMessage contract (frees a sent message whose reply it did not consume) -> ReplyToOwnRequest must FAIL
SPECIFICATION Spec
CONSTANTS
  Clients = {1, 2, 101}
  Topics = {1}
  Msgs = {1, 2}
  Requesters = {1, 2}
  Responders = {110}
  Closers = {}
  HighCap = 1
  LowCap = 1
  RecvCap = 1
  MaxReq = 3
  SendModes = {"block"}
  WaitModes = {"block", "timed"}
  WRs = {TRUE}
  ReqTopics = {1}
  CloseTargets = {}
  QueueClose = FALSE
  FixLowDone = TRUE
  FixCloseSweep = TRUE
  FreeAfterTimeout = TRUE
  EmitOn = FALSE
VIEW view
INVARIANTS ReplyToOwnRequest
CHECK_DEADLOCK FALSE
