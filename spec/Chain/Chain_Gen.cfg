\* behaviour generation (simulation): random trees of 5 free blocks, random delivery orders with duplicates
SPECIFICATION Spec
CONSTANTS
  Trees <- Empty
  NGrow = 5
  GrowForks = {10, 11, 12}
  GrowWorks = {1, 2, 4}
  TrunkH = 12
  BaseH = 10
  Margin = 12
  Variants = {"g"}
  Pids = {"peer"}
  MaxDup = 2
  EmitOn = TRUE
CHECK_DEADLOCK FALSE
