\* C25 / C26 exhaustive, quick: every tree of 3 free blocks on 3 fork points (one below the margin), works 1..3
SPECIFICATION Spec
CONSTANTS
  Trees <- Empty
  NGrow = 3
  GrowForks = {10, 11, 12}
  GrowWorks = {1, 2, 3}
  TrunkH = 12
  BaseH = 10
  Margin = 12
  Variants = {"g"}
  Pids = {"peer"}
  MaxDup = 1000000
  EmitOn = FALSE
VIEW viewLite
INVARIANTS TypeOK Converged NoOrphanLeft SeqConsecutive SeqReplay SeqDelOK
PROPERTIES SeqAppendOnly
CHECK_DEADLOCK FALSE
