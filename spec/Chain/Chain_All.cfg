\* every delivery order (no duplicates) of the quick shapes; families/chain.py rewrites Trees for other tiers
SPECIFICATION ASpec
CONSTANTS
  Trees <- ShapesQ
  NGrow = 0
  GrowForks = {}
  GrowWorks = {}
  TrunkH = 12
  BaseH = 10
  Margin = 12
  Variants = {"g"}
  Pids = {"peer"}
  MaxDup = 0
  EmitOn = TRUE
INVARIANT Export
CHECK_DEADLOCK FALSE
