---------------------------- MODULE Chain_Cand ----------------------------
(* Which C27 clauses does the mechanism model refute?  Instead of letting   *)
(* TLC stop at the first violated invariant, an always-true invariant       *)
(* collects the names of the refuted clauses in a TLC register (needs       *)
(* -workers 1) and the postcondition prints them as "@@CAND <set>".  They   *)
(* are candidates only: what counts is what the real code shows.            *)
EXTENDS Chain_MC
ASSUME TLCSet(11, {})
Refuted == (IF RejectedUnchanged THEN {} ELSE {"RejectedUnchanged"}) \cup
           (IF NoPoison THEN {} ELSE {"NoPoison"}) \cup
           (IF NoServeRejected THEN {} ELSE {"NoServeRejected"}) \cup
           (IF NoReexec THEN {} ELSE {"NoReexec"})
CandMark == TLCSet(11, TLCGet(11) \cup Refuted)
CandPost == PrintT(<<"@@CAND", TLCGet(11)>>)
=============================================================================
