\* C25 / C26 exhaustive over the named shapes (4..6 free blocks), all delivery orders with duplicates
SPECIFICATION Spec
CONSTANTS
  Trees <- ShapesT
  NGrow = 0
  GrowForks = {}
  GrowWorks = {}
  TrunkH = 12
  BaseH = 10
  Margin = 12
  Variants = {"g"}
  Pids = {"peer"}
  MaxDup = 1000000
  EmitOn = FALSE
VIEW viewLite
INVARIANTS TypeOK Converged NoOrphanLeft SeqConsecutive SeqReplay SeqDelOK
PROPERTIES SeqAppendOnly
CHECK_DEADLOCK FALSE
