---------------------------- MODULE Chain_Trace ----------------------------
(* Trace specification (binding B): every delivery recorded from a real     *)
(* node must be a Deliver of the mechanism followed by its internal steps,   *)
(* and the reply and projection recorded afterwards must be the model's.     *)
EXTENDS Chain, TraceLib

VARIABLE l
tvars == <<vars, l>>

Ev == Trace[l]
IsEvent(e) == l <= Len(Trace) /\ Ev.ev = e /\ l' = l + 1

Empty0 == [n |-> 0, parent |-> <<>>, work |-> <<>>, kind |-> <<>>, tamper |-> <<>>]
NodeOf(n) == [Node0 EXCEPT !.pidOf = [b \in 1..n |-> "peer"], !.stored = [b \in 1..n |-> "none"]]

TInit == /\ l = 1 /\ tree = Empty0 /\ ns = NodeOf(0)
         /\ cur = NoX /\ best0 = Node0.best /\ delivered = {} /\ gdel = {} /\ ndup = 0 /\ act = ""

TReset == /\ IsEvent("Reset")
          /\ tree' = [n |-> Ev.n, parent |-> Ev.parent, work |-> Ev.work, kind |-> Ev.kind, tamper |-> Ev.tamper]
          /\ ns' = NodeOf(Ev.n)
          /\ cur' = NoX /\ best0' = Node0.best /\ delivered' = {} /\ gdel' = {} /\ ndup' = 0 /\ act' = act

TDeliver == /\ IsEvent("Deliver") /\ Deliver(Ev.b, Ev.v, Ev.pid)

TInternal == Internal /\ l' = l

TDone == /\ IsEvent("Done") /\ ns.phase = "idle"
         /\ Ev.err = ns.res.err
         /\ Has(Ev, "main") => (Ev.main = ns.res.main /\ Ev.orphan = ns.res.orphan)
         /\ Ev.tip = Tip(ns) /\ Ev.height = H(Tip(ns))
         /\ Ev.best = ns.best
         /\ Ev.last = ns.last
         /\ Ev.seq = [i \in 1..(ns.last - TrunkH) |-> ns.seqs[TrunkH + i]]
         /\ Ev.served = [b \in Free |-> ns.stored[b]]
         /\ Ev.inorph = [b \in Free |-> InOrph(ns, b)]
         /\ Ev.seqok = TRUE
         /\ UNCHANGED vars

TNext == TReset \/ TDeliver \/ TInternal \/ TDone
TSpec == TInit /\ [][TNext]_tvars

Mark == MarkHWM(l - 1)
=============================================================================
