------------------------------ MODULE Chain_MC ------------------------------
(* Tree sets for exhaustive checking / behaviour generation.                *)
EXTENDS Chain

Mk(p, w, k, t) == [n |-> Len(p), parent |-> p, work |-> w, kind |-> k, tamper |-> t]
AllOk(n) == [i \in 1..n |-> "ok"]
NoTamper(n) == [i \in 1..n |-> FALSE]

\* the empty tree: grown to NGrow blocks by Grow steps (every tree shape / a random one)
Empty == {Mk(<<>>, <<>>, <<>>, <<>>)}

\* named shapes (trunk tip 12; -10 / -11 / -12 are trunk blocks)
\* S1: two competing branches from the trunk tip, the second heavier per block
S1 == Mk(<<-12, 1, -12, 3>>, <<1, 1, 2, 2>>, AllOk(4), NoTamper(4))
\* S2: fork below the tip (heights 11..14 against trunk 11,12), fork of the fork
S2 == Mk(<<-10, 1, 2, 2, 4>>, <<1, 1, 1, 2, 2>>, AllOk(5), NoTamper(5))
\* S3: three branches from two fork points, equal work (ties on the way)
S3 == Mk(<<-11, 1, -12, 3, -11>>, <<1, 1, 1, 1, 4>>, AllOk(5), NoTamper(5))
\* S4: a long branch from below the margin and a short heavy one
S4 == Mk(<<-10, 1, 2, 3, -12, 5>>, <<1, 1, 1, 1, 2, 1>>, AllOk(6), NoTamper(6))
\* S5: 7 free blocks in 3 branches (the design's prototype shape)
S5 == Mk(<<-12, 1, 2, -12, 4, -11, 6>>, <<1, 1, 1, 2, 1, 2, 2>>, AllOk(7), NoTamper(7))
\* S6: bushy: four children of the tip with grandchildren
S6 == Mk(<<-12, -12, 1, 2, 2, 5>>, <<1, 2, 2, 1, 1, 1>>, AllOk(6), NoTamper(6))
ShapesQ == {S1, S2, S3}
ShapesT == {S1, S2, S3, S4, S6}
Shapes7 == {S5}

\* C27: a 3-block extension of the tip; block 2 may arrive with a tampered body; a sibling branch
T1 == Mk(<<-12, 1, 2>>, <<1, 1, 1>>, AllOk(3), <<FALSE, TRUE, FALSE>>)
\* the tamperable block is the first of a heavier side branch that wins only by reorganisation
T2 == Mk(<<-12, -12, 2>>, <<1, 1, 1>>, AllOk(3), <<FALSE, TRUE, FALSE>>)
\* a block that is invalid by itself (own hash) on a side branch that would be the heaviest
T3 == Mk(<<-12, -12, 2>>, <<1, 1, 1>>, <<"ok", "exec", "ok">>, NoTamper(3))
\* wrong header height, as a tip extension and with a child
T4 == Mk(<<-12, 1, -12>>, <<1, 1, 1>>, <<"height", "ok", "ok">>, NoTamper(3))
\* four blocks: tampered block deep in the losing-then-winning branch
T5 == Mk(<<-12, 1, -12, 3>>, <<1, 1, 1, 2>>, AllOk(4), <<FALSE, FALSE, TRUE, FALSE>>)
T6 == Mk(<<-11, 1, 2, -12>>, <<1, 1, 1, 1>>, <<"ok", "exec", "ok", "ok">>, <<TRUE, FALSE, FALSE, FALSE>>)
\* an invalid block below the margin delivered by the download pid is first kept as a side block, fails in a
\* reorganisation and is deleted from the index: its indexed child 2 dangles; 3 arrives as side / heavier block
T7 == Mk(<<-10, 1, 2, -11, 4>>, <<1, 4, 1, 4, 4>>, <<"exec", "ok", "ok", "ok", "ok">>, NoTamper(5))
BadQ == {T1, T2, T3, T4, T7}
BadT == {T1, T2, T3, T4, T5, T6, T7}
=============================================================================
