\* C27 mechanism exploration: tampered bodies behind genuine headers, invalid blocks, both pid classes.
\* INVARIANTS are appended by families/chain.py: TypeOK alone (reachable-state count), then each C27
\* clause separately (TLC is expected to refute them on the mechanism; the counterexamples are candidates).
SPECIFICATION Spec
CONSTANTS
  Trees <- BadT
  NGrow = 0
  GrowForks = {}
  GrowWorks = {}
  TrunkH = 12
  BaseH = 10
  Margin = 12
  Variants = {"g", "t"}
  Pids = {"peer", "download"}
  MaxDup = 0
  EmitOn = FALSE
VIEW view
CHECK_DEADLOCK FALSE
