SPECIFICATION TSpec
CONSTANTS
  Trees = {}
  NGrow = 0
  GrowForks = {}
  GrowWorks = {}
  TrunkH = 12
  BaseH = 10
  Margin = 12
  Variants = {"g", "t"}
  Pids = {"peer", "download"}
  MaxDup = 1000000
  EmitOn = FALSE
INVARIANTS Mark TypeOK SeqConsecutive SeqReplay SeqDelOK Converged NoOrphanLeft
POSTCONDITION TraceDone
CHECK_DEADLOCK FALSE
