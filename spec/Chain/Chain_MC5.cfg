\* C25 / C26 exhaustive, thorough: every tree of 5 free blocks hanging off the trunk tip, works 1..2, duplicates
SPECIFICATION Spec
CONSTANTS
  Trees <- Empty
  NGrow = 5
  GrowForks = {12}
  GrowWorks = {1, 2}
  TrunkH = 12
  BaseH = 10
  Margin = 12
  Variants = {"g"}
  Pids = {"peer"}
  MaxDup = 1000000
  EmitOn = FALSE
VIEW viewLite
INVARIANTS TypeOK Converged NoOrphanLeft SeqConsecutive SeqReplay SeqDelOK
PROPERTIES SeqAppendOnly
CHECK_DEADLOCK FALSE
