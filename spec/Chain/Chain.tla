------------------------------- MODULE Chain -------------------------------
(***************************************************************************)
(* Mechanism model of chain33's block acceptance (blockchain/process.go,   *)
(* orphanpool.go, blockstore.go):                                          *)
(*   ProcessBlock -> maybeAddBestChain -> maybeAcceptBlock ->              *)
(*   connectBestChain -> connectBlock / reorganizeChain, ProcessOrphans.   *)
(* Properties C25 (convergence to the heaviest branch), C26 (block         *)
(* sequence log) and C27 (invalid blocks: no side effects, no poisoning).  *)
(*                                                                         *)
(* The block tree is fixed per behaviour (variable `tree`, chosen in Init  *)
(* from the constant set Trees, or grown block by block before the first   *)
(* delivery, which enumerates every tree shape in exhaustive runs and      *)
(* draws a random one in simulation).                                      *)
(* A trunk genesis..TrunkH is already on    *)
(* the best chain (a tip below the finalisation margin is never adopted by *)
(* a reorganisation while nothing is finalised).  Trunk block at height h  *)
(* has id -h, free blocks are 1..tree.n with tree.parent[b] < b.           *)
(*   tree.work[b]   work of b (trunk blocks: work 1; total difficulty is   *)
(*                  the sum along the path; the harness uses difficulty    *)
(*                  bits whose work is exactly proportional)               *)
(*   tree.kind[b]   "ok"     valid block                                   *)
(*                  "exec"   a different (own hash) block that fails when  *)
(*                           executed: wrong tx root / state root / time,  *)
(*                           dropped, added or duplicated transaction      *)
(*                  "height" header height # parent height + 1             *)
(*   tree.tamper[b] b may also be delivered as variant "t": the genuine    *)
(*                  header (same block hash) with a different body, or     *)
(*                  with the genuine body and a block signature that does  *)
(*                  not verify (the signature is not covered by the hash); *)
(*                  the harness crosses the latter with the receiver's     *)
(*                  pool holding all / some / none of the transactions     *)
(*                                                                         *)
(* Modelled as the code does it (not as it should be): bodies are stored   *)
(* by hash before execution and never replaced while the header exists;    *)
(* an execution failure leaves errLog on the index node (pid "download":   *)
(* the node is deleted instead); a failure in the middle of a              *)
(* reorganisation leaves the chain where it stopped; an error while        *)
(* processing orphans aborts the processing of the remaining orphans.      *)
(*                                                                         *)
(* Deliberately not modelled: orphan expiry by wall clock and the orphan   *)
(* pool limit, index/cache eviction, finalisation (finalized = 0), the     *)
(* "self" pid (blocks from the node's own consensus), para-chain deletion, *)
(* database errors.  Error *codes* are abstracted to ok / exist / invalid. *)
(***************************************************************************)
EXTENDS Integers, Sequences, FiniteSets, Json, TLC

CONSTANTS Trees,     \* set of tree records
          TrunkH,    \* height of the trunk tip
          BaseH,     \* lowest trunk height a free block may attach to
          Margin,    \* finalisation margin (12 in connectBestChain)
          Variants,  \* body variants: "g" genuine, "t" tampered (same header hash)
          Pids,      \* peer classes: "peer", "download"
          MaxDup,    \* bound on repeated deliveries of the same (block, variant)
          NGrow,     \* trees with fewer free blocks are first grown to NGrow blocks (0: never), one
                     \* block per Grow step: any parent among GrowForks and the earlier blocks, any work
          GrowForks, \* trunk heights a grown block may attach to
          GrowWorks, \* works of grown blocks
          EmitOn     \* build the JSON action label (off in exhaustive runs)

VARIABLES tree, ns, cur, best0, delivered, gdel, ndup, act

vars == <<tree, ns, cur, best0, delivered, gdel, ndup, act>>
view == <<tree, ns, cur, best0, delivered, gdel, ndup>>
\* for configurations that check C25/C26 only: the reply, the delivered block and the duplicate
\* counter do not influence those properties, so repeated deliveries cost no states
viewLite == <<tree, IF ns.phase = "idle" THEN [ns EXCEPT !.res = [main |-> FALSE, orphan |-> FALSE, err |-> "ok"]] ELSE ns,
              delivered, gdel>>

-----------------------------------------------------------------------------
\* the tree

Free == 1..tree.n
Par(x) == IF x <= 0 THEN x + 1 ELSE tree.parent[x]
RECURSIVE H(_), TD(_)
H(x)  == IF x <= 0 THEN -x ELSE H(tree.parent[x]) + 1
TD(x) == IF x <= 0 THEN -x ELSE TD(tree.parent[x]) + tree.work[x]

RECURSIVE AncOK(_)
\* b and all its ancestors are valid blocks
AncOK(x) == IF x <= 0 THEN TRUE ELSE tree.kind[x] = "ok" /\ AncOK(tree.parent[x])

ExecOK(b, v) == b <= 0 \/ (tree.kind[b] = "ok" /\ v = "g")

-----------------------------------------------------------------------------
\* node state (record ns)
\*  index   free blocks in the in-memory block index
\*  errs    index nodes carrying errLog
\*  dangling  index nodes whose ancestry passes through a node that was deleted from the index
\*            (their parent pointers no longer reach the best chain: FindFork gives nil)
\*  pidOf   pid recorded on the index node
\*  stored  body variant kept in the database under the block's hash ("none": nothing)
\*  orph    orphan pool in arrival order: records [b, v, pid]
\*  best    ids of the main chain above BaseH
\*  seqs    block sequence log: seqno -> <<type, block>>
\*  last    last sequence number
\*  phase   "idle" | "reorg" | "orphans"
\*  queue   blocks whose orphan children are still to be processed (processHashes)
\*  reorg   remaining blocks to detach / attach, the block that triggered it
\*  res     reply of the delivery in progress
\*  rejected  <<block, variant>> pairs whose execution failed
\*  reexec    a rejected body was executed again

NoX == [b |-> 0, v |-> "g", pid |-> "peer"]
NoReorg == [det |-> <<>>, att |-> <<>>, x |-> NoX, top |-> FALSE]
Res(m, o, e) == [main |-> m, orphan |-> o, err |-> e]

Tip(s) == IF Len(s.best) = 0 THEN -BaseH ELSE s.best[Len(s.best)]
InBest(s, x) == IF x <= 0 THEN -x <= BaseH \/ (\E i \in 1..Len(s.best) : s.best[i] = x)
                ELSE \E i \in 1..Len(s.best) : s.best[i] = x
Known(s, x) == x <= 0 \/ x \in s.index
InOrph(s, b) == \E i \in 1..Len(s.orph) : s.orph[i].b = b

RECURSIVE Fork(_, _), Path(_, _)
Fork(s, x) == IF InBest(s, x) THEN x ELSE Fork(s, Par(x))
Path(f, b) == IF b = f THEN <<>> ELSE Append(Path(f, Par(b)), b)
\* main-chain blocks above the fork point, tip first
Det(s, f) == LET k == Len(s.best) - (H(f) - BaseH) IN
             [i \in 1..k |-> s.best[Len(s.best) + 1 - i]]

AddSeq(s, ty, b) == [s EXCEPT !.seqs = (s.last + 1 :> <<ty, b>>) @@ s.seqs, !.last = s.last + 1]

Front(q) == SubSeq(q, 1, Len(q) - 1)
RemoveOrph(q, b) == SelectSeq(q, LAMBDA r : r.b # b)

RECURSIVE IsAnc(_, _)
\* a is a proper ancestor of x
IsAnc(a, x) == IF x <= 0 THEN FALSE ELSE tree.parent[x] = a \/ IsAnc(a, tree.parent[x])

\* connectBlock failed for index node a (handleErrBlk): errLog, or for pid "download" the node is deleted
\* from the index, which leaves the index nodes below it dangling
HandleErr(s, a, v) ==
  LET s1 == IF s.pidOf[a] = "download"
            THEN [s EXCEPT !.index = s.index \ {a},
                           !.dangling = (s.dangling \ {a}) \cup {x \in s.index : IsAnc(a, x)}]
            ELSE [s EXCEPT !.errs = s.errs \cup {a}] IN
  [s1 EXCEPT !.rejected = s.rejected \cup {<<a, v>>},
             !.reexec = s.reexec \/ (<<a, v>> \in s.rejected)]

\* the block x (top: the delivered one, else an orphan) failed: error reply, nothing else is processed
Fail(s, e) == [s EXCEPT !.phase = "idle", !.res = Res(FALSE, FALSE, e), !.reorg = NoReorg, !.queue = <<>>]

\* ProcessOrphans bookkeeping: drop queue heads without orphan children; an empty queue ends the delivery
HasKids(s, p) == \E i \in 1..Len(s.orph) : Par(s.orph[i].b) = p
RECURSIVE Norm(_)
Norm(s) == IF s.queue = <<>> THEN [s EXCEPT !.phase = "idle"]
           ELSE IF HasKids(s, Head(s.queue)) THEN [s EXCEPT !.phase = "orphans"]
           ELSE Norm([s EXCEPT !.queue = Tail(s.queue)])

\* the block x was accepted (main chain or side chain)
Accepted(s, x, top, main) ==
  IF top THEN Norm([s EXCEPT !.res = Res(main, FALSE, "ok"), !.queue = <<x.b>>, !.reorg = NoReorg])
  ELSE Norm([s EXCEPT !.queue = Append(s.queue, x.b), !.reorg = NoReorg])

\* maybeAcceptBlock + connectBestChain for block x = [b, v, pid] whose parent is known
AcceptBlock(s, x, top) ==
  LET b == x.b IN
  IF tree.kind[b] = "height" THEN Fail(s, "invalid")
  ELSE
    LET s1 == [s EXCEPT !.stored[b] = IF s.stored[b] = "none" THEN x.v ELSE s.stored[b],
                        !.index = s.index \cup {b},
                        !.errs = s.errs \ {b},
                        !.pidOf[b] = x.pid] IN
    IF Par(b) \in s.dangling
    THEN \* no fork point with the best chain: refused, the new node is dropped again (the body stays stored)
         Fail([s1 EXCEPT !.index = s.index \ {b}], "invalid")
    ELSE
    IF Par(b) = Tip(s1)
    THEN IF ExecOK(b, x.v)
         THEN Accepted(AddSeq([s1 EXCEPT !.best = Append(s1.best, b), !.stored[b] = x.v], "add", b), x, top, TRUE)
         ELSE Fail(HandleErr(s1, b, x.v), "invalid")
    ELSE IF TD(b) <= TD(Tip(s1)) \/ H(b) < Margin
    THEN Accepted(s1, x, top, FALSE)
    ELSE LET f == Fork(s1, b) IN
         [s1 EXCEPT !.phase = "reorg",
                    !.reorg = [det |-> Det(s1, f), att |-> Path(f, b), x |-> x, top |-> top]]

-----------------------------------------------------------------------------
\* premise of C25 for a set of delivered <<block, variant>> pairs
Cands == Free \cup {-TrunkH}
Heaviest == CHOOSE x \in Cands : \A y \in Cands : TD(y) <= TD(x)
UniqueHeaviest == \A y \in Cands \ {Heaviest} : TD(y) < TD(Heaviest)
AllValid == \A b \in Free : tree.kind[b] = "ok"
ConvPremise(del) == /\ AllValid /\ UniqueHeaviest /\ H(Heaviest) >= Margin
                    /\ \A b \in Free : <<b, "g">> \in del /\ <<b, "t">> \notin del

\* what is observable at the end of a delivery
ChkJson(s) == [tip |-> Tip(s), height |-> H(Tip(s)), best |-> s.best, last |-> s.last,
               seq |-> [i \in 1..(s.last - TrunkH) |-> s.seqs[TrunkH + i]],
               served |-> [b \in Free |-> s.stored[b]],
               inorph |-> [b \in Free |-> InOrph(s, b)]]

\* the label of a step; the step that ends a delivery (phase back to idle) carries the reply
\* of ProcessBlock (ret), the observable projection (chk) and whether every block was delivered
\* fields of chk that carry the properties' own demands (evaluated by the harness on what the real
\* node shows, independently of this mechanism): final = "same" when C25 demands that the persisted
\* chain equals that of a fresh node fed only the heaviest branch; seqok: the real sequence log is
\* gap-free and replays to the real best chain (C26); prop: C27 clauses violated by the delivery (none).
Emit(r) == act' = IF ~EmitOn THEN ""
                  ELSE IF ns'.phase = "idle"
                       THEN ToJson(r @@ [fin |-> TRUE, ret |-> ns'.res,
                                         chk |-> ChkJson(ns') @@ [final |-> IF ConvPremise(delivered') THEN "same" ELSE "-",
                                                                  seqok |-> TRUE, prop |-> <<>>]])
                       ELSE ToJson(r @@ [fin |-> FALSE])

TreeJson == [op |-> "Tree", n |-> tree.n, parent |-> tree.parent, work |-> tree.work,
             kind |-> tree.kind, tamper |-> tree.tamper, trunk |-> TrunkH, base |-> BaseH]

Node0 == [index |-> {}, errs |-> {}, dangling |-> {}, pidOf |-> [b \in Free |-> "peer"],
          stored |-> [b \in Free |-> "none"], orph |-> <<>>,
          best |-> [i \in 1..(TrunkH - BaseH) |-> -(BaseH + i)],
          seqs |-> [i \in 0..TrunkH |-> <<"add", -i>>], last |-> TrunkH,
          phase |-> "idle", queue |-> <<>>, reorg |-> NoReorg, res |-> Res(FALSE, FALSE, "ok"),
          rejected |-> {}, reexec |-> FALSE]

Init == /\ tree \in Trees
        /\ ns = Node0
        /\ cur = NoX /\ best0 = Node0.best
        /\ delivered = {} /\ gdel = {} /\ ndup = 0
        /\ act = IF EmitOn THEN ToJson(TreeJson) ELSE ""

\* growing the tree (before anything is delivered)
Grow(p, w) ==
  /\ tree.n < NGrow /\ delivered = {}
  /\ p \in {-h : h \in GrowForks} \cup 1..tree.n /\ w \in GrowWorks
  /\ tree' = [n |-> tree.n + 1, parent |-> Append(tree.parent, p), work |-> Append(tree.work, w),
              kind |-> Append(tree.kind, "ok"), tamper |-> Append(tree.tamper, FALSE)]
  /\ ns' = [Node0 EXCEPT !.pidOf = [b \in 1..(tree.n + 1) |-> "peer"], !.stored = [b \in 1..(tree.n + 1) |-> "none"]]
  /\ UNCHANGED <<cur, best0, delivered, gdel, ndup>>
  /\ act' = IF EmitOn THEN ToJson([op |-> "Tree", n |-> tree'.n, parent |-> tree'.parent, work |-> tree'.work,
                                    kind |-> tree'.kind, tamper |-> tree'.tamper, trunk |-> TrunkH, base |-> BaseH])
            ELSE ""

\* ProcessBlock entry
Deliver(b, v, pid) ==
  /\ ns.phase = "idle" /\ tree.n >= NGrow
  /\ b \in Free /\ v \in Variants /\ pid \in Pids
  /\ v # "g" => tree.tamper[b]
  /\ pid = "download" => (tree.tamper[b] \/ tree.kind[b] # "ok")
  /\ IF <<b, v>> \in delivered THEN ndup < MaxDup /\ ndup' = ndup + 1 ELSE ndup' = ndup
  /\ cur' = [b |-> b, v |-> v, pid |-> pid]
  /\ best0' = ns.best
  /\ delivered' = delivered \cup {<<b, v>>}
  /\ gdel' = IF v = "g" THEN gdel \cup {b} ELSE gdel
  /\ LET x == [b |-> b, v |-> v, pid |-> pid] IN
     ns' = IF b \in ns.index THEN [ns EXCEPT !.res = Res(FALSE, FALSE, "exist")]
           ELSE IF InOrph(ns, b) /\ ~Known(ns, Par(b)) THEN [ns EXCEPT !.res = Res(FALSE, FALSE, "exist")]
           ELSE IF ~Known(ns, Par(b))
                THEN [ns EXCEPT !.orph = Append(ns.orph, x), !.res = Res(FALSE, TRUE, "ok")]
           ELSE AcceptBlock([ns EXCEPT !.orph = RemoveOrph(ns.orph, b)], x, TRUE)
  /\ UNCHANGED tree
  /\ Emit([op |-> "Deliver", b |-> b, v |-> v, pid |-> pid])

\* reorganizeChain: disconnect the old branch from the tip down ...
Disconnect ==
  /\ ns.phase = "reorg" /\ ns.reorg.det # <<>>
  /\ UNCHANGED <<tree, cur, best0, delivered, gdel, ndup>>
  /\ LET d == Head(ns.reorg.det) IN
     /\ d = Tip(ns)
     /\ ns' = AddSeq([ns EXCEPT !.best = Front(ns.best), !.reorg.det = Tail(ns.reorg.det)], "del", d)
     /\ Emit([op |-> "Disconnect", b |-> d])

\* ... then connect the new branch, executing the bodies loaded from the database
Connect ==
  /\ ns.phase = "reorg" /\ ns.reorg.det = <<>> /\ ns.reorg.att # <<>>
  /\ UNCHANGED <<tree, cur, best0, delivered, gdel, ndup>>
  /\ LET a == Head(ns.reorg.att)
         v == IF a <= 0 THEN "g" ELSE ns.stored[a]
         rest == Tail(ns.reorg.att) IN
     /\ Par(a) = Tip(ns)
     /\ IF ExecOK(a, v)
        THEN LET s1 == AddSeq([ns EXCEPT !.best = Append(ns.best, a), !.reorg.att = rest], "add", a) IN
             ns' = IF rest = <<>> THEN Accepted(s1, ns.reorg.x, ns.reorg.top, TRUE) ELSE s1
        ELSE ns' = Fail(HandleErr(ns, a, v), "invalid")
     /\ Emit([op |-> "Connect", b |-> a, ok |-> ExecOK(a, v)])

\* ProcessOrphans: breadth first over the accepted blocks, children in arrival order
OrphanStep ==
  /\ ns.phase = "orphans"
  /\ UNCHANGED <<tree, cur, best0, delivered, gdel, ndup>>
  /\ LET p == Head(ns.queue)
         kids == SelectSeq(ns.orph, LAMBDA r : Par(r.b) = p)
         c == Head(kids) IN
     /\ ns' = AcceptBlock([ns EXCEPT !.orph = RemoveOrph(ns.orph, c.b)], c, FALSE)
     /\ Emit([op |-> "Orphan", b |-> c.b])

Internal == Disconnect \/ Connect \/ OrphanStep
Next == \/ \E p \in {-h : h \in GrowForks} \cup 1..NGrow, w \in GrowWorks : Grow(p, w)
        \/ \E b \in Free, v \in Variants, pid \in Pids : Deliver(b, v, pid)
        \/ Internal

Spec == Init /\ [][Next]_vars

-----------------------------------------------------------------------------
\* Properties

Idle == ns.phase = "idle" /\ tree.n >= NGrow

TypeOK == /\ ns.errs \subseteq ns.index /\ ns.dangling \subseteq ns.index
          /\ \A i \in 1..Len(ns.best) : ns.best[i] \notin ns.dangling
          /\ ns.phase \in {"idle", "reorg", "orphans"}
          /\ ns.phase = "orphans" => (ns.queue # <<>> /\ HasKids(ns, Head(ns.queue)))
          /\ \A i \in 1..Len(ns.best) : H(ns.best[i]) = BaseH + i
          /\ \A i \in 1..Len(ns.best) : i > 1 => Par(ns.best[i]) = ns.best[i - 1]
          /\ Len(ns.best) > 0 => Par(ns.best[1]) = -BaseH
          \* everything on the main chain is a valid block with its genuine body stored
          /\ \A i \in 1..Len(ns.best) : ns.best[i] > 0 =>
                 /\ ns.best[i] \in ns.index /\ tree.kind[ns.best[i]] = "ok" /\ ns.stored[ns.best[i]] = "g"

\* ---- C25 ----
AllDelivered == \A b \in Free : <<b, "g">> \in delivered
BestOf(x) == Path(-BaseH, x)

\* once every block was delivered the best chain is the unique heaviest branch
\* (when its tip is at least the margin above the finalised height 0)
Converged == (Idle /\ ConvPremise(delivered)) => ns.best = BestOf(Heaviest)
\* anti-vacuity: refuted by TLC iff the premise of Converged is reachable
PremiseNeverHolds == ~(Idle /\ ConvPremise(delivered) /\ \E i \in 1..ns.last : ns.seqs[i][1] = "del")
NoOrphanLeft == (Idle /\ AllValid /\ AllDelivered /\ \A b \in Free : <<b, "t">> \notin delivered) => ns.orph = <<>>

\* ---- C26 ----
RECURSIVE Replay(_, _)
\* the chain obtained by replaying sequence records 0..k (whole chain, genesis first)
Replay(s, k) == IF k < 0 THEN <<>>
                ELSE LET c == Replay(s, k - 1) r == s.seqs[k] IN
                     IF r[1] = "add" THEN Append(c, r[2]) ELSE Front(c)
FullBest(s) == [i \in 1..(BaseH + 1 + Len(s.best)) |-> IF i <= BaseH + 1 THEN -(i - 1) ELSE s.best[i - BaseH - 1]]
SeqConsecutive == DOMAIN ns.seqs = 0..ns.last
SeqReplay == Replay(ns, ns.last) = FullBest(ns)
\* a delete record always removes the block that is the tip at that point of the log
RECURSIVE DelWellFormed(_, _)
DelWellFormed(s, k) == IF k < 0 THEN TRUE
                       ELSE /\ DelWellFormed(s, k - 1)
                            /\ LET c == Replay(s, k - 1) r == s.seqs[k] IN
                               r[1] = "del" => (Len(c) > 0 /\ c[Len(c)] = r[2])
SeqDelOK == DelWellFormed(ns, ns.last)
\* numbers are never reused: a step appends, it never rewrites
SeqAppendOnly == [][/\ ns'.last >= ns.last
                    /\ \A i \in 0..ns.last : ns'.seqs[i] = ns.seqs[i]]_vars

\* ---- C27 ----
\* (a) a delivery that is not a fully valid block leaves the best chain unchanged
FullyValid(b, v) == v = "g" /\ AncOK(b)
RejectedUnchanged == (Idle /\ cur.b > 0 /\ ~FullyValid(cur.b, cur.v)) => ns.best = best0
\* (b) a valid block whose genuine body was delivered while its parent is known is accepted:
\*     indexed without error mark, and its genuine body is what the store holds
AcceptedOK(b) == b \in ns.index /\ b \notin ns.errs /\ ns.stored[b] = "g"
NoPoison == Idle => \A b \in gdel : (AncOK(b) /\ Known(ns, Par(b)) /\ ~InOrph(ns, b)) => AcceptedOK(b)
\* (c) a rejected body is neither served under the block's hash nor executed again
NoServeRejected == Idle => \A p \in ns.rejected : ns.stored[p[1]] # p[2]
NoReexec == ~ns.reexec
=============================================================================
