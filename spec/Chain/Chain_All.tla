----------------------------- MODULE Chain_All -----------------------------
(* Exhaustive behaviour export: the history of action labels is part of the *)
(* state; every complete delivery history (each allowed <<block, variant>>  *)
(* delivered exactly once, node idle) is printed once as "@@B <json>".      *)
EXTENDS Chain_MC
VARIABLE hist
AInit == Init /\ hist = <<act>>
ANext == Next /\ hist' = Append(hist, act')
ASpec == AInit /\ [][ANext]_<<vars, hist>>
Alphabet == {<<b, v>> \in Free \X Variants : v = "g" \/ tree.tamper[b]}
Complete == ns.phase = "idle" /\ tree.n >= NGrow /\ tree.n > 0 /\ delivered = Alphabet
Export == Complete => PrintT(<<"@@B", ToJson(hist)>>)
=============================================================================
