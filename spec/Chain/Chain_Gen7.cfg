\* behaviour generation (simulation): random delivery orders with duplicates of the 7-block shape
SPECIFICATION Spec
CONSTANTS
  Trees <- Shapes7
  NGrow = 0
  GrowForks = {10, 11, 12}
  GrowWorks = {1, 2, 4}
  TrunkH = 12
  BaseH = 10
  Margin = 12
  Variants = {"g"}
  Pids = {"peer"}
  MaxDup = 2
  EmitOn = TRUE
CHECK_DEADLOCK FALSE
