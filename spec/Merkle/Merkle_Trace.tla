---------------------------- MODULE Merkle_Trace ----------------------------
(* Trace specification (binding B) for C18.  The recorder pushes seeded random *)
(* lists of leaves through the real root / branch functions; a root is logged  *)
(* as a small id in first-seen order (equal bytes <=> equal id).  Every event  *)
(* must agree with the model:                                                  *)
(*   Root   the code's root id is bound to the model tree of the list, computed*)
(*          by the transcription of the PARALLEL algorithm under the logged    *)
(*          worker count; ids and trees correspond one to one, i.e. the code   *)
(*          considers two lists equal exactly when the model does; and when    *)
(*          two different lists share a root, the longer one was flagged       *)
(*   Branch the inclusion branch verified against the root                     *)
(* seen[rid] = [tree, lists: the set of [list, flag] logged with that root]    *)
EXTENDS Merkle, TraceLib

VARIABLES seen, l
tvars == <<seen, l>>

Ev == Trace[l]
IsEvent(e) == l <= Len(Trace) /\ Ev.ev = e /\ l' = l + 1

ToLeaves(ids) == [i \in 1..Len(ids) |-> Leaf(ids[i])]

TInit == seen = <<>> /\ l = 1      \* seen: function over the root ids 1..k seen so far (a sequence)

TReset == IsEvent("Reset") /\ seen' = <<>>

TRoot ==
  /\ IsEvent("Root")
  /\ LET list == ToLeaves(Ev.list)
         T    == ChunkRoot(list, Ev.w)
         rid  == Ev.ret
         old  == IF rid \in DOMAIN seen THEN seen[rid].lists ELSE {}
     IN /\ rid \in 1..(Len(seen) + 1)
        /\ \A r \in DOMAIN seen : (seen[r].tree = T) <=> (r = rid)
        /\ \A e \in old :
              /\ e.list = list => e.flag = Ev.mutated
              /\ e.list # list =>
                   /\ Len(e.list) # Len(list)
                   /\ Len(e.list) < Len(list) => Ev.mutated = TRUE
                   /\ Len(e.list) > Len(list) => e.flag = TRUE
        /\ seen' = IF rid \in DOMAIN seen
                   THEN [seen EXCEPT ![rid].lists = @ \cup {[list |-> list, flag |-> Ev.mutated]}]
                   ELSE Append(seen, [tree |-> T, lists |-> {[list |-> list, flag |-> Ev.mutated]}])

TBranch ==
  /\ IsEvent("Branch")
  /\ LET list == ToLeaves(Ev.list) IN
       /\ Ev.pos \in 0..(Len(list) - 1)
       /\ Ev.ret = (FromBranch(Branch(list, Ev.pos), list[Ev.pos + 1], Ev.pos) = SeqRoot(list))
       /\ Ev.ret = TRUE
  /\ UNCHANGED seen

TNext == TReset \/ TRoot \/ TBranch
TSpec == TInit /\ [][TNext]_tvars

Mark == MarkHWM(l - 1)
\* the binding table is one to one at every step
OneToOne == \A r1, r2 \in DOMAIN seen : seen[r1].tree = seen[r2].tree => r1 = r2
=============================================================================
