---------------------------- MODULE Merkle_Bind ----------------------------
(* C18, third sentence: two lists have the same root only if they are equal   *)
(* or related by the duplicated-tail pattern, and then the computation flags  *)
(* the longer one as mutated.  Checked for EVERY pair of lists of the domain: *)
(* lists Leaves(Base) \o x, x over the last Alpha leaf ids (all lists over    *)
(* 1..Alpha when Base = 0), |x| <= MaxLen.  One TLC state per list.           *)
EXTENDS Merkle, Json

CONSTANTS Base, Alpha, MaxLen, ExportOn

VARIABLE l
vars == <<l>>

Letters == IF Base = 0 THEN {Leaf(a) : a \in 1..Alpha}
           ELSE {Leaf(a) : a \in {b \in (Base - Alpha + 1)..Base : b >= 1}}
Tails(k) == UNION {[1..j -> Letters] : j \in 0..k}
Domain == {Leaves(Base) \o x : x \in Tails(MaxLen)} \ {<<>>}

Init == l = Leaves(Base)
Next == Len(l) < Base + MaxLen /\ \E a \in Letters : l' = Append(l, a)
Spec == Init /\ [][Next]_vars

\* the two lists have a common explicit expansion
Related(l1, l2) == DupClosure({l1}) \cap DupClosure({l2}) # {}

\* the root of every list of the domain (a constant: TLC evaluates it once)
DomRoots == [x \in Domain |-> SeqRoot(x)]

Pair(l1, l2) ==        \* Len(l1) <= Len(l2)
  DomRoots[l1] = DomRoots[l2] =>
     \/ l1 = l2
     \/ Len(l1) < Len(l2) /\ Related(l1, l2) /\ Mutated(l2)

\* every longer-or-equal list of the domain against l (the relation is symmetric)
Binding == l # <<>> => \A l2 \in Domain : Len(l2) >= Len(l) => Pair(l, l2)
\* conversely the pattern does collide (this is the flaw the flag exists for), so
\* the first disjunct alone would be wrong: anti-vacuity of Binding
Collides == l # <<>> => \A l2 \in DupClosure({l}) : SeqRoot(l2) = SeqRoot(l) /\ (l2 # l => Mutated(l2))
RootsAgree == l # <<>> => CompRoot(l) = SeqRoot(l)

-----------------------------------------------------------------------------
Ids(s) == [i \in 1..Len(s) |-> s[i][1]]
SetToSeqL(S) == LET RECURSIVE f(_) f(T) == IF T = {} THEN <<>> ELSE LET x == CHOOSE y \in T : TRUE IN <<x>> \o f(T \ {x}) IN f(S)

PairStep(a, b) == LET eq == SeqRoot(a) = SeqRoot(b) IN
  [op |-> "Pair", a |-> Ids(a), b |-> Ids(b),
   ret |-> [eq |-> eq, flag |-> IF eq /\ a # b THEN Mutated(b) ELSE "*"]]

\* partners exported for l: every colliding longer list of the domain, every expansion,
\* and two near misses (last element changed / one more element)
Partners == {l2 \in Domain : Len(l2) > Len(l) /\ DomRoots[l2] = DomRoots[l]}
            \cup (DupClosure({l}) \ {l})
NearMiss == {[l EXCEPT ![Len(l)] = Leaf(l[Len(l)][1] + 1)], Append(l, l[Len(l)])}
Steps == LET ps == SetToSeqL(Partners \cup NearMiss) IN [i \in 1..Len(ps) |-> PairStep(l, ps[i])]
Export == (ExportOn /\ l # <<>>) => PrintT(<<"@@B", ToJson(Steps)>>)
=============================================================================
