----------------------------- MODULE Merkle_MC -----------------------------
(* Exhaustive check of the C18 algebra for every leaf count 1..MaxN and every *)
(* worker count that yields a distinct chunk size.  One TLC state per leaf    *)
(* count (n advances by Stride from Stride initial states, so workers share   *)
(* the levels); the work is in the invariants.                                *)
EXTENDS Merkle, Json

CONSTANTS MaxN,       \* largest leaf count
          Stride,     \* number of initial states
          MaxW,       \* worker counts 1..MaxW
          BranchAll,  \* every position's branch is checked for n <= BranchAll
          ExportAll,  \* export: every position's branch is exported for n <= ExportAll
          ExportNs    \* export: the leaf counts to export (Merkle_Gen only)

VARIABLE n
vars == <<n>>

Init == n \in 1..Stride
Next == n + Stride <= MaxN /\ n' = n + Stride
Spec == Init /\ [][Next]_vars

\* the smallest worker count for every distinct chunk size of n leaves (w = 1 is sequential)
\* (StepOf is non-increasing in w, so these are the w at which the chunk size changes)
Workers(k) == {1, 2} \cup {w \in 3..MaxW : StepOf(k, w) # StepOf(k, w - 1)}

\* positions whose branch is checked for large n: the first, the middle, and positions at growing
\* distances from the right edge (odd-sized levels put the self-paired node at the right edge)
Pos(k) == IF k <= BranchAll THEN 0..(k - 1)
          ELSE {p \in {0, k \div 2} \cup {k - 2 ^ j : j \in {0, 1, 2, 5, 9}} : p >= 0 /\ p < k}

ParEqSeq  == \A w \in Workers(n) : ChunkRoot(Leaves(n), w) = SeqRoot(Leaves(n))
CompEqSeq == LET c == Comp(Leaves(n), -1) IN c.root = SeqRoot(Leaves(n)) /\ ~c.mutated
BranchOK  == \A p \in Pos(n) : FromBranch(Branch(Leaves(n), p), Leaf(p + 1), p) = SeqRoot(Leaves(n))
\* (~c.mutated: distinct leaves are never flagged -- sanity of the transcription, not part of the property)
\* the capped regime inside TLC's bounds: scaled tuning constants (cap 2, 4, 8 in the role of the
\* code's 256; sequential threshold 1 and 5 in the role of 80), every worker count
ScaledMax == 72
ScaledParEqSeq == n <= ScaledMax =>
   \A cap \in {2, 4, 8}, sm \in {1, 5}, w \in 2..(n + 1) :
      ChunkRootC(Leaves(n), w, cap, sm) = SeqRoot(Leaves(n))
\* ... and the tuning constants are not arbitrary: the cap MUST be a power of two (with cap 5 or 6
\* the chunks stop being subtrees), and a single leaf must stay on the sequential path (the chunked
\* path would pair it with itself)
CapMustBePow2 == /\ IsPow2(CodeCap) /\ CodeSeqMax >= 1
                 /\ ChunkRootC(Leaves(20), 2, 5, 1) # SeqRoot(Leaves(20))
                 /\ ChunkRootC(Leaves(27), 2, 6, 1) # SeqRoot(Leaves(27))
                 /\ ChunkRootC(Leaves(1), 2, 4, 0) # SeqRoot(Leaves(1))
\* a list and its explicit duplicated-tail expansions collide, and every expansion is flagged
DupFlag   == n <= BranchAll => \A l \in DupClosure({Leaves(n)}) \ {Leaves(n)} :
                                  SeqRoot(l) = SeqRoot(Leaves(n)) /\ Mutated(l) /\ CompRoot(l) = SeqRoot(l)

-----------------------------------------------------------------------------
\* behaviour export: one behaviour per leaf count
SetToSeq(S) == [i \in 1..Cardinality(S) |-> CHOOSE x \in S : Cardinality({y \in S : y < x}) = i - 1]
Ids(l) == [i \in 1..Len(l) |-> l[i][1]]

RootStep(k) == [op |-> "Root", n |-> k, ws |-> SetToSeq(Workers(k)), tree |-> Shape(SeqRoot(Leaves(k))),
                ret |-> [seq |-> "T", comp |-> "T", par |-> [i \in 1..Cardinality(Workers(k)) |-> "T"]]]
BranchStep(k, p) == LET b == Branch(Leaves(k), p) IN
                    [op |-> "Branch", n |-> k, pos |-> p, branch |-> [i \in 1..Len(b) |-> Shape(b[i])],
                     ret |-> [branch |-> "T", verify |-> "T"]]
ExpPos(k) == IF k <= ExportAll THEN 0..(k - 1) ELSE Pos(k)
Steps(k) == <<RootStep(k)>> \o [i \in 1..Cardinality(ExpPos(k)) |-> BranchStep(k, SetToSeq(ExpPos(k))[i])]

Export == n \in ExportNs => PrintT(<<"@@B", ToJson(Steps(n))>>)
=============================================================================
