----------------------------- MODULE Merkle_MC -----------------------------
(* Exhaustive check of the C18 algebra for every leaf count 1..MaxN and every *)
(* worker count that yields a distinct chunk size.  One TLC state per leaf    *)
(* count (n advances by Stride from Stride initial states, so workers share   *)
(* the levels); the work is in the invariants.                                *)
EXTENDS Merkle, Json

CONSTANTS MaxN,       \* largest leaf count
          Stride,     \* number of initial states
          MaxW,       \* worker counts 1..MaxW
          BranchAll,  \* every position's branch is checked for n <= BranchAll
          ExportAll,  \* export: every position's branch is exported for n <= ExportAll
          ExportNs    \* export: the leaf counts to export (Merkle_Gen only)

VARIABLE n
vars == <<n>>

Init == n \in 1..Stride
Next == n + Stride <= MaxN /\ n' = n + Stride
Spec == Init /\ [][Next]_vars

\* the smallest worker count for every distinct chunk size of n leaves (w = 1 is sequential)
\* (StepOf is non-increasing in w, so these are the w at which the chunk size changes)
Workers(k) == {1, 2} \cup {w \in 3..MaxW : StepOf(k, w) # StepOf(k, w - 1)}

\* positions whose branch is checked for large n: the first, the middle, and positions at growing
\* distances from the right edge (odd-sized levels put the self-paired node at the right edge)
Pos(k) == IF k <= BranchAll THEN 0..(k - 1)
          ELSE {p \in {0, k \div 2} \cup {k - 2 ^ j : j \in {0, 1, 2, 3, 5, 7, 9}} : p >= 0 /\ p < k}

ParEqSeq  == \A w \in Workers(n) : ChunkRoot(Leaves(n), w) = SeqRoot(Leaves(n))
CompEqSeq == CompRoot(Leaves(n)) = SeqRoot(Leaves(n))
BranchOK  == \A p \in Pos(n) : FromBranch(Branch(Leaves(n), p), Leaf(p + 1), p) = SeqRoot(Leaves(n))
\* distinct leaves are never flagged (sanity of the transcription, not part of the property)
NoFlag    == ~Mutated(Leaves(n))
\* a list and its explicit duplicated-tail expansions collide, and every expansion is flagged
DupFlag   == n <= BranchAll => \A l \in DupClosure({Leaves(n)}) \ {Leaves(n)} :
                                  SeqRoot(l) = SeqRoot(Leaves(n)) /\ Mutated(l) /\ CompRoot(l) = SeqRoot(l)

-----------------------------------------------------------------------------
\* behaviour export: one behaviour per leaf count
SetToSeq(S) == [i \in 1..Cardinality(S) |-> CHOOSE x \in S : Cardinality({y \in S : y < x}) = i - 1]
Ids(l) == [i \in 1..Len(l) |-> l[i][1]]

RootStep(k) == [op |-> "Root", n |-> k, ws |-> SetToSeq(Workers(k)), tree |-> Shape(SeqRoot(Leaves(k))),
                ret |-> [seq |-> "T", comp |-> "T", par |-> [i \in 1..Cardinality(Workers(k)) |-> "T"]]]
BranchStep(k, p) == LET b == Branch(Leaves(k), p) IN
                    [op |-> "Branch", n |-> k, pos |-> p, branch |-> [i \in 1..Len(b) |-> Shape(b[i])],
                     ret |-> [branch |-> "T", verify |-> "T"]]
ExpPos(k) == IF k <= ExportAll THEN 0..(k - 1) ELSE Pos(k)
Steps(k) == <<RootStep(k)>> \o [i \in 1..Cardinality(ExpPos(k)) |-> BranchStep(k, SetToSeq(ExpPos(k))[i])]

Export == n \in ExportNs => PrintT(<<"@@B", ToJson(Steps(n))>>)
=============================================================================
