SPECIFICATION TSpec
INVARIANTS Mark OneToOne
POSTCONDITION TraceDone
CHECK_DEADLOCK FALSE
