SPECIFICATION Spec
CONSTANTS
  MaxN = 300
  Stride = 8
  MaxW = 160
  BranchAll = 48
  ExportAll = 0
  ExportNs = {}
INVARIANTS ParEqSeq CompEqSeq BranchOK NoFlag DupFlag
CHECK_DEADLOCK FALSE
