--------------------------- MODULE Merkle_Regime ---------------------------
(* C18 at the boundaries of the chunk-size regimes of the code's real tuning   *)
(* constants (cap 256, sequential below 81): for the given (leaf count, worker *)
(* count) pairs -- leaf counts around 256w, 512w, 1024w, 2048w, 4096w -- the   *)
(* chunked root equals the sequential root.  Only the two root algorithms are  *)
(* evaluated here (they are cheap in TLC even for tens of thousands of leaves; *)
(* the constant-space computation is covered by Merkle_MC up to its bound).    *)
(* One TLC state per pair.                                                     *)
EXTENDS Merkle, Json

CONSTANTS NW,         \* set of <<n, w>>
          ExportMax   \* the tree shape is exported for n <= ExportMax

VARIABLE p
vars == <<p>>
Init == p \in NW
Next == FALSE /\ UNCHANGED vars
Spec == Init /\ [][Next]_vars

RegimeEq == ChunkRoot(Leaves(p[1]), p[2]) = SeqRoot(Leaves(p[1]))
\* the pair really is in the chunked path, and the step is the one the regime name says
Chunked == p[1] > CodeSeqMax /\ p[2] >= 2 /\ IsPow2(StepOf(p[1], p[2]))

Steps == IF p[1] <= ExportMax
         THEN <<[op |-> "Root", n |-> p[1], ws |-> <<1, p[2]>>, tree |-> Shape(SeqRoot(Leaves(p[1]))),
                 ret |-> [seq |-> "T", comp |-> "T", par |-> <<"T", "T">>]],
                [op |-> "Regime", n |-> p[1], w |-> p[2], ret |-> "same"]>>
         ELSE <<[op |-> "Regime", n |-> p[1], w |-> p[2], ret |-> "same"]>>
Export == PrintT(<<"@@B", ToJson(Steps)>>)
=============================================================================
