SPECIFICATION Spec
CONSTANTS
  NW <- MCPairs
  ExportMax = 1100
INVARIANTS RegimeEq Chunked Export
CHECK_DEADLOCK FALSE
