---------------------------- MODULE Merkle_Multi ----------------------------
(* C18, second sentence, multi-chain part: for every list of transactions     *)
(* tagged main / parachain the reported child chains tile the list, the block *)
(* root is the root over the child roots, and the two-level proof of every    *)
(* transaction verifies.  Transaction id i belongs to chain ChainOf[i].       *)
(* One TLC state per transaction list (all lists up to MaxLen).               *)
EXTENDS Merkle, Json

CONSTANTS ChainOf,   \* chain of transaction id i (0 = main chain)
          MaxLen,    \* all lists up to this length (Spec)
          Sizes,     \* SpecBig: sorted lists <<main, para 1, para 2>> sizes
          ExportOn

VARIABLE txs
vars == <<txs>>

Init == txs = <<>>
Next == Len(txs) < MaxLen /\ \E i \in 1..Len(ChainOf) : txs' = Append(txs, <<i, ChainOf[i]>>)
Spec == Init /\ [][Next]_vars

\* second configuration: sorted lists (as types.TransactionSort produces them) with large child chains,
\* so that the per-chain roots take the chunked path in the code
BuildSorted(k, a, b) == [i \in 1..(k + a + b) |-> <<i, IF i <= k THEN 0 ELSE IF i <= k + a THEN 1 ELSE 2>>]
InitBig == txs \in {BuildSorted(s[1], s[2], s[3]) : s \in Sizes}
NextBig == FALSE /\ UNCHANGED vars
SpecBig == InitBig /\ [][NextBig]_vars

Sg == Segments(txs)
Tiles == txs # <<>> =>
  /\ Len(Sg) >= 1 /\ Sg[1].start = 0
  /\ \A j \in 1..Len(Sg) : Sg[j].count >= 1
  /\ \A j \in 1..(Len(Sg) - 1) : Sg[j].start + Sg[j].count = Sg[j + 1].start
  /\ Sg[Len(Sg)].start + Sg[Len(Sg)].count = Len(txs)
\* in a sorted list (main first, then each parachain contiguous) the child chains are the maximal runs
Sorted == \A i \in 1..(Len(txs) - 1) : txs[i][2] <= txs[i + 1][2]
RunsWhenSorted == (txs # <<>> /\ Sorted) =>
  /\ \A j \in 1..Len(Sg) : \A p \in Sg[j].start..(Sg[j].start + Sg[j].count - 1) : txs[p + 1][2] = Sg[j].title
  /\ \A j \in 1..(Len(Sg) - 1) : Sg[j].title # Sg[j + 1].title
\* positions whose proof is checked: all of a short list; of a long one the first, middle and last of every child chain
PosV == IF Len(txs) <= 12 THEN 0..(Len(txs) - 1)
        ELSE UNION {{Sg[j].start, Sg[j].start + Sg[j].count \div 2, Sg[j].start + Sg[j].count - 1} : j \in 1..Len(Sg)}
ProofsVerify == \A p \in PosV : VerifyMulti(txs, p) = MultiRoot(txs)
\* the root is the root of the child roots (one child: the child root itself)
RootOfChildren == txs # <<>> => MultiRoot(txs) = SeqRoot(ChildRoots(txs))

-----------------------------------------------------------------------------
SetToSeqN(S) == [i \in 1..Cardinality(S) |-> CHOOSE x \in S : Cardinality({y \in S : y < x}) = i - 1]
SegJson == [j \in 1..Len(Sg) |-> <<Sg[j].title, Sg[j].start, Sg[j].count>>]
ProofJson(p) == LET pr == MultiProof(txs, p) IN
  [p |-> p, txbranch |-> [i \in 1..Len(pr.txbranch) |-> Shape(pr.txbranch[i])], txidx |-> pr.txidx,
   chbranch |-> [i \in 1..Len(pr.chbranch) |-> Shape(pr.chbranch[i])], chidx |-> pr.chidx]
Step == [op |-> "Multi", txs |-> txs, segs |-> SegJson,
         tree |-> Shape(MultiRoot(txs)), flat |-> Shape(SeqRoot(TxLeaves(txs))),
         childs |-> [j \in 1..Len(ChildRoots(txs)) |-> Shape(ChildRoots(txs)[j])],
         proofs |-> LET ps == SetToSeqN(PosV) IN [i \in 1..Len(ps) |-> ProofJson(ps[i])],
         ret |-> [root |-> "T", flat |-> "T", segs |-> "T", childs |-> "T", proofs |-> "T"]]
Export == (ExportOn /\ txs # <<>>) => PrintT(<<"@@B", ToJson(<<Step>>)>>)
=============================================================================
