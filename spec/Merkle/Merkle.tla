------------------------------- MODULE Merkle -------------------------------
(***************************************************************************)
(* Reference model of chain33's transaction Merkle root (common/merkle).   *)
(* Property C18.                                                           *)
(*                                                                         *)
(* The hash of two nodes is the FREE binary constructor H(l,r) = <<l,r>>   *)
(* (collision freedom of double SHA-256 is assumed, not modelled); a leaf  *)
(* is the 1-tuple <<id>> (so that trees of different shapes are comparable *)
(* in TLC: every node is a tuple).  The operators below are transcriptions *)
(* of the Go functions, statement by statement:                            *)
(*   SeqRoot      getMerkleRoot          (duplicate-last, level by level)  *)
(*   Log2/Pow2/CalcLevel/PadRoot/StepOf/ChunkRoot                           *)
(*                log2/pow2/calcLevel/getMerkleRootPad/GetMerkleRoot with  *)
(*                the worker count as a parameter (runtime.NumCPU())       *)
(*   Comp         Computation (constant-space root, branch, mutated flag)  *)
(*   FromBranch   GetMerkleRootFromBranch                                  *)
(*   Segments/MultiRoot   calcMultiLayerMerkleInfo                         *)
(*   MultiProof   the two-level proof composed as                          *)
(*                blockchain.getMultiLayerProofs composes it               *)
(*                                                                         *)
(* The property (checked by TLC in Merkle_MC on these transcriptions):     *)
(*   ParEqSeq     ChunkRoot(leaves, w) = SeqRoot(leaves)  for every n, w   *)
(*   CompEqSeq    the constant-space root equals SeqRoot                   *)
(*   BranchOK     FromBranch(Branch(leaves,i), leaf_i, i) = SeqRoot(leaves)*)
(*   MultiOK      child roots are the roots of the reported segments, the  *)
(*                segments tile the list, the block root is the root of    *)
(*                the child roots, every two-level proof verifies          *)
(*   Binding      SeqRoot(l1) = SeqRoot(l2) => l1 = l2, or the longer is   *)
(*                an explicit duplicated-tail expansion of the shorter and *)
(*                Comp flags the longer as mutated                         *)
(*                                                                         *)
(* Deliberately NOT modelled / compared: nil hashes, empty lists (the code *)
(* returns nil / the zero hash; CalcMerkleRoot of an empty list is only    *)
(* compared in the driver), branch positions outside the list, aliasing    *)
(* of the caller's slice by getMerkleRoot (it overwrites its argument).    *)
(***************************************************************************)
EXTENDS Integers, Sequences, FiniteSets, TLC

H(l, r) == <<l, r>>
Leaf(i) == <<i>>
NIL == <<>>

Min(a, b) == IF a < b THEN a ELSE b
Leaves(n) == [i \in 1..n |-> Leaf(i)]

-----------------------------------------------------------------------------
\* getMerkleRoot: while len > 1 { if odd append(last); pair up }
Pairs(t) == [i \in 1..(Len(t) \div 2) |-> H(t[2 * i - 1], t[2 * i])]

RECURSIVE SeqRoot(_)
SeqRoot(s) ==
  IF Len(s) = 0 THEN NIL
  ELSE IF Len(s) = 1 THEN s[1]
  ELSE SeqRoot(Pairs(IF Len(s) % 2 = 1 THEN Append(s, s[Len(s)]) ELSE s))

-----------------------------------------------------------------------------
\* log2 / pow2 / calcLevel exactly as coded
RECURSIVE Log2Loop(_, _)
Log2Loop(data, level) ==
  LET d == data \div 2 IN IF d <= 1 THEN level ELSE Log2Loop(d, level + 1)
Log2(data) == IF data <= 0 THEN 0 ELSE Log2Loop(data, 1)

Pow2(d) == IF d <= 0 THEN 1 ELSE 2 ^ d

RECURSIVE CalcLevelLoop(_, _)
CalcLevelLoop(n, level) ==
  IF n > 1 THEN CalcLevelLoop((IF n % 2 = 1 THEN n + 1 ELSE n) \div 2, level + 1)
  ELSE level
CalcLevel(n) == IF n = 1 THEN 1 ELSE CalcLevelLoop(n, 0)

\* getMerkleRootPad
RECURSIVE Wrap(_, _)
Wrap(r, k) == IF k <= 0 THEN r ELSE Wrap(H(r, r), k - 1)

PadRoot(h, step) ==
  LET level1 == CalcLevel(Len(h))
      level2 == Log2(step)
      root   == IF Len(h) = 1 THEN H(h[1], h[1]) ELSE SeqRoot(h)
  IN Wrap(root, level2 - level1)

\* GetMerkleRoot with ncpu = runtime.NumCPU() as a parameter.  The two tuning constants of the
\* code are explicit parameters of the transcription: cap = 256 (largest chunk) and seqmax = 80
\* (lists up to that length are hashed sequentially).  The algorithm is only correct when every
\* chunk is a complete subtree, i.e. when the chunk size is a power of two -- which needs the cap
\* to be a power of two (IsPow2; Merkle_MC checks the scaled regimes cap = 2, 4, 8 and shows that a
\* cap that is not a power of two breaks the equality; the driver checks that every chunk size the
\* code really uses is a power of two).
RECURSIVE IsPow2(_)
IsPow2(x) == x = 1 \/ (x > 1 /\ x % 2 = 0 /\ IsPow2(x \div 2))

StepOfC(n, ncpu, cap) ==
  LET a == Log2(n \div ncpu)
      b == IF a < 1 THEN 1 ELSE a
      c == Pow2(b)
  IN IF c > cap THEN cap ELSE c

ChunkRootC(s, ncpu, cap, seqmax) ==
  LET n == Len(s) IN
  IF n <= seqmax \/ ncpu <= 1 THEN SeqRoot(s)
  ELSE LET step == StepOfC(n, ncpu, cap)
           l    == (n \div step) + (IF n % step # 0 THEN 1 ELSE 0)
           child(i) == SubSeq(s, (i - 1) * step + 1, Min(i * step, n))
           sub(i) == IF Len(child(i)) # step THEN PadRoot(child(i), step)
                     ELSE SeqRoot(child(i))
       IN SeqRoot([i \in 1..l |-> sub(i)])

CodeCap == 256
CodeSeqMax == 80
StepOf(n, ncpu) == StepOfC(n, ncpu, CodeCap)
ChunkRoot(s, ncpu) == ChunkRootC(s, ncpu, CodeCap, CodeSeqMax)

-----------------------------------------------------------------------------
\* Computation(leaves, flage, branchpos): flage is 3 here (root and branch);
\* pos is the 0-based branch position, -1 when no branch is wanted (flage 1).
Bit(count, lvl) == (count \div (2 ^ lvl)) % 2

\* the inner "for level = 0; 0 == count & (1<<level); level++" of the leaf loop;
\* st = [inner, branch, ml (matchlevel), mut]
RECURSIVE Up(_, _, _, _, _, _)
Up(st, count, lvl, h, mh, fl2) ==
  IF Bit(count, lvl) = 1
  THEN [st EXCEPT !.inner[lvl] = h, !.ml = IF mh THEN lvl ELSE st.ml]
  ELSE LET br  == IF ~fl2 THEN st.branch
                  ELSE IF mh THEN Append(st.branch, st.inner[lvl])
                  ELSE IF st.ml = lvl THEN Append(st.branch, h)
                  ELSE st.branch
           mh2 == mh \/ (fl2 /\ st.ml = lvl)
           mu  == st.mut \/ (st.inner[lvl] = h)
       IN Up([st EXCEPT !.branch = br, !.mut = mu], count, lvl + 1, H(st.inner[lvl], h), mh2, fl2)

RECURSIVE LeafLoop(_, _, _, _, _)
LeafLoop(st, s, c0, pos, fl2) ==       \* c0 = 0-based index of the next leaf
  IF c0 = Len(s) THEN st
  ELSE LeafLoop(Up(st, c0 + 1, 0, s[c0 + 1], fl2 /\ c0 = pos, fl2), s, c0 + 1, pos, fl2)

RECURSIVE LowBit(_, _)
LowBit(count, lvl) == IF Bit(count, lvl) = 1 THEN lvl ELSE LowBit(count, lvl + 1)

\* the closing loop: duplicate the last node until count is a power of two
RECURSIVE FinUp(_, _, _, _, _, _)
RECURSIVE Fin(_, _, _, _, _, _)
FinUp(st, count, lvl, h, mh, fl2) ==
  IF Bit(count, lvl) = 1 THEN Fin(st, count, lvl, h, mh, fl2)
  ELSE LET br  == IF ~fl2 THEN st.branch
                  ELSE IF mh THEN Append(st.branch, st.inner[lvl])
                  ELSE IF st.ml = lvl THEN Append(st.branch, h)
                  ELSE st.branch
           mh2 == mh \/ (fl2 /\ st.ml = lvl)
       IN FinUp([st EXCEPT !.branch = br], count, lvl + 1, H(st.inner[lvl], h), mh2, fl2)
Fin(st, count, lvl, h, mh, fl2) ==
  IF count = 2 ^ lvl THEN [root |-> h, mutated |-> st.mut, branch |-> st.branch]
  ELSE LET br == IF fl2 /\ mh THEN Append(st.branch, h) ELSE st.branch
       IN FinUp([st EXCEPT !.branch = br], count + 2 ^ lvl, lvl + 1, H(h, h), mh, fl2)

Comp(s, pos) ==
  LET fl2 == pos >= 0
      st0 == [inner |-> [l \in 0..31 |-> NIL], branch |-> <<>>, ml |-> 255, mut |-> FALSE]
      st  == LeafLoop(st0, s, 0, pos, fl2)
      lvl == LowBit(Len(s), 0)
  IN Fin(st, Len(s), lvl, st.inner[lvl], st.ml = lvl, fl2)

CompRoot(s)    == Comp(s, -1).root
Mutated(s)     == Comp(s, -1).mutated
Branch(s, pos) == Comp(s, pos).branch       \* GetMerkleBranch, pos 0-based

\* GetMerkleRootFromBranch
RECURSIVE FromBranchLoop(_, _, _, _)
FromBranchLoop(br, k, hash, idx) ==
  IF k > Len(br) THEN hash
  ELSE FromBranchLoop(br, k + 1,
                      IF idx % 2 = 1 THEN H(br[k], hash) ELSE H(hash, br[k]),
                      idx \div 2)
FromBranch(br, leaf, idx) == FromBranchLoop(br, 1, leaf, idx)

-----------------------------------------------------------------------------
\* calcMultiLayerMerkleInfo.  A transaction is <<id, chain>>: chain 0 is the main
\* chain, chain c > 0 the parachain with title c.  Segment = [title, start (0-based), count].
RECURSIVE SegLoop(_, _, _, _)
SegLoop(txs, i, first, acc) ==
  IF i > Len(txs) THEN acc
  ELSE LET c == txs[i][2] IN
       IF c = 0 /\ i = 1 THEN SegLoop(txs, i + 1, first, Append(acc, [title |-> 0, start |-> 0]))
       ELSE IF c # 0 /\ (first = 0 \/ c # first)
            THEN SegLoop(txs, i + 1, c, Append(acc, [title |-> c, start |-> i - 1]))
            ELSE SegLoop(txs, i + 1, first, acc)

Segments(txs) ==
  LET raw == SegLoop(txs, 1, 0, <<>>)
      k   == Len(raw)
  IN [j \in 1..k |-> [title |-> raw[j].title, start |-> raw[j].start,
                      count |-> (IF j = k THEN Len(txs) ELSE raw[j + 1].start) - raw[j].start]]

TxLeaves(txs) == [i \in 1..Len(txs) |-> Leaf(txs[i][1])]
SegLeaves(txs, sg) == SubSeq(TxLeaves(txs), sg.start + 1, sg.start + sg.count)

\* the worker count only matters through ChunkRoot = SeqRoot (ParEqSeq), so the
\* multi-layer operators are written with SeqRoot
ChildRoots(txs) ==
  LET sg == Segments(txs) IN
  IF Len(sg) <= 1 THEN <<SeqRoot(TxLeaves(txs))>>
  ELSE [j \in 1..Len(sg) |-> SeqRoot(SegLeaves(txs, sg[j]))]

MultiRoot(txs) ==
  LET sg == Segments(txs) IN
  IF Len(sg) <= 1 THEN SeqRoot(TxLeaves(txs)) ELSE SeqRoot(ChildRoots(txs))

\* index (1-based) of the segment holding 0-based tx position p
SegOf(txs, p) == LET sg == Segments(txs) IN
  CHOOSE j \in 1..Len(sg) : sg[j].start <= p /\ p < sg[j].start + sg[j].count

\* the two-level proof of tx p: <<branch inside the child, index inside the child,
\*                                branch of the child among the children, child index>>
MultiProof(txs, p) ==
  LET sg == Segments(txs) IN
  IF Len(sg) <= 1 THEN [txbranch |-> Branch(TxLeaves(txs), p), txidx |-> p,
                        chbranch |-> <<>>, chidx |-> 0]
  ELSE LET j == SegOf(txs, p) IN
       [txbranch |-> Branch(SegLeaves(txs, sg[j]), p - sg[j].start), txidx |-> p - sg[j].start,
        chbranch |-> Branch(ChildRoots(txs), j - 1), chidx |-> j - 1]

VerifyMulti(txs, p) ==
  LET pr == MultiProof(txs, p)
      cr == FromBranch(pr.txbranch, Leaf(txs[p + 1][1]), pr.txidx)
  IN FromBranch(pr.chbranch, cr, pr.chidx)

-----------------------------------------------------------------------------
\* The duplicated-tail pattern, stated independently of the root algorithm:
\* one explicit duplication appends a copy of the last 2^k-aligned block of a
\* list whose length is an odd multiple (>= 3) of 2^k.
DupSteps(l) ==
  {l \o SubSeq(l, Len(l) - 2 ^ k + 1, Len(l)) :
     k \in {k \in 0..12 : Len(l) % (2 ^ k) = 0 /\ (Len(l) \div (2 ^ k)) % 2 = 1 /\ Len(l) \div (2 ^ k) >= 3}}

RECURSIVE DupClosure(_)
DupClosure(S) == LET T == S \cup UNION {DupSteps(l) : l \in S} IN IF T = S THEN S ELSE DupClosure(T)

\* l2 is a (possibly iterated) explicit duplicated-tail expansion of l1
DupTail(l1, l2) == l2 \in DupClosure({l1})

BindingPair(l1, l2) ==
  SeqRoot(l1) = SeqRoot(l2) =>
    \/ l1 = l2
    \/ Len(l1) < Len(l2) /\ DupTail(l1, l2) /\ Mutated(l2)
    \/ Len(l2) < Len(l1) /\ DupTail(l2, l1) /\ Mutated(l1)

\* Tree -> JSON-able shape (leaf <<i>> -> i, node -> <<shape, shape>>)
RECURSIVE Shape(_)
Shape(t) == IF Len(t) = 1 THEN t[1] ELSE <<Shape(t[1]), Shape(t[2])>>
=============================================================================
