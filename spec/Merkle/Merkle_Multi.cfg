SPECIFICATION Spec
CONSTANTS
  ChainOf <- MCChainOf
  Sizes <- MCSizes
  MaxLen = 5
  ExportOn = FALSE
INVARIANTS Tiles RunsWhenSorted ProofsVerify RootOfChildren
CHECK_DEADLOCK FALSE
