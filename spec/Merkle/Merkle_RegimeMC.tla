---- MODULE Merkle_RegimeMC ----
(* default pairs (bin/check generates this module per run: families/merkle.py) *)
EXTENDS Merkle_Regime
MCPairs == {<<511,2>>, <<512,2>>, <<513,2>>, <<1024,2>>, <<1025,2>>, <<2047,2>>, <<2048,2>>, <<2085,2>>, <<4097,2>>, <<8195,2>>, <<65539,16>>}
====
