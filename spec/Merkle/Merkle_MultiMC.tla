---- MODULE Merkle_MultiMC ----
EXTENDS Merkle_Multi
MCChainOf == <<0, 0, 1, 1, 2>>
MCSizes == {<<100, 3, 90>>, <<1, 130, 2>>, <<0, 81, 200>>, <<90, 0, 0>>, <<0, 0, 97>>, <<2, 1, 1>>, <<83, 85, 0>>}
====
