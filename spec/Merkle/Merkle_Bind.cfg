SPECIFICATION Spec
CONSTANTS
  Base = 0
  Alpha = 3
  MaxLen = 6
  ExportOn = FALSE
INVARIANTS Binding Collides RootsAgree
CHECK_DEADLOCK FALSE
