SPECIFICATION Spec
CONSTANTS
  Base = 0
  Alpha = 3
  MaxLen = 6
  ExportOn = TRUE
INVARIANTS Binding Collides RootsAgree Export
CHECK_DEADLOCK FALSE
