SPECIFICATION Spec
CONSTANTS
  Execs <- C11Execs
  SKeys <- C11SKeys1
  LKeys <- C11LKeys1
  ParaChain = FALSE
  Registered <- Reg
  SameTime <- Same
  MaxBlocks = 1
  MaxItems = 2
  MaxGroup = 2
  MaxExecOps = 1
  MaxLocalOps = 1
  SModes = {"both"}
  LModes = {"ret"}
  Kinds = {"W", "RS", "RL", "F", "LW"}
  Conds <- NoConds
  Acts <- NoActs
  MaxRuns = 0
  EmitOn = FALSE
VIEW view
INVARIANTS TypeOK NoLeak ReadsAsIfFeeOnly FailedAllPack OkOnlyIfAllowed StateWritesAllowed LocalWritesPrefixed MalformedNeverWritten
PROPERTIES RollbackKeeps RunPure
CHECK_DEADLOCK FALSE
