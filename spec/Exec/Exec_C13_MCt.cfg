SPECIFICATION Spec
CONSTANTS
  Execs <- C11Execs
  SKeys <- C11SKeys1
  LKeys <- C11LKeys1
  ParaChain = FALSE
  Registered <- Reg
  SameTime <- Same
  MaxBlocks = 1
  MaxItems = 3
  MaxGroup = 2
  MaxExecOps = 1
  MaxLocalOps = 1
  SModes = {"both"}
  LModes = {"ret"}
  Kinds = {"W", "RS", "RL", "F", "LW"}
  Conds <- C13CondsS
  Acts <- C13ActsS
  MaxRuns = 3
  EmitOn = FALSE
VIEW view
INVARIANTS TypeOK NoLeak ReadsAsIfFeeOnly FailedAllPack
PROPERTIES RollbackKeeps RunPure
CHECK_DEADLOCK FALSE
