SPECIFICATION Spec
CONSTANTS
  Execs <- C12ExecsG
  SKeys <- C12SKeysG
  LKeys <- C12LKeysG
  ParaChain = FALSE
  Registered <- Reg
  SameTime <- Same
  MaxBlocks = 1
  MaxItems = 1
  MaxGroup = 3
  MaxExecOps = 1
  MaxLocalOps = 0
  SModes = {"both", "wnr", "rnw"}
  LModes = {"ret", "set"}
  Kinds = {"W", "RS"}
  Conds <- NoConds
  Acts <- NoActs
  MaxRuns = 0
  EmitOn = FALSE
VIEW view
INVARIANTS TypeOK NoLeak ReadsAsIfFeeOnly FailedAllPack OkOnlyIfAllowed StateWritesAllowed LocalWritesPrefixed MalformedNeverWritten
PROPERTIES RollbackKeeps
CHECK_DEADLOCK FALSE
