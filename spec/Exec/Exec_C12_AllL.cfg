SPECIFICATION ASpec
CONSTANTS
  Execs <- C12Execs
  SKeys <- C12SKeys
  LKeys <- C12LKeys
  ParaChain = FALSE
  Registered <- Reg
  SameTime <- Same
  MaxBlocks = 1
  MaxItems = 1
  MaxGroup = 1
  MaxExecOps = 0
  MaxLocalOps = 1
  SModes = {"both"}
  LModes = {"ret", "both", "set"}
  Kinds = {"LW", "LD"}
  Conds <- NoConds
  Acts <- NoActs
  MaxRuns = 0
  EmitOn = TRUE
INVARIANT Export
CHECK_DEADLOCK FALSE
