SPECIFICATION ASpec
CONSTANTS
  Execs <- C12Execs
  SKeys <- C12SKeys
  LKeys <- C12LKeys
  ParaChain = TRUE
  Registered <- Reg
  SameTime <- Same
  MaxBlocks = 1
  MaxItems = 1
  MaxGroup = 1
  MaxExecOps = 1
  MaxLocalOps = 0
  SModes = {"both", "wnr", "rnw"}
  LModes = {"ret"}
  Kinds = {"W"}
  Conds <- NoConds
  Acts <- NoActs
  MaxRuns = 0
  EmitOn = TRUE
INVARIANT Export
CHECK_DEADLOCK FALSE
