-------------------------------- MODULE Exec --------------------------------
(***************************************************************************)
(* Reference semantics of chain33 block execution over script transactions *)
(* (executor/execenv.go execTx / execTxGroup / execTxOne, statedb.go,       *)
(* localdb.go, allow.go).  Properties C11, C12 (and the prediction C13's    *)
(* digests are compared with).                                              *)
(*                                                                         *)
(* A block is a sequence of items; an item is one transaction or a group   *)
(* of 2..MaxGroup transactions.  A transaction carries an executor name    *)
(* and a script.  The script's Exec part writes state keys (Set + reported *)
(* in the receipt / Set only / reported only), reads state and local keys  *)
(* (the value read is echoed in the receipt), lists its local namespace,   *)
(* or fails (error / panic).  The script's ExecLocal part (executors with  *)
(* ExecutorOrder = ExecLocalSameTime run it while the block executes)      *)
(* writes / deletes local keys (returned / Set + returned / Set only) or   *)
(* fails.                                                                  *)
(*                                                                         *)
(* Granularity: ItemBegin (fee), TxBegin, TxWrite, TxRead, TxList, TxFail, *)
(* TxVerify (receipt covers the keys Set; every reported key allowed),     *)
(* TxLocalWrite, TxLocalFail, TxCommit / TxNext / TxRollback / TxReject,    *)
(* EndBlock.  The value written by transaction number n is n, so a read    *)
(* tells whose write it saw; 0 = absent.                                    *)
(*                                                                         *)
(* C13: Run(c) / Activity(a) steps execute the block built so far again on  *)
(* the same prior state (without connecting it) under a condition (fresh or *)
(* long-running process, CPU count) or perform process-local activity; they *)
(* change nothing, and the harness binds the digest of the first execution  *)
(* of a term (prior chain, block) and demands byte equality from every      *)
(* later one (field det of the prediction).                                 *)
(*                                                                         *)
(* Configurations: Exec_MC(t).cfg C11 exhaustive; Exec_C12_MC(t).cfg C12     *)
(* exhaustive; Exec_C13_MC(t).cfg C13 exhaustive; Exec_C1x_Gen*.cfg          *)
(* simulation (behaviour generation); Exec_All + Exec_C12_All*.cfg the      *)
(* exhaustive export of the C12 decision table; Exec_Trace the trace spec    *)
(* of C13's recorded executions.                                            *)
(*                                                                         *)
(* Deliberately NOT compared with the code: error codes and error-log      *)
(* texts, receipt logs other than the echoed reads, key/value bytes of the *)
(* fee account (only the charged amount), index-plugin local keys, and -   *)
(* for a local key without the executor's prefix - whether the whole block *)
(* is refused (what the code does) or only that transaction fails (both    *)
(* keep the key out of the local data; EndBlock carries both outcomes).    *)
(* Not modelled: transient API errors (IsAPIEnvError), transactions that   *)
(* cannot pay their fee or are otherwise invalid (ExecErr, dropped from    *)
(* the block), groups mixing chains (invalid as a whole), executors other  *)
(* than the script executors approving keys (coins approves nothing here). *)
(***************************************************************************)
EXTENDS Integers, Sequences, FiniteSets, Json, TLC

CONSTANTS
  Execs,        \* executor names a transaction may carry (records [t, b, s])
  SKeys,        \* state keys (records [wf, ns, area, fr, i])
  LKeys,        \* local keys (records [wf, ns, i])
  ParaChain,    \* TRUE: the node is the para chain with title "user.p.para."
  Registered,   \* base names of the registered script executors
  SameTime,     \* subset of Registered running ExecLocal while the block executes
  MaxBlocks, MaxItems, MaxGroup, MaxExecOps, MaxLocalOps,
  SModes,       \* subset of {"both", "wnr", "rnw"}
  LModes,       \* subset of {"ret", "both", "set"}
  Kinds,        \* subset of {"W", "RS", "RL", "LL", "F", "P", "LW", "LD", "FL"}: operations generated
  Conds,        \* C13: conditions [proc, gmp] under which a completed block is executed again
  Acts,         \* C13: kinds of process-local activity between such executions
  MaxRuns,
  EmitOn

VARIABLES st, lo, bst, blo, dlo, tst, tlo, cw, clw, pw, plw,
          phase, g, cur, rc, nblk, nitem, ntx, nops, rej, last, runs, act

vars == <<st, lo, bst, blo, dlo, tst, tlo, cw, clw, pw, plw, phase, g, cur, rc, nblk, nitem, ntx, nops, rej, last, runs, act>>
view == <<st, lo, bst, blo, dlo, tst, tlo, cw, clw, pw, plw, phase, g, cur, rc, nblk, nitem, ntx, nops, rej, last, runs>>

-----------------------------------------------------------------------------
\* Executor names.  t: para title ("" / "user.p.para." / another), b: base executor,
\* s: "" for the plain name b, otherwise the name is user.<b>.<s>.
NoName == [t |-> "", b |-> "", s |-> ""]
Name(e) == e.t \o (IF e.s = "" THEN e.b ELSE "user." \o e.b \o "." \o e.s)
OwnTitle == IF ParaChain THEN "user.p.para." ELSE ""
\* types.Chain33Config.GetParaExec: the name with this chain's own title removed
Strip(e) == IF ParaChain /\ e.t = OwnTitle THEN [e EXCEPT !.t = ""] ELSE e
\* types.GetRealExecName: the base executor
Real(e) == [t |-> "", b |-> e.b, s |-> ""]
\* the driver that executes a transaction named e (dapp.LoadDriver + Driver.Allow), "none" otherwise
Driver(e) == IF e.b \in Registered /\ Strip(e).t = "" THEN e.b ELSE "none"

\* C12, state keys.  A key is well formed when it reads mavl-<ns>-<tail>; area # NoName
\* when the tail is a deposit area <sym>-exec-<address of executor `area`>:<rest>; fr when the
\* rest carries the mark the script executors' IsFriend approves.
Owner(k, e) == IF k.area # NoName /\ k.area = Real(e) THEN Real(e) ELSE k.ns
Allowed(k, e) ==
  /\ k.wf
  /\ \/ k.ns = Strip(e)                          \* its own executor's namespace
     \/ (k.area # NoName /\ k.area = e)          \* its own deposit area inside another executor
     \/ (Driver(Owner(k, e)) # "none" /\ k.fr)   \* an area the owning executor explicitly allows

\* C12, local keys: LODB-<name>-<rest> for the transaction's executor name or its base executor
LAllowed(k, e) == k.wf /\ (k.ns = e \/ k.ns = Real(e))

SKeyId(k) == (IF k.wf THEN "" ELSE "!") \o Name(k.ns) \o "/" \o Name(k.area) \o "/" \o
             (IF k.fr THEN "f" ELSE "n") \o "/" \o ToString(k.i)
LKeyId(k) == (IF k.wf THEN "" ELSE "!") \o Name(k.ns) \o "/" \o ToString(k.i)

-----------------------------------------------------------------------------
None == -1
EmptyS == [k \in SKeys |-> None]
EmptyL == [k \in LKeys |-> None]
Over(base, ov) == [k \in DOMAIN base |-> IF ov[k] # None THEN ov[k] ELSE base[k]]

\* denotational reading: fold a sequence of writes <<key, value, writer>> over a map
RECURSIVE Fold(_, _)
Fold(m, ws) == IF ws = <<>> THEN m
               ELSE Fold([m EXCEPT ![ws[1][1]] = ws[1][2]], Tail(ws))

RepKeys(rep) == {rep[j][1] : j \in 1..Len(rep)}
NewTx(e) == [e |-> e, wrote |-> {}, rep |-> <<>>, reads |-> <<>>, lset |-> {}, lret |-> <<>>, failed |-> FALSE, bad |-> FALSE]
NoTx == NewTx(NoName)
NoItem == [n |-> 0, i |-> 0, t |-> "", tys |-> <<>>, rds |-> <<>>, txs |-> <<>>, dl |-> <<>>, dbad |-> FALSE]
NoLast == [ok |-> TRUE, txs |-> <<>>, n |-> 0]

Emit(r) == act' = IF EmitOn THEN ToJson(r) ELSE ""

Init ==
  /\ st = [k \in SKeys |-> 0] /\ lo = [k \in LKeys |-> 0]
  /\ bst = st /\ blo = lo /\ dlo = <<>>
  /\ tst = EmptyS /\ tlo = EmptyL
  /\ cw = <<>> /\ clw = <<>> /\ pw = <<>> /\ plw = <<>>
  /\ phase = "idle" /\ g = NoItem /\ cur = NoTx /\ rc = <<>>
  /\ nblk = 0 /\ nitem = 0 /\ ntx = 0 /\ nops = 0 /\ rej = FALSE /\ last = NoLast /\ runs = 0
  /\ act = IF EmitOn THEN ToJson([op |-> "Init", para |-> ParaChain]) ELSE ""

\* ---- item / transaction begin -------------------------------------------------------------
\* the fee of the item is charged here, before anything can be rolled back
ItemBegin(n, e) ==
  /\ phase = "idle" /\ ~rej /\ nblk < MaxBlocks /\ nitem < MaxItems
  /\ n = 1 \/ (n >= 2 /\ n <= MaxGroup)
  /\ nitem' = nitem + 1 /\ ntx' = ntx + 1 /\ nops' = 0
  /\ g' = [NoItem EXCEPT !.n = n, !.i = 1, !.t = e.t]
  /\ cur' = NewTx(e)
  /\ tst' = EmptyS /\ tlo' = EmptyL /\ pw' = <<>> /\ plw' = <<>>
  /\ phase' = "exec"
  /\ UNCHANGED <<st, lo, bst, blo, dlo, cw, clw, rc, nblk, rej, last, runs>>
  /\ Emit([op |-> "TxBegin", n |-> n, i |-> 1, e |-> Name(e), drv |-> Driver(e), tx |-> ntx'])

IsScript == Driver(cur.e) # "none"
IsSameTime == Driver(cur.e) \in SameTime

\* ---- Exec part -----------------------------------------------------------------------------
SRead(k) == IF tst[k] # None THEN tst[k] ELSE bst[k]
LRead(k) == IF tlo[k] # None THEN tlo[k] ELSE blo[k]
\* what the read must return "as if failed transactions had only paid their fee"
SDen(k) == Fold(Fold(st, cw), pw)[k]
LDen(k) == Fold(Fold(lo, clw), plw)[k]

TxWrite(k, m) ==
  /\ phase = "exec" /\ IsScript /\ "W" \in Kinds /\ nops < MaxExecOps
  /\ k \in SKeys /\ m \in SModes
  /\ cur' = [cur EXCEPT !.wrote = IF m # "rnw" THEN @ \cup {k} ELSE @,
                        !.rep = IF m # "wnr" THEN Append(@, <<k, ntx, cur.e>>) ELSE @]
  /\ tst' = IF m # "rnw" THEN [tst EXCEPT ![k] = ntx] ELSE tst
  /\ pw' = IF m # "rnw" THEN Append(pw, <<k, ntx, cur.e>>) ELSE pw
  /\ nops' = nops + 1
  /\ UNCHANGED <<st, lo, bst, blo, dlo, tlo, cw, clw, plw, phase, g, rc, nblk, nitem, ntx, rej, last, runs>>
  /\ Emit([op |-> "W", k |-> SKeyId(k), m |-> m, v |-> ntx])

TxRead(sp, k) ==
  /\ phase = "exec" /\ IsScript /\ nops < MaxExecOps
  /\ \/ sp = "S" /\ "RS" \in Kinds /\ k \in SKeys
     \/ sp = "L" /\ "RL" \in Kinds /\ k \in LKeys /\ IsSameTime
  /\ LET v == IF sp = "S" THEN SRead(k) ELSE LRead(k)
         d == IF sp = "S" THEN SDen(k) ELSE LDen(k)
         id == IF sp = "S" THEN SKeyId(k) ELSE LKeyId(k) IN
     /\ cur' = [cur EXCEPT !.reads = Append(@, [sp |-> sp, v |-> <<v>>, d |-> <<d>>])]
     /\ Emit([op |-> "R", sp |-> sp, k |-> id, v |-> v])
  /\ nops' = nops + 1
  /\ UNCHANGED <<st, lo, bst, blo, dlo, tst, tlo, cw, clw, pw, plw, phase, g, rc, nblk, nitem, ntx, rej, last, runs>>

\* List of the transaction executor's own local namespace, in key order (keys are ordered by i)
OwnL(e) == {k \in LKeys : k.wf /\ k.ns = e}
RECURSIVE ListVals(_, _)
ListVals(S, f) == IF S = {} THEN <<>>
                  ELSE LET k == CHOOSE x \in S : \A y \in S : x.i <= y.i IN
                       (IF f[k] # 0 THEN <<f[k]>> ELSE <<>>) \o ListVals(S \ {k}, f)
TxList ==
  /\ phase = "exec" /\ IsScript /\ IsSameTime /\ "LL" \in Kinds /\ nops < MaxExecOps
  /\ LET v == ListVals(OwnL(cur.e), Over(blo, tlo))
         d == ListVals(OwnL(cur.e), Fold(Fold(lo, clw), plw)) IN
     /\ cur' = [cur EXCEPT !.reads = Append(@, [sp |-> "LL", v |-> v, d |-> d])]
     /\ Emit([op |-> "LL", e |-> Name(cur.e), v |-> v])
  /\ nops' = nops + 1
  /\ UNCHANGED <<st, lo, bst, blo, dlo, tst, tlo, cw, clw, pw, plw, phase, g, rc, nblk, nitem, ntx, rej, last, runs>>

TxFail(kind) ==
  /\ phase = "exec" /\ IsScript /\ kind \in Kinds \cap {"F", "P"} /\ nops < MaxExecOps
  /\ cur' = [cur EXCEPT !.failed = TRUE]
  /\ phase' = "end" /\ nops' = nops + 1
  /\ UNCHANGED <<st, lo, bst, blo, dlo, tst, tlo, cw, clw, pw, plw, g, rc, nblk, nitem, ntx, rej, last, runs>>
  /\ Emit([op |-> "Fail", kind |-> kind])

\* end of Exec: the receipt must cover every key Set, every reported key must be allowed;
\* then the reported key/values are (re)applied to the state view (ForkStateDBSet)
Covered(t) == t.wrote \subseteq RepKeys(t.rep)
AllAllowed(t) == \A j \in 1..Len(t.rep) : Allowed(t.rep[j][1], t.e)
TxVerify ==
  /\ phase = "exec"
  /\ LET good == ~IsScript \/ (Covered(cur) /\ AllAllowed(cur)) IN
     /\ cur' = [cur EXCEPT !.failed = ~good]
     /\ phase' = IF good /\ IsScript THEN "local" ELSE "end"
     /\ tst' = IF good THEN [k \in SKeys |-> IF k \in RepKeys(cur.rep) THEN ntx ELSE tst[k]] ELSE tst
     /\ pw' = IF good THEN pw \o cur.rep ELSE pw
     /\ Emit([op |-> "Verify", ok |-> good])
  /\ nops' = 0
  /\ UNCHANGED <<st, lo, bst, blo, dlo, tlo, cw, clw, plw, g, rc, nblk, nitem, ntx, rej, last, runs>>

\* ---- ExecLocal part ------------------------------------------------------------------------
\* del: the value written is "deleted" (0).  Modes: returned in the LocalDBSet / Set + returned / Set only
TxLocalWrite(k, m, del) ==
  /\ phase = "local" /\ nops < MaxLocalOps
  /\ (IF del THEN "LD" ELSE "LW") \in Kinds
  /\ k \in LKeys /\ m \in LModes
  /\ (~IsSameTime => m = "ret")
  /\ LET v == IF del THEN 0 ELSE ntx IN
     /\ cur' = [cur EXCEPT !.lset = IF m # "ret" THEN @ \cup {k} ELSE @,
                           !.lret = IF m # "set" THEN Append(@, <<k, v, cur.e>>) ELSE @]
     /\ Emit([op |-> "LW", k |-> LKeyId(k), m |-> m, del |-> del, v |-> v])
  /\ nops' = nops + 1
  /\ UNCHANGED <<st, lo, bst, blo, dlo, tst, tlo, cw, clw, pw, plw, phase, g, rc, nblk, nitem, ntx, rej, last, runs>>

TxLocalFail ==
  /\ phase = "local" /\ IsSameTime /\ "FL" \in Kinds /\ nops < MaxLocalOps
  /\ cur' = [cur EXCEPT !.failed = TRUE]
  /\ phase' = "end" /\ nops' = nops + 1
  /\ UNCHANGED <<st, lo, bst, blo, dlo, tst, tlo, cw, clw, pw, plw, g, rc, nblk, nitem, ntx, rej, last, runs>>
  /\ Emit([op |-> "LFail"])

LRetKeys(t) == {t.lret[j][1] : j \in 1..Len(t.lret)}
LCovered(t) == t.lset \subseteq LRetKeys(t)
LPrefixOK(t) == \A j \in 1..Len(t.lret) : LAllowed(t.lret[j][1], t.e)
\* end of ExecLocal.  Same-time executors: a key Set but not returned fails the transaction
\* (checked first); a returned key without the executor's prefix must never reach the local data
\* (bad); otherwise the returned writes join the item's overlay.  Other executors run ExecLocal
\* only when the block is added: their writes are deferred, a key without the prefix is bad.
TxLocalDone ==
  /\ phase = "local"
  /\ phase' = "end"
  /\ IF ~IsSameTime THEN cur' = [cur EXCEPT !.bad = ~LPrefixOK(cur)] /\ UNCHANGED <<tlo, plw>>
     ELSE IF ~LCovered(cur) THEN cur' = [cur EXCEPT !.failed = TRUE] /\ UNCHANGED <<tlo, plw>>
     ELSE IF ~LPrefixOK(cur) THEN cur' = [cur EXCEPT !.bad = TRUE] /\ UNCHANGED <<tlo, plw>>
     ELSE /\ tlo' = Fold(tlo, cur.lret) /\ plw' = plw \o cur.lret /\ UNCHANGED cur
  /\ UNCHANGED <<st, lo, bst, blo, dlo, tst, cw, clw, pw, g, rc, nblk, nitem, ntx, nops, rej, last, runs>>
  /\ Emit([op |-> "LocalDone"])

\* ---- end of a transaction -------------------------------------------------------------------
TxTy(t) == IF Driver(t.e) = "none" THEN "pack" ELSE "ok"
Rds(t) == [j \in 1..Len(t.reads) |-> t.reads[j].v]
Summ(t, ty) == [e |-> t.e, wrote |-> t.wrote, rep |-> t.rep, lret |-> t.lret, lset |-> t.lset, ty |-> ty, reads |-> t.reads]
Deferred(t) == Driver(t.e) # "none" /\ Driver(t.e) \notin SameTime
\* the item cannot stand: a same-time member returned a local key without its prefix, or the item
\* is complete and a deferred member did
MustReject == ~cur.failed /\ ((cur.bad /\ IsSameTime) \/ (g.i = g.n /\ (cur.bad \/ g.dbad)))

\* member succeeded, more members follow: the overlays stay open.  A well-formed group holds
\* transactions of one chain only (types.Transactions.Check: all main-chain names or all names of
\* one para title), otherwise the whole group is invalid and never executed.
TxNext(e) ==
  /\ phase = "end" /\ ~cur.failed /\ ~MustReject /\ g.i < g.n
  /\ e.t = g.t
  /\ g' = [g EXCEPT !.i = @ + 1, !.tys = Append(@, TxTy(cur)), !.rds = Append(@, Rds(cur)),
                    !.txs = Append(@, Summ(cur, TxTy(cur))),
                    !.dl = IF Deferred(cur) THEN @ \o cur.lret ELSE @,
                    !.dbad = @ \/ cur.bad]
  /\ cur' = NewTx(e) /\ ntx' = ntx + 1 /\ nops' = 0 /\ phase' = "exec"
  /\ UNCHANGED <<st, lo, bst, blo, dlo, tst, tlo, cw, clw, pw, plw, rc, nblk, nitem, rej, last, runs>>
  /\ Emit([op |-> "TxBegin", n |-> g.n, i |-> g.i + 1, e |-> Name(e), drv |-> Driver(e), tx |-> ntx'])

\* last member succeeded: the item's writes become visible to the rest of the block
TxCommit ==
  /\ phase = "end" /\ ~cur.failed /\ ~MustReject /\ g.i = g.n
  /\ LET tys == Append(g.tys, TxTy(cur))
         rds == Append(g.rds, Rds(cur))
         txs == Append(g.txs, Summ(cur, TxTy(cur))) IN
     /\ rc' = rc \o [j \in 1..g.n |-> [ty |-> tys[j], rd |-> rds[j]]]
     /\ last' = [ok |-> TRUE, txs |-> txs, n |-> g.n]
     /\ dlo' = dlo \o g.dl \o (IF Deferred(cur) THEN cur.lret ELSE <<>>)
  /\ bst' = Over(bst, tst) /\ blo' = Over(blo, tlo)
  /\ cw' = cw \o pw /\ clw' = clw \o plw
  /\ tst' = EmptyS /\ tlo' = EmptyL /\ pw' = <<>> /\ plw' = <<>>
  /\ phase' = "idle" /\ g' = NoItem /\ cur' = NoTx /\ nops' = 0
  /\ UNCHANGED <<st, lo, nblk, nitem, ntx, rej, runs>>
  /\ Emit([op |-> "TxEnd", out |-> "ok", pad |-> 0])

\* a member failed: nothing of the item survives, every member's receipt is fee-only,
\* the members after the failed one are not executed (pad of them are still in the block)
TxRollback ==
  /\ phase = "end" /\ cur.failed
  /\ rc' = rc \o [j \in 1..g.n |-> [ty |-> "pack", rd |-> <<>>]]
  /\ last' = [ok |-> FALSE, txs |-> Append(g.txs, Summ(cur, "pack")), n |-> g.n]
  /\ tst' = EmptyS /\ tlo' = EmptyL /\ pw' = <<>> /\ plw' = <<>>
  /\ phase' = "idle" /\ g' = NoItem /\ cur' = NoTx /\ nops' = 0
  /\ UNCHANGED <<st, lo, bst, blo, dlo, cw, clw, nblk, nitem, ntx, rej, runs>>
  /\ Emit([op |-> "TxEnd", out |-> "fail", pad |-> g.n - g.i])

\* a returned local key lacks the executor's prefix: the block is refused; the receipts recorded
\* here are those of the equally acceptable outcome "the item merely fails"
TxReject ==
  /\ phase = "end" /\ MustReject
  /\ rej' = TRUE
  /\ rc' = rc \o [j \in 1..g.n |-> [ty |-> "pack", rd |-> <<>>]]
  /\ last' = [ok |-> FALSE, txs |-> Append(g.txs, Summ(cur, "pack")), n |-> g.n]
  /\ tst' = EmptyS /\ tlo' = EmptyL /\ pw' = <<>> /\ plw' = <<>>
  /\ phase' = "idle" /\ g' = NoItem /\ cur' = NoTx /\ nops' = 0
  /\ UNCHANGED <<st, lo, bst, blo, dlo, cw, clw, nblk, nitem, ntx, runs>>
  /\ Emit([op |-> "TxEnd", out |-> "reject", pad |-> g.n - g.i])

\* ---- end of the block -----------------------------------------------------------------------
Proj(f, Id(_)) == [id \in {Id(k) : k \in DOMAIN f} |-> f[CHOOSE k \in DOMAIN f : Id(k) = id]]
\* names (prior chain, block built so far) inside one behaviour
Term == "B" \o ToString(nblk) \o "." \o ToString(nitem) \o "." \o ToString(ntx)
Touched(m, Id(_)) == [id \in {Id(k) : k \in {x \in DOMAIN m : m[x] # None}} |->
                        m[CHOOSE k \in DOMAIN m : Id(k) = id]]
\* what one execution of the block built so far must show: receipt types, echoed reads, fee,
\* state write set and local write set (script keys; last value per key); det: the byte digests
\* equal those of every other execution of the same (prior chain, block) - see Run
RunResult(isrej) ==
  [rej |-> isrej, det |-> "same",
   sw  |-> IF isrej THEN <<>> ELSE Touched(Fold(EmptyS, cw), SKeyId),
   lw  |-> IF isrej THEN <<>> ELSE Touched(Fold(EmptyL, clw \o dlo), LKeyId),
   tys |-> IF isrej THEN <<>> ELSE [j \in 1..Len(rc) |-> rc[j].ty],
   rd  |-> IF isrej THEN <<>> ELSE [j \in 1..Len(rc) |-> rc[j].rd],
   fee |-> IF isrej THEN 0 ELSE nitem]
\* ... and, once the block is connected, the values of all keys in the state and the local data
Result(isrej, s, l) == [st |-> Proj(s, SKeyId), lo |-> Proj(l, LKeyId)] @@ RunResult(isrej)

EndBlock ==
  /\ phase = "idle" /\ nitem > 0
  /\ LET ns == IF rej THEN st ELSE bst
         nl == IF rej THEN lo ELSE Fold(blo, dlo) IN
     /\ st' = ns /\ lo' = nl /\ bst' = ns /\ blo' = nl
     /\ Emit([op |-> "EndBlock", term |-> Term, ret |-> Result(rej, ns, nl),
              alt |-> IF rej THEN Result(FALSE, bst, Fold(blo, dlo)) ELSE Result(rej, ns, nl)])
  /\ dlo' = <<>> /\ cw' = <<>> /\ clw' = <<>> /\ rc' = <<>>
  /\ nblk' = nblk + 1 /\ nitem' = 0 /\ rej' = FALSE /\ last' = NoLast /\ runs' = 0
  /\ UNCHANGED <<tst, tlo, pw, plw, phase, g, cur, ntx, nops>>

\* ---- C13: block execution is a function of (block, prior state) --------------------------
\* The block built so far is executed on the prior state without being connected, under
\* condition c (fresh or long-running process, CPU count); process-local activity may precede.
\* Neither changes anything: the digest term names (prior chain, block) only.
Run(c) ==
  /\ phase = "idle" /\ nitem > 0 /\ runs < MaxRuns /\ c \in Conds
  /\ runs' = runs + 1
  /\ UNCHANGED <<st, lo, bst, blo, dlo, tst, tlo, cw, clw, pw, plw, phase, g, cur, rc, nblk, nitem, ntx, nops, rej, last>>
  /\ Emit([op |-> "Run", proc |-> c.proc, gmp |-> c.gmp, term |-> Term,
           ret |-> RunResult(rej), alt |-> RunResult(FALSE)])
Activity(a) ==
  /\ phase = "idle" /\ nitem > 0 /\ runs < MaxRuns /\ a \in Acts
  /\ runs' = runs + 1
  /\ UNCHANGED <<st, lo, bst, blo, dlo, tst, tlo, cw, clw, pw, plw, phase, g, cur, rc, nblk, nitem, ntx, nops, rej, last>>
  /\ Emit([op |-> "Act", kind |-> a, ret |-> "same"])

Next ==
  \/ \E c \in Conds : Run(c)
  \/ \E a \in Acts : Activity(a)
  \/ \E n \in 1..MaxGroup, e \in Execs : ItemBegin(n, e)
  \/ \E k \in SKeys, m \in SModes : TxWrite(k, m)
  \/ \E k \in SKeys : TxRead("S", k)
  \/ \E k \in LKeys : TxRead("L", k)
  \/ TxList
  \/ \E kind \in {"F", "P"} : TxFail(kind)
  \/ TxVerify
  \/ \E k \in LKeys, m \in LModes, del \in BOOLEAN : TxLocalWrite(k, m, del)
  \/ TxLocalFail
  \/ TxLocalDone
  \/ \E e \in Execs : TxNext(e)
  \/ TxCommit
  \/ TxRollback
  \/ TxReject
  \/ EndBlock

Spec == Init /\ [][Next]_vars

-----------------------------------------------------------------------------
\* Properties (checked by TLC on every reachable state / step)

TypeOK ==
  /\ phase \in {"idle", "exec", "local", "end"}
  /\ \A k \in SKeys : st[k] \in 0..ntx /\ bst[k] \in 0..ntx /\ tst[k] \in {None} \cup 0..ntx
  /\ \A k \in LKeys : lo[k] \in 0..ntx /\ blo[k] \in 0..ntx /\ tlo[k] \in {None} \cup 0..ntx
  /\ phase = "idle" => tst = EmptyS /\ tlo = EmptyL /\ pw = <<>> /\ plw = <<>>

\* C11 (a): between items the block's view is exactly the prior state plus the writes of the items
\* that succeeded, in order - nothing of a failed transaction or failed group is in it
NoLeak == phase = "idle" => bst = Fold(st, cw) /\ blo = Fold(lo, clw)

\* C11 (b): every read (of a transaction that may succeed) returns what it would return had the
\* failed transactions only paid their fee
ReadsAsIfFeeOnly == \A j \in 1..Len(cur.reads) : cur.reads[j].v = cur.reads[j].d

\* C11 (c): a failed item leaves the views untouched and all its receipts are fee-only
RollbackKeeps == [][(TxRollback \/ TxReject) => bst' = bst /\ blo' = blo /\ dlo' = dlo /\ cw' = cw /\ clw' = clw]_vars
FailedAllPack == (~last.ok /\ last.n > 0 /\ ~rej) =>
                   \A j \in (Len(rc) - last.n + 1)..Len(rc) : rc[j].ty = "pack" /\ rc[j].rd = <<>>

\* C12: a transaction ends ExecOk only if the receipt covers every key it Set and every reported
\* key is allowed for its executor, and its local keys carry its prefix
OkOnlyIfAllowed ==
  last.ok => \A j \in 1..Len(last.txs) : LET t == last.txs[j] IN
     t.ty = "ok" => /\ t.wrote \subseteq RepKeys(t.rep)
                    /\ \A q \in 1..Len(t.rep) : Allowed(t.rep[q][1], t.e)
                    /\ \A q \in 1..Len(t.lret) : LAllowed(t.lret[q][1], t.e)
\* ... and everything that reaches the state / the local data was written by an allowed executor
StateWritesAllowed == \A j \in 1..Len(cw) : Allowed(cw[j][1], cw[j][3])
LocalWritesPrefixed == /\ \A j \in 1..Len(clw) : LAllowed(clw[j][1], clw[j][3])
                       /\ \A j \in 1..Len(dlo) : LAllowed(dlo[j][1], dlo[j][3])
\* malformed keys never hold a value
MalformedNeverWritten == /\ \A k \in SKeys : ~k.wf => st[k] = 0 /\ bst[k] = 0
                         /\ \A k \in LKeys : ~k.wf => lo[k] = 0 /\ blo[k] = 0

\* C13: executing the block again under any condition, and any process-local activity, leaves
\* the reference state untouched - the outcome is a function of (block, prior state) alone
RunPure == [][((\E c \in Conds : Run(c)) \/ (\E a \in Acts : Activity(a))) =>
               UNCHANGED <<st, lo, bst, blo, dlo, cw, clw, rc, rej>>]_vars
=============================================================================
