SPECIFICATION Spec
CONSTANTS
  Execs <- C11ExecsL
  SKeys <- C11SKeysL
  LKeys <- C11LKeysL
  ParaChain = FALSE
  Registered <- Reg
  SameTime <- Same
  MaxBlocks = 3
  MaxItems = 6
  MaxGroup = 4
  MaxExecOps = 5
  MaxLocalOps = 3
  SModes = {"both", "wnr", "rnw"}
  LModes = {"ret", "both", "set"}
  Kinds = {"W", "RS", "RL", "LL", "F", "P", "LW", "LD", "FL"}
  Conds <- NoConds
  Acts <- NoActs
  MaxRuns = 0
  EmitOn = TRUE
CHECK_DEADLOCK FALSE
