SPECIFICATION TSpec
INVARIANTS Mark Functional
POSTCONDITION TraceDone
CHECK_DEADLOCK FALSE
