SPECIFICATION Spec
CONSTANTS
  Execs <- C11Execs
  SKeys <- C11SKeys
  LKeys <- C11LKeys
  ParaChain = FALSE
  Registered <- Reg
  SameTime <- Same
  MaxBlocks = 2
  MaxItems = 4
  MaxGroup = 3
  MaxExecOps = 3
  MaxLocalOps = 2
  SModes = {"both", "wnr", "rnw"}
  LModes = {"ret", "both", "set"}
  Kinds = {"W", "RS", "RL", "LL", "F", "P", "LW", "LD", "FL"}
  Conds <- NoConds
  Acts <- NoActs
  MaxRuns = 0
  EmitOn = TRUE
CHECK_DEADLOCK FALSE
