SPECIFICATION Spec
CONSTANTS
  Execs <- C11Execs
  SKeys <- C11SKeys
  LKeys <- C11LKeys1
  ParaChain = FALSE
  Registered <- Reg
  SameTime <- Same
  MaxBlocks = 1
  MaxItems = 2
  MaxGroup = 2
  MaxExecOps = 1
  MaxLocalOps = 1
  SModes = {"both", "wnr"}
  LModes = {"ret", "set"}
  Kinds = {"W", "RS", "RL", "LL", "F", "LW", "LD", "FL"}
  Conds <- NoConds
  Acts <- NoActs
  MaxRuns = 0
  EmitOn = FALSE
VIEW view
INVARIANTS TypeOK NoLeak ReadsAsIfFeeOnly FailedAllPack OkOnlyIfAllowed StateWritesAllowed LocalWritesPrefixed MalformedNeverWritten
PROPERTIES RollbackKeeps RunPure
CHECK_DEADLOCK FALSE
