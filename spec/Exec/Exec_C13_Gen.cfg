SPECIFICATION Spec
CONSTANTS
  Execs <- C11Execs
  SKeys <- C11SKeys
  LKeys <- C11LKeys
  ParaChain = FALSE
  Registered <- Reg
  SameTime <- Same
  MaxBlocks = 2
  MaxItems = 3
  MaxGroup = 2
  MaxExecOps = 2
  MaxLocalOps = 1
  SModes = {"both", "wnr", "rnw"}
  LModes = {"ret", "both", "set"}
  Kinds = {"W", "RS", "RL", "LL", "F", "P", "LW", "LD", "FL"}
  Conds <- C13Conds
  Acts <- C13Acts
  MaxRuns = 5
  EmitOn = TRUE
CHECK_DEADLOCK FALSE
