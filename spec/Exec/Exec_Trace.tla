----------------------------- MODULE Exec_Trace -----------------------------
(* Trace specification for C13: every recorded execution of a block names the     *)
(* identity of the block's bytes, the identity of the prior state root and the    *)
(* identity of the digest observed (receipts || state write set || state root ||  *)
(* local add set; event Del: local del set).  Block execution is deterministic    *)
(* iff the recorded executions define a function: the first execution of a       *)
(* (prior, block) pair binds its digest, every later one - in the same process    *)
(* after other activity, in a fresh process, with another CPU count - must show   *)
(* the same digest.  A Reset event separates independent scenarios.               *)
EXTENDS Integers, Sequences, TLC, TraceLib

VARIABLES bind, bindDel, bindGen, l
tvars == <<bind, bindDel, bindGen, l>>

Ev == Trace[l]
IsEvent(e) == l <= Len(Trace) /\ Ev.ev = e /\ l' = l + 1

TInit == bind = <<>> /\ bindDel = <<>> /\ bindGen = <<>> /\ l = 1

\* the genesis binding is not reset: the genesis block on an empty database is the same block on the
\* same prior state in every scenario of one node configuration
TReset == IsEvent("Reset") /\ bind' = <<>> /\ bindDel' = <<>> /\ UNCHANGED bindGen

Bound(f, key, d) == IF key \in DOMAIN f THEN f[key] = d ELSE TRUE
Extend(f, key, d) == IF key \in DOMAIN f THEN f ELSE (key :> d) @@ f

TRun == /\ IsEvent("Run")
        /\ Bound(bind, <<Ev.prior, Ev.blk>>, Ev.dig)
        /\ bind' = Extend(bind, <<Ev.prior, Ev.blk>>, Ev.dig)
        /\ UNCHANGED <<bindDel, bindGen>>

\* the genesis block executed on an empty database (this chain instance, a second chain instance of
\* the same process, a chain in a fresh process), per node configuration
TGen == /\ IsEvent("Gen")
        /\ Bound(bindGen, Ev.cfg, Ev.dig)
        /\ bindGen' = Extend(bindGen, Ev.cfg, Ev.dig)
        /\ UNCHANGED <<bind, bindDel>>

TDel == /\ IsEvent("Del")
        /\ Bound(bindDel, <<Ev.prior, Ev.blk>>, Ev.dig)
        /\ bindDel' = Extend(bindDel, <<Ev.prior, Ev.blk>>, Ev.dig)
        /\ UNCHANGED <<bind, bindGen>>

TNext == TReset \/ TRun \/ TDel \/ TGen
TSpec == TInit /\ [][TNext]_tvars

\* the property, as an invariant over what has been bound: one digest per (prior, block)
Functional == \A k \in DOMAIN bind : bind[k] \in Nat
Mark == MarkHWM(l - 1)
=============================================================================
