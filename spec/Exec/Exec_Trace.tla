----------------------------- MODULE Exec_Trace -----------------------------
(* Trace specification for C13: every recorded execution of a block names the     *)
(* identity of the block's bytes, the identity of the prior state root and the    *)
(* identity of the digest observed (receipts || state write set || state root ||  *)
(* local add set; event Del: local del set).  Block execution is deterministic    *)
(* iff the recorded executions define a function: the first execution of a       *)
(* (prior, block) pair binds its digest, every later one - in the same process    *)
(* after other activity, in a fresh process, with another CPU count - must show   *)
(* the same digest.  A Reset event separates independent scenarios.               *)
EXTENDS Integers, Sequences, TLC, TraceLib

VARIABLES bind, bindDel, l
tvars == <<bind, bindDel, l>>

Ev == Trace[l]
IsEvent(e) == l <= Len(Trace) /\ Ev.ev = e /\ l' = l + 1

TInit == bind = <<>> /\ bindDel = <<>> /\ l = 1

TReset == IsEvent("Reset") /\ bind' = <<>> /\ bindDel' = <<>>

Bound(f, key, d) == IF key \in DOMAIN f THEN f[key] = d ELSE TRUE
Extend(f, key, d) == IF key \in DOMAIN f THEN f ELSE (key :> d) @@ f

TRun == /\ IsEvent("Run")
        /\ Bound(bind, <<Ev.prior, Ev.blk>>, Ev.dig)
        /\ bind' = Extend(bind, <<Ev.prior, Ev.blk>>, Ev.dig)
        /\ UNCHANGED bindDel

TDel == /\ IsEvent("Del")
        /\ Bound(bindDel, <<Ev.prior, Ev.blk>>, Ev.dig)
        /\ bindDel' = Extend(bindDel, <<Ev.prior, Ev.blk>>, Ev.dig)
        /\ UNCHANGED bind

TNext == TReset \/ TRun \/ TDel
TSpec == TInit /\ [][TNext]_tvars

\* the property, as an invariant over what has been bound: one digest per (prior, block)
Functional == \A k \in DOMAIN bind : bind[k] \in Nat
Mark == MarkHWM(l - 1)
=============================================================================
