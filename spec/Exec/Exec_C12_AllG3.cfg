SPECIFICATION ASpec
CONSTANTS
  Execs <- C12ExecsG3
  SKeys <- C12SKeysG3
  LKeys <- C12LKeysG
  ParaChain = FALSE
  Registered <- Reg
  SameTime <- Same
  MaxBlocks = 1
  MaxItems = 1
  MaxGroup = 3
  MaxExecOps = 1
  MaxLocalOps = 0
  SModes = {"both", "wnr", "rnw"}
  LModes = {"ret"}
  Kinds = {"W"}
  Conds <- NoConds
  Acts <- NoActs
  MaxRuns = 0
  EmitOn = TRUE
INVARIANT Export
CHECK_DEADLOCK FALSE
