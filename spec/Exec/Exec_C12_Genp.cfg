SPECIFICATION Spec
CONSTANTS
  Execs <- C12Execs
  SKeys <- C12SKeys
  LKeys <- C12LKeys
  ParaChain = TRUE
  Registered <- Reg
  SameTime <- Same
  MaxBlocks = 2
  MaxItems = 3
  MaxGroup = 3
  MaxExecOps = 2
  MaxLocalOps = 1
  SModes = {"both", "wnr", "rnw"}
  LModes = {"ret", "both", "set"}
  Kinds = {"W", "RS", "RL", "F", "LW", "LD"}
  Conds <- NoConds
  Acts <- NoActs
  MaxRuns = 0
  EmitOn = TRUE
CHECK_DEADLOCK FALSE
