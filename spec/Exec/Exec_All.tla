------------------------------ MODULE Exec_All ------------------------------
(* Exhaustive behaviour export (GEN-all): the history of JSON action labels is part *)
(* of the state; each complete bounded behaviour is printed once as "@@B <json>".  *)
EXTENDS Exec_MC
VARIABLE hist
AInit == Init /\ hist = <<>>
ANext == Next /\ hist' = Append(hist, act')
ASpec == AInit /\ [][ANext]_<<vars, hist>>
Done == nblk = MaxBlocks
Export == Done => PrintT(<<"@@B", ToJson(hist)>>)
=============================================================================
