SPECIFICATION Spec
CONSTANTS
  Execs <- C12Execs
  SKeys <- C12SKeysS
  LKeys <- C12LKeysS
  ParaChain = TRUE
  Registered <- Reg
  SameTime <- Same
  MaxBlocks = 1
  MaxItems = 3
  MaxGroup = 1
  MaxExecOps = 1
  MaxLocalOps = 1
  SModes = {"both", "wnr", "rnw"}
  LModes = {"ret", "set"}
  Kinds = {"W", "RS", "LW"}
  Conds <- NoConds
  Acts <- NoActs
  MaxRuns = 0
  EmitOn = FALSE
VIEW view
INVARIANTS TypeOK NoLeak ReadsAsIfFeeOnly FailedAllPack OkOnlyIfAllowed StateWritesAllowed LocalWritesPrefixed MalformedNeverWritten
PROPERTIES RollbackKeeps
CHECK_DEADLOCK FALSE
