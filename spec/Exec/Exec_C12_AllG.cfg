SPECIFICATION ASpec
CONSTANTS
  Execs <- C12ExecsG
  SKeys <- C12SKeysG
  LKeys <- C12LKeysG
  ParaChain = FALSE
  Registered <- Reg
  SameTime <- Same
  MaxBlocks = 1
  MaxItems = 1
  MaxGroup = 2
  MaxExecOps = 1
  MaxLocalOps = 0
  SModes = {"both", "wnr", "rnw"}
  LModes = {"ret"}
  Kinds = {"W"}
  Conds <- NoConds
  Acts <- NoActs
  MaxRuns = 0
  EmitOn = TRUE
INVARIANT Export
CHECK_DEADLOCK FALSE
