------------------------------ MODULE Exec_MC ------------------------------
(* Constant sets for the Exec configurations (records cannot be written in a .cfg). *)
EXTENDS Exec

N(t, b, s) == [t |-> t, b |-> b, s |-> s]
VX    == N("", "verifx", "")
VZ    == N("", "verifz", "")
VN    == N("", "verifn", "")
VXsub == N("", "verifx", "sub")
VXpara == N("user.p.para.", "verifx", "")
VXother == N("user.p.other.", "verifx", "")
COINS == N("", "coins", "")
NOSUCH == N("", "nosuch", "")

SK(ns, area, fr, i) == [wf |-> TRUE, ns |-> ns, area |-> area, fr |-> fr, i |-> i]
BadSK(i) == [wf |-> FALSE, ns |-> NoName, area |-> NoName, fr |-> FALSE, i |-> i]
LK(ns, i) == [wf |-> TRUE, ns |-> ns, i |-> i]
BadLK(ns, i) == [wf |-> FALSE, ns |-> ns, i |-> i]

Reg == {"verifx", "verifz", "verifn"}
Same == {"verifx", "verifz"}

\* ---- C11: one executor, two state keys, two local keys ----
C11Execs == {VX}
C11SKeys == {SK(VX, NoName, FALSE, 1), SK(VX, NoName, FALSE, 2)}
C11LKeys == {LK(VX, 1), LK(VX, 2)}
C11SKeys1 == {SK(VX, NoName, FALSE, 1)}
C11LKeys1 == {LK(VX, 1)}

\* a larger alphabet for simulation only: two executor names sharing the base executor's local prefix,
\* a friend-approved foreign key
C11ExecsL == {VX, VXsub}
C11SKeysL == {SK(VX, NoName, FALSE, 1), SK(VX, NoName, FALSE, 2), SK(VXsub, NoName, FALSE, 1), SK(VZ, NoName, TRUE, 1)}
C11LKeysL == {LK(VX, 1), LK(VX, 2), LK(VXsub, 1)}

\* ---- C12: the key classes of the rule ----
C12Execs == {VX, VXsub, VXpara, VXother, VN}
Areas == {NoName, VX, VXsub, VXpara, VZ}
C12SKeys == {SK(ns, a, fr, 1) : ns \in {VX, VXsub, VXpara, VZ, COINS, NOSUCH, NoName}, a \in Areas, fr \in BOOLEAN}
            \cup {BadSK(1), BadSK(2)}
C12LKeys == {LK(ns, 1) : ns \in {VX, VXsub, VXpara, VZ, VN}} \cup {BadLK(VX, 1), BadLK(VX, 2), BadLK(VXsub, 1), BadLK(VN, 1)}
\* a smaller mix for multi-transaction blocks
C12SKeysS == {SK(VX, NoName, FALSE, 1), SK(VZ, NoName, FALSE, 1), SK(VZ, NoName, TRUE, 1), SK(COINS, VX, FALSE, 1),
              SK(VXsub, NoName, FALSE, 1), BadSK(1)}
C12LKeysS == {LK(VX, 1), LK(VZ, 1), BadLK(VX, 1)}
C12ExecsS == {VX, VXsub, VZ}

\* group rows of the C12 table: one group of 2 (and every single transaction) over keys that two
\* members with different executor names may both touch - member j re-writing, unreported or as a
\* foreign key, what member i wrote legitimately under the same Begin
C12ExecsG == {VX, VXsub, VZ}
C12SKeysG == {SK(VX, NoName, FALSE, 1), SK(VXsub, NoName, FALSE, 1), SK(VZ, NoName, FALSE, 1), SK(VZ, NoName, TRUE, 1)}
C12LKeysG == {LK(VX, 1)}
\* groups of 3 over one key and two executor names
C12ExecsG3 == {VX, VZ}
C12SKeysG3 == {SK(VX, NoName, FALSE, 1)}

\* ---- C13 ----
\* script transactions and transactions of a foreign para chain (executed by the none driver)
C13Execs == {VX, VXother}
\* long: the long-running process (after whatever preceded); fresh: a new child process; conc: the
\* long-running process serving several EventExecTxList requests for the block at once
C13Conds == {[proc |-> p, gmp |-> n] : p \in {"long", "fresh"}, n \in {1, 2, 16}} \cup
            {[proc |-> "conc", gmp |-> n] : n \in {2, 16}}
\* chain: another chain instance is started (genesis on empty databases) in the long-running process
C13Acts == {"gc", "query", "side", "checktx", "chain"}
C13CondsS == {[proc |-> "long", gmp |-> 1], [proc |-> "fresh", gmp |-> 16]}
C13ActsS == {"side"}
NoConds == {}
NoActs == {}
=============================================================================
