------------------------------ MODULE TxField ------------------------------
(***************************************************************************)
(* C16 - transaction hash and signature bind every signed field.           *)
(* Reference decision table for types/tx.go Hash / FullHash / Clone /      *)
(* CloneTx / Sign / CheckSign and the height-gated crypto driver loading   *)
(* (common/crypto Load / WithLoadOptionEnableCheck).                       *)
(*                                                                         *)
(* One behaviour = one transaction: Sign(s, a) ; [Mutate(scope, f, m)] ;   *)
(* Observe(hc) for every height class of the signature type.               *)
(*                                                                         *)
(* The field lists are CONSTANTS: the orchestration fills them from the    *)
(* protobuf descriptors of types.Transaction / types.Signature read by     *)
(* reflection in the driver, so a field added to the message appears as    *)
(* new rows without touching this file.  KnownTxFields / KnownSigFields    *)
(* record the lists this table was written against (cross-checked, a       *)
(* difference is reported in the evidence).                                *)
(*                                                                         *)
(* What the table demands (exactly the statement of C16):                  *)
(*   Hash      changes iff the mutated field is a Transaction field other  *)
(*             than signature (whole or any sub-field) and header          *)
(*   FullHash  changes for every mutation                                  *)
(*   Clone/CloneTx of the (mutated) transaction have its Hash and FullHash *)
(*   CheckSign(h) is TRUE iff nothing was mutated and the signature type   *)
(*             is enabled at h; FALSE after a mutation of any Transaction  *)
(*             field (header included), of the public key or of the        *)
(*             signature bytes, and at heights where the type is disabled  *)
(* Deliberately left open ("*"): CheckSign after a mutation of             *)
(* signature.ty (the type id is not signed and also carries the address    *)
(* format; the property does not speak about it).  Key-less types (none)   *)
(* are only observed unmutated (height gate).  Cryptographic soundness      *)
(* (forgery with another key) is trusted, not modelled.                    *)
(***************************************************************************)
EXTENDS Integers, Sequences, FiniteSets, Json, TLC

CONSTANTS TxFields,     \* protobuf field names of types.Transaction
          SigFields,    \* protobuf field names of types.Signature
          MsgFields,    \* Transaction fields of message kind (only mutation "zero" applies)
          Muts,         \* byte/number mutations, e.g. {"flip","flip0","zero","ext1","ext32","trunc"}
          SigTypes,     \* registered crypto driver names
          OffTypes,     \* types disabled by the configuration at every height
          GatedTypes,   \* types with a non-zero enable height in the configuration
          NoKeyTypes,   \* types without keys (none): observed unmutated only
          AddrFmts,     \* address format ids encoded into the signature type id
          EmitOn

KnownTxFields == {"execer", "payload", "signature", "fee", "expire", "nonce", "to",
                  "groupCount", "header", "next", "chainID"}
KnownSigFields == {"ty", "pubkey", "signature"}

VARIABLES phase, sg, mut, seen, act
vars == <<phase, sg, mut, seen, act>>
view == <<phase, sg, mut, seen>>

NoMut == <<"-", "-", "-">>
NoSig == <<"-", -1>>

HClasses(s) == IF s \in GatedTypes THEN {"below", "at", "above"} ELSE {"at", "above"}

\* ---- the expected table ---------------------------------------------------
HashExcluded == {"signature", "header"}
HashChanged(m) == m # NoMut /\ m[1] = "tx" /\ m[2] \notin HashExcluded
FullChanged(m) == m # NoMut
Enabled(s, hc) == s \notin OffTypes /\ (s \in GatedTypes => hc \in {"at", "above"})
SignOpen(m) == m # NoMut /\ m[1] = "sig" /\ m[2] = "ty"
SignOk(s, m, hc) == m = NoMut /\ Enabled(s, hc)

Expect(s, m, hc) ==
  [hash  |-> IF HashChanged(m) THEN "changed" ELSE "same",
   full  |-> IF FullChanged(m) THEN "changed" ELSE "same",
   clone |-> "same",
   sign  |-> IF SignOpen(m) THEN "*" ELSE IF SignOk(s, m, hc) THEN "true" ELSE "false"]

Emit(r) == act' = IF EmitOn THEN ToJson(r) ELSE ""

Init == /\ phase = "new" /\ sg = NoSig /\ mut = NoMut /\ seen = {}
        /\ act = IF EmitOn THEN ToJson([op |-> "Init"]) ELSE ""

Sign(s, a) ==
  /\ phase = "new"
  /\ sg' = <<s, a>> /\ phase' = "signed"
  /\ UNCHANGED <<mut, seen>>
  /\ Emit([op |-> "Sign", sig |-> s, fmt |-> a, ret |-> "ok"])

MutsOf(scope, f) == IF scope = "tx" /\ f \in MsgFields THEN {"zero"} ELSE Muts

Mutate(scope, f, m) ==
  /\ phase = "signed" /\ sg[1] \notin NoKeyTypes
  /\ m \in MutsOf(scope, f)
  /\ mut' = <<scope, f, m>> /\ phase' = "mut"
  /\ UNCHANGED <<sg, seen>>
  /\ Emit([op |-> "Mutate", scope |-> scope, field |-> f, mut |-> m, ret |-> "ok"])

Ord(hc) == CASE hc = "below" -> 1 [] hc = "at" -> 2 [] OTHER -> 3

\* observations in the fixed order below < at < above keep the exported behaviours canonical
Observe(hc) ==
  /\ phase \in {"signed", "mut"}
  /\ hc \in HClasses(sg[1]) \ seen
  /\ \A x \in HClasses(sg[1]) \ seen : Ord(hc) <= Ord(x)
  /\ seen' = seen \cup {hc}
  /\ UNCHANGED <<phase, sg, mut>>
  /\ Emit([op |-> "Observe", hc |-> hc, sig |-> sg[1], ret |-> Expect(sg[1], mut, hc)])

Next == \/ \E s \in SigTypes, a \in AddrFmts : Sign(s, a)
        \/ \E f \in TxFields, m \in Muts : Mutate("tx", f, m)
        \/ \E f \in SigFields, m \in Muts : Mutate("sig", f, m)
        \/ \E hc \in {"below", "at", "above"} : Observe(hc)

Spec == Init /\ [][Next]_vars

Done == phase \in {"signed", "mut"} /\ seen = HClasses(sg[1])

-----------------------------------------------------------------------------
\* Sanity of the table (checked by TLC on every reachable row)
TypeOK == /\ phase \in {"new", "signed", "mut"}
          /\ (phase = "new") = (sg = NoSig)
          /\ (phase = "mut") = (mut # NoMut)
          /\ seen \subseteq {"below", "at", "above"}

\* every hash-visible change is full-hash-visible
HashImpliesFull == HashChanged(mut) => FullChanged(mut)
\* the hash ignores exactly the signature (whole and parts) and the group header
HashIgnoresOnly == (mut # NoMut /\ ~HashChanged(mut)) =>
                      (mut[1] = "sig" \/ mut[2] \in {"signature", "header"})
\* a verified signature means: untouched and enabled; enablement is monotone in height
SignSound == \A hc \in {"below", "at", "above"} :
               SignOk(sg[1], mut, hc) => (mut = NoMut /\ sg[1] \notin OffTypes)
ASSUME GateMonotone == \A s \in SigTypes :
                  /\ (Enabled(s, "below") => Enabled(s, "at"))
                  /\ (Enabled(s, "at") => Enabled(s, "above"))
\* every signed field is covered: after any mutation that the property names the answer is a definite FALSE
Covered == (mut # NoMut /\ ~SignOpen(mut)) =>
              \A hc \in {"below", "at", "above"} : Expect(sg[1], mut, hc).sign = "false"
=============================================================================
