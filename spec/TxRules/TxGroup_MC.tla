---- MODULE TxGroup_MC ----
EXTENDS TxGroup
====
