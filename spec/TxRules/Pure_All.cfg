SPECIFICATION ASpec
CONSTANTS
  Heights = {99, 100, 101}
  NoCtx = TRUE
  EnMs = 0
  EnEth = 100
  FkMs = 0
  FkB58 = 0
  FkFmt = 0
  EnSig = 100
  OffDrivers = {}
  SigOff = FALSE
  MaxLen = 4
  Mode = "all"
  CacheKey = "addr+enabled"
  Order = "id"
  PkCache = "raw"
  EmitOn = TRUE
INVARIANT Export
CHECK_DEADLOCK FALSE
