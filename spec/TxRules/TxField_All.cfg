SPECIFICATION ASpec
CONSTANTS
  TxFields = {"execer", "payload", "signature", "fee", "expire", "nonce", "to", "groupCount", "header", "next", "chainID"}
  SigFields = {"ty", "pubkey", "signature"}
  MsgFields = {"signature"}
  Muts = {"flip", "flip0", "zero", "ext1", "ext32", "trunc"}
  SigTypes = {"secp256k1", "ed25519", "sm2", "secp256r1", "secp256k1eth", "none"}
  OffTypes = {"none"}
  GatedTypes = {"ed25519", "sm2"}
  NoKeyTypes = {"none"}
  AddrFmts = {0, 2}
  EmitOn = TRUE
INVARIANT Export
CHECK_DEADLOCK FALSE
