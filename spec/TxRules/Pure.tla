-------------------------------- MODULE Pure --------------------------------
(***************************************************************************)
(* C19 - validity checks are independent of process history.               *)
(*                                                                         *)
(* Mechanism model of the process-global state behind                      *)
(*   address.CheckAddress(addr, h)     (common/address: checkAddressCache, *)
(*                                      drivers map with enable heights)   *)
(*   dapp.CheckAddress(cfg, addr, h)   (system/dapp: branches on the error *)
(*                                      value before two fork heights)     *)
(*   address.PubKeyToAddr / Transaction.From   (system/address/eth:        *)
(*                                      addrCache, formatting depends on   *)
(*                                      the node height and a fork)        *)
(*   Transaction.CheckSign(h)          (common/crypto: height gate, no     *)
(*                                      cache)                             *)
(* The property: every answer is the pure function Ans(input, h, cfg).     *)
(* It is stated as invariant Pure over the answers of the last step.       *)
(*                                                                         *)
(* The constants CacheKey / Order / PkCache select the mechanism:          *)
(*   as found   CacheKey="addr"  Order="map"  PkCache="formatted"          *)
(*              (TLC finds histories violating Pure - candidates that the  *)
(*               driver replays on the real code)                          *)
(*              (also CacheKey="addr+gated": key = address + enabled drivers *)
(*               with a positive enable height; wrong when a driver has a  *)
(*               negative enable height, which is off at h >= 0, on at -1) *)
(*   repaired   CacheKey="addr+enabled"  Order="id"  PkCache="raw"         *)
(*              (Pure holds for all histories)                             *)
(* Independently of which mechanism the code has, the generated histories  *)
(* are replayed in a long-lived process and every answer, including the    *)
(* exact error, is compared with the answer of fresh child processes asked *)
(* only that question (binding table keyed by (op, input, h, cfg)); the    *)
(* specification predicts only "pure", never a particular error value.     *)
(*                                                                         *)
(* V(d, c) is the verdict of address driver d on an input of class c - a   *)
(* stateless fact about ValidateAddr (cross-checked against the code by    *)
(* the orchestration; it only matters for where the as-found mechanism is  *)
(* order dependent).                                                       *)
(***************************************************************************)
EXTENDS Integers, Sequences, FiniteSets, Json, TLC

CONSTANTS Heights,   \* query heights (naturals)
          NoCtx,     \* TRUE: the height -1 ("no height context") is queried as well
          EnMs,      \* enable height of address driver btcMultiSign (btc, utxo: 0)
          EnEth,     \* enable height of address driver eth
          FkMs,      \* ForkMultiSignAddress
          FkB58,     \* ForkBase58AddressCheck
          FkFmt,     \* ForkFormatAddressKey
          EnSig,     \* enable height of the gated signature type
          OffDrivers,\* address drivers configured with a negative enable height (the stock default has eth = -2):
                     \* off at every h >= 0, but on when there is no height context (h = -1)
          SigOff,    \* TRUE: the signature type is configured with a negative enable height
          MaxLen,    \* number of steps of a history
          Mode,      \* "all": a step queries every input at one height; "single": one input
          CacheKey, Order, PkCache,
          EmitOn

AllHeights == Heights \cup (IF NoCtx THEN {-1} ELSE {})

Classes == {"btc", "ms", "eth", "ethmix", "badver", "badsum", "longsum", "junk", "exec"}
Drivers == {0, 1, 2, 3}          \* btc, btcMultiSign, eth, utxo

V(d, c) ==
  CASE d = 0 -> (CASE c \in {"btc", "exec"} -> "nil" [] c \in {"ms", "badver"} -> "ErrCheckVersion"
                   [] c = "badsum" -> "ErrCheckChecksum" [] c = "longsum" -> "ErrAddressChecksum"
                   [] OTHER -> "ErrAddressLength")
    [] d = 1 -> (CASE c = "ms" -> "nil" [] c \in {"eth", "ethmix", "junk"} -> "ErrAddressLength"
                   [] OTHER -> "ErrCheckVersion")
    [] d = 2 -> (IF c \in {"eth", "ethmix"} THEN "nil" ELSE "ErrInvalidEthAddr")
    [] OTHER -> "ErrAddressType"

EnableAt(d) == IF d \in OffDrivers THEN -1 ELSE CASE d = 1 -> EnMs [] d = 2 -> EnEth [] OTHER -> 0
IsEnable(h, e) == h < 0 \/ (e >= 0 /\ e <= h)
En(h) == {d \in Drivers : IsEnable(h, EnableAt(d))}
IsFork(h, f) == h = -1 \/ h >= f
MinOf(S) == CHOOSE x \in S : \A y \in S : x <= y

VARIABLES acache,   \* checkAddressCache: key -> cached answer
          pcache,   \* eth addrCache entry of the public key: "-" empty, "raw", or the formatted string
          n, last, lastPk, lastH, act
vars == <<acache, pcache, n, last, lastPk, lastH, act>>
view == <<acache, pcache, n, last, lastPk, lastH>>

\* ---- the pure answers (what a fresh process says) ---------------------------
Accepts(c, h) == \E d \in En(h) : V(d, c) = "nil"
AddrAns(c, h) == IF En(h) = {} \/ Accepts(c, h) THEN "nil" ELSE V(MinOf(En(h)), c)
Compat(e, c, h) ==
  IF c = "exec" THEN "nil"
  ELSE IF ~IsFork(h, FkMs) /\ e = "ErrCheckVersion" THEN "nil"
  ELSE IF ~IsFork(h, FkB58) /\ e = "ErrAddressChecksum" THEN "nil"
  ELSE e
DappAns(c, h) == Compat(AddrAns(c, h), c, h)
NodeH(h) == IF h < 0 THEN 0 ELSE h
PkAns(h) == IF IsFork(NodeH(h), FkFmt) THEN "lower" ELSE "mixed"
SignAns(h) == h < 0 \/ (~SigOff /\ h >= EnSig)

\* ---- the mechanism ----------------------------------------------------------
\* "addr+gated": only drivers with a positive enable height enter the key - a driver disabled by a
\* negative enable height is still on at h = -1 ("no height context"), so -1 and h >= 0 collide
Key(c, h) == IF CacheKey = "addr" THEN <<c>>
             ELSE IF CacheKey = "addr+gated" THEN <<c, {d \in En(h) : EnableAt(d) > 0}>>
             ELSE <<c, En(h)>>
\* what an uncached evaluation can return
Poss(c, h) ==
  IF En(h) = {} \/ Accepts(c, h) THEN {"nil"}
  ELSE IF Order = "id" THEN {V(MinOf(En(h)), c)}
  ELSE {V(d, c) : d \in En(h)}         \* the error of whichever driver the map yields last
Canon(c, h) == IF AddrAns(c, h) \in Poss(c, h) THEN AddrAns(c, h) ELSE CHOOSE e \in Poss(c, h) : TRUE

AddrStep(cs, h, c0, e0) ==
  \* answers for the classes cs at height h; class c0 evaluates (if uncached) to e0
  LET ans(c) == IF Key(c, h) \in DOMAIN acache THEN acache[Key(c, h)]
                ELSE IF c = c0 THEN e0 ELSE Canon(c, h)
      newKeys == {Key(c, h) : c \in cs} \ DOMAIN acache
      cls(k) == CHOOSE c \in cs : Key(c, h) = k
  IN /\ acache' = [k \in DOMAIN acache \cup newKeys |->
                     IF k \in DOMAIN acache THEN acache[k] ELSE ans(cls(k))]
     /\ last' = [c \in Classes |->
                   IF c \in cs THEN [addr |-> ans(c), dapp |-> Compat(ans(c), c, h)]
                   ELSE [addr |-> "-", dapp |-> "-"]]

PkStep(h) ==
  \* eth PubKeyToAddr: as found the formatted string is cached, repaired the raw one
  IF PkCache = "raw" THEN pcache' = "raw" /\ lastPk' = PkAns(h)
  ELSE /\ pcache' = IF pcache = "-" THEN PkAns(h) ELSE pcache
       /\ lastPk' = pcache'

Emit(r) == act' = IF EmitOn THEN ToJson(r) ELSE ""

Init == /\ acache = <<>> /\ pcache = "-" /\ lastPk = "-" /\ n = 0 /\ lastH = 0
        /\ last = [c \in Classes |-> [addr |-> "-", dapp |-> "-"]]
        /\ act = IF EmitOn THEN ToJson([op |-> "Init"]) ELSE ""

\* one step of a node at height h: every input class is checked at h (all operations)
QueryAll(h) ==
  /\ Mode = "all" /\ n < MaxLen
  /\ \E c0 \in Classes : \E e0 \in Poss(c0, h) : AddrStep(Classes, h, c0, e0)
  /\ PkStep(h)
  /\ n' = n + 1 /\ lastH' = h
  /\ Emit([op |-> "QueryAll", h |-> h, ret |-> "pure"])

\* one operation group on one input class
Query(q, c, h) ==
  /\ Mode = "single" /\ n < MaxLen
  /\ IF q = "addr" THEN /\ \E e0 \in Poss(c, h) : AddrStep({c}, h, c, e0)
                        /\ UNCHANGED pcache /\ lastPk' = "-"
     ELSE /\ PkStep(h)
          /\ last' = [x \in Classes |-> [addr |-> "-", dapp |-> "-"]]
          /\ UNCHANGED acache
  /\ n' = n + 1 /\ lastH' = h
  /\ Emit([op |-> "Query", q |-> q, cls |-> c, h |-> h, ret |-> "pure"])

Next == \/ \E h \in AllHeights : QueryAll(h)
        \/ \E q \in {"addr", "key"}, c \in Classes, h \in AllHeights : (q = "key" => c = "btc") /\ Query(q, c, h)

Spec == Init /\ [][Next]_vars

Done == n = MaxLen

-----------------------------------------------------------------------------
TypeOK == /\ n \in 0..MaxLen
          /\ pcache \in {"-", "raw", "mixed", "lower"} /\ lastPk \in {"-", "mixed", "lower"}
          /\ \A k \in DOMAIN acache : acache[k] \in {"nil"} \cup {V(d, c) : d \in Drivers, c \in Classes}

\* C19: every answer of the last step is the pure function of (input, h, cfg)
PureAddr == \A c \in Classes : last[c].addr # "-" =>
               /\ last[c].addr = AddrAns(c, lastH)
               /\ last[c].dapp = DappAns(c, lastH)
PureKey == lastPk # "-" => lastPk = PkAns(lastH)
Pure == PureAddr /\ PureKey

\* the cache never changes an answer: a cached entry equals what an uncached evaluation gives
\* at every height that maps to the same key
CacheSound == \A c \in Classes, h \in AllHeights :
                Key(c, h) \in DOMAIN acache => acache[Key(c, h)] = AddrAns(c, h)
=============================================================================
