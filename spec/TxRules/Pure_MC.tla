---- MODULE Pure_MC ----
EXTENDS Pure
====
