---------------------------- MODULE TxGroup_All ----------------------------
(* Exhaustive export of the C17 rows: Create ; Observe ; Mutate ; Observe. *)
EXTENDS TxGroup
VARIABLE hist
AInit == Init /\ hist = <<>>
ANext == Next /\ hist' = Append(hist, act')
ASpec == AInit /\ [][ANext]_<<vars, hist>>
Export == Done => PrintT(<<"@@B", ToJson(hist)>>)
=============================================================================
