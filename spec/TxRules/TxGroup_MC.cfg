SPECIFICATION Spec
CONSTANTS
  Sizes = {2, 3, 4, 5, 20}
  Kinds = {"main", "para"}
  AlterFields = {"execer", "payload", "signature", "fee", "expire", "nonce", "to", "groupCount", "header", "next", "chainID"}
  AllPos = TRUE
  MaxGroup = 20
  EmitOn = FALSE
VIEW view
INVARIANTS TypeOK CreatedPasses TamperEvident FeeRules
CHECK_DEADLOCK FALSE
