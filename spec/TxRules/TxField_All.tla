---------------------------- MODULE TxField_All ----------------------------
(* Exhaustive export of the C16 table: every complete behaviour            *)
(* Sign ; [Mutate] ; Observe* is printed once as "@@B <json>".             *)
EXTENDS TxField
VARIABLE hist
AInit == Init /\ hist = <<>>
ANext == Next /\ hist' = Append(hist, act')
ASpec == AInit /\ [][ANext]_<<vars, hist>>
Export == Done => PrintT(<<"@@B", ToJson(hist)>>)
=============================================================================
