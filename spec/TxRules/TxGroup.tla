------------------------------ MODULE TxGroup ------------------------------
(***************************************************************************)
(* C17 - transaction groups are tamper-evident.                            *)
(* Reference model of types/tx.go CreateTxGroup / RebuiltGroup /           *)
(* Transactions.CheckWithFork / Transactions.CheckSign.                    *)
(*                                                                         *)
(* A member is abstracted to what the chaining scheme looks at:            *)
(*   id, ver  - identity and revision of everything else the member says   *)
(*              (execer, payload, expire, nonce, to, chainID)              *)
(*   fee, gc  - fee and groupCount                                         *)
(*   hdr, nxt - group header and next pointers (hash terms)                *)
(*   sig      - the content the member's key signed (or junk)              *)
(* Hashes and signatures are free constructors (cryptography trusted):     *)
(*   H(m)      = everything except hdr and sig   (Transaction.Hash)        *)
(*   Signed(m) = everything except sig           (Transaction.Sign)        *)
(* The required fee of a member is one unit (the driver uses the real      *)
(* GetRealFee at the configured rate; mutations never lower it).           *)
(*                                                                         *)
(* One behaviour: Create(n, kind) ; Observe ; [Mutate(m) ; Observe].       *)
(* Demanded (exactly C17): a created and signed group passes Check and     *)
(* CheckSign; after any listed mutation Check or CheckSign fails (which    *)
(* of the two is left open - "model" in the label is informational).       *)
(* TLC checks both statements on the model (CreatedPasses, TamperEvident). *)
(* Not modelled: the para/main mixing rule, chainID and size limits of     *)
(* the per-member check (they can only add failures).                      *)
(***************************************************************************)
EXTENDS Integers, Sequences, FiniteSets, Json, TLC

CONSTANTS Sizes,        \* group sizes to build
          Kinds,        \* "main" / "para": what all members are
          AlterFields,  \* Transaction fields altered by alter(i, f, resign)
          AllPos,       \* TRUE: every member position, FALSE: first two and last two
          MaxGroup,     \* types.MaxTxGroupSize
          EmitOn

VARIABLES g, mut, phase, kind, act
vars == <<g, mut, phase, kind, act>>
view == <<g, mut, phase, kind>>

Nil == <<"nil">>
Stale == <<"stale">>
NoMut == [name |-> "none", i |-> 0, j |-> 0, f |-> "-", resign |-> FALSE]

Member(i) == [id |-> i, ver |-> 0, fee |-> 0, gc |-> 0, hdr |-> Nil, nxt |-> Nil, sig |-> Nil]
H(m) == <<"H", m.id, m.ver, m.fee, m.gc, m.nxt>>
Signed(m) == <<"S", m.id, m.ver, m.fee, m.gc, m.hdr, m.nxt>>
Resign(m) == [m EXCEPT !.sig = Signed(m)]
ResignAll(s) == [i \in 1..Len(s) |-> Resign(s[i])]

\* RebuiltGroup / the chaining part of CreateTxGroup: next pointers from the back, then the
\* header = hash of the first member everywhere (the last member's next is left as it is)
Relink(s) ==
  LET n == Len(s)
      R[i \in 1..n] == IF i = n THEN s[n] ELSE [s[i] EXCEPT !.nxt = H(R[i + 1])]
      hd == H(R[1])
  IN [i \in 1..n |-> [R[i] EXCEPT !.hdr = hd]]

\* CreateTxGroup(n members, fee rate) followed by every member signing
Created(n) ==
  ResignAll(Relink([i \in 1..n |-> [Member(i) EXCEPT !.gc = n, !.fee = IF i = 1 THEN n ELSE 0]]))

\* Transactions.CheckWithFork in the order of the code
Check(s) ==
  LET n == Len(s) IN
  IF n < 2 THEN "ErrTxGroupCountLessThanTwo"
  ELSE IF \E i \in 2..n : s[i].fee # 0 THEN "ErrTxGroupFeeNotZero"
  ELSE IF s[1].fee < n THEN "ErrTxFeeTooLow"
  ELSE LET bad(i) ==
             IF (i = 1 /\ H(s[1]) # s[1].hdr) \/ (i > 1 /\ s[i].hdr # s[1].hdr) THEN "ErrTxGroupHeader"
             ELSE IF s[i].gc > MaxGroup THEN "ErrTxGroupCountBigThanMaxSize"
             ELSE IF s[i].gc # n THEN "ErrTxGroupCount"
             ELSE IF (i < n /\ s[i].nxt # H(s[i + 1])) \/ (i = n /\ s[i].nxt # Nil) THEN "ErrTxGroupNext"
             ELSE "ok"
       IN IF \A i \in 1..n : bad(i) = "ok" THEN "ok"
          ELSE bad(CHOOSE i \in 1..n : bad(i) # "ok" /\ \A j \in 1..(i - 1) : bad(j) = "ok")

CheckSign(s) == \A i \in 1..Len(s) : s[i].sig = Signed(s[i])
Pass(s) == Check(s) = "ok" /\ CheckSign(s)

Pos(n) == IF AllPos THEN 1..n ELSE {1, 2, n - 1, n} \cap (1..n)

AlterField(m, f) ==
  CASE f = "fee" -> [m EXCEPT !.fee = @ + 1]
    [] f = "groupCount" -> [m EXCEPT !.gc = @ + 1]
    [] f = "header" -> [m EXCEPT !.hdr = Stale]
    [] f = "next" -> [m EXCEPT !.nxt = Stale]
    [] f = "signature" -> [m EXCEPT !.sig = Stale]
    [] OTHER -> [m EXCEPT !.ver = @ + 1]

\* the mutations of the property statement, applied to a created group s
Mutations(s) ==
  LET n == Len(s) P == Pos(n) IN
       {[NoMut EXCEPT !.name = "swap", !.i = i, !.j = j] : <<i, j>> \in {p \in P \X P : p[1] < p[2]}}
  \cup {[NoMut EXCEPT !.name = "drop", !.i = i] : i \in P}
  \cup {[NoMut EXCEPT !.name = "append"]}
  \cup {[NoMut EXCEPT !.name = "subst", !.i = i] : i \in P}
  \cup {[NoMut EXCEPT !.name = "alter", !.i = i, !.f = f, !.resign = r] :
           <<i, f, r>> \in {q \in P \X AlterFields \X BOOLEAN : ~(q[2] = "signature" /\ q[3])}}
  \cup {[NoMut EXCEPT !.name = "alterRebuild", !.i = i] : i \in P}
  \cup {[NoMut EXCEPT !.name = "feeBelowSum"]}
  \cup {[NoMut EXCEPT !.name = "memberFee", !.i = i] : i \in P \ {1}}
  \cup {[NoMut EXCEPT !.name = "wrongCount", !.j = d] : d \in {-1, 1}}
  \cup {[NoMut EXCEPT !.name = "staleHeader"]}
  \cup {[NoMut EXCEPT !.name = "staleNext", !.i = i] : i \in P \ {n}}

Apply(s, m) ==
  LET n == Len(s) IN
  CASE m.name = "swap" -> [s EXCEPT ![m.i] = s[m.j], ![m.j] = s[m.i]]
    [] m.name = "drop" -> SubSeq(s, 1, m.i - 1) \o SubSeq(s, m.i + 1, n)
       \* a stranger's signed transaction dressed up as a further member
    [] m.name = "append" -> Append(s, Resign([Member(n + 1) EXCEPT !.gc = n, !.hdr = s[1].hdr]))
       \* another transaction with the victim's group fields, validly signed by its own key
    [] m.name = "subst" -> [s EXCEPT ![m.i] = Resign([s[m.i] EXCEPT !.id = n + 1])]
    [] m.name = "alter" -> [s EXCEPT ![m.i] = IF m.resign THEN Resign(AlterField(s[m.i], m.f))
                                                          ELSE AlterField(s[m.i], m.f)]
       \* member i changes its content, rebuilds the chain and signs again; the others do not
    [] m.name = "alterRebuild" ->
         LET r == Relink([s EXCEPT ![m.i].ver = @ + 1]) IN
         [k \in 1..n |-> IF k = m.i THEN Resign(r[k]) ELSE r[k]]
       \* the creator's own mistakes: consistent chain, everybody signs, fees / count / pointers wrong
    [] m.name = "feeBelowSum" -> ResignAll(Relink([s EXCEPT ![1].fee = n - 1]))
    [] m.name = "memberFee" -> ResignAll(Relink([s EXCEPT ![m.i].fee = 1]))
    [] m.name = "wrongCount" -> ResignAll(Relink([k \in 1..n |-> [s[k] EXCEPT !.gc = n + m.j]]))
    [] m.name = "staleHeader" -> ResignAll([k \in 1..n |-> [s[k] EXCEPT !.hdr = Stale]])
    [] m.name = "staleNext" -> ResignAll([s EXCEPT ![m.i].nxt = Stale])
    [] OTHER -> s

Emit(r) == act' = IF EmitOn THEN ToJson(r) ELSE ""

Init == /\ g = <<>> /\ mut = NoMut /\ phase = "new" /\ kind = "-"
        /\ act = IF EmitOn THEN ToJson([op |-> "Init"]) ELSE ""

Create(n, k) ==
  /\ phase = "new"
  /\ g' = Created(n) /\ kind' = k /\ phase' = "created"
  /\ UNCHANGED mut
  /\ Emit([op |-> "Create", n |-> n, kind |-> k, ret |-> "ok"])

Observe ==
  /\ phase \in {"created", "mutated"}
  /\ phase' = IF phase = "created" THEN "observed" ELSE "done"
  /\ UNCHANGED <<g, mut, kind>>
  /\ Emit([op |-> "Observe", mutated |-> (phase = "mutated"),
           model |-> [check |-> Check(g), sign |-> CheckSign(g)],
           ret |-> [pass |-> Pass(g)]])

Mutate(m) ==
  /\ phase = "observed"
  /\ g' = Apply(g, m) /\ mut' = m /\ phase' = "mutated"
  /\ UNCHANGED kind
  /\ Emit([op |-> "Mutate", mut |-> m.name, i |-> m.i, j |-> m.j, field |-> m.f, resign |-> m.resign, ret |-> "ok"])

Next == \/ \E n \in Sizes, k \in Kinds : Create(n, k)
        \/ Observe
        \/ (phase = "observed" /\ \E m \in Mutations(g) : Mutate(m))

Spec == Init /\ [][Next]_vars

Done == phase = "done"

-----------------------------------------------------------------------------
TypeOK == /\ phase \in {"new", "created", "observed", "mutated", "done"}
          /\ (phase = "new") = (g = <<>>)
          /\ (phase \in {"mutated", "done"}) = (mut # NoMut)

\* C17, first sentence
CreatedPasses == phase \in {"created", "observed"} => Pass(g)
\* C17, second sentence: every mutation is detected by Check or by CheckSign
TamperEvident == phase \in {"mutated", "done"} => ~Pass(g)
\* the named fee rules are rejected by Check itself
FeeRules == (phase = "mutated" /\ mut.name \in {"feeBelowSum", "memberFee"}) => Check(g) # "ok"
=============================================================================
