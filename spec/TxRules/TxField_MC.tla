---- MODULE TxField_MC ----
EXTENDS TxField
====
