----------------------------- MODULE Pure_All -----------------------------
(* Exhaustive export of the C19 histories: every sequence of MaxLen steps  *)
(* is printed once as "@@B <json>" (the history is part of the state).     *)
EXTENDS Pure
VARIABLE hist
AInit == Init /\ hist = <<>>
ANext == Next /\ hist' = Append(hist, act')
ASpec == AInit /\ [][ANext]_<<vars, hist>>
Export == Done => PrintT(<<"@@B", ToJson(hist)>>)
=============================================================================
