SPECIFICATION Spec
CONSTANTS
  Heights = {99, 100, 101, 199, 200, 201}
  NoCtx = TRUE
  EnMs = 100
  EnEth = 200
  FkMs = 200
  FkB58 = 100
  FkFmt = 200
  EnSig = 100
  OffDrivers = {}
  SigOff = FALSE
  MaxLen = 3
  Mode = "all"
  CacheKey = "addr+enabled"
  Order = "map"
  PkCache = "raw"
  EmitOn = FALSE
VIEW view
INVARIANTS TypeOK Pure
CHECK_DEADLOCK FALSE
