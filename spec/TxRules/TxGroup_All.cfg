SPECIFICATION ASpec
CONSTANTS
  Sizes = {2, 3, 20}
  Kinds = {"main", "para"}
  AlterFields = {"execer", "payload", "signature", "fee", "expire", "nonce", "to", "groupCount", "header", "next", "chainID"}
  AllPos = FALSE
  MaxGroup = 20
  EmitOn = TRUE
INVARIANT Export
CHECK_DEADLOCK FALSE
