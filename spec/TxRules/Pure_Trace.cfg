\* reference configuration (the orchestration regenerates it for the recorded configuration)
SPECIFICATION TSpec
CONSTANTS
  Heights = {99, 100, 101, 199, 200, 201}
  NoCtx = TRUE
  EnMs = 100
  EnEth = 200
  FkMs = 200
  FkB58 = 100
  FkFmt = 200
  EnSig = 200
  OffDrivers = {}
  SigOff = FALSE
  MaxLen = 1000000
  Mode = "single"
  CacheKey = "addr+enabled"
  Order = "id"
  PkCache = "raw"
  EmitOn = FALSE
INVARIANTS Mark TypeOK Pure CacheSound
POSTCONDITION TraceDone
CHECK_DEADLOCK FALSE
