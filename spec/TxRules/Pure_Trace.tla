---------------------------- MODULE Pure_Trace ----------------------------
(* Trace specification for C19.  A recorded execution is                   *)
(*   Fresh(key, ret)   an answer of a fresh process: binds key -> ret      *)
(*   Query(q, cls, h)  the long-lived process is asked an operation group  *)
(*   Ans(key, ret)     one of its answers; key = "op|class|instance|h"     *)
(*   Reset             a new long-lived process (the bindings stay: they   *)
(*                     belong to the configuration, not to a process)      *)
(* The property is checked on the recorded values themselves: every answer *)
(* equals the bound fresh answer of the same key (and fresh answers of one *)
(* key agree).  Alongside, Query steps the mechanism model of Pure.tla so  *)
(* that its invariants are evaluated on the abstract shadow of the real    *)
(* execution.  Answers are opaque strings - no particular error is         *)
(* demanded.                                                               *)
EXTENDS Pure, TraceLib

VARIABLES l, bound
tvars == <<vars, l, bound>>

Ev == Trace[l]
IsEvent(e) == l <= Len(Trace) /\ Ev.ev = e /\ l' = l + 1

TInit == Init /\ l = 1 /\ bound = <<>>

TReset == /\ IsEvent("Reset")
          /\ acache' = <<>> /\ pcache' = "-" /\ lastPk' = "-" /\ n' = 0 /\ lastH' = 0
          /\ last' = [c \in Classes |-> [addr |-> "-", dapp |-> "-"]]
          /\ UNCHANGED <<act, bound>>

TFresh == /\ IsEvent("Fresh")
          /\ Ev.key \in DOMAIN bound => bound[Ev.key] = Ev.ret
          /\ bound' = [k \in DOMAIN bound \cup {Ev.key} |-> IF k = Ev.key THEN Ev.ret ELSE bound[k]]
          /\ UNCHANGED vars

\* the model takes the corresponding step ("all" = a node step over every class)
TQuery == /\ IsEvent("Query")
          /\ IF Ev.q = "all"
             THEN /\ \E c0 \in Classes : \E e0 \in Poss(c0, Ev.h) : AddrStep(Classes, Ev.h, c0, e0)
                  /\ PkStep(Ev.h) /\ n' = n + 1 /\ lastH' = Ev.h /\ act' = act
             ELSE Query(Ev.q, Ev.cls, Ev.h)
          /\ UNCHANGED bound

TAns == /\ IsEvent("Ans")
        /\ Ev.key \in DOMAIN bound
        /\ bound[Ev.key] = Ev.ret
        /\ UNCHANGED <<vars, bound>>

TNext == TReset \/ TFresh \/ TQuery \/ TAns
TSpec == TInit /\ [][TNext]_tvars

Mark == MarkHWM(l - 1)
=============================================================================
