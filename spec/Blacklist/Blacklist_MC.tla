---- MODULE Blacklist_MC ----
EXTENDS Blacklist
\* table-wide sanity (constant-level: evaluated once by TLC)
ASSUME SpellingIrrelevant
ASSUME Monotone
====
