--------------------------- MODULE Blacklist_All ---------------------------
(* Exhaustive row export (GEN-all): every row of the table once, as "@@B". *)
EXTENDS Blacklist
VARIABLE hist
AInit == Init /\ hist = <<>>
ANext == Next /\ hist' = <<act'>>
ASpec == AInit /\ [][ANext]_<<vars, hist>>
Export == (row # NoRow) => PrintT(<<"@@B", ToJson(hist)>>)
=============================================================================
