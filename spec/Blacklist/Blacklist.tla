------------------------------ MODULE Blacklist ------------------------------
(***************************************************************************)
(* Decision table for property C31: blacklisted accounts cannot transact.  *)
(* (types/account_blacklist.go, executor/execenv.go, system/consensus/     *)
(* base.go, system/mempool/check.go + eventprocess.go)                     *)
(*                                                                         *)
(* A ROW describes one transaction that touches (or, as control, does not  *)
(* touch) a blacklisted account:                                           *)
(*   chain  "main" | "para"     node configuration                          *)
(*   pos    where the blacklisted account appears: from, to, realTo (the   *)
(*          recipient inside a para-chain asset transfer payload),         *)
(*          evmContract / evmPara (EVM call target / 20-byte raw transfer  *)
(*          target), or "none" (control row)                               *)
(*   shape  single | group (member m of g) | delayed (committed through a  *)
(*          none CommitDelayTx) | proxy (EVM proxy-exec transaction whose   *)
(*          payload carries the real chain33 transaction)                  *)
(*   acct   which blacklisted account (each is LISTED in a different        *)
(*          spelling: base58, 0x-lower, checksum-mixed, upper without 0x,  *)
(*          0X-upper)                                                      *)
(*   spell  how the address is spelled INSIDE the transaction              *)
(*   h      height of the block the transaction is put into / packed for   *)
(*                                                                         *)
(* What the property demands of a touching row (everything else is "*"):   *)
(*   exec   h >= ForkH : the transaction has no ExecOk receipt when the    *)
(*          block is executed (EventExecTxList)                            *)
(*   block  h >= ForkH : a block carrying it, delivered to the chain, does *)
(*          not put it on the chain with an ExecOk receipt                 *)
(*   pack   h >= ForkH : AddTxsToBlock does not take it                    *)
(*   pool   every h    : the mempool refuses it (SendTx; for the delayed    *)
(*          shape also EventAddDelayTx)                                    *)
(*   delaychain (delayed shape): committed through a none CommitDelayTx in *)
(*          a block, the delayed transaction never reaches the pool        *)
(*                                                                         *)
(* Not compared: error codes/texts; what happens to clean rows (they are   *)
(* the harness's controls: the same transaction shape must be accepted /   *)
(* ExecOk, otherwise the row is reported as a harness failure, not as a    *)
(* verdict); receipts below the fork height.                               *)
(***************************************************************************)
EXTENDS Integers, Sequences, FiniteSets, Json, TLC

CONSTANTS ForkH, Heights, Chains, Positions, Shapes, Accts, GroupSizes, EmitOn,
          EthSpells      \* spellings explored for 0x-style accounts

VARIABLES row, out, act
vars == <<row, out, act>>
view == <<row, out>>

\* accounts: kind by id.  a1 is a base58 account, the others are 0x accounts listed in
\* different spellings (the listing spelling is fixed per account in the harness)
Kind(a) == IF a = "a1" THEN "b58" ELSE "eth"

SpellsFor(pos, a) ==
  CASE pos = "none" -> {"-"}
    [] pos = "from" -> {"derived"}
    [] pos = "evmPara" -> {"raw"}
    [] OTHER -> IF Kind(a) = "b58" THEN {"b58"} ELSE EthSpells

\* which (chain, position, shape) combinations exist
ValidCombo(c, pos, sh) ==
  /\ (pos = "realTo") => (c = "para" /\ sh \in {"single", "group"})
  /\ (c = "para") => (pos \in {"realTo", "to", "from", "none"} /\ sh \in {"single", "group"})
  /\ (sh = "proxy") => pos \in {"from", "to", "none"}

Rows ==
  {r \in [chain : Chains, pos : Positions, shape : Shapes, acct : Accts \cup {"-"},
          spell : EthSpells \cup {"-", "derived", "raw", "b58"}, h : Heights,
          g : GroupSizes \cup {1}, m : 1..3] :
     /\ ValidCombo(r.chain, r.pos, r.shape)
     /\ (r.pos = "none") <=> (r.acct = "-")
     /\ (r.acct # "-") => r.spell \in SpellsFor(r.pos, r.acct)
     /\ (r.acct = "-") => r.spell = "-"
     /\ (r.shape = "group") => (r.g \in GroupSizes /\ r.m \in 1..r.g)
     /\ (r.shape # "group") => (r.g = 1 /\ r.m = 1)
     \* a 0x account signs with the eth address id; the proxy shape requires an eth signer
     /\ (r.shape = "proxy" /\ r.pos = "from") => Kind(r.acct) = "eth"
     /\ (r.chain = "para" /\ r.pos = "from") => Kind(r.acct) = "b58"}

Touch(r) == r.pos # "none"
Active(x) == x >= ForkH

Expected(r) ==
  [exec  |-> IF Touch(r) /\ Active(r.h) THEN "notok" ELSE "*",
   block |-> IF Touch(r) /\ Active(r.h) THEN "absent" ELSE "*",
   pack  |-> IF Touch(r) /\ Active(r.h) THEN "skipped" ELSE "*",
   pool  |-> IF Touch(r) THEN "rejected" ELSE "*",
   \* delayed shape, commit-in-a-block path: the delayed transaction never reaches the pool
   delaychain |-> IF Touch(r) /\ r.shape = "delayed" THEN "never" ELSE "*"]

NoRow == [chain |-> "-", pos |-> "none", shape |-> "-", acct |-> "-", spell |-> "-", h |-> 0, g |-> 1, m |-> 1]

Init == /\ row = NoRow /\ out = Expected(NoRow)
        /\ act = IF EmitOn THEN ToJson([op |-> "Init"]) ELSE ""

Row(r) == /\ row = NoRow
          /\ row' = r /\ out' = Expected(r)
          /\ act' = IF EmitOn THEN ToJson([op |-> "Row", chain |-> r.chain, pos |-> r.pos, shape |-> r.shape,
                                           acct |-> r.acct, spell |-> r.spell, h |-> r.h, g |-> r.g, m |-> r.m,
                                           forkh |-> ForkH, active |-> Active(r.h), ret |-> Expected(r)])
                    ELSE ""

Next == \E r \in Rows : Row(r)
Spec == Init /\ [][Next]_vars

-----------------------------------------------------------------------------
\* sanity of the table (TLC evaluates these over every row / pair of rows)
Same(r1, r2, f) == \A k \in DOMAIN r1 : k # f => r1[k] = r2[k]

\* the statement: once active, a touching transaction is never executed successfully,
\* never packed, never on the chain; the pool refuses it at every height
Statement == (row # NoRow /\ Touch(row)) =>
               /\ out.pool = "rejected"
               /\ (row.shape = "delayed" => out.delaychain = "never")
               /\ Active(row.h) => (out.exec = "notok" /\ out.pack = "skipped" /\ out.block = "absent")

\* the spelling of the address and the account's listing never matter
SpellingIrrelevant == \A r1, r2 \in Rows :
   (Same(r1, r2, "spell") \/ (r1.pos = r2.pos /\ r1.shape = r2.shape /\ r1.chain = r2.chain /\ r1.h = r2.h
                               /\ r1.acct # "-" /\ r2.acct # "-"))
      => Expected(r1) = Expected(r2)

\* "once active": what is refused at h is refused at every later height; the pool gate has no height
Monotone == \A r1, r2 \in Rows : (Same(r1, r2, "h") /\ r1.h <= r2.h) =>
               /\ (Expected(r1).exec = "notok" => Expected(r2).exec = "notok")
               /\ Expected(r1).pool = Expected(r2).pool

\* nothing is demanded of a control row (no over-claim)
ControlsOpen == (row # NoRow /\ ~Touch(row)) => \A k \in DOMAIN out : out[k] = "*"
=============================================================================
