SPECIFICATION Spec
CONSTANTS
  ForkH = 5
  Heights = {4, 5, 6}
  Chains = {"main", "para"}
  Positions = {"from", "to", "realTo", "evmContract", "evmPara", "none"}
  Shapes = {"single", "group", "delayed", "proxy"}
  Accts = {"a1", "a2", "a3", "a4", "a5"}
  EthSpells = {"lower", "upper", "mixed", "nox-lower", "nox-upper", "0X-upper"}
  GroupSizes = {2, 3}
  EmitOn = FALSE
CHECK_DEADLOCK FALSE
VIEW view
INVARIANTS Statement ControlsOpen
