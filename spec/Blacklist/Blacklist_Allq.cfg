SPECIFICATION ASpec
CONSTANTS
  ForkH = 5
  Heights = {4, 5, 6}
  Chains = {"main"}
  Positions = {"from", "to", "realTo", "evmContract", "evmPara", "none"}
  Shapes = {"single", "group", "delayed", "proxy"}
  Accts = {"a1", "a2", "a4"}
  EthSpells = {"lower", "mixed", "nox-upper"}
  GroupSizes = {2}
  EmitOn = TRUE
CHECK_DEADLOCK FALSE
INVARIANT Export
