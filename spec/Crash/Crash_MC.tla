------------------------------ MODULE Crash_MC ------------------------------
(* Tree sets and delivery orders for exhaustive checking / behaviour export. *)
EXTENDS Crash

Mk(p) == [n |-> Len(p), parent |-> p]

\* linear growth: three blocks on the trunk tip
Lin3 == Mk(<<0, 1, 2>>)
\* the reorganisation of the property text: branch 1-2 is connected, 3-4 arrive as side blocks,
\* 5 makes the second branch heavier: 2 blocks off, 3 on
Reorg5 == Mk(<<0, 1, 0, 3, 4>>)
\* a fork of the fork: 1-2 connected, 3-4-5 replace them, 6-7 hang off 3 and 8 makes that branch the heaviest
Deep8 == Mk(<<0, 1, 0, 3, 4, 3, 6, 7>>)
\* one block off, two on
Fork3 == Mk(<<0, 0, 2>>)

\* every tree with n free blocks (parent[b] < b)
RECURSIVE AllP(_)
AllP(n) == IF n = 0 THEN {<<>>} ELSE {Append(p, q) : p \in AllP(n - 1), q \in 0..(n - 1)}
All(n) == {Mk(p) : p \in AllP(n)}

Trees3 == All(3) \cup {Reorg5}
TreesQ == All(4) \cup {Reorg5}
TreesT == All(5)
TreesL == {Lin3, Fork3}
OneLin == {Lin3}
OneReorg == {Reorg5}
OneDeep == {Deep8}
OneFork == {Fork3}

NoOrder == <<>>
NoConts == {}
Seq123 == <<1, 2, 3>>
Seq12345 == <<1, 2, 3, 4, 5>>
Seq45123 == <<4, 5, 1, 2, 3>>
Seq54321 == <<5, 4, 3, 2, 1>>
Seq8 == <<1, 2, 3, 4, 5, 6, 7, 8>>
ContLin == {Seq123}
ContLinT == {Seq123, <<3, 2, 1>>}
ContReorg == {Seq12345}
ContReorgT == {Seq12345, Seq54321, <<3, 4, 5, 1, 2>>}
ContDeep == {Seq8}
=============================================================================
