\* liveness: with fairness on everything but Crash, every block ends up delivered (after the last restart)
SPECIFICATION FairSpec
CONSTANTS
  Trees <- TreesL
  Order <- NoOrder
  Conts <- NoConts
  MaxCrash = 1
  CrashFine = TRUE
  Variant = "code"
  EmitOn = FALSE
INVARIANTS TypeOK CrashSafe NeverDead NoFail Converged
PROPERTIES Termination
CHECK_DEADLOCK FALSE
