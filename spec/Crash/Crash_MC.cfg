\* exhaustive, quick: every tree of 4 free blocks and the 2-off/3-on reorganisation (thorough: every tree of 5), every delivery order,
\* a crash in any state, every delivery order after the restart
SPECIFICATION Spec
CONSTANTS
  Trees <- TreesQ
  Order <- NoOrder
  Conts <- NoConts
  MaxCrash = 1
  CrashFine = TRUE
  Variant = "code"
  EmitOn = FALSE
VIEW view
INVARIANTS TypeOK CrashSafe NeverDead NoFail Sync Converged
CHECK_DEADLOCK FALSE
