----------------------------- MODULE Crash_All -----------------------------
(* Exhaustive behaviour export: the history of action labels is part of the *)
(* state; every complete behaviour (the history in the given order, exactly *)
(* MaxCrash crashes, one per durable-write index, every block delivered     *)
(* again after the last restart) is printed once as "@@B <json>".           *)
EXTENDS Crash_MC
VARIABLE hist
AInit == Init /\ hist = <<act>>
ANext == Next /\ hist' = Append(hist, act')
ASpec == AInit /\ [][ANext]_<<vars, hist>>
Complete == Done /\ ncrash = MaxCrash
Export == Complete => PrintT(<<"@@B", ToJson(hist)>>)
=============================================================================
