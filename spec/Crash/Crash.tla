------------------------------- MODULE Crash -------------------------------
(***************************************************************************)
(* C29 - block connection is crash-consistent.                             *)
(*                                                                         *)
(* Mechanism model of chain33's block connection with a DURABLE / VOLATILE *)
(* split (blockchain/process.go, blockstore.go, chain.go, util/util.go     *)
(* ExecBlock, system/store/mavl Commit), one action per durable write in   *)
(* the order the code performs them (confirmed with hook H2 on the real    *)
(* node: every one of them is ONE LevelDB batch):                          *)
(*                                                                         *)
(*   maybeAcceptBlock   chain  "maybe"   dbMaybeStoreBlock: header + body  *)
(*                                       (no receipts) + td by hash; is    *)
(*                                       skipped when the header exists    *)
(*   connectBlock       store  "commit"  execBlock: the new state root     *)
(*                      chain  "conn"    ONE batch: body with receipts,    *)
(*                                       height->hash, last height, tx     *)
(*                                       index, td                         *)
(*   disconnectBlock    chain  "disc"    ONE batch: tx index entries       *)
(*                                       removed, last height - 1,         *)
(*                                       height->hash removed (header,     *)
(*                                       body, td and state stay)          *)
(*                                                                         *)
(* Durable  d: roots (committed state roots of the store database), hdr    *)
(*   (header/body by hash: none / plain = without receipts / full), td,    *)
(*   h2h (height -> block), last (stored last height), txi (transaction    *)
(*   -> block whose position the index names).                             *)
(* Volatile v: block index, best chain view, orphan pool; job: the         *)
(*   delivery in progress.                                                 *)
(* Crash (enabled in every state, i.e. between any two durable writes)     *)
(*   drops v and job; Recover rebuilds them as NewBlockStore /             *)
(*   InitIndexAndBestView do: height := stored last height, best chain :=  *)
(*   headers of heights 0..height by the height index (start-up panics if  *)
(*   one is missing), index := those blocks.                               *)
(*                                                                         *)
(* Blocks: a trunk (genesis..trunk tip, always connected, id 0 = trunk     *)
(* tip) and free blocks 1..tree.n with tree.parent[b] < b (0 = trunk tip), *)
(* all of work 1 and above the finalisation margin, all valid. Heights are *)
(* relative to the trunk tip. Block b carries the transactions <<b,0>> and *)
(* <<e,1>> where e is its eldest sibling (so the children of one parent    *)
(* share a transaction, as competing blocks built from one pool do).       *)
(*                                                                         *)
(* The property (checked in EVERY reachable state, so for a crash at any   *)
(* point, and again on what Recover builds):                               *)
(*   Legal       the durable chain is one the node had reached or a prefix *)
(*               of the chain it is building;                              *)
(*   Consistent  last height, height index, headers+bodies with receipts,  *)
(*               parent links, total difficulties and transaction index    *)
(*               describe that one chain, nothing above it;                *)
(*   Readable    the tip's state root is committed;                        *)
(*   NeverDead / NoFail  start-up does not panic, no delivery fails;       *)
(*   Converged + Termination  (liveness) continued delivery of all blocks  *)
(*               ends with the chain of the uninterrupted run.             *)
(*                                                                         *)
(* Deliberately not modelled / not compared: the block sequence log (C26), *)
(* invalid blocks (C27), the finalizer, orphan expiry, the wallet's own    *)
(* database, block cache contents, power loss (a returned write is durable *)
(* and a batch is atomic), crashes during the restart itself.              *)
(* Constant Variant # "code" breaks the batching / ordering on purpose     *)
(* (self-test: TLC must refute the property for each of them).             *)
(***************************************************************************)
EXTENDS Integers, Sequences, FiniteSets, Json, TLC

CONSTANTS Trees,     \* set of trees [n |-> .., parent |-> <<..>>]
          Order,     \* the history: delivery order (sequence of blocks); <<>> = every order
          Conts,     \* delivery orders after a restart (used when Order # <<>>)
          MaxCrash,  \* bound on the number of crashes
          CrashFine, \* TRUE: Crash enabled in every state; FALSE: only right after a durable write
                     \* or before the first delivery (one behaviour per crash index, for generation)
          Variant,   \* "code" | "splitconn" | "connfirst" | "splitdisc"
          EmitOn

VARIABLES tree, d, v, job, reached, target, delivered, plan, ncrash, wr, act

vars == <<tree, d, v, job, reached, target, delivered, plan, ncrash, wr, act>>
view == <<tree, d, v, job, reached, target, delivered, plan, ncrash>>

-----------------------------------------------------------------------------
\* the tree

Free == 1..tree.n
Par(b) == tree.parent[b]
RECURSIVE RH(_)
RH(b) == IF b = 0 THEN 0 ELSE RH(Par(b)) + 1
RECURSIVE PathTo(_)
PathTo(b) == IF b = 0 THEN <<>> ELSE Append(PathTo(Par(b)), b)
EldestT(t, b) == CHOOSE s \in 1..t.n : t.parent[s] = t.parent[b] /\ \A u \in 1..t.n : t.parent[u] = t.parent[b] => s <= u
TxsT(t, b) == {<<b, 0>>, <<EldestT(t, b), 1>>}
TxAllT(t) == UNION {TxsT(t, b) : b \in 1..t.n}
Txs(b) == TxsT(tree, b)
TxAll == TxAllT(tree)
MaxH == tree.n

Deepest == CHOOSE b \in Free : \A c \in Free : RH(c) <= RH(b)
Unique == tree.n > 0 /\ \A c \in Free \ {Deepest} : RH(c) < RH(Deepest)
Final == PathTo(Deepest)

Last(s) == s[Len(s)]
Front(s) == SubSeq(s, 1, Len(s) - 1)
IsPrefix(p, s) == Len(p) <= Len(s) /\ \A i \in 1..Len(p) : p[i] = s[i]
SeqSet(s) == {s[i] : i \in 1..Len(s)}

-----------------------------------------------------------------------------
\* state

D0T(t) == [roots |-> {}, hdr |-> [b \in 1..t.n |-> "none"], td |-> {},
           h2h |-> [i \in 1..t.n |-> 0], last |-> 0, txi |-> [x \in TxAllT(t) |-> 0]]
D0 == D0T(tree)
V0 == [index |-> {}, best |-> <<>>, orph |-> <<>>]
J0 == [phase |-> "idle", x |-> 0, det |-> <<>>, att |-> <<>>, stage |-> "exec", queue |-> <<>>,
       err |-> "ok", half |-> FALSE]

NoWrite == <<>>

\* the chain the databases describe: what a restart adopts
DC == [i \in 1..d.last |-> d.h2h[i]]
Tip == IF v.best = <<>> THEN 0 ELSE Last(v.best)
Known(b) == b = 0 \/ b \in v.index
InOrph(b) == \E i \in 1..Len(v.orph) : v.orph[i] = b
HasKids(orph, p) == \E i \in 1..Len(orph) : Par(orph[i]) = p

RECURSIVE Fork(_)
Fork(b) == IF b = 0 \/ b \in SeqSet(v.best) THEN b ELSE Fork(Par(b))
RECURSIVE PathFrom(_, _)
PathFrom(f, b) == IF b = f THEN <<>> ELSE Append(PathFrom(f, Par(b)), b)
\* main chain blocks above the fork point, tip first
Det(f) == LET k == Len(v.best) - RH(f) IN [i \in 1..k |-> v.best[Len(v.best) + 1 - i]]

RECURSIVE NormQ(_, _)
NormQ(q, orph) == IF q = <<>> THEN <<>> ELSE IF HasKids(orph, Head(q)) THEN q ELSE NormQ(Tail(q), orph)
\* block x was accepted (main or side chain): go on with its orphan children, or finish
Accepted(j, x, orph) ==
  LET q == NormQ(Append(j.queue, x), orph) IN
  [j EXCEPT !.phase = IF q = <<>> THEN "idle" ELSE "orphans", !.queue = q, !.x = 0,
            !.det = <<>>, !.att = <<>>, !.stage = "exec"]
Fail(j, e) == [J0 EXCEPT !.err = e]

-----------------------------------------------------------------------------
\* labels

\* every step is labelled with the durable write it performed (w: <<>> or <<db, origin>>); the step that ends
\* a delivery also carries what ProcAddBlockMsg answered and the tip afterwards, and the one that ends the
\* last delivery the expected final observation: the chain of the uninterrupted run, no inconsistency
TipNext == IF v'.best = <<>> THEN 0 ELSE Last(v'.best)
Done == job.phase = "idle" /\ delivered = Free
DoneNext == job'.phase = "idle" /\ delivered' = Free
Emit(r) == act' = IF ~EmitOn THEN ""
                  ELSE IF job'.phase = "idle"
                       THEN IF DoneNext
                            THEN ToJson(r @@ [ret |-> [w |-> wr', fin |-> TRUE, err |-> job'.err, tip |-> TipNext],
                                              chk |-> [chain |-> v'.best, problems |-> <<>>, extra |-> <<>>]])
                            ELSE ToJson(r @@ [ret |-> [w |-> wr', fin |-> TRUE, err |-> job'.err, tip |-> TipNext]])
                       ELSE ToJson(r @@ [ret |-> [w |-> wr', fin |-> FALSE]])

Strict == Order # <<>>

Init == /\ tree \in Trees
        /\ d = D0 /\ v = V0 /\ job = J0
        /\ reached = {<<>>} /\ target = <<>>
        /\ delivered = {} /\ plan = Order /\ ncrash = 0 /\ wr = NoWrite
        \* ret of the first label: over the whole experiment no restart shows an inconsistency (evaluated by the
        \* harness on the real node independently of the steps below)
        /\ act = IF EmitOn THEN ToJson([op |-> "Hist", n |-> tree.n, parent |-> tree.parent, order |-> Order,
                                        ret |-> [problems |-> <<>>]]) ELSE ""

-----------------------------------------------------------------------------
\* ProcessBlock entry

Deliver(b) ==
  /\ job.phase = "idle" /\ b \in Free
  /\ IF Strict THEN plan # <<>> /\ b = Head(plan) /\ plan' = Tail(plan)
               ELSE b \notin delivered /\ plan' = plan
  /\ delivered' = delivered \cup {b}
  /\ wr' = NoWrite
  /\ UNCHANGED <<tree, d, reached, target, ncrash>>
  /\ IF b \in v.index
     THEN v' = v /\ job' = [J0 EXCEPT !.err = "ErrBlockExist"]
     ELSE IF InOrph(b) /\ ~Known(Par(b))
     THEN v' = v /\ job' = [J0 EXCEPT !.err = "ErrBlockExist"]
     ELSE IF ~Known(Par(b))
     THEN v' = [v EXCEPT !.orph = Append(v.orph, b)] /\ job' = J0
     ELSE /\ v' = [v EXCEPT !.orph = SelectSeq(v.orph, LAMBDA o : o # b)]
          /\ job' = [J0 EXCEPT !.phase = "accept", !.x = b]
  /\ Emit([op |-> "Deliver", b |-> b])

\* maybeAcceptBlock: dbMaybeStoreBlock (one batch, skipped when the header exists), index node,
\* then connectBestChain decides: extend the tip / side chain / reorganise
AcceptStep ==
  /\ job.phase = "accept"
  /\ LET b == job.x
         skip == d.hdr[b] # "none"
         tdok == Par(b) = 0 \/ Par(b) \in d.td \/ skip IN
     /\ UNCHANGED <<tree, delivered, plan, ncrash, reached>>
     /\ IF ~tdok
        THEN /\ job' = Fail(job, "ErrParentTd") /\ UNCHANGED <<d, v, target>> /\ wr' = NoWrite
        ELSE
        /\ d' = IF skip THEN d ELSE [d EXCEPT !.hdr[b] = "plain", !.td = @ \cup {b}]
        /\ wr' = IF skip THEN NoWrite ELSE <<"chain", "maybe">>
        /\ v' = [v EXCEPT !.index = @ \cup {b}]
        /\ IF Par(b) = Tip
           THEN /\ job' = [job EXCEPT !.phase = "reorg", !.det = <<>>, !.att = <<b>>, !.stage = "exec"]
                /\ target' = Append(v.best, b)
           ELSE IF RH(b) <= Len(v.best)
           THEN /\ job' = Accepted(job, b, v.orph) /\ target' = target
           ELSE LET f == Fork(b) IN
                /\ job' = [job EXCEPT !.phase = "reorg", !.det = Det(f), !.att = PathFrom(f, b), !.stage = "exec"]
                /\ target' = PathTo(b)
     /\ Emit([op |-> "Step", b |-> b])

\* disconnectBlock: one batch
Disc ==
  /\ job.phase = "reorg" /\ job.det # <<>>
  /\ LET x == Head(job.det)
         full == [d EXCEPT !.txi = [t \in TxAll |-> IF t \in Txs(x) THEN 0 ELSE d.txi[t]],
                           !.last = RH(x) - 1, !.h2h[RH(x)] = 0]
         first == [d EXCEPT !.last = RH(x) - 1, !.h2h[RH(x)] = 0] IN
     /\ x = Tip
     /\ UNCHANGED <<tree, delivered, plan, ncrash, target>>
     /\ IF Variant = "splitdisc" /\ ~job.half
        THEN /\ d' = first /\ job' = [job EXCEPT !.half = TRUE] /\ v' = v /\ reached' = reached
        ELSE /\ d' = full
             /\ v' = [v EXCEPT !.best = Front(v.best)]
             /\ reached' = reached \cup {v'.best}
             /\ job' = [job EXCEPT !.det = Tail(job.det), !.half = FALSE]
     /\ wr' = <<"chain", "disc">>
     /\ Emit([op |-> "Step", b |-> x])

\* connectBlock, first write: execBlock commits the new state to the store
ExecW(a) == /\ IF Par(a) = 0 \/ Par(a) \in d.roots
               THEN /\ d' = [d EXCEPT !.roots = @ \cup {a}]
                    /\ job' = [job EXCEPT !.stage = IF Variant = "connfirst" THEN "fin" ELSE "conn"]
                    /\ wr' = <<"store", "commit">>
               ELSE /\ d' = d /\ job' = Fail(job, "ErrExec") /\ wr' = NoWrite
            /\ UNCHANGED <<v, reached>>

\* connectBlock, second write: one batch with body+receipts, height index, last height, tx index, td
ConnW(a) ==
  LET nolast == [d EXCEPT !.hdr[a] = "full", !.h2h[RH(a)] = a,
                          !.txi = [t \in TxAll |-> IF t \in Txs(a) THEN a ELSE d.txi[t]], !.td = @ \cup {a}]
      full == [nolast EXCEPT !.last = RH(a)] IN
  /\ wr' = <<"chain", "conn">>
  /\ IF Variant = "splitconn" /\ ~job.half
     THEN d' = nolast /\ job' = [job EXCEPT !.half = TRUE] /\ UNCHANGED <<v, reached>>
     ELSE IF Variant = "splitconn"
     THEN /\ d' = [d EXCEPT !.last = RH(a)] /\ job' = [job EXCEPT !.half = FALSE, !.stage = "fin"]
          /\ UNCHANGED <<v, reached>>
     ELSE /\ d' = full
          /\ job' = [job EXCEPT !.stage = IF Variant = "connfirst" THEN "exec2" ELSE "fin"]
          /\ UNCHANGED <<v, reached>>

\* connectBlock, afterwards (volatile): height / last block / best chain tip
ConnFin(a) ==
  /\ v' = [v EXCEPT !.best = Append(v.best, a)]
  /\ reached' = reached \cup {v'.best}
  /\ d' = d /\ wr' = NoWrite
  /\ LET rest == Tail(job.att) IN
     job' = IF rest = <<>> THEN Accepted(job, Last(job.att), v.orph)
            ELSE [job EXCEPT !.att = rest, !.stage = "exec"]

Attach ==
  /\ job.phase = "reorg" /\ job.det = <<>> /\ job.att # <<>>
  /\ LET a == Head(job.att) IN
     /\ Par(a) = Tip
     /\ d.hdr[a] # "none"                              \* LoadBlockByHash of the block to attach
     /\ UNCHANGED <<tree, delivered, plan, ncrash, target>>
     /\ CASE Variant # "connfirst" /\ job.stage = "exec" -> ExecW(a)
          [] Variant # "connfirst" /\ job.stage = "conn" -> ConnW(a)
          [] Variant = "connfirst" /\ job.stage = "exec" -> ConnW(a)
          [] Variant = "connfirst" /\ job.stage = "exec2" -> ExecW(a)
          [] job.stage = "fin" -> ConnFin(a)
     /\ Emit([op |-> "Step", b |-> a])

\* ProcessOrphans: children (arrival order) of the accepted blocks, breadth first
OrphanStep ==
  /\ job.phase = "orphans"
  /\ LET p == Head(job.queue)
         kids == SelectSeq(v.orph, LAMBDA o : Par(o) = p)
         c == Head(kids) IN
     /\ v' = [v EXCEPT !.orph = SelectSeq(v.orph, LAMBDA o : o # c)]
     /\ job' = [job EXCEPT !.phase = "accept", !.x = c]
     /\ wr' = NoWrite
     /\ UNCHANGED <<tree, d, reached, target, delivered, plan, ncrash>>
     /\ Emit([op |-> "Step", b |-> c])

Internal == AcceptStep \/ Disc \/ Attach \/ OrphanStep

\* the process stops: everything volatile is gone
Crash ==
  /\ job.phase \notin {"down", "dead"} /\ ncrash < MaxCrash
  /\ CrashFine \/ wr # NoWrite \/ (delivered = {} /\ ncrash = 0)
  /\ v' = V0 /\ job' = [J0 EXCEPT !.phase = "down"] /\ ncrash' = ncrash + 1
  /\ wr' = NoWrite
  /\ UNCHANGED <<tree, d, reached, target, delivered, plan>>
  /\ act' = IF EmitOn THEN ToJson([op |-> "Crash", ret |-> "ok"]) ELSE ""

\* NewBlockStore + InitIndexAndBestView: every height up to the stored last height needs a header
Loadable == \A i \in 1..d.last : d.h2h[i] # 0 /\ d.hdr[d.h2h[i]] # "none"
Recover ==
  /\ job.phase = "down"
  /\ wr' = NoWrite /\ delivered' = {}
  /\ IF Strict THEN plan' \in Conts ELSE plan' = plan
  /\ UNCHANGED <<tree, d, target, ncrash>>
  /\ IF Loadable
     THEN /\ v' = [index |-> SeqSet(DC), best |-> DC, orph |-> <<>>] /\ job' = J0
          /\ reached' = reached \cup {DC}
     ELSE /\ v' = V0 /\ job' = [J0 EXCEPT !.phase = "dead"] /\ reached' = reached
  /\ act' = IF EmitOn THEN ToJson([op |-> "Recover", cont |-> plan',
                                   ret |-> [ok |-> Loadable, chain |-> IF Loadable THEN DC ELSE <<>>, problems |-> <<>>]])
            ELSE ""

Progress == (\E b \in Free : Deliver(b)) \/ Internal \/ Recover
Next == Progress \/ Crash

Spec == Init /\ [][Next]_vars
FairSpec == Spec /\ WF_vars(Progress)

-----------------------------------------------------------------------------
\* Properties

TypeOK ==
  /\ d.roots \subseteq Free /\ d.td \subseteq Free /\ d.last \in 0..MaxH
  /\ job.phase \in {"idle", "accept", "reorg", "orphans", "down", "dead"}
  /\ v.index \subseteq Free
  /\ \A i \in 1..Len(v.best) : RH(v.best[i]) = i /\ v.best[i] \in v.index
  /\ job.phase = "orphans" => (job.queue # <<>> /\ HasKids(v.orph, Head(job.queue)))

\* what a crash NOW would leave, judged as the property demands
Legal == DC \in reached \/ IsPrefix(DC, target)

OnChain(t) == {i \in 1..d.last : d.h2h[i] # 0 /\ t \in Txs(d.h2h[i])}
Consistent ==
  /\ \A i \in 1..MaxH :
        IF i <= d.last
        THEN LET b == d.h2h[i] IN
             /\ b # 0 /\ RH(b) = i
             /\ Par(b) = (IF i = 1 THEN 0 ELSE d.h2h[i - 1])       \* parent links
             /\ d.hdr[b] = "full"                                   \* header, body, receipts
             /\ b \in d.td /\ (Par(b) = 0 \/ Par(b) \in d.td)       \* total difficulties
        ELSE d.h2h[i] = 0                                           \* nothing served above the tip
  /\ \A t \in TxAll :                                               \* transaction index
        IF OnChain(t) = {} THEN d.txi[t] = 0
        ELSE \E i \in OnChain(t) : d.txi[t] = d.h2h[i] /\ Cardinality(OnChain(t)) = 1
Readable == d.last = 0 \/ (d.h2h[d.last] # 0 => d.h2h[d.last] \in d.roots)
CrashSafe == Legal /\ Consistent /\ Readable

NeverDead == job.phase # "dead"
NoFail == job.err \in {"ok", "ErrBlockExist"}
\* volatile and durable agree whenever the node is idle
Sync == job.phase = "idle" => (v.best = DC /\ \A i \in 1..Len(v.best) : v.best[i] \in d.roots)
\* continued processing: once every block was delivered (again) the chain is that of the uninterrupted run
Converged == (Done /\ Unique) => (v.best = Final /\ DC = Final /\ v.orph = <<>>)
Termination == <>Done
\* anti-vacuity: each clause of Legal alone is refuted (a crash after the connect batch and before the
\* volatile update leaves a chain never reached; a crash between two disconnects leaves a chain that is
\* no prefix of the one being built)
AVReached == DC \in reached
AVPrefix == IsPrefix(DC, target)
=============================================================================
