SPECIFICATION TSpec
CONSTANTS
  Trees = {}
  Order <- NoOrderT
  Conts = {}
  MaxCrash = 1000000
  CrashFine = TRUE
  Variant = "code"
  EmitOn = FALSE
INVARIANTS Mark TypeOK CrashSafe NeverDead NoFail Sync Converged
POSTCONDITION TraceDone
CHECK_DEADLOCK FALSE
