\* one behaviour per durable-write index of the 2-off/3-on reorganisation history (families/crash.py rewrites
\* Trees / Order / Conts for the other histories)
SPECIFICATION ASpec
CONSTANTS
  Trees <- OneReorg
  Order <- Seq12345
  Conts <- ContReorg
  MaxCrash = 1
  CrashFine = FALSE
  Variant = "code"
  EmitOn = TRUE
INVARIANTS Export CrashSafe NeverDead NoFail Converged
CHECK_DEADLOCK FALSE
