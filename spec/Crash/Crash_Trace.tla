---------------------------- MODULE Crash_Trace ----------------------------
(* Trace specification (binding B). A recorded crash experiment on real    *)
(* nodes is the write log of every life of the node (Deliver / Write /     *)
(* Done events from hook H2 and the delivery loop), the process stops      *)
(* (Crash), what every restarted node serves through its public API        *)
(* (Recover: the chain in model ids and the inconsistency classes found by *)
(* the harness) and the final observation (Final). The trace is accepted   *)
(* iff it is a behaviour of the mechanism: the durable writes come in the  *)
(* model's order from the model's code paths, every restart shows exactly  *)
(* the chain the model's databases describe, consistent, and the property  *)
(* invariants hold in every state on the way.                              *)
EXTENDS Crash, TraceLib

VARIABLE l
tvars == <<vars, l>>

Ev == Trace[l]
IsEvent(e) == l <= Len(Trace) /\ Ev.ev = e /\ l' = l + 1

Empty0 == [n |-> 0, parent |-> <<>>]
NoOrderT == <<>>

TInit == /\ l = 1 /\ tree = Empty0 /\ d = D0T(Empty0) /\ v = V0 /\ job = J0
         /\ reached = {<<>>} /\ target = <<>> /\ delivered = {} /\ plan = <<>> /\ ncrash = 0
         /\ wr = NoWrite /\ act = ""

TReset == /\ IsEvent("Reset")
          /\ tree' = [n |-> Ev.n, parent |-> Ev.parent]
          /\ d' = D0T(tree') /\ v' = V0 /\ job' = J0
          /\ reached' = {<<>>} /\ target' = <<>> /\ delivered' = {} /\ plan' = <<>> /\ ncrash' = 0
          /\ wr' = NoWrite /\ act' = act

TDeliver == IsEvent("Deliver") /\ Deliver(Ev.b)
TWrite == IsEvent("Write") /\ Internal /\ wr' = <<Ev.db, Ev.o>>
TSilent == Internal /\ wr' = NoWrite /\ l' = l
TDone == /\ IsEvent("Done") /\ job.phase = "idle"
         /\ Ev.err = job.err /\ Ev.tip = Tip
         /\ UNCHANGED vars
TCrash == IsEvent("Crash") /\ Crash
TRecover == /\ IsEvent("Recover") /\ Recover
            /\ Ev.ok = Loadable
            /\ Loadable => Ev.chain = DC
            /\ Ev.problems = <<>>
TFinal == /\ IsEvent("Final") /\ job.phase = "idle"
          /\ Ev.chain = v.best /\ Ev.problems = <<>>
          /\ UNCHANGED vars

TNext == TReset \/ TDeliver \/ TWrite \/ TSilent \/ TDone \/ TCrash \/ TRecover \/ TFinal
TSpec == TInit /\ [][TNext]_tvars

Mark == MarkHWM(l - 1)
=============================================================================
