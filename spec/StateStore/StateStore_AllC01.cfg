SPECIFICATION ASpec
CONSTANTS
  NKeys = 3
  NVals = 2
  Heights = {1}
  MaxRoots = 3
  MaxOps = 3
  MaxWrites = 1
  Strides = {1}
  SimWidth = 1
  Batches <- MCBatches
  Ops = {"Set", "Reopen"}
  EmitOn = TRUE
  ChkIter = TRUE
INVARIANT Export
CHECK_DEADLOCK FALSE
