SPECIFICATION Spec
CONSTANTS
  NKeys = 2
  NVals = 1
  Heights = {1}
  MaxRoots = 3
  MaxOps = 5
  MaxWrites = 2
  Strides = {1}
  SimWidth = 1
  Batches <- MCBatches
  Ops = {"Set", "MemSet", "Commit", "Rollback", "CommitNP", "RollbackNP", "Reopen", "Redo", "Get"}
  EmitOn = FALSE
  ChkIter = FALSE
VIEW view
INVARIANTS TypeOK ReadSound IterSound RootFunctional Unambiguous
PROPERTIES ReadStable PendingNoLeak CommitExact ForkIndependent
CHECK_DEADLOCK FALSE
