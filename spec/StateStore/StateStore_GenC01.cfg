SPECIFICATION GenSpec
CONSTANTS
  NKeys = 24
  NVals = 3
  Heights = {1, 2}
  MaxRoots = 12
  MaxOps = 16
  MaxWrites = 4
  Strides = {0, 1, 5, 11, 23}
  SimWidth = 4
  Batches <- SimBatches
  Ops = {"Set", "MemSet", "Commit", "Reopen", "Redo", "Get", "Iter"}
  EmitOn = TRUE
  ChkIter = FALSE

CHECK_DEADLOCK FALSE
