SPECIFICATION ASpec
CONSTANTS
  NKeys = 2
  NVals = 1
  Heights = {1}
  MaxRoots = 2
  MaxOps = 4
  MaxWrites = 2
  Strides = {1}
  SimWidth = 1
  Batches <- MCBatches
  Ops = {"Set", "MemSet", "Commit", "Rollback", "Redo"}
  EmitOn = TRUE
  ChkIter = FALSE
INVARIANT Export
CHECK_DEADLOCK FALSE
