----------------------------- MODULE StateStore -----------------------------
(***************************************************************************)
(* Reference model of chain33's authenticated state store (system/store/   *)
(* mavl): a persistent versioned map whose versions are named by state     *)
(* roots.  Properties C01, C02, C04.                                       *)
(*                                                                         *)
(* A state root IS the term <<parent root, ordered writes>> (C02: the root *)
(* depends on nothing else: not on the height, not on Set versus           *)
(* MemSet+Commit, not on the storage configuration, not on what else was   *)
(* computed, committed or rolled back before).  The conformance harness    *)
(* binds every term to the hash the real code returns and demands that     *)
(* this binding is a function over a whole run.  An empty write list does  *)
(* not create a version: Root(p, <<>>) = p  (a block without state change  *)
(* keeps its parent's root).                                               *)
(*                                                                         *)
(*   content[r]  the map readable at root r (0 = key absent)               *)
(*   committed   roots whose content must be readable, for ever            *)
(*   pending     roots computed by MemSet and neither committed nor rolled *)
(*               back since (lost by Reopen)                               *)
(*   heightOf, chainAt, tipH   height bookkeeping (used by the pruning     *)
(*               family; no property of this module depends on it)         *)
(*   order       roots in creation order; Id(r) is the index (0 = empty    *)
(*               root); only used to name roots in the action label        *)
(*                                                                         *)
(* Deliberately NOT specified (the properties leave it open):              *)
(*   - what a read returns at a root that is not committed (pending,       *)
(*     rolled back, never computed);                                       *)
(*   - MemSet/Set on a parent that is not committed;                       *)
(*   - the index result of Tree.Get; Remove/Del ("not supported");         *)
(*   - Set(EmptyRoot, <<>>) (nil versus 32 zero bytes: two spellings of    *)
(*     the empty state);                                                   *)
(*   - error codes: only ok / notfound classes of Commit and Rollback;     *)
(*   - histories in which a PENDING root has the same content as another   *)
(*     known root: the implementation names roots by hash, and two         *)
(*     different terms with equal content may (legitimately) hash alike,   *)
(*     which would make "is this root pending" ambiguous.  The guard       *)
(*     Distinct keeps generated histories out of that corner; equal        *)
(*     contents among committed roots (no-op overwrites, commuting         *)
(*     inserts) stay in.                                                   *)
(***************************************************************************)
EXTENDS Integers, Sequences, FiniteSets, Json, TLC

CONSTANTS NKeys,      \* model keys are 1..NKeys (the harness maps them order-preservingly to bytes)
          NVals,      \* model values are 1..NVals
          Heights,    \* model block heights
          MaxRoots,   \* bound on the number of distinct roots created
          MaxOps,     \* bound on the number of state-changing operations
          Batches(_), \* the write lists a step may use (set of sequences of <<key, value>>); the argument
                      \* is nops (generation configs draw a fresh random subset of a pool at every step)
          Ops,        \* enabled operation names (subset of AllOps)
          EmitOn,     \* TRUE: act is the JSON label of the step; FALSE: just the operation name
          ChkIter     \* TRUE: the projection also carries the complete iteration table

VARIABLES content, committed, pending, heightOf, chainAt, tipH, order, nops, act
vars == <<content, committed, pending, heightOf, chainAt, tipH, order, nops, act>>
view == <<content, committed, pending, heightOf, chainAt, tipH, nops>>

AllOps == {"Set", "MemSet", "Commit", "Rollback", "CommitNP", "RollbackNP", "Reopen", "Redo", "Get", "Iter"}

Keys == 1..NKeys
Vals == 1..NVals
None == 0
EmptyRoot == <<>>
Root(p, ws) == IF ws = <<>> THEN p ELSE <<p, ws>>      \* the term IS the root

RECURSIVE Apply(_, _)
Apply(m, ws) == IF ws = <<>> THEN m                     \* left fold, later writes win
                ELSE Apply([m EXCEPT ![ws[1][1]] = ws[1][2]], Tail(ws))

EmptyMap == [k \in Keys |-> None]
Known == DOMAIN content
IdIn(ord, r) == IF r = EmptyRoot THEN 0 ELSE CHOOSE i \in 1..Len(ord) : ord[i] = r
Id(r) == IdIn(order, r)
MaxI(a, b) == IF a > b THEN a ELSE b

\* ---- iteration: keys of content[r] inside the bounds, in the requested order -----------
\* lo / hi = 0 means "no bound"; incl: the upper bound is inclusive; lim > 0: the caller
\* stops the walk after lim entries
InRange(k, lo, hi, incl) == /\ (lo = 0 \/ k >= lo)
                            /\ (hi = 0 \/ IF incl THEN k <= hi ELSE k < hi)
Rev(s) == [i \in 1..Len(s) |-> s[Len(s) + 1 - i]]
IterFull(r, lo, hi, asc, incl) ==
  LET up == SelectSeq([i \in 1..NKeys |-> i],
                      LAMBDA k : content[r][k] # None /\ InRange(k, lo, hi, incl))
      ks == IF asc THEN up ELSE Rev(up)
  IN [i \in 1..Len(ks) |-> <<ks[i], content[r][ks[i]]>>]
IterResult(r, lo, hi, asc, incl, lim) ==
  LET full == IterFull(r, lo, hi, asc, incl)
  IN IF lim > 0 /\ lim < Len(full) THEN SubSeq(full, 1, lim) ELSE full

\* ---- action label -------------------------------------------------------------------
Row(r) == [k \in Keys |-> content[r][k]]
Bounds == 0..NKeys
IterTable(r) == [lo \in Bounds |-> [hi \in Bounds |->
                   <<IterFull(r, lo, hi, TRUE, FALSE), IterFull(r, lo, hi, FALSE, FALSE),
                     IterFull(r, lo, hi, TRUE, TRUE), IterFull(r, lo, hi, FALSE, TRUE)>>]]
\* projection compared after every state-changing step: every key at EVERY committed root
\* (ids ascending, 0 = the empty root)
CommittedIds == {Id(r) : r \in committed}
RootOfId(i) == IF i = 0 THEN EmptyRoot ELSE order[i]
SortedIds == SelectSeq([i \in 1..(Len(order) + 1) |-> i - 1], LAMBDA i : i \in CommittedIds)
Chk == [i \in 1..Len(SortedIds) |->
          IF ChkIter
          THEN [id |-> SortedIds[i], row |-> Row(RootOfId(SortedIds[i])), it |-> IterTable(RootOfId(SortedIds[i]))]
          ELSE [id |-> SortedIds[i], row |-> Row(RootOfId(SortedIds[i]))]]
\* ids of the known roots whose content equals that of r (two terms may share a hash only then)
SameAsIn(cont, ord, r) == {IdIn(ord, x) : x \in {y \in DOMAIN cont : cont[y] = cont[r]}}

\* (the record is only built when EmitOn: operator arguments are evaluated on demand)
Emit(op, rec) == act' = IF EmitOn THEN ToJson(rec) ELSE op

Init == /\ content = (EmptyRoot :> EmptyMap)
        /\ committed = {EmptyRoot}
        /\ pending = {}
        /\ heightOf = (EmptyRoot :> 0)
        /\ chainAt = [h \in Heights |-> EmptyRoot]
        /\ tipH = 0
        /\ order = <<>>
        /\ nops = 0
        /\ act = IF EmitOn THEN ToJson([op |-> "Init"]) ELSE "Init"

\* the content root r has / will have
NewContent(r, p, ws) == IF r \in Known THEN content[r] ELSE Apply(content[p], ws)
\* no root of S other than r has the content of r
Distinct(r, p, ws, S) == \A y \in S \ {r} : content[y] # NewContent(r, p, ws)

\* a (possibly new) root r enters the domain of content
Create(r, p, ws, h) ==
  /\ r \in Known \/ Len(order) < MaxRoots
  /\ content' = IF r \in Known THEN content ELSE content @@ (r :> Apply(content[p], ws))
  /\ order' = IF r \in Known THEN order ELSE Append(order, r)
  /\ heightOf' = IF r \in Known THEN [heightOf EXCEPT ![r] = h] ELSE heightOf @@ (r :> h)

\* direct write (EventStoreSet): compute and persist in one step
Set(p, ws, h) ==
  /\ "Set" \in Ops /\ nops < MaxOps
  /\ p \in committed /\ ~(p = EmptyRoot /\ ws = <<>>)
  /\ LET r == Root(p, ws) IN
     /\ Distinct(r, p, ws, pending)
     /\ Create(r, p, ws, h)
     /\ committed' = committed \cup {r}
     /\ chainAt' = [chainAt EXCEPT ![h] = r] /\ tipH' = MaxI(tipH, h)
     /\ UNCHANGED pending
     /\ nops' = nops + 1
     /\ Emit("Set", [op |-> "Set", parent |-> Id(p), writes |-> ws, height |-> h,
              ret |-> IdIn(order', r), eq |-> SameAsIn(content', order', r), chk |-> Chk'])

\* pending update (EventStoreMemSet): nothing committed changes
MemSet(p, ws, h) ==
  /\ "MemSet" \in Ops /\ nops < MaxOps
  /\ p \in committed
  /\ LET r == Root(p, ws) IN
     /\ Distinct(r, p, ws, Known)
     /\ Create(r, p, ws, h)
     /\ pending' = pending \cup {r}
     /\ UNCHANGED <<committed, chainAt, tipH>>
     /\ nops' = nops + 1
     /\ Emit("MemSet", [op |-> "MemSet", parent |-> Id(p), writes |-> ws, height |-> h,
              ret |-> IdIn(order', r), eq |-> SameAsIn(content', order', r), chk |-> Chk'])

Commit(r) ==
  /\ "Commit" \in Ops /\ nops < MaxOps
  /\ r \in pending
  /\ committed' = committed \cup {r}
  /\ pending' = pending \ {r}
  /\ chainAt' = IF heightOf[r] \in Heights THEN [chainAt EXCEPT ![heightOf[r]] = r] ELSE chainAt
  /\ tipH' = MaxI(tipH, heightOf[r])
  /\ UNCHANGED <<content, heightOf, order>>
  /\ nops' = nops + 1
  /\ Emit("Commit", [op |-> "Commit", root |-> Id(r), ret |-> "ok", chk |-> Chk'])

Rollback(r) ==
  /\ "Rollback" \in Ops /\ nops < MaxOps
  /\ r \in pending
  /\ pending' = pending \ {r}
  /\ UNCHANGED <<content, committed, heightOf, chainAt, tipH, order>>
  /\ nops' = nops + 1
  /\ Emit("Rollback", [op |-> "Rollback", root |-> Id(r), ret |-> "ok", chk |-> Chk'])

\* Commit / Rollback of a root that is not pending: refused, nothing changes
CommitNP(r) ==
  /\ "CommitNP" \in Ops /\ nops < MaxOps
  /\ r \in Known \ pending
  /\ UNCHANGED <<content, committed, pending, heightOf, chainAt, tipH, order>>
  /\ nops' = nops + 1
  /\ Emit("Commit", [op |-> "Commit", root |-> Id(r), ret |-> "notfound", chk |-> Chk'])

RollbackNP(r) ==
  /\ "RollbackNP" \in Ops /\ nops < MaxOps
  /\ r \in Known \ pending
  /\ UNCHANGED <<content, committed, pending, heightOf, chainAt, tipH, order>>
  /\ nops' = nops + 1
  /\ Emit("Rollback", [op |-> "Rollback", root |-> Id(r), ret |-> "notfound", chk |-> Chk'])

\* close and reopen the database (restart): pending updates are gone, committed state stays
Reopen ==
  /\ "Reopen" \in Ops /\ nops < MaxOps
  /\ pending' = {}
  /\ UNCHANGED <<content, committed, heightOf, chainAt, tipH, order>>
  /\ nops' = nops + 1
  /\ Emit("Reopen", [op |-> "Reopen", ret |-> "ok", chk |-> Chk'])

Get(r, k) ==
  /\ "Get" \in Ops
  /\ r \in committed
  /\ UNCHANGED <<content, committed, pending, heightOf, chainAt, tipH, order, nops>>
  /\ Emit("Get", [op |-> "Get", root |-> Id(r), key |-> k, ret |-> content[r][k]])

Iter(r, lo, hi, asc, incl, lim) ==
  /\ "Iter" \in Ops
  /\ r \in committed
  /\ UNCHANGED <<content, committed, pending, heightOf, chainAt, tipH, order, nops>>
  /\ Emit("Iter", [op |-> "Iter", root |-> Id(r), lo |-> lo, hi |-> hi, asc |-> asc, incl |-> incl, lim |-> lim,
           ret |-> IterResult(r, lo, hi, asc, incl, lim)])

\* "Redo": compute an update again that was computed before (same parent, same writes, any
\* height, directly or pending) -- the same steps as Set / MemSet, listed separately so that
\* generation meets them often (C02: the root must come out the same every time)
Mut == \/ \E p \in committed, ws \in Batches(nops), h \in Heights : Set(p, ws, h) \/ MemSet(p, ws, h)
       \/ /\ "Redo" \in Ops
          /\ \E r \in Known \ {EmptyRoot}, h \in Heights :
                r[1] \in committed /\ (Set(r[1], r[2], h) \/ MemSet(r[1], r[2], h))
       \/ \E r \in pending : Commit(r) \/ Rollback(r)
       \/ \E r \in Known : CommitNP(r) \/ RollbackNP(r)
       \/ Reopen
ReadGet == \E r \in committed, k \in Keys : Get(r, k)
ReadIter == \E r \in committed, lo \in Bounds, hi \in Bounds, asc \in BOOLEAN, incl \in BOOLEAN, lim \in 0..2 :
               Iter(r, lo, hi, asc, incl, lim)
Read == ReadGet \/ ReadIter
Next == Mut \/ Read

Spec == Init /\ [][Next]_vars

-----------------------------------------------------------------------------
\* The properties, stated on the model (TLC checks them on every state / step).

\* the guard Distinct maintains: a pending root shares its content with no other known root
Unambiguous == \A x \in pending : \A y \in Known \ {x} : content[x] # content[y]

TypeOK == /\ committed \subseteq Known /\ pending \subseteq Known /\ EmptyRoot \in committed
          /\ \A r \in Known : DOMAIN content[r] = Keys /\ \A k \in Keys : content[r][k] \in 0..NVals
          /\ Len(order) <= MaxRoots /\ Known = {EmptyRoot} \cup {order[i] : i \in 1..Len(order)}
          /\ DOMAIN heightOf = Known /\ tipH \in Heights \cup {0}
          /\ \A h \in Heights : chainAt[h] \in committed

\* C01, first sentence: a read at a root returns the most recent write to the key in the
\* chain of batches that leads to the root, or nothing.  Truth walks the term.
RECURSIVE Truth(_, _)
LastWrite(ws, k) == LET S == {i \in 1..Len(ws) : ws[i][1] = k} IN
                    IF S = {} THEN None ELSE ws[CHOOSE i \in S : \A j \in S : j <= i][2]
Truth(r, k) == IF r = EmptyRoot THEN None
               ELSE IF LastWrite(r[2], k) # None THEN LastWrite(r[2], k) ELSE Truth(r[1], k)
ReadSound == \A r \in Known, k \in Keys : content[r][k] = Truth(r, k)

\* C01, third sentence: an iteration visits exactly the keys of that state inside the bounds,
\* each once, in the requested order
IterSound ==
  \A r \in committed, lo \in Bounds, hi \in Bounds, asc \in BOOLEAN, incl \in BOOLEAN :
    LET s == IterFull(r, lo, hi, asc, incl) IN
    /\ {s[i][1] : i \in 1..Len(s)} = {k \in Keys : content[r][k] # None /\ InRange(k, lo, hi, incl)}
    /\ \A i \in 1..Len(s) : s[i][2] = content[r][s[i][1]]
    /\ \A i \in 1..(Len(s) - 1) : IF asc THEN s[i][1] < s[i + 1][1] ELSE s[i][1] > s[i + 1][1]

\* C01 second sentence / C04: whatever happens later (batches, pending updates, rollbacks,
\* restarts), a committed root stays committed and keeps its content
ReadStable == [][\A r \in committed : r \in committed' /\ content'[r] = content[r]]_vars

\* C04: computing, rolling back or losing a pending update changes nothing that is committed
\* (with EmitOn = FALSE the variable act holds the name of the last operation)
PendingNoLeak == [][act' \in {"MemSet", "Rollback", "Reopen", "Get", "Iter"} =>
                      /\ committed' = committed
                      /\ \A r \in committed : content'[r] = content[r]]_vars
\* C04: a commit publishes exactly the pending root with exactly the content computed for it
CommitExact == [][act' = "Commit" =>
                    \/ committed' = committed /\ pending' = pending        \* refused
                    \/ \E r \in pending : /\ committed' = committed \cup {r}
                                          /\ content'[r] = content[r]
                                          /\ (r \in committed \/ content'[r] = Apply(content[r[1]], r[2]))]_vars
\* C04: competing updates from one parent are independent: a step only ever adds roots, it never
\* changes the content of any known root (committed, pending or rolled back)
ForkIndependent == [][\A r \in Known : r \in DOMAIN content' /\ content'[r] = content[r]]_vars

\* C02: the new root is a function of (parent, ordered writes) alone, and direct Set and
\* MemSet followed by Commit publish the same root with the same content
RootFunctional == \A r \in Known \ {EmptyRoot} :
                    /\ r = Root(r[1], r[2]) /\ r[1] \in Known
                    /\ content[r] = Apply(content[r[1]], r[2])
=============================================================================
