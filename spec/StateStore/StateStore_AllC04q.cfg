SPECIFICATION ASpec
CONSTANTS
  NKeys = 2
  NVals = 1
  Heights = {1, 2}
  MaxRoots = 3
  MaxOps = 4
  MaxWrites = 1
  Strides = {1}
  SimWidth = 1
  Batches <- MCBatches
  Ops = {"MemSet", "Commit", "Rollback", "Reopen"}
  EmitOn = TRUE
  ChkIter = FALSE
INVARIANT Export
CHECK_DEADLOCK FALSE
