SPECIFICATION GenSpec
CONSTANTS
  NKeys = 8
  NVals = 3
  Heights = {1, 2}
  MaxRoots = 10
  MaxOps = 18
  MaxWrites = 3
  Strides = {0, 1, 3, 7}
  SimWidth = 3
  Batches <- SimBatches
  Ops = {"Set", "MemSet", "Commit", "Rollback", "CommitNP", "RollbackNP", "Reopen", "Redo", "Get"}
  EmitOn = TRUE
  ChkIter = FALSE

CHECK_DEADLOCK FALSE
