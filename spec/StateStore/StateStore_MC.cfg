SPECIFICATION Spec
CONSTANTS
  NKeys = 2
  NVals = 2
  Heights = {1, 2}
  MaxRoots = 2
  MaxOps = 4
  MaxWrites = 2
  Strides = {1}
  SimWidth = 1
  Batches <- MCBatches
  Ops = {"Set", "MemSet", "Commit", "Rollback", "CommitNP", "RollbackNP", "Reopen", "Redo", "Get"}
  EmitOn = FALSE
  ChkIter = FALSE
VIEW view
INVARIANTS TypeOK ReadSound IterSound RootFunctional Unambiguous
PROPERTIES ReadStable PendingNoLeak CommitExact ForkIndependent
CHECK_DEADLOCK FALSE
