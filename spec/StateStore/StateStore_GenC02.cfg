SPECIFICATION GenSpec
CONSTANTS
  NKeys = 8
  NVals = 3
  Heights = {1, 2, 3}
  MaxRoots = 8
  MaxOps = 14
  MaxWrites = 3
  Strides = {0, 1, 3, 7}
  SimWidth = 3
  Batches <- SimBatches
  Ops = {"Set", "MemSet", "Commit", "Rollback", "Reopen", "Redo"}
  EmitOn = TRUE
  ChkIter = FALSE

CHECK_DEADLOCK FALSE
