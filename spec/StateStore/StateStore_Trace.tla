--------------------------- MODULE StateStore_Trace ---------------------------
(* Trace specification: every event recorded from the real store must be a   *)
(* step of StateStore with the recorded reply.                               *)
(*                                                                           *)
(* Sequential recordings log one event per call (Set, MemSet, Commit,        *)
(* Rollback, Reopen, Get, Iter) with the reply.  Concurrent recordings (the  *)
(* store module behind the message bus, several client goroutines) log Start *)
(* and End of every request; the request takes effect in a silent step Lin   *)
(* somewhere between the two (linearisability), which TLC searches for.      *)
(*                                                                           *)
(* Roots are named by the recorder's term ids (creation order, 0 = empty     *)
(* root); the root hash the code returned is logged as a small integer       *)
(* (hash id).  hashOf binds terms to hash ids: it must be a function (C02),  *)
(* and two terms may share a hash only if their contents are equal.          *)
EXTENDS StateStore, TraceLib

VARIABLES l, hashOf, infl, rid
tvars == <<vars, l, hashOf, infl, rid>>
\* what the rest of a trace can depend on: linearisation orders that differ only in the order of
\* commuting requests (creation order, last operation, height bookkeeping) are one state
tview == <<content, committed, pending, l, hashOf, infl, rid>>

NoBatches(n) == {}
TraceHeights == 1..40

Ev == Trace[l]
IsEvent(e) == l <= Len(Trace) /\ Ev.ev = e /\ l' = l + 1
ValidId(i) == i \in DOMAIN rid
R(i) == rid[i]                 \* recorder's root id -> term
BindId(i, r) == /\ (i \in DOMAIN rid => rid[i] = r)
                /\ rid' = IF i \in DOMAIN rid THEN rid ELSE rid @@ (i :> r)

HashOK(r, h) == /\ (r \in DOMAIN hashOf => hashOf[r] = h)
                /\ \A x \in DOMAIN hashOf : hashOf[x] = h => content'[x] = content'[r]
Bind(r, h) == hashOf' = IF r \in DOMAIN hashOf THEN hashOf ELSE hashOf @@ (r :> h)

NoInfl == [g \in {} |-> 0]
TInit == Init /\ l = 1 /\ hashOf = (EmptyRoot :> 0) /\ infl = NoInfl /\ rid = (0 :> EmptyRoot)

TReset == /\ IsEvent("Reset")
          /\ content' = (EmptyRoot :> EmptyMap) /\ committed' = {EmptyRoot} /\ pending' = {}
          /\ heightOf' = (EmptyRoot :> 0) /\ chainAt' = [h \in Heights |-> EmptyRoot] /\ tipH' = 0
          /\ order' = <<>> /\ nops' = 0 /\ act' = "Init"
          /\ hashOf' = (EmptyRoot :> 0) /\ infl' = NoInfl /\ rid' = (0 :> EmptyRoot)

\* ---- sequential events -------------------------------------------------------------------
\* (arguments are bound by \E over singletons: an action applied to an expression that mentions the
\* trace position l would see the NEXT event wherever the action primes its argument)
TSet == /\ IsEvent("Set") /\ Ev.ret = "ok" /\ ValidId(Ev.parent)
        /\ \E p \in {R(Ev.parent)}, ws \in {Ev.writes}, h \in {Ev.height}, i \in {Ev.root}, hh \in {Ev.hash} :
           /\ Set(p, ws, h)
           /\ BindId(i, Root(p, ws))
           /\ HashOK(Root(p, ws), hh) /\ Bind(Root(p, ws), hh)
        /\ UNCHANGED infl

TMemSet == /\ IsEvent("MemSet") /\ Ev.ret = "ok" /\ ValidId(Ev.parent)
           /\ \E p \in {R(Ev.parent)}, ws \in {Ev.writes}, h \in {Ev.height}, i \in {Ev.root}, hh \in {Ev.hash} :
              /\ MemSet(p, ws, h)
              /\ BindId(i, Root(p, ws))
              /\ HashOK(Root(p, ws), hh) /\ Bind(Root(p, ws), hh)
           /\ UNCHANGED infl

TCommit == /\ IsEvent("Commit") /\ ValidId(Ev.root)
           /\ \E r \in {R(Ev.root)}, st \in {Ev.ret} :
              \/ (st = "ok" /\ Commit(r))
              \/ (st = "notfound" /\ CommitNP(r))
           /\ UNCHANGED <<hashOf, infl, rid>>

TRollback == /\ IsEvent("Rollback") /\ ValidId(Ev.root)
             /\ \E r \in {R(Ev.root)}, st \in {Ev.ret} :
                \/ (st = "ok" /\ Rollback(r))
                \/ (st = "notfound" /\ RollbackNP(r))
             /\ UNCHANGED <<hashOf, infl, rid>>

TReopen == /\ IsEvent("Reopen") /\ Ev.ret = "ok" /\ Reopen /\ UNCHANGED <<hashOf, infl, rid>>

\* reads: several keys per event
ReadOK(r, keys, rets) == /\ Len(keys) = Len(rets)
                         /\ \A i \in 1..Len(keys) : content[r][keys[i]] = rets[i]
TGet == /\ IsEvent("Get") /\ ValidId(Ev.root)
        /\ R(Ev.root) \in committed
        /\ ReadOK(R(Ev.root), Ev.keys, Ev.ret)
        /\ UNCHANGED <<vars, hashOf, infl, rid>>

SameSeq(a, b) == Len(a) = Len(b) /\ \A i \in 1..Len(a) : a[i][1] = b[i][1] /\ a[i][2] = b[i][2]
TIter == /\ IsEvent("Iter") /\ ValidId(Ev.root)
         /\ R(Ev.root) \in committed
         /\ SameSeq(IterResult(R(Ev.root), Ev.lo, Ev.hi, Ev.asc, Ev.incl, Ev.lim), Ev.ret)
         /\ UNCHANGED <<vars, hashOf, infl, rid>>

\* ---- concurrent events: Start ... (silent Lin) ... End --------------------------------------
TStart == /\ IsEvent("Start") /\ Ev.g \notin DOMAIN infl
          /\ infl' = infl @@ (Ev.g :> [req |-> Ev, done |-> FALSE, res |-> "-", root |-> EmptyRoot])
          /\ IF Ev.op \in {"MemSet", "Set"}
             THEN ValidId(Ev.parent) /\ \E i \in {Ev.root}, r \in {Root(R(Ev.parent), Ev.writes)} : BindId(i, r)
             ELSE UNCHANGED rid
          /\ UNCHANGED <<vars, hashOf>>

Done(g, res, root) == infl' = [infl EXCEPT ![g] = [@ EXCEPT !.done = TRUE, !.res = res, !.root = root]]

TLin == /\ l <= Len(Trace) + 1 /\ UNCHANGED <<l, hashOf, rid>>
        /\ \E g \in DOMAIN infl :
           /\ ~infl[g].done
           /\ \E q \in {infl[g].req} :
              \/ /\ q.op \in {"MemSet", "Set"} /\ ValidId(q.parent)
                 /\ \E p \in {R(q.parent)}, ws \in {q.writes}, h \in {q.height} :
                    /\ IF q.op = "MemSet" THEN MemSet(p, ws, h) ELSE Set(p, ws, h)
                    /\ Done(g, "ok", Root(p, ws))
              \/ /\ q.op = "Commit" /\ ValidId(q.root)
                 /\ \E r \in {R(q.root)} : \/ (Commit(r) /\ Done(g, "ok", EmptyRoot))
                                          \/ (CommitNP(r) /\ Done(g, "notfound", EmptyRoot))
              \/ /\ q.op = "Rollback" /\ ValidId(q.root)
                 /\ \E r \in {R(q.root)} : \/ (Rollback(r) /\ Done(g, "ok", EmptyRoot))
                                          \/ (RollbackNP(r) /\ Done(g, "notfound", EmptyRoot))
              \/ /\ q.op = "Get" /\ ValidId(q.root) /\ R(q.root) \in committed
                 /\ UNCHANGED vars
                 /\ Done(g, [i \in 1..Len(q.keys) |-> content[R(q.root)][q.keys[i]]], EmptyRoot)

TEnd == /\ IsEvent("End") /\ Ev.g \in DOMAIN infl /\ infl[Ev.g].done
        /\ LET x == infl[Ev.g] IN
           \/ /\ x.req.op \in {"MemSet", "Set"} /\ Ev.ret = "ok"
              /\ Ev.root \in DOMAIN rid /\ rid[Ev.root] = x.root
              /\ (x.root \in DOMAIN hashOf => hashOf[x.root] = Ev.hash)
              /\ \A y \in DOMAIN hashOf : hashOf[y] = Ev.hash => content[y] = content[x.root]
              /\ Bind(x.root, Ev.hash)
           \/ /\ x.req.op \in {"Commit", "Rollback"} /\ Ev.ret = x.res /\ UNCHANGED hashOf
           \/ /\ x.req.op = "Get" /\ Len(Ev.ret) = Len(x.res)
              /\ \A i \in 1..Len(x.res) : Ev.ret[i] = x.res[i]
              /\ UNCHANGED hashOf
        /\ infl' = [g \in DOMAIN infl \ {Ev.g} |-> infl[g]]
        /\ UNCHANGED <<vars, rid>>

TNext == TReset \/ TSet \/ TMemSet \/ TCommit \/ TRollback \/ TReopen \/ TGet \/ TIter
         \/ TStart \/ TLin \/ TEnd
TSpec == TInit /\ [][TNext]_tvars

Mark == MarkHWM(l - 1)

\* C02 on the recorded run: one hash per term; C01: one content per hash
HashFunctional == \A x, y \in DOMAIN hashOf : hashOf[x] = hashOf[y] => content[x] = content[y]
=============================================================================
