SPECIFICATION GenSpec
CONSTANTS
  NKeys = 5
  NVals = 2
  Heights = {1, 2}
  MaxRoots = 8
  MaxOps = 12
  MaxWrites = 3
  Strides = {0, 1, 2, 4}
  SimWidth = 4
  Batches <- SimBatches
  Ops = {"Set", "MemSet", "Commit", "Reopen", "Redo", "Get", "Iter"}
  EmitOn = TRUE
  ChkIter = FALSE

CHECK_DEADLOCK FALSE
