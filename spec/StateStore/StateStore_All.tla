--------------------------- MODULE StateStore_All ---------------------------
(* Exhaustive behaviour export (GEN-all): the history of JSON action labels  *)
(* is part of the state, so every distinct bounded history is a distinct     *)
(* state; each complete history is printed once as "@@B <json>".  Only the   *)
(* state-changing actions are steps here: the reads are the projection chk   *)
(* (every key at every committed root, after every step).                    *)
EXTENDS StateStore_MC
VARIABLE hist
AInit == Init /\ hist = <<>>
ANext == Mut /\ hist' = Append(hist, act')
ASpec == AInit /\ [][ANext]_<<vars, hist>>
Done == nops = MaxOps
Export == Done => PrintT(<<"@@B", ToJson(hist)>>)
=============================================================================
