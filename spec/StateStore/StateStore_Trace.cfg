SPECIFICATION TSpec
CONSTANTS
  NKeys = 64
  NVals = 100000
  Heights <- TraceHeights
  MaxRoots = 100000
  MaxOps = 100000000
  Batches <- NoBatches
  Ops = {"Set", "MemSet", "Commit", "Rollback", "CommitNP", "RollbackNP", "Reopen", "Redo", "Get", "Iter"}
  EmitOn = FALSE
  ChkIter = FALSE
INVARIANTS Mark TypeOK
VIEW tview
POSTCONDITION TraceDone
CHECK_DEADLOCK FALSE
