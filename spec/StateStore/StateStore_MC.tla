--------------------------- MODULE StateStore_MC ---------------------------
(* Model-checking / generation instances of StateStore: the write lists.     *)
EXTENDS StateStore, Randomization
CONSTANTS MaxWrites,   \* longest write list
          Strides      \* (generation pool) key strides of the structured write lists

\* every write list of length 0..MaxWrites (overwrites and duplicates inside a list included)
MCBatches == UNION {[1..i -> Keys \X Vals] : i \in 0..MaxWrites}

\* structured pool for large alphabets: runs of MaxWrites.. 1 writes that walk the key space
\* with a stride (1 = ascending run, NKeys-1 = descending run, 0 = the same key repeatedly,
\* others = zig-zag), which is what forces every AVL rotation case; plus the empty list
Walk(a, d, n, v) == [i \in 1..n |-> <<((a - 1 + (i - 1) * d) % NKeys) + 1, ((v + i) % NVals) + 1>>]
PoolBatches == {<<>>} \cup {Walk(a, d, n, v) : a \in Keys, d \in Strides, n \in 1..MaxWrites, v \in Vals}
\* generation: a few randomly drawn lists per step keep the successor set small
SimBatches == RandomSubset(3, PoolBatches)
=============================================================================
