--------------------------- MODULE StateStore_MC ---------------------------
(* Model-checking / generation instances of StateStore: the write lists.     *)
EXTENDS StateStore, Randomization
CONSTANTS MaxWrites,   \* longest write list
          Strides,     \* (generation pool) key strides of the structured write lists
          SimWidth     \* (generation) number of write lists drawn per step

\* every write list of length 0..MaxWrites (overwrites and duplicates inside a list included)
MCBatches(n) == UNION {[1..i -> Keys \X Vals] : i \in 0..MaxWrites}

\* structured pool for large alphabets: runs of MaxWrites.. 1 writes that walk the key space
\* with a stride (1 = ascending run, NKeys-1 = descending run, 0 = the same key repeatedly,
\* others = zig-zag), which is what forces every AVL rotation case; plus the empty list
Walk(a, d, n, v) == [i \in 1..n |-> <<((a - 1 + (i - 1) * d) % NKeys) + 1, ((v + i) % NVals) + 1>>]
PoolBatches == {<<>>} \cup {Walk(a, d, n, v) : a \in Keys, d \in Strides, n \in 1..MaxWrites, v \in Vals}
\* generation: a few randomly drawn lists per step keep the successor set small
SimBatches(n) == RandomSubset(SimWidth + 0 * n, PoolBatches)

\* Generation (-simulate): TLC draws one of the disjuncts below at random, so their multiplicity is
\* the weight of an operation; reads are taken at non-empty roots only (every state-changing step
\* already carries the complete read table chk), and the refused Commit / Rollback and Reopen are
\* kept rare.  Same steps as Next, nothing else.
NonEmptyCommitted == committed \ {EmptyRoot}
GSet == \E p \in committed, ws \in Batches(nops), h \in Heights : Set(p, ws, h)
GMemSet == \E p \in committed, ws \in Batches(nops), h \in Heights : MemSet(p, ws, h)
GRedo == /\ "Redo" \in Ops
         /\ \E r \in Known \ {EmptyRoot}, h \in Heights :
               r[1] \in committed /\ (Set(r[1], r[2], h) \/ MemSet(r[1], r[2], h))
GCommit == \E r \in pending : Commit(r)
GRollback == \E r \in pending : Rollback(r)
GRare == /\ nops % 3 = 2
         /\ \/ \E r \in Known \ {EmptyRoot} : CommitNP(r) \/ RollbackNP(r)
            \/ Reopen
GReopen == pending # {} /\ Reopen
GIter == \E r \in NonEmptyCommitted, lo \in {RandomElement(Bounds)}, hi \in {RandomElement(Bounds)},
            asc \in BOOLEAN, incl \in BOOLEAN, lim \in 0..2 : Iter(r, lo, hi, asc, incl, lim)
GGet == \E r \in NonEmptyCommitted, k \in Keys : Get(r, k)
GenNext == GSet \/ GMemSet \/ GMemSet \/ GRedo \/ GCommit \/ GCommit \/ GRollback \/ GRare \/ GReopen \/ GIter \/ GIter \/ GGet
GenSpec == Init /\ [][GenNext]_vars
=============================================================================
