SPECIFICATION ASpec
CONSTANTS
  NKeys = 1
  NVals = 2
  Heights = {1}
  MaxRoots = 3
  MaxOps = 3
  MaxWrites = 1
  Strides = {1}
  SimWidth = 1
  Batches <- MCBatches
  Ops = {"Set", "MemSet", "Commit"}
  EmitOn = TRUE
  ChkIter = FALSE
INVARIANT Export
CHECK_DEADLOCK FALSE
