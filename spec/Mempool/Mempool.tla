------------------------------ MODULE Mempool ------------------------------
(***************************************************************************)
(* Reference model of chain33's transaction pool (system/mempool, queue    *)
(* strategy "timeline").  Properties C21 (bookkeeping), C22 (admission),   *)
(* C23 (lists handed to block producers).                                  *)
(*                                                                         *)
(* pool   : sequence of records [id, enter] in arrival order.  Every index *)
(*          of the implementation (per-sender index, short/full hash       *)
(*          lookup, byte size, fee total) is DERIVED from it; `latest` is  *)
(*          the window of the most recent admissions (LastTxCache).        *)
(* chain  : sequence of blocks [txs, time] above genesis; the header the   *)
(*          pool works with is (Len(chain), time of the last block).       *)
(* now    : clock in ticks.  One tick is longer than the pool-age limit    *)
(*          (600 s) and the one-minute admission margin, so "aged" means   *)
(*          "at least one tick old"; the harness shifts types.Now().       *)
(*                                                                         *)
(* An entry e of Ent is a transaction or a transaction group (one pool     *)
(* item keyed by the hash of its head).  Tab[e] = [s: sender of the head,  *)
(* ms: senders of the other members, fee: fee in units of the minimum rate,  *)
(* xk/xv: expiry kind "n"/"h"(height)/"t"(block time) and value,           *)
(* eth: eth-signed, nonce, grp: number of members (0 = single)].            *)
(*                                                                         *)
(* Deliberately NOT compared with the implementation:                      *)
(*  - which error a rejected submission reports (only accept/reject);      *)
(*  - the relative order of different eth senders, and of eth and non-eth  *)
(*    entries, in a producer list (C23 leaves it open); the model's own    *)
(*    list is exported for information only, the reply is judged by the    *)
(*    predicates of C23's statement;                                       *)
(*  - byte size as a number (the harness checks it against the observed    *)
(*    contents; signature encodings make sizes vary).                      *)
(***************************************************************************)
EXTENDS Integers, Sequences, FiniteSets, Json, TLC

CONSTANTS Ent,        \* entry ids (small integers)
          Tab,        \* [Ent -> attribute record], see above
          Senders,    \* all sender names
          Cap,        \* poolCacheSize
          PerSender,  \* maxTxNumPerAccount
          MaxLast,    \* maxTxLast
          MaxH,       \* bound on the chain length
          MaxNow,     \* bound on the clock
          MaxBlk,     \* bound on the number of entries in a block
          LevelFee,   \* isLevelFee
          TierAt,     \* pool size from which the 10x fee tier applies
          Defects,    \* static admission defects a submission may carry (C22 rows)
          MaxRm,      \* bound on the size of an explicit removal list
          QueryOn,    \* producer-list queries are part of Next
          NodeRig,    \* generate only what a full node can be made to do: Reorg instead of a lone DelBlock, no empty block
          SubW,       \* weight of good submissions in random generation (1 in exhaustive runs)
          MaxOps,     \* bound on the number of steps (0 = unbounded)
          EmitOn      \* build the JSON action label

VARIABLES pool, latest, chain, now, nops, act
vars == <<pool, latest, chain, now, nops, act>>
view == <<pool, latest, chain, now>>
viewN == <<pool, latest, chain, now, nops>>

-----------------------------------------------------------------------------
\* helpers
SeqToSet(s) == {s[i] : i \in 1..Len(s)}
Ids(p) == [i \in 1..Len(p) |-> p[i].id]
IdSet(p) == {p[i].id : i \in 1..Len(p)}
RECURSIVE SumSeq(_)
SumSeq(s) == IF s = <<>> THEN 0 ELSE Head(s) + SumSeq(Tail(s))
RECURSIVE SetToSeq(_)
SetToSeq(S) == IF S = {} THEN <<>>
               ELSE LET m == CHOOSE x \in S : \A y \in S : x <= y IN <<m>> \o SetToSeq(S \ {m})
IsDistinct(s) == \A i, j \in 1..Len(s) : i # j => s[i] # s[j]
IndexOf(s, x) == CHOOSE i \in 1..Len(s) : s[i] = x

ChainSetOf(ch) == UNION {SeqToSet(ch[i].txs) : i \in 1..Len(ch)}
ChainSet == ChainSetOf(chain)
HOf(ch) == Len(ch)
TOf(ch) == IF ch = <<>> THEN 0 ELSE ch[Len(ch)].time
HdrH == HOf(chain)
HdrT == TOf(chain)

\* derived indexes of the pool (C21: these are what the implementation's five structures must equal)
Cnt(p, s) == Cardinality({i \in 1..Len(p) : Tab[p[i].id].s = s})
BySender(p, s) == SelectSeq(Ids(p), LAMBDA e : Tab[e].s = s)
FeeTotal(p) == SumSeq([i \in 1..Len(p) |-> Tab[p[i].id].fee])
Lookup(p) == IdSet(p)                       \* ids resolvable by short hash and by full hash

\* the sender's current account nonce: one per eth-signed entry of that sender on the chain
CurNonceOf(ch, s) == Cardinality({e \in ChainSetOf(ch) : Tab[e].eth /\ Tab[e].s = s})
CurNonce(s) == CurNonceOf(chain, s)
EthSenders == {s \in Senders : \E e \in Ent : Tab[e].eth /\ Tab[e].s = s}

\* expiry "for the next block": the header is (h, t); the next block has height h+1 and is
\* judged with the last block's time (base.go filterTxList/removeExpired, check.go checkExpireValid)
ExpiredAt(e, h, t) == \/ Tab[e].xk = "h" /\ Tab[e].xv <= h + 1
                      \/ Tab[e].xk = "t" /\ Tab[e].xv < t
\* a time expiry less than a minute ahead of the clock is refused at admission
TooClose(e, n) == Tab[e].xk = "t" /\ Tab[e].xv < n
Aged(r, n) == n > r.enter
Gone(r, h, t, n) == Aged(r, n) \/ ExpiredAt(r.id, h, t)

\* composite push of cache.go: duplicate, capacity, per-sender limit of the head's sender
PushOK(p, e) == /\ e \notin IdSet(p)
                /\ Len(p) < Cap
                /\ Cnt(p, Tab[e].s) < PerSender
PushLatest(l, e) == Append(IF Len(l) >= MaxLast THEN Tail(l) ELSE l, e)
Keep(l, p) == SelectSeq(l, LAMBDA e : e \in IdSet(p))
Without(p, S) == SelectSeq(p, LAMBDA r : r.id \notin S)
Sweep(p, h, t, n) == SelectSeq(p, LAMBDA r : ~Gone(r, h, t, n))

-----------------------------------------------------------------------------
\* C22: the admission clauses.  d = <<defect or "none", position>>; a defective variant is a
\* different transaction (other hash) except for a bad signature, which the hash does not cover.
None == <<"none", 0>>
SameHash(d) == d[1] = "none" \/ d[1] = "sig"
SameSender(d) == ~(d[1] = "blkfrom" /\ d[2] = 0)
AllSenders(e) == {Tab[e].s} \cup Tab[e].ms
\* fees are in units of the minimum rate; an item of w members needs w units at the base rate and
\* 10 w units once the pool holds TierAt items (tiered fee, base.go getLevelFeeRate)
Weight(e) == IF Tab[e].grp = 0 THEN 1 ELSE Tab[e].grp
ReqRate(p) == IF LevelFee /\ Len(p) >= TierAt THEN 10 ELSE 1
Pending(e) == \E i \in 1..Len(pool) : /\ pool[i].id # e
                                      /\ Tab[pool[i].id].s = Tab[e].s
                                      /\ Tab[pool[i].id].nonce = Tab[e].nonce
Viol(e, d) ==
     (IF d[1] # "none" THEN {d[1]} ELSE {})
  \cup (IF SameHash(d) /\ e \in IdSet(pool) THEN {"inpool"} ELSE {})
  \cup (IF SameHash(d) /\ e \in ChainSet THEN {"onchain"} ELSE {})
  \cup (IF ExpiredAt(e, HdrH, HdrT) \/ TooClose(e, now) THEN {"expired"} ELSE {})
  \cup (IF Tab[e].fee < ReqRate(pool) * Weight(e) /\ d[1] # "fee" THEN {"tier"} ELSE {})
  \cup (IF \E m \in AllSenders(e) : (m # Tab[e].s \/ SameSender(d)) /\ Cnt(pool, m) >= PerSender THEN {"limit"} ELSE {})
  \cup (IF Len(pool) >= Cap THEN {"full"} ELSE {})
  \cup (IF Tab[e].eth /\ SameSender(d) /\ Tab[e].nonce < CurNonce(Tab[e].s) THEN {"noncelow"} ELSE {})
  \cup (IF Tab[e].eth /\ SameSender(d) /\ Pending(e) THEN {"noncepend"} ELSE {})

\* clauses named in C22's statement ("full" is the capacity bound of C21)
C22Clauses == {"sig", "fee", "tier", "to", "blkfrom", "blkto", "blkevm", "inpool", "onchain",
               "expired", "limit", "noncelow", "noncepend"}

DefectsOf(e) == {<<d, p>> : d \in Defects, p \in 0..(IF Tab[e].grp = 0 THEN 0 ELSE Tab[e].grp - 1)}
                  \ {<<d, p>> \in Defects \X (1..20) : d = "fee"}

-----------------------------------------------------------------------------
\* C23: the list handed to a block producer (base.go getTxList/filterTxList/sortEthSignTyTx)
Walk(n, excl) ==
  LET ok == SelectSeq(pool, LAMBDA r : r.id \notin excl /\ ~Gone(r, HdrH, HdrT, now))
  IN Ids(SubSeq(ok, 1, IF Len(ok) < n THEN Len(ok) ELSE n))
RECURSIVE Run(_, _, _)
Run(W, s, k) ==
  IF \E i \in 1..Len(W) : Tab[W[i]].eth /\ Tab[W[i]].s = s /\ Tab[W[i]].nonce = k
  THEN LET i == CHOOSE j \in 1..Len(W) : /\ Tab[W[j]].eth /\ Tab[W[j]].s = s /\ Tab[W[j]].nonce = k
                                           /\ \A m \in 1..Len(W) : (Tab[W[m]].eth /\ Tab[W[m]].s = s /\ Tab[W[m]].nonce = k) => m <= j
       IN <<W[i]>> \o Run(W, s, k + 1)
  ELSE <<>>
RECURSIVE Runs(_, _)
Runs(W, S) == IF S = {} THEN <<>>
              ELSE LET s == CHOOSE x \in S : TRUE IN Run(W, s, CurNonce(s)) \o Runs(W, S \ {s})
TxList(n, excl) ==
  LET W == Walk(n, excl)
      NE == SelectSeq(W, LAMBDA e : ~Tab[e].eth)
  IN IF Len(NE) = Len(W) THEN W ELSE NE \o Runs(W, EthSenders)

\* the statement of C23 as predicates on a reply L to a request (n, excl)
PosIn(p, e) == CHOOSE i \in 1..Len(p) : p[i].id = e
Viol23(L, n, excl) ==
     (IF Len(L) > n THEN {"len"} ELSE {})
  \cup (IF ~IsDistinct(L) THEN {"dup"} ELSE {})
  \cup (IF \E i \in 1..Len(L) : L[i] \in excl THEN {"excluded"} ELSE {})
  \cup (IF \E i \in 1..Len(L) : L[i] \notin IdSet(pool) THEN {"foreign"} ELSE {})
  \cup (IF \E i \in 1..Len(L) : L[i] \in IdSet(pool) /\ Gone(pool[PosIn(pool, L[i])], HdrH, HdrT, now) THEN {"expired"} ELSE {})
  \cup (IF \E i, j \in 1..Len(L) : /\ i < j /\ ~Tab[L[i]].eth /\ ~Tab[L[j]].eth
                                    /\ L[i] \in IdSet(pool) /\ L[j] \in IdSet(pool)
                                    /\ PosIn(pool, L[i]) > PosIn(pool, L[j]) THEN {"order"} ELSE {})
  \cup (IF \E s \in EthSenders :
            LET Ls == SelectSeq(L, LAMBDA e : Tab[e].eth /\ Tab[e].s = s)
            IN \E i \in 1..Len(Ls) : Tab[Ls[i]].nonce # CurNonce(s) + i - 1 THEN {"nonce"} ELSE {})

-----------------------------------------------------------------------------
\* projection compared with the implementation after every step
Chk == [pool   |-> Ids(pool),
        latest |-> latest,
        size   |-> Len(pool),
        cnt    |-> [s \in Senders |-> Cnt(pool, s)],
        acc    |-> [s \in Senders |-> BySender(pool, s)],
        fee    |-> FeeTotal(pool),
        sh     |-> SetToSeq(Lookup(pool)),
        fh     |-> SetToSeq(Lookup(pool)),
        bytes  |-> "ok",                     \* byte counter = sum of the sizes of the contents
        api    |-> "ok",                     \* GetMempool(all) lists the non-eth contents in arrival order
        h      |-> HdrH]

Emit(r) == act' = IF EmitOn THEN ToJson(r) ELSE ""
Step == /\ (MaxOps = 0 \/ nops < MaxOps)
        /\ nops' = IF MaxOps = 0 THEN 0 ELSE nops + 1

Init == /\ pool = <<>> /\ latest = <<>> /\ chain = <<>> /\ now = 0 /\ nops = 0
        /\ act = IF EmitOn THEN ToJson([op |-> "Conf", tab |-> Tab, senders |-> Senders, cap |-> Cap,
                                        persender |-> PerSender, maxlast |-> MaxLast,
                                        levelfee |-> LevelFee, tierat |-> TierAt]) ELSE ""

Submit(e, d) ==
  /\ Step
  /\ LET v == Viol(e, d) IN
     /\ IF v = {}
        THEN /\ pool' = Append(pool, [id |-> e, enter |-> now])
             /\ latest' = PushLatest(latest, e)
        ELSE UNCHANGED <<pool, latest>>
     /\ UNCHANGED <<chain, now>>
     /\ Emit([op |-> "Submit", e |-> e, d |-> d[1], pos |-> d[2], viol |-> v,
              ret |-> IF v = {} THEN "ok" ELSE "rej", chk |-> Chk'])

\* a block of the next height, stamped with the clock; it holds entries that are valid there
BlockOK(b) == /\ IsDistinct(b)
              /\ \A i \in 1..Len(b) : /\ b[i] \notin ChainSet
                                      /\ ~ExpiredAt(b[i], HdrH, now)
              /\ \A i \in 1..(Len(b) - 1) : b[i] < b[i + 1]
AddBlock(b) ==
  /\ Step /\ Len(chain) < MaxH /\ BlockOK(b)
  /\ (NodeRig => Len(b) >= 1)           \* the solo consensus of a real node rejects empty blocks
  /\ LET p2 == Sweep(Without(pool, SeqToSet(b)), HdrH + 1, now, now) IN
     /\ pool' = p2
     /\ latest' = Keep(latest, p2)
  /\ chain' = Append(chain, [txs |-> b, time |-> now])
  /\ UNCHANGED now
  /\ Emit([op |-> "AddBlock", txs |-> b, t |-> now, ret |-> "ok", chk |-> Chk'])

\* rollback of the tip: the header steps back, the block's entries are re-admitted in order
ReAdmit(b, h, t) ==
  LET F[i \in 0..Len(b)] ==
        IF i = 0 THEN <<pool, latest>>
        ELSE LET prev == F[i - 1]
                 e == b[i]
             IN IF e \notin ChainSetOf(SubSeq(chain, 1, Len(chain) - 1)) /\ ~ExpiredAt(e, h, t) /\ ~TooClose(e, now) /\ PushOK(prev[1], e)
                THEN <<Append(prev[1], [id |-> e, enter |-> now]), PushLatest(prev[2], e)>>
                ELSE prev
  IN F[Len(b)]
DelBlock ==
  /\ Step /\ chain # <<>>
  /\ LET b == chain[Len(chain)].txs
         ch == SubSeq(chain, 1, Len(chain) - 1)
         r == ReAdmit(b, HOf(ch), TOf(ch))
     IN /\ chain' = ch
        /\ pool' = r[1]
        /\ latest' = r[2]
        /\ UNCHANGED now
        /\ Emit([op |-> "DelBlock", txs |-> b, ret |-> "ok", chk |-> Chk'])

\* A full node cannot roll a block back without connecting another one: a reorganisation replaces
\* the tip by a heavier sibling b (EventDelBlock, then EventAddBlock).  The pool receives the two
\* notifications on channels of different priority and asks the blockchain for the header while the
\* reorganisation is in progress, so their effects may interleave; the action is enabled only
\* where every such interleaving gives the same result (the sibling brings transactions the pool
\* does not hold, no tick since the tip was connected, nothing to sweep, and the re-admission of
\* the old tip's entries does not depend on which of the two headers is used).
Reorg(b) ==
  /\ NodeRig /\ Step /\ chain # <<>>
  /\ LET old == chain[Len(chain)].txs
         ch == SubSeq(chain, 1, Len(chain) - 1)
     IN /\ IsDistinct(b) /\ Len(b) >= 1
        /\ \A i \in 1..(Len(b) - 1) : b[i] < b[i + 1]
        /\ \A i \in 1..Len(b) : /\ b[i] \notin ChainSetOf(chain) /\ b[i] \notin IdSet(pool)
                                /\ ~ExpiredAt(b[i], HOf(ch), now)
        /\ chain[Len(chain)].time = now
        /\ Sweep(pool, HOf(ch) + 1, now, now) = pool
        /\ \A i \in 1..Len(old) : ExpiredAt(old[i], HOf(ch), TOf(ch)) = ExpiredAt(old[i], HOf(ch) + 1, now)
        /\ LET r == ReAdmit(old, HOf(ch), TOf(ch))
               p2 == Sweep(Without(r[1], SeqToSet(b)), HOf(ch) + 1, now, now)
           IN /\ pool' = p2
              /\ latest' = Keep(r[2], p2)
        /\ chain' = Append(ch, [txs |-> b, time |-> now])
        /\ UNCHANGED now
        /\ Emit([op |-> "Reorg", old |-> old, txs |-> b, t |-> now, ret |-> "ok", chk |-> Chk'])

\* The same reorganisation seen by a pool that is behind with its high-priority requests: the
\* rollback is announced on the bus's low-priority channel and the replacing block on the
\* high-priority one, so EventAddBlock(b) can be handled BEFORE EventDelBlock(old).  The block
\* addition then meets a header of its own height (the header is not replaced, the sweep uses the
\* old tip's time); the late rollback fetches the new tip's header and re-admits the old tip's
\* entries - except those the replacing block holds (they are on the chain again).
ReorgInv(b) ==
  /\ ~NodeRig /\ Step /\ chain # <<>>
  /\ LET old == chain[Len(chain)].txs
         ch == SubSeq(chain, 1, Len(chain) - 1)
         h == Len(chain)
     IN /\ IsDistinct(b)
        /\ \A i \in 1..(Len(b) - 1) : b[i] < b[i + 1]
        /\ \A i \in 1..Len(b) : b[i] \notin ChainSetOf(ch) /\ ~ExpiredAt(b[i], HOf(ch), now)
        /\ LET p1 == Sweep(Without(pool, SeqToSet(b)), h, TOf(chain), now)
               F[i \in 0..Len(old)] ==
                 IF i = 0 THEN <<p1, Keep(latest, p1)>>
                 ELSE LET prev == F[i - 1]
                          e == old[i]
                      IN IF e \notin SeqToSet(b) /\ ~ExpiredAt(e, h, now) /\ ~TooClose(e, now) /\ PushOK(prev[1], e)
                         THEN <<Append(prev[1], [id |-> e, enter |-> now]), PushLatest(prev[2], e)>>
                         ELSE prev
           IN /\ pool' = F[Len(old)][1]
              /\ latest' = F[Len(old)][2]
        /\ chain' = Append(ch, [txs |-> b, time |-> now])
        /\ UNCHANGED now
        /\ Emit([op |-> "ReorgInv", old |-> old, txs |-> b, t |-> now, ret |-> "ok", chk |-> Chk'])

Remove(S) ==
  /\ Step
  /\ pool' = Without(pool, S)
  /\ latest' = Keep(latest, pool')
  /\ UNCHANGED <<chain, now>>
  /\ Emit([op |-> "Remove", ids |-> SetToSeq(S), ret |-> "ok", chk |-> Chk'])

SweepNow ==
  /\ Step
  /\ pool' = Sweep(pool, HdrH, HdrT, now)
  /\ latest' = Keep(latest, pool')
  /\ UNCHANGED <<chain, now>>
  /\ Emit([op |-> "Sweep", ret |-> "ok", chk |-> Chk'])

Tick ==
  /\ Step /\ now < MaxNow
  /\ now' = now + 1
  /\ UNCHANGED <<pool, latest, chain>>
  /\ Emit([op |-> "Tick", now |-> now + 1, ret |-> "ok", chk |-> Chk'])

GoneIds == SetToSeq({pool[i].id : i \in {j \in 1..Len(pool) : Gone(pool[j], HdrH, HdrT, now)}})
GetTxList(n, excl) ==
  /\ Step
  /\ UNCHANGED <<pool, latest, chain, now>>
  /\ Emit([op |-> "GetTxList", n |-> n, excl |-> SetToSeq(excl), gone |-> GoneIds,
           cur |-> [s \in EthSenders |-> CurNonce(s)], model |-> TxList(n, excl),
           ret |-> Viol23(TxList(n, excl), n, excl)])

SmallSets(S, k) == {T \in SUBSET S : Cardinality(T) <= k}
Blocks == {SetToSeq(T) : T \in SmallSets(Ent, MaxBlk)}

\* Candidate arguments.  Removal lists and blocks are drawn from the pool's contents plus the
\* smallest and largest entry that is neither in the pool nor on the chain (a removal of an absent
\* hash, a block bringing transactions the pool never saw): this keeps submissions a sizeable
\* share of the enabled steps, which is what random generation samples from.
Absent == Ent \ (IdSet(pool) \cup ChainSet)
Far == IF Absent = {} THEN {}
       ELSE {CHOOSE x \in Absent : \A y \in Absent : x <= y, CHOOSE x \in Absent : \A y \in Absent : x >= y}
RmCands == SmallSets(IdSet(pool) \cup Far, MaxRm) \ {{}}
BlkCands == {SetToSeq(T) : T \in SmallSets(IdSet(pool) \cup Far, MaxBlk)}
\* a block replacing the tip may hold the tip's own transactions again (the usual case in a reorganisation)
TipSet == IF chain = <<>> THEN {} ELSE SeqToSet(chain[Len(chain)].txs)
RBlkCands == {SetToSeq(T) : T \in SmallSets(IdSet(pool) \cup Far \cup TipSet, MaxBlk)}
QryCands == SmallSets(IdSet(pool) \cup Far, 2)

Next == \/ \E w \in 1..SubW : \E e \in Ent : Submit(e, None)
        \/ \E e \in Ent : \E d \in DefectsOf(e) : Submit(e, d)
        \/ \E b \in BlkCands : AddBlock(b)
        \/ (~NodeRig /\ DelBlock)
        \/ \E b \in BlkCands : Reorg(b)
        \/ \E b \in RBlkCands : ReorgInv(b)
        \/ \E S \in RmCands : Remove(S)
        \/ SweepNow
        \/ Tick
        \/ (QueryOn /\ \E n \in 1..(Cap + 1) : \E excl \in QryCands : GetTxList(n, excl))

Spec == Init /\ [][Next]_vars

-----------------------------------------------------------------------------
\* The properties, stated on the model (checked by TLC on every state / step)

TypeOK == /\ now \in 0..MaxNow /\ Len(chain) <= MaxH
          /\ \A i \in 1..Len(pool) : pool[i].id \in Ent /\ pool[i].enter \in 0..now
          /\ Cardinality(ChainSet) = SumSeq([i \in 1..Len(chain) |-> Len(chain[i].txs)])

\* C21: no two pool items with one hash; capacity; per-sender limit
NoDup == IsDistinct(Ids(pool))
CapOK == Len(pool) <= Cap
PerSenderOK == \A s \in Senders : Cnt(pool, s) <= PerSender
\* C21: the derived indexes partition / sum up the contents
RECURSIVE SumCnt(_)
SumCnt(S) == IF S = {} THEN 0 ELSE LET s == CHOOSE x \in S : TRUE IN Cnt(pool, s) + SumCnt(S \ {s})
IndexAgree == /\ SumCnt(Senders) = Len(pool)
              /\ \A s \in Senders : Len(BySender(pool, s)) = Cnt(pool, s)
              /\ Cardinality(Lookup(pool)) = Len(pool)
              /\ FeeTotal(pool) >= Len(pool)
\* C21: the latest-transactions window never names a transaction that left the pool, keeps
\* arrival order and never exceeds its size: it is a suffix of the pool's arrival sequence
LatestOK == /\ Len(latest) <= MaxLast
            /\ Len(latest) <= Len(pool)
            /\ latest = SubSeq(Ids(pool), Len(pool) - Len(latest) + 1, Len(pool))
\* C21: the transactions of an added block are not in the pool afterwards
BlockGone == [][\A b \in Blocks : (AddBlock(b) \/ Reorg(b) \/ ReorgInv(b)) => SeqToSet(b) \cap IdSet(pool') = {}]_vars
\* C22: a rejected submission leaves the pool as it was; an accepted one violates no clause
RejectKeeps == [][\A e \in Ent : \A d \in DefectsOf(e) \cup {None} :
                    Submit(e, d) => \/ Viol(e, d) = {} /\ pool' = Append(pool, [id |-> e, enter |-> now])
                                    \/ Viol(e, d) # {} /\ pool' = pool /\ latest' = latest]_vars
\* C23: every producer list the model can hand out satisfies the statement
C23OK == \A n \in 1..(Cap + 1) : \A excl \in SmallSets(IdSet(pool), 2) : Viol23(TxList(n, excl), n, excl) = {}
=============================================================================
