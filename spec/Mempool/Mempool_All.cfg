SPECIFICATION ASpec
CONSTANTS
  Ent = {1, 2, 3, 4, 5}
  Tab <- TabU5
  Senders <- SendersABX
  Cap = 2
  PerSender = 1
  MaxLast = 1
  MaxH = 2
  MaxNow = 1
  MaxBlk = 1
  LevelFee = TRUE
  TierAt = 1
  Defects <- AllDefects
  MaxRm = 1
  QueryOn = FALSE
  NodeRig = FALSE
  SubW = 1
  MaxOps = 2
  EmitOn = TRUE
  Mode = "admit"
INVARIANT Export
CHECK_DEADLOCK FALSE
