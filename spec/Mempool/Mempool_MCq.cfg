SPECIFICATION Spec
CONSTANTS
  Ent = {1, 2, 3, 4, 5}
  Tab <- TabU5
  Senders <- SendersABX
  Cap = 2
  PerSender = 1
  MaxLast = 1
  MaxH = 2
  MaxNow = 1
  MaxBlk = 1
  LevelFee = TRUE
  TierAt = 1
  Defects <- TwoDefects
  MaxRm = 1
  QueryOn = FALSE
  SubW = 1
  MaxOps = 0
  EmitOn = FALSE
VIEW view
INVARIANTS TypeOK NoDup CapOK PerSenderOK IndexAgree LatestOK C23OK
PROPERTIES BlockGone RejectKeeps
CHECK_DEADLOCK FALSE
