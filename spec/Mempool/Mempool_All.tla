---------------------------- MODULE Mempool_All ----------------------------
(* Exhaustive behaviour export (GEN-all).  A behaviour is a bounded prefix   *)
(* that builds a pool / chain state followed by one final step of the kind   *)
(* under test:                                                                *)
(*   Mode = "admit": the final step is every submission row of the C22       *)
(*                   decision table (every entry x every defect x position,  *)
(*                   plus the all-good row) against that state;              *)
(*   Mode = "list" : the final step is every producer-list request (C23);    *)
(*   Mode = "hist" : no distinguished final step: every history of MaxOps    *)
(*                   steps (C21).                                            *)
(* The history of JSON labels is part of the state, so each distinct         *)
(* bounded history is printed exactly once as "@@B <json>".                  *)
EXTENDS Mempool_MC
CONSTANT Mode
VARIABLE hist

OneBlocks == {b \in BlkCands : Len(b) <= 1}
Prefix == \/ \E e \in Ent : Submit(e, None)
          \/ \E b \in OneBlocks : AddBlock(b)
          \/ Tick
          \/ (Mode = "hist" /\ (DelBlock \/ SweepNow \/ (\E S \in RmCands : Remove(S)) \/ (\E b \in {x \in RBlkCands : Len(x) <= 1} : ReorgInv(b))))
Final == \/ (Mode = "admit" /\ \E e \in Ent : \E d \in DefectsOf(e) \cup {None} : Submit(e, d))
         \/ (Mode = "list" /\ \E n \in 1..(Cap + 1) : \E excl \in QryCands : GetTxList(n, excl))
         \/ (Mode = "hist" /\ Prefix)
ANext == /\ IF nops < MaxOps - 1 THEN Prefix ELSE Final
         /\ hist' = Append(hist, act')
AInit == Init /\ hist = <<act>>
ASpec == AInit /\ [][ANext]_<<vars, hist>>
Done == nops = MaxOps
Export == Done => PrintT(<<"@@B", ToJson(hist)>>)
=============================================================================
