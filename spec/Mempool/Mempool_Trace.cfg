SPECIFICATION TSpec
CONSTANTS
  Ent <- TraceEnt
  Tab <- TraceTab
  Senders <- TraceSenders
  Cap <- TraceCap
  PerSender <- TracePerSender
  MaxLast <- TraceMaxLast
  MaxH = 1000000
  MaxNow = 1000000
  MaxBlk = 0
  LevelFee = FALSE
  TierAt = 0
  Defects = {}
  MaxRm = 0
  QueryOn = FALSE
  NodeRig = FALSE
  SubW = 1
  MaxOps = 0
  EmitOn = FALSE
INVARIANTS Mark NoDup CapOK PerSenderOK IndexAgree LatestOK
PROPERTIES BlockGoneT
POSTCONDITION TraceDone
CHECK_DEADLOCK FALSE
