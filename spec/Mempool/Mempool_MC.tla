----------------------------- MODULE Mempool_MC -----------------------------
(* Constants of the exhaustive / generating configurations.  Function-valued *)
(* constants cannot be written in a .cfg, so the entry tables live here.     *)
EXTENDS Mempool

E(s, ms, fee, xk, xv, eth, nonce, grp) ==
  [s |-> s, ms |-> ms, fee |-> fee, xk |-> xk, xv |-> xv, eth |-> eth, nonce |-> nonce, grp |-> grp]

\* universe U9 (behaviour generation): two plain senders, one eth sender, a group, the three expiry kinds
TabU9 == <<
  E("A", {},    1, "n", 0, FALSE, 0, 0),    \* 1
  E("A", {},    12, "h", 2, FALSE, 0, 0),   \* 2  expires for the block at height 2; pays the 10x tier
  E("B", {},    1, "t", 1, FALSE, 0, 0),    \* 3  expires once the header time passes tick 1
  E("A", {"B"}, 3, "h", 3, FALSE, 0, 2),    \* 4  group: head A, member B; a member expires for the block at height 3
  E("B", {},    11, "n", 0, FALSE, 0, 0),   \* 5  pays the 10x tier
  E("X", {},    1, "n", 0, TRUE,  0, 0),    \* 6  eth nonce 0
  E("X", {},    10, "n", 0, TRUE,  1, 0),   \* 7  eth nonce 1
  E("X", {},    1, "h", 3, TRUE,  2, 0),    \* 8  eth nonce 2, expires for the block at height 3
  E("X", {},    1, "n", 0, TRUE,  1, 0)     \* 9  eth nonce 1 again (another transaction)
>>
\* universe U6 (exhaustive checking)
TabU6 == <<
  E("A", {},    1, "n", 0, FALSE, 0, 0),    \* 1
  E("A", {"B"}, 25, "h", 2, FALSE, 0, 2),   \* 2  group, a member expires for the block at height 2; pays the 10x tier
  E("B", {},    1, "t", 1, FALSE, 0, 0),    \* 3
  E("X", {},    1, "n", 0, TRUE,  0, 0),    \* 4  eth nonce 0
  E("X", {},    10, "n", 0, TRUE,  1, 0),   \* 5  eth nonce 1
  E("X", {},    1, "n", 0, TRUE,  1, 0)     \* 6  eth nonce 1 again
>>
\* universe U5 (quick exhaustive run)
TabU5 == <<
  E("A", {},    1, "n", 0, FALSE, 0, 0),    \* 1
  E("A", {"B"}, 20, "h", 2, FALSE, 0, 2),   \* 2  group, a member expires for the block at height 2; pays the 10x tier
  E("B", {},    2, "t", 0, FALSE, 0, 0),    \* 3  expires once the header time passes tick 0
  E("X", {},    1, "n", 0, TRUE,  0, 0),    \* 4  eth nonce 0
  E("X", {},    10, "n", 0, TRUE,  1, 0)    \* 5  eth nonce 1
>>
TwoDefects == {"sig", "blkfrom"}
SendersABX == {"A", "B", "X"}
AllDefects == {"sig", "fee", "to", "blkfrom", "blkto", "blkevm"}
NoDefects == {}
=============================================================================
