---------------------------- MODULE Mempool_Trace ----------------------------
(* Trace specification for the concurrent leg of C21.  Several goroutines     *)
(* drive the real pool (submissions through the pipeline, block additions and *)
(* rollbacks, removals, sweeps, producer-list queries); a verif hook reports  *)
(* every mutation under the pool mutex, after the change, together with a     *)
(* snapshot of all internal indexes.  The events are therefore totally        *)
(* ordered (linearised) and each must be a step of the reference model:       *)
(*   Push    - composite push of cache.go (accept iff PushOK)                 *)
(*   Rm      - explicit removal (RemoveTxs)                                   *)
(*   RmBlock - removal of a block's transactions (RemoveTxsOfBlock)           *)
(*   Sweep   - expiry sweep against the logged header                         *)
(*   Tick    - the recorder moved the clock while the pool was quiescent      *)
(* and the snapshot must equal the model's derived indexes.  The family       *)
(* invariants are evaluated by TLC at every step.  The entry table and the    *)
(* pool configuration are read from the first event (Conf).                   *)
EXTENDS Mempool, TraceLib

VARIABLE l
tvars == <<vars, l>>

Conf == Trace[1]
TraceTab == [i \in 1..Len(Conf.tab) |->
               [s |-> Conf.tab[i].s, ms |-> {}, fee |-> Conf.tab[i].fee, xk |-> Conf.tab[i].xk, xv |-> Conf.tab[i].xv,
                eth |-> Conf.tab[i].eth, nonce |-> Conf.tab[i].nonce, grp |-> Conf.tab[i].grp]]
TraceEnt == 1..Len(Conf.tab)
TraceSenders == {Conf.senders[i] : i \in 1..Len(Conf.senders)}
TraceCap == Conf.cap
TracePerSender == Conf.persender
TraceMaxLast == Conf.maxlast

Ev == Trace[l]
IsEvent(e) == l <= Len(Trace) /\ Ev.ev = e /\ l' = l + 1

\* the snapshot taken under the mutex equals the derived indexes of the model's next state
SnapOK == /\ Ev.pool = Ids(pool')
          /\ Ev.latest = latest'
          /\ Ev.fee = FeeTotal(pool')
          /\ Ev.sh = SetToSeq(Lookup(pool'))
          /\ Ev.acc = [s \in Senders |-> BySender(pool', s)]
          /\ Ev.bytes = "ok"

TInit == Init /\ l = 1
TConf == IsEvent("Conf") /\ UNCHANGED vars
TReset == /\ IsEvent("Reset")
          /\ pool' = <<>> /\ latest' = <<>> /\ chain' = <<>> /\ now' = 0
          /\ UNCHANGED <<nops, act>>
TPush == /\ IsEvent("Push") /\ Ev.e \in Ent
         /\ IF PushOK(pool, Ev.e)
            THEN /\ Ev.ret = "ok"
                 /\ pool' = Append(pool, [id |-> Ev.e, enter |-> now])
                 /\ latest' = PushLatest(latest, Ev.e)
            ELSE /\ Ev.ret = "rej"
                 /\ UNCHANGED <<pool, latest>>
         /\ UNCHANGED <<chain, now, nops, act>>
         /\ SnapOK
TRm == /\ (IsEvent("Rm") \/ IsEvent("RmBlock"))
       /\ pool' = Without(pool, SeqToSet(Ev.ids))
       /\ latest' = Keep(latest, pool')
       /\ UNCHANGED <<chain, now, nops, act>>
       /\ SnapOK
TSweep == /\ IsEvent("Sweep")
          /\ pool' = Sweep(pool, Ev.h, Ev.t, now)
          /\ latest' = Keep(latest, pool')
          /\ UNCHANGED <<chain, now, nops, act>>
          /\ SnapOK
TTick == /\ IsEvent("Tick") /\ Ev.now >= now
         /\ now' = Ev.now
         /\ UNCHANGED <<pool, latest, chain, nops, act>>

TNext == TConf \/ TReset \/ TPush \/ TRm \/ TSweep \/ TTick
TSpec == TInit /\ [][TNext]_tvars

Mark == MarkHWM(l - 1)
\* C21 on the recorded execution: after a block's transactions were removed none of them is in the pool
BlockGoneT == [][IsEvent("RmBlock") => SeqToSet(Ev.ids) \cap IdSet(pool') = {}]_tvars
=============================================================================
