\* behaviour generation (tlc -simulate) on the 9-entry universe; families/mempool.py varies Cap / PerSender / MaxLast,
\* switches defective submissions (C22), producer-list queries (C23) and the node-rig action set (NodeRig) on
SPECIFICATION Spec
CONSTANTS
  Ent = {1, 2, 3, 4, 5, 6, 7, 8, 9}
  Tab <- TabU9
  Senders <- SendersABX
  Defects <- NoDefects
  Cap = 3
  PerSender = 2
  MaxLast = 2
  MaxH = 3
  MaxNow = 2
  MaxBlk = 2
  LevelFee = FALSE
  TierAt = 2
  MaxRm = 2
  QueryOn = FALSE
  NodeRig = FALSE
  SubW = 1
  MaxOps = 0
  EmitOn = TRUE
CHECK_DEADLOCK FALSE
