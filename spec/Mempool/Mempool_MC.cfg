SPECIFICATION Spec
CONSTANTS
  Ent = {1, 2, 3, 4, 5, 6}
  Tab <- TabU6
  Senders <- SendersABX
  Cap = 3
  PerSender = 2
  MaxLast = 2
  MaxH = 2
  MaxNow = 2
  MaxBlk = 2
  LevelFee = TRUE
  TierAt = 2
  Defects <- AllDefects
  MaxRm = 1
  QueryOn = FALSE
  NodeRig = FALSE
  SubW = 1
  MaxOps = 0
  EmitOn = FALSE
VIEW view
INVARIANTS TypeOK NoDup CapOK PerSenderOK IndexAgree LatestOK C23OK
PROPERTIES BlockGone RejectKeeps
CHECK_DEADLOCK FALSE
