\* thorough-tier exhaustive configuration; families/mempool.py writes the same text with the invariants of the property under check
SPECIFICATION Spec
CONSTANTS
  Ent = {1, 2, 3, 4, 5, 6}
  Tab <- TabU6
  Senders <- SendersABX
  Defects <- AllDefects
  Cap = 3
  PerSender = 2
  MaxLast = 2
  MaxH = 2
  MaxNow = 2
  MaxBlk = 2
  LevelFee = TRUE
  TierAt = 2
  MaxRm = 1
  QueryOn = FALSE
  NodeRig = FALSE
  SubW = 1
  MaxOps = 0
  EmitOn = FALSE
VIEW view
INVARIANTS TypeOK NoDup CapOK PerSenderOK IndexAgree LatestOK C23OK
PROPERTIES BlockGone RejectKeeps
CHECK_DEADLOCK FALSE
