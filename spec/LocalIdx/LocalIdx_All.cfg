\* every history of 2 block events (add, replace, remove) over 2 addresses, blocks of <= 2 transactions
SPECIFICATION ASpec
CONSTANTS
  NA = 2
  Pool <- PoolQ
  Groups <- GroupsQ
  MaxTx = 2
  MaxEv = 2
  MaxSwap = 1
  Para = TRUE
  EmitOn = TRUE
INVARIANT Export
CHECK_DEADLOCK FALSE
