---------------------------- MODULE LocalIdx_Trace ----------------------------
(* Trace specification (binding B): random blocks (more addresses, longer      *)
(* blocks than TLC enumerates) added to a real node, replaced by real          *)
(* reorganisations and removed; the query results recorded after every event   *)
(* must be those of the index of the chain, and the fresh-node comparison      *)
(* ("undo") and the by-hash lookups recorded by the harness must be clean.     *)
EXTENDS LocalIdx, TraceLib

VARIABLE l
tvars == <<vars, l>>

Ev == Trace[l]
IsEvent(e) == l <= Len(Trace) /\ Ev.ev = e /\ l' = l + 1

TInit == /\ l = 1 /\ chain = <<>> /\ pend = <<>> /\ idx = Empty /\ nev = 0 /\ act = ""

TReset == /\ IsEvent("Reset")
          /\ chain' = <<>> /\ pend' = <<>> /\ idx' = Empty /\ nev' = 0 /\ act' = act

Obs == LET c == Chk(idx', chain') IN
       /\ Ev.rows = c.rows /\ Ev.totfee = c.totfee /\ Ev.totn = c.totn
       /\ Ev.ntx = c.ntx /\ Ev.len = c.len /\ Ev.undo = "same" /\ Ev.lookup = "ok"

TAdd  == /\ IsEvent("Add") /\ AddB(Ev.txs) /\ Obs /\ UNCHANGED <<pend, nev, act>>
TSwap == /\ IsEvent("Swap") /\ Ev.k <= Len(chain) /\ SwapB(Ev.k, Ev.txs) /\ Obs /\ UNCHANGED <<pend, nev, act>>
TDel  == /\ IsEvent("Del") /\ Len(chain) >= 1 /\ DelB /\ Obs /\ UNCHANGED <<pend, nev, act>>

TNext == TReset \/ TAdd \/ TSwap \/ TDel
TSpec == TInit /\ [][TNext]_tvars

Mark == MarkHWM(l - 1)
=============================================================================
