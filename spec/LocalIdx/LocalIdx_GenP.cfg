\* behaviour generation for the para-chain style removal (Del) next to reorganisations
SPECIFICATION Spec
CONSTANTS
  NA = 3
  Pool <- PoolT
  Groups <- GroupsT
  MaxTx = 4
  MaxEv = 5
  MaxSwap = 1
  Para = TRUE
  EmitOn = TRUE
CHECK_DEADLOCK FALSE
