\* thorough exhaustive run: 3 addresses, blocks of <= 2 transactions, 3 block events
SPECIFICATION Spec
CONSTANTS
  NA = 3
  Pool <- PoolM
  Groups <- GroupsT
  MaxTx = 2
  MaxEv = 3
  MaxSwap = 2
  Para = TRUE
  EmitOn = FALSE
VIEW view
INVARIANTS TypeOK Consistent
PROPERTIES AddDelIdentity
CHECK_DEADLOCK FALSE
