\* quick exhaustive run: 2 addresses, blocks of <= 2 transactions, 2 block events
SPECIFICATION Spec
CONSTANTS
  NA = 2
  Pool <- PoolQ
  Groups <- GroupsQ
  MaxTx = 2
  MaxEv = 2
  MaxSwap = 2
  Para = TRUE
  EmitOn = FALSE
VIEW view
INVARIANTS TypeOK Consistent
PROPERTIES AddDelIdentity
CHECK_DEADLOCK FALSE
