\* behaviour generation (simulation): 3 addresses, blocks of <= 5 transactions
SPECIFICATION Spec
CONSTANTS
  NA = 3
  Pool <- PoolT
  Groups <- GroupsT
  MaxTx = 5
  MaxEv = 5
  MaxSwap = 2
  Para = FALSE
  EmitOn = TRUE
CHECK_DEADLOCK FALSE
