------------------------------ MODULE LocalIdx ------------------------------
(***************************************************************************)
(* Property C14: applying a block's local-index updates and then its       *)
(* local-index removal restores every local query result to what it was    *)
(* before the block.                                                       *)
(*                                                                         *)
(* REFERENCE model.  The local index is a function of the chain:           *)
(* IdxOf(chain).  The model also maintains it incrementally, the way the   *)
(* node does (Apply per block in transaction order, Undo per block in      *)
(* reverse transaction order with the inverse operation of every plugin),  *)
(* and TLC checks that the two always agree (Consistent): in particular    *)
(* Undo(Apply(ix, b)) = ix for every generated block, with self-transfers, *)
(* addresses occurring several times as sender and receiver, failed        *)
(* transactions and a group.                                               *)
(*                                                                         *)
(* A transaction descriptor is [k, f, t, a, fee]:                          *)
(*   k = "pay"   coins transfer f -> t of a, succeeds (f = t: refused by   *)
(*               the account layer like a failed transfer)                 *)
(*   k = "fail"  coins transfer f -> t of more than f owns: fee taken,     *)
(*               receipt "packed, not executed"                            *)
(*   k = "none"  transaction of the none executor (t = its address)        *)
(*   k = "mng"   manage transaction of a non-manager (fails; t = the       *)
(*               manage executor's address)                                *)
(*   k = "g1"/"g2" the two members of a transaction group (coins           *)
(*               transfers; the first pays the whole fee)                  *)
(* Queries (per address): transaction count, transaction list in both      *)
(* directions and undirected, coins amount received, fee list; per chain:  *)
(* cumulative fee total and transaction count at the tip; transactions by  *)
(* hash (checked by the harness against the chain: found iff on chain).    *)
(*                                                                         *)
(* Forward semantics are those of the plugins as read from the code where  *)
(* the property does not care (a self-transfer counts twice in the         *)
(* address counter but occupies one undirected list entry); the amount     *)
(* received counts successful transfers only (what the removal subtracts). *)
(* Not compared: raw database bytes (a counter stored as 0 and an absent   *)
(* counter are the same result), the order of rows with equal position.    *)
(***************************************************************************)
EXTENDS Integers, Sequences, FiniteSets, Json, TLC

CONSTANTS NA,        \* funded addresses 1..NA; NA+1 = none executor, NA+2 = manage executor
          Pool,      \* set of single-transaction descriptors the generator may put into a block
          Groups,    \* set of <<f, t>>: a group "f pays t, t pays f"
          MaxTx,     \* transactions per block
          MaxEv,     \* blocks added / swapped / deleted per behaviour
          MaxSwap,   \* deepest reorganisation
          Para,      \* TRUE: the para-chain style removal (no replacing block) is generated too
          EmitOn

VARIABLES chain, pend, idx, nev, act
vars == <<chain, pend, idx, nev, act>>
view == <<chain, pend, idx, nev>>

Addr == 1..(NA + 2)
D(k, f, t, a, fee) == [k |-> k, f |-> f, t |-> t, a |-> a, fee |-> fee]

Empty == [cnt  |-> [x \in Addr |-> 0],
          all  |-> [x \in Addr |-> {}],
          from |-> [x \in Addr |-> {}],
          to   |-> [x \in Addr |-> {}],
          recv |-> [x \in Addr |-> 0],
          fees |-> [x \in Addr |-> {}],
          tot  |-> <<>>]

\* a transfer to oneself is refused by the account layer: fee taken, not executed
Paid(d) == d.k \in {"pay", "g1", "g2"} /\ d.f # d.t
Bump(fn, x, n) == [fn EXCEPT ![x] = @ + n]

\* one transaction at position <<h, i>>: txindex / addrindex / addrfeeindex / coins rows
ApplyTx(ix, d, h, i) ==
  [ix EXCEPT !.cnt  = Bump(Bump(ix.cnt, d.f, 1), d.t, 1),
             !.all  = [@ EXCEPT ![d.f] = @ \cup {<<h, i>>}, ![d.t] = @ \cup {<<h, i>>}],
             !.from = [@ EXCEPT ![d.f] = @ \cup {<<h, i>>}],
             !.to   = [@ EXCEPT ![d.t] = @ \cup {<<h, i>>}],
             !.recv = IF Paid(d) THEN Bump(ix.recv, d.t, d.a) ELSE @,
             !.fees = [@ EXCEPT ![d.f] = @ \cup {<<h, i, d.fee>>}]]
UndoTx(ix, d, h, i) ==
  [ix EXCEPT !.cnt  = Bump(Bump(ix.cnt, d.f, -1), d.t, -1),
             !.all  = [@ EXCEPT ![d.f] = @ \ {<<h, i>>}, ![d.t] = @ \ {<<h, i>>}],
             !.from = [@ EXCEPT ![d.f] = @ \ {<<h, i>>}],
             !.to   = [@ EXCEPT ![d.t] = @ \ {<<h, i>>}],
             !.recv = IF Paid(d) THEN Bump(ix.recv, d.t, 0 - d.a) ELSE @,
             !.fees = [@ EXCEPT ![d.f] = @ \ {<<h, i, d.fee>>}]]

RECURSIVE ApplyFrom(_, _, _, _), UndoFrom(_, _, _, _), SumFee(_, _)
ApplyFrom(ix, b, h, i) == IF i > Len(b) THEN ix ELSE ApplyFrom(ApplyTx(ix, b[i], h, i), b, h, i + 1)
UndoFrom(ix, b, h, i) == IF i < 1 THEN ix ELSE UndoFrom(UndoTx(ix, b[i], h, i), b, h, i - 1)
SumFee(b, i) == IF i > Len(b) THEN 0 ELSE b[i].fee + SumFee(b, i + 1)

\* the fee plugin: cumulative total stored under the block, on top of the parent's total
TipTot(ix) == IF ix.tot = <<>> THEN [fee |-> 0, n |-> 0] ELSE ix.tot[Len(ix.tot)]
ApplyBlock(ix, b, h) ==
  LET p == TipTot(ix) IN
  [ApplyFrom(ix, b, h, 1) EXCEPT !.tot = Append(ix.tot, [fee |-> p.fee + SumFee(b, 1), n |-> p.n + Len(b)])]
UndoBlock(ix, b, h) ==
  [UndoFrom(ix, b, h, Len(b)) EXCEPT !.tot = SubSeq(ix.tot, 1, Len(ix.tot) - 1)]

RECURSIVE IdxOf(_), UndoLast(_, _, _)
IdxOf(ch) == IF ch = <<>> THEN Empty
             ELSE ApplyBlock(IdxOf(SubSeq(ch, 1, Len(ch) - 1)), ch[Len(ch)], Len(ch))
\* remove the last k blocks of ch from ix
UndoLast(ix, ch, k) == IF k = 0 THEN ix
                       ELSE UndoLast(UndoBlock(ix, ch[Len(ch)], Len(ch)), SubSeq(ch, 1, Len(ch) - 1), k - 1)

-----------------------------------------------------------------------------
RECURSIVE FeeSum(_)
FeeSum(S) == IF S = {} THEN 0 ELSE LET e == CHOOSE e \in S : TRUE IN e[3] + FeeSum(S \ {e})
RECURSIVE NTx(_)
NTx(ch) == IF ch = <<>> THEN 0 ELSE Len(ch[Len(ch)]) + NTx(SubSeq(ch, 1, Len(ch) - 1))

\* projection compared with the node's query results (relative to the trunk's baseline)
Row(ix, x) == [cnt |-> ix.cnt[x], all |-> Cardinality(ix.all[x]), from |-> Cardinality(ix.from[x]),
               to |-> Cardinality(ix.to[x]), recv |-> ix.recv[x],
               nfee |-> Cardinality(ix.fees[x]), fee |-> FeeSum(ix.fees[x])]
Chk(ix, ch) == [rows |-> [x \in Addr |-> Row(ix, x)], totfee |-> TipTot(ix).fee, totn |-> TipTot(ix).n,
                ntx |-> NTx(ch), len |-> Len(ch), undo |-> "same", lookup |-> "ok"]

Emit(r) == act' = IF EmitOn THEN ToJson(r) ELSE ""

Init == /\ chain = <<>> /\ pend = <<>> /\ idx = Empty /\ nev = 0
        /\ act = IF EmitOn THEN ToJson([op |-> "Cfg", na |-> NA, para |-> Para]) ELSE ""

Put(d) == /\ nev < MaxEv /\ Len(pend) < MaxTx
          /\ pend' = Append(pend, d)
          /\ UNCHANGED <<chain, idx, nev>>
          /\ Emit([op |-> "Put", txs |-> <<d>>])
PutGroup(g) == /\ nev < MaxEv /\ Len(pend) + 2 <= MaxTx
               /\ LET m == <<D("g1", g[1], g[2], 3, 2), D("g2", g[2], g[1], 1, 0)>>
                  IN /\ pend' = pend \o m
                     /\ Emit([op |-> "Put", txs |-> m])
               /\ UNCHANGED <<chain, idx, nev>>

\* the state change of adding block b / replacing the last k blocks by b / removing the tip
AddB(b) == /\ chain' = Append(chain, b)
           /\ idx' = ApplyBlock(idx, b, Len(chain) + 1)
SwapB(k, b) == LET base == SubSeq(chain, 1, Len(chain) - k) IN
               /\ chain' = Append(base, b)
               /\ idx' = ApplyBlock(UndoLast(idx, chain, k), b, Len(base) + 1)
DelB == /\ chain' = SubSeq(chain, 1, Len(chain) - 1)
        /\ idx' = UndoLast(idx, chain, 1)

Add == /\ nev < MaxEv /\ pend # <<>>
       /\ AddB(pend)
       /\ pend' = <<>> /\ nev' = nev + 1
       /\ Emit([op |-> "Add", ret |-> "ok", chk |-> Chk(idx', chain')])

\* a heavier single block replaces the last k blocks (a real reorganisation)
Swap(k) == /\ nev < MaxEv /\ pend # <<>> /\ k <= Len(chain)
           /\ SwapB(k, pend)
           /\ pend' = <<>> /\ nev' = nev + 1
           /\ Emit([op |-> "Swap", k |-> k, ret |-> "ok", chk |-> Chk(idx', chain')])

\* para-chain style removal of the tip (no replacing block)
Del == /\ Para /\ nev < MaxEv /\ pend = <<>> /\ Len(chain) >= 1
       /\ DelB
       /\ nev' = nev + 1 /\ UNCHANGED pend
       /\ Emit([op |-> "Del", ret |-> "ok", chk |-> Chk(idx', chain')])

Next == \/ \E d \in Pool : Put(d)
        \/ \E g \in Groups : PutGroup(g)
        \/ Add
        \/ \E k \in 1..MaxSwap : Swap(k)
        \/ Del

Spec == Init /\ [][Next]_vars

-----------------------------------------------------------------------------
TypeOK == /\ \A x \in Addr : idx.cnt[x] >= 0 /\ idx.recv[x] >= 0
          /\ Len(idx.tot) = Len(chain)
\* the incrementally maintained index is the index of the chain: removal is the exact inverse
Consistent == idx = IdxOf(chain)
\* the property as an action property: a block applied and removed leaves every query result unchanged
AddDelIdentity == [][\A b \in {pend} : b # <<>> =>
                      UndoBlock(ApplyBlock(idx, b, Len(chain) + 1), b, Len(chain) + 1) = idx]_vars

\* anti-vacuity probes (expected to be violated)
NeverRepeatRemoved == ~(\E x \in 1..NA : idx.cnt[x] >= 3 /\ nev >= 2 /\ Len(chain) = 1)
=============================================================================
