---------------------------- MODULE LocalIdx_All ----------------------------
(* Exhaustive behaviour export: every history of MaxEv block events is       *)
(* printed once as "@@B <json>".                                             *)
EXTENDS LocalIdx_MC
VARIABLE hist
AInit == Init /\ hist = <<act>>
ANext == Next /\ hist' = Append(hist, act')
ASpec == AInit /\ [][ANext]_<<vars, hist>>
Export == (nev = MaxEv) => PrintT(<<"@@B", ToJson(hist)>>)
=============================================================================
