----------------------------- MODULE LocalIdx_MC -----------------------------
(* Descriptor pools for exhaustive checking / behaviour generation.          *)
EXTENDS LocalIdx

\* 2 addresses: self-transfer, both directions, a failed transfer, a none and a manage transaction
PoolQ == {D("pay", 1, 1, 2, 1), D("pay", 1, 2, 1, 1), D("pay", 2, 1, 3, 1), D("fail", 1, 2, 5, 1),
          D("none", 2, NA + 1, 0, 1), D("mng", 1, NA + 2, 0, 1)}
GroupsQ == {<<1, 2>>}
\* 3 addresses
PoolT == {D("pay", 1, 1, 2, 1), D("pay", 1, 2, 1, 1), D("pay", 2, 1, 3, 1), D("pay", 2, 3, 2, 1), D("pay", 3, 1, 4, 1),
          D("pay", 3, 3, 1, 1), D("fail", 1, 2, 5, 1), D("fail", 2, 2, 5, 1), D("fail", 3, 1, 6, 1),
          D("none", 1, NA + 1, 0, 1), D("none", 2, NA + 1, 0, 1), D("mng", 1, NA + 2, 0, 1), D("mng", 3, NA + 2, 0, 1)}
\* a smaller pool for the exhaustive run over 3 addresses
PoolM == {D("pay", 1, 1, 2, 1), D("pay", 1, 2, 1, 1), D("pay", 2, 3, 2, 1), D("pay", 3, 1, 4, 1),
          D("fail", 1, 2, 5, 1), D("fail", 3, 3, 6, 1), D("none", 2, NA + 1, 0, 1), D("mng", 3, NA + 2, 0, 1)}
GroupsT == {<<1, 2>>, <<2, 3>>, <<3, 1>>}
=============================================================================
