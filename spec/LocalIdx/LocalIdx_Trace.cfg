SPECIFICATION TSpec
CONSTANTS
  NA = 4
  Pool = {}
  Groups = {}
  MaxTx = 100
  MaxEv = 1000000
  MaxSwap = 2
  Para = TRUE
  EmitOn = FALSE
INVARIANTS Mark TypeOK Consistent
POSTCONDITION TraceDone
CHECK_DEADLOCK FALSE
