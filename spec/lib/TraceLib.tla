------------------------------ MODULE TraceLib ------------------------------
(* Common plumbing for trace specifications (binding B): the recorded ndjson  *)
(* trace, a high-water mark of matched events kept in a TLC register (works   *)
(* with silent steps and branching; needs -workers 1), and the acceptance     *)
(* postcondition.  The matched prefix length is printed as "@@HWM n".         *)
EXTENDS Naturals, Sequences, TLC, Json

Trace == ndJsonDeserialize("trace.ndjson")

HWMReg == 7
ASSUME TLCSet(HWMReg, 0)
MarkHWM(n) == TLCSet(HWMReg, IF n > TLCGet(HWMReg) THEN n ELSE TLCGet(HWMReg))
TraceDone == /\ PrintT(<<"@@HWM", TLCGet(HWMReg)>>)
             /\ TLCGet(HWMReg) = Len(Trace)

Has(r, f) == f \in DOMAIN r
SeqToSet(s) == {s[i] : i \in 1..Len(s)}
=============================================================================
