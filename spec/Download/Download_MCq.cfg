SPECIFICATION Spec
CONSTANTS
  NPs = {2, 3}
  NHs = {2}
  Kinds = {"ok", "refuse"}
  MaxRetry = 5
  Limit = 0
  FixRemove = TRUE
  FixHeight = TRUE
  FixDeadline = TRUE
  Perms = FALSE
  EmitOn = FALSE
VIEW view
INVARIANTS TypeOK AllServed NoReask
CHECK_DEADLOCK TRUE
