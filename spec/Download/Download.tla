------------------------------ MODULE Download ------------------------------
(***************************************************************************)
(* Mechanism model of chain33's block download task                        *)
(*   system/p2p/dht/protocol/download/{handler,download,task}.go           *)
(* Property C35.                                                           *)
(*                                                                         *)
(* handleEventDownloadBlock builds ONE job list (initJob) and starts one   *)
(* goroutine per height; the list is passed by value, i.e. every worker    *)
(* gets its own slice header (length) over the SAME backing array `arr`,   *)
(* and the taskInfo objects (fields Index, TaskNum) are shared too.        *)
(* downloadBlock(h): Sort; loop { Size()=0 -> fail; retry bound -> fail;   *)
(* availbTask (first peer whose height suffices and that is below its      *)
(* concurrency limit; sets Index, TaskNum++) -> nil: sleep, loop;          *)
(* request; on error releaseJob, Remove(task), loop; on success send       *)
(* EventSyncBlock to blockchain, releaseJob, return }.                     *)
(* After wg.Wait, checkTask re-downloads every failed height sequentially  *)
(* with a fresh job list (new taskInfo objects); its errors are dropped.   *)
(*                                                                         *)
(* Code variants (constants, TRUE = the code as it is now in /repo):       *)
(*   FixRemove   Remove locates the task by identity and builds a new      *)
(*               slice (FALSE: removes position task.Index by shifting     *)
(*               the shared backing array)                                 *)
(*   FixHeight   a reply carrying a block of another height is an error    *)
(*               (FALSE: it is forwarded to blockchain as a success)       *)
(*   FixDeadline the request deadline also bounds reading the reply        *)
(*               (FALSE: a peer that never answers blocks the worker)      *)
(*                                                                         *)
(* Peers are numbered by latency rank (Sort is a stable sort by rank);     *)
(* arr0 is the order of the pid list of the request.                       *)
(* A peer p "lacks" height h iff h > ph[p] (PeerInfoManager.PeerHeight is   *)
(* one number per peer, so lacking is upward closed).                      *)
(*                                                                         *)
(* Deliberately not modelled / compared: cancellation of the protocol      *)
(* context, duplicate or undecodable pids, peer heights changing during a  *)
(* task, which of several usable peers is preferred (that is part of the   *)
(* mechanism, cross-checked as model fidelity, never a verdict), block     *)
(* contents beyond the height.                                             *)
(***************************************************************************)
EXTENDS Integers, Sequences, FiniteSets, Json, TLC

CONSTANTS NPs,         \* set of peer counts explored
          NHs,         \* set of height counts explored
          Kinds,       \* behaviours drawn at Init: subset of {"ok","refuse","stall","malformed","wrong"}
          MaxRetry,    \* retry bound of downloadBlock (50 in the code)
          Limit,       \* 0: the code's limit clamp(128 \div len, 20, 50); n > 0: that constant (explores "busy")
          FixRemove, FixHeight, FixDeadline,
          Perms,       \* TRUE: the request's pid order ranges over all permutations
          EmitOn

VARIABLES np, nh, ph, beh, arr0,        \* configuration (constant after Init)
          arr, len, priv, lst,          \* shared backing array; per worker: slice length / private list
          idx, num,                     \* shared per-peer taskInfo.Index (0-based) and TaskNum
          pc, cur, retry, blk,          \* per worker
          phase, ncfg, failedH, redone, \* "setup" | "main" | "re" | "end"; peers configured; reDownload map; heights re-downloaded
          delivered,                    \* heights of the blocks sent to blockchain (0: a wrong-height block)
          fa, faTask, reask, reaskTask, \* failed <<peer,height>> per pass / per task; re-asks per pass / per task
          act

cfgv  == <<np, nh, ph, beh, arr0>>
mech  == <<arr, len, priv, lst, idx, num, pc, cur, retry, blk, phase, ncfg, failedH, redone>>
obs   == <<delivered, fa, faTask, reask, reaskTask>>
vars  == <<cfgv, mech, obs, act>>
view  == <<cfgv, mech, obs>>

Min(S) == CHOOSE x \in S : \A y \in S : x <= y
Range(s) == {s[i] : i \in 1..Len(s)}
PermsOf(n) == {f \in [1..n -> 1..n] : \A i, j \in 1..n : i # j => f[i] # f[j]}

\* ascending sort of a sequence of ranks (equal elements are the same peer)
Sorted(s) ==
  [i \in 1..Len(s) |->
     CHOOSE v \in Range(s) :
        LET less == Cardinality({j \in 1..Len(s) : s[j] < v})
            eq   == Cardinality({j \in 1..Len(s) : s[j] = v})
        IN less < i /\ i <= less + eq]

Without(s, p) == SelectSeq(s, LAMBDA x : x # p)

Beh(p, h) == IF h > ph[p] THEN "lacks" ELSE beh[p][h]

\* what a request to p for h ends with
Outcome(p, h) ==
  LET k == Beh(p, h) IN
  CASE k = "ok"                      -> "ok"
    [] k = "stall" /\ ~FixDeadline   -> "hang"
    [] k = "wrong" /\ ~FixHeight     -> "wrongok"
    [] OTHER                         -> "fail"

LimitOf(n) == IF Limit > 0 THEN Limit
              ELSE LET q == 128 \div n IN IF q < 20 THEN 20 ELSE IF q > 50 THEN 50 ELSE q

View(w) == IF priv[w] THEN lst[w] ELSE SubSeq(arr, 1, len[w])

Active(w) == pc[w] \in {"sort", "pick", "ask", "got_ok", "got_fail", "remove"}

Emit(r) == act' = IF EmitOn THEN ToJson(r) ELSE ""

\* the mechanism state a worker step leaves behind (compared with the hook's view of the real lists)
Exp(w) == [at |-> pc[w], cur |-> cur[w], view |-> View(w), idx |-> idx, num |-> num, retry |-> retry[w]]

-----------------------------------------------------------------------------
\* per-peer configurations: <<peer height k, behaviours for heights 1..m (irrelevant above k: "ok")>>
PeerCfgs(m) == UNION {{<<k, [h \in 1..m |-> IF h <= k THEN f[h] ELSE "ok"]>> : f \in [1..k -> Kinds]} : k \in 0..m}

\* The configuration is drawn peer by peer (phase "setup") so that neither TLC's initial-state
\* enumeration nor a simulation step has to build the whole configuration space at once.
Init ==
  \E n \in NPs, m \in NHs :
    /\ np = n /\ nh = m
    /\ ph = [p \in 1..n |-> 0]
    /\ beh = [p \in 1..n |-> [h \in 1..m |-> "ok"]]
    /\ arr0 = [i \in 1..n |-> i]
    /\ arr = [i \in 1..n |-> i]
    /\ len = [w \in 1..m |-> n]
    /\ priv = [w \in 1..m |-> FALSE]
    /\ lst = [w \in 1..m |-> <<>>]
    /\ idx = [p \in 1..n |-> 0]
    /\ num = [p \in 1..n |-> 0]
    /\ pc = [w \in 1..m |-> "idle"]
    /\ cur = [w \in 1..m |-> 0]
    /\ retry = [w \in 1..m |-> 0]
    /\ blk = [w \in 1..m |-> 0]
    /\ phase = "setup" /\ ncfg = 0 /\ failedH = {} /\ redone = {}
    /\ delivered = {} /\ fa = {} /\ faTask = {} /\ reask = {} /\ reaskTask = {}
    /\ act = IF EmitOn THEN ToJson([op |-> "Init"]) ELSE ""

SetupPeer ==
  /\ phase = "setup" /\ ncfg < np
  /\ \E c \in PeerCfgs(nh) :
       /\ ph' = [ph EXCEPT ![ncfg + 1] = c[1]]
       /\ beh' = [beh EXCEPT ![ncfg + 1] = c[2]]
  /\ ncfg' = ncfg + 1
  /\ UNCHANGED <<np, nh, arr0, arr, len, priv, lst, idx, num, pc, cur, retry, blk, phase, failedH, redone, obs>>
  /\ Emit([op |-> "Setup"])

\* the request arrives: pid order arr0, one worker per height
Start ==
  /\ phase = "setup" /\ ncfg = np
  /\ \E a0 \in (IF Perms THEN PermsOf(np) ELSE {[i \in 1..np |-> i]}) :
       /\ arr0' = a0 /\ arr' = a0
       /\ Emit([op |-> "Start", np |-> np, nh |-> nh, ph |-> ph,
                 beh |-> [p \in 1..np |-> [h \in 1..nh |-> Beh(p, h)]], arr0 |-> a0, ret |-> "-"])
  /\ pc' = [w \in 1..nh |-> "sort"]
  /\ phase' = "main"
  /\ UNCHANGED <<np, nh, ph, beh, ncfg, len, priv, lst, idx, num, cur, retry, blk, failedH, redone, obs>>

-----------------------------------------------------------------------------
\* tasks.Sort(): in place on the worker's slice of the backing array
Sort(w) ==
  /\ pc[w] = "sort"
  /\ arr' = IF priv[w] THEN arr
            ELSE Sorted(SubSeq(arr, 1, len[w])) \o SubSeq(arr, len[w] + 1, Len(arr))
  /\ lst' = IF priv[w] THEN [lst EXCEPT ![w] = Sorted(@)] ELSE lst
  /\ pc' = [pc EXCEPT ![w] = "pick"]
  /\ UNCHANGED <<cfgv, len, priv, idx, num, cur, retry, blk, phase, ncfg, failedH, redone, obs>>
  /\ Emit([op |-> "Sort", w |-> w, exp |-> Exp(w)'])

FailPc == IF phase = "main" THEN "failed" ELSE "dropped"

\* loop head: Size()==0, retry bound, availbTask
Pick(w) ==
  /\ pc[w] = "pick"
  /\ LET v == View(w) IN
     IF Len(v) = 0
     THEN /\ pc' = [pc EXCEPT ![w] = FailPc]
          /\ UNCHANGED <<retry, idx, num, cur>>
     ELSE /\ retry' = [retry EXCEPT ![w] = @ + 1]
          /\ IF retry[w] + 1 > MaxRetry
             THEN /\ pc' = [pc EXCEPT ![w] = FailPc]
                  /\ UNCHANGED <<idx, num, cur>>
             ELSE LET cand == {i \in 1..Len(v) : Beh(v[i], w) # "lacks" /\ num[v[i]] < LimitOf(Len(v))} IN
                  IF cand = {}
                  THEN UNCHANGED <<pc, idx, num, cur>>            \* nil: sleep 400ms, retry
                  ELSE LET i == Min(cand)
                           p == v[i] IN
                       /\ num' = [num EXCEPT ![p] = @ + 1]
                       /\ idx' = [idx EXCEPT ![p] = i - 1]
                       /\ cur' = [cur EXCEPT ![w] = p]
                       /\ pc' = [pc EXCEPT ![w] = "ask"]
  /\ UNCHANGED <<cfgv, arr, len, priv, lst, blk, phase, ncfg, failedH, redone, obs>>
  /\ Emit([op |-> "Pick", w |-> w, exp |-> Exp(w)'])

\* the request/response round trip with the picked peer
Ask(w) ==
  /\ pc[w] = "ask"
  /\ LET p == cur[w]
         o == Outcome(p, w) IN
     /\ o # "hang"                                  \* no deadline: the worker waits forever
     /\ reask' = IF <<p, w>> \in fa THEN reask \cup {<<p, w>>} ELSE reask
     /\ reaskTask' = IF <<p, w>> \in faTask THEN reaskTask \cup {<<p, w>>} ELSE reaskTask
     /\ fa' = IF o = "fail" THEN fa \cup {<<p, w>>} ELSE fa
     /\ faTask' = IF o = "fail" THEN faTask \cup {<<p, w>>} ELSE faTask
     /\ pc' = [pc EXCEPT ![w] = IF o = "fail" THEN "got_fail" ELSE "got_ok"]
     /\ blk' = [blk EXCEPT ![w] = IF o = "ok" THEN w ELSE 0]
     /\ UNCHANGED <<cfgv, arr, len, priv, lst, idx, num, cur, retry, phase, ncfg, failedH, redone, delivered>>
     /\ Emit([op |-> "Ask", w |-> w, p |-> p, kind |-> Beh(p, w), exp |-> Exp(w)'])

Dec(n) == IF n > 0 THEN n - 1 ELSE 0

\* success: EventSyncBlock to blockchain, releaseJob, return nil
Deliver(w) ==
  /\ pc[w] = "got_ok"
  /\ delivered' = delivered \cup {blk[w]}
  /\ num' = [num EXCEPT ![cur[w]] = Dec(@)]
  /\ pc' = [pc EXCEPT ![w] = "done"]
  /\ UNCHANGED <<cfgv, arr, len, priv, lst, idx, cur, retry, blk, phase, ncfg, failedH, redone, fa, faTask, reask, reaskTask>>
  /\ Emit([op |-> "Deliver", w |-> w, exp |-> Exp(w)'])

\* failure: releaseJob
Release(w) ==
  /\ pc[w] = "got_fail"
  /\ num' = [num EXCEPT ![cur[w]] = Dec(@)]
  /\ pc' = [pc EXCEPT ![w] = "remove"]
  /\ UNCHANGED <<cfgv, arr, len, priv, lst, idx, cur, retry, blk, phase, ncfg, failedH, redone, obs>>
  /\ Emit([op |-> "Release", w |-> w, exp |-> Exp(w)'])

\* tasks = tasks.Remove(task)
Remove(w) ==
  /\ pc[w] = "remove"
  /\ LET p == cur[w]
         i == idx[p]          \* 0-based, shared: may have been set by another worker
         L == len[w] IN
     IF FixRemove
     THEN /\ lst' = [lst EXCEPT ![w] = Without(View(w), p)]
          /\ priv' = [priv EXCEPT ![w] = TRUE]
          /\ UNCHANGED <<arr, len>>
     ELSE /\ IF i + 1 > L
             THEN UNCHANGED <<arr, len>>
             ELSE /\ arr' = [k \in 1..Len(arr) |-> IF k >= i + 1 /\ k < L THEN arr[k + 1] ELSE arr[k]]
                  /\ len' = [len EXCEPT ![w] = L - 1]
          /\ UNCHANGED <<lst, priv>>
  /\ pc' = [pc EXCEPT ![w] = "pick"]
  /\ UNCHANGED <<cfgv, idx, num, cur, retry, blk, phase, ncfg, failedH, redone, obs>>
  /\ Emit([op |-> "Remove", w |-> w, exp |-> Exp(w)'])

\* wg.Wait() returns: the failed heights are the keys of reDownload
Waited ==
  /\ phase = "main"
  /\ \A w \in 1..nh : pc[w] \in {"done", "failed"}
  /\ phase' = "re"
  /\ failedH' = {w \in 1..nh : pc[w] = "failed"}
  /\ UNCHANGED <<cfgv, ncfg, arr, len, priv, lst, idx, num, pc, cur, retry, blk, redone, obs>>
  /\ Emit([op |-> "Waited", failed |-> {w \in 1..nh : pc[w] = "failed"}])

\* checkTask: next failed height (map order), fresh job list and taskInfo objects, sequential
Recheck(h) ==
  /\ phase = "re"
  /\ h \in failedH \ redone
  /\ \A w \in 1..nh : ~Active(w)
  /\ redone' = redone \cup {h}
  /\ arr' = arr0
  /\ len' = [len EXCEPT ![h] = np]
  /\ priv' = [priv EXCEPT ![h] = FALSE]
  /\ lst' = [lst EXCEPT ![h] = <<>>]
  /\ idx' = [p \in 1..np |-> 0]
  /\ num' = [p \in 1..np |-> 0]
  /\ pc' = [pc EXCEPT ![h] = "sort"]
  /\ cur' = [cur EXCEPT ![h] = 0]
  /\ retry' = [retry EXCEPT ![h] = 0]
  /\ fa' = {x \in fa : x[2] # h}                 \* a new pass starts a new NoReask scope
  /\ UNCHANGED <<cfgv, ncfg, blk, phase, failedH, delivered, faTask, reask, reaskTask>>
  /\ Emit([op |-> "Recheck", w |-> h])

TaskDone ==
  /\ phase = "re"
  /\ failedH \subseteq redone
  /\ \A w \in 1..nh : ~Active(w)
  /\ phase' = "end"
  /\ UNCHANGED <<cfgv, ncfg, arr, len, priv, lst, idx, num, pc, cur, retry, blk, failedH, redone, obs>>
  /\ Emit([op |-> "TaskDone",
           ret |-> [done |-> TRUE, missing |-> <<>>, reasked |-> <<>>],
           exp |-> [delivered |-> delivered, reaskTask |-> Cardinality(reaskTask),
                    dropped |-> {w \in 1..nh : pc[w] = "dropped"}]])

Step(w) == Sort(w) \/ Pick(w) \/ Ask(w) \/ Deliver(w) \/ Release(w) \/ Remove(w)

\* the finished task stutters, so that TLC's deadlock check reports exactly the states in which
\* an unfinished task cannot move (a worker waiting forever)
Finished == phase = "end" /\ UNCHANGED vars

Next == \/ \E w \in 1..nh : Step(w) \/ Recheck(w)
        \/ SetupPeer \/ Start
        \/ Waited
        \/ TaskDone
        \/ Finished

Spec == Init /\ [][Next]_vars
FairSpec == Spec /\ WF_vars(Next)

-----------------------------------------------------------------------------
\* The property, stated on the model.

Servable(h) == \E p \in 1..np : Beh(p, h) = "ok"

\* every height some given peer serves has reached the blockchain when the task is over
AllServed == phase = "end" => \A h \in 1..nh : Servable(h) => h \in delivered

\* a peer that failed a height is not asked for it again within the same downloadBlock pass
NoReask == reask = {}

\* the stronger reading (never again under the same task id): informational only, see DESIGN C35
NoReaskTask == reaskTask = {}

\* every task terminates (checked under weak fairness of the scheduler)
Terminates == <>(phase = "end")

\* nothing but heights of the range is handed to the blockchain by a finished task
\* (informational: only used to show the wrong-height variant)
OnlyRange == delivered \subseteq 1..nh

TypeOK == /\ np \in NPs /\ nh \in NHs
          /\ \A w \in 1..nh : len[w] \in 0..np /\ retry[w] \in 0..(MaxRetry + 1) /\ cur[w] \in 0..np
          /\ \A p \in 1..np : idx[p] \in 0..(np - 1) /\ num[p] \in 0..nh
          /\ phase \in {"setup", "main", "re", "end"}
          /\ redone \subseteq failedH

\* a stuck state (no step possible) before the end means a worker waits forever
Stuck == phase # "end" /\ ~ENABLED Next
NoStuck == ~Stuck
=============================================================================
