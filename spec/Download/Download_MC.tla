---- MODULE Download_MC ----
EXTENDS Download
====
