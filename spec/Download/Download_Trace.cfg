SPECIFICATION TSpec
CONSTANTS
  NPs = {1, 2, 3, 4}
  NHs = {1, 2, 3, 4, 5, 6, 7, 8}
  Kinds = {"ok"}
  MaxRetry = 50
  Limit = 0
  FixRemove = TRUE
  FixHeight = TRUE
  FixDeadline = TRUE
  Perms = FALSE
  EmitOn = FALSE
INVARIANTS Mark TypeOK AllServed NoReask
POSTCONDITION TraceDone
CHECK_DEADLOCK FALSE
