SPECIFICATION Spec
CONSTANTS
  NPs = {2, 3}
  NHs = {2, 3}
  Kinds = {"ok", "refuse", "stall", "malformed", "wrong"}
  MaxRetry = 50
  Limit = 0
  FixRemove = FALSE
  FixHeight = FALSE
  FixDeadline = FALSE
  Perms = TRUE
  EmitOn = TRUE
CHECK_DEADLOCK FALSE
