SPECIFICATION Spec
CONSTANTS
  NPs = {3}
  NHs = {3}
  Kinds = {"ok", "refuse"}
  MaxRetry = 5
  Limit = 0
  FixRemove = TRUE
  FixHeight = TRUE
  FixDeadline = TRUE
  Perms = FALSE
  EmitOn = FALSE
VIEW view
INVARIANTS TypeOK AllServed NoReask
CHECK_DEADLOCK TRUE
