SPECIFICATION Spec
CONSTANTS
  NPs = {2}
  NHs = {2}
  Kinds = {"ok", "refuse"}
  MaxRetry = 5
  Limit = 0
  FixRemove = FALSE
  FixHeight = TRUE
  FixDeadline = TRUE
  Perms = FALSE
  EmitOn = TRUE
INVARIANTS NoReask
CHECK_DEADLOCK TRUE
