SPECIFICATION FairSpec
CONSTANTS
  NPs = {2}
  NHs = {2}
  Kinds = {"ok", "refuse"}
  MaxRetry = 4
  Limit = 0
  FixRemove = TRUE
  FixHeight = TRUE
  FixDeadline = TRUE
  Perms = FALSE
  EmitOn = FALSE
PROPERTIES Terminates
INVARIANTS TypeOK
CHECK_DEADLOCK FALSE
