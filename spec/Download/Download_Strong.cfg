SPECIFICATION Spec
CONSTANTS
  NPs = {2}
  NHs = {2}
  Kinds = {"ok", "refuse"}
  MaxRetry = 5
  Limit = 0
  FixRemove = TRUE
  FixHeight = TRUE
  FixDeadline = TRUE
  Perms = FALSE
  EmitOn = FALSE
INVARIANTS NoReaskTask
CHECK_DEADLOCK TRUE
