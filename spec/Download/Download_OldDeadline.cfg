SPECIFICATION Spec
CONSTANTS
  NPs = {2}
  NHs = {2}
  Kinds = {"ok", "stall"}
  MaxRetry = 5
  Limit = 0
  FixRemove = TRUE
  FixHeight = TRUE
  FixDeadline = FALSE
  Perms = FALSE
  EmitOn = TRUE
INVARIANTS NoStuck
CHECK_DEADLOCK FALSE
