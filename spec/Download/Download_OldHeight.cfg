SPECIFICATION Spec
CONSTANTS
  NPs = {2}
  NHs = {2}
  Kinds = {"ok", "wrong"}
  MaxRetry = 5
  Limit = 0
  FixRemove = TRUE
  FixHeight = FALSE
  FixDeadline = TRUE
  Perms = FALSE
  EmitOn = TRUE
INVARIANTS AllServed
CHECK_DEADLOCK TRUE
