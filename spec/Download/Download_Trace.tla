--------------------------- MODULE Download_Trace ---------------------------
(* Trace specification (binding B): a recording of the real download task    *)
(* must be a behaviour of Download. Recorded: Reset (configuration),         *)
(* Reply(h,p,ok) at the gate after the peer's reply, Waited, Recheck(h),     *)
(* Deliver(bh) as the fake blockchain consumes a block, Done, Drained(got).  *)
(* Sort, Pick, Release, Remove and the hand-over to the bus (Deliver(w)) are *)
(* silent steps; the blockchain sees a block some time after the hand-over.  *)
(* The event "Stuck" (task did not finish) matches no action.                *)
EXTENDS Download, TraceLib

VARIABLES l, seen
tvars == <<vars, l, seen>>

Ev == Trace[l]
IsEvent(e) == l <= Len(Trace) /\ Ev.ev = e /\ l' = l + 1

TInit ==
  /\ l = 1 /\ seen = {}
  /\ np = 1 /\ nh = 1 /\ ph = <<0>> /\ beh = <<<<"ok">>>> /\ arr0 = <<1>> /\ arr = <<1>>
  /\ len = <<1>> /\ priv = <<FALSE>> /\ lst = <<<<>>>> /\ idx = <<0>> /\ num = <<0>>
  /\ pc = <<"done">> /\ cur = <<0>> /\ retry = <<0>> /\ blk = <<0>>
  /\ phase = "end" /\ ncfg = 1 /\ failedH = {} /\ redone = {}
  /\ delivered = {} /\ fa = {} /\ faTask = {} /\ reask = {} /\ reaskTask = {}
  /\ act = ""

TReset ==
  /\ IsEvent("Reset")
  /\ LET n == Ev.np
         m == Ev.nh IN
     /\ np' = n /\ nh' = m /\ ph' = Ev.ph /\ beh' = Ev.beh /\ arr0' = Ev.arr0 /\ arr' = Ev.arr0
     /\ len' = [w \in 1..m |-> n]
     /\ priv' = [w \in 1..m |-> FALSE]
     /\ lst' = [w \in 1..m |-> <<>>]
     /\ idx' = [p \in 1..n |-> 0]
     /\ num' = [p \in 1..n |-> 0]
     /\ pc' = [w \in 1..m |-> "sort"]
     /\ cur' = [w \in 1..m |-> 0]
     /\ retry' = [w \in 1..m |-> 0]
     /\ blk' = [w \in 1..m |-> 0]
     /\ phase' = "main" /\ ncfg' = n /\ failedH' = {} /\ redone' = {}
     /\ delivered' = {} /\ fa' = {} /\ faTask' = {} /\ reask' = {} /\ reaskTask' = {}
  /\ seen' = {} /\ act' = act

TReply ==
  /\ IsEvent("Reply")
  /\ Ev.h \in 1..nh
  /\ cur[Ev.h] = Ev.p
  /\ Ask(Ev.h)
  /\ pc'[Ev.h] = IF Ev.ok THEN "got_ok" ELSE "got_fail"
  /\ seen' = seen

TWaited  == IsEvent("Waited") /\ Waited /\ seen' = seen
TRecheck == IsEvent("Recheck") /\ Ev.h \in 1..nh /\ Recheck(Ev.h) /\ seen' = seen
TDone    == IsEvent("Done") /\ TaskDone /\ seen' = seen

\* the blockchain consumes a block that was handed to the bus (bh = 0: a block that is not the
\* answer to the request it was delivered for)
TDeliverEv ==
  /\ IsEvent("Deliver")
  /\ Ev.bh \in delivered
  /\ Ev.bh = 0 \/ Ev.bh \notin seen
  /\ seen' = seen \cup {Ev.bh}
  /\ UNCHANGED vars

TDrained ==
  /\ IsEvent("Drained")
  /\ phase = "end"
  /\ seen \ {0} = delivered \ {0}
  /\ SeqToSet(Ev.got) = delivered \ {0}
  /\ UNCHANGED <<vars, seen>>

\* A worker whose remaining peers all lack its height can only spin through availbTask (nil, back-off,
\* retry) until the retry bound fails it; nothing another worker does changes that (peer heights are
\* constant, the list is its own or the shared sorted array). The spin is taken in one silent step:
\* validating it Pick by Pick multiplies the interleavings of several spinning workers by MaxRetry each.
Spinning(w) ==
  /\ pc[w] = "pick"
  /\ Len(View(w)) > 0
  /\ retry[w] + 1 <= MaxRetry
  /\ \A i \in 1..Len(View(w)) : Beh(View(w)[i], w) = "lacks"

SpinOut(w) ==
  /\ Spinning(w)
  /\ retry' = [retry EXCEPT ![w] = MaxRetry + 1]
  /\ pc' = [pc EXCEPT ![w] = FailPc]
  /\ UNCHANGED <<cfgv, arr, len, priv, lst, idx, num, cur, blk, phase, ncfg, failedH, redone, obs, act>>

TSilent == /\ \E w \in 1..nh : \/ Sort(w)
                               \/ (~Spinning(w) /\ Pick(w))
                               \/ SpinOut(w)
                               \/ Deliver(w) \/ Release(w) \/ Remove(w)
           /\ UNCHANGED <<l, seen>>

TNext == TReset \/ TReply \/ TWaited \/ TRecheck \/ TDone \/ TDeliverEv \/ TDrained \/ TSilent
TSpec == TInit /\ [][TNext]_tvars

Mark == MarkHWM(l - 1)
=============================================================================
