SPECIFICATION Spec
CONSTANTS
  NPs = {2}
  NHs = {2}
  Kinds = {"ok", "refuse"}
  MaxRetry = 4
  Limit = 1
  FixRemove = TRUE
  FixHeight = TRUE
  FixDeadline = TRUE
  Perms = FALSE
  EmitOn = FALSE
VIEW view
INVARIANTS TypeOK AllServed NoReask
CHECK_DEADLOCK TRUE
