SPECIFICATION TSpec
CONSTANTS
  Keys = {1,2,3,4,5,6,7,8}
  MaxVer = 8
  MaxOps = 1000000
  EmitOn = FALSE
INVARIANTS Mark TypeOK ReadSound
POSTCONDITION TraceDone
CHECK_DEADLOCK FALSE
