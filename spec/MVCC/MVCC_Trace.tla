---------------------------- MODULE MVCC_Trace ----------------------------
(* Trace specification: every event recorded from the real MVCC helper must *)
(* be a step of MVCC with the recorded reply.                               *)
EXTENDS MVCC, TraceLib

VARIABLE l
tvars == <<vars, l>>

Ev == Trace[l]
IsEvent(e) == l <= Len(Trace) /\ Ev.ev = e /\ l' = l + 1

RetMatches(obs, r) ==
  \/ r[1] = "any"
  \/ /\ Len(obs) = 2 /\ obs[1] = r[1] /\ obs[2] = r[2]

TInit == Init /\ l = 1

TReset == /\ IsEvent("Reset")
          /\ top' = 0 /\ recs' = {} /\ gone' = {} /\ wrote' = <<>> /\ nops' = 0 /\ act' = act

TAdd == /\ IsEvent("AddVersion") /\ Ev.ret = "ok" /\ Ev.ver = top
        /\ AddVersion(SeqToSet(Ev.keys))
TDel == /\ IsEvent("DelTop") /\ Ev.ret = "ok" /\ Ev.ver = top - 1 /\ DelTop
TTrash == /\ IsEvent("Trash") /\ Ev.ret = "ok" /\ Trash(Ev.cut)
TGet == /\ IsEvent("GetV")
        /\ RetMatches(Ev.ret, Read(Ev.key, Ev.ver))
        /\ UNCHANGED vars

TNext == TReset \/ TAdd \/ TDel \/ TTrash \/ TGet
TSpec == TInit /\ [][TNext]_tvars

Mark == MarkHWM(l - 1)
=============================================================================
