------------------------------- MODULE MVCC -------------------------------
(***************************************************************************)
(* Reference model of chain33's multi-version KV helper (common/db/mvcc.go)*)
(* as used by the kvmvcc plugin: versions are added in order (AddMVCC),    *)
(* removed from the top (DelMVCC strict) and old records are collected     *)
(* (Trash).  Property C09.                                                 *)
(*                                                                         *)
(* A record is <<key, version>>; the value written is identified by the    *)
(* record itself (the harness makes values unique per record), so "never   *)
(* another key's value" is part of reply equality.                         *)
(*                                                                         *)
(* recs : records that MUST be readable                                    *)
(* gone : records Trash was allowed to remove (reads landing there are     *)
(*        left open by the property: reply "*")                            *)
(***************************************************************************)
EXTENDS Integers, Sequences, FiniteSets, Json, TLC

CONSTANTS Keys,      \* set of model keys (small integers)
          MaxVer,    \* versions are 0..MaxVer-1
          MaxOps,    \* bound on the number of mutating operations
          EmitOn     \* FALSE in exhaustive runs: the JSON action label is not built

VARIABLES top, recs, gone, wrote, nops, act
vars == <<top, recs, gone, wrote, nops, act>>
view == <<top, recs, gone, wrote, nops>>

Versions == 0..(MaxVer - 1)
MaxOf(S) == CHOOSE x \in S : \A y \in S : y <= x

All == recs \cup gone
Cands(k, u) == {v \in 0..u : <<k, v>> \in All}

\* what GetV(k,u) must answer: <<"val", version of the record>> / <<"none",-1>> / "*" (open)
Read(k, u) ==
  IF Cands(k, u) = {} THEN <<"none", -1>>
  ELSE LET m == MaxOf(Cands(k, u)) IN
       IF <<k, m>> \in recs THEN <<"val", m>> ELSE <<"any", -1>>

\* projection compared after every mutating step: every key at every version
ReadTable == [k \in Keys |-> [i \in 1..MaxVer |-> Read(k, i - 1)]]
ChkJson == [i \in 1..Cardinality(Keys) |->
              LET k == CHOOSE kk \in Keys : Cardinality({x \in Keys : x < kk}) = i - 1 IN
              [j \in 1..MaxVer |-> IF Read(k, j - 1)[1] = "any" THEN "*" ELSE Read(k, j - 1)]]

\* the "last value" view kept by the iterating variant (MVCCIter): newest live record per key
LastJson == [i \in 1..Cardinality(Keys) |->
              LET k == CHOOSE kk \in Keys : Cardinality({x \in Keys : x < kk}) = i - 1 IN
              IF top = 0 THEN <<"none", -1>>
              ELSE IF Read(k, top - 1)[1] = "any" THEN "*" ELSE Read(k, top - 1)]
Chk == [t |-> ChkJson, last |-> LastJson]

Emit(r) == act' = IF EmitOn THEN ToJson(r) ELSE ""

Init == /\ top = 0 /\ recs = {} /\ gone = {} /\ wrote = <<>> /\ nops = 0
        /\ act = IF EmitOn THEN ToJson([op |-> "Init"]) ELSE ""

\* AddMVCC + apply the returned KV list: version `top` writes the keys in ws
AddVersion(ws) ==
  /\ top < MaxVer /\ nops < MaxOps
  /\ LET new == {<<k, top>> : k \in ws} IN
     /\ recs' = recs \cup new
     /\ gone' = gone \ new
  /\ wrote' = Append(wrote, ws)
  /\ top' = top + 1 /\ nops' = nops + 1
  /\ Emit([op |-> "AddVersion", ver |-> top, keys |-> ws, ret |-> "ok", chk |-> Chk'])

\* DelMVCC(strict) of the top version + apply the returned KV list
\* (version 0 is the genesis block's version and is never removed)
DelTop ==
  /\ top > 1 /\ nops < MaxOps
  /\ LET v == top - 1
         old == {<<k, v>> : k \in wrote[top]} IN
     /\ recs' = recs \ old
     /\ gone' = gone \ old
  /\ wrote' = SubSeq(wrote, 1, top - 1)
  /\ top' = top - 1 /\ nops' = nops + 1
  /\ Emit([op |-> "DelTop", ver |-> top - 1, ret |-> "ok", chk |-> Chk'])

\* Trash(c): everything at a version <= c except each key's newest record may go
Newest(k) == MaxOf({v \in Versions : <<k, v>> \in All})
Trash(c) ==
  /\ top > 0 /\ nops < MaxOps /\ c \in 0..(top - 1)
  /\ LET may == {r \in recs : r[2] <= c /\ r[2] # Newest(r[1])} IN
     /\ recs' = recs \ may
     /\ gone' = gone \cup may
  /\ nops' = nops + 1
  /\ UNCHANGED <<top, wrote>>
  /\ Emit([op |-> "Trash", cut |-> c, ret |-> "ok", chk |-> Chk'])

GetV(k, u) ==
  /\ UNCHANGED <<top, recs, gone, wrote, nops>>
  /\ Emit([op |-> "GetV", key |-> k, ver |-> u, ret |-> IF Read(k, u)[1] = "any" THEN "*" ELSE Read(k, u)])

Next == \/ \E ws \in (SUBSET Keys) \ {{}} : AddVersion(ws)
        \/ DelTop
        \/ \E c \in Versions : Trash(c)

Spec == Init /\ [][Next]_vars

-----------------------------------------------------------------------------
\* The property, stated on the model (TLC checks these on every state/step).

\* ground truth from the live versions only
Truth(k, u) == LET S == {v \in 0..u : v < top /\ k \in wrote[v + 1]} IN
               IF S = {} THEN <<"none", -1>> ELSE <<"val", MaxOf(S)>>

TypeOK == /\ top \in 0..MaxVer /\ Len(wrote) = top
          /\ recs \cap gone = {}
          /\ \A r \in All : r[2] < top

\* a constrained read is the most recent live write at or below the version
\* ("none" may also be "*" when the only candidates were collected)
ReadSound == \A k \in Keys, u \in Versions :
               Read(k, u)[1] # "any" => Read(k, u) = Truth(k, u)

\* with no collection ever run every read is constrained
NoTrashExact == gone = {} => \A k \in Keys, u \in Versions : Read(k, u) = Truth(k, u)

\* the newest record of every key and every record above the cut survive a Trash
TrashKeeps == [][\A c \in Versions : Trash(c) =>
                   \A r \in recs : (r[2] > c \/ r[2] = Newest(r[1])) => r \in recs']_vars

\* the property's third sentence as an action property: a collection at cut c leaves
\* every read at or above the key's newest version, and every read that lands on a
\* version above the cut, exactly as it was
TrashReads == [][\A c \in Versions : Trash(c) =>
                   \A k \in Keys, u \in Versions :
                     (Read(k, u)[1] = "val" /\ (Read(k, u)[2] > c \/ Read(k, u)[2] = Newest(k)))
                        => Read(k, u)' = Read(k, u)]_vars

\* removing the top version restores every read (no collection in between is
\* needed: DelTop only removes the top version's own records)
DelRestores == [][DelTop => \A k \in Keys, u \in Versions :
                    (u < top - 1 /\ Read(k, u)[1] # "any") => Read(k, u)' = Read(k, u)]_vars
=============================================================================
