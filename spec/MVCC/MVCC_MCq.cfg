SPECIFICATION Spec
CONSTANTS
  Keys = {1, 2, 3}
  MaxVer = 4
  EmitOn = FALSE
  MaxOps = 6
VIEW view
INVARIANTS TypeOK ReadSound NoTrashExact
PROPERTIES TrashKeeps TrashReads DelRestores
CHECK_DEADLOCK FALSE
