SPECIFICATION ASpec
CONSTANTS
  Keys = {1, 2}
  MaxVer = 3
  MaxOps = 5
  EmitOn = TRUE
INVARIANT Export
CHECK_DEADLOCK FALSE
