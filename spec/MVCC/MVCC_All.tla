----------------------------- MODULE MVCC_All -----------------------------
(* Exhaustive behaviour export (GEN-all): the history of JSON action labels *)
(* is part of the state, so every distinct bounded history is a distinct    *)
(* state; each complete history is printed once as "@@B <json>".            *)
EXTENDS MVCC
VARIABLE hist
AInit == Init /\ hist = <<>>
ANext == Next /\ hist' = Append(hist, act')
ASpec == AInit /\ [][ANext]_<<vars, hist>>
Done == nops = MaxOps
Export == Done => PrintT(<<"@@B", ToJson(hist)>>)
=============================================================================
