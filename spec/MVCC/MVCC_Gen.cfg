SPECIFICATION Spec
CONSTANTS
  Keys = {1, 2, 3, 4}
  MaxVer = 4
  EmitOn = TRUE
  MaxOps = 8
CHECK_DEADLOCK FALSE
