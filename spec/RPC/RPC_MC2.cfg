SPECIFICATION Spec
CONSTANTS
  EmitOn = FALSE
  Mode = "mc"
  IPSets <- IPq
  FnW <- FW3
  FnB <- FBq
  AuthModes <- Au3
  MaxCfgs = 2
  MaxReqs = 0
  EthLegacyAware = TRUE
  StreamGated = FALSE
  GLock = TRUE
  Lvl = 1
VIEW view
INVARIANTS TypeOK MechSoundJ MechSoundG EthSame EthSound RefNonTrivial RefTable
CHECK_DEADLOCK FALSE
