SPECIFICATION Spec
CONSTANTS
  EmitOn = TRUE
  Mode = "sim"
  IPSets <- IP5x2
  FnW <- FWg
  FnB <- FBg
  AuthModes <- Au3
  MaxCfgs = 3
  MaxReqs = 45
  EthLegacyAware = TRUE
  StreamGated = FALSE
  GLock = FALSE
  Lvl = 2
CHECK_DEADLOCK FALSE
