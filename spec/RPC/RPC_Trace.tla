----------------------------- MODULE RPC_Trace -----------------------------
(* Trace specification (binding B): events recorded from the real rpc package *)
(* by the seeded random recorder of harness/drv/rpc/record.go.                *)
(*   Cfg  c           -> InitCfg(c) of the mechanism (keeps `applied`)        *)
(*   Req  jrpc/grpc   -> every handler that ran must be allowed by the        *)
(*                       reference table MayRun                               *)
(*   Req  eth         -> ran => EthMay; in a process with one configuration   *)
(*                       and a non-empty whitelist the Ethereum gate equals   *)
(*                       the observed address admission of both peers         *)
EXTENDS RPC_MC, TraceLib

VARIABLE l
tvars == <<vars, l>>

Ev == Trace[l]
IsEvent(e) == l <= Len(Trace) /\ Ev.ev = e /\ l' = l + 1

CfgOf(c) == [wn |-> SeqToSet(c.wn), wo |-> SeqToSet(c.wo), jw |-> SeqToSet(c.jw), jb |-> SeqToSet(c.jb),
             gw |-> SeqToSet(c.gw), gb |-> SeqToSet(c.gb), au |-> c.au]

TInit == Init /\ l = 1

TReset == /\ IsEvent("Reset")
          /\ ipmap' = {} /\ jwl' = {} /\ jbl' = {} /\ gwl' = {} /\ gbl' = {}
          /\ cur' = NoCfg /\ applied' = {} /\ ncfg' = 0 /\ nreq' = 0 /\ act' = act /\ pend' = pend /\ lastc' = lastc

TCfg == /\ IsEvent("Cfg")
        /\ InitCfg(CfgOf(Ev.c))
        /\ UNCHANGED <<nreq, act, pend, lastc>>

TReqM == /\ IsEvent("Req") /\ Ev.ep \in {"jrpc", "grpc"}
         /\ ncfg > 0
         /\ \A m \in SeqToSet(Ev.ran) : MayRun(Ev.ep, Ev.a, m, Ev.p, applied)
         /\ UNCHANGED vars

TReqE == /\ IsEvent("Req") /\ Ev.ep = "eth"
         /\ ncfg > 0
         /\ Ev.eran => EthMay(Ev.a, applied)
         /\ (ncfg = 1 /\ IPConf(cur) # {}) =>
               /\ Ev.vj = ViaJ /\ Ev.vg = ViaG
               /\ Ev.vj # "" => (Ev.eran <=> Ev.pj)
               /\ Ev.vg # "" => (Ev.eran <=> Ev.pg)
         /\ UNCHANGED vars

TNext == TReset \/ TCfg \/ TReqM \/ TReqE
TSpec == TInit /\ [][TNext]_tvars

Mark == MarkHWM(l - 1)
=============================================================================
