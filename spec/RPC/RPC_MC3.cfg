SPECIFICATION Spec
CONSTANTS
  EmitOn = FALSE
  Mode = "mc"
  IPSets <- IP3
  FnW <- FWq
  FnB <- FB1
  AuthModes <- Au2
  MaxCfgs = 3
  MaxReqs = 0
  EthLegacyAware = TRUE
  StreamGated = FALSE
  GLock = TRUE
  Lvl = 1
VIEW view
INVARIANTS TypeOK MechSoundJ MechSoundG EthSame EthSound RefNonTrivial RefTable
CHECK_DEADLOCK FALSE
