------------------------------ MODULE RPC_All ------------------------------
(* Exhaustive row export (GEN-all): every configuration of the universe and  *)
(* every request row of RPC!NextAll is one behaviour Cfg, Req; the pair of   *)
(* JSON labels is printed once as "@@B <json>" (regrouped per configuration  *)
(* by families/rpc.py: one child process per configuration).                 *)
EXTENDS RPC_MC
VARIABLE hist
AInit == Init /\ hist = <<>>
ANext == Next /\ hist' = IF act' = act THEN hist ELSE Append(hist, act')
ASpec == AInit /\ [][ANext]_<<vars, hist>>
Export == nreq = 1 => PrintT(<<"@@B", ToJson(hist)>>)
=============================================================================
