SPECIFICATION Spec
CONSTANTS
  EmitOn = FALSE
  Mode = "mc"
  IPSets <- IP5x2
  FnW <- FW4x2
  FnB <- FB4x2
  AuthModes <- Au3
  MaxCfgs = 1
  MaxReqs = 0
  EthLegacyAware = TRUE
  StreamGated = FALSE
  GLock = TRUE
  Lvl = 1
VIEW view
INVARIANTS TypeOK MechSoundJ MechSoundG EthSame EthSound RefNonTrivial RefTable
CHECK_DEADLOCK FALSE
