SPECIFICATION Spec
CONSTANTS
  EmitOn = FALSE
  Mode = "mc"
  IPSets <- IPq
  FnW <- FWq
  FnB <- FBq
  AuthModes <- Au2
  MaxCfgs = 1
  MaxReqs = 0
  EthLegacyAware = FALSE
  StreamGated = FALSE
  GLock = TRUE
  Lvl = 1
VIEW view
INVARIANTS EthSame
CHECK_DEADLOCK FALSE
