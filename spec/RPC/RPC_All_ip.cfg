SPECIFICATION ASpec
CONSTANTS
  EmitOn = TRUE
  Mode = "all"
  IPSets <- IP7
  FnW <- FW1
  FnB <- FB1
  AuthModes <- Au1
  MaxCfgs = 1
  MaxReqs = 1
  EthLegacyAware = TRUE
  StreamGated = FALSE
  GLock = TRUE
  Lvl = 2
INVARIANT Export
CHECK_DEADLOCK FALSE
