SPECIFICATION TSpec
CONSTANTS
  EmitOn = FALSE
  Mode = "mc"
  IPSets <- IP4x1
  FnW <- FW2x2
  FnB <- FB2x1
  AuthModes <- Au3
  MaxCfgs = 1000000
  MaxReqs = 0
  EthLegacyAware = TRUE
  StreamGated = FALSE
  GLock = TRUE
  Lvl = 1
INVARIANTS Mark
POSTCONDITION TraceDone
CHECK_DEADLOCK FALSE
