-------------------------------- MODULE RPC --------------------------------
(***************************************************************************)
(* Property C39: RPC access control holds for every request shape.         *)
(*                                                                         *)
(* PART 1 - reference decision table (what the property demands).          *)
(*   MayRun(ep, a, m, p, H): may the handler of method m run for a request *)
(*   arriving at endpoint ep (jrpc / grpc) from client address a carrying   *)
(*   credentials p, in a process whose configuration(s) so far are H.      *)
(*   For one configuration this is the statement verbatim:                 *)
(*       loopback  \/  ( ipOK /\ methodOK /\ authOK )                       *)
(*   The request SHAPE does not occur in it: the verdict holds "for every  *)
(*   request shape"; shapes are an enumerated input dimension only.        *)
(*   The property is an "only if": a row whose verdict is "may run" leaves *)
(*   the outcome open ("*"); a row whose verdict is "deny" must not run.   *)
(*   EthMay / "same": when a non-empty IP whitelist is configured under    *)
(*   either key, the Ethereum RPC admits exactly the addresses the other   *)
(*   two endpoints admit (compared on the real code, differentially).      *)
(*                                                                         *)
(* Meaning of configuration fields (read from rpc/server.go, types/cfg.go):*)
(*   wn / wo   entries under key `whitelist` / legacy key `whitlist`.      *)
(*             "configured whitelist" = union of both keys (loosest        *)
(*             reading: the code gives `whitelist` precedence, which       *)
(*             admits a subset).  "*" anywhere, or the entry 0.0.0.0       *)
(*             (model id "Z", the internal representation of the wildcard) *)
(*             count as wildcard for the upper bound.  EMPTY under both    *)
(*             keys: no address is on the list -> non-loopback is denied   *)
(*             on jrpc/grpc; the Ethereum RPC is left open (statement:     *)
(*             "when a non-empty IP whitelist is configured").             *)
(*   jw / gw   method whitelists; unset = documented default "*".          *)
(*   jb / gb   method blacklists (the code adds CloseQueue when unset:     *)
(*             stricter, allowed by an only-if).                           *)
(*   au        basic auth of the JSON-RPC endpoint (jrpcUserName/Passwd);  *)
(*             gRPC has no credential configuration -> no auth clause.     *)
(*                                                                         *)
(* Deliberately NOT compared: error texts, status codes, reply bodies,     *)
(* whether an admitted request actually runs (liveness; counted as a       *)
(* sanity figure only), behaviour of loopback clients, the Ethereum RPC    *)
(* with an empty whitelist, which of two successive configurations in one  *)
(* process wins (only the union bound is demanded then).                   *)
(*                                                                         *)
(* PART 2 - mechanism model of the code: the process-global ADDITIVE maps  *)
(* of package rpc (remoteIPWhitelist, jrpc/grpcFuncWhitelist/Blacklist)    *)
(* filled by InitCfg, the three gates reading them, the Ethereum server    *)
(* reading its own configuration.  TLC checks that the mechanism satisfies *)
(* PART 1 (MechSound*, EthSame*, also after several InitCfg in one process)*)
(* and generates sequences Cfg, Req, Req, ..., Cfg, Req ... which are      *)
(* replayed into one child process each, so state leaking from one request *)
(* or configuration to the next would show up.  The mechanism's exact      *)
(* prediction is exported as `mx` (model-fidelity figure, never a verdict).*)
(***************************************************************************)
EXTENDS Integers, Sequences, FiniteSets, Json, TLC

CONSTANTS EmitOn,      \* build JSON labels
          Mode,        \* "mc": configurations only; "sim": random generation; "all": row export
          IPSets,      \* universe of IP whitelist values (sets of entries)
          FnW, FnB,    \* universes of method white / black lists (sets of names, "*")
          AuthModes,   \* subset of {"off","on","passonly"}
          MaxCfgs,     \* InitCfg calls per process
          MaxReqs,     \* requests per generated behaviour
          EthLegacyAware, \* TRUE: the Ethereum gate reads both keys like InitIPWhitelist (repaired code)
          StreamGated, \* TRUE: gRPC streaming methods pass through the same gate as unary ones
          GLock,       \* TRUE: gRPC lists derived from the JSON-RPC lists (exhaustive runs)
          Lvl          \* row export level: 1 quick, 2 thorough

Methods  == {"Ping", "Pong", "Version", "CloseQueue"}   \* unary probe / built-in methods
GMethods == Methods \cup {"Watch"}                        \* + a server-streaming gRPC method
Addrs == {"lo4", "lo4b", "lo6", "lo4m",       \* loopback: 127.0.0.1, 127.x.y.z, ::1, ::ffff:127.0.0.1
          "A", "Am", "B", "Bm",               \* IPv4 addresses that may be listed, and their IPv4-mapped IPv6 form
          "An",                               \* a textual neighbour of A (1.2.3.4 -> 1.2.3.40, 11.2.3.4)
          "U4", "U4m", "V6", "U6", "U6z"}      \* never listed v4 / mapped; listable v6; other v6; v6 with zone
Creds == {"none", "good", "badpass", "baduser", "badcase", "goodalt"}
JShapes == {"exact", "nover", "space", "keycase", "esc", "extra", "dupLast", "dupFirst", "dupCase",
            "mlower", "mupper", "mmix", "svc", "nodot", "trail", "batch", "concat", "gzbody", "gzresp",
            "params0", "paramsNull", "params2", "paramsObj", "noparams", "idStr", "idNull", "idNeg",
            "path", "query", "get", "chunked", "ctype", "xff"}
JExact == {"exact", "nover", "space", "keycase", "esc", "extra", "dupLast", "dupCase", "gzresp", "params2",
           "chunked", "ctype", "xff"}   \* shapes both decoders accept: the target method is executed when admitted
GShapes == {"plain", "gzip", "md", "mlower", "svc", "asstream"}
GExact == {"plain", "gzip", "md"}
EShapes == {"post", "batch", "gz", "xff", "ws"}

VARIABLES ipmap, jwl, jbl, gwl, gbl,   \* the process-global maps (sets of keys)
          cur,                          \* configuration of the last InitCfg (rpcCfg pointer; also read by the eth server)
          applied,                      \* set of configurations applied in this process
          ncfg, nreq, act,
          lastc,                        \* generation only: value of nreq at the last Cfg / Restart (spacing)
          pend                          \* exhaustive mode only: the IP part of the next configuration (two-stage choice,
                                        \* so that TLC's workers share the enumeration)
vars == <<ipmap, jwl, jbl, gwl, gbl, cur, applied, ncfg, nreq, act, lastc, pend>>
view == <<ipmap, jwl, jbl, gwl, gbl, cur, applied, ncfg, nreq, lastc, pend>>

NoCfg == [wn |-> {}, wo |-> {}, jw |-> {}, jb |-> {}, gw |-> {}, gb |-> {}, au |-> "none"]

-----------------------------------------------------------------------------
\* PART 1: the reference
IsLoop(a) == a \in {"lo4", "lo4b", "lo6", "lo4m"}
Canon(a) == CASE a \in {"A", "Am"} -> "A"
              [] a \in {"B", "Bm"} -> "B"
              [] a = "V6" -> "V6"
              [] OTHER -> "none"
IPConf(c) == c.wn \cup c.wo
IpOK(a, S) == "*" \in S \/ "Z" \in S \/ Canon(a) \in S
Listed(m, w) == w = {} \/ "*" \in w \/ m \in w
AuthOK(p, au) == au = "off" \/ p \in {"good", "goodalt"}

IpAny(a, H)   == \E c \in H : IpOK(a, IPConf(c))
JMethAny(m, H) == (\E c \in H : Listed(m, c.jw)) /\ (\E c \in H : m \notin c.jb)
GMethAny(m, H) == (\E c \in H : Listed(m, c.gw)) /\ (\E c \in H : m \notin c.gb)
AuthAny(p, H) == \E c \in H : AuthOK(p, c.au)

MayRun(ep, a, m, p, H) ==
  \/ IsLoop(a)
  \/ /\ IpAny(a, H)
     /\ IF ep = "jrpc" THEN JMethAny(m, H) /\ AuthAny(p, H) ELSE GMethAny(m, H)

\* the Ethereum RPC: bounded by the whitelist whenever one is configured
EthMay(a, H) == IsLoop(a) \/ IpAny(a, H) \/ \E c \in H : IPConf(c) = {}

-----------------------------------------------------------------------------
\* PART 2: the mechanism
InitCfg(c) ==
  /\ ipmap' = ipmap \cup (IF c.wn = {} /\ c.wo = {} THEN {"lo"}
                          ELSE IF c.wn = {"*"} \/ c.wo = {"*"} THEN {"Z"}
                          ELSE IF c.wn # {} THEN c.wn ELSE c.wo)
  /\ jwl' = jwl \cup (IF c.jw = {} \/ c.jw = {"*"} THEN {"*"} ELSE c.jw)
  /\ gwl' = gwl \cup (IF c.gw = {} \/ c.gw = {"*"} THEN {"*"} ELSE c.gw)
  /\ jbl' = jbl \cup (IF c.jb = {} THEN {"CloseQueue"} ELSE c.jb)
  /\ gbl' = gbl \cup (IF c.gb = {} THEN {"CloseQueue"} ELSE c.gb)
  /\ cur' = c
  /\ applied' = applied \cup {c}
  /\ ncfg' = ncfg + 1

MechIp(a) == IsLoop(a) \/ "Z" \in ipmap \/ Canon(a) \in ipmap
MechAuth(p) == cur.au = "off" \/ p = "good"          \* "goodalt": left unpredicted by callers
MechJ(a, m, p) == /\ MechIp(a) /\ MechAuth(p)
                  /\ (IsLoop(a) \/ (m \notin jbl /\ ("*" \in jwl \/ m \in jwl)))
MechGUnary(a, m) == MechIp(a) /\ m \notin gbl /\ ("*" \in gwl \/ m \in gwl)
MechG(a, m) == IF m = "Watch" /\ ~StreamGated THEN TRUE ELSE MechGUnary(a, m)
\* the Ethereum server does not use the maps: it reads the configuration it was built with
EthEff(c) == IF EthLegacyAware
             THEN (IF c.wn = {"*"} \/ c.wo = {"*"} THEN {"*"} ELSE IF c.wn # {} THEN c.wn ELSE c.wo)
             ELSE c.wn
MechEth(a) == \/ IsLoop(a)
              \/ EthEff(cur) = {} \/ EthEff(cur) = {"*"}
              \/ "Z" \in EthEff(cur) \/ Canon(a) \in EthEff(cur)

\* a method the jrpc / grpc gate lets through for a whitelisted client (used to observe the
\* address admission of those endpoints next to an Ethereum request); "" if none
ViaJ == LET S == {m \in Methods : m \notin jbl /\ ("*" \in jwl \/ m \in jwl)} IN
        IF "Ping" \in S THEN "Ping" ELSE IF "Pong" \in S THEN "Pong" ELSE IF "Version" \in S THEN "Version"
        ELSE IF "CloseQueue" \in S THEN "CloseQueue" ELSE ""
ViaG == LET S == {m \in Methods : m \notin gbl /\ ("*" \in gwl \/ m \in gwl)} IN
        IF "Pong" \in S THEN "Pong" ELSE IF "Ping" \in S THEN "Ping" ELSE IF "Version" \in S THEN "Version"
        ELSE IF "CloseQueue" \in S THEN "CloseQueue" ELSE ""

-----------------------------------------------------------------------------
\* labels
Emit(r) == act' = IF EmitOn THEN ToJson(r) ELSE ""
V(b) == IF b THEN "*" ELSE "deny"
B3(known, b) == IF ~known THEN "*" ELSE IF b THEN "ran" ELSE "deny"
CfgJson(c) == [wn |-> c.wn, wo |-> c.wo, jw |-> c.jw, jb |-> c.jb, gw |-> c.gw, gb |-> c.gb, au |-> c.au]

\* the verdict map of a JSON-RPC / gRPC request: per method "deny" (must not run) or "*"
RetJ(a, p) == [m \in Methods |-> V(MayRun("jrpc", a, m, p, applied))]
RetG(a)    == [m \in GMethods |-> V(MayRun("grpc", a, m, "none", applied))]

ReqJ(a, m, d, p, sh) ==
  /\ cur # NoCfg
  /\ UNCHANGED <<ipmap, jwl, jbl, gwl, gbl, cur, applied, ncfg, lastc, pend>>
  /\ nreq' = nreq + 1
  /\ Emit([op |-> "Req", ep |-> "jrpc", a |-> a, m |-> m, d |-> d, p |-> p, sh |-> sh,
           mx |-> B3(sh \in JExact /\ p # "goodalt", MechJ(a, m, p)),
           ret |-> RetJ(a, p)])
ReqG(a, m, sh) ==
  /\ cur # NoCfg
  /\ UNCHANGED <<ipmap, jwl, jbl, gwl, gbl, cur, applied, ncfg, lastc, pend>>
  /\ nreq' = nreq + 1
  /\ Emit([op |-> "Req", ep |-> "grpc", a |-> a, m |-> m, sh |-> sh,
           mx |-> B3(sh \in GExact, MechG(a, m)),
           ret |-> RetG(a)])
ReqE(a, sh) ==
  /\ cur # NoCfg
  /\ UNCHANGED <<ipmap, jwl, jbl, gwl, gbl, cur, applied, ncfg, lastc, pend>>
  /\ nreq' = nreq + 1
  /\ LET strict == ncfg = 1 /\ IPConf(cur) # {} IN
     Emit([op |-> "Req", ep |-> "eth", a |-> a, sh |-> sh, vj |-> ViaJ, vg |-> ViaG,
           mx |-> B3(TRUE, MechEth(a)),
           ret |-> [ran |-> V(EthMay(a, applied)),
                    sameJ |-> IF strict /\ ViaJ # "" THEN "yes" ELSE "*",
                    sameG |-> IF strict /\ ViaG # "" THEN "yes" ELSE "*"]])

\* a process restart: every global is back to its initial value (the harness either starts a new
\* child process or, for speed, calls the reset hook of package rpc - both legs are run)
Restart ==
  /\ ncfg > 0
  /\ ipmap' = {} /\ jwl' = {} /\ jbl' = {} /\ gwl' = {} /\ gbl' = {}
  /\ cur' = NoCfg /\ applied' = {} /\ ncfg' = 0
  /\ UNCHANGED <<nreq, pend>> /\ lastc' = nreq
  /\ Emit([op |-> "Restart", ret |-> "ok"])

CfgStep(c) ==
  /\ ncfg < MaxCfgs
  /\ InitCfg(c)
  /\ UNCHANGED nreq /\ lastc' = nreq
  /\ Emit([op |-> "Cfg", c |-> CfgJson(c), ret |-> "ok"])

\* universe of configurations.  GLock couples the gRPC lists to the JSON-RPC lists through a fixed
\* renaming (they stay different, so cross-wired lists would still be noticed) to keep exhaustive runs small;
\* random generation draws all seven fields independently.
ShiftM(x) == CASE x = "Ping" -> "Pong" [] x = "Pong" -> "Version" [] x = "Version" -> "Watch"
               [] x = "Watch" -> "CloseQueue" [] x = "CloseQueue" -> "Ping" [] OTHER -> x
Shift(s) == {ShiftM(x) : x \in s}
CfgU(wn, wo) ==
        IF GLock
        THEN {[wn |-> wn, wo |-> wo, jw |-> r.jw, jb |-> r.jb, gw |-> Shift(r.jw), gb |-> Shift(r.jb), au |-> r.au] :
                 r \in [jw : FnW, jb : FnB, au : AuthModes]}
        ELSE [wn : {wn}, wo : {wo}, jw : FnW, jb : FnB, gw : FnW, gb : FnB, au : AuthModes]
\* (the parameter keeps TLC from evaluating this once and for all as a constant-level definition)
RandCfg(k) == [wn |-> RandomElement(IPSets), wo |-> RandomElement(IPSets), jw |-> RandomElement(FnW),
            jb |-> RandomElement(FnB), gw |-> RandomElement(FnW), gb |-> RandomElement(FnB),
            au |-> RandomElement(AuthModes)]

Init == /\ ipmap = {} /\ jwl = {} /\ jbl = {} /\ gwl = {} /\ gbl = {}
        /\ cur = NoCfg /\ applied = {} /\ ncfg = 0 /\ nreq = 0 /\ lastc = 0 /\ pend = <<>>
        /\ act = IF EmitOn THEN ToJson([op |-> "Init"]) ELSE ""

\* exhaustive over configurations (requests are quantified inside the invariants)
NextMC == \/ /\ pend = <<>> /\ ncfg < MaxCfgs
             /\ \E wn \in IPSets, wo \in IPSets : pend' = <<wn, wo>>
             /\ UNCHANGED <<ipmap, jwl, jbl, gwl, gbl, cur, applied, ncfg, nreq, act, lastc>>
          \/ /\ pend # <<>>
             /\ \E c \in CfgU(pend[1], pend[2]) : CfgStep(c)
             /\ pend' = <<>>

\* random generation: one behaviour = one process
RandReq(i) ==
  LET a == RandomElement(Addrs) IN
  \/ /\ i \in {0, 1}
     /\ LET m == RandomElement(Methods)
            d == RandomElement(Methods \ {m}) IN
        ReqJ(a, m, d, RandomElement(Creds), IF i = 0 THEN RandomElement({"exact", "exact", "keycase", "extra"}) ELSE RandomElement(JShapes))
  \/ /\ i = 2
     /\ ReqG(a, RandomElement(GMethods), RandomElement(GShapes \cup {"plain"}))
  \/ /\ i = 3
     /\ ReqE(a, RandomElement(EShapes))
NextSim == /\ pend' = pend
           /\ \/ /\ (ncfg = 0 \/ nreq >= lastc + 5) /\ CfgStep(RandCfg(nreq + ncfg))
              \/ /\ ncfg > 0 /\ nreq < MaxReqs /\ \E i \in 0..3 : RandReq(i)
              \/ /\ ncfg >= 2 /\ nreq >= lastc + 5 /\ nreq < MaxReqs - 5 /\ Restart

\* row export ("all"): every configuration of the universe, then ONE request row.  Rows enumerated:
\*   JSON-RPC  every address x method x credentials class with the exact shape (quick: bad / missing
\*             credentials from the core addresses only), and
\*             core addresses x every other shape x two target methods with good credentials
\*             (and without credentials from the listed address);
\*   gRPC      every address x method (plain), core addresses x method x every other shape;
\*   Ethereum  every address x every shape.
\* (Lvl = 1, quick tier: the same scheme with fewer core addresses / targets / credentials classes)
AddrCore == IF Lvl = 1 THEN {"A", "Am", "U4"} ELSE {"lo4", "A", "Am", "An", "U4", "U6"}
CredsX == IF Lvl = 1 THEN {"none", "good", "badpass"} ELSE Creds
TargX == IF Lvl = 1 THEN {"Ping"} ELSE {"Ping", "Version"}
CredsS == IF Lvl = 1 THEN {"good"} ELSE {"good", "none"}
GTargX == IF Lvl = 1 THEN {"Ping", "Watch"} ELSE GMethods
NextM(m) == CASE m = "Ping" -> "Pong" [] m = "Pong" -> "Version" [] m = "Version" -> "CloseQueue" [] OTHER -> "Ping"
NextAll == \/ /\ ncfg = 0 /\ NextMC
           \/ /\ ncfg = 1 /\ nreq = 0 /\ pend = <<>>
              /\ \/ \E a \in Addrs, m \in Methods, p \in CredsX :
                       (Lvl = 2 \/ p = "good" \/ a \in AddrCore) /\ ReqJ(a, m, NextM(m), p, "exact")
                 \/ \E a \in AddrCore, sh \in JShapes \ {"exact"}, m \in TargX, p \in CredsS :
                       (p = "good" \/ a = "A") /\ ReqJ(a, m, NextM(m), p, sh)
                 \/ \E a \in Addrs, m \in GMethods : ReqG(a, m, "plain")
                 \/ \E a \in AddrCore, m \in GTargX, sh \in GShapes \ {"plain"} : ReqG(a, m, sh)
                 \/ \E a \in Addrs, sh \in (IF Lvl = 1 THEN {"post", "ws"} ELSE EShapes) : ReqE(a, sh)
                 \/ \E a \in AddrCore, sh \in EShapes : ReqE(a, sh)

Next == IF Mode = "mc" THEN NextMC ELSE IF Mode = "all" THEN NextAll ELSE NextSim
Spec == Init /\ [][Next]_vars

-----------------------------------------------------------------------------
\* What TLC checks.
TypeOK == /\ ncfg \in 0..MaxCfgs /\ (ncfg = 0 <=> cur = NoCfg)
          /\ (ncfg > 0 => cur \in applied)

\* The mechanism never lets a handler run that the reference forbids - for one configuration
\* (the statement) and, with the union reading, after several InitCfg in one process.
MechSoundJ == ncfg > 0 => \A a \in Addrs, m \in Methods, p \in Creds \ {"goodalt"} :
                 MechJ(a, m, p) => MayRun("jrpc", a, m, p, applied)
MechSoundG == ncfg > 0 => \A a \in Addrs, m \in Methods :
                 MechG(a, m) => MayRun("grpc", a, m, "none", applied)
\* the same for the server-streaming method (violated by the mechanism while StreamGated = FALSE:
\* NewGRpcServer installs a unary interceptor only - candidate, reproduced on the real code)
MechSoundStream == ncfg > 0 => \A a \in Addrs :
                 MechG(a, "Watch") => MayRun("grpc", a, "Watch", "none", applied)
\* Second sentence of the property (one configuration per process, non-empty whitelist).
EthSame == (ncfg = 1 /\ IPConf(cur) # {}) => \A a \in Addrs : MechEth(a) <=> MechIp(a)
EthSound == (ncfg = 1 /\ IPConf(cur) # {}) => \A a \in Addrs : MechEth(a) => EthMay(a, applied)
\* Non-vacuity of the table: for one configuration with a non-trivial list some row is denied and some admitted
RefNonTrivial == (ncfg = 1 /\ IPConf(cur) # {} /\ ~\E x \in {"*", "Z"} : x \in IPConf(cur)) =>
                   /\ \E a \in Addrs, m \in Methods : ~MayRun("jrpc", a, m, "good", applied)
                   /\ ~MayRun("grpc", "U4", "Ping", "none", applied)
\* one configuration: the loopback clause and the three conjuncts, spelled out once more independently
RefTable == ncfg = 1 => \A a \in Addrs, m \in Methods, p \in Creds :
   MayRun("jrpc", a, m, p, applied) <=>
      (IsLoop(a) \/ (IpOK(a, cur.wn \cup cur.wo) /\ Listed(m, cur.jw) /\ m \notin cur.jb /\ AuthOK(p, cur.au)))
=============================================================================
