------------------------------ MODULE RPC_MC ------------------------------
EXTENDS RPC
\* universes (sets of sets cannot be written in a .cfg)
Sub(S, n) == {x \in SUBSET S : Cardinality(x) <= n}
IP5x2 == Sub({"*", "Z", "A", "B", "V6"}, 2)
IP3x2 == Sub({"*", "A", "B"}, 2)
IP4x1 == Sub({"*", "Z", "A", "V6"}, 1)
FW4x2 == Sub({"*", "Ping", "Pong", "Version", "CloseQueue"}, 2)
FB4x2 == Sub({"Ping", "Pong", "Version", "CloseQueue"}, 2)
FW2x2 == Sub({"*", "Ping", "Pong"}, 2)
FB2x1 == Sub({"Ping", "Pong", "CloseQueue"}, 1)
FWg   == Sub({"*", "Ping", "Pong", "Version", "CloseQueue", "Watch"}, 2)
FBg   == Sub({"Ping", "Pong", "Version", "CloseQueue", "Watch"}, 2)
\* row export universes
IPq == {{}, {"A"}, {"*"}, {"B"}}
FWq == {{}, {"Ping"}}
FBq == {{}, {"Ping"}}
IP7 == {{}, {"A"}, {"*"}, {"A", "B"}, {"Z"}, {"V6"}, {"*", "A"}}
IP2 == {{}, {"A"}}
FW1 == {{}, {"Ping"}}
FB1 == {{}}
FWt == {{}, {"Ping"}, {"*", "Pong"}, {"Ping", "Version"}}
FBt == {{}, {"Ping"}, {"Pong", "CloseQueue"}}
Au1 == {"off"}
\* multi-configuration universes
IP3 == {{}, {"A"}, {"*"}}
FW3 == {{}, {"Ping"}, {"*"}}
Au3 == {"off", "on", "passonly"}
Au2 == {"off", "on"}
=============================================================================
