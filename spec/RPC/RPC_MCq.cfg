SPECIFICATION Spec
CONSTANTS
  EmitOn = FALSE
  Mode = "mc"
  IPSets <- IP3x2
  FnW <- FW2x2
  FnB <- FB2x1
  AuthModes <- Au2
  MaxCfgs = 1
  MaxReqs = 0
  EthLegacyAware = TRUE
  StreamGated = TRUE
  GLock = TRUE
VIEW view
INVARIANTS TypeOK MechSoundJ MechSoundG EthSame EthSound RefNonTrivial RefTable
CHECK_DEADLOCK FALSE
