SPECIFICATION ASpec
CONSTANTS
  EmitOn = TRUE
  Mode = "all"
  IPSets <- IPq
  FnW <- FWq
  FnB <- FBq
  AuthModes <- Au2
  MaxCfgs = 1
  MaxReqs = 1
  EthLegacyAware = TRUE
  StreamGated = FALSE
  GLock = TRUE
  Lvl = 1
INVARIANT Export
CHECK_DEADLOCK FALSE
