SPECIFICATION ASpec
CONSTANTS
  EmitOn = TRUE
  Mode = "all"
  IPSets <- IP2
  FnW <- FWt
  FnB <- FBt
  AuthModes <- Au3
  MaxCfgs = 1
  MaxReqs = 1
  EthLegacyAware = TRUE
  StreamGated = FALSE
  GLock = TRUE
  Lvl = 2
INVARIANT Export
CHECK_DEADLOCK FALSE
