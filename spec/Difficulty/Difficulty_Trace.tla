-------------------------- MODULE Difficulty_Trace --------------------------
(* Trace specification (binding B) for C20: every reply recorded from the real *)
(* CompactToBig / BigToCompact / CalcWork on seeded random inputs (arbitrary   *)
(* mantissas, not the stratified set) must be the model's.                     *)
EXTENDS Difficulty, TraceLib

VARIABLE l
tvars == <<l>>
Ev == Trace[l]
IsEvent(x) == l <= Len(Trace) /\ Ev.ev = x /\ l' = l + 1

C(x) == <<x[1], x[2], x[3]>>
TInit == l = 1
TReset == IsEvent("Reset")
TRT == /\ IsEvent("RT")
       /\ Len(Ev.ret) = 2
       /\ Ev.ret[1] = Decode(C(Ev.c))
       /\ Ev.ret[2] = Canon(C(Ev.c))
TEnc == /\ IsEvent("Enc")
        /\ Len(Ev.ret) = 2
        /\ LET g == OfBytes(Ev.n) IN
             /\ MagLen(g) < 255
             /\ Ev.ret[1] = Encode(<<FALSE, g[1], g[2]>>)
             /\ Ev.ret[2] = <<FALSE, Trunc(g)[1], Trunc(g)[2]>>
\* ret = sign of work(a) - work(b); constrained for positive targets only
TWork == /\ IsEvent("Work")
         /\ LET ga == DecodeMag(C(Ev.a))  gb == DecodeMag(C(Ev.b)) IN
              (Ev.a[2] = 0 /\ Ev.b[2] = 0 /\ ~IsZeroMag(ga) /\ ~IsZeroMag(gb)) =>
                 /\ LeMag(ga, gb) => Ev.ret >= 0
                 /\ LeMag(gb, ga) => Ev.ret <= 0
TNext == TReset \/ TRT \/ TEnc \/ TWork
TSpec == TInit /\ [][TNext]_tvars
Mark == MarkHWM(l - 1)
=============================================================================
