SPECIFICATION Spec
CONSTANTS
  Mants = {0, 1, 127, 128, 255, 256, 32767, 32768, 65535, 65536, 8388607, 8388606, 4194304, 65280, 8323072, 32512, 1234567, 16711680}
  MantsU = {0, 1, 127, 128, 255, 256, 32767, 32768, 65535, 65536, 8388607, 8388606, 4194304, 65280, 8323072, 32512, 1234567, 16711680}
  EncLens = {0,1,2,3,4,5,6,7,8,9,10,11,12,13,14,15,16,17,18,19,20,21,22,23,24,25,26,27,28,29,30,31,32,33,34,35,36,37,38,39,40,64,128,200,254,255}
  B1 = {1, 127, 128, 255}
  B2 = {0, 128, 255}
  B3 = {0, 127, 255}
  B4 = {0, 1, 255}
  Fill = {0, 255}
  Stride = 8
  ExportOn = FALSE
INVARIANTS CanonIsCanonical CanonKeepsValue CanonIdem CanonFix CanonUnique ZeroIsZero EncTrunc TruncBelow OrderAgrees OrderTotal Export
CHECK_DEADLOCK FALSE
