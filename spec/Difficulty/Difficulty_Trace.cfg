SPECIFICATION TSpec
INVARIANTS Mark
POSTCONDITION TraceDone
CHECK_DEADLOCK FALSE
