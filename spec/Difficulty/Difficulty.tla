----------------------------- MODULE Difficulty -----------------------------
(***************************************************************************)
(* Reference model of the compact ("nBits") difficulty encoding used by    *)
(* chain33 (common/difficulty, the btcd/bitcoind format).  Property C20.   *)
(*                                                                         *)
(* A compact value is <<e, s, m>>: exponent e in 0..255 (bits 31..24),     *)
(* sign s in {0,1} (bit 23), mantissa m in 0..2^23-1 (bits 22..0); TLC's   *)
(* integers are 32-bit, so the 32-bit word is never formed.  It denotes    *)
(*        N = (-1)^s * m * 256^(e-3)      (integer part when e < 3).       *)
(* Big numbers (up to 2^2039) are byte sequences: a magnitude is           *)
(* <<sig, z>> = the bytes of sig (big endian, no leading and no trailing   *)
(* zero byte) followed by z zero bytes; zero is <<<<>>, 0>>.  A signed     *)
(* number is <<neg, sig, z>>.                                              *)
(*                                                                         *)
(*   Decode(c)   the number a compact denotes            (CompactToBig)    *)
(*   Encode(n)   the compact of a number                 (BigToCompact)    *)
(*   Canon(c)  = Encode(Decode(c))                                         *)
(*   Trunc(n)    what the format can hold of n >= 0: its three leading     *)
(*               bytes, or two when the leading byte is >= 0x80 (the       *)
(*               mantissa's sign bit stays clear), lower bytes zero        *)
(*   LeMag       order of magnitudes (length, then lexicographic)          *)
(*                                                                         *)
(* The property, sentence by sentence:                                     *)
(*  1 "decoding and re-encoding yields the canonical compact form":        *)
(*    Canonical is defined independently of Encode (IsCanonical); TLC      *)
(*    checks CanonIsCanonical, CanonKeepsValue, CanonUnique, CanonFix,     *)
(*    CanonIdem; the code must give BigToCompact(CompactToBig(c)) =        *)
(*    Canon(c) (and CompactToBig(c) = Decode(c), the documented formula).  *)
(*  2 "for every non-negative integer, decoding its encoding loses only    *)
(*    the precision beyond the 23-bit mantissa": Decode(Encode(n)) =       *)
(*    Trunc(n) (TLC: EncTrunc, TruncBelow); code: the same equation.       *)
(*  3 "work never increases when the target increases": for POSITIVE       *)
(*    targets in the model's order (TLC: OrderAgrees = the order of        *)
(*    canonical compacts by (e, m) is the order of their values) the       *)
(*    code's CalcWork is non-increasing.                                   *)
(*                                                                         *)
(* Deliberately NOT compared: Encode of negative integers that are not     *)
(* exactly representable (big.Int's shift rounds them away from zero; the  *)
(* property speaks of non-negative integers, and re-encoding a decoded     *)
(* compact is always exact); the work of non-positive targets (CalcWork    *)
(* answers 0 for them: they denote invalid blocks, not targets; the        *)
(* monotonicity clause would be false across zero by design); the VALUE of *)
(* the work (only its order); integers of more than 255 bytes or of 255    *)
(* bytes with a leading byte >= 0x80 (exponent overflow, outside the       *)
(* format's range).                                                        *)
(***************************************************************************)
EXTENDS Integers, Sequences, FiniteSets, TLC

Bytes3(m) == <<m \div 65536, (m \div 256) % 256, m % 256>>

\* index of the first / last non-zero byte of b (Len(b)+1 / 0 when there is none)
RECURSIVE FirstNZ(_, _)
FirstNZ(b, i) == IF i <= Len(b) /\ b[i] = 0 THEN FirstNZ(b, i + 1) ELSE i
RECURSIVE LastNZ(_, _)
LastNZ(b, i) == IF i >= 1 /\ b[i] = 0 THEN LastNZ(b, i - 1) ELSE i

\* magnitude of the byte string b followed by k zero bytes, normalised
Mag(b, k) == LET f == FirstNZ(b, 1)
                 t == LastNZ(b, Len(b))
             IN IF t = 0 THEN <<<<>>, 0>>                  \* all zero
                ELSE <<SubSeq(b, f, t), (Len(b) - t) + k>>
IsZeroMag(g) == g[1] = <<>>
MagLen(g) == Len(g[1]) + g[2]                               \* byte length
MagByte(g, i) == IF i <= Len(g[1]) THEN g[1][i] ELSE 0      \* i-th byte from the top, i in 1..MagLen

\* order of magnitudes: shorter is smaller; equal length: lexicographic (only sig can differ beyond zeros)
RECURSIVE LexLe(_, _, _, _)
LexLe(g1, g2, i, n) == IF i > n THEN TRUE
                       ELSE IF MagByte(g1, i) < MagByte(g2, i) THEN TRUE
                       ELSE IF MagByte(g1, i) > MagByte(g2, i) THEN FALSE
                       ELSE LexLe(g1, g2, i + 1, n)
LeMag(g1, g2) == \/ MagLen(g1) < MagLen(g2)
                 \/ MagLen(g1) = MagLen(g2) /\ LexLe(g1, g2, 1, IF Len(g1[1]) > Len(g2[1]) THEN Len(g1[1]) ELSE Len(g2[1]))

-----------------------------------------------------------------------------
\* CompactToBig: N = (-1)^s * m * 256^(e-3), integer part for e < 3
DecodeMag(c) == LET e == c[1]  m == c[3] IN
  IF e <= 3 THEN Mag(Bytes3(m \div (256 ^ (3 - e))), 0)
  ELSE Mag(Bytes3(m), e - 3)
Decode(c) == LET g == DecodeMag(c) IN <<c[2] = 1 /\ ~IsZeroMag(g), g[1], g[2]>>

\* BigToCompact of the number <<neg, sig, z>> (sign-magnitude; exact whenever the number has
\* at most three significant bytes, which is all this module uses it for on negative numbers)
Encode(n) == LET g == <<n[2], n[3]>>  L == MagLen(g) IN
  IF IsZeroMag(g) THEN <<0, 0, 0>>
  ELSE LET m0 == MagByte(g, 1) * 65536 + (IF L >= 2 THEN MagByte(g, 2) * 256 ELSE 0) + (IF L >= 3 THEN MagByte(g, 3) ELSE 0)
           \* L <= 3: the value shifted left to fill three bytes; L > 3: its three leading bytes
           big == m0 >= 8388608                           \* mantissa sign bit set: shift one byte out
       IN <<IF big THEN L + 1 ELSE L, IF n[1] THEN 1 ELSE 0, IF big THEN m0 \div 256 ELSE m0>>

Canon(c) == Encode(Decode(c))

\* canonical form, defined without Encode: zero is the all-zero word; otherwise the mantissa is
\* normalised (its leading byte is non-zero unless that would set the sign bit) and no set bit is
\* shifted out by a small exponent
IsCanonical(c) == LET e == c[1]  s == c[2]  m == c[3] IN
  \/ c = <<0, 0, 0>>
  \/ /\ m >= 32768 /\ m <= 8388607 /\ e >= 1
        \* (m >= 0x008000: the leading byte may be zero only in front of a byte >= 0x80, which would
        \*  otherwise set the sign bit)
     /\ (e = 1 => m % 65536 = 0)
     /\ (e = 2 => m % 256 = 0)

\* what the format can hold of the non-negative magnitude g
Trunc(g) == LET L == MagLen(g)
                k == IF MagByte(g, 1) >= 128 THEN 2 ELSE 3
            IN IF IsZeroMag(g) THEN g
               ELSE IF L <= k THEN g
               ELSE Mag([i \in 1..k |-> MagByte(g, i)], L - k)

\* magnitude of a full byte string (no leading zero) -- integers are handed over as byte strings
OfBytes(b) == Mag(b, 0)
=============================================================================
