--------------------------- MODULE Difficulty_MC ---------------------------
(* Exhaustive check of the C20 algebra over the stratified domain: every      *)
(* exponent 0..255 x both signs x the mantissa set Mants; non-negative        *)
(* integers of every byte length in EncLens with boundary leading bytes.      *)
(* One TLC state per exponent / byte length e (Stride initial states).        *)
EXTENDS Difficulty, SequencesExt, Json

CONSTANTS Mants,     \* mantissas (boundaries + seeded extras)
          MantsU,    \* subset used for the quadratic checks (uniqueness, order)
          EncLens,   \* byte lengths of the integers
          B1, B2, B3, B4, Fill,   \* leading four bytes and the fill byte of the integers
          Stride, ExportOn

VARIABLE e
vars == <<e>>
Init == e \in 0..(Stride - 1)
Next == e + Stride <= 255 /\ e' = e + Stride
Spec == Init /\ [][Next]_vars

CS(x)  == {<<x, s, m>> : s \in {0, 1}, m \in Mants}
CSU(x) == IF x < 0 \/ x > 255 THEN {} ELSE {<<x, s, m>> : s \in {0, 1}, m \in MantsU}

\* the integers of byte length L as full byte strings (first byte non-zero; 255 bytes: below 2^2039)
Ints(L) == IF L \notin EncLens THEN {}
           ELSE IF L = 0 THEN {<<>>}
           ELSE {[i \in 1..L |-> IF i = 1 THEN t[1] ELSE IF i = 2 THEN t[2] ELSE IF i = 3 THEN t[3] ELSE IF i = 4 THEN t[4] ELSE t[5]] :
                   t \in {u \in B1 \X B2 \X B3 \X B4 \X Fill : L < 255 \/ u[1] < 128}}

CanonIsCanonical == \A c \in CS(e) : IsCanonical(Canon(c))
CanonKeepsValue  == \A c \in CS(e) : Decode(Canon(c)) = Decode(c)
CanonIdem        == \A c \in CS(e) : Canon(Canon(c)) = Canon(c)
CanonFix         == \A c \in CS(e) : IsCanonical(c) => Canon(c) = c
CanonUnique      == \A c \in CSU(e) : IsCanonical(c) =>
                       \A c2 \in CSU(e - 1) \cup CSU(e) \cup CSU(e + 1) :
                          (IsCanonical(c2) /\ Decode(c2) = Decode(c)) => c2 = c
\* a negative zero and every zero mantissa decode to zero
ZeroIsZero       == \A c \in CS(e) : (c[3] = 0 \/ e = 0) => Decode(c) = <<FALSE, <<>>, 0>> /\ Canon(c) = <<0, 0, 0>>

EncTrunc   == \A b \in Ints(e) : LET g == OfBytes(b)  c == Encode(<<FALSE, g[1], g[2]>>) IN
                 /\ IsCanonical(c) /\ c[2] = 0
                 /\ Decode(c) = <<FALSE, Trunc(g)[1], Trunc(g)[2]>>
\* Trunc keeps the byte length and the leading two / three bytes and never exceeds the number
TruncBelow == \A b \in Ints(e) : LET g == OfBytes(b)  t == Trunc(g)  k == IF MagByte(g, 1) >= 128 THEN 2 ELSE 3 IN
                 /\ LeMag(t, g) /\ MagLen(t) = MagLen(g)
                 /\ \A i \in 1..MagLen(g) : MagByte(t, i) = IF i <= k THEN MagByte(g, i) ELSE 0
\* the order of canonical positive compacts by (exponent, mantissa) is the order of their values
PosCanon(x) == {c \in CSU(x) : c[2] = 0 /\ c # <<0, 0, 0>> /\ IsCanonical(c)}
OrderAgrees == \A c1 \in PosCanon(e), c2 \in PosCanon(e) \cup PosCanon(e + 1) :
                 (c1[1] < c2[1] \/ (c1[1] = c2[1] /\ c1[3] <= c2[3])) <=> LeMag(DecodeMag(c1), DecodeMag(c2))
\* LeMag is total and antisymmetric on the decoded values
OrderTotal == \A c1, c2 \in CSU(e) \cup CSU(e + 1) :
                 /\ LeMag(DecodeMag(c1), DecodeMag(c2)) \/ LeMag(DecodeMag(c2), DecodeMag(c1))
                 /\ (LeMag(DecodeMag(c1), DecodeMag(c2)) /\ LeMag(DecodeMag(c2), DecodeMag(c1))) => DecodeMag(c1) = DecodeMag(c2)

-----------------------------------------------------------------------------
\* behaviour export: per exponent / byte length
SetToSeqI(S) == SetToSortSeq(S, LAMBDA a, b : a < b)
NumJson(n) == <<n[1], n[2], n[3]>>
RTStep(c) == [op |-> "RT", c |-> c, ret |-> <<NumJson(Decode(c)), Canon(c)>>]
RTSteps == LET ms == SetToSeqI(Mants) IN
           [i \in 1..(2 * Len(ms)) |-> RTStep(<<e, (i - 1) % 2, ms[(i + 1) \div 2]>>)]
EncStep(b) == LET g == OfBytes(b) IN
              [op |-> "Enc", len |-> Len(b), top |-> SubSeq(b, 1, IF Len(b) < 4 THEN Len(b) ELSE 4),
               fill |-> IF Len(b) >= 5 THEN b[5] ELSE 0,
               ret |-> <<Encode(<<FALSE, g[1], g[2]>>), <<FALSE, Trunc(g)[1], Trunc(g)[2]>>>>]
EncSteps == LET bs == SetToSeq(Ints(e)) IN [i \in 1..Len(bs) |-> EncStep(bs[i])]
\* positive targets of exponents e and e+1 in increasing order of value
Positive(x) == {c \in CSU(x) : c[2] = 0 /\ ~IsZeroMag(DecodeMag(c))}
OrderStep == LET cs == SetToSortSeq(Positive(e) \cup Positive(e + 1),
                                    LAMBDA a, b : LeMag(DecodeMag(a), DecodeMag(b)) /\ (DecodeMag(a) # DecodeMag(b) \/ a[1] <= b[1])) IN
             [op |-> "Order", cs |-> cs, ret |-> "nonincreasing"]
Steps == RTSteps \o EncSteps \o (IF Positive(e) \cup Positive(e + 1) = {} THEN <<>> ELSE <<OrderStep>>)
Export == ExportOn => PrintT(<<"@@B", ToJson(Steps)>>)
=============================================================================
