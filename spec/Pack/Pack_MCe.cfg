SPECIFICATION Spec
CONSTANTS
  MaxLen = 7
  CapC = 40
  Eps = 2
  Heights = {5}
  ForkH = 8
  LimitH = 5
  Lim0 = 3
  Lim1 = 4
  Ns = {1, 2, 3, 4}
  Classes = {"s"}
  MaxBig = 0
  MaxBl = 0
  MaxEx = 2
  MaxGrp = 3
  Pres = {0}
  Bls = {FALSE}
  Exs = {TRUE, FALSE}
  Ops = {"Expire"}
  EmitOn = FALSE
VIEW view
INVARIANTS TypeOK CountSizeGroupOrder SkipIsRemoval Greedy ExpireInv
CHECK_DEADLOCK FALSE
