SPECIFICATION Spec
CONSTANTS
  MaxLen = 4
  CapC = 40
  Eps = 2
  Heights = {4, 5, 7, 8}
  ForkH = 5
  LimitH = 8
  Lim0 = 3
  Lim1 = 4
  Ns = {1, 2, 3, 4}
  Classes = {"s", "h", "n", "o"}
  MaxBig = 2
  MaxBl = 1
  MaxEx = 0
  MaxGrp = 2
  Pres = {0, 1}
  Bls = {TRUE, FALSE}
  Exs = {FALSE}
  Ops = {"Pack"}
  EmitOn = FALSE
VIEW view
INVARIANTS TypeOK CountSizeGroupOrder SkipIsRemoval Greedy ExpireInv
CHECK_DEADLOCK FALSE
