SPECIFICATION Spec
CONSTANTS
  MaxLen = 7
  CapC = 40
  Eps = 2
  Heights = {4, 5, 7, 8, 9}
  ForkH = 5
  LimitH = 8
  Lim0 = 3
  Lim1 = 4
  Ns = {1, 2, 3, 4}
  Classes = {"s", "h", "n", "o"}
  MaxBig = 3
  MaxBl = 3
  MaxEx = 3
  MaxGrp = 4
  Pres = {0, 1}
  Bls = {TRUE, FALSE}
  Exs = {TRUE, FALSE}
  Ops = {"Pack", "Expire"}
  EmitOn = TRUE
CHECK_DEADLOCK FALSE
