SPECIFICATION TSpec
CONSTANTS
  MaxLen = 64
  CapC = 40
  Eps = 2
  Heights = {0}
  ForkH = 30
  LimitH = 20
  Lim0 = 7
  Lim1 = 12
  Ns = {1}
  Classes = {"s"}
  MaxBig = 0
  MaxBl = 0
  MaxEx = 0
  MaxGrp = 0
  Pres = {0}
  Bls = {FALSE}
  Exs = {FALSE}
  Ops = {}
  EmitOn = FALSE
INVARIANTS Mark CountSizeGroupOrder SkipIsRemoval Greedy ExpireInv
POSTCONDITION TraceDone
CHECK_DEADLOCK FALSE
