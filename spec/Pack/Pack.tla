-------------------------------- MODULE Pack --------------------------------
(***************************************************************************)
(* Reference model of block assembly from pool output, property C30        *)
(* (system/consensus/base.go AddTxsToBlock / CheckTxExpire).               *)
(*                                                                         *)
(* An offered ITEM is what the pool hands out: a single transaction (n=1)  *)
(* or a whole group (n=2..4).  [n, sz, c, bl, ex]: number of member         *)
(* transactions, total size in abstract units (the harness gives every     *)
(* item exactly sz*u bytes), a size-class label, "some member touches a    *)
(* blacklisted account", "some member is expired".                         *)
(*                                                                         *)
(* Pack = fold over the offered list with count/size accumulators:         *)
(*   - an item touching a blacklisted account is skipped once the rule is  *)
(*     active (it uses no count/size budget),                              *)
(*   - an item that fits (count <= per-height limit, size <= cap) is taken *)
(*     whole,                                                              *)
(*   - at the first item that does not fit the property leaves the choice  *)
(*     open: the packer may stop (what base.go does) or skip it and go on. *)
(*     Both selections are computed (sel = stop, alt = skip-and-continue); *)
(*     the real block must be one of them.                                 *)
(* Expire = drop every item that has an expired member, whole; keep the    *)
(* rest in order.                                                          *)
(*                                                                         *)
(* The property, as invariants over the flattened block (sequence of       *)
(* <<item, member>>): CountOK, SizeOK, GroupsWhole, OrderKept, NoBlacklisted*)
(* after Pack; NoExpired, GroupsWhole, OrderKept, KeepsLive after Expire.  *)
(*                                                                         *)
(* Deliberately NOT compared: which policy (stop / skip) the code follows  *)
(* after the first overflow; the value returned by AddTxsToBlock; anything *)
(* about signatures, fees, duplicates (other properties).                  *)
(***************************************************************************)
EXTENDS Integers, Sequences, FiniteSets, Json, TLC

CONSTANTS MaxLen,     \* offered lists have 1..MaxLen items
          CapC,       \* size budget of the packer in units (MaxBlockSize - reserve - what the block already holds)
          Eps,        \* "bound - eps" class is CapC - Eps units
          Heights,    \* heights explored
          ForkH,      \* account-blacklist rule active at heights >= ForkH
          LimitH, Lim0, Lim1,   \* per-height tx-count limit: Lim0 below LimitH, Lim1 from LimitH on
          Ns,         \* member counts explored (subset of 1..4)
          Classes,    \* size classes explored (subset of {"s","h","n","o"})
          MaxBig, MaxBl, MaxEx, MaxGrp,   \* budgets bounding the enumeration
          Pres,       \* numbers of transactions already in the block (e.g. {0,1})
          Bls, Exs,   \* flag values explored (subsets of BOOLEAN)
          Ops,        \* which operations are generated: subset of {"Pack", "Expire"}
          EmitOn

VARIABLES items, h, pre, cap, phase, sel, alt, kept, act
vars == <<items, h, pre, cap, phase, sel, alt, kept, act>>
view == <<items, h, pre, cap, phase, sel, alt, kept>>

MaxTxAt(x) == IF x < LimitH THEN Lim0 ELSE Lim1
Active(x) == x >= ForkH

Units(n, c) == CASE c = "s" -> n            \* every member one unit
                 [] c = "h" -> CapC \div 2
                 [] c = "n" -> CapC - Eps
                 [] c = "o" -> CapC + 1
Mk(n, c, b, e) == [n |-> n, sz |-> Units(n, c), c |-> c, bl |-> b, ex |-> e]
Templates == {Mk(n, c, b, e) : n \in Ns, c \in Classes, b \in Bls, e \in Exs}

-----------------------------------------------------------------------------
\* The fold.  its: offered items; mt: count limit; cp: size cap; ac: rule active;
\* p0: transactions already in the block; pol: "stop" / "skip".
RECURSIVE Fold(_, _, _, _, _, _, _, _, _)
Fold(its, k, cnt, size, acc, mt, cp, ac, pol) ==
  IF k > Len(its) THEN acc
  ELSE LET it == its[k] IN
    IF ac /\ it.bl THEN Fold(its, k + 1, cnt, size, acc, mt, cp, ac, pol)
    ELSE IF cnt + it.n > mt \/ size + it.sz > cp
         THEN IF pol = "stop" THEN acc
              ELSE Fold(its, k + 1, cnt, size, acc, mt, cp, ac, pol)
         ELSE Fold(its, k + 1, cnt + it.n, size + it.sz, Append(acc, k), mt, cp, ac, pol)

PackSel(its, p0, mt, cp, ac, pol) == Fold(its, 1, p0, 0, <<>>, mt, cp, ac, pol)

RECURSIVE Live(_, _, _)
Live(its, k, acc) == IF k > Len(its) THEN acc
                     ELSE Live(its, k + 1, IF its[k].ex THEN acc ELSE Append(acc, k))
ExpireSel(its) == Live(its, 1, <<>>)

\* flattened block: sequence of <<item, member>>
RECURSIVE Flat(_, _, _)
Flat(its, s, i) == IF i > Len(s) THEN <<>>
                   ELSE [j \in 1..its[s[i]].n |-> <<s[i], j>>] \o Flat(its, s, i + 1)
Block(its, s) == Flat(its, s, 1)

-----------------------------------------------------------------------------
\* The property, stated on a flattened block b (also evaluated by Pack_Trace on
\* blocks recorded from the real code).
RECURSIVE SumSz(_, _, _)
SumSz(its, b, i) == IF i > Len(b) THEN 0
                    ELSE (IF b[i][2] = 1 THEN its[b[i][1]].sz ELSE 0) + SumSz(its, b, i + 1)

CountOKb(b, p0, mt) == p0 + Len(b) <= mt
SizeOKb(its, b, cp) == SumSz(its, b, 1) <= cp
WholeB(its, b) ==
  \A i \in 1..Len(b) :
    LET k == b[i][1]  j == b[i][2] IN
      /\ k \in 1..Len(its) /\ j \in 1..its[k].n
      /\ (j = 1 \/ (i > 1 /\ b[i - 1] = <<k, j - 1>>))
      /\ (j = its[k].n \/ (i < Len(b) /\ b[i + 1] = <<k, j + 1>>))
Lt(x, y) == x[1] < y[1] \/ (x[1] = y[1] /\ x[2] < y[2])
OrderB(b) == \A i \in 1..Len(b) : \A j \in 1..Len(b) : i < j => Lt(b[i], b[j])
NoBlB(its, b, ac) == ac => \A i \in 1..Len(b) : ~its[b[i][1]].bl
NoExB(its, b) == \A i \in 1..Len(b) : ~its[b[i][1]].ex
AllowedB(its, b, p0, mt, cp, ac) ==
  \/ b = Block(its, PackSel(its, p0, mt, cp, ac, "stop"))
  \/ b = Block(its, PackSel(its, p0, mt, cp, ac, "skip"))

-----------------------------------------------------------------------------
Emit(r) == act' = IF EmitOn THEN ToJson(r) ELSE ""

NBig(s) == Cardinality({i \in 1..Len(s) : s[i].c # "s"})
NBl(s) == Cardinality({i \in 1..Len(s) : s[i].bl})
NEx(s) == Cardinality({i \in 1..Len(s) : s[i].ex})
NGrp(s) == Cardinality({i \in 1..Len(s) : s[i].n > 1})

Init == /\ items = <<>> /\ h \in Heights /\ pre \in Pres /\ cap = CapC /\ phase = "build"
        /\ sel = <<>> /\ alt = <<>> /\ kept = <<>>
        /\ act = IF EmitOn THEN ToJson([op |-> "Init"]) ELSE ""

Offer(t) ==
  /\ phase = "build" /\ Len(items) < MaxLen
  /\ LET s == Append(items, t) IN
     /\ NBig(s) <= MaxBig /\ NBl(s) <= MaxBl /\ NEx(s) <= MaxEx /\ NGrp(s) <= MaxGrp
     /\ items' = s
  /\ UNCHANGED <<h, pre, cap, phase, sel, alt, kept>>
  /\ Emit([op |-> "Offer", item |-> t])

AllTrue == [count |-> TRUE, size |-> TRUE, whole |-> TRUE, order |-> TRUE, nobl |-> TRUE, allowed |-> TRUE]

Pack ==
  /\ "Pack" \in Ops /\ phase = "build" /\ Len(items) >= 1
  /\ LET s1 == PackSel(items, pre, MaxTxAt(h), cap, Active(h), "stop")
         s2 == PackSel(items, pre, MaxTxAt(h), cap, Active(h), "skip") IN
     /\ sel' = s1 /\ alt' = s2
     /\ Emit([op |-> "Pack", h |-> h, pre |-> pre, maxtx |-> MaxTxAt(h), active |-> Active(h),
              cap |-> cap, forkh |-> ForkH, limith |-> LimitH, lim0 |-> Lim0, lim1 |-> Lim1,
              items |-> items, allowed |-> <<s1, s2>>,
              open |-> s1 # s2,
              ret |-> [sel |-> IF s1 = s2 THEN s1 ELSE "*"],
              chk |-> AllTrue])
  /\ phase' = "packed"
  /\ UNCHANGED <<items, h, pre, cap, kept>>

Expire ==
  /\ "Expire" \in Ops /\ phase = "build" /\ Len(items) >= 1
  /\ kept' = ExpireSel(items)
  /\ Emit([op |-> "Expire", h |-> h, items |-> items,
           ret |-> [kept |-> ExpireSel(items)],
           chk |-> [whole |-> TRUE, order |-> TRUE, noexp |-> TRUE]])
  /\ phase' = "expired"
  /\ UNCHANGED <<items, h, pre, cap, sel, alt>>

Next == (\E t \in Templates : Offer(t)) \/ Pack \/ Expire
Spec == Init /\ [][Next]_vars

-----------------------------------------------------------------------------
TypeOK == /\ Len(items) <= MaxLen /\ phase \in {"build", "packed", "expired"}
          /\ h \in Heights /\ pre \in Pres /\ cap = CapC

Packed == phase = "packed"
PackInv(s) == LET b == Block(items, s) IN
              /\ CountOKb(b, pre, MaxTxAt(h))
              /\ SizeOKb(items, b, cap)
              /\ WholeB(items, b) /\ OrderB(b)
              /\ NoBlB(items, b, Active(h))

\* the four clauses of the first sentence hold for both admissible policies
CountSizeGroupOrder == Packed => PackInv(sel) /\ PackInv(alt)

\* a blacklisted item is skipped, not a reason to stop: the result equals the
\* result on the list with the blacklisted items removed (indices mapped back)
RECURSIVE Clean(_, _, _)
Clean(its, k, acc) == IF k > Len(its) THEN acc
                      ELSE Clean(its, k + 1, IF its[k].bl THEN acc ELSE Append(acc, k))
SkipIsRemoval ==
  (Packed /\ Active(h)) =>
    LET idx == Clean(items, 1, <<>>)
        sub == [i \in 1..Len(idx) |-> items[idx[i]]]
        r == PackSel(sub, pre, MaxTxAt(h), cap, FALSE, "stop") IN
      sel = [i \in 1..Len(r) |-> idx[r[i]]]

\* nothing that fits is left out before the first overflow; before the fork the
\* blacklist flag is irrelevant
Greedy == Packed =>
  \A k \in 1..Len(items) :
    (\A m \in 1..Len(sel) : sel[m] # k) =>
       \/ (Active(h) /\ items[k].bl)
       \/ \E k2 \in 1..k : \* an overflow at or before k
            LET before == SelectSeq(sel, LAMBDA x : x < k2)
                cnt == pre + Len(Block(items, before))
                sz == SumSz(items, Block(items, before), 1) IN
              /\ ~(Active(h) /\ items[k2].bl)
              /\ (cnt + items[k2].n > MaxTxAt(h) \/ sz + items[k2].sz > cap)

ExpireInv == phase = "expired" =>
  LET b == Block(items, kept) IN
    /\ NoExB(items, b) /\ WholeB(items, b) /\ OrderB(b)
    /\ \A k \in 1..Len(items) : ~items[k].ex => \E m \in 1..Len(kept) : kept[m] = k
=============================================================================
