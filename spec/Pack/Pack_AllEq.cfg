SPECIFICATION ASpec
CONSTANTS
  MaxLen = 4
  CapC = 40
  Eps = 2
  Heights = {5}
  ForkH = 8
  LimitH = 5
  Lim0 = 3
  Lim1 = 4
  Ns = {1, 2, 3}
  Classes = {"s"}
  MaxBig = 0
  MaxBl = 0
  MaxEx = 2
  MaxGrp = 2
  Pres = {0}
  Bls = {FALSE}
  Exs = {TRUE, FALSE}
  Ops = {"Expire"}
  EmitOn = TRUE
INVARIANT Export
CHECK_DEADLOCK FALSE
