----------------------------- MODULE Pack_All -----------------------------
(* Exhaustive row export (GEN-all): every bounded offered list, height and   *)
(* pre-filled count is a distinct state; the Pack / Expire step of each row  *)
(* is printed once as "@@B <json>" (the Offer steps are implied by `items`). *)
EXTENDS Pack
VARIABLE hist
AInit == Init /\ hist = <<>>
ANext == Next /\ hist' = IF phase' # "build" THEN <<act'>> ELSE <<>>
ASpec == AInit /\ [][ANext]_<<vars, hist>>
Done == phase # "build"
Export == Done => PrintT(<<"@@B", ToJson(hist)>>)
=============================================================================
