---------------------------- MODULE Pack_Trace ----------------------------
(* Trace specification (code -> spec): rows recorded from the real         *)
(* BaseClient.AddTxsToBlock / CheckTxExpire under a seeded random driver    *)
(* (10-24 items, arbitrary byte sizes, real per-height limit and fork flag  *)
(* read from the node configuration).  Every recorded block must satisfy    *)
(* the clauses of the property and be one of the two selections the model   *)
(* admits; the family invariants are evaluated on every accepted row.       *)
EXTENDS Pack, TraceLib

VARIABLE l
tvars == <<vars, l>>

Ev == Trace[l]
IsEvent(e) == l <= Len(Trace) /\ Ev.ev = e /\ l' = l + 1

TInit == /\ items = <<>> /\ h = 0 /\ pre = 0 /\ cap = 0 /\ phase = "build"
         /\ sel = <<>> /\ alt = <<>> /\ kept = <<>> /\ act = "" /\ l = 1

TReset == /\ IsEvent("Reset")
          /\ items' = <<>> /\ h' = 0 /\ pre' = 0 /\ cap' = 0 /\ phase' = "build"
          /\ sel' = <<>> /\ alt' = <<>> /\ kept' = <<>> /\ act' = act

TPack ==
  /\ IsEvent("Pack")
  /\ Ev.maxtx = MaxTxAt(Ev.h)              \* the node's per-height limit is the configured one
  /\ Ev.active = Active(Ev.h)              \* and so is the fork gate
  /\ LET its == Ev.items  b == Ev.blk IN
     /\ CountOKb(b, Ev.pre, Ev.maxtx)
     /\ SizeOKb(its, b, Ev.cap)
     /\ Ev.blocksize <= Ev.hard
     /\ WholeB(its, b) /\ OrderB(b)
     /\ NoBlB(its, b, Ev.active)
     /\ AllowedB(its, b, Ev.pre, Ev.maxtx, Ev.cap, Ev.active)
     /\ items' = its /\ h' = Ev.h /\ pre' = Ev.pre /\ cap' = Ev.cap
     /\ sel' = PackSel(its, Ev.pre, Ev.maxtx, Ev.cap, Ev.active, "stop")
     /\ alt' = PackSel(its, Ev.pre, Ev.maxtx, Ev.cap, Ev.active, "skip")
  /\ phase' = "packed" /\ kept' = <<>> /\ act' = act

TExpire ==
  /\ IsEvent("Expire")
  /\ LET its == Ev.items  b == Ev.blk IN
     /\ b = Block(its, ExpireSel(its))
     /\ items' = its /\ h' = Ev.h /\ kept' = ExpireSel(its)
  /\ pre' = 0 /\ cap' = 0 /\ phase' = "expired" /\ sel' = <<>> /\ alt' = <<>> /\ act' = act

TNext == TReset \/ TPack \/ TExpire
TSpec == TInit /\ [][TNext]_tvars

Mark == MarkHWM(l - 1)
=============================================================================
