---- MODULE Pack_MC ----
EXTENDS Pack
====
