SPECIFICATION ASpec
CONSTANTS
  MaxLen = 4
  CapC = 40
  Eps = 2
  Heights = {4, 5, 7, 8}
  ForkH = 8
  LimitH = 5
  Lim0 = 3
  Lim1 = 4
  Ns = {1, 3}
  Classes = {"s", "n", "o"}
  MaxBig = 1
  MaxBl = 1
  MaxEx = 0
  MaxGrp = 1
  Pres = {0, 1}
  Bls = {TRUE, FALSE}
  Exs = {FALSE}
  Ops = {"Pack"}
  EmitOn = TRUE
INVARIANT Export
CHECK_DEADLOCK FALSE
