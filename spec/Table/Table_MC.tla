---- MODULE Table_MC ----
EXTENDS Table
\* function-/set-valued constants cannot be written in a .cfg
PreloadAll == SUBSET PKs
PreloadOne == {{}, {1}}
====
