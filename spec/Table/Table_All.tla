----------------------------- MODULE Table_All -----------------------------
(* Exhaustive behaviour export (GEN-all): the history of JSON action labels *)
(* is part of the state, so every distinct bounded history is a distinct    *)
(* state; each complete history (ending with the last Save) is printed once *)
(* as "@@B <json>".                                                         *)
EXTENDS Table
VARIABLE hist
PreloadOne == {{}, {1}}
PreloadAll == SUBSET PKs
AInit == Init /\ hist = <<act>>
ANext == Next /\ hist' = Append(hist, act')
ASpec == AInit /\ [][ANext]_<<vars, hist>>
Done == nsaves = MaxSaves
Export == Done => PrintT(<<"@@B", ToJson(hist)>>)
=============================================================================
