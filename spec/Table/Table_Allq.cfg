SPECIFICATION ASpec
CONSTANTS
  PKs = {1}
  Vals = {0, 1}
  Pays = {0}
  MaxOps = 3
  MaxSaves = 1
  Preload <- PreloadOne
  EmitOn = TRUE
INVARIANT Export
CHECK_DEADLOCK FALSE
