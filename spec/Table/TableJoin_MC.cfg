SPECIFICATION Spec
CONSTANTS
  LPKs = {1, 2}
  RPKs = {1, 2}
  Addrs = {0, 1}
  Stats = {0, 1}
  MaxOps = 3
  MaxSaves = 2
  FixFk = FALSE
  NoDelMix = FALSE
  Single = FALSE
  EmitOn = FALSE
VIEW view
INVARIANTS TypeOK JoinExact AnchorsListed
PROPERTIES SaveIntegrity
CHECK_DEADLOCK FALSE
