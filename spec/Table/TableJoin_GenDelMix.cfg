SPECIFICATION Spec
CONSTANTS
  LPKs = {1, 2}
  RPKs = {1, 2}
  Addrs = {0, 1}
  Stats = {0, 1}
  MaxOps = 5
  MaxSaves = 4
  FixFk = TRUE
  NoDelMix = FALSE
  Single = TRUE
  EmitOn = TRUE
CHECK_DEADLOCK FALSE
