SPECIFICATION Spec
CONSTANTS
  PKs = {1, 2}
  Vals = {0, 1}
  Pays = {0}
  MaxOps = 3
  MaxSaves = 2
  Preload <- PreloadAll
  EmitOn = FALSE
VIEW view
INVARIANTS TypeOK JournalAgrees PresenceAgrees Saved IndexExact
PROPERTIES AddIffAbsent UpdDelIffPresent Frame
CHECK_DEADLOCK FALSE
