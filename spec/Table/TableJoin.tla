----------------------------- MODULE TableJoin -----------------------------
(***************************************************************************)
(* Reference model of a JoinTable (common/db/table/join.go) over two real  *)
(* tables: property C10, clause "joined tables".                           *)
(*                                                                         *)
(*   left  table: lpk -> <<fk, a>>   (fk = primary key of a right row,     *)
(*                                    a = the left half of the join index) *)
(*   right table: rpk -> <<st>>      (st = the right half)                 *)
(*   join index "a#st": lists the left rows l with L[l].a = a whose right  *)
(*   row R[L[l].fk] is present with st; join index "#st" likewise on st.   *)
(*                                                                         *)
(* Calls go to the two member tables (Add/Replace/Update/Del with the      *)
(* replies of Table.tla); JoinTable.Save writes all three.  A Save is only *)
(* taken when every present left row references a present right row        *)
(* (referential integrity at Save time; transient dangling references      *)
(* inside a window are allowed): the code refuses to save otherwise and    *)
(* the property says nothing about that.                                   *)
(*                                                                         *)
(* Anchors (never touched): right rows 100+s = <<s>> for every s, left     *)
(* rows 100+10a+s = <<100+s, a>> for every (a, s): every join index value  *)
(* has a legitimate member, so a stale join entry is observable.           *)
(***************************************************************************)
EXTENDS Integers, Sequences, FiniteSets, Json, TLC

CONSTANTS LPKs, RPKs, Addrs, Stats, MaxOps, MaxSaves, EmitOn,
          FixFk,    \* TRUE: a saved left row is never given another fk
          NoDelMix, \* TRUE: no window both deletes a saved left row and writes the right row it referenced
                    \* (two situations in which join.go is known to corrupt its index: see families/table.py)
          Single    \* TRUE: at most one successful call per row and window (join.go also mis-handles a right
                    \* row that is deleted and re-added inside one window)

VARIABLES L, R, nops, nsaves, act,
          Ls,        \* the left map as of the last Save
          touchedR,  \* right keys successfully written in this window
          touchedL,  \* left keys successfully written in this window
          delL       \* left keys successfully deleted in this window
vars == <<L, R, nops, nsaves, act, Ls, touchedR, touchedL, delL>>
view == <<L, R, nops, nsaves, Ls, touchedR, touchedL, delL>>

LNone == <<-1, -1>>
RNone == <<-1>>
LRows == RPKs \X Addrs
RRows == {<<s>> : s \in Stats}
RAnch == {100 + s : s \in Stats}
LAnch == {100 + 10 * a + s : a \in Addrs, s \in Stats}
AllL == LPKs \cup LAnch
AllR == RPKs \cup RAnch

LRow(m, l) == IF l \in LAnch THEN <<100 + ((l - 100) % 10), (l - 100) \div 10>> ELSE m[l]
RRow(m, r) == IF r \in RAnch THEN <<r - 100>> ELSE IF r \in RPKs THEN m[r] ELSE RNone
PresL(m) == {l \in AllL : LRow(m, l) # LNone}
Integrity(ml, mr) == \A l \in PresL(ml) : RRow(mr, LRow(ml, l)[1]) # RNone
JoinAS(ml, mr, a, s) == {l \in PresL(ml) : LRow(ml, l)[2] = a /\ RRow(mr, LRow(ml, l)[1]) = <<s>>}
JoinS(ml, mr, s) == {l \in PresL(ml) : RRow(mr, LRow(ml, l)[1]) = <<s>>}

MinOf(S) == CHOOSE x \in S : \A y \in S : x <= y
RECURSIVE Sorted(_)
Sorted(S) == IF S = {} THEN <<>> ELSE LET m == MinOf(S) IN <<m>> \o Sorted(S \ {m})

Chk(ml, mr) ==
  LET ls == Sorted(AllL) rs == Sorted(AllR) as == Sorted(Addrs) ss == Sorted(Stats) IN
  [lrows |-> [i \in 1..Len(ls) |-> <<ls[i]>> \o LRow(ml, ls[i])],
   rrows |-> [i \in 1..Len(rs) |-> <<rs[i]>> \o RRow(mr, rs[i])],
   jas   |-> [i \in 1..Len(as) |-> [j \in 1..Len(ss) |-> Sorted(JoinAS(ml, mr, as[i], ss[j]))]],
   js    |-> [j \in 1..Len(ss) |-> Sorted(JoinS(ml, mr, ss[j]))]]

Emit(r) == act' = IF EmitOn THEN ToJson(r) ELSE ""

Init == /\ L = [l \in LPKs |-> LNone] /\ R = [r \in RPKs |-> RNone] /\ nops = 0 /\ nsaves = 0
        /\ Ls = L /\ touchedR = {} /\ touchedL = {} /\ delL = {}
        /\ act = IF EmitOn THEN ToJson([op |-> "JLoad", ret |-> "ok", chk |-> Chk(L, R)]) ELSE ""

AddRet(m, k, none) == IF m[k] = none THEN "ok" ELSE "dup"
ModRet(m, k, none) == IF m[k] # none THEN "ok" ELSE "notfound"

Step(kind, side, k, row, ret) ==
  /\ nsaves < MaxSaves /\ nops < MaxOps /\ nops' = nops + 1
  /\ IF side = "L" THEN /\ L' = IF ret = "ok" THEN [L EXCEPT ![k] = row] ELSE L
                        /\ R' = R
                        /\ FixFk => (Ls[k] = LNone \/ kind = "Del" \/ row[1] = Ls[k][1])
                        /\ NoDelMix => (Ls[k] = LNone \/ kind # "Del" \/ Ls[k][1] \notin touchedR)
                        /\ Single => k \notin touchedL
                        /\ delL' = IF kind = "Del" /\ ret = "ok" THEN delL \cup {k} ELSE delL
                        /\ touchedL' = IF ret = "ok" THEN touchedL \cup {k} ELSE touchedL
                        /\ UNCHANGED touchedR
                   ELSE /\ R' = IF ret = "ok" THEN [R EXCEPT ![k] = row] ELSE R
                        /\ L' = L
                        /\ NoDelMix => \A l \in delL : Ls[l] = LNone \/ Ls[l][1] # k
                        /\ Single => k \notin touchedR
                        /\ touchedR' = IF ret = "ok" THEN touchedR \cup {k} ELSE touchedR
                        /\ UNCHANGED <<delL, touchedL>>
  /\ UNCHANGED <<nsaves, Ls>>
  /\ Emit([op |-> kind, side |-> side, pk |-> k, row |-> row, ret |-> ret])

LAdd(l, r)     == Step("Add", "L", l, r, AddRet(L, l, LNone))
LReplace(l, r) == Step("Replace", "L", l, r, "ok")
LUpdate(l, r)  == Step("Update", "L", l, r, ModRet(L, l, LNone))
LDel(l)        == Step("Del", "L", l, LNone, ModRet(L, l, LNone))
RAdd(k, r)     == Step("Add", "R", k, r, AddRet(R, k, RNone))
RReplace(k, r) == Step("Replace", "R", k, r, "ok")
RUpdate(k, r)  == Step("Update", "R", k, r, ModRet(R, k, RNone))
RDel(k)        == Step("Del", "R", k, RNone, ModRet(R, k, RNone))

Save ==
  /\ nsaves < MaxSaves /\ nops > 0 /\ Integrity(L, R)
  /\ nops' = 0 /\ nsaves' = nsaves + 1 /\ UNCHANGED <<L, R>>
  /\ Ls' = L /\ touchedR' = {} /\ touchedL' = {} /\ delL' = {}
  /\ Emit([op |-> "Save", ret |-> "ok", chk |-> Chk(L, R)])

Next == \/ \E l \in LPKs, r \in LRows : LAdd(l, r) \/ LReplace(l, r) \/ LUpdate(l, r)
        \/ \E l \in LPKs : LDel(l)
        \/ \E k \in RPKs, r \in RRows : RAdd(k, r) \/ RReplace(k, r) \/ RUpdate(k, r)
        \/ \E k \in RPKs : RDel(k)
        \/ Save

Spec == Init /\ [][Next]_vars

-----------------------------------------------------------------------------
TypeOK == /\ L \in [LPKs -> LRows \cup {LNone}] /\ R \in [RPKs -> RRows \cup {RNone}]
          /\ nops \in 0..MaxOps /\ nsaves \in 0..MaxSaves
\* every present left row with a present right row is listed under exactly one (a, s) and one s
JoinExact == \A l \in PresL(L) :
               LET rr == RRow(R, LRow(L, l)[1]) IN
               IF rr = RNone THEN \A a \in Addrs, s \in Stats : l \notin JoinAS(L, R, a, s) /\ l \notin JoinS(L, R, s)
               ELSE /\ \A a \in Addrs, s \in Stats : (l \in JoinAS(L, R, a, s)) <=> (a = LRow(L, l)[2] /\ s = rr[1])
                    /\ \A s \in Stats : (l \in JoinS(L, R, s)) <=> (s = rr[1])
AnchorsListed == \A a \in Addrs, s \in Stats : (100 + 10 * a + s) \in JoinAS(L, R, a, s) /\ (100 + 10 * a + s) \in JoinS(L, R, s)
SaveIntegrity == [][Save => Integrity(L, R)]_vars
=============================================================================
