---------------------------- MODULE Table_Trace ----------------------------
(* Trace specification: every call recorded from the real table must be a   *)
(* step of Table with the recorded reply, and every recorded Save must show *)
(* exactly the projection (GetData of every key, every index listing, the   *)
(* primary listing) the model predicts.                                     *)
EXTENDS Table, TraceLib

VARIABLE l
tvars == <<vars, l>>

PreloadNone == {{}}

Ev == Trace[l]
IsEvent(e) == l <= Len(Trace) /\ Ev.ev = e /\ l' = l + 1

TInit == Init /\ l = 1

TReset == /\ IsEvent("Reset")
          /\ cur' = [pk \in PKs |-> None] /\ db' = cur' /\ ops' = <<>> /\ nops' = 0 /\ nsaves' = 0
          /\ act' = act

Row3(s) == <<s[1], s[2], s[3]>>

TAdd     == IsEvent("Add")     /\ Ev.ret = AddRet(Ev.pk) /\ Add(Ev.pk, Row3(Ev.row))
TReplace == IsEvent("Replace") /\ Ev.ret = "ok"          /\ Replace(Ev.pk, Row3(Ev.row))
TUpdate  == IsEvent("Update")  /\ Ev.ret = ModRet(Ev.pk) /\ Update(Ev.pk, Row3(Ev.row))
TDel     == IsEvent("Del")     /\ Ev.ret = ModRet(Ev.pk) /\ Del(Ev.pk)

ChkMatches(c) ==
  LET m == Chk(cur) IN
  /\ Len(c.rows) = Len(m.rows) /\ \A i \in 1..Len(m.rows) : c.rows[i] = m.rows[i]
  /\ \A ix \in 1..2 : \A j \in 1..Cardinality(Vals) : c.idx[ix][j] = m.idx[ix][j]
  /\ c.all = m.all

TSave == IsEvent("Save") /\ Ev.ret = "ok" /\ ChkMatches(Ev.chk) /\ Save

TNext == TReset \/ TAdd \/ TReplace \/ TUpdate \/ TDel \/ TSave
TSpec == TInit /\ [][TNext]_tvars

Mark == MarkHWM(l - 1)
=============================================================================
