SPECIFICATION ASpec
CONSTANTS
  PKs = {1}
  Vals = {0, 1}
  Pays = {0}
  MaxOps = 2
  MaxSaves = 2
  Preload <- PreloadOne
  EmitOn = TRUE
INVARIANT Export
CHECK_DEADLOCK FALSE
