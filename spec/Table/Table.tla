------------------------------- MODULE Table -------------------------------
(***************************************************************************)
(* Reference model of chain33's indexed table (common/db/table): property  *)
(* C10.  A table is a map  primary key -> row(f1, f2, d)  with two indexed *)
(* fields f1, f2 and one unindexed payload d.  Add/Replace/Update/Del are  *)
(* buffered in the real table until Save returns a KV list; the model      *)
(* applies them to the logical map `cur` immediately:                      *)
(*   Add      fails (dup)      iff the key is currently present            *)
(*   Update   fails (notfound) iff the key is currently absent             *)
(*   Del      fails (notfound) iff the key is currently absent             *)
(*   Replace  always succeeds                                              *)
(* and after a Save (whose KV list the harness applies to the store):      *)
(*   GetData(pk)            = cur[pk]                                      *)
(*   ListIndex(ix, v)       = exactly the present rows with field ix = v   *)
(*   ListIndex("primary")   = exactly the present rows                     *)
(*                                                                         *)
(* Deliberately NOT compared: GetData/ListIndex while operations are       *)
(* pending (the property is stated "followed by a save"), the order of     *)
(* rows inside one ListIndex answer, the KV list itself, error values      *)
(* other than the three classes ok / dup / notfound, auto-increment        *)
(* primary keys, prefix (non-equality) index queries and paging.           *)
(*                                                                         *)
(* Anchor rows: for every index value v there is one extra row             *)
(* (pk 100+v, <<v,v,0>>) that no operation ever touches.  The real         *)
(* ListIndex resolves index entries through GetData and answers a bare     *)
(* ErrNotFound both for "no rows" and for "a stale entry points at a       *)
(* deleted row"; with an anchor under every value no legitimate answer is  *)
(* empty, so a stale entry is observable.                                  *)
(***************************************************************************)
EXTENDS Integers, Sequences, FiniteSets, Json, TLC

CONSTANTS PKs,       \* primary keys the operations work on (small integers < 100)
          Vals,      \* values of the indexed fields: 0..n-1
          Pays,      \* values of the unindexed payload field
          MaxOps,    \* operations between two saves
          MaxSaves,  \* saves per behaviour
          Preload,   \* subsets of PKs that may be present (row <<0,0,0>>) initially
          EmitOn     \* FALSE in exhaustive runs: the JSON action label is not built

VARIABLES cur,      \* logical map incl. pending operations: PKs -> Row \cup {None}
          db,       \* the map as of the last Save
          ops,      \* journal: successful mutations since the last Save
          nops,     \* calls (successful or not) since the last Save
          nsaves, act
vars == <<cur, db, ops, nops, nsaves, act>>
view == <<cur, db, ops, nops, nsaves>>

None == <<-1, -1, -1>>
Rows == Vals \X Vals \X Pays
AnchorPK(v) == 100 + v
Anchors == {AnchorPK(v) : v \in Vals}
AnchorRow(a) == <<a - 100, a - 100, 0>>
AllPKs == PKs \cup Anchors

RowOf(m, pk) == IF pk \in Anchors THEN AnchorRow(pk) ELSE m[pk]
Present(m) == {pk \in AllPKs : RowOf(m, pk) # None}
Lookup(m, ix, v) == {pk \in Present(m) : RowOf(m, pk)[ix] = v}

MinOf(S) == CHOOSE x \in S : \A y \in S : x <= y
RECURSIVE Sorted(_)
Sorted(S) == IF S = {} THEN <<>> ELSE LET m == MinOf(S) IN <<m>> \o Sorted(S \ {m})

\* projection compared after a Save: every row read by primary key, every index listing,
\* the primary listing
Chk(m) ==
  LET pks == Sorted(AllPKs)
      vs  == Sorted(Vals) IN
  [rows |-> [i \in 1..Len(pks) |-> <<pks[i]>> \o RowOf(m, pks[i])],
   idx  |-> [ix \in 1..2 |-> [j \in 1..Len(vs) |-> Sorted(Lookup(m, ix, vs[j]))]],
   all  |-> Sorted(Present(m))]

Emit(r) == act' = IF EmitOn THEN ToJson(r) ELSE ""

InitMaps == {[pk \in PKs |-> IF pk \in S THEN <<0, 0, 0>> ELSE None] : S \in Preload}

\* the initial content is loaded through the real API as well (Add + Save): step "Load"
Init == /\ cur \in InitMaps /\ db = cur /\ ops = <<>> /\ nops = 0 /\ nsaves = 0
        /\ act = IF EmitOn
                 THEN ToJson([op |-> "Load", pks |-> Sorted({pk \in PKs : cur[pk] # None}),
                              ret |-> "ok", chk |-> Chk(cur)])
                 ELSE ""

Mutate(kind, pk, r, ok, ret) ==
  /\ nsaves < MaxSaves /\ nops < MaxOps /\ nops' = nops + 1
  /\ cur' = IF ok THEN [cur EXCEPT ![pk] = r] ELSE cur
  /\ ops' = IF ok THEN Append(ops, <<kind, pk, r>>) ELSE ops
  /\ UNCHANGED <<db, nsaves>>
  /\ Emit(IF kind = "Del" THEN [op |-> kind, pk |-> pk, ret |-> ret]
                          ELSE [op |-> kind, pk |-> pk, row |-> r, ret |-> ret])

\* the reply every call must give
AddRet(pk) == IF cur[pk] = None THEN "ok" ELSE "dup"
ModRet(pk) == IF cur[pk] # None THEN "ok" ELSE "notfound"

Add(pk, r)     == Mutate("Add", pk, r, AddRet(pk) = "ok", AddRet(pk))
Replace(pk, r) == Mutate("Replace", pk, r, TRUE, "ok")
Update(pk, r)  == Mutate("Update", pk, r, ModRet(pk) = "ok", ModRet(pk))
Del(pk)        == Mutate("Del", pk, None, ModRet(pk) = "ok", ModRet(pk))

\* failed calls are not journalled but count towards the bound MaxOps
Save ==
  /\ nsaves < MaxSaves /\ nops > 0
  /\ db' = cur /\ ops' = <<>> /\ nops' = 0 /\ nsaves' = nsaves + 1
  /\ UNCHANGED cur
  /\ Emit([op |-> "Save", ret |-> "ok", chk |-> Chk(cur)])

Next == \/ \E pk \in PKs, r \in Rows : Add(pk, r) \/ Replace(pk, r) \/ Update(pk, r)
        \/ \E pk \in PKs : Del(pk)
        \/ Save

Spec == Init /\ [][Next]_vars

-----------------------------------------------------------------------------
\* The property stated on the model.  `cur` is maintained incrementally; the journal gives
\* an independent derivation: fold the successful operations over the saved map.

RECURSIVE Fold(_, _)
Fold(m, s) == IF s = <<>> THEN m
              ELSE Fold([m EXCEPT ![s[1][2]] = s[1][3]], Tail(s))

\* "currently present" derived from the saved map and the journal only
LastOn(pk) == LET I == {i \in 1..Len(ops) : ops[i][2] = pk} IN
              IF I = {} THEN 0 ELSE CHOOSE i \in I : \A j \in I : j <= i
PresentNow(pk) == IF LastOn(pk) = 0 THEN db[pk] # None ELSE ops[LastOn(pk)][1] # "Del"

TypeOK == /\ cur \in [PKs -> Rows \cup {None}]
          /\ db \in [PKs -> Rows \cup {None}]
          /\ nsaves \in 0..MaxSaves /\ nops \in 0..MaxOps /\ Len(ops) <= nops

\* the table is the fold of the buffered operations over the saved map
JournalAgrees == Fold(db, ops) = cur
PresenceAgrees == \A pk \in PKs : PresentNow(pk) <=> (cur[pk] # None)
Saved == ops = <<>> => db = cur

\* every present row is listed under exactly its value of every index, anchors included
IndexExact == \A ix \in 1..2 :
                /\ \A pk \in Present(cur) : \A v \in Vals : (pk \in Lookup(cur, ix, v)) <=> (RowOf(cur, pk)[ix] = v)
                /\ UNION {Lookup(cur, ix, v) : v \in Vals} = Present(cur)
                /\ \A v \in Vals : AnchorPK(v) \in Lookup(cur, ix, v)

\* adding fails exactly when the key is present; update/delete fail exactly when absent
AddIffAbsent == [][\A pk \in PKs, r \in Rows : Add(pk, r) =>
                     IF PresentNow(pk) THEN cur' = cur ELSE cur'[pk] = r]_vars
UpdDelIffPresent == [][\A pk \in PKs :
                         /\ \A r \in Rows : Update(pk, r) => IF PresentNow(pk) THEN cur'[pk] = r ELSE cur' = cur
                         /\ Del(pk) => IF PresentNow(pk) THEN cur'[pk] = None ELSE cur' = cur]_vars
\* an operation touches only its own key
Frame == [][\A pk \in PKs : (\A r \in Rows : ~Add(pk, r) /\ ~Replace(pk, r) /\ ~Update(pk, r)) /\ ~Del(pk)
                              => cur'[pk] = cur[pk]]_vars
=============================================================================
