SPECIFICATION Spec
CONSTANTS
  PKs = {1, 2, 3}
  Vals = {0, 1, 2}
  Pays = {0, 1}
  MaxOps = 6
  MaxSaves = 3
  Preload <- PreloadAll
  EmitOn = TRUE
CHECK_DEADLOCK FALSE
