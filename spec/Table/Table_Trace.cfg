SPECIFICATION TSpec
CONSTANTS
  PKs = {1,2,3,4,5}
  Vals = {0,1,2}
  Pays = {0,1,2}
  MaxOps = 1000000
  MaxSaves = 1000000
  Preload <- PreloadNone
  EmitOn = FALSE
INVARIANTS Mark JournalAgrees PresenceAgrees Saved
POSTCONDITION TraceDone
CHECK_DEADLOCK FALSE
