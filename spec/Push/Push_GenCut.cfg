\* behaviour generation around the batch size limit (block and header subscribers that lag behind, cut in the middle of a batch)
SPECIFICATION Spec
CONSTANTS
  NSubs = 2
  MaxSeq = 5
  MaxG = 3
  MaxFail = 2
  MaxReg = 4
  MaxRestart = 1
  MaxDel = 2
  FailSleeps = {0, 1}
  Bases = {0, 1}
  Gates = {FALSE}
  Kinds = {"block", "header"}
  MaxSizes = {2, 3, 4}
  MaxBatch = 10
  Cap = 10
  FailLimit = 3
  RunningAtSpawn = TRUE
  JumpAtZero = FALSE
  GenMode = TRUE
  EmitOn = TRUE
CHECK_DEADLOCK FALSE
