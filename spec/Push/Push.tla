-------------------------------- MODULE Push --------------------------------
(***************************************************************************)
(* Mechanism model of chain33's push service (blockchain/push.go) for      *)
(* property C32: every push subscriber receives the block sequence log in  *)
(* strictly increasing order and without gaps from its resume point,       *)
(* across delivery failures, retries, deactivation and reactivation; a     *)
(* sequence is recorded as delivered (ProcGetLastPushSeq) only after the   *)
(* subscriber acknowledged it.                                             *)
(*                                                                         *)
(* What is modelled (one action per critical section of push.go):          *)
(*  log      the block sequence log: records add/del (+ whether the block  *)
(*           carries a transaction a receipt subscriber asked for); the    *)
(*           sequence number of log[i] is i-1, the log starts with the     *)
(*           genesis record (sequence 0)                                   *)
(*  db[s]    stored subscriber record (known, active) and last pushed      *)
(*           sequence (-1 = none), as SetSync writes them                  *)
(*  cur[s]   push.tasks[s]: the pushNotify object (0 = no entry)           *)
(*  obj[o]   a pushNotify: running flag, back-off counter, queued          *)
(*           notifications (seqUpdateChan, capacity Cap)                   *)
(*  gor[g]   a task goroutine of runTask: program counter                  *)
(*           spawned -> wait -> flight -> replied -> wait ... ; its local  *)
(*           lastProcessedseq, continueFailCount, pending runChan ticks    *)
(*  SpawnTask (inside Register/Resume) and Start (the goroutine reads its  *)
(*  resume point and marks itself running) are separate steps.             *)
(*                                                                         *)
(* The endpoint is part of the model: Deliver(g, r) is the moment the      *)
(* subscriber receives a posted batch and answers ok / fail.  The resume   *)
(* point base[s] is a history variable kept at the endpoint:               *)
(*   - the sequence the subscriber supplied at registration, else          *)
(*   - the highest sequence it acknowledged, else                          *)
(*   - (never acknowledged, none supplied) the latest sequence at the      *)
(*     moment its (re)activated task first looks at the log -- push.go:    *)
(*     "if no start sequence is configured start from the latest one".     *)
(* A batch must start at the first (relevant) sequence after base[s]:      *)
(* re-posting an unacknowledged batch is a retry and conforms, delivering  *)
(* an acknowledged sequence again is "dup", skipping one is "gap".         *)
(*                                                                         *)
(* Deliberately NOT demanded / not modelled:                               *)
(*  - liveness (that a batch is eventually delivered; back-off lengths)    *)
(*  - API calls are serial (one Register / Restart at a time); the three   *)
(*    writes of the deactivation path (running flag, map entry, record)    *)
(*    are one step                                                         *)
(*  - only graceful stops (Push.Close waits for the tasks); a process kill *)
(*    between acknowledgement and SetSync re-delivers by design            *)
(*  - the value carried by a notification (only logged by the code; the    *)
(*    DelBlock path passes -1)                                             *)
(*  - the size limit of receipt / EVM batches (their blocks here are far    *)
(*    smaller than 1 MB); the limit of block and header batches IS         *)
(*    modelled: a record has a size (a block carrying a subscribed coins   *)
(*    transfer counts 2 units, any other block 1; a header always 1), a    *)
(*    batch is cut by count (<= MaxBatch) or where the cumulative size     *)
(*    would reach msize -- the first record is always included             *)
(* Switches RunningAtSpawn / JumpAtZero select the mechanism as found      *)
(* (FALSE / TRUE) or as repaired (TRUE / FALSE).                           *)
(***************************************************************************)
EXTENDS Integers, Sequences, FiniteSets, Json, TLC

CONSTANTS
  NSubs,          \* subscribers are 1..NSubs
  MaxSeq,         \* highest sequence number the log reaches
  MaxG,           \* goroutine slots (and pushNotify objects)
  MaxFail,        \* endpoint failures in a behaviour
  MaxReg,         \* Register calls in a behaviour
  MaxRestart,     \* graceful restarts of the push service
  MaxDel,         \* del records (reorganisations)
  FailSleeps,     \* possible values of Push.postFail2Sleep
  Bases,          \* subset of {0,1}: 0 = the log really starts at sequence 0, 1 = model sequence 0 is a later real sequence
  Gates,          \* subset of BOOLEAN: is the goroutine start controlled by the harness
  Kinds,          \* subset of {"block","header","result","receipt"} (the push types of push.go)
  MaxSizes,       \* possible values of the batch size limit in units (pushMaxSize); 100 = never reached
  MaxBatch,       \* pushBlockMaxSeq (10); receipts use 10*MaxBatch
  Cap,            \* chanBufCap (10)
  FailLimit,      \* consecutive failures that deactivate (3)
  RunningAtSpawn, \* TRUE: running flag set by runTask before "go" (repaired); FALSE: by the goroutine itself
  JumpAtZero,     \* TRUE: "lastProcessedseq <= 0" means no resume point (as found); FALSE: "< 0"
  GenMode,        \* TRUE: harness steps only in settled states (deterministic replays)
  EmitOn          \* build the JSON label of every step

VARIABLES log, stack, pend, db, cur, obj, gor, base, viol, closing,
          nfail, nreg, nrestart, ndel, gate, base0, fsleep, kind, msize, act

mvars == <<log, stack, pend, db, cur, obj, gor, base, viol, closing,
           nfail, nreg, nrestart, ndel, gate, base0, fsleep, kind, msize>>
vars == <<mvars, act>>
view == mvars

Subs == 1..NSubs
Gs == 1..MaxG
NoBase == -2
Last == Len(log) - 1

FreeG == [s |-> 0, o |-> 0, pc |-> "free", last |-> -1, latest |-> -1, cnt |-> 0,
          lo |-> 0, hi |-> -1, ticks |-> 0, res |-> "-"]
FreeO == [s |-> 0, running |-> FALSE, sleep |-> 0, chan |-> 0]

Min(S) == CHOOSE x \in S : \A y \in S : x <= y
Max(S) == CHOOSE x \in S : \A y \in S : x >= y

Live(g) == gor[g].pc # "free"
LiveOf(s) == {g \in Gs : Live(g) /\ gor[g].s = s}
FreeSlot == Min({g \in Gs : ~Live(g)})
UsedObj(o) == obj[o].s # 0
FreeObj == Min({o \in Gs : ~UsedObj(o)})

\* the real sequence number of model sequence x (negative = "none" stays)
Real(x) == IF x < 0 THEN x ELSE x + base0
NoResume(x) == IF JumpAtZero THEN Real(x) <= 0 ELSE Real(x) < 0

Relevant(s, q) == kind[s] # "receipt" \/ log[q + 1].rel
RelSeqs(s, lo, hi) == {q \in lo..hi : Relevant(s, q)}
BatchMax(s) == IF kind[s] = "receipt" THEN 10 * MaxBatch ELSE MaxBatch

\* size of the data posted for sequence q (getBlockSeqs: the stored block detail; getHeaderSeqs: the header)
Sz(s, q) == IF kind[s] = "block" /\ log[q + 1].rel THEN 2 ELSE 1
SumSz(s, lo, j) == LET S[i \in (lo - 1)..j] == IF i < lo THEN 0 ELSE S[i - 1] + Sz(s, i) IN S[j]
SizeLimited(s) == kind[s] \in {"block", "header"}
\* last sequence of the batch starting at lo when at most hc may go by count:
\* "if totalSize == 0 || totalSize+size < maxSize { append } else { break }"
CutAt(s, lo, hc) == IF SizeLimited(s)
                    THEN Max({j \in lo..hc : j = lo \/ SumSz(s, lo, j) < msize})
                    ELSE hc

-----------------------------------------------------------------------------
\* projection compared with the real node in settled states
\* batches posted and not yet received: <<first sequence, last sequence, how many identical>>
FlightOf(s) == {<<Min(RelSeqs(s, gor[g].lo, gor[g].hi)), Max(RelSeqs(s, gor[g].lo, gor[g].hi)),
                  Cardinality({h \in LiveOf(s) : gor[h].pc = "flight" /\ gor[h].lo = gor[g].lo /\ gor[h].hi = gor[g].hi})>> :
                   g \in {h \in LiveOf(s) : gor[h].pc = "flight"}}
Proj == [last   |-> [s \in Subs |-> db[s].last],
         active |-> [s \in Subs |-> IF ~db[s].known THEN "unknown" ELSE IF db[s].active THEN "active" ELSE "inactive"],
         task   |-> [s \in Subs |-> IF cur[s] = 0 THEN "none" ELSE IF obj[cur[s]].running THEN "running" ELSE "notrunning"],
         flight |-> [s \in Subs |-> FlightOf(s)],
         gors   |-> Cardinality({g \in Gs : Live(g)}),
         lastseq |-> Last,
         mon    |-> "ok"]          \* the driver's own evaluation of the property on the real node's posts

\* several idle goroutines on one pushNotify (possible only with RunningAtSpawn = FALSE) share its
\* channel: which of them receives a notification is the Go runtime's choice
SoleWaiter(g) == \A h \in Gs \ {g} : ~(gor[h].pc = "wait" /\ gor[h].o = gor[g].o)
IntEnabled(g) ==
  LET r == gor[g] IN
  \/ r.pc = "spawned" /\ ~gate
  \/ r.pc = "wait" /\ (obj[r.o].chan > 0 \/ r.ticks > 0 \/ closing)
  \/ r.pc = "replied"
Settled == pend = 0 /\ \A g \in Gs : ~IntEnabled(g)

Emit(r) == act' = IF EmitOn THEN ToJson(r @@ [settled |-> (Settled' /\ ~closing'), chk |-> Proj']) ELSE ""

-----------------------------------------------------------------------------
Init ==
  /\ log = <<[k |-> "add", rel |-> FALSE]>> /\ stack = <<>> /\ pend = 0
  /\ db = [s \in Subs |-> [known |-> FALSE, active |-> FALSE, last |-> -1]]
  /\ cur = [s \in Subs |-> 0]
  /\ obj = [o \in Gs |-> FreeO]
  /\ gor = [g \in Gs |-> FreeG]
  /\ base = [s \in Subs |-> NoBase]
  /\ viol = {} /\ closing = FALSE
  /\ nfail = 0 /\ nreg = 0 /\ nrestart = 0 /\ ndel = 0
  /\ gate \in Gates /\ base0 \in Bases /\ fsleep \in FailSleeps
  /\ kind \in [Subs -> Kinds] /\ msize \in MaxSizes
  /\ act = IF EmitOn THEN ToJson([op |-> "Init", gate |-> gate, base0 |-> base0, fsleep |-> fsleep,
                                  kind |-> kind, msize |-> msize, ret |-> "ok"]) ELSE ""

-----------------------------------------------------------------------------
\* the block sequence log

\* stack: relevance of the blocks on the main chain above the start (a del record repeats its block's)
height == Len(stack)
DoAppend(k, rel) ==
  /\ log' = Append(log, [k |-> k, rel |-> IF k = "add" THEN rel ELSE stack[height]])
  /\ stack' = IF k = "add" THEN Append(stack, rel) ELSE SubSeq(stack, 1, height - 1)
  /\ ndel' = IF k = "del" THEN ndel + 1 ELSE ndel

CanAppend(k) == /\ Len(log) <= MaxSeq /\ ~closing
                /\ k = "del" => (height >= 1 /\ ndel < MaxDel /\ base0 > 0)

\* Push.UpdateSeq: every task entry gets one notification unless its channel is full
Notified(ob) == [o \in Gs |-> IF ob[o].s # 0 /\ cur[ob[o].s] = o /\ ob[o].chan < Cap
                              THEN [ob[o] EXCEPT !.chan = @ + 1] ELSE ob[o]]

\* SaveBlock / DelBlock wrote the record (visible to LoadBlockLastSequence) ...
AppendSeq(k, rel) ==
  /\ ~GenMode /\ pend = 0 /\ CanAppend(k)
  /\ DoAppend(k, rel) /\ pend' = 1
  /\ UNCHANGED <<db, cur, obj, gor, base, viol, closing, nfail, nreg, nrestart, gate, base0, fsleep, kind, msize>>
  /\ Emit([op |-> "AppendSeq", k |-> k, rel |-> rel, ret |-> Last + 1])
\* ... and then UpdateSeq ran
NotifySeq ==
  /\ ~GenMode /\ pend = 1
  /\ obj' = Notified(obj) /\ pend' = 0
  /\ UNCHANGED <<log, stack, db, cur, gor, base, viol, closing, nfail, nreg, nrestart, ndel, gate, base0, fsleep, kind, msize>>
  /\ Emit([op |-> "NotifySeq", ret |-> "-"])

\* GenMode: one block added to the tip while every task is settled
AddBlock(rel) ==
  /\ GenMode /\ Settled /\ CanAppend("add")
  /\ DoAppend("add", rel) /\ obj' = Notified(obj)
  /\ UNCHANGED <<pend, db, cur, gor, base, viol, closing, nfail, nreg, nrestart, gate, base0, fsleep, kind, msize>>
  /\ Emit([op |-> "AddBlock", rel |-> rel, ret |-> Last + 1])

\* GenMode: a reorganisation of depth n (n del records, n+1 add records, one notification each)
\* while no task can look at the log (every live goroutine is held at the gate or in flight)
NotifiedN(ob, n) == [o \in Gs |-> IF ob[o].s # 0 /\ cur[ob[o].s] = o
                                  THEN [ob[o] EXCEPT !.chan = IF @ + n > Cap THEN Cap ELSE @ + n] ELSE ob[o]]
Reorg(n, rel) ==
  /\ GenMode /\ Settled /\ ~closing /\ base0 > 0
  /\ n >= 1 /\ height >= n /\ ndel + n <= MaxDel /\ Len(log) + 2 * n <= MaxSeq
  /\ \A g \in Gs : Live(g) => gor[g].pc \in {"spawned", "flight"}
  /\ log' = log \o [i \in 1..(2 * n + 1) |-> IF i <= n THEN [k |-> "del", rel |-> stack[height + 1 - i]]
                                                        ELSE [k |-> "add", rel |-> rel]]
  /\ stack' = SubSeq(stack, 1, height - n) \o [i \in 1..(n + 1) |-> rel]
  /\ ndel' = ndel + n
  /\ obj' = NotifiedN(obj, 2 * n + 1)
  /\ UNCHANGED <<pend, db, cur, gor, base, viol, closing, nfail, nreg, nrestart, gate, base0, fsleep, kind, msize>>
  /\ Emit([op |-> "Reorg", n |-> n, rel |-> rel, ret |-> Last + 2 * n + 1])

-----------------------------------------------------------------------------
\* registration (addSubscriber) -- one API call at a time

NewObj == [s |-> 0, running |-> RunningAtSpawn, sleep |-> 0, chan |-> 1]   \* updateLastSeq queued one notification
Spawned(s, o) == [FreeG EXCEPT !.s = s, !.o = o, !.pc = "spawned"]

\* a (re)activated subscriber that never acknowledged anything has no resume point yet
BaseAtSpawn(s, dblast) == IF dblast < 0 /\ LiveOf(s) = {} THEN NoBase ELSE base[s]

Register(s, k) ==
  /\ ~closing /\ nreg < MaxReg /\ (GenMode => Settled)
  /\ \E g \in Gs : ~Live(g)
  /\ nreg' = nreg + 1
  /\ IF ~db[s].known
     THEN \* persisAndStart: addTask (new entry + goroutine), then the record is stored
          /\ k \in {-1} \cup {q \in 0..Last : Real(q) >= 1}
          /\ cur[s] = 0
          /\ LET o == FreeObj g == FreeSlot IN
             /\ obj' = [obj EXCEPT ![o] = [NewObj EXCEPT !.s = s]]
             /\ cur' = [cur EXCEPT ![s] = o]
             /\ gor' = [gor EXCEPT ![g] = Spawned(s, o)]
          /\ db' = [db EXCEPT ![s] = [known |-> TRUE, active |-> TRUE, last |-> k]]
          /\ base' = [base EXCEPT ![s] = IF k >= 0 THEN k ELSE NoBase]
     ELSE \* check2ResumePush + setActive; the request's start sequence is ignored
          /\ k = -1
          /\ db' = [db EXCEPT ![s].active = TRUE]
          /\ IF cur[s] = 0
             THEN LET o == FreeObj g == FreeSlot IN
                  /\ obj' = [obj EXCEPT ![o] = [NewObj EXCEPT !.s = s]]
                  /\ cur' = [cur EXCEPT ![s] = o]
                  /\ gor' = [gor EXCEPT ![g] = Spawned(s, o)]
                  /\ base' = [base EXCEPT ![s] = BaseAtSpawn(s, db[s].last)]
             ELSE IF obj[cur[s]].running
             THEN /\ obj' = [obj EXCEPT ![cur[s]].sleep = 0]
                  /\ UNCHANGED <<cur, gor, base>>
             ELSE \* entry exists but is not (yet) marked running: runTask on the same entry
                  /\ obj[cur[s]].chan < Cap
                  /\ obj' = [obj EXCEPT ![cur[s]].chan = @ + 1, ![cur[s]].running = (@ \/ RunningAtSpawn)]
                  /\ gor' = [gor EXCEPT ![FreeSlot] = Spawned(s, cur[s])]
                  /\ UNCHANGED <<cur, base>>
  /\ UNCHANGED <<log, stack, pend, viol, closing, nfail, nrestart, ndel, gate, base0, fsleep, kind, msize>>
  /\ Emit([op |-> "Register", s |-> s, start |-> k, ret |-> "ok"])

-----------------------------------------------------------------------------
\* the task goroutine

\* the goroutine reads its resume point and marks the entry running
Start(g) ==
  /\ gor[g].pc = "spawned"
  /\ GenMode => (IF gate THEN Settled ELSE TRUE)
  /\ LET s == gor[g].s IN
     /\ gor' = [gor EXCEPT ![g].pc = "wait", ![g].last = db[s].last]
     /\ obj' = [obj EXCEPT ![gor[g].o].running = TRUE]
  /\ UNCHANGED <<log, stack, pend, db, cur, base, viol, closing, nfail, nreg, nrestart, ndel, gate, base0, fsleep, kind, msize>>
  /\ Emit([op |-> IF gate THEN "Release" ELSE "Start", g |-> g, s |-> gor[g].s, ret |-> "ok"])

\* case <-runChan: count the back-off down
Tick(g) ==
  /\ gor[g].pc = "wait" /\ gor[g].ticks > 0
  /\ LET o == gor[g].o
         sl == obj[o].sleep
         again == sl > 1 IN
     /\ obj' = [obj EXCEPT ![o].sleep = IF sl > 0 THEN sl - 1 ELSE 0]
     /\ gor' = [gor EXCEPT ![g].ticks = IF again THEN @ ELSE @ - 1]
  /\ UNCHANGED <<log, stack, pend, db, cur, base, viol, closing, nfail, nreg, nrestart, ndel, gate, base0, fsleep, kind, msize>>
  /\ Emit([op |-> "Tick", g |-> g, ret |-> "-"])

\* case lastestSeq := <-in.seqUpdateChan
Wake(g) ==
  /\ gor[g].pc = "wait" /\ obj[gor[g].o].chan > 0
  /\ GenMode => SoleWaiter(g)       \* replays need a determined receiver; the behaviour ends otherwise
  /\ UNCHANGED <<log, stack, pend, db, cur, viol, closing, nfail, nreg, nrestart, ndel, gate, base0, fsleep, kind, msize>>
  /\ LET r == gor[g]
         s == r.s
         o == r.o
         sl == obj[o].sleep
         skip == sl > 1                   \* still backing off after the decrement
         latest == Last
         o1 == [obj[o] EXCEPT !.chan = @ - 1, !.sleep = IF sl > 0 THEN sl - 1 ELSE 0] IN
     IF skip
     THEN /\ obj' = [obj EXCEPT ![o] = o1]
          /\ gor' = [gor EXCEPT ![g].ticks = @ + 1]
          /\ UNCHANGED base
          /\ Emit([op |-> "Wake", g |-> g, s |-> s, what |-> "backoff", ret |-> "-"])
     ELSE IF r.last >= latest
     THEN /\ obj' = [obj EXCEPT ![o] = o1]
          /\ gor' = [gor EXCEPT ![g].latest = latest]
          /\ UNCHANGED base
          /\ Emit([op |-> "Wake", g |-> g, s |-> s, what |-> "nothing", ret |-> "-"])
     ELSE IF NoResume(r.last)
     THEN \* no resume point: start from the latest sequence
          /\ obj' = [obj EXCEPT ![o] = o1]
          /\ gor' = [gor EXCEPT ![g].latest = latest, ![g].last = latest]
          /\ base' = [base EXCEPT ![s] = IF @ = NoBase THEN latest ELSE @]
          /\ Emit([op |-> "Wake", g |-> g, s |-> s, what |-> "jump", ret |-> "-"])
     ELSE LET lo == r.last + 1
              hc == IF latest - r.last > BatchMax(s) THEN r.last + BatchMax(s) ELSE latest
              hi == CutAt(s, lo, hc) IN
          IF RelSeqs(s, lo, hi) = {}
          THEN \* nothing to post for this range: advance in memory only, re-trigger if behind
               /\ obj' = [obj EXCEPT ![o] = [o1 EXCEPT !.chan = IF hi < latest /\ @ = 0 THEN 1 ELSE @]]
               /\ gor' = [gor EXCEPT ![g].latest = latest, ![g].last = hi, ![g].cnt = 0]
               /\ UNCHANGED base
               /\ Emit([op |-> "Wake", g |-> g, s |-> s, what |-> "empty", ret |-> "-"])
          ELSE /\ obj' = [obj EXCEPT ![o] = o1]
               /\ gor' = [gor EXCEPT ![g].latest = latest, ![g].lo = lo, ![g].hi = hi, ![g].pc = "flight"]
               /\ UNCHANGED base
               /\ Emit([op |-> "Wake", g |-> g, s |-> s, what |-> "post", lo |-> lo, hi |-> hi, ret |-> "-"])

\* the subscriber's endpoint receives the batch and answers
NextRelAfter(s, b) == LET C == {q \in (b + 1)..Last : Relevant(s, q)} IN IF C = {} THEN Last + 1 ELSE Min(C)
Deliver(g, r) ==
  /\ gor[g].pc = "flight"
  /\ GenMode => Settled
  /\ r = "fail" => nfail < MaxFail
  /\ UNCHANGED <<log, stack, pend, db, cur, obj, closing, nreg, nrestart, ndel, gate, base0, fsleep, kind, msize>>
  /\ LET s == gor[g].s
         R == RelSeqs(s, gor[g].lo, gor[g].hi)
         mn == Min(R)
         dup == base[s] # NoBase /\ mn <= base[s]
         gap == base[s] = NoBase \/ mn > NextRelAfter(s, base[s]) IN
     /\ viol' = viol \cup (IF dup THEN {"dup"} ELSE {}) \cup (IF gap THEN {"gap"} ELSE {})
     /\ base' = [base EXCEPT ![s] = IF r = "ok" THEN Max(R \cup {@}) ELSE @]
     /\ gor' = [gor EXCEPT ![g].pc = "replied", ![g].res = r]
     /\ nfail' = IF r = "fail" THEN nfail + 1 ELSE nfail
     /\ Emit([op |-> "Deliver", g |-> g, s |-> s, lo |-> gor[g].lo, hi |-> gor[g].hi,
              seqs |-> [i \in 1..Cardinality(R) |-> CHOOSE q \in R : Cardinality({x \in R : x < q}) = i - 1],
              reply |-> r, ret |-> "ok"])

\* PostData returned
Return(g) ==
  /\ gor[g].pc = "replied"
  /\ UNCHANGED <<log, stack, pend, base, viol, closing, nfail, nreg, nrestart, ndel, gate, base0, fsleep, kind, msize>>
  /\ LET r == gor[g]
         s == r.s
         o == r.o IN
     IF r.res = "ok"
     THEN \* setLastPushSeq, then re-trigger itself if still behind and nothing is queued
          /\ db' = [db EXCEPT ![s].last = r.hi]
          /\ gor' = [gor EXCEPT ![g].pc = "wait", ![g].last = r.hi, ![g].cnt = 0, ![g].res = "-"]
          /\ obj' = [obj EXCEPT ![o].chan = IF r.hi < r.latest /\ @ = 0 THEN 1 ELSE @]
          /\ UNCHANGED cur
          /\ Emit([op |-> "Return", g |-> g, s |-> s, what |-> "persist", ret |-> "-"])
     ELSE IF r.cnt + 1 >= FailLimit
     THEN \* deactivate: running flag off, entry deleted (by key), record stored as not active, goroutine ends
          /\ db' = [db EXCEPT ![s].active = FALSE, ![s].known = TRUE]
          /\ cur' = [cur EXCEPT ![s] = 0]
          /\ gor' = [gor EXCEPT ![g] = FreeG]
          /\ obj' = [p \in Gs |->
                       IF p = o \/ p = cur[s]
                       THEN (IF \E h \in Gs \ {g} : Live(h) /\ gor[h].o = p
                             THEN [obj[p] EXCEPT !.running = IF p = o THEN FALSE ELSE @] ELSE FreeO)
                       ELSE obj[p]]
          /\ Emit([op |-> "Return", g |-> g, s |-> s, what |-> "deactivate", ret |-> "-"])
     ELSE /\ obj' = [obj EXCEPT ![o].sleep = fsleep]
          /\ gor' = [gor EXCEPT ![g].pc = "wait", ![g].cnt = @ + 1, ![g].ticks = @ + 1, ![g].res = "-"]
          /\ UNCHANGED <<db, cur>>
          /\ Emit([op |-> "Return", g |-> g, s |-> s, what |-> "backoff", ret |-> "-"])

-----------------------------------------------------------------------------
\* graceful restart of the push service: Close (tasks end at their select), then newpush/init

Restart ==
  /\ ~closing /\ nrestart < MaxRestart /\ pend = 0
  /\ GenMode => (Settled /\ \A g \in Gs : Live(g) => gor[g].pc = "wait")
  /\ closing' = TRUE /\ nrestart' = nrestart + 1
  /\ UNCHANGED <<log, stack, pend, db, cur, obj, gor, base, viol, nfail, nreg, ndel, gate, base0, fsleep, kind, msize>>
  /\ Emit([op |-> "Restart", ret |-> "-"])

\* case <-in.closechan
Exit(g) ==
  /\ closing /\ gor[g].pc = "wait"
  /\ GenMode => (obj[gor[g].o].chan = 0 /\ gor[g].ticks = 0)
  /\ gor' = [gor EXCEPT ![g] = FreeG]
  /\ UNCHANGED <<log, stack, pend, db, cur, obj, base, viol, closing, nfail, nreg, nrestart, ndel, gate, base0, fsleep, kind, msize>>
  /\ Emit([op |-> "Exit", g |-> g, ret |-> "-"])

\* Close returned; init() starts a task for every active record
ActiveSubs == {s \in Subs : db[s].known /\ db[s].active}
Rank(s) == Cardinality({t \in ActiveSubs : t < s})
Resume ==
  /\ closing /\ \A g \in Gs : ~Live(g)
  /\ Cardinality(ActiveSubs) <= MaxG
  /\ closing' = FALSE
  /\ cur' = [s \in Subs |-> IF s \in ActiveSubs THEN Rank(s) + 1 ELSE 0]
  /\ obj' = [o \in Gs |-> IF \E s \in ActiveSubs : Rank(s) + 1 = o
                          THEN [NewObj EXCEPT !.s = CHOOSE s \in ActiveSubs : Rank(s) + 1 = o] ELSE FreeO]
  /\ gor' = [g \in Gs |-> IF \E s \in ActiveSubs : Rank(s) + 1 = g
                          THEN LET s == CHOOSE t \in ActiveSubs : Rank(t) + 1 = g IN Spawned(s, g) ELSE FreeG]
  /\ base' = [s \in Subs |-> IF s \in ActiveSubs /\ db[s].last < 0 THEN NoBase ELSE base[s]]
  /\ UNCHANGED <<log, stack, pend, db, viol, nfail, nreg, nrestart, ndel, gate, base0, fsleep, kind, msize>>
  /\ Emit([op |-> "Resume", ret |-> "ok"])

-----------------------------------------------------------------------------
Internal == \E g \in Gs : \/ (~gate /\ Start(g)) \/ Tick(g) \/ Wake(g) \/ Return(g) \/ Exit(g)
Harness == \/ \E rel \in BOOLEAN : AddBlock(rel)
           \/ \E n \in 1..2, rel \in BOOLEAN : Reorg(n, rel)
           \/ \E s \in Subs, k \in -1..MaxSeq : Register(s, k)
           \/ \E g \in Gs : (gate /\ Start(g)) \/ Deliver(g, "ok") \/ Deliver(g, "fail")
           \/ Restart \/ Resume
Free == \/ \E rel \in BOOLEAN : AppendSeq("add", rel)
        \/ AppendSeq("del", FALSE)
        \/ NotifySeq

Next == IF GenMode THEN (IF Settled THEN Harness ELSE Internal)
        ELSE Internal \/ Harness \/ Free

Spec == Init /\ [][Next]_vars

-----------------------------------------------------------------------------
\* The property (C32), on the endpoint's history summarised in base / viol.

\* strictly increasing and gap-free from the resume point
Ordered == viol = {}
NoDup == "dup" \notin viol
NoGap == "gap" \notin viol

\* recorded as delivered only after acknowledged: every (relevant) sequence up to the stored
\* last pushed sequence was acknowledged by the subscriber or lies at/below the point it supplied
AckedFirst == \A s \in Subs : db[s].last >= 0 =>
                 /\ base[s] # NoBase
                 /\ \A q \in (base[s] + 1)..db[s].last : ~Relevant(s, q)

TypeOK ==
  /\ Len(log) \in 1..(MaxSeq + 1) /\ pend \in 0..1
  /\ \A s \in Subs : /\ db[s].last \in -1..MaxSeq /\ cur[s] \in 0..MaxG
                     /\ (cur[s] # 0 => obj[cur[s]].s = s)
                     /\ base[s] \in {NoBase} \cup (-1..MaxSeq)
  /\ \A o \in Gs : obj[o].chan \in 0..Cap /\ obj[o].sleep >= 0
  /\ \A g \in Gs : Live(g) => (gor[g].o \in Gs /\ obj[gor[g].o].s = gor[g].s /\ gor[g].cnt < FailLimit)

\* reachability probe (expected to be violated): no posted batch was ever cut short by the size limit
NoSizeCut == \A g \in Gs : gor[g].pc = "flight" =>
               (gor[g].hi = gor[g].latest \/ gor[g].hi - gor[g].lo + 1 >= BatchMax(gor[g].s))

\* at most one goroutine serves a subscriber (holds for the repaired mechanism)
OneTask == \A s \in Subs : Cardinality(LiveOf(s)) <= 1
=============================================================================
