\* quick exhaustive run: the repaired mechanism, 1 subscriber, block pushes, free interleaving
SPECIFICATION Spec
CONSTANTS
  NSubs = 1
  MaxSeq = 3
  MaxG = 2
  MaxFail = 3
  MaxReg = 2
  MaxRestart = 1
  MaxDel = 0
  FailSleeps = {1}
  Bases = {0, 1}
  Gates = {FALSE}
  Kinds = {"block"}
  MaxSizes = {100}
  MaxBatch = 10
  Cap = 10
  FailLimit = 3
  RunningAtSpawn = TRUE
  JumpAtZero = FALSE
  GenMode = FALSE
  EmitOn = FALSE
VIEW view
INVARIANTS TypeOK Ordered AckedFirst OneTask
CHECK_DEADLOCK FALSE
