\* thorough exhaustive run: repaired mechanism, 1 subscriber, del records, two back-off lengths
SPECIFICATION Spec
CONSTANTS
  NSubs = 1
  MaxSeq = 4
  MaxG = 2
  MaxFail = 4
  MaxReg = 3
  MaxRestart = 1
  MaxDel = 1
  FailSleeps = {0, 2}
  Bases = {0, 1}
  Gates = {FALSE}
  Kinds = {"block"}
  MaxSizes = {100}
  MaxBatch = 10
  Cap = 10
  FailLimit = 3
  RunningAtSpawn = TRUE
  JumpAtZero = FALSE
  GenMode = FALSE
  EmitOn = FALSE
VIEW view
INVARIANTS TypeOK Ordered AckedFirst OneTask
CHECK_DEADLOCK FALSE
