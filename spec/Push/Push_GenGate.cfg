\* behaviour generation around the goroutine start gate (registrations while a task has not started)
SPECIFICATION Spec
CONSTANTS
  NSubs = 1
  MaxSeq = 5
  MaxG = 3
  MaxFail = 4
  MaxReg = 4
  MaxRestart = 0
  MaxDel = 2
  FailSleeps = {0, 1}
  Bases = {1}
  Gates = {TRUE}
  Kinds = {"block"}
  MaxSizes = {100}
  MaxBatch = 10
  Cap = 10
  FailLimit = 3
  RunningAtSpawn = TRUE
  JumpAtZero = FALSE
  GenMode = TRUE
  EmitOn = TRUE
CHECK_DEADLOCK FALSE
