\* reachability probe: TLC must find a batch that the size limit cut in the middle (anti-vacuity of Push_MCs.cfg)
SPECIFICATION Spec
CONSTANTS
  NSubs = 1
  MaxSeq = 4
  MaxG = 2
  MaxFail = 1
  MaxReg = 2
  MaxRestart = 0
  MaxDel = 0
  FailSleeps = {0}
  Bases = {1}
  Gates = {FALSE}
  Kinds = {"block", "header"}
  MaxSizes = {3}
  MaxBatch = 10
  Cap = 10
  FailLimit = 3
  RunningAtSpawn = TRUE
  JumpAtZero = FALSE
  GenMode = FALSE
  EmitOn = FALSE
VIEW view
INVARIANTS NoSizeCut
CHECK_DEADLOCK FALSE
