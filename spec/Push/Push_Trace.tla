---------------------------- MODULE Push_Trace ----------------------------
(***************************************************************************)
(* Trace specification (binding B): an execution recorded from a real      *)
(* chain33 node with free-running push tasks must be a behaviour of Push.  *)
(* Logged events (harness calls are logged at their start and end, the     *)
(* endpoint logs every POST it answers, all under one lock):               *)
(*   Reset                       a new independent trace                   *)
(*   AppendBegin recs / AppendEnd   ProcessBlock of a block that appends   *)
(*                               the listed sequence records               *)
(*   RegBegin s start / RegEnd   AddPushSubscribe                          *)
(*   RestartBegin / RestartEnd   graceful restart of the push service      *)
(*   Recv s seqs reply           the subscriber's endpoint received the    *)
(*                               batch and answered ok / fail              *)
(*   LastSeq s ret               ProcGetLastPushSeq                        *)
(*   Quiet                       the harness observed every task idle      *)
(* The task's own steps (Start, Wake, Tick, Return, Exit), the appends and *)
(* notifications inside ProcessBlock and the moment a call takes effect    *)
(* are not logged: TLC searches for them (silent steps, depth-first).      *)
(* The family's invariants are evaluated in every state of the search.     *)
(***************************************************************************)
EXTENDS Push, TraceLib

VARIABLES l, todo, api
tvars == <<vars, l, todo, api>>

Ev == Trace[l]
IsEvent(e) == l <= Len(Trace) /\ Ev.ev = e /\ l' = l + 1
Silent == l' = l

TInit == Init /\ l = 1 /\ todo = <<>> /\ api = <<"idle">>

TReset ==
  /\ IsEvent("Reset")
  /\ log' = <<[k |-> "add", rel |-> FALSE]>> /\ stack' = <<>> /\ pend' = 0
  /\ db' = [s \in Subs |-> [known |-> FALSE, active |-> FALSE, last |-> -1]]
  /\ cur' = [s \in Subs |-> 0]
  /\ obj' = [o \in Gs |-> FreeO]
  /\ gor' = [g \in Gs |-> FreeG]
  /\ base' = [s \in Subs |-> NoBase]
  /\ viol' = {} /\ closing' = FALSE
  /\ nfail' = 0 /\ nreg' = 0 /\ nrestart' = 0 /\ ndel' = 0
  /\ gate' = FALSE /\ base0' = Ev.base0 /\ fsleep' = Ev.fsleep
  /\ kind' = [s \in Subs |-> Ev.kind[s]]
  /\ msize' = Ev.msize
  /\ act' = act /\ todo' = <<>> /\ api' = <<"idle">>

\* ProcessBlock ------------------------------------------------------------
TAppendBegin ==
  /\ IsEvent("AppendBegin") /\ todo = <<>> /\ api = <<"idle">>
  /\ todo' = Ev.recs /\ api' = <<"append">>
  /\ UNCHANGED vars
SAppend ==
  /\ Silent /\ todo # <<>>
  /\ AppendSeq(todo[1].k, todo[1].rel)
  /\ log'[Len(log')].rel = todo[1].rel        \* a del record repeats its block's relevance
  /\ todo' = Tail(todo) /\ UNCHANGED api
SNotify == Silent /\ NotifySeq /\ UNCHANGED <<todo, api>>
TAppendEnd ==
  /\ IsEvent("AppendEnd") /\ todo = <<>> /\ pend = 0 /\ api = <<"append">>
  /\ Last = Ev.ret
  /\ api' = <<"idle">> /\ UNCHANGED <<vars, todo>>

\* AddPushSubscribe ----------------------------------------------------------
TRegBegin ==
  /\ IsEvent("RegBegin") /\ api = <<"idle">>
  /\ api' = <<"reg", Ev.s, Ev.start>> /\ UNCHANGED <<vars, todo>>
SRegister ==
  /\ Silent /\ api[1] = "reg"
  /\ Register(api[2], IF db[api[2]].known THEN -1 ELSE api[3])
  /\ api' = <<"regdone">> /\ UNCHANGED todo
TRegEnd ==
  /\ IsEvent("RegEnd") /\ api = <<"regdone">> /\ Ev.ret = "ok"
  /\ api' = <<"idle">> /\ UNCHANGED <<vars, todo>>

\* restart ---------------------------------------------------------------------
TRestartBegin ==
  /\ IsEvent("RestartBegin") /\ api = <<"idle">>
  /\ Restart /\ api' = <<"restart">> /\ UNCHANGED todo
SResume ==
  /\ Silent /\ api = <<"restart">>
  /\ Resume /\ api' = <<"restartdone">> /\ UNCHANGED todo
TRestartEnd ==
  /\ IsEvent("RestartEnd") /\ api = <<"restartdone">>
  /\ api' = <<"idle">> /\ UNCHANGED <<vars, todo>>

\* endpoint ----------------------------------------------------------------------
SeqOfSet(R) == [i \in 1..Cardinality(R) |-> CHOOSE q \in R : Cardinality({x \in R : x < q}) = i - 1]
TRecv ==
  /\ IsEvent("Recv")
  /\ \E g \in Gs :
       /\ gor[g].pc = "flight" /\ gor[g].s = Ev.s
       /\ SeqOfSet(RelSeqs(Ev.s, gor[g].lo, gor[g].hi)) = Ev.seqs
       /\ Deliver(g, Ev.reply)
  /\ UNCHANGED <<todo, api>>

\* observations ------------------------------------------------------------------
TLastSeq ==
  /\ IsEvent("LastSeq") /\ db[Ev.s].last = Ev.ret
  /\ UNCHANGED <<vars, todo, api>>
TQuiet ==
  /\ IsEvent("Quiet") /\ Settled /\ api = <<"idle">>
  /\ \A g \in Gs : gor[g].pc \in {"free", "wait"}
  /\ UNCHANGED <<vars, todo, api>>

\* the goroutines' own steps -------------------------------------------------------
STask == /\ Silent
         /\ \E g \in Gs : Start(g) \/ Tick(g) \/ Wake(g) \/ Return(g) \/ Exit(g)
         /\ UNCHANGED <<todo, api>>

TNext == \/ TReset
         \/ TAppendBegin \/ SAppend \/ SNotify \/ TAppendEnd
         \/ TRegBegin \/ SRegister \/ TRegEnd
         \/ TRestartBegin \/ SResume \/ TRestartEnd
         \/ TRecv \/ TLastSeq \/ TQuiet \/ STask
TSpec == TInit /\ [][TNext]_tvars

Mark == MarkHWM(l - 1)
=============================================================================
