\* exhaustive run with two subscribers (independent entries, one UpdateSeq notifies both, restart resumes both)
SPECIFICATION Spec
CONSTANTS
  NSubs = 2
  MaxSeq = 2
  MaxG = 2
  MaxFail = 1
  MaxReg = 3
  MaxRestart = 1
  MaxDel = 0
  FailSleeps = {1}
  Bases = {0, 1}
  Gates = {FALSE}
  Kinds = {"block"}
  MaxSizes = {100}
  MaxBatch = 10
  Cap = 10
  FailLimit = 3
  RunningAtSpawn = TRUE
  JumpAtZero = FALSE
  GenMode = FALSE
  EmitOn = FALSE
VIEW view
INVARIANTS TypeOK Ordered AckedFirst OneTask
CHECK_DEADLOCK FALSE
