\* behaviour generation (-simulate): harness steps only in settled states, JSON labels on
SPECIFICATION Spec
CONSTANTS
  NSubs = 2
  MaxSeq = 5
  MaxG = 3
  MaxFail = 4
  MaxReg = 4
  MaxRestart = 1
  MaxDel = 2
  FailSleeps = {0, 1}
  Bases = {0, 1}
  Gates = {FALSE, TRUE}
  Kinds = {"block", "header", "result"}
  MaxSizes = {100, 3}
  MaxBatch = 10
  Cap = 10
  FailLimit = 3
  RunningAtSpawn = TRUE
  JumpAtZero = FALSE
  GenMode = TRUE
  EmitOn = TRUE
CHECK_DEADLOCK FALSE
