\* exhaustive run around the batch size limit: a block / header subscriber that lags behind (start sequence
\* supplied, failed deliveries, blocks arriving during a post); the cut position and the stored sequence must agree
SPECIFICATION Spec
CONSTANTS
  NSubs = 1
  MaxSeq = 4
  MaxG = 2
  MaxFail = 1
  MaxReg = 2
  MaxRestart = 0
  MaxDel = 0
  FailSleeps = {0}
  Bases = {1}
  Gates = {FALSE}
  Kinds = {"block", "header"}
  MaxSizes = {3}
  MaxBatch = 10
  Cap = 10
  FailLimit = 3
  RunningAtSpawn = TRUE
  JumpAtZero = FALSE
  GenMode = FALSE
  EmitOn = FALSE
VIEW view
INVARIANTS TypeOK Ordered AckedFirst OneTask
CHECK_DEADLOCK FALSE
