SPECIFICATION TSpec
CONSTANTS
  NSubs = 2
  MaxSeq = 80
  MaxG = 3
  MaxFail = 1000000
  MaxReg = 1000000
  MaxRestart = 1000000
  MaxDel = 1000000
  FailSleeps = {0}
  Bases = {0}
  Gates = {FALSE}
  Kinds = {"block"}
  MaxSizes = {100}
  MaxBatch = 10
  Cap = 10
  FailLimit = 3
  RunningAtSpawn = TRUE
  JumpAtZero = FALSE
  GenMode = FALSE
  EmitOn = FALSE
INVARIANTS Mark TypeOK Ordered AckedFirst OneTask
POSTCONDITION TraceDone
CHECK_DEADLOCK FALSE
