SPECIFICATION Spec
CONSTANTS
  NU = 3
  NE = 2
  HexUsers = {1, 2}
  NSpell = 1
  MinerExecs = {1}
  Amts = {9, 10}
  GenAmts = {5}
  OpLimit = 10
  BalLimit = 900
  IntMax = 922
  Inits <- MCInits
  Ops <- AllOps
  MaxOps = 3
  EmitOn = FALSE
VIEW view
INVARIANTS TypeOK NonNeg NoOverflow SupplyOK ExecIdentity
PROPERTIES SupplyRule DepRule ErrNoChange Separation
CHECK_DEADLOCK FALSE
