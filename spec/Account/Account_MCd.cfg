SPECIFICATION Spec
CONSTANTS
  NU = 2
  NE = 1
  HexUsers = {1}
  NSpell = 1
  MinerExecs = {1}
  Amts = {9, 10}
  GenAmts = {5}
  OpLimit = 10
  BalLimit = 900
  IntMax = 922
  Inits <- MCInitsD
  Ops <- AllOps
  MaxOps = 6
  EmitOn = FALSE
VIEW view
INVARIANTS TypeOK NonNeg NoOverflow SupplyOK ExecIdentity
PROPERTIES SupplyRule DepRule ErrNoChange Separation
CHECK_DEADLOCK FALSE
