SPECIFICATION Spec
CONSTANTS
  NU = 3
  NE = 2
  HexUsers = {1, 2}
  NSpell = 1
  MinerExecs = {1}
  Amts = {9}
  GenAmts = {}
  OpLimit = 10
  BalLimit = 900
  IntMax = 922
  Inits <- MCInitsT
  Ops <- ConservingOps
  MaxOps = 6
  EmitOn = FALSE
VIEW view
INVARIANTS TypeOK NonNeg NoOverflow SupplyOK ExecIdentity
PROPERTIES SupplyRule DepRule ErrNoChange Separation
CHECK_DEADLOCK FALSE
