SPECIFICATION TSpec
CONSTANTS
  NU = 6
  NE = 3
  HexUsers = {1, 3, 5}
  NSpell = 3
  MinerExecs = {1}
  Amts = {}
  GenAmts = {}
  OpLimit = 1000
  BalLimit = 90000
  IntMax = 92233
  Inits <- TraceInits
  Ops <- AllOps
  MaxOps = 1000000
  EmitOn = FALSE
INVARIANTS Mark TypeOK NonNeg NoOverflow SupplyOK ExecIdentity
PROPERTIES SupplyRule DepRule ErrNoChange Separation
POSTCONDITION TraceDone
CHECK_DEADLOCK FALSE
