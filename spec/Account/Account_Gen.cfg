SPECIFICATION Spec
CONSTANTS
  NU = 3
  NE = 2
  HexUsers = {1, 2}
  NSpell = 3
  MinerExecs = {1}
  Amts = {0, 1, 9, 10}
  GenAmts = {5, 899}
  OpLimit = 10
  BalLimit = 900
  IntMax = 922
  Inits <- MCInits
  Ops <- AllOps
  MaxOps = 8
  EmitOn = TRUE
CHECK_DEADLOCK FALSE
