SPECIFICATION ASpec
CONSTANTS
  NU = 2
  NE = 1
  HexUsers = {1}
  NSpell = 3
  MinerExecs = {1}
  Amts = {0, 1, 9, 10}
  GenAmts = {5, 899}
  OpLimit = 10
  BalLimit = 900
  IntMax = 922
  Inits <- MCInitsD
  Ops <- AllOps
  MaxOps = 1
  EmitOn = TRUE
INVARIANT Export
CHECK_DEADLOCK FALSE
