SPECIFICATION ASpec
CONSTANTS
  NU = 2
  NE = 1
  HexUsers = {1}
  NSpell = 3
  MinerExecs = {1}
  Amts = {9}
  GenAmts = {5}
  OpLimit = 10
  BalLimit = 900
  IntMax = 922
  Inits <- MCInitsD
  Ops <- AllOps
  MaxOps = 2
  EmitOn = TRUE
INVARIANT Export
CHECK_DEADLOCK FALSE
