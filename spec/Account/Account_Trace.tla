--------------------------- MODULE Account_Trace ---------------------------
(* Trace specification: every call recorded from the real account.DB must be *)
(* a step of Account with the recorded result class, and the ledger read     *)
(* back from the code under every spelling must be the model's ledger.       *)
(* A "Reset" event starts a new ledger (given in the event).                 *)
EXTENDS Account, TraceLib

VARIABLE l
tvars == <<vars, l>>

Ev == Trace[l]
IsEvent(e) == l <= Len(Trace) /\ Ev.ev = e /\ l' = l + 1

TraceInits == {[bal |-> [u \in Users |-> 0], x |-> [e \in Execs |-> 0],
                sb |-> [e \in Execs |-> [u \in Users |-> 0]], sf |-> [e \in Execs |-> [u \in Users |-> 0]]]}

TInit == Init /\ l = 1

TReset == /\ IsEvent("Reset") /\ Ev.bad = 0
          /\ bal' = Ev.bal /\ xbal' = Ev.x /\ sb' = Ev.sb /\ sf' = Ev.sf
          /\ dep' = [e \in Execs |-> Held(e)' - xbal'[e]]
          /\ minted' = Supply'
          /\ res' = <<"Setup", "ok", 0>> /\ nops' = 0 /\ act' = act

\* the recorded result class and the recorded ledger are the model's
Obs == /\ Ev.bad = 0 /\ res'[2] = Ev.ret /\ Chk' = Ev.chk
U1 == Ev.us \in Sp(Ev.u)
U2 == Ev.fs \in Sp(Ev.f) /\ Ev.ts \in Sp(Ev.t)

TNext ==
  \/ TReset
  \/ IsEvent("Transfer") /\ U2 /\ Transfer(Ev.f, Ev.fs, Ev.t, Ev.ts, Ev.amt) /\ Obs
  \/ IsEvent("Mint") /\ U1 /\ Mint(Ev.u, Ev.us, Ev.amt) /\ Obs
  \/ IsEvent("Burn") /\ U1 /\ Burn(Ev.u, Ev.us, Ev.amt) /\ Obs
  \/ IsEvent("GenesisInit") /\ U1 /\ GenesisInit(Ev.u, Ev.us, Ev.amt) /\ Obs
  \/ IsEvent("TransferToExec") /\ U1 /\ TransferToExec(Ev.u, Ev.us, Ev.e, Ev.amt) /\ Obs
  \/ IsEvent("TransferWithdraw") /\ U1 /\ TransferWithdraw(Ev.u, Ev.us, Ev.e, Ev.amt) /\ Obs
  \/ IsEvent("GenesisInitExec") /\ U1 /\ GenesisInitExec(Ev.u, Ev.us, Ev.e, Ev.amt) /\ Obs
  \/ IsEvent("ExecFrozen") /\ U1 /\ ExecFrozen(Ev.u, Ev.us, Ev.e, Ev.amt) /\ Obs
  \/ IsEvent("ExecActive") /\ U1 /\ ExecActive(Ev.u, Ev.us, Ev.e, Ev.amt) /\ Obs
  \/ IsEvent("ExecTransfer") /\ U2 /\ ExecTransfer(Ev.f, Ev.fs, Ev.t, Ev.ts, Ev.e, Ev.amt) /\ Obs
  \/ IsEvent("ExecTransferFrozen") /\ U2 /\ ExecTransferFrozen(Ev.f, Ev.fs, Ev.t, Ev.ts, Ev.e, Ev.amt) /\ Obs
  \/ IsEvent("ExecDepositFrozen") /\ U1 /\ ExecDepositFrozen(Ev.u, Ev.us, Ev.e, Ev.amt) /\ Obs
  \/ IsEvent("ExecDeposit") /\ U1 /\ ExecDeposit(Ev.u, Ev.us, Ev.e, Ev.amt) /\ Obs
  \/ IsEvent("ExecWithdraw") /\ U1 /\ ExecWithdraw(Ev.u, Ev.us, Ev.e, Ev.amt) /\ Obs
  \/ IsEvent("ExecIssueCoins") /\ ExecIssueCoins(Ev.e, Ev.amt) /\ Obs

TSpec == TInit /\ [][TNext]_tvars

Mark == MarkHWM(l - 1)
=============================================================================
