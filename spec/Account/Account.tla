------------------------------ MODULE Account ------------------------------
(***************************************************************************)
(* Reference model of chain33's asset ledger (account/account.go,          *)
(* account/execaccount.go, account/genesis.go).  Property C15.             *)
(*                                                                         *)
(* Amounts are integers in a scaled unit (unit = 10^16 base units in the   *)
(* exhaustive runs: per-operation limit OpLimit = 10, balance limit        *)
(* BalLimit = 900, IntMax = 922 = floor(MaxInt64 / unit)); the scaling is  *)
(* exact because the limits are multiples of the unit and                  *)
(* x * unit > MaxInt64  <=>  x > IntMax for integers x.                    *)
(*                                                                         *)
(* Accounts are IDENTITIES (users 1..NU, executors 1..NE).  Every address  *)
(* argument of a user carries a spelling index: base58 users have one      *)
(* spelling, hex users NSpell (lower / upper / mixed case).  The reference *)
(* ignores the spelling: that IS the last sentence of the property.        *)
(*                                                                         *)
(*  bal[u]      balance of user u in the main ledger                       *)
(*  xbal[e]     balance of executor e's own address in the main ledger     *)
(*  sb[e][u]    active  balance of u held under executor e                 *)
(*  sf[e][u]    frozen  balance of u held under executor e                 *)
(*  dep[e]      ghost: net amount moved into e's sub-ledger by the RAW     *)
(*              building blocks ExecDeposit (+), ExecWithdraw (-) and      *)
(*              ExecIssueCoins (-) that by design touch only one side      *)
(*  minted      ghost: supply as it must be (initial + minted + issued +   *)
(*              granted - burned)                                          *)
(*  res         ghost: <<op, "ok"/"err", amount>> of the last step         *)
(*                                                                         *)
(* An operation whose precondition fails answers "err" and changes         *)
(* nothing.  A sum that would exceed BalLimit (main ledger) or IntMax      *)
(* (sub-ledger, where the code has no MaxTokenBalance rule) must be        *)
(* refused.                                                                *)
(*                                                                         *)
(* Deliberately NOT compared / assumed:                                    *)
(*  - error codes (only ok/err), receipts and logs;                        *)
(*  - genesis amounts are >= 0, and GenesisInitExec amounts satisfy the    *)
(*    per-operation rule (the code asserts this with a panic: chain        *)
(*    creator's configuration, not a ledger operation on user input);      *)
(*  - executor addresses are passed in their canonical spelling (callers   *)
(*    obtain them from address.ExecAddress); users never coincide with an  *)
(*    executor address;                                                    *)
(*  - sub-ledger values in (BalLimit, IntMax] are accepted as the code     *)
(*    does (the property only forbids negative / overflowing amounts).     *)
(***************************************************************************)
EXTENDS Integers, Sequences, FiniteSets, Json, TLC

CONSTANTS NU, NE,        \* users 1..NU, executors 1..NE
          HexUsers,      \* users with a hex address
          NSpell,        \* spellings offered per hex user (1 in exhaustive runs)
          MinerExecs,    \* executors allowed to issue coins
          Amts,          \* amounts offered to checked operations
          GenAmts,       \* amounts offered to GenesisInit
          OpLimit, BalLimit, IntMax,
          Inits,         \* set of initial ledgers [bal, x, sb, sf]
          Ops,           \* enabled operations
          MaxOps, EmitOn

VARIABLES bal, xbal, sb, sf, dep, minted, res, nops, act
ledger == <<bal, xbal, sb, sf>>
vars == <<bal, xbal, sb, sf, dep, minted, res, nops, act>>
view == <<bal, xbal, sb, sf, dep, minted, nops>>

Users == 1..NU
Execs == 1..NE
Sp(u) == IF u \in HexUsers THEN 1..NSpell ELSE {1}

RECURSIVE SumTo(_, _)
SumTo(f, n) == IF n = 0 THEN 0 ELSE f[n] + SumTo(f, n - 1)

Supply == SumTo(bal, NU) + SumTo(xbal, NE)
Held(e) == SumTo(sb[e], NU) + SumTo(sf[e], NU)

Chk == [bal |-> bal, x |-> xbal, sb |-> sb, sf |-> sf]
Emit(r) == act' = IF EmitOn THEN ToJson(r) ELSE ""

CA(a) == a > 0 /\ a < OpLimit        \* types.CheckAmount

Init == /\ \E i \in Inits : /\ bal = i.bal /\ xbal = i.x /\ sb = i.sb /\ sf = i.sf
        /\ dep = [e \in Execs |-> Held(e) - xbal[e]]
        /\ minted = Supply
        /\ res = <<"Setup", "ok", 0>> /\ nops = 0
        /\ act = IF EmitOn
                 THEN ToJson([op |-> "Setup", hex |-> HexUsers, miners |-> MinerExecs,
                              lim |-> <<OpLimit, BalLimit, IntMax>>, ret |-> "ok", chk |-> Chk])
                 ELSE ""

\* one step: r = JSON label (op + arguments), ok = precondition, n* = the new ledger if ok
Do(r, ok, nbal, nxbal, nsb, nsf, ndep, nminted) ==
  /\ nops < MaxOps /\ nops' = nops + 1
  /\ IF ok THEN /\ bal' = nbal /\ xbal' = nxbal /\ sb' = nsb /\ sf' = nsf
                /\ dep' = ndep /\ minted' = nminted
           ELSE UNCHANGED <<bal, xbal, sb, sf, dep, minted>>
  /\ res' = <<r.op, IF ok THEN "ok" ELSE "err", r.amt>>
  /\ Emit(r @@ [ret |-> IF ok THEN "ok" ELSE "err", chk |-> Chk'])

-----------------------------------------------------------------------------
\* main ledger

Transfer(f, fs, t, ts, a) ==
  Do([op |-> "Transfer", f |-> f, fs |-> fs, t |-> t, ts |-> ts, amt |-> a],
     CA(a) /\ f # t /\ bal[f] >= a /\ bal[t] + a <= BalLimit,
     [bal EXCEPT ![f] = @ - a, ![t] = @ + a], xbal, sb, sf, dep, minted)

Mint(u, us, a) ==
  Do([op |-> "Mint", u |-> u, us |-> us, amt |-> a],
     CA(a) /\ bal[u] + a <= BalLimit,
     [bal EXCEPT ![u] = @ + a], xbal, sb, sf, dep, minted + a)

Burn(u, us, a) ==
  Do([op |-> "Burn", u |-> u, us |-> us, amt |-> a],
     CA(a) /\ bal[u] >= a,
     [bal EXCEPT ![u] = @ - a], xbal, sb, sf, dep, minted - a)

GenesisInit(u, us, a) ==
  Do([op |-> "GenesisInit", u |-> u, us |-> us, amt |-> a],
     a >= 0 /\ bal[u] + a <= BalLimit,
     [bal EXCEPT ![u] = @ + a], xbal, sb, sf, dep, minted + a)

\* between a user and an executor
TransferToExec(u, us, e, a) ==
  Do([op |-> "TransferToExec", u |-> u, us |-> us, e |-> e, amt |-> a],
     CA(a) /\ bal[u] >= a /\ xbal[e] + a <= BalLimit /\ sb[e][u] + a <= IntMax,
     [bal EXCEPT ![u] = @ - a], [xbal EXCEPT ![e] = @ + a],
     [sb EXCEPT ![e][u] = @ + a], sf, dep, minted)

TransferWithdraw(u, us, e, a) ==
  Do([op |-> "TransferWithdraw", u |-> u, us |-> us, e |-> e, amt |-> a],
     CA(a) /\ xbal[e] >= a /\ sb[e][u] >= a /\ bal[u] + a <= BalLimit,
     [bal EXCEPT ![u] = @ + a], [xbal EXCEPT ![e] = @ - a],
     [sb EXCEPT ![e][u] = @ - a], sf, dep, minted)

GenesisInitExec(u, us, e, a) ==
  /\ CA(a)       \* assumption, see header
  /\ Do([op |-> "GenesisInitExec", u |-> u, us |-> us, e |-> e, amt |-> a],
        xbal[e] + a <= BalLimit /\ sb[e][u] + a <= IntMax,
        bal, [xbal EXCEPT ![e] = @ + a], [sb EXCEPT ![e][u] = @ + a], sf, dep, minted + a)

\* inside an executor's sub-ledger
ExecFrozen(u, us, e, a) ==
  Do([op |-> "ExecFrozen", u |-> u, us |-> us, e |-> e, amt |-> a],
     CA(a) /\ sb[e][u] >= a /\ sf[e][u] + a <= IntMax,
     bal, xbal, [sb EXCEPT ![e][u] = @ - a], [sf EXCEPT ![e][u] = @ + a], dep, minted)

ExecActive(u, us, e, a) ==
  Do([op |-> "ExecActive", u |-> u, us |-> us, e |-> e, amt |-> a],
     CA(a) /\ sf[e][u] >= a /\ sb[e][u] + a <= IntMax,
     bal, xbal, [sb EXCEPT ![e][u] = @ + a], [sf EXCEPT ![e][u] = @ - a], dep, minted)

ExecTransfer(f, fs, t, ts, e, a) ==
  Do([op |-> "ExecTransfer", f |-> f, fs |-> fs, t |-> t, ts |-> ts, e |-> e, amt |-> a],
     f # t /\ CA(a) /\ sb[e][f] >= a /\ sb[e][t] + a <= IntMax,
     bal, xbal, [sb EXCEPT ![e][f] = @ - a, ![e][t] = @ + a], sf, dep, minted)

ExecTransferFrozen(f, fs, t, ts, e, a) ==
  Do([op |-> "ExecTransferFrozen", f |-> f, fs |-> fs, t |-> t, ts |-> ts, e |-> e, amt |-> a],
     f # t /\ CA(a) /\ sf[e][f] >= a /\ sb[e][t] + a <= IntMax,
     bal, xbal, [sb EXCEPT ![e][t] = @ + a], [sf EXCEPT ![e][f] = @ - a], dep, minted)

ExecDepositFrozen(u, us, e, a) ==
  Do([op |-> "ExecDepositFrozen", u |-> u, us |-> us, e |-> e, amt |-> a],
     e \in MinerExecs /\ CA(a) /\ xbal[e] + a <= BalLimit /\ sf[e][u] + a <= IntMax,
     bal, [xbal EXCEPT ![e] = @ + a], sb, [sf EXCEPT ![e][u] = @ + a], dep, minted + a)

\* raw building blocks: one side only (tracked by dep)
ExecDeposit(u, us, e, a) ==
  Do([op |-> "ExecDeposit", u |-> u, us |-> us, e |-> e, amt |-> a],
     CA(a) /\ sb[e][u] + a <= IntMax,
     bal, xbal, [sb EXCEPT ![e][u] = @ + a], sf, [dep EXCEPT ![e] = @ + a], minted)

ExecWithdraw(u, us, e, a) ==
  Do([op |-> "ExecWithdraw", u |-> u, us |-> us, e |-> e, amt |-> a],
     CA(a) /\ sb[e][u] >= a,
     bal, xbal, [sb EXCEPT ![e][u] = @ - a], sf, [dep EXCEPT ![e] = @ - a], minted)

ExecIssueCoins(e, a) ==
  Do([op |-> "ExecIssueCoins", e |-> e, amt |-> a],
     e \in MinerExecs /\ CA(a) /\ xbal[e] + a <= BalLimit,
     bal, [xbal EXCEPT ![e] = @ + a], sb, sf, [dep EXCEPT ![e] = @ - a], minted + a)

On(o) == o \in Ops

Next ==
  \/ On("Transfer") /\ \E f, t \in Users, a \in Amts : \E fs \in Sp(f), ts \in Sp(t) : Transfer(f, fs, t, ts, a)
  \/ On("Mint") /\ \E u \in Users, a \in Amts : \E us \in Sp(u) : Mint(u, us, a)
  \/ On("Burn") /\ \E u \in Users, a \in Amts : \E us \in Sp(u) : Burn(u, us, a)
  \/ On("GenesisInit") /\ \E u \in Users, a \in GenAmts : \E us \in Sp(u) : GenesisInit(u, us, a)
  \/ On("TransferToExec") /\ \E u \in Users, e \in Execs, a \in Amts : \E us \in Sp(u) : TransferToExec(u, us, e, a)
  \/ On("TransferWithdraw") /\ \E u \in Users, e \in Execs, a \in Amts : \E us \in Sp(u) : TransferWithdraw(u, us, e, a)
  \/ On("GenesisInitExec") /\ \E u \in Users, e \in Execs, a \in Amts : \E us \in Sp(u) : GenesisInitExec(u, us, e, a)
  \/ On("ExecFrozen") /\ \E u \in Users, e \in Execs, a \in Amts : \E us \in Sp(u) : ExecFrozen(u, us, e, a)
  \/ On("ExecActive") /\ \E u \in Users, e \in Execs, a \in Amts : \E us \in Sp(u) : ExecActive(u, us, e, a)
  \/ On("ExecTransfer") /\ \E f, t \in Users, e \in Execs, a \in Amts : \E fs \in Sp(f), ts \in Sp(t) : ExecTransfer(f, fs, t, ts, e, a)
  \/ On("ExecTransferFrozen") /\ \E f, t \in Users, e \in Execs, a \in Amts : \E fs \in Sp(f), ts \in Sp(t) : ExecTransferFrozen(f, fs, t, ts, e, a)
  \/ On("ExecDepositFrozen") /\ \E u \in Users, e \in Execs, a \in Amts : \E us \in Sp(u) : ExecDepositFrozen(u, us, e, a)
  \/ On("ExecDeposit") /\ \E u \in Users, e \in Execs, a \in Amts : \E us \in Sp(u) : ExecDeposit(u, us, e, a)
  \/ On("ExecWithdraw") /\ \E u \in Users, e \in Execs, a \in Amts : \E us \in Sp(u) : ExecWithdraw(u, us, e, a)
  \/ On("ExecIssueCoins") /\ \E e \in Execs, a \in Amts : ExecIssueCoins(e, a)

Spec == Init /\ [][Next]_vars

AllOps == {"Transfer", "Mint", "Burn", "GenesisInit", "TransferToExec", "TransferWithdraw", "GenesisInitExec",
           "ExecFrozen", "ExecActive", "ExecTransfer", "ExecTransferFrozen", "ExecDepositFrozen",
           "ExecDeposit", "ExecWithdraw", "ExecIssueCoins"}

-----------------------------------------------------------------------------
\* The property, stated on the model.

TypeOK == /\ bal \in [Users -> Int] /\ xbal \in [Execs -> Int]
          /\ sb \in [Execs -> [Users -> Int]] /\ sf \in [Execs -> [Users -> Int]]

\* no balance or frozen amount is negative
NonNeg == /\ \A u \in Users : bal[u] >= 0
          /\ \A e \in Execs : xbal[e] >= 0 /\ \A u \in Users : sb[e][u] >= 0 /\ sf[e][u] >= 0

\* ... or overflows
NoOverflow == /\ \A u \in Users : bal[u] <= BalLimit
              /\ \A e \in Execs : xbal[e] <= BalLimit /\ \A u \in Users : sb[e][u] <= IntMax /\ sf[e][u] <= IntMax

\* total supply is what was there plus minted / issued / granted minus burned
SupplyOK == Supply = minted

\* each executor address's own balance = sum of balance + frozen held under it
\* (dep = 0 unless the raw one-sided building blocks were called explicitly)
ExecIdentity == \A e \in Execs : Held(e) = xbal[e] + dep[e]

\* supply changes only through mint / burn / issue / grant, by exactly the amount
SupplyRule == [][LET d == Supply' - Supply IN
                 IF res'[1] = "Setup" THEN TRUE        \* a new ledger (trace validation)
                 ELSE IF res'[2] = "err" THEN d = 0
                 ELSE IF res'[1] \in {"Mint", "GenesisInit", "GenesisInitExec", "ExecDepositFrozen", "ExecIssueCoins"} THEN d = res'[3]
                 ELSE IF res'[1] = "Burn" THEN d = -res'[3]
                 ELSE d = 0]_vars

\* the executor identity is disturbed only by the raw building blocks
DepRule == [][\A e \in Execs : dep'[e] # dep[e] =>
                 /\ res'[2] = "ok"
                 /\ res'[1] \in {"Setup", "ExecDeposit", "ExecWithdraw", "ExecIssueCoins"}]_vars

\* an operation that answers an error changes nothing
ErrNoChange == [][res'[2] = "err" => UNCHANGED <<bal, xbal, sb, sf, dep, minted>>]_vars

\* sub-ledger operations never touch the main ledger and vice versa
Separation == [][/\ res'[1] \in {"ExecFrozen", "ExecActive", "ExecTransfer", "ExecTransferFrozen", "ExecDeposit", "ExecWithdraw"}
                      => UNCHANGED <<bal, xbal>>
                 /\ res'[1] \in {"Transfer", "Mint", "Burn", "GenesisInit"} => UNCHANGED <<xbal, sb, sf>>]_vars
=============================================================================
