---------------------------- MODULE Account_MC ----------------------------
(* Constants that cannot be written in a .cfg: the initial ledgers.  All   *)
(* for 3 users / 2 executors, in units of 10^16 (BalLimit 900, IntMax 922).*)
EXTENDS Account

Z3 == <<0, 0, 0>>
L(b, x, sb1, sf1, sb2, sf2) == [bal |-> b, x |-> x, sb |-> <<sb1, sb2>>, sf |-> <<sf1, sf2>>]

\* empty ledger
I0 == L(Z3, <<0, 0>>, Z3, Z3, Z3, Z3)
\* main ledger at the balance limit, empty sub-ledgers
I1 == L(<<899, 5, 0>>, <<0, 0>>, Z3, Z3, Z3, Z3)
\* executor 1 at the balance limit, executor 2 small
I2 == L(<<895, 5, 5>>, <<900, 14>>, <<890, 5, 0>>, <<0, 5, 0>>, <<5, 0, 0>>, <<0, 0, 9>>)
\* every account moderately funded (most operations succeed)
I3 == L(<<20, 20, 20>>, <<50, 18>>, <<20, 20, 0>>, <<10, 0, 0>>, <<9, 0, 9>>, Z3)
\* sub-ledger of executor 1 near the integer limit (reached through raw deposits: dep > 0)
I4 == L(<<10, 0, 9>>, <<900, 0>>, <<915, 0, 0>>, <<5, 913, 0>>, Z3, Z3)

MCInits == {I0, I1, I2, I3, I4}
\* deep run of the conserving operations (no mint / burn / issue / raw deposit)
MCInitsT == {I3}
ConservingOps == {"Transfer", "TransferToExec", "TransferWithdraw", "ExecTransfer", "ExecFrozen", "ExecActive",
                  "ExecTransferFrozen"}

\* the same shapes for 2 users / 1 executor (deep runs)
D(b, x, sb1, sf1) == [bal |-> b, x |-> <<x>>, sb |-> <<sb1>>, sf |-> <<sf1>>]
MCInitsD == {D(<<0, 0>>, 0, <<0, 0>>, <<0, 0>>),
             D(<<895, 5>>, 900, <<890, 5>>, <<0, 5>>),
             D(<<20, 20>>, 50, <<20, 20>>, <<10, 0>>),
             D(<<10, 0>>, 900, <<915, 0>>, <<5, 913>>)}
=============================================================================
