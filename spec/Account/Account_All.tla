---------------------------- MODULE Account_All ----------------------------
(* Exhaustive behaviour export (GEN-all): the history of JSON action labels  *)
(* is part of the state; every complete bounded history is printed once as   *)
(* "@@B <json>".  Used with 2 users (one hex with all three spellings, one   *)
(* base58) and one executor: every operation x every spelling combination x  *)
(* every amount from every initial ledger (All1), and every pair of          *)
(* operations (All2).                                                        *)
EXTENDS Account_MC
VARIABLE hist
AInit == Init /\ hist = <<act>>
ANext == Next /\ hist' = Append(hist, act')
ASpec == AInit /\ [][ANext]_<<vars, hist>>
Done == nops = MaxOps
Export == Done => PrintT(<<"@@B", ToJson(hist)>>)
=============================================================================
