---- MODULE WalletEnc_MC ----
EXTENDS WalletEnc
====
