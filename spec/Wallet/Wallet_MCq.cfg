SPECIFICATION Spec
CONSTANTS
  Callers = {1, 2}
  OpKinds <- CoreOps
  TempUnlock = FALSE
  MaxOps = 3
  GenMode = FALSE
  EmitOn = FALSE
VIEW view
INVARIANTS TypeOK LockInv QuiescentInv
PROPERTIES SecretInv ChangeKeepsFlag
CHECK_DEADLOCK FALSE
