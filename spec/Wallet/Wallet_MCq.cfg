SPECIFICATION Spec
CONSTANTS
  Callers = {1, 2}
  OpKinds <- CoreOps
  TempUnlock = FALSE
  MaxOps = 3
  GenMode = FALSE
  EmitOn = FALSE
VIEW view
INVARIANTS TypeOK LockInv QuiescentInv ObligInv DeadlineInv
PROPERTIES SecretInv ChangeKeepsFlag TimerLocks
CHECK_DEADLOCK FALSE
