SPECIFICATION TSpec
CONSTANTS
  Callers = {1, 2, 3, 4}
  OpKinds <- AllOps
  TempUnlock = FALSE
  MaxOps = 1000000
  GenMode = FALSE
  EmitOn = FALSE
INVARIANTS Mark TypeOK LockInv QuiescentInv ObligInv DeadlineInv
POSTCONDITION TraceDone
CHECK_DEADLOCK FALSE
