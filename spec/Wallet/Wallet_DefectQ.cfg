SPECIFICATION Spec
CONSTANTS
  Callers = {1, 2}
  OpKinds <- CoreOps
  TempUnlock = TRUE
  MaxOps = 3
  GenMode = TRUE
  EmitOn = TRUE
VIEW view
INVARIANTS TypeOK QuiescentInv
CHECK_DEADLOCK FALSE
