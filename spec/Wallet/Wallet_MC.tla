---- MODULE Wallet_MC ----
EXTENDS Wallet
====
