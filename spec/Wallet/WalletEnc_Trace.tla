-------------------------- MODULE WalletEnc_Trace --------------------------
(* Trace specification (binding B, C37): every event recorded from a long    *)
(* random history on the real wallet (more accounts than the exhaustive      *)
(* configuration) must be the corresponding step of WalletEnc with the       *)
(* recorded reply, and the recorded observation (stored blobs decrypted by   *)
(* the real decrypters under the current password, DumpPrivkey / GetSeed     *)
(* answers) must be the one the model predicts after the step.               *)
EXTENDS WalletEnc, TraceLib

VARIABLE l
tvars == <<vars, l>>

Ev == Trace[l]
IsEvent(e) == l <= Len(Trace) /\ Ev.ev = e /\ l' = l + 1

ChkEq(o, m) == /\ \A a \in Accts : o.db[a] = m.db[a] /\ o.dump[a] = m.dump[a]
               /\ Len(o.db) = Cardinality(Accts)
               /\ o.seed = m.seed /\ o.locked = m.locked /\ o.getseed = m.getseed

TInit == Init /\ l = 1

TReset == IsEvent("Reset") /\ UNCHANGED vars

TGenesis == /\ IsEvent("Genesis") /\ Ev.ret = "ok"
            /\ Ev.origin \in Origins
            /\ Ev.cls \in (IF Ev.origin = "api" THEN {"short"} ELSE Classes)
            /\ origin' = Ev.origin /\ cls' = Ev.cls /\ gen' = 0
            /\ seed' = <<0, IF Ev.origin = "api" THEN "new" ELSE "legacy">>
            /\ enc' = [a \in Accts |-> None]
            /\ locked' = TRUE /\ mem' = (Ev.origin = "api") /\ nops' = 0 /\ act' = act
            /\ ChkEq(Ev.chk, Chk)

TImport == IsEvent("Import") /\ Ev.ret = "ok" /\ Import(Ev.a) /\ ChkEq(Ev.chk, Chk)
TInject == IsEvent("Inject") /\ Ev.ret = "ok" /\ Inject(Ev.a) /\ ChkEq(Ev.chk, Chk)
TSetPasswd == /\ IsEvent("SetPasswd") /\ Ev.old \in Pres /\ Ev.new \in NewKinds
              /\ Ev.ret = RetSetPasswd(Ev.old, Ev.new)
              /\ SetPasswd(Ev.old, Ev.new) /\ ChkEq(Ev.chk, Chk)
TUnlock == /\ IsEvent("Unlock") /\ Ev.pw \in Pres /\ Ev.ret = RetUnlock(Ev.pw)
           /\ Unlock(Ev.pw) /\ ChkEq(Ev.chk, Chk)
TLock == IsEvent("Lock") /\ Ev.ret = "ok" /\ Lock /\ ChkEq(Ev.chk, Chk)
TRestart == IsEvent("Restart") /\ Ev.ret = "ok" /\ Restart /\ ChkEq(Ev.chk, Chk)

TNext == TReset \/ TGenesis \/ TImport \/ TInject \/ TSetPasswd \/ TUnlock \/ TLock \/ TRestart
TSpec == TInit /\ [][TNext]_tvars

Mark == MarkHWM(l - 1)
=============================================================================
