SPECIFICATION Spec
CONSTANTS
  Accts = {1, 2}
  Origins = {"api", "legacy"}
  Classes = {"short", "b32", "long"}
  Pres = {"right", "wrong", "samekey"}
  NewKinds = {"fresh", "same", "invalid"}
  MaxOps = 5
  EmitOn = FALSE
VIEW view
INVARIANTS TypeOK TagInv ClsInv
PROPERTIES ChangeAll
CHECK_DEADLOCK FALSE
