SPECIFICATION Spec
CONSTANTS
  Callers = {1, 2}
  OpKinds <- TimerOps
  TempUnlock = FALSE
  MaxOps = 4
  GenMode = TRUE
  EmitOn = TRUE
CHECK_DEADLOCK FALSE
