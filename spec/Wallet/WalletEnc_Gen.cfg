SPECIFICATION Spec
CONSTANTS
  Accts = {1, 2}
  Origins = {"api", "legacy"}
  Classes = {"short", "b32", "long"}
  Pres = {"right", "wrong", "samekey"}
  NewKinds = {"fresh", "same", "invalid"}
  MaxOps = 8
  EmitOn = TRUE
CHECK_DEADLOCK FALSE
