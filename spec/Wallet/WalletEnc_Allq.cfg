SPECIFICATION ASpec
CONSTANTS
  Accts = {1}
  Origins = {"api", "legacy"}
  Classes = {"long"}
  Pres = {"right", "wrong"}
  NewKinds = {"fresh", "invalid"}
  MaxOps = 3
  EmitOn = TRUE
INVARIANT Export
CHECK_DEADLOCK FALSE
