SPECIFICATION Spec
CONSTANTS
  Callers = {1, 2, 3}
  OpKinds <- CoreOps
  TempUnlock = FALSE
  MaxOps = 4
  GenMode = FALSE
  EmitOn = FALSE
VIEW view
INVARIANTS TypeOK LockInv QuiescentInv
PROPERTIES SecretInv ChangeKeepsFlag
CHECK_DEADLOCK FALSE
