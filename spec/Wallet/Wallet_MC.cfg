SPECIFICATION Spec
CONSTANTS
  Callers = {1, 2, 3}
  OpKinds <- CoreOps
  TempUnlock = FALSE
  MaxOps = 4
  GenMode = FALSE
  EmitOn = FALSE
VIEW view
INVARIANTS TypeOK LockInv QuiescentInv ObligInv DeadlineInv
PROPERTIES SecretInv ChangeKeepsFlag TimerLocks
CHECK_DEADLOCK FALSE
