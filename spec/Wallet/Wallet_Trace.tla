---------------------------- MODULE Wallet_Trace ----------------------------
(* Trace specification (binding B, C38): a log of Start / End events of        *)
(* concurrent calls into the real wallet must be a behaviour of Wallet.tla:    *)
(* a Start event is the model's Start with the logged request, an End event    *)
(* is the model's End with the logged reply; the internal steps of the calls   *)
(* and the unlock timer are silent, anywhere between the events.               *)
EXTENDS Wallet, TraceLib

VARIABLE l
tvars == <<vars, l>>

Ev == Trace[l]
IsEvent(e) == l <= Len(Trace) /\ Ev.ev = e /\ l' = l + 1

TInit == Init /\ l = 1

TReset == /\ IsEvent("Reset")
          /\ flag' = 1 /\ auth' = FALSE /\ mtx' = Free /\ timer' = FALSE /\ oblig' = FALSE /\ passed' = FALSE /\ pwd' = 0
          /\ pc' = [c \in Callers |-> "idle"]
          /\ rq' = [c \in Callers |-> NoReq]
          /\ tmp' = [c \in Callers |-> 1]
          /\ ret' = [c \in Callers |-> "-"]
          /\ nops' = 0 /\ act' = act

TStart == /\ IsEvent("Start")
          /\ Ev.c \in Callers
          /\ Start(Ev.c, [op |-> Ev.op, pw |-> Ev.pw, tmo |-> Ev.tmo, new |-> Ev.new])

TEnd == /\ IsEvent("End")
        /\ Ev.c \in Callers
        /\ ret[Ev.c] = Ev.ret
        /\ End(Ev.c)

TSilent == /\ (\E c \in Callers : Step(c) /\ Lbl(c)) \/ TimerFire
           /\ UNCHANGED l

TNext == TReset \/ TStart \/ TEnd \/ TSilent
TSpec == TInit /\ [][TNext]_tvars

Mark == MarkHWM(l - 1)
=============================================================================
