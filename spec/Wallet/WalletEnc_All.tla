---------------------------- MODULE WalletEnc_All ----------------------------
(* Exhaustive behaviour export: every complete history of MaxOps steps is    *)
(* printed once as "@@B <json>" (the history is part of the state).          *)
EXTENDS WalletEnc
VARIABLE hist
AInit == Init /\ hist = <<act>>
ANext == Next /\ hist' = Append(hist, act')
ASpec == AInit /\ [][ANext]_<<vars, hist>>
Done == nops = MaxOps
Export == Done => PrintT(<<"@@B", ToJson(hist)>>)
=============================================================================
