SPECIFICATION ASpec
CONSTANTS
  Accts = {1, 2}
  Origins = {"api", "legacy"}
  Classes = {"short", "b32", "long"}
  Pres = {"right", "wrong"}
  NewKinds = {"fresh", "same", "invalid"}
  MaxOps = 4
  EmitOn = TRUE
INVARIANT Export
CHECK_DEADLOCK FALSE
