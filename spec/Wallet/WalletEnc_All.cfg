SPECIFICATION ASpec
CONSTANTS
  Accts = {1, 2}
  Origins = {"api", "legacy"}
  Classes = {"b32", "long"}
  Pres = {"right", "wrong"}
  NewKinds = {"fresh", "invalid"}
  MaxOps = 4
  EmitOn = TRUE
INVARIANT Export
CHECK_DEADLOCK FALSE
