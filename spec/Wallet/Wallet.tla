------------------------------- MODULE Wallet -------------------------------
(***************************************************************************)
(* Mechanism model of the chain33 wallet lock (property C38).              *)
(*                                                                         *)
(* wallet/wallet.go, wallet/wallet_proc.go:                                *)
(*   flag  = Wallet.isWalletLocked (1 locked / 0 unlocked), an atomic word *)
(*           that IsWalletLocked / GetWalletStatus / checkWalletStatus     *)
(*           read WITHOUT the wallet mutex;                                *)
(*   mtx   = Wallet.mtx, held by ProcWalletUnLock, ProcWalletSetPasswd,    *)
(*           ProcDumpPrivkey, ProcSignRawTx, GetSeed for their whole body; *)
(*           ProcWalletLock and the unlock timer take NO mutex;            *)
(*   timer = the time.AfterFunc armed by an unlock with a timeout (an      *)
(*           unlock without timeout does not disarm an earlier timer).     *)
(*                                                                         *)
(* Callers are goroutines issuing requests (one of them stands for the     *)
(* wallet's bus loop, the others for direct method calls such as the       *)
(* WalletOperate interface handed to wallet policies).  A request is       *)
(* Start -> internal step(s) -> End; each internal step is one critical    *)
(* section of the code.  ProcWalletSetPasswd is three steps, cut exactly   *)
(* where the verification gates of hook H8 sit:                            *)
(*   sp1  lock mutex, validate the new password, tmp := flag               *)
(*   -- gate "setpasswd.loaded" --                                         *)
(*   sp2  CAS(flag,1,0)            (only when TempUnlock)                  *)
(*   -- gate "setpasswd.tempunlocked" --                                   *)
(*   sp3  verify old password, re-encrypt, deferred CAS(flag,0,tmp),       *)
(*        unlock mutex             (the rest; other actors' steps commute  *)
(*        with the pieces of sp3, see families/wallet.py)                  *)
(* TempUnlock = TRUE is the procedure as originally written (the wallet is *)
(* unlocked before the old password is checked); FALSE is the repaired     *)
(* procedure, which never writes the flag.                                 *)
(*                                                                         *)
(* auth is a ghost: set by a successful unlock, cleared by lock / timeout. *)
(* The property: the wallet is visibly unlocked only while authorised, and *)
(* a request returns a secret only while authorised.                       *)
(*                                                                         *)
(* The timeout is an OBLIGATION, not only a possibility.  Ghost oblig: a    *)
(* successful unlock with a timeout promises a lock at its deadline; the   *)
(* promise is discharged by the timer firing, and dropped by a lock or by  *)
(* a NEW SUCCESSFUL unlock (with a timeout: replaced by a new promise) -   *)
(* never by a failed or ticket-only unlock or any other request.  ObligInv *)
(* says a pending promise always has an armed timer behind it.  Ghost      *)
(* passed: the deadline went by and no successful unlock happened since;   *)
(* DeadlineInv: then the wallet is locked.  TimerFire is "the deadline of  *)
(* the armed timer is reached": the harness realises it by waiting.        *)
(* What the code does when a timer is still armed after an unlock WITHOUT  *)
(* timeout (resetTimeout is not called, the old timer still fires and      *)
(* locks) is modelled as it is, but is not an obligation: the property     *)
(* allows either.                                                          *)
(*                                                                         *)
(* Passwords are identifiers: 0 is the initial password, a password change *)
(* request carries a fresh identifier (-1 = a syntactically invalid new    *)
(* password), -1 as presented password = a string that never was valid.    *)
(*                                                                         *)
(* Deliberately not modelled / not compared: error codes beyond the class  *)
(* (locked / bad password), the ticket (mining) lock, account contents     *)
(* (family WalletEnc does that), time (the timer may fire whenever armed). *)
(***************************************************************************)
EXTENDS Integers, Sequences, FiniteSets, Json, TLC

CONSTANTS Callers,     \* caller ids (small integers)
          OpKinds,     \* subset of {"Unlock","Lock","SetPasswd","Dump","Sign","GetSeed","IsLocked","Status"}
          TempUnlock,  \* see above
          MaxOps,      \* bound on the number of requests started
          GenMode,     \* TRUE: only schedules the gated harness can enforce on the real code
          EmitOn       \* FALSE in exhaustive runs: the JSON label is not built

VARIABLES flag, auth, mtx, timer, oblig, passed, pwd, pc, rq, tmp, ret, nops, act
vars == <<flag, auth, mtx, timer, oblig, passed, pwd, pc, rq, tmp, ret, nops, act>>
view == <<flag, auth, mtx, timer, oblig, passed, pwd, pc, rq, tmp, ret, nops>>

AllOps == {"Unlock", "UnlockT", "Lock", "SetPasswd", "Dump", "Sign", "GetSeed", "IsLocked", "Status"}
\* as far as the model is concerned Sign is Dump and Status is IsLocked
CoreOps == {"Unlock", "UnlockT", "Lock", "SetPasswd", "Dump", "GetSeed", "IsLocked"}
\* the requests around the unlock timeout
TimerOps == {"Unlock", "UnlockT", "GetSeed", "IsLocked", "Dump"}

Free == 0                                   \* mtx value when nobody holds it (callers are > 0)
NoReq == [op |-> "none", pw |-> -1, tmo |-> 0, new |-> -1]
MutexOps == {"Unlock", "UnlockT", "SetPasswd", "Dump", "Sign", "GetSeed"}
SecretOps == {"Dump", "Sign", "GetSeed"}

Emit(r) == act' = IF EmitOn THEN ToJson(r) ELSE ""
Chk == [locked |-> (flag' = 1)]

Init == /\ flag = 1 /\ auth = FALSE /\ mtx = Free /\ timer = FALSE /\ oblig = FALSE /\ passed = FALSE /\ pwd = 0
        /\ pc = [c \in Callers |-> "idle"]
        /\ rq = [c \in Callers |-> NoReq]
        /\ tmp = [c \in Callers |-> 1]
        /\ ret = [c \in Callers |-> "-"]
        /\ nops = 0
        /\ act = IF EmitOn THEN ToJson([op |-> "Init"]) ELSE ""

\* the requests a caller may issue now
Presented == {-1, 0, pwd}
Requests ==
  {[op |-> "Unlock", pw |-> p, tmo |-> t, new |-> -1] : p \in Presented, t \in {0, 1}}
  \cup {[op |-> "SetPasswd", pw |-> p, tmo |-> 0, new |-> n] : p \in Presented, n \in {-1, nops + 1}}
  \cup {[op |-> o, pw |-> p, tmo |-> 0, new |-> -1] : o \in {"GetSeed", "UnlockT"}, p \in Presented}
  \cup {[op |-> o, pw |-> -1, tmo |-> 0, new |-> -1] : o \in {"Lock", "Dump", "Sign", "IsLocked", "Status"}}

SPInFlight == \E c \in Callers : pc[c] \in {"sp2", "sp3"}

\* ---- Start: the caller issues the request (nothing happens in the wallet yet) ----
Start(c, r) ==
  /\ pc[c] = "idle" /\ nops < MaxOps /\ r.op \in OpKinds
  /\ GenMode => \* what the gated harness cannot schedule deterministically is left to the
                \* exhaustive run and to the recorded (ungated) executions
       /\ (SPInFlight => r.op \notin {"Unlock", "SetPasswd"})
       /\ (r.op = "SetPasswd" => \A d \in Callers : rq[d].op # "SetPasswd")
       \* while a timer is armed: no lock (its firing would be invisible) and no unlock that
       \* succeeds (it would move the deadline); unlocks that FAIL and ticket-only unlocks are
       \* exactly what must not disturb the pending timeout
       /\ (timer => (r.op # "Lock" /\ (r.op = "Unlock" => r.pw # pwd)))
       /\ (r.op = "Unlock" /\ r.tmo = 1 => \A d \in Callers : pc[d] = "idle")
  /\ pc' = [pc EXCEPT ![c] = "run"]
  /\ rq' = [rq EXCEPT ![c] = r]
  /\ ret' = [ret EXCEPT ![c] = "-"]
  /\ nops' = nops + 1
  /\ UNCHANGED <<flag, auth, mtx, timer, oblig, passed, pwd, tmp>>
  /\ Emit([op |-> "Start", c |-> c, req |-> r,
           blocked |-> (r.op \in MutexOps /\ mtx # Free), chk |-> Chk])

Finish(c, v) == /\ pc' = [pc EXCEPT ![c] = "done"]
                /\ ret' = [ret EXCEPT ![c] = v]

\* ---- operations that take no mutex: one atomic step ----
DoObserve(c) ==
  /\ pc[c] = "run" /\ rq[c].op \in {"IsLocked", "Status"}
  /\ Finish(c, IF flag = 1 THEN "locked" ELSE "unlocked")
  /\ UNCHANGED <<flag, auth, mtx, timer, oblig, passed, pwd, rq, tmp, nops>>

DoLock(c) ==
  /\ pc[c] = "run" /\ rq[c].op = "Lock"
  /\ flag' = 1 /\ auth' = FALSE /\ oblig' = FALSE
  /\ Finish(c, "ok")
  /\ UNCHANGED <<mtx, timer, passed, pwd, rq, tmp, nops>>

\* ---- operations whose whole body runs under the mutex and reads the flag once ----
DoSecret(c) ==
  /\ pc[c] = "run" /\ rq[c].op \in SecretOps /\ mtx = Free
  /\ Finish(c, IF flag = 1 THEN "locked"
               ELSE IF rq[c].op = "GetSeed" /\ rq[c].pw # pwd THEN "badpw"
               ELSE "secret")
  /\ UNCHANGED <<flag, auth, mtx, timer, oblig, passed, pwd, rq, tmp, nops>>

\* ---- ProcWalletUnLock with WalletOrTicket = TRUE: verifies the password, leaves flag and timer alone ----
DoUnlockT(c) ==
  /\ pc[c] = "run" /\ rq[c].op = "UnlockT" /\ mtx = Free
  /\ Finish(c, IF rq[c].pw = pwd THEN "ok" ELSE "fail")
  /\ UNCHANGED <<flag, auth, mtx, timer, oblig, passed, pwd, rq, tmp, nops>>

\* ---- ProcWalletUnLock: verify, CAS(flag,1,0); then (still under the mutex) arm the timer ----
DoUnlock1(c) ==
  /\ pc[c] = "run" /\ rq[c].op = "Unlock" /\ mtx = Free
  /\ IF rq[c].pw # pwd
       THEN /\ Finish(c, "fail") /\ UNCHANGED <<flag, auth, mtx, oblig, passed>>
       ELSE /\ flag' = 0 /\ auth' = TRUE /\ oblig' = FALSE /\ passed' = FALSE
            /\ IF rq[c].tmo = 0
                 THEN Finish(c, "ok") /\ UNCHANGED mtx
                 ELSE /\ mtx' = c /\ pc' = [pc EXCEPT ![c] = "u2"] /\ UNCHANGED ret
  /\ UNCHANGED <<timer, pwd, rq, tmp, nops>>

DoUnlock2(c) ==
  /\ pc[c] = "u2"
  /\ timer' = TRUE /\ mtx' = Free /\ oblig' = TRUE
  /\ Finish(c, "ok")
  /\ UNCHANGED <<flag, auth, passed, pwd, rq, tmp, nops>>

\* ---- ProcWalletSetPasswd ----
DoSP1(c) ==
  /\ pc[c] = "run" /\ rq[c].op = "SetPasswd" /\ mtx = Free
  /\ IF rq[c].new = -1
       THEN /\ Finish(c, "fail") /\ UNCHANGED <<mtx, tmp>>
       ELSE /\ mtx' = c /\ tmp' = [tmp EXCEPT ![c] = flag]
            /\ pc' = [pc EXCEPT ![c] = "sp2"] /\ UNCHANGED ret
  /\ UNCHANGED <<flag, auth, timer, oblig, passed, pwd, rq, nops>>

DoSP2(c) ==
  /\ pc[c] = "sp2"
  /\ flag' = IF TempUnlock THEN 0 ELSE flag
  /\ pc' = [pc EXCEPT ![c] = "sp3"]
  /\ UNCHANGED <<auth, mtx, timer, oblig, passed, pwd, rq, tmp, ret, nops>>

DoSP3(c) ==
  /\ pc[c] = "sp3"
  /\ LET good == /\ rq[c].pw = pwd
                 /\ (TempUnlock => flag = 0)     \* getSeed re-checks the wallet status
     IN /\ pwd' = IF good THEN rq[c].new ELSE pwd
        /\ Finish(c, IF good THEN "ok" ELSE "fail")
  /\ flag' = IF TempUnlock /\ flag = 0 THEN tmp[c] ELSE flag
  /\ mtx' = Free
  /\ UNCHANGED <<auth, timer, oblig, passed, rq, tmp, nops>>

Step(c) == DoObserve(c) \/ DoLock(c) \/ DoSecret(c) \/ DoUnlockT(c) \/ DoUnlock1(c) \/ DoUnlock2(c)
           \/ DoSP1(c) \/ DoSP2(c) \/ DoSP3(c)

\* ---- End: the call returns to the caller ----
End(c) ==
  /\ pc[c] = "done"
  /\ pc' = [pc EXCEPT ![c] = "idle"]
  /\ rq' = [rq EXCEPT ![c] = NoReq]
  /\ UNCHANGED <<flag, auth, mtx, timer, oblig, passed, pwd, tmp, ret, nops>>
  /\ Emit([op |-> "End", c |-> c, kind |-> rq[c].op, ret |-> ret[c], chk |-> Chk])

\* ---- the unlock timer fires ----
TimerFire ==
  /\ timer
  /\ GenMode => flag = 0                        \* observable by polling
  /\ flag' = 1 /\ auth' = FALSE /\ timer' = FALSE
  /\ oblig' = FALSE /\ passed' = (passed \/ oblig)
  /\ UNCHANGED <<mtx, pwd, pc, rq, tmp, ret, nops>>
  /\ Emit([op |-> "Timer", chk |-> Chk])

\* In GenMode a started request runs as soon as it can, a finished one returns at once,
\* and the second half of an unlock follows the first.
Urgent(c) == \/ pc[c] \in {"done", "u2"}
             \/ pc[c] = "run" /\ ENABLED Step(c)
AnyUrgent == \E c \in Callers : Urgent(c)
MayMove(c) == GenMode => (AnyUrgent => Urgent(c))
Lbl(c) == Emit([op |-> "Step", c |-> c, at |-> pc[c], kind |-> rq[c].op, chk |-> Chk])

\* one named action per critical section (so that -coverage reports each of them)
AStart   == \E c \in Callers, r \in Requests : (GenMode => ~AnyUrgent) /\ Start(c, r)
AObserve == \E c \in Callers : MayMove(c) /\ DoObserve(c) /\ Lbl(c)
ALock    == \E c \in Callers : MayMove(c) /\ DoLock(c) /\ Lbl(c)
ASecret  == \E c \in Callers : MayMove(c) /\ DoSecret(c) /\ Lbl(c)
AUnlockT == \E c \in Callers : MayMove(c) /\ DoUnlockT(c) /\ Lbl(c)
AUnlock1 == \E c \in Callers : MayMove(c) /\ DoUnlock1(c) /\ Lbl(c)
AUnlock2 == \E c \in Callers : MayMove(c) /\ DoUnlock2(c) /\ Lbl(c)
ASP1     == \E c \in Callers : MayMove(c) /\ DoSP1(c) /\ Lbl(c)
ASP2     == \E c \in Callers : MayMove(c) /\ DoSP2(c) /\ Lbl(c)
ASP3     == \E c \in Callers : MayMove(c) /\ DoSP3(c) /\ Lbl(c)
AEnd     == \E c \in Callers : MayMove(c) /\ End(c)
ATimer   == (GenMode => ~AnyUrgent) /\ TimerFire

Next == AStart \/ AObserve \/ ALock \/ ASecret \/ AUnlockT \/ AUnlock1 \/ AUnlock2 \/ ASP1 \/ ASP2 \/ ASP3 \/ AEnd \/ ATimer
Spec == Init /\ [][Next]_vars

-----------------------------------------------------------------------------
TypeOK == /\ flag \in {0, 1} /\ auth \in BOOLEAN /\ timer \in BOOLEAN /\ oblig \in BOOLEAN /\ passed \in BOOLEAN
          /\ mtx \in Callers \cup {Free}
          /\ \A c \in Callers : pc[c] \in {"idle", "run", "u2", "sp2", "sp3", "done"}
          /\ (mtx # Free) <=> (\E c \in Callers : pc[c] \in {"u2", "sp2", "sp3"})

\* C38, first sentence: observers see "unlocked" only between a successful unlock and
\* the next lock / timeout ...
LockInv == flag = 0 => auth

\* ... not even after the request that disturbed the flag has returned
QuiescentInv == (~SPInFlight /\ flag = 0) => auth

\* "... before the next lock or unlock timeout": a promised timeout keeps an armed timer
\* behind it whatever requests come in between (failed or ticket-only unlocks included) ...
ObligInv == oblig => timer
\* ... the timer locks when its deadline is reached ...
TimerLocks == [][(timer /\ ~timer') => flag' = 1]_vars
\* ... and once the deadline has passed the wallet is locked until the next successful unlock
DeadlineInv == (passed /\ ~SPInFlight) => flag = 1

\* C38, last sentence: a request hands out a secret (private key, seed, signature made
\* with a stored key) only while the wallet is authorised-unlocked
SecretInv == [][\A c \in Callers : (ret'[c] = "secret" /\ ret[c] # "secret") => auth]_vars

\* C38, second sentence: a password change that fails leaves the flag as it found it
\* (and so does one that succeeds)
ChangeKeepsFlag == [][\A c \in Callers : (pc[c] = "sp3" /\ pc'[c] = "done" /\ flag' = 0) => tmp[c] = 0]_vars
=============================================================================
