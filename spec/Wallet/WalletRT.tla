------------------------------ MODULE WalletRT ------------------------------
(* C37, first sentence, as a decision table: for every password class, every *)
(* supported secret kind and both on-disk formats, decrypting what was        *)
(* encrypted under the same password gives back the original bytes.          *)
(* The specification of a row is simply "orig"; the harness concretises every *)
(* row many times (generated passwords, keys, seeds) with the REAL encrypter  *)
(* (new format) or its own fixed-IV / fixed-nonce encoder (legacy format) and *)
(* the REAL decrypter.  Password classes: the AES key is the password padded  *)
(* with NULs or cut to 32 bytes, so the classes sit around that length.       *)
EXTENDS Integers, Sequences, Json, TLC

PClasses == {"empty", "short", "b31", "b32", "b33", "long", "unicode", "binary"}
Kinds == {"key32", "key64", "seed"}      \* secp256k1 / sm2 keys, ed25519 keys, mnemonic or arbitrary seed
Formats == {"new", "legacy"}

VARIABLES row, act
vars == <<row, act>>

RoundTrip(p, k, f) == "orig"

Init == /\ row \in PClasses \X Kinds \X Formats
        /\ act = ToJson([op |-> "RoundTrip", pcls |-> row[1], kind |-> row[2], fmt |-> row[3],
                         ret |-> RoundTrip(row[1], row[2], row[3])])
Next == UNCHANGED vars
Spec == Init /\ [][Next]_vars
Export == PrintT(<<"@@B", ToJson(<<act>>)>>)
=============================================================================
