SPECIFICATION Spec
CONSTANTS
  Callers = {1, 2}
  OpKinds <- CoreOps
  TempUnlock = TRUE
  MaxOps = 3
  GenMode = TRUE
  EmitOn = TRUE
VIEW view
INVARIANTS TypeOK LockInv
CHECK_DEADLOCK FALSE
