SPECIFICATION Spec
CONSTANTS
  Callers = {1, 2, 3}
  OpKinds <- AllOps
  TempUnlock = FALSE
  MaxOps = 6
  GenMode = TRUE
  EmitOn = TRUE
CHECK_DEADLOCK FALSE
