----------------------------- MODULE WalletEnc -----------------------------
(***************************************************************************)
(* Reference model of the wallet's secret store (property C37).            *)
(*                                                                         *)
(* The wallet keeps one seed blob (AES-GCM, wallet/seed.go) and one blob   *)
(* per account (AES-CBC, wallet/common/crypto.go), all encrypted under the *)
(* wallet password.  Two on-disk formats exist for each: the legacy one    *)
(* (IV / nonce derived from the key) and the new one (random IV / nonce    *)
(* prepended); readers must accept both, writers produce the new one.      *)
(* ProcWalletSetPasswd(old,new) succeeds iff old is the current password   *)
(* and new is syntactically valid; it then re-encrypts the seed and EVERY  *)
(* account under new; otherwise it changes nothing.                        *)
(*                                                                         *)
(* A blob is <<tag, fmt>>: tag = generation of the password it is          *)
(* encrypted under, fmt in {"legacy","new"}.  gen is the generation of the *)
(* wallet's current password.  The property is  tag = gen  for the seed    *)
(* and every account, always (TagInv), observed on the real wallet as:     *)
(* the real decrypters applied to the stored blobs with the current        *)
(* password give back the original key / seed (chk.db, chk.seed), and the  *)
(* wallet's own requests (DumpPrivkey, GetSeed) give them back whenever    *)
(* the wallet is unlocked (chk.dump, chk.getseed).                         *)
(*                                                                         *)
(* cls is the class of the current password's length: "short" (8..30       *)
(* bytes, what the wallet accepts today), "b32" (exactly 32 bytes), "long" *)
(* (> 32 bytes, only the first 32 enter the AES key).  b32 / long exist    *)
(* only as the password of a wallet created by an older release (origin    *)
(* "legacy": the harness writes the database itself with its own           *)
(* fixed-IV / fixed-nonce encoder).                                        *)
(*                                                                         *)
(* Presented passwords: "right", "wrong" (unrelated string), "samekey" (a  *)
(* different string that derives the SAME AES key: shares the first 32     *)
(* bytes, or differs by trailing NULs) - the latter must be refused as old *)
(* password like any wrong one.                                            *)
(*                                                                         *)
(* Deliberately not compared: error codes, ciphertext bytes (random IV),   *)
(* what a decryption under a wrong password returns.                       *)
(***************************************************************************)
EXTENDS Integers, Sequences, FiniteSets, Json, TLC

CONSTANTS Accts,     \* account slots (1..n)
          Origins,   \* subset of {"api", "legacy"}
          Classes,   \* subset of {"short", "b32", "long"} for the legacy origin
          Pres,      \* presented passwords: subset of {"right", "wrong", "samekey"}
          NewKinds,  \* new passwords: subset of {"fresh", "same", "invalid"}
          MaxOps,
          EmitOn

VARIABLES origin, cls, gen, seed, enc, locked, mem, nops, act
vars == <<origin, cls, gen, seed, enc, locked, mem, nops, act>>
view == <<origin, cls, gen, seed, enc, locked, mem, nops>>

None == <<-1, "none">>
Present(a) == enc[a] # None

Emit(r) == act' = IF EmitOn THEN ToJson(r) ELSE ""

\* what the harness must observe after the step
ChkOf(e, sd, g, lk) ==
  LET Ok(b) == IF b[1] = g THEN "orig" ELSE "lost" IN
  [db      |-> [a \in Accts |-> IF e[a] = None THEN "none" ELSE Ok(e[a])],
   seed    |-> Ok(sd),
   locked  |-> lk,
   dump    |-> [a \in Accts |-> IF e[a] = None THEN "none" ELSE IF lk THEN "locked" ELSE Ok(e[a])],
   getseed |-> IF lk THEN "locked" ELSE Ok(sd)]
Chk == ChkOf(enc', seed', gen', locked')

Init == /\ origin \in Origins
        /\ cls \in (IF origin = "api" THEN {"short"} ELSE Classes)
        /\ gen = 0
        /\ seed = <<0, IF origin = "api" THEN "new" ELSE "legacy">>
        /\ enc = [a \in Accts |-> None]
        /\ locked = TRUE
        /\ mem = (origin = "api")       \* SaveSeed leaves the password in memory
        /\ nops = 0
        \* "Genesis" is a real step for the harness: it creates the wallet database
        /\ act = IF EmitOn THEN ToJson([op |-> "Genesis", origin |-> origin, cls |-> cls, ret |-> "ok",
                                        chk |-> ChkOf(enc, seed, gen, locked)]) ELSE ""

\* import through the wallet (ProcImportPrivKey): needs the wallet unlocked
Import(a) ==
  /\ nops < MaxOps /\ ~locked /\ ~Present(a)
  /\ enc' = [enc EXCEPT ![a] = <<gen, "new">>]
  /\ nops' = nops + 1
  /\ UNCHANGED <<origin, cls, gen, seed, locked, mem>>
  /\ Emit([op |-> "Import", a |-> a, ret |-> "ok", chk |-> Chk])

\* an account record written by an older release: legacy blob under the current password
Inject(a) ==
  /\ nops < MaxOps /\ ~Present(a)
  /\ enc' = [enc EXCEPT ![a] = <<gen, "legacy">>]
  /\ nops' = nops + 1
  /\ UNCHANGED <<origin, cls, gen, seed, locked, mem>>
  /\ Emit([op |-> "Inject", a |-> a, ret |-> "ok", chk |-> Chk])

NewValid(nk) == nk = "fresh" \/ (nk = "same" /\ cls = "short")
RetSetPasswd(old, nk) == IF old = "right" /\ NewValid(nk) THEN "ok" ELSE "fail"
RetUnlock(p) == IF p = "right" THEN "ok" ELSE "fail"

SetPasswd(old, nk) ==
  /\ nops < MaxOps
  /\ LET ok == old = "right" /\ NewValid(nk)
         g  == IF nk = "fresh" THEN gen + 1 ELSE gen
     IN /\ gen' = IF ok THEN g ELSE gen
        /\ cls' = IF ok THEN "short" ELSE cls
        /\ seed' = IF ok THEN <<g, "new">> ELSE seed
        /\ enc' = IF ok THEN [a \in Accts |-> IF Present(a) THEN <<g, "new">> ELSE None] ELSE enc
        /\ mem' = (mem \/ ok)
        /\ nops' = nops + 1
        /\ UNCHANGED <<origin, locked>>
        /\ Emit([op |-> "SetPasswd", old |-> old, new |-> nk,
                 ret |-> IF ok THEN "ok" ELSE "fail", chk |-> Chk])

Unlock(p) ==
  /\ nops < MaxOps
  /\ locked' = IF p = "right" THEN FALSE ELSE locked
  /\ mem' = (mem \/ p = "right")
  /\ nops' = nops + 1
  /\ UNCHANGED <<origin, cls, gen, seed, enc>>
  /\ Emit([op |-> "Unlock", pw |-> p, ret |-> IF p = "right" THEN "ok" ELSE "fail", chk |-> Chk])

Lock ==
  /\ nops < MaxOps /\ ~locked
  /\ locked' = TRUE
  /\ nops' = nops + 1
  /\ UNCHANGED <<origin, cls, gen, seed, enc, mem>>
  /\ Emit([op |-> "Lock", ret |-> "ok", chk |-> Chk])

\* close the wallet and open it again on the same database
Restart ==
  /\ nops < MaxOps
  /\ locked' = TRUE /\ mem' = FALSE
  /\ nops' = nops + 1
  /\ UNCHANGED <<origin, cls, gen, seed, enc>>
  /\ Emit([op |-> "Restart", ret |-> "ok", chk |-> Chk])

Next == \/ \E a \in Accts : Import(a) \/ Inject(a)
        \/ \E o \in Pres, nk \in NewKinds : SetPasswd(o, nk)
        \/ \E p \in Pres : Unlock(p)
        \/ Lock \/ Restart

Spec == Init /\ [][Next]_vars

-----------------------------------------------------------------------------
TypeOK == /\ gen \in 0..MaxOps /\ cls \in {"short", "b32", "long"}
          /\ \A a \in Accts : enc[a] = None \/ (enc[a][1] \in 0..MaxOps /\ enc[a][2] \in {"legacy", "new"})

\* C37: everything stored decrypts under the current password
TagInv == seed[1] = gen /\ \A a \in Accts : Present(a) => enc[a][1] = gen

\* a password change, successful or not, keeps every secret readable under the
\* password that is current afterwards, and a failed one changes nothing at all
ChangeAll == [][\A o \in Pres, nk \in NewKinds : SetPasswd(o, nk) =>
                  /\ seed'[1] = gen' /\ \A a \in Accts : Present(a) => (Present(a)' /\ enc'[a][1] = gen')
                  /\ (~(o = "right" /\ NewValid(nk)) => <<gen, cls, seed, enc>>' = <<gen, cls, seed, enc>>)]_vars

\* only a wallet written by an older release can hold a password the wallet refuses today
ClsInv == cls # "short" => (origin = "legacy" /\ gen = 0)
=============================================================================
