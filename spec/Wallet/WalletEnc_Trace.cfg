SPECIFICATION TSpec
CONSTANTS
  Accts = {1, 2, 3, 4}
  Origins = {"api", "legacy"}
  Classes = {"short", "b32", "long"}
  Pres = {"right", "wrong", "samekey"}
  NewKinds = {"fresh", "same", "invalid"}
  MaxOps = 1000000
  EmitOn = FALSE
INVARIANTS Mark TagInv ClsInv
POSTCONDITION TraceDone
CHECK_DEADLOCK FALSE
