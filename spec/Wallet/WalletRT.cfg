SPECIFICATION Spec
INVARIANT Export
CHECK_DEADLOCK FALSE
