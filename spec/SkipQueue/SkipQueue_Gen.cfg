SPECIFICATION Spec
CONSTANTS
  Pushes <- PushesG
  Caps = {1, 2, 3, 5}
  MaxOps = 40
  EmitOn = TRUE
CHECK_DEADLOCK FALSE
