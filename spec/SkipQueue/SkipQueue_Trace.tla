-------------------------- MODULE SkipQueue_Trace --------------------------
(* Trace specification: every call recorded from the real queue must be a   *)
(* step of SkipQueue with the recorded reply and the recorded projection    *)
(* (Walk order, First, Last, Size, bytes, membership).                      *)
EXTENDS SkipQueue, TraceLib

VARIABLE l
tvars == <<vars, l>>

Ev == Trace[l]
IsEvent(e) == l <= Len(Trace) /\ Ev.ev = e /\ l' = l + 1

TInit == q = <<>> /\ cap = 1 /\ arrivals = 0 /\ nops = 0 /\ act = "" /\ l = 1

TReset == /\ IsEvent("Reset")
          /\ q' = <<>> /\ cap' = Ev.cap /\ arrivals' = 0 /\ nops' = 0 /\ act' = act

ChkMatches(c, s) ==
  LET m == Chk(s) IN
  /\ c.walk = m.walk /\ c.walk2 = m.walk2 /\ c.first = m.first /\ c.last = m.last
  /\ c.size = m.size /\ c.bytes = m.bytes /\ c.members = m.members /\ c.scores = m.scores

TPush == /\ IsEvent("Push")
         /\ Ev.ret = PushRet(Ev.id, Ev.score)
         /\ Push(Ev.id, Ev.score, Ev.size)
         /\ ChkMatches(Ev.chk, q')
TRemove == /\ IsEvent("Remove")
           /\ Ev.ret = RemoveRet(Ev.id)
           /\ Remove(Ev.id)
           /\ ChkMatches(Ev.chk, q')

TNext == TReset \/ TPush \/ TRemove
TSpec == TInit /\ [][TNext]_tvars

Mark == MarkHWM(l - 1)
=============================================================================
