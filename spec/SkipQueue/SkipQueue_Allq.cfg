SPECIFICATION ASpec
CONSTANTS
  Pushes <- PushesQ
  Caps = {1, 2}
  MaxOps = 4
  EmitOn = TRUE
INVARIANT Export
CHECK_DEADLOCK FALSE
