---- MODULE SkipQueue_MC ----
EXTENDS SkipQueue
\* <<id, score, size>>; sizes are powers of two so that the byte counter identifies the member set
PushesQ == {<<1, 0, 1>>, <<2, 0, 2>>, <<3, 1, 4>>, <<4, -1, 8>>}
PushesT == {<<1, 0, 1>>, <<2, 0, 2>>, <<3, 0, 4>>, <<4, 1, 8>>, <<5, -1, 16>>, <<6, -2, 32>>}
\* simulation: more ids, id 7 may come back with another score
PushesG == {<<1, 0, 1>>, <<2, 0, 2>>, <<3, 0, 4>>, <<4, 1, 8>>, <<5, -1, 16>>, <<6, -2, 32>>,
            <<7, 1, 64>>, <<7, -1, 64>>, <<8, 2, 128>>, <<9, -2, 256>>, <<10, 0, 0>>}
====
