SPECIFICATION ASpec
CONSTANTS
  Pushes <- PushesQ
  Caps = {1, 2, 3}
  MaxOps = 5
  EmitOn = TRUE
INVARIANT Export
CHECK_DEADLOCK FALSE
