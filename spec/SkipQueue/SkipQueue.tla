----------------------------- MODULE SkipQueue -----------------------------
(***************************************************************************)
(* Reference model of chain33's score-ordered queue (common/skiplist       *)
(* Queue on top of SkipList): property C24.                                *)
(*                                                                         *)
(* q is the queue content as a sequence of entries <<id, score, size, arr>>*)
(* ranked by score (descending) and, among equal scores, by arrival        *)
(* (ascending; arr is a global push counter).                              *)
(*   Push(id,s,b): "exist" if id is a member; otherwise, if the queue is   *)
(*        full, the newcomer is admitted only by evicting the last         *)
(*        (lowest-ranked) entry and only if it ranks strictly higher,      *)
(*        i.e. has a strictly greater score (an equal score arrives later, *)
(*        so it ranks lower): else "full"; otherwise inserted behind all   *)
(*        entries of greater or equal score.                               *)
(*   Remove(id): "notfound" if id is no member, else the entry is removed. *)
(* After every call the whole observable state is compared: Walk order,    *)
(* Walk with a count, First, Last, Size, GetCacheBytes, Exist and GetItem  *)
(* of every id of the universe.                                            *)
(*                                                                         *)
(* Deliberately NOT compared: error values beyond the classes ok / exist / *)
(* full / notfound, the skip list's level structure (random; each          *)
(* behaviour is replayed under several math/rand seeds), capacity 0 (the   *)
(* priority mempools never configure it), Scorer.Compare answering "Big"   *)
(* for a newcomer of equal score (arrival order is the tie-break here).    *)
(***************************************************************************)
EXTENDS Integers, Sequences, FiniteSets, Json, TLC

CONSTANTS Pushes,   \* set of <<id, score, size>>: what may be pushed
          Caps,     \* capacities to try (>= 1)
          MaxOps,   \* calls per behaviour
          EmitOn    \* FALSE in exhaustive runs: the JSON action label is not built

VARIABLES q, cap, arrivals, nops, act
vars == <<q, cap, arrivals, nops, act>>
view == <<q, cap, arrivals, nops>>

Ids == {p[1] : p \in Pushes}
IdsOf(s) == {s[i][1] : i \in 1..Len(s)}
PosOf(s, id) == CHOOSE i \in 1..Len(s) : s[i][1] = id

MinOf(S) == CHOOSE x \in S : \A y \in S : x <= y
RECURSIVE Sorted(_)
Sorted(S) == IF S = {} THEN <<>> ELSE LET m == MinOf(S) IN <<m>> \o Sorted(S \ {m})
RECURSIVE SumSize(_)
SumSize(s) == IF s = <<>> THEN 0 ELSE s[1][3] + SumSize(Tail(s))

RemoveAt(s, i) == SubSeq(s, 1, i - 1) \o SubSeq(s, i + 1, Len(s))
\* behind every entry whose score is greater or equal
InsertRanked(s, e) == LET k == Cardinality({j \in 1..Len(s) : s[j][2] >= e[2]}) IN
                      SubSeq(s, 1, k) \o <<e>> \o SubSeq(s, k + 1, Len(s))

\* projection compared after every call
Chk(s) == [walk  |-> [i \in 1..Len(s) |-> s[i][1]],
           walk2 |-> [i \in 1..(IF Len(s) < 2 THEN Len(s) ELSE 2) |-> s[i][1]],
           first |-> IF s = <<>> THEN -1 ELSE s[1][1],
           last  |-> IF s = <<>> THEN -1 ELSE s[Len(s)][1],
           size  |-> Len(s),
           bytes |-> SumSize(s),
           members |-> Sorted(IdsOf(s)),
           scores  |-> [i \in 1..Len(s) |-> s[i][2]]]

Emit(r) == act' = IF EmitOn THEN ToJson(r) ELSE ""

Init == /\ q = <<>> /\ cap \in Caps /\ arrivals = 0 /\ nops = 0
        /\ act = IF EmitOn THEN ToJson([op |-> "New", cap |-> cap, ret |-> "ok", chk |-> Chk(<<>>)]) ELSE ""

\* the reply and the successor queue of Push
PushRet(id, s) == IF id \in IdsOf(q) THEN "exist"
                  ELSE IF Len(q) >= cap /\ ~(s > q[Len(q)][2]) THEN "full"
                  ELSE "ok"
PushNext(id, s, b) ==
  LET e == <<id, s, b, arrivals + 1>> IN
  IF PushRet(id, s) # "ok" THEN q
  ELSE IF Len(q) >= cap THEN InsertRanked(SubSeq(q, 1, Len(q) - 1), e)
  ELSE InsertRanked(q, e)

Push(id, s, b) ==
  /\ nops < MaxOps /\ nops' = nops + 1
  /\ q' = PushNext(id, s, b)
  /\ arrivals' = IF PushRet(id, s) = "ok" THEN arrivals + 1 ELSE arrivals
  /\ UNCHANGED cap
  /\ Emit([op |-> "Push", id |-> id, score |-> s, size |-> b, ret |-> PushRet(id, s),
           evict |-> IF PushRet(id, s) = "ok" /\ Len(q) >= cap THEN q[Len(q)][1] ELSE -1,
           chk |-> Chk(q')])

RemoveRet(id) == IF id \in IdsOf(q) THEN "ok" ELSE "notfound"
Remove(id) ==
  /\ nops < MaxOps /\ nops' = nops + 1
  /\ q' = IF id \in IdsOf(q) THEN RemoveAt(q, PosOf(q, id)) ELSE q
  /\ UNCHANGED <<cap, arrivals>>
  /\ Emit([op |-> "Remove", id |-> id, ret |-> RemoveRet(id), chk |-> Chk(q')])

Next == \/ \E p \in Pushes : Push(p[1], p[2], p[3])
        \/ \E id \in Ids : Remove(id)

Spec == Init /\ [][Next]_vars

-----------------------------------------------------------------------------
\* The property stated on the model.

\* e ranks strictly higher than f
Higher(e, f) == e[2] > f[2] \/ (e[2] = f[2] /\ e[4] < f[4])

TypeOK == /\ cap \in Caps /\ nops \in 0..MaxOps /\ arrivals \in 0..nops
          /\ \A i \in 1..Len(q) : q[i][4] \in 1..arrivals
\* descending score, ties in arrival order
Ordered == \A i, j \in 1..Len(q) : i < j => Higher(q[i], q[j])
\* never above capacity, no id twice
Bounded == Len(q) <= cap
NoDup == \A i, j \in 1..Len(q) : i # j => q[i][1] # q[j][1]

\* a push never changes anything but: nothing / insertion / eviction of the last entry plus insertion;
\* on a full queue the newcomer enters only by evicting the lowest-ranked entry and only if it ranks strictly higher
PushRule == [][\A p \in Pushes : Push(p[1], p[2], p[3]) =>
                 \/ q' = q
                 \/ /\ Len(q) < cap /\ p[1] \notin IdsOf(q)
                    /\ IdsOf(q') = IdsOf(q) \cup {p[1]}
                 \/ /\ Len(q) = cap /\ p[1] \notin IdsOf(q)
                    /\ IdsOf(q') = (IdsOf(q) \ {q[Len(q)][1]}) \cup {p[1]}
                    /\ Higher(q'[PosOf(q', p[1])], q[Len(q)])
                    /\ \A i \in 1..(Len(q) - 1) : Higher(q[i], q[Len(q)])]_vars
\* a full queue refuses exactly the newcomers that do not rank strictly higher than its last entry
FullRule == [][\A p \in Pushes : (Push(p[1], p[2], p[3]) /\ Len(q) = cap /\ p[1] \notin IdsOf(q)) =>
                 ((q' = q) <=> ~(p[2] > q[Len(q)][2]))]_vars
\* entries keep their relative order; remove takes out exactly one member
Stable == [][\A i, j \in 1..Len(q) : (i < j /\ q[i][1] \in IdsOf(q') /\ q[j][1] \in IdsOf(q'))
                 => PosOf(q', q[i][1]) < PosOf(q', q[j][1])]_vars
RemoveRule == [][\A id \in Ids : Remove(id) => IdsOf(q') = IdsOf(q) \ {id}]_vars
=============================================================================
