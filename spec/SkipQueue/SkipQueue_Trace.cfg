SPECIFICATION TSpec
CONSTANTS
  Pushes = {}
  Caps = {1}
  MaxOps = 1000000
  EmitOn = FALSE
INVARIANTS Mark Ordered Bounded NoDup
POSTCONDITION TraceDone
CHECK_DEADLOCK FALSE
