SPECIFICATION Spec
CONSTANTS
  Pushes <- PushesQ
  Caps = {1, 2, 3}
  MaxOps = 5
  EmitOn = FALSE
VIEW view
INVARIANTS TypeOK Ordered Bounded NoDup
PROPERTIES PushRule FullRule Stable RemoveRule
CHECK_DEADLOCK FALSE
