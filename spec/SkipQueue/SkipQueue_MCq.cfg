SPECIFICATION Spec
CONSTANTS
  Pushes <- PushesT
  Caps = {1, 2, 3, 4}
  MaxOps = 9
  EmitOn = FALSE
VIEW view
INVARIANTS TypeOK Ordered Bounded NoDup
PROPERTIES PushRule FullRule Stable RemoveRule
CHECK_DEADLOCK FALSE
