--------------------------- MODULE SkipQueue_All ---------------------------
(* Exhaustive behaviour export (GEN-all): every call sequence of exactly    *)
(* MaxOps calls, for every capacity, printed once as "@@B <json>".          *)
EXTENDS SkipQueue_MC
VARIABLE hist
AInit == Init /\ hist = <<act>>
ANext == Next /\ hist' = Append(hist, act')
ASpec == AInit /\ [][ANext]_<<vars, hist>>
Done == nops = MaxOps
Export == Done => PrintT(<<"@@B", ToJson(hist)>>)
=============================================================================
