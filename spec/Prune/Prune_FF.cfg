SPECIFICATION FFSpec
CONSTANTS
  NK = 2
  NV = 2
  Heights <- FFHeights
  PruneH = 2
  MaxSteps = 100
  MaxWrites = 1
  Reorgs = TRUE
  MaxJump = 2
  EmitOn = TRUE
INVARIANT Export
CHECK_DEADLOCK FALSE
