SPECIFICATION MSpec
CONSTANTS
  NK = 2
  NV = 2
  Heights <- MCHeightsSmall
  PruneH = 2
  MaxSteps = 5
  MaxWrites = 1
  Reorgs = TRUE
  MaxJump = 3
  EmitOn = TRUE
  SL = 500000
  TL = 1500000
  KeepRoots = TRUE
VIEW mview
INVARIANTS TypeOK MTypeOK Balanced Explained NoCrash
CHECK_DEADLOCK FALSE
