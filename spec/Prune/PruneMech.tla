----------------------------- MODULE PruneMech -----------------------------
(***************************************************************************)
(* C05 - mechanism model of mavl pruning (system/store/mavl/db: tree.go    *)
(* Save/SaveNode/saveRootHash/isRemoveLeafCountKey/DelLeafCountKV,         *)
(* prune.go pruningFirstLevelNode/deleteNode/pruningSecondLevelNode/       *)
(* deleteOldNode), layered on the reference model Prune: every action is   *)
(* the reference action plus what the implementation does to its database. *)
(* It models what the code does, including what I believe is wrong; TLC    *)
(* checks PruneSafe on it and every counterexample is only a CANDIDATE     *)
(* that the harness replays on the real store.                             *)
(*                                                                         *)
(*   db     node records: key -> <<>> (leaf) or <<left key, right key>>    *)
(*          key = <<pf, content>>, pf = height prefix of the hash key      *)
(*          ("_mb_-h-" / "_mh_-h-"), 0 = un-prefixed (the root record);    *)
(*          content = <<"L",k,v>> | <<"I",content,content>> stands for the *)
(*          SHA-256 of the node (injective constructor)                    *)
(*   idx    first-level leaf version index (leafKeyCountPrefix): records   *)
(*          [k, h, lk, anc] = key, height, leaf node key, PruneData hashes *)
(*   old    second-level index (oldLeafKeyCountPrefix)                     *)
(*   roots  root-hash-per-height records (rootHashHeightPrefix)            *)
(*   rk     root key of every commit of the current chain                  *)
(*   maxH   maxBlockHeight; secH  secLvlPruningH                           *)
(*                                                                         *)
(* Deviations (named): no AVL rotation is modelled (NK <= 3: never needed, *)
(* checked by Balanced); the scan batching of 1000 keys / 10000 entries is *)
(* not modelled; the background run started by Save is taken to complete   *)
(* before the next call (the harness waits for it); the writes of a commit *)
(* are applied in ascending key order (as the driver does).                *)
(***************************************************************************)
EXTENDS Prune

CONSTANTS SL,        \* secondLevelPruningHeight (500000)
          TL,        \* threeLevelPruningHeight (1500000)
          KeepRoots  \* TRUE: the code as repaired - a prune run never deletes a record keyed by the root
                     \* hash of a state recorded at a height >= cur-PruneH or by the newest root recorded
                     \* below (retainedRootHashes), nor an un-prefixed leaf that is the kept version's leaf,
                     \* and the re-commit cleanup also finds the entry of a one-leaf tree; FALSE: as found

VARIABLES db, idx, old, roots, rk, maxH, secH, crashed,
          wr,     \* bookkeeping for the classification of counterexamples: keys written by each commit of the chain
          dead    \* ... and by each dropped commit whose height was not committed again
mvars == <<db, idx, old, roots, rk, maxH, secH, crashed, wr, dead>>
allvars == <<rvars, mvars, act>>
mview == <<rvars, mvars>>

ASSUME NK <= 3

Nil == <<"N", 0, 0, 0>>
NEWPF == -1

RECURSIVE Content(_)
Content(n) == IF n[1] = "L" THEN <<"L", n[2], n[3]>>
              ELSE IF n[1] = "I" THEN <<"I", Content(n[2]), Content(n[3])>>
              ELSE n[2][2]                             \* "M": the content part of the stored key
KeyOfH(n, h) == IF n[1] = "M" THEN n[2] ELSE <<IF n[4] = NEWPF THEN h ELSE n[4], Content(n)>>

RECURSIVE MinKeyC(_)
MinKeyC(c) == IF c[1] = "L" THEN c[2] ELSE MinKeyC(c[2])
RECURSIVE HeightC(_)
HeightC(c) == IF c[1] = "L" THEN 0 ELSE 1 + Max2(HeightC(c[2]), HeightC(c[3]))
RECURSIVE BalancedC(_)
BalancedC(c) == IF c[1] = "L" THEN TRUE
                ELSE /\ HeightC(c[2]) - HeightC(c[3]) \in {-1, 0, 1}
                     /\ BalancedC(c[2]) /\ BalancedC(c[3])

\* the tree below a stored key, as the code would load it node by node ("M" = record missing)
RECURSIVE Load(_, _)
Load(d, key) == IF key \notin DOMAIN d THEN <<"M", key, 0, 0>>
                ELSE IF key[2][1] = "L" THEN <<"L", key[2][2], key[2][3], key[1]>>
                ELSE <<"I", Load(d, d[key][1]), Load(d, d[key][2]), key[1]>>

\* Node.set without rotation: copied / created nodes carry NEWPF
RECURSIVE Ins(_, _, _)
Ins(n, k, v) ==
  IF n[1] = "L" THEN
       IF k < n[2] THEN <<"I", <<"L", k, v, NEWPF>>, n, NEWPF>>
       ELSE IF k = n[2] THEN <<"L", k, v, NEWPF>>
       ELSE <<"I", n, <<"L", k, v, NEWPF>>, NEWPF>>
  ELSE IF n[1] = "I" THEN
       IF k < MinKeyC(Content(n[3])) THEN <<"I", Ins(n[2], k, v), n[3], NEWPF>>
       ELSE <<"I", n[2], Ins(n[3], k, v), NEWPF>>
  ELSE n
RECURSIVE InsFrom(_, _, _)
InsFrom(n, w, k) == IF k > NK THEN n
                    ELSE InsFrom(IF w[k] = 0 THEN n
                                 ELSE IF n = Nil THEN <<"L", k, w[k], NEWPF>> ELSE Ins(n, k, w[k]), w, k + 1)

\* records written by Node.save for the new nodes of tree n committed at height h
RECURSIVE SaveSet(_, _, _, _)
SaveSet(n, h, isRoot, anc) ==
  IF n[1] \notin {"L", "I"} \/ n[4] # NEWPF THEN {}
  ELSE LET me == IF isRoot THEN <<0, Content(n)>> ELSE KeyOfH(n, h) IN
       IF n[1] = "L" THEN {[key |-> me, rec |-> <<>>, leaf |-> TRUE, k |-> n[2], anc |-> anc]}
       ELSE {[key |-> me, rec |-> <<KeyOfH(n[2], h), KeyOfH(n[3], h)>>, leaf |-> FALSE, k |-> 0, anc |-> anc]}
            \cup SaveSet(n[2], h, FALSE, anc \cup {me}) \cup SaveSet(n[3], h, FALSE, anc \cup {me})

\* Tree.Get below a stored root key: value, 0 (absent) or -1 (a record on the path is missing)
RECURSIVE Walk(_, _, _)
Walk(d, key, k) == IF key \notin DOMAIN d THEN -1
                   ELSE IF key[2][1] = "L" THEN (IF key[2][2] = k THEN key[2][3] ELSE 0)
                   ELSE IF k < MinKeyC(key[2][3]) THEN Walk(d, d[key][1], k) ELSE Walk(d, d[key][2], k)
\* Tree.GetHash: the leaf's stored key, <<"none">> or <<"missing">>
RECURSIVE WalkHash(_, _, _)
WalkHash(d, key, k) == IF key \notin DOMAIN d THEN <<"missing">>
                       ELSE IF key[2][1] = "L" THEN (IF key[2][2] = k THEN key ELSE <<"none">>)
                       ELSE IF k < MinKeyC(key[2][3]) THEN WalkHash(d, d[key][1], k) ELSE WalkHash(d, d[key][2], k)

Restrict(f, S) == [x \in S |-> f[x]]

\* ---- DelLeafCountKV(h): for every root recorded at h that still loads, drop the index entries at
\* ---- height h of the keys of all leaf records stored with prefix h, as found in that root's tree
LeafKeysAt(d, h) == {key \in DOMAIN d : key[1] = h /\ key[2][1] = "L"}
RootsAt(d, rts, h) == {<<0, r[2]>> : r \in {x \in rts : x[1] = h /\ <<0, x[2]>> \in DOMAIN d}}
DelIdx(d, ix, rts, h) ==
  {e \in ix : /\ e.h = h
              /\ \E rootk \in RootsAt(d, rts, h) :
                    \/ \E lk \in LeafKeysAt(d, h) : lk[2][2] = e.k /\ WalkHash(d, rootk, e.k) = e.lk
                    \* repaired: a one-leaf tree's leaf is the root (no height prefix, not found by the scan)
                    \/ KeepRoots /\ rootk[2][1] = "L" /\ rootk[2][2] = e.k /\ e.lk = rootk
                    \* repaired: the entry of every leaf record stored with prefix h goes, under its own key
                    \/ KeepRoots /\ e.lk \in LeafKeysAt(d, h)}
DelCrash(d, rts, h) == \E rootk \in RootsAt(d, rts, h), lk \in LeafKeysAt(d, h) :
                          WalkHash(d, rootk, lk[2][2]) = <<"missing">>

\* ---- pruning ----
EntryNodes(S) == UNION {e.anc \cup {e.lk} : e \in S}
\* deleteNode / deleteOldNode per key: entries sorted by height descending; if the two newest
\* have different heights everything but the newest goes
TailOf(S) == IF Cardinality(S) < 2 THEN {}
             ELSE LET mh == MaxOf({e.h : e \in S}) IN
                  IF Cardinality({e \in S : e.h = mh}) >= 2 THEN {} ELSE {e \in S : e.h # mh}
\* retainedRootHashes(cur): root keys a run at cur must not delete
KeepSet(rts, cur) ==
  IF ~KeepRoots THEN {}
  ELSE LET lowest == cur - PruneH
           below == {r[1] : r \in {x \in rts : x[1] < lowest}}
           hb == IF below = {} THEN -1 ELSE MaxOf(below)
       \* (one more interval below the newest record: it may stem from an abandoned branch)
       IN {<<0, r[2]>> : r \in {x \in rts : x[1] >= lowest \/ (hb >= 0 /\ x[1] >= hb - PruneH)}}
\* node records deleted with the tail T of one key's entries S; the repaired code keeps the root
\* keys of KeepSet and a leaf key equal to the newest (kept) entry's leaf key
TailNodes(S, T, keep) ==
  IF T = {} THEN {}
  ELSE LET top == CHOOSE e \in S : \A f \in S : f.h <= e.h
           spare == IF KeepRoots THEN keep \cup {top.lk} ELSE {}
       IN UNION {(e.anc \ keep) \cup ({e.lk} \ spare) : e \in T}
Level1(d, ix, ol, rts, cur) ==
  LET mv == {e \in ix : cur >= e.h + SL}
      cand == {e \in ix : cur < e.h + SL /\ cur >= e.h + PruneH}
      S(k) == {e \in cand : e.k = k}
      del == UNION {TailOf(S(k)) : k \in Keys}
      dn == UNION {TailNodes(S(k), TailOf(S(k)), KeepSet(rts, cur)) : k \in Keys}
  IN [db |-> Restrict(d, DOMAIN d \ dn), idx |-> (ix \ mv) \ del, old |-> ol \cup mv]
Level2(d, ol, sh, rts, cur) ==
  IF ~(cur \div SL > 1 /\ cur \div SL # sh \div SL) THEN [db |-> d, old |-> ol, secH |-> sh]
  ELSE LET S(k) == {e \in ol : e.k = k}
           T(k) == {e \in TailOf(S(k)) : cur >= e.h + PruneH}
           delN == UNION {T(k) : k \in Keys}
           dn == UNION {TailNodes(S(k), T(k), KeepSet(rts, cur)) : k \in Keys}
           delE == UNION {IF Cardinality(S(k)) = 1 \/ (Cardinality(S(k)) > 1 /\ TailOf(S(k)) = {})
                          THEN {e \in S(k) : cur >= e.h + TL} ELSE {} : k \in Keys}
       IN [db |-> Restrict(d, DOMAIN d \ dn), old |-> (ol \ delN) \ delE, secH |-> cur]
PruneRun(d, ix, ol, sh, rts, cur) ==
  LET a == Level1(d, ix, ol, rts, cur)
      b == Level2(a.db, a.old, sh, rts, cur)
  IN [db |-> b.db, idx |-> a.idx, old |-> b.old, secH |-> b.secH]
\* Tree.Save starts a run when the height is a multiple (>= 2x) of the interval
Trigger(h) == PruneH # 0 /\ h % PruneH = 0 /\ h \div PruneH > 1

\* ---- observables ----
MTable == LET s == SortedSeq(RetC) IN
          [i \in 1..Len(s) |-> [h |-> s[i], vals |-> [k \in Keys |-> Walk(db, rk[s[i]], k)]]]
NodeKeys(d) == DOMAIN d
MChk == [t |-> MTable, nodes |-> Cardinality(DOMAIN db), idx |-> Cardinality(idx), old |-> Cardinality(old)]

\* THE PROPERTY on the mechanism: every key of every retained commit reads its value
PruneSafe == \A y \in RetC : \A k \in Keys : Walk(db, rk[y], k) = chain[y][k]
NoCrash == ~crashed

MInit == /\ Init
         /\ db = <<>> /\ idx = {} /\ old = {} /\ roots = {} /\ rk = <<>> /\ maxH = 0 /\ secH = 0
         /\ crashed = FALSE /\ wr = <<>> /\ dead = <<>>

\* commits above c are dropped; a commit at h cleans the index entries of height h
DropTo(c, h) == [y \in ((DOMAIN dead \cup {z \in DOMAIN wr : z > c}) \ {h}) |-> IF y \in DOMAIN wr /\ y > c THEN wr[y] ELSE dead[y]]
\* the known class: the index holds an entry of an abandoned branch (height never committed again)
\* above a live version of the same key
StaleShadow == \E x \in DOMAIN dead : \E k \in dead[x] : \E z \in DOMAIN wr : z < x /\ k \in wr[z]
\* every violation within the bounds belongs to that class
Explained == PruneSafe \/ StaleShadow

MCommit(c, h, w) ==
  /\ CommitR(c, h, w)
  /\ LET recommit == h <= maxH
         crash == recommit /\ DelCrash(db, roots, h)
         ix0 == IF recommit THEN idx \ DelIdx(db, idx, roots, h) ELSE idx
         pt == IF c = 0 THEN Nil ELSE Load(db, rk[c])
         nt == InsFrom(pt, w, 1)
         sv == SaveSet(nt, h, TRUE, {})
         rootk == <<0, Content(nt)>>
         newidx == {[k |-> s.k, h |-> h, lk |-> s.key, anc |-> s.anc] : s \in {x \in sv : x.leaf}}
         ix1 == {e \in ix0 : ~\E n \in newidx : n.k = e.k /\ n.h = e.h /\ n.lk = e.lk} \cup newidx
         d1 == [key \in DOMAIN db \cup {s.key : s \in sv} |->
                  IF \E s \in sv : s.key = key THEN (CHOOSE s \in sv : s.key = key).rec ELSE db[key]]
         rts1 == roots \cup {<<h, Content(nt)>>}
         pr == IF Trigger(h) THEN PruneRun(d1, ix1, old, secH, rts1, h)
               ELSE [db |-> d1, idx |-> ix1, old |-> old, secH |-> secH]
     IN IF crash
        THEN /\ crashed' = TRUE /\ UNCHANGED <<db, idx, old, roots, rk, maxH, secH, wr, dead>>
        ELSE /\ crashed' = FALSE
             /\ db' = pr.db /\ idx' = pr.idx /\ old' = pr.old /\ secH' = pr.secH
             /\ roots' = roots \cup {<<h, Content(nt)>>}
             /\ rk' = [y \in {z \in DOMAIN rk : z <= c} \cup {h} |-> IF y = h THEN rootk ELSE rk[y]]
             /\ maxH' = Max2(maxH, h)
             /\ dead' = DropTo(c, h)
             /\ wr' = [y \in {z \in DOMAIN wr : z <= c} \cup {h} |-> IF y = h THEN {k \in Keys : w[k] # 0} ELSE wr[y]]
  /\ Emit(CommitLbl(c, h, w) @@ [mchk |-> MChk'])

MNoChange(c, h) ==
  /\ NoChangeR(c, h)
  /\ rk' = [y \in {z \in DOMAIN rk : z <= c} |-> rk[y]]
  /\ dead' = DropTo(c, 0)
  /\ wr' = [y \in {z \in DOMAIN wr : z <= c} |-> wr[y]]
  /\ UNCHANGED <<db, idx, old, roots, maxH, secH, crashed>>
  /\ Emit(NoChangeLbl(c, h) @@ [mchk |-> MChk'])

MPrune(cur) ==
  /\ PruneR(cur)
  /\ LET pr == PruneRun(db, idx, old, secH, roots, cur) IN
       db' = pr.db /\ idx' = pr.idx /\ old' = pr.old /\ secH' = pr.secH
  /\ UNCHANGED <<roots, rk, maxH, crashed, wr, dead>>
  /\ Emit(PruneLbl(cur) @@ [mchk |-> MChk'])

MReopen ==
  /\ ReopenR
  /\ UNCHANGED mvars
  /\ Emit(ReopenLbl @@ [mchk |-> MChk'])

\* a state in which the property is already broken (or a Save panicked) is terminal: the replay of a
\* behaviour stops at the first disagreement anyway
MNext == /\ PruneSafe /\ ~crashed
         /\ \/ \E c \in Parents, h \in Heights, w \in WSets : MCommit(c, h, w)
            \/ \E c \in Parents, h \in Heights : MNoChange(c, h)
            \/ \E cur \in PruneCurs : MPrune(cur)
            \/ MReopen

MSpec == MInit /\ [][MNext]_allvars

MTypeOK == ~crashed => /\ DOMAIN rk = Commits
                       /\ \A y \in Commits : rk[y][1] = 0
                       /\ (maxH >= tipH \/ tipH \notin Commits)
\* no rotation is ever needed for the trees of this model (deviation check)
Balanced == \A y \in Commits : BalancedC(rk[y][2])
\* content addressed: what a present root key leads to is the content its commit had
RootContent == \A y \in RetC : PruneSafe => \A k \in Keys : Walk(db, rk[y], k) = chain[y][k]
=============================================================================
