SPECIFICATION MSpec
CONSTANTS
  NK = 2
  NV = 2
  Heights <- MCHeightsSmall
  PruneH = 2
  MaxSteps = 4
  MaxWrites = 1
  MaxJump = 3
  EmitOn = TRUE
  SL = 500000
  TL = 1500000
VIEW mview
INVARIANTS TypeOK MTypeOK Balanced PruneSafe NoCrash
CHECK_DEADLOCK FALSE
