------------------------------- MODULE Prune -------------------------------
(***************************************************************************)
(* C05 - state pruning never deletes live state.  Reference model.         *)
(*                                                                         *)
(* The store (system/store/mavl with enableMavlPrune) receives one commit   *)
(* per block height of the node's CURRENT chain.  A reorganisation shows   *)
(* up as a commit whose parent state is not the newest one: the blocks     *)
(* above the parent were disconnected (no store call) and the new block is *)
(* committed at a height that may be used already, or - when the new       *)
(* branch has blocks without state change - at a higher one.               *)
(*                                                                         *)
(*   chain[y]  content of the state committed at height y on the current   *)
(*             chain (a commit at (c,h) drops every commit above c)        *)
(*   tipH      height of the current tip (>= newest commit: trailing       *)
(*             blocks without state change move the tip only)              *)
(*   floor     highest height that ever left the prune interval: what was  *)
(*             allowed to be pruned once is never demanded again (after a  *)
(*             reorganisation the tip is lower and the interval below it   *)
(*             would otherwise reach back to heights already given up)     *)
(*                                                                         *)
(* The state at height x is the newest commit at or below x.  Retained     *)
(* commits RetC are those which are the state at some height x with        *)
(* max(floor, tipH-PruneH) < x <= tipH.  (The implementation aims at       *)
(* keeping heights >= cur-PruneH for a prune run at cur <= tipH, i.e. one  *)
(* more: the model demands the smaller set.)                               *)
(*                                                                         *)
(* THE PROPERTY: Prune(cur), the store's own background trigger and Reopen *)
(* change nothing that is readable at a retained commit: after every step  *)
(* the read table `chk` (every key at every retained commit) must be what  *)
(* the model says.  Reads at non-retained roots are not compared.          *)
(*                                                                         *)
(* Deliberately not demanded: parents that are not retained (a reorg       *)
(* deeper than the prune interval), prune runs with cur > tipH, error      *)
(* codes, anything about how much is deleted (only counted for the         *)
(* anti-vacuity rule), reorganisations across the 500 000 second-level     *)
(* threshold (parent retained => depth < PruneH).                          *)
(***************************************************************************)
EXTENDS Integers, Sequences, FiniteSets, Json, TLC

CONSTANTS NK,         \* model keys 1..NK (concretised order-preserving by the driver)
          NV,         \* values 1..NV (0 = absent / not written)
          Heights,    \* finite set of block heights a commit may use (bands, see _MC)
          PruneH,     \* the configured prune interval (pruneHeight)
          MaxSteps,   \* bound on the number of steps
          MaxWrites,  \* keys written per commit
          MaxJump,    \* a commit uses one of the MaxJump lowest admissible heights
          Reorgs,     \* FALSE: linear histories only (every block builds on the tip's state)
          EmitOn      \* FALSE in exhaustive runs: the JSON label is not built

VARIABLES chain, tipH, floor, nsteps, act
rvars == <<chain, tipH, floor, nsteps>>
vars == <<chain, tipH, floor, nsteps, act>>
view == rvars

Keys == 1..NK
Empty == [k \in Keys |-> 0]
Max2(a, b) == IF a >= b THEN a ELSE b
MaxOf(S) == CHOOSE x \in S : \A y \in S : y <= x
SortedSeq(S) == [i \in 1..Cardinality(S) |-> CHOOSE y \in S : Cardinality({z \in S : z < y}) = i - 1]
FirstN(S, n) == {y \in S : Cardinality({z \in S : z < y}) < n}

Commits == DOMAIN chain
CommitOfIn(ch, x) == LET S == {y \in DOMAIN ch : y <= x} IN IF S = {} THEN 0 ELSE MaxOf(S)
CommitOf(x) == CommitOfIn(chain, x)
StateAt(x) == IF CommitOf(x) = 0 THEN Empty ELSE chain[CommitOf(x)]

Lo == Max2(floor, tipH - PruneH)
RetH == (Lo + 1)..tipH                              \* retained heights
RetCOf(ch, fl, tp) == {CommitOfIn(ch, x) : x \in (Max2(fl, tp - PruneH) + 1)..tp} \ {0}
RetC == RetCOf(chain, floor, tipH)                  \* retained commits
Readable == [y \in RetC |-> chain[y]]

WSets == {w \in [Keys -> 0..NV] : Cardinality({k \in Keys : w[k] # 0}) \in 1..MaxWrites}
Apply(c, w) == [k \in Keys |-> IF w[k] # 0 THEN w[k] ELSE c[k]]

\* parents a new block may build on: the state at a retained height; c = that state's commit
\* (never a rollback below the first commit: a chain does not lose its genesis state)
Parents == IF Commits = {} THEN {0}
           ELSE IF ~Reorgs THEN {CommitOf(tipH)}
           ELSE {CommitOf(x) : x \in RetH} \ {0}
\* lowest height the block on top of parent commit c can have: above c and above some retained height
HBound(c) == IF tipH = 0 THEN 0 ELSE Max2(c, Lo + 1)   \* (tipH > 0 with no commit cannot occur)
HChoices(c) == FirstN({h \in Heights : h > HBound(c)}, MaxJump)

Chk == LET s == SortedSeq(RetC) IN [i \in 1..Len(s) |-> [h |-> s[i], vals |-> chain[s[i]]]]

Emit(r) == act' = IF EmitOn THEN ToJson(r) ELSE ""

Init == /\ chain = <<>> /\ tipH = 0 /\ floor = 0 /\ nsteps = 0
        /\ act = IF EmitOn THEN ToJson([op |-> "Init"]) ELSE ""

\* a block with state change on top of parent commit c, at height h
CommitR(c, h, w) ==
  /\ nsteps < MaxSteps /\ c \in Parents /\ h \in HChoices(c) /\ w \in WSets
  /\ chain' = [y \in {z \in Commits : z <= c} \cup {h} |->
                 IF y = h THEN Apply(IF c = 0 THEN Empty ELSE chain[c], w) ELSE chain[y]]
  /\ tipH' = h
  /\ floor' = Max2(floor, h - PruneH)
  /\ nsteps' = nsteps + 1
CommitLbl(c, h, w) == [op |-> "Commit", c |-> c, h |-> h, ws |-> w, tip |-> tipH', ret |-> "ok", chk |-> Chk']
Commit(c, h, w) == CommitR(c, h, w) /\ Emit(CommitLbl(c, h, w))

\* blocks without state change: the tip moves to h on top of parent commit c (commits above c are
\* dropped when this follows a rollback); the store sees at most an empty MemSet/Commit pair
NoChangeR(c, h) ==
  /\ nsteps < MaxSteps /\ tipH > 0 /\ c \in Parents /\ h \in HChoices(c)
  /\ chain' = [y \in {z \in Commits : z <= c} |-> chain[y]]
  /\ tipH' = h
  /\ (chain' # chain \/ h > tipH)
  /\ floor' = Max2(floor, h - PruneH)
  /\ nsteps' = nsteps + 1
NoChangeLbl(c, h) == [op |-> "NoChange", c |-> c, h |-> h, tip |-> tipH', ret |-> "ok", chk |-> Chk']
NoChange(c, h) == NoChangeR(c, h) /\ Emit(NoChangeLbl(c, h))

\* a pruning run at height cur <= tipH: nothing that must stay readable changes
PruneCurs == {x \in (tipH - PruneH - 1)..tipH : x > 0}
PruneR(cur) ==
  /\ nsteps < MaxSteps /\ tipH > 0 /\ cur \in PruneCurs
  /\ UNCHANGED <<chain, tipH, floor>>
  /\ nsteps' = nsteps + 1
PruneLbl(cur) == [op |-> "Prune", cur |-> cur, tip |-> tipH, ret |-> "ok", chk |-> Chk']
Prune(cur) == PruneR(cur) /\ Emit(PruneLbl(cur))

\* close and reopen the database
ReopenR == /\ nsteps < MaxSteps /\ tipH > 0
           /\ UNCHANGED <<chain, tipH, floor>>
           /\ nsteps' = nsteps + 1
ReopenLbl == [op |-> "Reopen", tip |-> tipH, ret |-> "ok", chk |-> Chk']
Reopen == ReopenR /\ Emit(ReopenLbl)

Next == \/ \E c \in Parents, h \in Heights, w \in WSets : Commit(c, h, w)
        \/ \E c \in Parents, h \in Heights : NoChange(c, h)
        \/ \E cur \in PruneCurs : Prune(cur)
        \/ Reopen

Spec == Init /\ [][Next]_vars

-----------------------------------------------------------------------------
TypeOK == /\ tipH \in {0} \cup Heights
          /\ Commits \subseteq Heights
          /\ \A y \in Commits : y <= tipH /\ chain[y] \in [Keys -> 0..NV]
          /\ floor >= 0 /\ floor <= Max2(0, tipH)

\* the tip's state is always retained, and nothing retained lies outside the chain
TipRetained == Commits # {} => CommitOf(tipH) \in RetC
RetainedOnChain == RetC \subseteq Commits

\* THE PROPERTY on the model: pruning and reopening leave every retained read as it was
PruneNoOp == [][((\E cur \in PruneCurs : PruneR(cur)) \/ ReopenR) => Readable' = Readable]_vars
\* a height that fell out of the interval is never demanded again
FloorMonotone == [][floor' >= floor]_vars
\* what is demanded after a step was demanded before, or is the new commit
OnlyNewIsNew == [][\A y \in RetCOf(chain', floor', tipH') : y \in RetC \/ y = tipH']_vars
=============================================================================
