------------------------------ MODULE Prune_FF ------------------------------
(* Directed exhaustive family: FLIP-FLOP reorganisations at one height.       *)
(*   base commit; block A on parent c at height h; rollback and block B on    *)
(*   the same parent at the same height, writing at least one key A does not  *)
(*   write; rollback and the very same block A again (identical content, so   *)
(*   identical root hash: its root record already exists at that height);     *)
(*   then the chain grows on the tip (Tree.Save starts the pruning runs).     *)
(* Every instance within the constants is exported once ("@@B").              *)
EXTENDS Prune
VARIABLES ff, hist
ffvars == <<vars, ff, hist>>

Growth == 2
BaseSets == {w \in [Keys -> 0..NV] : \E k \in Keys : w[k] # 0}
FFHeights == 1..8

FFInit == Init /\ ff = [st |-> 0, c |-> 0, h |-> 0, w |-> Empty] /\ hist = <<>>
FFStep ==
  \/ /\ ff.st = 0
     \* the base block may write every key (a one-leaf base tree hides the shape: its leaf is a root record)
     /\ \E h \in Heights, w \in BaseSets :
           /\ chain' = (h :> w) /\ tipH' = h /\ floor' = Max2(floor, h - PruneH) /\ nsteps' = nsteps + 1
           /\ h \in HChoices(0)
           /\ Emit(CommitLbl(0, h, w))
     /\ ff' = [ff EXCEPT !.st = 1]
  \/ /\ ff.st = 1
     /\ \E c \in Parents, h \in Heights, w \in WSets :
           Commit(c, h, w) /\ ff' = [st |-> 2, c |-> c, h |-> h, w |-> w]
  \/ /\ ff.st = 2
     /\ \E w \in WSets : /\ \E k \in Keys : w[k] # 0 /\ ff.w[k] = 0
                         /\ Commit(ff.c, ff.h, w)
     /\ ff' = [ff EXCEPT !.st = 3]
  \/ /\ ff.st = 3
     /\ Commit(ff.c, ff.h, ff.w)
     /\ ff' = [ff EXCEPT !.st = 4]
  \/ /\ ff.st \in 4..(3 + Growth)
     /\ \E h \in Heights, w \in WSets : Commit(CommitOf(tipH), h, w)
     /\ ff' = [ff EXCEPT !.st = ff.st + 1]
FFNext == FFStep /\ hist' = Append(hist, act')
FFSpec == FFInit /\ [][FFNext]_ffvars
Export == ff.st = 4 + Growth => PrintT(<<"@@B", ToJson(hist)>>)
=============================================================================
