SPECIFICATION Spec
CONSTANTS
  NK = 2
  NV = 2
  Heights <- MCHeightsSmall
  PruneH = 2
  MaxSteps = 5
  MaxWrites = 1
  Reorgs = TRUE
  MaxJump = 2
  EmitOn = FALSE
VIEW view
INVARIANTS TypeOK TipRetained RetainedOnChain
PROPERTIES PruneNoOp FloorMonotone OnlyNewIsNew
CHECK_DEADLOCK FALSE
