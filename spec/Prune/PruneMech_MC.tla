---- MODULE PruneMech_MC ----
EXTENDS PruneMech
MCHeightsSmall == 1..6
MCHeightsSmall12 == 1..12
MCHeightsBands == {1, 2, 3, 500001, 500002, 500003, 1000001, 1000002, 1500003, 1500004, 2000001, 2000002}
====
