SPECIFICATION MSpec
CONSTANTS
  NK = 3
  NV = 2
  Heights <- MCHeightsBands
  PruneH = 2
  MaxSteps = 8
  MaxWrites = 2
  Reorgs = TRUE
  MaxJump = 2
  EmitOn = TRUE
  SL = 500000
  TL = 1500000
  KeepRoots = TRUE
CHECK_DEADLOCK FALSE
