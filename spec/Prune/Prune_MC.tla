---- MODULE Prune_MC ----
EXTENDS Prune
\* height bands: first level, beyond the second-level threshold (500 000), beyond twice that
\* (second-level scan enabled), beyond the third-level threshold (1 500 000 above old entries)
MCHeightsSmall == 1..6
MCHeightsSmall12 == 1..12
MCHeightsBands == {1, 2, 3, 500001, 500002, 500003, 1000001, 1000002, 1500003, 1500004, 2000001, 2000002}
====
