SPECIFICATION TSpec
CONSTANTS
  NK = 12
  NV = 3
  Heights <- TrHeights
  PruneH = 2
  MaxSteps = 100000000
  MaxWrites = 12
  Reorgs = TRUE
  MaxJump = 1000
  EmitOn = FALSE
INVARIANTS Mark TypeOK TipRetained RetainedOnChain
POSTCONDITION TraceDone
CHECK_DEADLOCK FALSE
