SPECIFICATION Spec
CONSTANTS
  NK = 3
  NV = 2
  Heights <- MCHeightsBands
  PruneH = 2
  MaxSteps = 10
  MaxWrites = 2
  Reorgs = TRUE
  MaxJump = 3
  EmitOn = TRUE
CHECK_DEADLOCK FALSE
