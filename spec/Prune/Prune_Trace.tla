---------------------------- MODULE Prune_Trace ----------------------------
(* Trace specification (binding B): every event recorded from the real mavl   *)
(* store must be a step of Prune with legal arguments, and the read table the *)
(* recorder observed at every retained commit must be the model's.            *)
EXTENDS Prune, TraceLib

VARIABLE l
tvars == <<vars, l>>

\* the recorder's height bands: 40 consecutive heights per band
TrHeights == UNION {b..(b + 39) : b \in {1, 500001, 1000001, 1500003, 2000001, 2500001}}

Ev == Trace[l]
IsEvent(e) == l <= Len(Trace) /\ Ev.ev = e /\ l' = l + 1

TableOK(obs, exp) == /\ Len(obs) = Len(exp)
                     /\ \A i \in 1..Len(exp) : obs[i].h = exp[i].h /\ obs[i].vals = exp[i].vals

TInit == Init /\ l = 1

TReset == /\ IsEvent("Reset")
          /\ chain' = <<>> /\ tipH' = 0 /\ floor' = 0 /\ nsteps' = 0 /\ act' = act

TCommit == /\ IsEvent("Commit") /\ Ev.ret = "ok"
           /\ CommitR(Ev.c, Ev.h, [k \in Keys |-> Ev.ws[k]])
           /\ TableOK(Ev.t, Chk')
           /\ act' = act
TNoChange == /\ IsEvent("NoChange") /\ Ev.ret = "ok"
             /\ NoChangeR(Ev.c, Ev.h)
             /\ TableOK(Ev.t, Chk')
             /\ act' = act
TPrune == /\ IsEvent("Prune") /\ Ev.ret = "ok"
          /\ PruneR(Ev.cur)
          /\ TableOK(Ev.t, Chk')
          /\ act' = act
TReopen == /\ IsEvent("Reopen") /\ Ev.ret = "ok"
           /\ ReopenR
           /\ TableOK(Ev.t, Chk')
           /\ act' = act

TNext == TReset \/ TCommit \/ TNoChange \/ TPrune \/ TReopen
TSpec == TInit /\ [][TNext]_tvars

Mark == MarkHWM(l - 1)
=============================================================================
