---------------------------- MODULE P2PRecv_Trace ----------------------------
(* Trace specification (binding B). A trace is recorded from the real protocol  *)
(* running with its own tickers and a real pending timeout: the harness logs   *)
(* what it does (Recv, Pool) and what it observes (Posted, Req, Final) in one  *)
(* global order. Loop iterations and the passing of a timeout are not logged:  *)
(* they are the silent steps STick(i) (one pending block served by an          *)
(* iteration; an iteration is a sequence of them) and SExpire(i). SExpire(i)   *)
(* is only possible after the event MayExpire(i), which the recorder logs once *)
(* the wall clock has passed receipt time + timeout (a request observed before *)
(* it is therefore a request before the timeout).                              *)
(* Observations of malformed blocks and of blocks filled from colliding pool   *)
(* entries are accepted as they come (nothing is demanded of them).            *)
EXTENDS P2PRecv_MC, TraceLib

VARIABLES l, mayexp
tvars == <<vars, l, mayexp>>

Ev == Trace[l]
IsEvent(e) == l <= Len(Trace) /\ Ev.ev = e /\ l' = l + 1

TInit == Init /\ l = 1 /\ mayexp = {}

TReset == /\ IsEvent("Reset")
          /\ blocks' = <<>> /\ st' = <<>> /\ pool' = NoPool /\ alive' = TRUE /\ steps' = 0 /\ probed' = FALSE
          /\ act' = act /\ mayexp' = {}

TRecv == /\ IsEvent("Recv") /\ Ev.id = Len(blocks) + 1
         /\ RecvLight(Ev.lay, Ev.base, Ev.n, Ev.m, Ev.miner)
         /\ UNCHANGED mayexp

TPool == /\ IsEvent("Pool") /\ alive
         /\ pool' = [pool EXCEPT ![Ev.h] = Ev.k]
         /\ UNCHANGED <<blocks, st, alive, steps, probed, act, mayexp>>

TMayExpire == /\ IsEvent("MayExpire")
              /\ mayexp' = mayexp \cup {Ev.id}
              /\ UNCHANGED vars

Open(i) == ~Genuine(blocks[i]) \/ ~st[i].tr

TPosted == /\ IsEvent("Posted") /\ Ev.id \in 1..Len(blocks)
           /\ Open(Ev.id) \/ (st[Ev.id].phase = "posted" /\ Ev.ok)
           /\ UNCHANGED <<vars, mayexp>>

TReq == /\ IsEvent("Req") /\ Ev.id \in 1..Len(blocks)
        /\ Open(Ev.id) \/ (st[Ev.id].phase = "req" /\ Ev.peerok)
        /\ UNCHANGED <<vars, mayexp>>

FinalOK(i, obs) == \/ Status(i) = "*"
                   \/ Status(i) = "posted|req" /\ obs \in {"posted", "req"}
                   \/ Status(i) = obs

TFinal == /\ IsEvent("Final") /\ alive
          /\ Len(Ev.st) = Len(blocks)
          /\ \A i \in 1..Len(blocks) : FinalOK(i, Ev.st[i])
          /\ UNCHANGED <<vars, mayexp>>

\* silent: a loop iteration serves pending block i
STick(i) == /\ alive /\ i \in Pending
            /\ st' = [st EXCEPT ![i] = TickSt[i]]
            /\ alive' = (Build(blocks[i], st[i].c, st[i].tr).res # "panic")
            /\ UNCHANGED <<blocks, pool, steps, probed, act, l, mayexp>>

\* silent: the timeout of pending block i has passed
SExpire(i) == /\ alive /\ i \in Pending /\ ~st[i].exp /\ i \in mayexp
              /\ st' = [st EXCEPT ![i].exp = TRUE]
              /\ UNCHANGED <<blocks, pool, alive, steps, probed, act, l, mayexp>>

TNext == \/ TReset \/ TRecv \/ TPool \/ TMayExpire \/ TPosted \/ TReq \/ TFinal
         \/ \E i \in 1..Len(blocks) : STick(i) \/ SExpire(i)
TSpec == TInit /\ [][TNext]_tvars

Mark == MarkHWM(l - 1)
=============================================================================
