SPECIFICATION Spec
CONSTANTS
  NH = 2
  MaxBlocks = 1
  MaxSteps = 4
  Bases <- Base1
  Layouts <- LaySmall
  Counts <- HostCounts
  Lens <- HostLens
  NilMiner = TRUE
  Kinds <- AllKinds
  InitPools = "empty"
  MalClasses <- MalNone
  GuardFit = FALSE
  Huge = 99
  EmitOn = FALSE
VIEW view
INVARIANTS TypeOK Alive
CHECK_DEADLOCK FALSE
