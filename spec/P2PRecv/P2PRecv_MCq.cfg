SPECIFICATION Spec
CONSTANTS
  NH = 2
  MaxBlocks = 1
  MaxSteps = 4
  Bases <- BaseAll
  Layouts <- LaySmall
  Counts <- HostCounts
  Lens <- HostLens
  NilMiner = TRUE
  Kinds <- AllKinds
  InitPools = "empty"
  MalClasses <- MalNone
  GuardFit = TRUE
  Huge = 99
  EmitOn = FALSE
VIEW view
INVARIANTS TypeOK Alive PostedComplete ExactRebuild
PROPERTIES Waits TimeoutRequests ArrivalBuilds Terminal
CHECK_DEADLOCK FALSE
