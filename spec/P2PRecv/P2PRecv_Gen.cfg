SPECIFICATION Spec
CONSTANTS
  NH = 3
  MaxBlocks = 2
  MaxSteps = 9
  Bases <- BaseAll
  Layouts <- LayMid
  Counts <- SmallCounts
  Lens <- SmallLens
  NilMiner = TRUE
  Kinds <- AllKinds
  InitPools = "empty"
  MalClasses <- MalEvery
  GuardFit = TRUE
  Huge = 99
  EmitOn = TRUE
CHECK_DEADLOCK FALSE
