---- MODULE P2PRecv_MC ----
EXTENDS P2PRecv
\* layouts by true transaction count (miner included)
L1 == {<<>>}
L2 == {<<"S">>}
L3 == {<<"S","S">>, <<"G2">>}
L4 == {<<"S","S","S">>, <<"S","G2">>, <<"G2","S">>, <<"G3">>}
L5 == {<<"S","S","S","S">>, <<"G2","S","S">>, <<"S","G2","S">>, <<"S","S","G2">>, <<"G2","G2">>,
       <<"G3","S">>, <<"S","G3">>}
L6 == {<<"G2","S","S","S">>, <<"S","G2","S","S">>, <<"S","S","G2","S">>, <<"S","S","S","G2">>,
       <<"G3","S","S">>, <<"S","G3","S">>, <<"S","S","G3">>, <<"G2","G3">>, <<"G3","G2">>, <<"G2","G2","S">>,
       <<"G2","S","G2">>, <<"S","G2","G2">>}
LaySmall == L1 \cup L2 \cup L3
LayMid == LaySmall \cup L4
LayBig == LayMid \cup L5 \cup L6
NoCounts == {}
SmallCounts == {0, 3, 99}
SmallLens == {2, 4}
Base1 == {1}
BaseAll == 1..NH
HostCounts == {-1, 0, 1, 2, 3, 4, 99}
HostLens == {0, 1, 2, 3, 4}
AllKinds == {"tx", "g2", "g3"}
MalAll == {"blk", "tx", "batch", "blkreq", "blkresp", "peermsg", "ltraw", "ltdup"}
MalNet == {"dlreply", "dlserve", "peerreply", "peerserve", "proof"}
MalEvery == MalAll \cup MalNet
MalNone == {}
====
