SPECIFICATION Spec
CONSTANTS
  NH = 3
  MaxBlocks = 1
  MaxSteps = 6
  Bases <- Base1
  Layouts <- LayMid
  Counts <- HostCounts
  Lens <- HostLens
  NilMiner = TRUE
  Kinds <- AllKinds
  InitPools = "empty"
  MalClasses <- MalNone
  GuardFit = TRUE
  Huge = 99
  EmitOn = FALSE
VIEW view
INVARIANTS TypeOK Alive PostedComplete ExactRebuild
CHECK_DEADLOCK FALSE
