SPECIFICATION ASpec
CONSTANTS
  NH = 2
  MaxBlocks = 1
  MaxSteps = 5
  Bases <- Base1
  Layouts <- LaySmall
  Counts <- HostCounts
  Lens <- HostLens
  NilMiner = TRUE
  Kinds <- AllKinds
  InitPools = "empty"
  MalClasses <- MalNone
  GuardFit = TRUE
  Huge = 99
  EmitOn = TRUE
INVARIANT Export
CHECK_DEADLOCK FALSE
