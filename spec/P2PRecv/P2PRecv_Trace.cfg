SPECIFICATION TSpec
CONSTANTS
  NH = 4
  MaxBlocks = 100
  MaxSteps = 1000000
  Bases <- BaseAll
  Layouts <- LayBig
  Counts <- HostCounts
  Lens <- HostLens
  NilMiner = TRUE
  Kinds <- AllKinds
  InitPools = "empty"
  MalClasses <- MalNone
  GuardFit = TRUE
  Huge = 99
  EmitOn = FALSE
INVARIANTS Mark TypeOK Alive PostedComplete ExactRebuild
POSTCONDITION TraceDone
CHECK_DEADLOCK FALSE
