----------------------------- MODULE P2PRecv_All -----------------------------
(* Exhaustive behaviour export (GEN-all): the history of JSON action labels is  *)
(* part of the state; every complete bounded behaviour (it ends with Probe, or  *)
(* with the loss of the process) is printed once as "@@B <json>".               *)
EXTENDS P2PRecv_MC
VARIABLE hist
AInit == Init /\ hist = <<>>
\* Probe closes a behaviour only when nothing else can be done: complete behaviours are maximal
Maximal == ~Live \/ (Len(blocks) >= MaxBlocks /\ Pending = {})
ANext == /\ Next
         /\ (probed' /\ ~probed) => Maximal
         /\ hist' = Append(hist, act')
ASpec == AInit /\ [][ANext]_<<vars, hist>>
Done == probed \/ ~alive
Export == Done => PrintT(<<"@@B", ToJson(hist)>>)
=============================================================================
