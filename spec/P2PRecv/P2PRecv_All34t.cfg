SPECIFICATION ASpec
CONSTANTS
  NH = 3
  MaxBlocks = 1
  MaxSteps = 6
  Bases <- Base1
  Layouts <- LayMid
  Counts <- NoCounts
  Lens <- NoCounts
  NilMiner = FALSE
  Kinds <- NoCounts
  InitPools = "truth"
  MalClasses <- MalNone
  GuardFit = TRUE
  Huge = 99
  EmitOn = TRUE
INVARIANT Export
CHECK_DEADLOCK FALSE
