SPECIFICATION Spec
CONSTANTS
  NH = 4
  MaxBlocks = 2
  MaxSteps = 10
  Bases <- BaseAll
  Layouts <- LayBig
  Counts <- NoCounts
  Lens <- NoCounts
  NilMiner = FALSE
  Kinds <- NoCounts
  InitPools = "truth"
  MalClasses <- MalNone
  GuardFit = TRUE
  Huge = 99
  EmitOn = TRUE
CHECK_DEADLOCK FALSE
