------------------------------- MODULE P2PRecv -------------------------------
(***************************************************************************)
(* Mechanism model of the receive side of chain33's dht broadcast protocol *)
(* (system/p2p/dht/protocol/broadcast), centred on the light-block pending *)
(* machine of lightbroadcast.go.  Properties C33 and C34.                  *)
(*                                                                         *)
(* A light block announces a transaction count n, the miner transaction    *)
(* and a list of short hashes.  The node fills the block from its pool     *)
(* (one look-up per missing position, a pool entry is a single transaction *)
(* or a whole transaction group that expands over the following positions) *)
(* - at receipt, on the receive goroutine (addLtBlock; panics there are    *)
(*   recovered by handleBroadcastReceive and the message is dropped), and  *)
(* - on every iteration of pendBlockLoop for the blocks still pending      *)
(*   (buildPendList; NO recover: a panic there ends the process).          *)
(* A pending block older than the pending timeout that still cannot be     *)
(* built is removed and the full block is requested from its sender.       *)
(*                                                                         *)
(* Hash ids: 1..NH are short hashes the pool may answer; 0 stands for a    *)
(* short hash no pool entry ever answers (the miner tx, group members,     *)
(* padding).  pool[h] is what the pool answers for h right now: "absent",  *)
(* a single transaction "tx", or a group "g2"/"g3".  A block built from a  *)
(* layout (segments S/G2/G3 after the miner tx, hash ids base, base+1, ..  *)
(* for the segment heads) expects a definite kind per hash; the pool may   *)
(* answer another kind (short-hash collision, or a hostile announcement).  *)
(*                                                                         *)
(* What the properties demand and what is left open:                       *)
(*  C33: alive stays TRUE whatever is received in whatever order, and the  *)
(*       loop keeps iterating (step Probe).  Nothing else is demanded of   *)
(*       malformed blocks: their status is reported as "*".                *)
(*  C34: for a genuine block all of whose consumed pool answers were the   *)
(*       true transactions: posted exactly when complete, content equal to *)
(*       the original; otherwise pending until the timeout, then requested *)
(*       from the sender.  If the last transaction arrives after the       *)
(*       timeout but before the iteration that notices it, either outcome  *)
(*       is accepted ("posted|req").  As soon as a consumed answer was not *)
(*       the true transaction the premise of C34 is void: status "*".      *)
(* Not modelled: local height >= block height at timeout (no request is    *)
(* sent then; all model blocks are above the local height), replies of the *)
(* local mempool module that are shorter than the request (not peer input),*)
(* wall-clock time (Expire(b) is "the timeout of b has passed").           *)
(***************************************************************************)
EXTENDS Integers, Sequences, FiniteSets, Json, TLC

CONSTANTS NH,          \* pool-answerable hash ids 1..NH
          MaxBlocks,   \* light blocks received in one behaviour
          MaxSteps,    \* bound on the number of steps after the first
          Bases,       \* first hash id of a block's segment heads
          Layouts,     \* layouts offered (sequences over {"S","G2","G3"})
          Counts,      \* announced txCount values offered besides the true one
          Lens,        \* announced hash-list lengths offered besides the true one
          NilMiner,    \* BOOLEAN: blocks without miner tx offered
          Kinds,       \* pool answer kinds offered to PoolUpdate besides "absent" and the kinds pending blocks expect
          InitPools,   \* "empty" | "truth" : initial pool; "truth" = any subset of the first block's true txs
          MalClasses,  \* classes of malformed input on the other receive paths
          GuardFit,    \* TRUE: buildPendBlock checks that a group fits into the block (the repaired code)
          Huge,        \* model number standing for an announced count of 2^40
          EmitOn

VARIABLES blocks,   \* sequence of received block descriptors
          st,       \* per block: phase, cells, exp, truthful, race
          pool,     \* [1..NH -> {"absent","tx","g2","g3"}]
          alive,    \* FALSE after a panic outside any recover
          steps, probed, act

vars == <<blocks, st, pool, alive, steps, probed, act>>
view == <<blocks, st, pool, alive, steps, probed>>

Size(s) == CASE s = "S" -> 1 [] s = "G2" -> 2 [] s = "G3" -> 3
KindOf(s) == CASE s = "S" -> "tx" [] s = "G2" -> "g2" [] s = "G3" -> "g3"
GSize(k) == CASE k = "tx" -> 1 [] k = "g2" -> 2 [] k = "g3" -> 3

RECURSIVE SumSizes(_, _)
SumSizes(lay, j) == IF j = 0 THEN 0 ELSE SumSizes(lay, j - 1) + Size(lay[j])
TrueN(lay) == 1 + SumSizes(lay, Len(lay))
SegStart(lay, j) == 1 + SumSizes(lay, j - 1)          \* 0-based position of segment j
\* segment owning 0-based position p >= 1
SegOf(lay, p) == CHOOSE j \in 1..Len(lay) : SegStart(lay, j) <= p /\ p < SegStart(lay, j) + Size(lay[j])

Nil == [h |-> -1, j |-> 0, k |-> "nil"]
MinerCell == [h |-> 0, j |-> 0, k |-> "miner"]

\* the original block: cell of 0-based position p
TruthCell(b, p) ==
  IF p = 0 THEN MinerCell
  ELSE LET j == SegOf(b.lay, p) IN
       [h |-> b.base + j - 1, j |-> p - SegStart(b.lay, j), k |-> KindOf(b.lay[j])]
Truth(b) == [i \in 1..TrueN(b.lay) |-> TruthCell(b, i - 1)]

\* announced short-hash id at 0-based position p (only segment heads are answerable)
HashAt(b, p) ==
  IF p = 0 \/ p >= TrueN(b.lay) THEN 0
  ELSE LET j == SegOf(b.lay, p) IN IF p = SegStart(b.lay, j) THEN b.base + j - 1 ELSE 0

Genuine(b) == b.n = TrueN(b.lay) /\ b.m = b.n /\ b.miner

Answer(h) == IF h = 0 THEN "absent" ELSE pool[h]

-----------------------------------------------------------------------------
(* buildPendBlock as a fold over the 0-based positions 0..n-1.              *)
(* s.c cells, s.ok buildSuccess, s.pan a panic occurred, s.tr every consumed *)
(* answer was the true transaction of the position it was asked for         *)
BuildStep(b, nil0, s, p) ==
  IF s.pan \/ p \notin nil0 \/ s.c[p + 1].k # "nil" THEN s
  ELSE LET h == HashAt(b, p)
           r == Answer(h) IN
       IF r = "absent" THEN [s EXCEPT !.ok = FALSE]
       ELSE IF p + GSize(r) > b.n
            THEN IF r = "tx" THEN s  \* cannot happen: p < n
                 ELSE IF GuardFit THEN [s EXCEPT !.ok = FALSE] ELSE [s EXCEPT !.pan = TRUE]
            ELSE LET truthful == p < TrueN(b.lay) /\ TruthCell(b, p).j = 0 /\ TruthCell(b, p).k = r IN
                 [s EXCEPT !.c = [i \in 1..b.n |-> IF i - 1 >= p /\ i - 1 < p + GSize(r)
                                                      THEN [h |-> h, j |-> i - 1 - p, k |-> r]
                                                      ELSE s.c[i]],
                           !.tr = s.tr /\ truthful]

RECURSIVE Fold(_, _, _, _)
Fold(b, nil0, s, p) == IF p >= b.n THEN s ELSE Fold(b, nil0, BuildStep(b, nil0, s, p), p + 1)

\* result: [res |-> "nopost" | "panic" | "built" | "wait", c, tr]
Build(b, cells, tr) ==
  IF b.m = 0 THEN [res |-> "nopost", c |-> cells, tr |-> tr]
  ELSE LET nil0 == {p \in 0..(b.n - 1) : cells[p + 1].k = "nil"} IN
       IF \E p \in nil0 : p >= b.m THEN [res |-> "panic", c |-> cells, tr |-> tr]   \* sTxHashes[i] out of range
       ELSE LET s == Fold(b, nil0, [c |-> cells, ok |-> TRUE, pan |-> FALSE, tr |-> tr], 0) IN
            IF s.pan THEN [res |-> "panic", c |-> s.c, tr |-> s.tr]
            ELSE [res |-> IF s.ok THEN "built" ELSE "wait", c |-> s.c, tr |-> s.tr]

-----------------------------------------------------------------------------
Status(i) ==
  LET b == blocks[i]
      s == st[i] IN
  IF ~Genuine(b) \/ ~s.tr THEN "*"
  ELSE IF s.race THEN "posted|req"
  ELSE s.phase

Chk == [st |-> [i \in 1..Len(blocks) |-> Status(i)]]
Emit(r) == act' = IF EmitOn THEN ToJson(r) ELSE ""
Ret == [alive |-> alive']

NoPool == [h \in 1..NH |-> "absent"]

Init == /\ blocks = <<>> /\ st = <<>> /\ pool = NoPool /\ alive = TRUE /\ steps = 0 /\ probed = FALSE
        /\ act = IF EmitOn THEN ToJson([op |-> "Init"]) ELSE ""

Live == alive /\ ~probed /\ steps < MaxSteps

\* a light block arrives (handleBroadcastReceive -> addLtBlock)
RecvLight(lay, base, n, m, miner) ==
  /\ Live /\ Len(blocks) < MaxBlocks
  /\ base + Len(lay) - 1 <= NH /\ (Len(lay) = 0 => base = 1)
  /\ LET b == [lay |-> lay, base |-> base, n |-> n, m |-> m, miner |-> miner]
         id == Len(blocks) + 1 IN
     /\ blocks' = Append(blocks, b)
     /\ IF n <= 0 \/ n > m
        THEN \* announced count below 1 or above the hash-list length (Huge stands for 2^40): rejected
             \* (before the repair: make()/index panics recovered on the receive goroutine, or an
             \* allocation of n pointers that the runtime cannot satisfy - fatal, not recoverable)
             st' = Append(st, [phase |-> "dropped", c |-> <<>>, exp |-> FALSE, tr |-> TRUE, race |-> FALSE])
        ELSE LET c0 == [i \in 1..n |-> IF i = 1 /\ miner THEN MinerCell ELSE Nil]
                 r == Build(b, c0, TRUE) IN
             st' = Append(st, [phase |-> CASE r.res = "built" -> "posted"
                                          [] r.res = "wait" -> "pend"
                                          [] OTHER -> "dropped",
                               c |-> r.c, exp |-> FALSE, tr |-> r.tr, race |-> FALSE])
     /\ UNCHANGED <<pool, alive, probed>>
     /\ steps' = steps + 1
     /\ Emit([op |-> "RecvLight", id |-> id, lay |-> lay, base |-> base, n |-> n, m |-> m, miner |-> miner,
              ret |-> Ret, chk |-> Chk'])

Pending == {i \in 1..Len(blocks) : st[i].phase = "pend"}
\* hashes some pending block is still waiting for
Wanted == {h \in 1..NH : \E i \in Pending : \E p \in 0..(blocks[i].n - 1) :
                            st[i].c[p + 1].k = "nil" /\ HashAt(blocks[i], p) = h}

\* kinds the pending blocks expect behind hash h (the true transactions)
ExpectedKinds(h) == {TruthCell(blocks[i], p).k : <<i, p>> \in
                       {ip \in Pending \X (0..7) : /\ ip[2] < blocks[ip[1]].n /\ ip[2] < TrueN(blocks[ip[1]].lay)
                                                    /\ st[ip[1]].c[ip[2] + 1].k = "nil"
                                                    /\ HashAt(blocks[ip[1]], ip[2]) = h}}

\* the pool changes (a transaction / group arrives, is mined or evicted)
PoolUpdate(h, k) ==
  /\ Live /\ Pending # {} /\ h \in Wanted /\ pool[h] # k
  /\ pool' = [pool EXCEPT ![h] = k]
  /\ UNCHANGED <<blocks, st, alive, probed>>
  /\ steps' = steps + 1
  /\ Emit([op |-> "PoolUpdate", h |-> h, k |-> k, ret |-> Ret, chk |-> Chk'])

\* initial pool contents: any assignment (first step only, costs no budget)
SetPool(f) ==
  /\ alive /\ ~probed /\ steps = 0 /\ Len(blocks) = 0 /\ pool = NoPool /\ f # NoPool
  /\ pool' = f
  /\ UNCHANGED <<blocks, st, alive, probed, steps>>
  /\ Emit([op |-> "SetPool", pool |-> f, ret |-> Ret])

\* the pending timeout of block i passes
Expire(i) ==
  /\ Live /\ i \in Pending /\ ~st[i].exp
  /\ st' = [st EXCEPT ![i].exp = TRUE]
  /\ UNCHANGED <<blocks, pool, alive, probed>>
  /\ steps' = steps + 1
  /\ Emit([op |-> "Expire", id |-> i, ret |-> Ret, chk |-> Chk'])

\* one iteration of pendBlockLoop (buildPendList + full-block requests)
TickSt ==
  [i \in 1..Len(blocks) |->
     IF st[i].phase # "pend" THEN st[i]
     ELSE LET r == Build(blocks[i], st[i].c, st[i].tr) IN
          CASE r.res = "built" -> [st[i] EXCEPT !.phase = "posted", !.c = r.c, !.tr = r.tr, !.race = st[i].exp]
            [] r.res = "wait"  -> [st[i] EXCEPT !.phase = IF st[i].exp THEN "req" ELSE "pend", !.c = r.c, !.tr = r.tr]
            [] OTHER           -> [st[i] EXCEPT !.phase = "crash"]]
TickCrashes == \E i \in Pending : Build(blocks[i], st[i].c, st[i].tr).res = "panic"

Tick ==
  /\ Live /\ Pending # {}
  /\ st' = TickSt
  /\ alive' = ~TickCrashes
  /\ UNCHANGED <<blocks, pool, probed>>
  /\ steps' = steps + 1
  /\ Emit([op |-> "Tick", ret |-> Ret, chk |-> Chk'])

\* malformed input on another receive path: dropped or rejected, nothing changes
RecvMalformed(c) ==
  /\ Live
  /\ UNCHANGED <<blocks, st, pool, alive, probed>>
  /\ steps' = steps + 1
  /\ Emit([op |-> "RecvMalformed", class |-> c, ret |-> Ret, chk |-> Chk'])

\* closing step: a fresh well-formed light block whose transactions are present is
\* posted at once, a second one with a missing transaction is requested from its sender
\* after its timeout by the next loop iteration (which also serves the model's blocks); the
\* validator's reply-collecting loop (manageDeniedPeer) takes one more iteration
Probe ==
  /\ alive /\ ~probed /\ Len(blocks) > 0
  /\ st' = TickSt
  /\ alive' = ~TickCrashes
  /\ probed' = TRUE
  /\ UNCHANGED <<blocks, pool, steps>>
  /\ Emit([op |-> "Probe", ret |-> [alive |-> alive', recv |-> "posted", loop |-> "req", val |-> "ok"], chk |-> Chk'])

AllCounts(lay) == Counts \cup {TrueN(lay)}
AllLens(lay) == Lens \cup {TrueN(lay)}
PoolKinds == Kinds \cup {"absent"}

\* initial pools
TruthPools(lay) ==
  {f \in [1..NH -> {"absent", "tx", "g2", "g3"}] :
     \A h \in 1..NH : f[h] # "absent" => h <= Len(lay) /\ f[h] = KindOf(lay[h])}

Next ==
  \/ \E lay \in Layouts, base \in Bases, miner \in BOOLEAN :
        \E n \in AllCounts(lay), m \in AllLens(lay) :
           /\ (miner \/ NilMiner)
           /\ RecvLight(lay, base, n, m, miner)
  \/ \E h \in 1..NH : \E k \in PoolKinds \cup ExpectedKinds(h) : PoolUpdate(h, k)
  \/ (InitPools = "truth" /\ \E lay \in Layouts : \E f \in TruthPools(lay) : SetPool(f))
  \/ \E i \in 1..MaxBlocks : Expire(i)
  \/ Tick
  \/ \E c \in MalClasses : RecvMalformed(c)
  \/ Probe

Spec == Init /\ [][Next]_vars

-----------------------------------------------------------------------------
(* The properties on the model.                                             *)

Phases == {"pend", "posted", "req", "dropped", "crash"}
TypeOK == /\ Len(st) = Len(blocks)
          /\ \A i \in 1..Len(st) : st[i].phase \in Phases
          /\ alive \in BOOLEAN

\* C33: no received block and no later pool contents make the loop (or anything else) panic
Alive == alive

\* C34: a posted block has no holes ...
PostedComplete == \A i \in 1..Len(st) : st[i].phase = "posted" => \A p \in 1..blocks[i].n : st[i].c[p].k # "nil"
\* ... and, when every consumed answer was the true transaction, equals the original
ExactRebuild == \A i \in 1..Len(st) :
                  (st[i].phase = "posted" /\ Genuine(blocks[i]) /\ st[i].tr) => st[i].c = Truth(blocks[i])

IsTick == steps' = steps + 1 /\ st' # st /\ blocks' = blocks /\ \A i \in 1..Len(st) : st'[i].exp = st[i].exp
\* missing and not timed out => keeps waiting; it is never requested or dropped early
WaitsA == \A i \in 1..Len(st) :
              (st[i].phase = "pend" /\ ~st[i].exp /\ alive') => st'[i].phase \in {"pend", "posted"}
\* timed out => the next iteration removes it: built or requested from the sender
TimeoutRequestsA == \A i \in 1..Len(st) :
              (IsTick /\ alive' /\ st[i].phase = "pend" /\ st[i].exp) => st'[i].phase \in {"posted", "req"}
\* every true transaction present => the next iteration (or the receipt itself) posts the block
TruePresent(i) == \A p \in 0..(blocks[i].n - 1) :
                    (st[i].c[p + 1].k = "nil" /\ HashAt(blocks[i], p) # 0) =>
                        Answer(HashAt(blocks[i], p)) = TruthCell(blocks[i], p).k
ArrivalBuildsA == \A i \in 1..Len(st) :
              (IsTick /\ alive' /\ st[i].phase = "pend" /\ Genuine(blocks[i]) /\ st[i].tr /\ TruePresent(i))
                 => st'[i].phase = "posted"
\* a genuine block whose true transactions are all in the pool is posted at receipt
RecvBuildsA == (Len(blocks') = Len(blocks) + 1 /\ alive') =>
                 LET i == Len(blocks') IN
                 (Genuine(blocks'[i]) /\ \A p \in 1..(blocks'[i].n - 1) :
                       HashAt(blocks'[i], p) # 0 => Answer(HashAt(blocks'[i], p)) = TruthCell(blocks'[i], p).k)
                    => st'[i].phase = "posted"
\* final states are only left by nothing
TerminalA == (~alive \/ probed) => UNCHANGED view
ActionProps == WaitsA /\ TimeoutRequestsA /\ ArrivalBuildsA /\ RecvBuildsA /\ TerminalA

Waits == [][WaitsA]_vars
TimeoutRequests == [][TimeoutRequestsA]_vars
ArrivalBuilds == [][ArrivalBuildsA]_vars
RecvBuilds == [][RecvBuildsA]_vars
Terminal == [][TerminalA]_vars

\* the same action properties checked transition by transition (fast path used by the MC configs)
CheckedNext == Next /\ Assert(ActionProps, "an action property of P2PRecv is violated")
CheckedSpec == Init /\ [][CheckedNext]_vars
=============================================================================
