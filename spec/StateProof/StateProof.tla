---------------------------- MODULE StateProof ----------------------------
(***************************************************************************)
(* C03 - MAVL state proofs are complete, sound and crash-free.             *)
(* (system/store/mavl/db: proof.go ConstructProof / Verify /                *)
(*  InnerNodeProofHash, tree.go GetKVPairProof / VerifyKVPairProof,         *)
(*  node.go set / balance / rotate, types.LeafNode/InnerNode.Hash)          *)
(*                                                                         *)
(* The hash is a free injective constructor: the hash of a node IS the     *)
(* tuple <<a, b, height, size>> of what the implementation encodes (leaf:  *)
(* key, value, 0, 1; inner node: left hash, right hash, height, size -     *)
(* LeafNode and InnerNode have the same wire format, so one constructor).  *)
(* Assumption: SHA-256 is collision free.                                  *)
(*                                                                         *)
(* Trees are built exactly as Node.set does (leaf-based AVL, rotations     *)
(* included), so that the i-th inner node of a proof means the same in the *)
(* model and in the code; the honest proof's shape is part of `chk`.       *)
(*                                                                         *)
(*   Proof(t,k)        defined iff k is in t (bottom-up list of inner      *)
(*                     nodes: sibling hash on the other side, height, size)*)
(*   Verify(r,k,v,p)   Fold(leaf hash of (k,v), p) = r, with the           *)
(*                     implementation's reading of an inner node: the      *)
(*                     child is the left input iff the node's left hash is *)
(*                     empty (then the right hash is used), else the child *)
(*                     is the right input and the node's right hash is     *)
(*                     ignored.                                            *)
(*                                                                         *)
(* Checked by TLC on every reachable set of trees:                         *)
(*   Complete  the proof of every present key verifies against its root    *)
(*             with the stored value                                       *)
(*   Sound     for EVERY proof of the mutation universe (honest proofs of  *)
(*             any key and root, each with any single node dropped,        *)
(*             duplicated, side-swapped, any single field changed,         *)
(*             truncated, emptied, extended) and every (root', key',       *)
(*             value'): verification succeeds only if root' is a committed *)
(*             root whose content maps key' to value'                      *)
(* Conformance: the action Table carries the verdict of every row of the   *)
(* single-mutation table (DESIGN 4 C03) for every committed root and key;  *)
(* the driver performs each row on the real proof bytes and compares.      *)
(*                                                                         *)
(* Not decided by the model (sampled by the driver, declared in the        *)
(* manifest note): byte-level malformed proofs. The action Malformed       *)
(* states the oracle: no panic; any bytes with a wrong key/value/root are  *)
(* rejected; undecodable bytes are rejected.                               *)
(* Not compared: the verdict for a mutated but decodable proof presented   *)
(* with the RIGHT key, value and root beyond what the fold predicts        *)
(* (the property leaves malleability of the proof itself open).            *)
(***************************************************************************)
EXTENDS Integers, Sequences, FiniteSets, Json, TLC

CONSTANTS NK,          \* keys 1..NK (concretised order-preserving)
          NV,          \* values 1..NV
          MaxCommits,  \* number of Set batches (any committed root may be the parent)
          MaxWrites,   \* keys written per batch
          EmitOn

VARIABLES trees,      \* sequence of committed trees (a root is identified by its index)
          phase,      \* "build" -> "table" -> "malformed" -> "done"
          act
vars == <<trees, phase, act>>
view == <<trees, phase>>

Keys == 1..NK
Vals == 1..NV
Max2(a, b) == IF a >= b THEN a ELSE b

Nil == <<"N">>
NilH == <<"nil">>        \* empty hash field
Junk == <<"junk">>       \* a hash value that is the hash of nothing in the model

RECURSIVE Height(_)
Height(t) == IF t[1] = "L" THEN 0 ELSE 1 + Max2(Height(t[2]), Height(t[3]))
RECURSIVE Size(_)
Size(t) == IF t[1] = "L" THEN 1 ELSE Size(t[2]) + Size(t[3])
RECURSIVE MinKey(_)
MinKey(t) == IF t[1] = "L" THEN t[2] ELSE MinKey(t[2])
RECURSIVE HashT(_)
LeafHash(k, v) == <<<<"k", k>>, <<"v", v>>, 0, 1>>   \* (key and value wrapped: TLC compares tuples by length first)
HashT(t) == IF t[1] = "L" THEN LeafHash(t[2], t[3])
            ELSE <<HashT(t[2]), HashT(t[3]), Height(t), Size(t)>>
RECURSIVE Get(_, _)
Get(t, k) == IF t = Nil THEN 0
             ELSE IF t[1] = "L" THEN (IF t[2] = k THEN t[3] ELSE 0)
             ELSE IF k < MinKey(t[3]) THEN Get(t[2], k) ELSE Get(t[3], k)
ContentOf(t) == [k \in Keys |-> Get(t, k)]

\* ---- Node.set with balance (node.go) ----
I(l, r) == <<"I", l, r>>
Bal(t) == Height(t[2]) - Height(t[3])
RotR(t) == LET l == t[2] IN I(l[2], I(l[3], t[3]))
RotL(t) == LET r == t[3] IN I(I(t[2], r[2]), r[3])
Balance(t) ==
  IF Bal(t) > 1 THEN (IF Bal(t[2]) >= 0 THEN RotR(t) ELSE RotR(I(RotL(t[2]), t[3])))
  ELSE IF Bal(t) < -1 THEN (IF Bal(t[3]) <= 0 THEN RotL(t) ELSE RotL(I(t[2], RotR(t[3]))))
  ELSE t
Has(t, k) == Get(t, k) # 0
RECURSIVE Ins(_, _, _)
Ins(t, k, v) ==
  IF t = Nil THEN <<"L", k, v>>
  ELSE IF t[1] = "L" THEN
       IF k < t[2] THEN I(<<"L", k, v>>, t)
       ELSE IF k = t[2] THEN <<"L", k, v>>
       ELSE I(t, <<"L", k, v>>)
  ELSE LET upd == Has(t, k)
           n == IF k < MinKey(t[3]) THEN I(Ins(t[2], k, v), t[3]) ELSE I(t[2], Ins(t[3], k, v))
       IN IF upd THEN n ELSE Balance(n)         \* an update of a value never rebalances
RECURSIVE InsFrom(_, _, _)
InsFrom(t, w, k) == IF k > NK THEN t ELSE InsFrom(IF w[k] = 0 THEN t ELSE Ins(t, k, w[k]), w, k + 1)

RECURSIVE AVL(_)
AVL(t) == t[1] = "L" \/ (Bal(t) \in {-1, 0, 1} /\ AVL(t[2]) /\ AVL(t[3]))
RECURSIVE Ordered(_)
Ordered(t) == t[1] = "L" \/ (/\ Ordered(t[2]) /\ Ordered(t[3])
                             /\ \A a \in Keys : Get(t[2], a) # 0 => a < MinKey(t[3]))

\* ---- proofs ----
PNode(l, r, h, s) == [l |-> l, r |-> r, h |-> h, s |-> s]
RECURSIVE Proof(_, _)
Proof(t, k) ==      \* precondition: Has(t, k); bottom-up
  IF t[1] = "L" THEN <<>>
  ELSE IF k < MinKey(t[3]) THEN Append(Proof(t[2], k), PNode(NilH, HashT(t[3]), Height(t), Size(t)))
  ELSE Append(Proof(t[3], k), PNode(HashT(t[2]), NilH, Height(t), Size(t)))
\* InnerNodeProofHash
Step(child, n) == IF n.l = NilH THEN <<child, n.r, n.h, n.s>> ELSE <<n.l, child, n.h, n.s>>
RECURSIVE Fold(_, _, _)
Fold(h, p, i) == IF i > Len(p) THEN h ELSE Fold(Step(h, p[i]), p, i + 1)
Verify(r, k, v, p) == Fold(LeafHash(k, v), p, 1) = r

\* ---- the mutation table ----
Roots == 1..Len(trees)
RootHash(i) == HashT(trees[i])
Present(i) == {k \in Keys : Has(trees[i], k)}

DropAt(p, i) == [j \in 1..(Len(p) - 1) |-> IF j < i THEN p[j] ELSE p[j + 1]]
DupAt(p, i) == [j \in 1..(Len(p) + 1) |-> IF j <= i THEN p[j] ELSE p[j - 1]]
SetAt(p, i, n) == [p EXCEPT ![i] = n]
FieldVariants(n, R) ==      \* single-field changes of one inner node: <<field, variant, new node>>
  {<<"l", "nil", [n EXCEPT !.l = NilH]>>, <<"l", "junk", [n EXCEPT !.l = Junk]>>, <<"l", "root", [n EXCEPT !.l = R]>>,
   <<"r", "nil", [n EXCEPT !.r = NilH]>>, <<"r", "junk", [n EXCEPT !.r = Junk]>>, <<"r", "root", [n EXCEPT !.r = R]>>,
   <<"h", "inc", [n EXCEPT !.h = n.h + 1]>>, <<"h", "dec", [n EXCEPT !.h = n.h - 1]>>, <<"h", "zero", [n EXCEPT !.h = 0]>>,
   <<"s", "inc", [n EXCEPT !.s = n.s + 1]>>, <<"s", "dec", [n EXCEPT !.s = n.s - 1]>>, <<"s", "one", [n EXCEPT !.s = 1]>>,
   <<"lr", "swap", [n EXCEPT !.l = n.r, !.r = n.l]>>}

\* one mutation of an honest proof P taken at tree t (root hash R)
MutProof(P, m, i, f, x, R, t) ==
  CASE m = "none" -> P
    [] m = "dropInner" -> DropAt(P, i)
    [] m = "dupInner" -> DupAt(P, i)
    [] m = "flipInner" -> SetAt(P, i, (CHOOSE fv \in FieldVariants(P[i], R) : fv[1] = f /\ fv[2] = x)[3])
    [] m = "truncated" -> SubSeq(P, 1, Len(P) - i)
    [] m = "emptyProof" -> <<>>
    [] m = "appendJunk" -> Append(P, PNode(NilH, Junk, Height(t) + 1, Size(t) + 1))
    [] m = "appendSelf" -> Append(P, PNode(NilH, R, Height(t) + 1, 2 * Size(t)))

Row(m, i, f, x, r, k, v, p) == [m |-> m, i |-> i, f |-> f, x |-> x, root |-> r, key |-> k, val |-> v, proof |-> p]

\* rows for root index ri and present key k: what is presented to the verifier
Rows(ri, k) ==
  LET R == RootHash(ri)
      t == trees[ri]
      V == Get(t, k)
      P == Proof(t, k)
      PM(m, i, f, x) == Row(m, i, f, x, R, k, V, MutProof(P, m, i, f, x, R, t))
  IN {Row("none", 0, "-", "-", R, k, V, P)}
     \cup {Row("otherValue", 0, "-", ToString(v), R, k, v, P) : v \in Vals \ {V}}
     \cup {Row("otherKeySameValue", k2, "-", "-", R, k2, V, P) : k2 \in Keys \ {k}}
     \cup {Row("otherKeyItsValue", k2, "-", "-", R, k2, Get(t, k2), P) : k2 \in Present(ri) \ {k}}
     \cup {Row("otherRoot", rj, "-", "-", RootHash(rj), k, V, P) : rj \in Roots \ {ri}}
     \cup {Row("randomRoot", 0, "-", "-", Junk, k, V, P)}
     \cup {Row("proofOfOtherKey", k2, "-", "-", R, k, V, Proof(t, k2)) : k2 \in Present(ri) \ {k}}
     \cup {Row("proofFromOtherRoot", rj, "-", "-", R, k, V, Proof(trees[rj], k)) : rj \in {x \in Roots \ {ri} : k \in Present(x)}}
     \cup {PM("dropInner", i, "-", "-") : i \in 1..Len(P)}
     \cup {PM("dupInner", i, "-", "-") : i \in 1..Len(P)}
     \cup UNION {{PM("flipInner", i, fv[1], fv[2]) : fv \in FieldVariants(P[i], R)} : i \in 1..Len(P)}
     \cup {PM("truncated", n, "-", "-") : n \in 1..Len(P)}
     \cup {PM("emptyProof", 0, "-", "-"), PM("appendJunk", 0, "-", "-"), PM("appendSelf", 0, "-", "-")}

Verdict(row) == Verify(row.root, row.key, row.val, row.proof)
\* what the property says about a presentation (root', key', value'): it may verify only if ...
Holds(r, k, v) == \E i \in Roots : RootHash(i) = r /\ Get(trees[i], k) = v /\ v # 0

\* rows ordered deterministically for the label
RowLbl(row) == [m |-> row.m, i |-> row.i, f |-> row.f, x |-> row.x, ret |-> Verdict(row)]
ShapeOf(p) == [j \in 1..Len(p) |-> [side |-> IF p[j].l = NilH THEN "L" ELSE "R", h |-> p[j].h, s |-> p[j].s]]
RECURSIVE SetToSeq(_)
SetToSeq(S) == IF S = {} THEN <<>> ELSE LET x == CHOOSE y \in S : TRUE IN <<x>> \o SetToSeq(S \ {x})
TableChk == [ri \in Roots |->
               [k \in Keys |->
                  IF k \in Present(ri)
                  THEN [present |-> TRUE, shape |-> ShapeOf(Proof(trees[ri], k)),
                        rows |-> SetToSeq({RowLbl(row) : row \in Rows(ri, k)})]
                  ELSE [present |-> FALSE, shape |-> <<>>, rows |-> <<>>]]]
ContentChk == [ri \in Roots |-> ContentOf(trees[ri])]

Emit(r) == act' = IF EmitOn THEN ToJson(r) ELSE ""
WSets == {w \in [Keys -> 0..NV] : Cardinality({k \in Keys : w[k] # 0}) \in 1..MaxWrites}

Init == /\ trees = <<>> /\ phase = "build"
        /\ act = IF EmitOn THEN ToJson([op |-> "Init"]) ELSE ""

\* one batch on top of any committed root (0 = empty state); writes in ascending key order
Set(p, w) ==
  /\ phase = "build" /\ Len(trees) < MaxCommits /\ p \in 0..Len(trees) /\ w \in WSets
  /\ LET t == InsFrom(IF p = 0 THEN Nil ELSE trees[p], w, 1) IN
       /\ trees' = Append(trees, t)
       /\ Emit([op |-> "Set", parent |-> p, ws |-> w, ret |-> Len(trees) + 1,
                chk |-> [content |-> ContentOf(t), height |-> Height(t), size |-> Size(t)]])
  /\ phase' = phase

\* the whole mutation table for every committed root and key
Table ==
  /\ phase = "build" /\ Len(trees) >= 1
  /\ phase' = "table" /\ UNCHANGED trees
  /\ Emit([op |-> "Table", ret |-> "ok", chk |-> TableChk])

\* byte-level malformed proofs (sampled by the driver): the oracle
Malformed ==
  /\ phase = "table"
  /\ phase' = "done" /\ UNCHANGED trees
  /\ Emit([op |-> "Malformed", ret |-> [panics |-> 0, wrong_accepted |-> 0, undecodable_accepted |-> 0]])

Next == (\E p \in 0..Len(trees), w \in WSets : Set(p, w)) \/ Table \/ Malformed
Spec == Init /\ [][Next]_vars

-----------------------------------------------------------------------------
TypeOK == /\ phase \in {"build", "table", "malformed", "done"}
          /\ \A i \in Roots : trees[i] # Nil /\ AVL(trees[i]) /\ Ordered(trees[i])

\* sentence 1: the proof of every present key verifies against its root with the stored value
Complete == \A ri \in Roots : \A k \in Present(ri) :
               Verify(RootHash(ri), k, Get(trees[ri], k), Proof(trees[ri], k))

\* sentence 2, for every proof of the mutation universe and EVERY presented (root, key, value)
AllProofs == UNION {UNION {{row.proof : row \in Rows(ri, k)} : k \in Present(ri)} : ri \in Roots}
Sound == \A p \in AllProofs : \A r \in {RootHash(i) : i \in Roots} \cup {Junk} : \A k \in Keys : \A v \in Vals :
            Verify(r, k, v, p) => Holds(r, k, v)

\* the single-mutation table restricted to what the property's second sentence names: a presentation
\* with another value, another key or another root never verifies
TableSound == \A ri \in Roots : \A k \in Present(ri) : \A row \in Rows(ri, k) :
                 Verdict(row) => Holds(row.root, row.key, row.val)
=============================================================================
