---------------------------- MODULE StateProof_All ----------------------------
(* Exhaustive behaviour export: every history of Set batches followed by the   *)
(* full mutation table and the malformed-bytes step is printed once ("@@B").   *)
EXTENDS StateProof
VARIABLE hist
AInit == Init /\ hist = <<>>
ANext == Next /\ hist' = Append(hist, act')
ASpec == AInit /\ [][ANext]_<<vars, hist>>
Export == phase = "done" => PrintT(<<"@@B", ToJson(hist)>>)
=============================================================================
