SPECIFICATION TSpec
CONSTANTS
  NK = 8
  NV = 2
  MaxCommits = 1000000
  MaxWrites = 8
  EmitOn = FALSE
INVARIANTS Mark TypeOK Complete
POSTCONDITION TraceDone
CHECK_DEADLOCK FALSE
