-------------------------- MODULE StateProof_Trace --------------------------
(* Trace specification: every event recorded from the real tree / proof code  *)
(* must be explained by StateProof: trees rebuilt batch by batch (content,    *)
(* height, size), the shape of every honest proof, and the verdict of every   *)
(* presentation (root, key, value, honest proof of some (root, key) with one  *)
(* mutation).                                                                  *)
EXTENDS StateProof, TraceLib

VARIABLE l
tvars == <<vars, l>>
Ev == Trace[l]
IsEvent(e) == l <= Len(Trace) /\ Ev.ev = e /\ l' = l + 1

TInit == Init /\ l = 1
TReset == IsEvent("Reset") /\ trees' = <<>> /\ phase' = "build" /\ act' = act

TSet == /\ IsEvent("Set")
        /\ Ev.ret = Len(trees) + 1
        /\ Set(Ev.parent, [k \in Keys |-> Ev.ws[k]])
        /\ LET t == trees'[Len(trees')] IN
             /\ Ev.content = ContentOf(t) /\ Ev.height = Height(t) /\ Ev.size = Size(t)

TProve == /\ IsEvent("Prove") /\ Ev.root \in Roots /\ Ev.key \in Keys
          /\ Ev.present = (Ev.key \in Present(Ev.root))
          /\ Ev.present => Ev.shape = ShapeOf(Proof(trees[Ev.root], Ev.key))
          /\ UNCHANGED vars

TVerify == /\ IsEvent("Verify")
           /\ LET rj == Ev.of[1]
                  k2 == Ev.of[2]
                  t == trees[rj]
                  P == MutProof(Proof(t, k2), Ev.m, Ev.i, Ev.f, Ev.x, RootHash(rj), t)
                  r == IF Ev.root = 0 THEN Junk ELSE RootHash(Ev.root)
              IN /\ rj \in Roots /\ k2 \in Present(rj)
                 /\ Ev.ret = (IF Verify(r, Ev.key, Ev.val, P) THEN "true" ELSE "false")
                 \* the property, on what was observed: acceptance only of what holds
                 /\ Ev.ret = "true" => Holds(r, Ev.key, Ev.val)
           /\ UNCHANGED vars

TNext == TReset \/ TSet \/ TProve \/ TVerify
TSpec == TInit /\ [][TNext]_tvars
Mark == MarkHWM(l - 1)
=============================================================================
