SPECIFICATION ASpec
CONSTANTS
  NK = 3
  NV = 2
  MaxCommits = 2
  MaxWrites = 2
  EmitOn = TRUE
INVARIANT Export
CHECK_DEADLOCK FALSE
