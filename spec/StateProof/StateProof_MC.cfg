SPECIFICATION Spec
CONSTANTS
  NK = 3
  NV = 2
  MaxCommits = 2
  MaxWrites = 3
  EmitOn = FALSE
VIEW view
INVARIANTS TypeOK Complete Sound TableSound
CHECK_DEADLOCK FALSE
