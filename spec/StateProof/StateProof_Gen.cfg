SPECIFICATION Spec
CONSTANTS
  NK = 5
  NV = 2
  MaxCommits = 3
  MaxWrites = 4
  EmitOn = TRUE
CHECK_DEADLOCK FALSE
