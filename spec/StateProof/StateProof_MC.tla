---- MODULE StateProof_MC ----
EXTENDS StateProof
====
