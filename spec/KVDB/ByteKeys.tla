------------------------------ MODULE ByteKeys ------------------------------
(***************************************************************************)
(* Keys of chain33's key-value layer (common/db) are byte strings ordered   *)
(* by bytes.Compare.  They are modelled as finite sequences of integers     *)
(* 0..255, so that the prefix relation, the "prefix upper bound" the        *)
(* backends derive from a prefix (db.go bytesPrefix: increment the last     *)
(* byte below 0xff and cut there) and its 0xff edge cases are inside the    *)
(* model and not only in the harness' concretisation.                       *)
(*                                                                         *)
(* Shared by KVDB (C06), Listing (C07) and LocalDB (C08).                   *)
(***************************************************************************)
EXTENDS Integers, Sequences, FiniteSets

\* bytes.Compare(a, b) < 0
LexLess(a, b) ==
  \E i \in 1..(Len(a) + 1) :
     /\ i <= Len(b)
     /\ \A j \in 1..(i - 1) : a[j] = b[j]
     /\ (i <= Len(a) => a[i] < b[i])
LexLeq(a, b) == a = b \/ LexLess(a, b)

HasPrefix(k, p) == Len(p) <= Len(k) /\ \A j \in 1..Len(p) : k[j] = p[j]

\* +infinity of the order: compares above every byte string
Inf == <<256>>

\* the least byte string above every string that starts with p (Inf if there is none):
\* what bytesPrefix computes; empty or all-0xff prefixes have no upper bound
UB(p) ==
  LET nf == {i \in 1..Len(p) : p[i] < 255} IN
  IF nf = {} THEN Inf
  ELSE LET i == CHOOSE x \in nf : \A y \in nf : y <= x IN
       [j \in 1..i |-> IF j = i THEN p[j] + 1 ELSE p[j]]

\* all byte strings of length lo..hi over alphabet A
SeqsOf(A, lo, hi) == UNION {[1..n -> A] : n \in lo..hi}

\* least / greatest element of a non-empty set of keys
MinKey(S) == CHOOSE k \in S : \A o \in S : LexLeq(k, o)
MaxKey(S) == CHOOSE k \in S : \A o \in S : LexLeq(o, k)

\* the keys of S in ascending byte order
RECURSIVE Asc(_)
Asc(S) == IF S = {} THEN <<>> ELSE LET k == MinKey(S) IN <<k>> \o Asc(S \ {k})
RECURSIVE Desc(_)
Desc(S) == IF S = {} THEN <<>> ELSE LET k == MaxKey(S) IN <<k>> \o Desc(S \ {k})
InDir(S, rev) == IF rev THEN Desc(S) ELSE Asc(S)

\* iteration order: Before(a, b, rev) = a is visited strictly before b
Before(a, b, rev) == IF rev THEN LexLess(b, a) ELSE LexLess(a, b)
\* first element of S in iteration order
FirstOf(S, rev) == IF rev THEN MaxKey(S) ELSE MinKey(S)

-----------------------------------------------------------------------------
\* The fact every backend relies on when it turns a prefix into a key range:
\* k has prefix p  <=>  p <= k < UB(p).  Checked by TLC for the bounded universe
\* (ASSUME in the _MC modules).
PrefixIsRange(Ks, Ps) ==
  \A p \in Ps, k \in Ks : HasPrefix(k, p) <=> (LexLeq(p, k) /\ LexLess(k, UB(p)))
\* and the order is a strict total order on the universe
OrderIsTotal(Ks) ==
  /\ \A a, b \in Ks : (a # b) <=> (LexLess(a, b) \/ LexLess(b, a))
  /\ \A a, b \in Ks : ~(LexLess(a, b) /\ LexLess(b, a))
  /\ \A a, b, c \in Ks : (LexLess(a, b) /\ LexLess(b, c)) => LexLess(a, c)
=============================================================================
