SPECIFICATION Spec
CONSTANTS
  Alphabet = {0, 1, 255}
  MaxLen = 2
  Keys <- MCKeys3
  Prefixes <- MCPrefixes
  NLayers = 2
  InitLayers <- MCAll3
  MaxPuts = 0
  MaxCount = 3
  MaxLists = 1
  EmitOn = FALSE
VIEW view
INVARIANTS TypeOK PagingExact PagingPrefix OnlyLive CountIsListing
CHECK_DEADLOCK FALSE
