---------------------------- MODULE LocalDB_Gen ----------------------------
(* Behaviour generation for LocalDB (C08) with `tlc -simulate`; arguments come   *)
(* from a linear congruential generator kept in the state.                       *)
EXTENDS LocalDB_MC
VARIABLE rng
gvars == <<vars, rng>>
Nth(s, r) == s[1 + (r % Len(s))]
D(k) == rng \div k
KeysSeq == Asc(Keys)
PrefSeq == Asc(Prefixes)
ValsSeq == LET RECURSIVE F(_) F(S) == IF S = {} THEN <<>> ELSE LET x == CHOOSE y \in S : \A z \in S : y <= z IN <<x>> \o F(S \ {x}) IN F(Vals)
\* keys some layer already holds (writes to them exercise layer priority and hiding)
Held == AllKeys(<<tx, cache, base>>)
GenKey == IF Held # {} /\ rng % 3 # 0 THEN Nth(Asc(Held), D(3)) ELSE Nth(KeysSeq, D(7))
UsedPrefixes == {p \in Prefixes : \E k \in Held : HasPrefix(k, p)}
GenPrefix == IF UsedPrefixes # {} /\ rng % 5 # 0 THEN Nth(Asc(UsedPrefixes), D(5)) ELSE Nth(PrefSeq, D(7))
GenCont(p) == LET S == ContKeys(p) IN Nth(Asc(S), D(19))
GenNext ==
  /\ \E d \in 0..3 : rng' = (75 * (rng + d) + 74) % 65537
  /\ \/ Load
     \/ Begin
     \/ (rng % 3 = 0 /\ Commit)
     \/ (rng % 3 = 1 /\ Rollback)
     \/ Set(GenKey, Nth(ValsSeq, D(13)))
     \/ Set(Nth(KeysSeq, D(5)), Nth(ValsSeq, D(29)))
     \/ Get(GenKey)
     \/ LET p == GenPrefix IN List(p, GenCont(p), 1 + (D(23) % MaxCount), D(2) % 2 = 0)
     \/ PrefixCount(GenPrefix)
GenInit == Init /\ rng \in 0..39
GenSpec == GenInit /\ [][GenNext]_gvars
=============================================================================
