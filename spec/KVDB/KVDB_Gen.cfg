SPECIFICATION GenSpec
CONSTANTS
  Alphabet = {0, 1, 255}
  MaxLen = 2
  Keys <- MCAllKeys
  Bounds <- MCBounds
  Vals = {0, 1, 2}
  MaxBatch = 3
  EmitOn = TRUE
CHECK_DEADLOCK FALSE
