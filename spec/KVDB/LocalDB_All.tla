---------------------------- MODULE LocalDB_All ----------------------------
(* Exhaustive behaviour export (GEN-all) for C08: every base content of the small  *)
(* configuration x every sequence of MaxHist state-changing calls (Begin, Set,     *)
(* Commit, Rollback); the projection (every Get, both listings, the count) is      *)
(* compared after every call, so read-only calls need not be enumerated.           *)
EXTENDS LocalDB_MC
CONSTANT MaxHist
VARIABLE hist
AInit == Init /\ hist = <<>>
AStep == Load \/ Begin \/ Commit \/ Rollback \/ \E k \in Keys, v \in Vals : Set(k, v)
ANext == Len(hist) < MaxHist /\ AStep /\ hist' = Append(hist, act')
ASpec == AInit /\ [][ANext]_<<vars, hist>>
Done == Len(hist) = MaxHist
Export == Done => PrintT(<<"@@B", ToJson(hist)>>)
=============================================================================
