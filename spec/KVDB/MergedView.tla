----------------------------- MODULE MergedView -----------------------------
(***************************************************************************)
(* The merged view over layered key-value maps (common/db merge_iter.go,    *)
(* localdb.go) and the paged listing contract of ListHelper.List /          *)
(* PrefixCount (list_helper.go).  `layers` is a sequence of maps, layer 1   *)
(* has priority; the value 0 is the empty value = "deleted" marker.         *)
(* Shared by Listing (C07) and LocalDB (C08).                               *)
(***************************************************************************)
EXTENDS ByteKeys

AllKeys(layers) == UNION {DOMAIN layers[l] : l \in 1..Len(layers)}
\* the layer that answers for k (0: none)
Holder(layers, k) ==
  LET S == {l \in 1..Len(layers) : k \in DOMAIN layers[l]} IN
  IF S = {} THEN 0 ELSE CHOOSE l \in S : \A o \in S : l <= o
ValueOf(layers, k) == IF Holder(layers, k) = 0 THEN -1 ELSE layers[Holder(layers, k)][k]
IsLive(layers, k) == ValueOf(layers, k) > 0

\* the live entries under a prefix
Live(layers, prefix) == {k \in AllKeys(layers) : HasPrefix(k, prefix) /\ IsLive(layers, k)}
Entries(layers, ks) == [i \in 1..Len(ks) |-> <<ks[i], ValueOf(layers, ks[i])>>]
\* the complete listing of a prefix in one direction
FullList(layers, prefix, rev) == Entries(layers, InDir(Live(layers, prefix), rev))

\* one request: at most `count` live entries under `prefix` strictly after `key` in
\* iteration direction (from the first one when key is empty)
Page(layers, prefix, key, count, rev) ==
  LET S == {k \in Live(layers, prefix) : key = <<>> \/ Before(key, k, rev)}
      sq == InDir(S, rev) IN
  Entries(layers, SubSeq(sq, 1, IF count < Len(sq) THEN count ELSE Len(sq)))

PrefixCountOf(layers, prefix) == Cardinality(Live(layers, prefix))

IsPrefixSeq(a, b) == Len(a) <= Len(b) /\ \A i \in 1..Len(a) : a[i] = b[i]

\* sorted dump of one layer (for Load steps / projections)
Dump(mm) == LET ks == Asc(DOMAIN mm) IN [i \in 1..Len(ks) |-> <<ks[i], mm[ks[i]]>>]

PutIn(mm, k, v) == [x \in DOMAIN mm \cup {k} |-> IF x = k THEN v ELSE mm[x]]
EmptyMap == [x \in {} |-> 0]
\* every map from a subset of Ks to Vs
MapsOver(Ks, Vs) == UNION {[S -> Vs] : S \in SUBSET Ks}
=============================================================================
