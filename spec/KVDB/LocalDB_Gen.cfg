SPECIFICATION GenSpec
CONSTANTS
  Alphabet = {0, 1, 255}
  MaxLen = 2
  Keys <- MCKeys4
  Prefixes <- MCPrefixes
  Vals = {0, 1, 2}
  BaseVal = 3
  InitBases <- MCBases4
  MaxCount = 3
  EmitOn = TRUE
CHECK_DEADLOCK FALSE
