----------------------------- MODULE KVDB_Trace -----------------------------
(* Trace specification for C06: every call recorded from a real backend must  *)
(* be a step of KVDB with the recorded observation.                           *)
EXTENDS KVDB, TraceLib
CONSTANTS TAlphabet, TMaxLen

TKeys == SeqsOf(TAlphabet, 1, TMaxLen)
TBounds == SeqsOf(TAlphabet, 0, TMaxLen)

VARIABLE l
tvars == <<vars, l>>
Ev == Trace[l]
IsEvent(e) == l <= Len(Trace) /\ Ev.ev = e /\ l' = l + 1

\* observation of an iterator: <<valid, key, value>>
ObsMatches(obs, p) ==
  /\ Len(obs) = 3
  /\ IF p = AtEnd THEN obs[1] = FALSE
     ELSE obs[1] = TRUE /\ obs[2] = p /\ obs[3] = m[p]

TInit == Init /\ l = 1
TReset == IsEvent("Reset") /\ m' = EmptyMap /\ it' = NoIt /\ act' = act
TSet == IsEvent("Set") /\ Ev.ret = "ok" /\ Set(Ev.key, Ev.val)
TDelete == IsEvent("Delete") /\ Ev.ret = "ok" /\ Delete(Ev.key)
TBatch == IsEvent("Batch") /\ Ev.ret = "ok" /\ Batch(Ev.ops)
TGet == IsEvent("Get") /\ Get(Ev.key)
        /\ Ev.ret = (IF Ev.key \in DOMAIN m THEN <<"val", m[Ev.key]>> ELSE <<"none", -1>>)
TItOpen == IsEvent("ItOpen") /\ ItOpen(Ev.start, Ev.end, Ev.mode, Ev.rev)
TRewind == IsEvent("Rewind") /\ Rewind /\ ObsMatches(Ev.ret, it'.pos)
TSeek == IsEvent("Seek") /\ Seek(Ev.key) /\ (it'.pos # Unknown => ObsMatches(Ev.ret, it'.pos))
TNext == IsEvent("Next") /\ ItNext /\ ObsMatches(Ev.ret, it'.pos)
TItClose == IsEvent("ItClose") /\ ItClose

TNext_ == TReset \/ TSet \/ TDelete \/ TBatch \/ TGet \/ TItOpen \/ TRewind \/ TSeek \/ TNext \/ TItClose
TSpec == TInit /\ [][TNext_]_tvars
Mark == MarkHWM(l - 1)
=============================================================================
