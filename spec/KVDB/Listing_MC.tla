----------------------------- MODULE Listing_MC -----------------------------
EXTENDS Listing
CONSTANTS Alphabet, MaxLen

MCPrefixes == SeqsOf(Alphabet, 0, MaxLen)
MCAllKeys == SeqsOf(Alphabet, 1, MaxLen)
\* <<0>> is a prefix of <<0,255>>; <<1>> = UB(<<0>>) = UB(<<0,255>>) sits just outside both prefixes;
\* <<255,255>> has no upper bound
MCKeys3 == {<<0>>, <<0, 255>>, <<1>>}
MCKeys4 == {<<0>>, <<0, 255>>, <<1>>, <<255, 255>>}
MCKeys5 == {<<0>>, <<0, 255>>, <<0, 255, 255>>, <<1>>, <<255, 255>>}
MCPrefixes3 == SeqsOf(Alphabet, 0, 2) \cup {<<0, 255, 255>>}

\* every content: each layer maps a subset of the keys to 0 (deleted marker) or its own number
AllContents(Ks) == LET per(l) == MapsOver(Ks, {0, l}) IN
  IF NLayers = 1 THEN {<<a>> : a \in per(1)}
  ELSE IF NLayers = 2 THEN {<<a, b>> : a \in per(1), b \in per(2)}
  ELSE {<<a, b, c>> : a \in per(1), b \in per(2), c \in per(3)}
MCAll3 == AllContents(MCKeys3)
MCAll4 == AllContents(MCKeys4)
MCAll5 == AllContents(MCKeys5)
MCPrefixesSmall == {<<>>, <<0>>, <<0, 255>>, <<1>>, <<255>>}
MCEmpty == {[l \in 1..NLayers |-> EmptyMap]}
=============================================================================
