SPECIFICATION TSpec
CONSTANTS
  TAlphabet = {0, 1, 2, 255}
  TMaxLen = 3
  Keys <- TKeys
  Prefixes <- TPrefixes
  Vals = {0, 1, 2}
  BaseVal = 3
  InitBases <- TBases
  MaxCount = 1000000
  EmitOn = FALSE
INVARIANTS Mark TypeOK ListAgreesWithGet
POSTCONDITION TraceDone
CHECK_DEADLOCK FALSE
