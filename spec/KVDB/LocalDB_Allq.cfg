SPECIFICATION ASpec
CONSTANTS
  Alphabet = {0, 1, 255}
  MaxLen = 2
  Keys <- MCKeys2
  Prefixes <- MCPrefixesSmall
  Vals = {0, 1}
  BaseVal = 3
  InitBases <- MCBases2
  MaxCount = 1
  MaxHist = 5
  EmitOn = TRUE
INVARIANT Export
CHECK_DEADLOCK FALSE
