SPECIFICATION Spec
CONSTANTS
  Alphabet = {0, 1, 255}
  MaxLen = 2
  Keys <- MCKeys3
  Prefixes <- MCPrefixesSmall
  Vals = {0, 1, 2}
  BaseVal = 3
  InitBases <- MCBases3
  MaxCount = 2
  EmitOn = FALSE
VIEW view
INVARIANTS TypeOK ListAgreesWithGet
PROPERTIES RollbackDiscards CommitKeeps BeginNeutral SetVisible
CHECK_DEADLOCK FALSE
