------------------------------ MODULE Listing ------------------------------
(***************************************************************************)
(* C07 - paged listing of a key prefix through ListHelper.List /            *)
(* PrefixCount over one database or over the merged view of layered         *)
(* databases (NewMergedIteratorDB, LocalDB.List).                           *)
(*                                                                         *)
(* A client lists a prefix page by page: the first request carries an empty *)
(* key, every following request the last key it received, until a request   *)
(* returns nothing.  The property: the concatenated pages are exactly the   *)
(* live entries under the prefix, once each, in key order (PagingExact),    *)
(* and PrefixCount is their number.  A value of 0 (empty) marks an entry    *)
(* deleted; in a merged view the first layer holding a key decides.         *)
(* A live value written into layer l is the number l, so a reply also shows *)
(* which layer answered.                                                    *)
(*                                                                         *)
(* Deliberately NOT demanded: the ListSeek mode; count <= 0; a continuation *)
(* key that was not returned by the previous page (outside the prefix,      *)
(* deleted, or absent); listing while the content changes.                  *)
(* Result encodings (values / ListWithKey / ListKeyOnly) are a parameter of *)
(* the request: "all" asks the harness to issue the request in all three    *)
(* encodings and to merge the decoded replies.                              *)
(***************************************************************************)
EXTENDS MergedView, Json, TLC

CONSTANTS Keys, Prefixes, NLayers,
          InitLayers,   \* possible initial contents (set of layer tuples)
          MaxPuts,      \* writes after the initial content (generation)
          MaxCount,     \* page sizes 1..MaxCount
          MaxLists,     \* paginations per behaviour
          EmitOn

VARIABLES layers, phase, cur, nput, nlist, act
vars == <<layers, phase, cur, nput, nlist, act>>
view == <<layers, phase, cur, nput, nlist>>

NoCur == [prefix |-> <<>>, rev |-> FALSE, count |-> 0, last |-> <<>>, acc |-> <<>>, fin |-> FALSE, counted |-> FALSE]

Emit(r) == act' = IF EmitOn THEN ToJson(r) ELSE ""
LayersJson == [l \in 1..NLayers |-> Dump(layers[l])]

Init == /\ layers \in InitLayers /\ phase = "init" /\ cur = NoCur /\ nput = 0 /\ nlist = 0
        /\ act = IF EmitOn THEN ToJson([op |-> "Init"]) ELSE ""

\* the initial content is written into the real databases
Load ==
  /\ phase = "init" /\ phase' = "load"
  /\ UNCHANGED <<layers, cur, nput, nlist>>
  /\ Emit([op |-> "Load", layers |-> LayersJson, ret |-> "ok"])

Put(l, k, live) ==
  /\ phase = "load" /\ nput < MaxPuts
  /\ layers' = [layers EXCEPT ![l] = PutIn(layers[l], k, IF live THEN l ELSE 0)]
  /\ nput' = nput + 1
  /\ UNCHANGED <<phase, cur, nlist>>
  /\ Emit([op |-> "Put", layer |-> l, key |-> k, val |-> IF live THEN l ELSE 0, ret |-> "ok"])

ListStep(prefix, key, count, rev, pg) ==
  Emit([op |-> "List", prefix |-> prefix, key |-> key, count |-> count, rev |-> rev, enc |-> "all", ret |-> pg])

PageFirst(prefix, rev, count) ==
  /\ phase \in {"load", "idle"} /\ nlist < MaxLists /\ (cur.fin => cur.counted)
  /\ LET pg == Page(layers, prefix, <<>>, count, rev) IN
     /\ cur' = [prefix |-> prefix, rev |-> rev, count |-> count,
                last |-> IF pg = <<>> THEN <<>> ELSE pg[Len(pg)][1], acc |-> pg, fin |-> pg = <<>>,
                counted |-> FALSE]
     /\ phase' = IF pg = <<>> THEN "idle" ELSE "paging"
     /\ ListStep(prefix, <<>>, count, rev, pg)
  /\ nlist' = nlist + 1
  /\ UNCHANGED <<layers, nput>>

PageNext ==
  /\ phase = "paging"
  /\ LET pg == Page(layers, cur.prefix, cur.last, cur.count, cur.rev) IN
     /\ cur' = [cur EXCEPT !.last = IF pg = <<>> THEN cur.last ELSE pg[Len(pg)][1],
                           !.acc = cur.acc \o pg, !.fin = pg = <<>>]
     /\ phase' = IF pg = <<>> THEN "idle" ELSE "paging"
     /\ ListStep(cur.prefix, cur.last, cur.count, cur.rev, pg)
  /\ UNCHANGED <<layers, nput, nlist>>

\* every finished pagination is followed by the count of its prefix
CountCur ==
  /\ phase = "idle" /\ cur.fin /\ ~cur.counted
  /\ cur' = [cur EXCEPT !.counted = TRUE]
  /\ UNCHANGED <<layers, phase, nput, nlist>>
  /\ Emit([op |-> "PrefixCount", prefix |-> cur.prefix, ret |-> PrefixCountOf(layers, cur.prefix)])

Next == \/ Load
        \/ \E l \in 1..NLayers, k \in Keys, live \in BOOLEAN : Put(l, k, live)
        \/ \E p \in Prefixes, rev \in BOOLEAN, c \in 1..MaxCount : PageFirst(p, rev, c)
        \/ PageNext
        \/ CountCur

Spec == Init /\ [][Next]_vars

-----------------------------------------------------------------------------
TypeOK ==
  /\ \A l \in 1..NLayers : DOMAIN layers[l] \subseteq Keys /\ \A k \in DOMAIN layers[l] : layers[l][k] \in {0, l}
  /\ phase \in {"init", "load", "idle", "paging"}
  /\ cur.rev \in BOOLEAN /\ cur.fin \in BOOLEAN /\ cur.counted \in BOOLEAN

\* the property: a finished pagination returned every live entry under the prefix exactly
\* once, in key order, and nothing else
PagingExact == cur.fin => cur.acc = FullList(layers, cur.prefix, cur.rev)
\* ... and at every moment the pages so far are an initial part of that listing
PagingPrefix == phase = "paging" => /\ IsPrefixSeq(cur.acc, FullList(layers, cur.prefix, cur.rev))
                                     /\ cur.acc # <<>> /\ cur.last = cur.acc[Len(cur.acc)][1]
\* nothing outside the prefix, nothing deleted, nothing hidden by a higher layer's marker
OnlyLive == \A i \in 1..Len(cur.acc) :
              LET k == cur.acc[i][1] IN HasPrefix(k, cur.prefix) /\ IsLive(layers, k) /\ cur.acc[i][2] = Holder(layers, k)
\* the count is the number of entries a complete listing returns
CountIsListing == \A p \in Prefixes : /\ PrefixCountOf(layers, p) = Len(FullList(layers, p, FALSE))
                                      /\ PrefixCountOf(layers, p) = Len(FullList(layers, p, TRUE))
=============================================================================
