------------------------------ MODULE LocalDB ------------------------------
(***************************************************************************)
(* C08 - the layered local database used during block execution             *)
(* (common/db/localdb.go): a base database, a committed overlay (`cache`)   *)
(* and the writes of an optional open transaction (`tx`).                   *)
(*                                                                         *)
(*   Get(k)   the value of the first of tx (when a transaction is open),    *)
(*            cache, base that holds k; an empty value (0) hides older      *)
(*            values: the key reads as not found                            *)
(*   Set(k,v) into tx when a transaction is open, else into the overlay     *)
(*   Begin / Commit (tx is merged into the overlay) / Rollback (tx dropped) *)
(*   List / PrefixCount: the merged view of MergedView (C07) over the same  *)
(*            layers; the property demands that they agree with Get         *)
(*                                                                         *)
(* Deliberately NOT demanded: Begin while a transaction is open, Commit /   *)
(* Rollback without one, the read-only mode, concurrent use, the error      *)
(* value of a failed Get beyond "not found".                                *)
(***************************************************************************)
EXTENDS MergedView, Json, TLC

CONSTANTS Keys, Prefixes,
          Vals,        \* values a Set may write; 0 is the empty value
          BaseVal,     \* the value pre-populated base entries carry
          InitBases,   \* possible base contents
          MaxCount, EmitOn

VARIABLES base, cache, tx, intx, loaded, act
vars == <<base, cache, tx, intx, loaded, act>>
view == <<base, cache, tx, intx, loaded>>

Emit(r) == act' = IF EmitOn THEN ToJson(r) ELSE ""

\* the layers a query sees, first has priority
LayersOf(b, c, t, i) == IF i THEN <<t, c, b>> ELSE <<c, b>>
Layers == LayersOf(base, cache, tx, intx)

\* the property's definition of a point read, stated on its own (not through MergedView)
ReadOf(k, b, c, t, i) == IF i /\ k \in DOMAIN t THEN t[k]
                         ELSE IF k \in DOMAIN c THEN c[k]
                         ELSE IF k \in DOMAIN b THEN b[k] ELSE -1
Read(k) == ReadOf(k, base, cache, tx, intx)
ReadNext(k) == ReadOf(k, base', cache', tx', intx')
ReadCommitted(k) == ReadOf(k, base, cache, tx, FALSE)
ReadCommittedNext(k) == ReadOf(k, base', cache', tx', FALSE)
GetRet(v) == IF v > 0 THEN <<"val", v>> ELSE <<"none", -1>>

\* projection compared after every step: Get of every key, the complete listing in both
\* directions, the count (operators take the new values as arguments: TLC evaluates a primed
\* compound expression very slowly)
ProjOf(b, c, t, i) ==
  LET ks == Asc(Keys)
      ly == LayersOf(b, c, t, i) IN
  [gets |-> [n \in 1..Len(ks) |-> <<ks[n], GetRet(ReadOf(ks[n], b, c, t, i))>>],
   list |-> FullList(ly, <<>>, FALSE),
   rlist |-> FullList(ly, <<>>, TRUE),
   count |-> PrefixCountOf(ly, <<>>)]
ProjNext == ProjOf(base', cache', tx', intx')

Init == /\ base \in InitBases /\ cache = EmptyMap /\ tx = EmptyMap /\ intx = FALSE /\ loaded = FALSE
        /\ act = IF EmitOn THEN ToJson([op |-> "Init"]) ELSE ""

\* the base database is populated and the LocalDB created on top of it
Load == /\ ~loaded /\ loaded' = TRUE
        /\ UNCHANGED <<base, cache, tx, intx>>
        /\ Emit([op |-> "Load", base |-> Dump(base), ret |-> "ok", chk |-> ProjNext])

Begin == /\ loaded /\ ~intx
         /\ intx' = TRUE /\ tx' = EmptyMap
         /\ UNCHANGED <<base, cache, loaded>>
         /\ Emit([op |-> "Begin", ret |-> "ok", chk |-> ProjNext])
Set(k, v) ==
  /\ loaded
  /\ IF intx THEN tx' = PutIn(tx, k, v) /\ UNCHANGED cache
             ELSE cache' = PutIn(cache, k, v) /\ UNCHANGED tx
  /\ UNCHANGED <<base, intx, loaded>>
  /\ Emit([op |-> "Set", key |-> k, val |-> v, ret |-> "ok", chk |-> ProjNext])
Get(k) ==
  /\ loaded /\ UNCHANGED <<base, cache, tx, intx, loaded>>
  /\ Emit([op |-> "Get", key |-> k, ret |-> GetRet(Read(k))])
List(prefix, key, count, rev) ==
  /\ loaded /\ UNCHANGED <<base, cache, tx, intx, loaded>>
  /\ Emit([op |-> "List", prefix |-> prefix, key |-> key, count |-> count, rev |-> rev, enc |-> "all",
           ret |-> Page(Layers, prefix, key, count, rev)])
PrefixCount(prefix) ==
  /\ loaded /\ UNCHANGED <<base, cache, tx, intx, loaded>>
  /\ Emit([op |-> "PrefixCount", prefix |-> prefix, ret |-> PrefixCountOf(Layers, prefix)])
Commit ==
  /\ loaded /\ intx
  /\ cache' = [k \in DOMAIN cache \cup DOMAIN tx |-> IF k \in DOMAIN tx THEN tx[k] ELSE cache[k]]
  /\ tx' = EmptyMap /\ intx' = FALSE
  /\ UNCHANGED <<base, loaded>>
  /\ Emit([op |-> "Commit", ret |-> "ok", chk |-> ProjNext])
Rollback ==
  /\ loaded /\ intx
  /\ tx' = EmptyMap /\ intx' = FALSE
  /\ UNCHANGED <<base, cache, loaded>>
  /\ Emit([op |-> "Rollback", ret |-> "ok", chk |-> ProjNext])

\* continuation keys: none, or a key the listing of that prefix currently shows
ContKeys(prefix) == {<<>>} \cup Live(Layers, prefix)

Next == \/ Load \/ Begin \/ Commit \/ Rollback
        \/ \E k \in Keys, v \in Vals : Set(k, v)
        \/ \E k \in Keys : Get(k)
        \/ \E p \in Prefixes, c \in 1..MaxCount, rev \in BOOLEAN : \E key \in ContKeys(p) : List(p, key, c, rev)
        \/ \E p \in Prefixes : PrefixCount(p)

Spec == Init /\ [][Next]_vars

-----------------------------------------------------------------------------
TypeOK ==
  /\ DOMAIN base \subseteq Keys /\ DOMAIN cache \subseteq Keys /\ DOMAIN tx \subseteq Keys
  /\ \A k \in DOMAIN base : base[k] = BaseVal
  /\ \A k \in DOMAIN cache : cache[k] \in Vals \/ cache[k] = BaseVal
  /\ \A k \in DOMAIN tx : tx[k] \in Vals
  /\ intx \in BOOLEAN /\ (~intx => tx = EmptyMap)

\* list and count queries agree with point reads at every step
ListAgreesWithGet ==
  \A p \in Prefixes :
    LET shown == {k \in Keys : HasPrefix(k, p) /\ Read(k) > 0}
        fl == FullList(Layers, p, FALSE) IN
    /\ {fl[i][1] : i \in 1..Len(fl)} = shown
    /\ \A i \in 1..Len(fl) : fl[i][2] = Read(fl[i][1])
    /\ PrefixCountOf(Layers, p) = Cardinality(shown)

\* rolling back discards exactly the open transaction's writes
RollbackDiscards == [][Rollback => \A k \in Keys : ReadNext(k) = ReadCommitted(k) /\ ReadCommittedNext(k) = ReadCommitted(k)]_vars
\* committing keeps them (every read is what it was inside the transaction)
CommitKeeps == [][Commit => \A k \in Keys : ReadNext(k) = Read(k) /\ ReadCommittedNext(k) = Read(k)]_vars
\* opening a transaction changes no read
BeginNeutral == [][Begin => \A k \in Keys : ReadNext(k) = Read(k)]_vars
\* a write is what the next read of that key returns, no other key changes, and inside a
\* transaction the committed state is untouched
SetVisible == [][\A k \in Keys, v \in Vals : Set(k, v) =>
                  /\ ReadNext(k) = v
                  /\ \A o \in Keys \ {k} : ReadNext(o) = Read(o)
                  /\ intx => \A o \in Keys : ReadCommittedNext(o) = ReadCommitted(o)]_vars
=============================================================================
