SPECIFICATION ASpec
CONSTANTS
  Alphabet = {0, 1, 255}
  MaxLen = 2
  Keys <- MCKeys3
  Prefixes <- MCPrefixesSmall
  NLayers = 2
  InitLayers <- MCAll3
  MaxPuts = 0
  MaxCount = 4
  MaxLists = 1
  EmitOn = TRUE
INVARIANT Export
CHECK_DEADLOCK FALSE
