------------------------------- MODULE KVDB -------------------------------
(***************************************************************************)
(* C06 - reference model of one chain33 key-value backend (common/db:       *)
(* GoMemDB, GoLevelDB, GoBadgerDB): an ordered map from byte strings to     *)
(* values with point writes, deletes, atomic batches and one iterator.      *)
(*                                                                         *)
(* Iterator contract (db.go, go_level_db.go, go_badger_db.go, db_test.go):  *)
(*   Iterator(start, nil, rev)        prefix mode: the keys that start with  *)
(*                                    `start` (the backends turn this into  *)
(*                                    [start, UB(start)) - see ByteKeys)    *)
(*   Iterator(start, end, rev)        the keys of [start, end)              *)
(*   Iterator(start, EmptyValue, rev) the keys >= start                     *)
(*   Rewind: first in-range key in iteration direction; Seek(t): forward    *)
(*   the least in-range key >= t, reverse the greatest in-range key <= t;   *)
(*   Next: the following in-range key; past either end the iterator is      *)
(*   invalid.  A batch applies its operations in order.                     *)
(*                                                                         *)
(* Deliberately NOT demanded (the property does not say):                   *)
(*   - the error value of Delete / batch Write for an absent key (memdb     *)
(*     answers ErrNotFound, LevelDB nil); Iterator.Error()                  *)
(*   - the boolean returned by Rewind/Seek/Next (only Valid/Key/Value after  *)
(*     the call are compared)                                               *)
(*   - the state of an iterator before its first Rewind/Seek, Next on an    *)
(*     invalid iterator, writes while an iterator is open (snapshot or live *)
(*     view differs between backends)                                       *)
(*   - Seek to a target outside the iterator's range: the reply and the     *)
(*     position afterwards are open ("*") until the next Rewind / in-range  *)
(*     Seek                                                                 *)
(*   - the empty key as a stored key (Badger refuses it)                    *)
(***************************************************************************)
EXTENDS ByteKeys, Json, TLC

CONSTANTS Keys,      \* storable keys (non-empty byte strings)
          Bounds,    \* iterator bounds and seek targets (byte strings, may be empty)
          Vals,      \* values: 0 is the empty value, others are distinct non-empty values
          MaxBatch,  \* longest batch
          EmitOn

VARIABLES m,         \* the map: function from a subset of Keys to Vals
          it,        \* the iterator
          act
vars == <<m, it, act>>
view == <<m, it>>

\* iterator positions that are not keys
AtEnd   == <<-1>>     \* invalid (past either end / nothing in range)
Unknown == <<-2>>     \* left open by the contract (fresh iterator, out-of-range seek)

NoIt == [open |-> FALSE, start |-> <<>>, end |-> <<>>, mode |-> "prefix", rev |-> FALSE, pos |-> Unknown]

Modes == {"prefix", "range", "open"}

InRange(i, k) ==
  CASE i.mode = "prefix" -> HasPrefix(k, i.start)
    [] i.mode = "range"  -> LexLeq(i.start, k) /\ LexLess(k, i.end)
    [] i.mode = "open"   -> LexLeq(i.start, k)

RangeKeys(i) == {k \in DOMAIN m : InRange(i, k)}

\* where a positioning call lands
RewindPos(i) == LET S == RangeKeys(i) IN IF S = {} THEN AtEnd ELSE FirstOf(S, i.rev)
SeekPos(i, t) ==
  LET S == {k \in RangeKeys(i) : k = t \/ Before(t, k, i.rev)} IN
  IF S = {} THEN AtEnd ELSE FirstOf(S, i.rev)
NextPos(i) ==
  LET S == {k \in RangeKeys(i) : Before(i.pos, k, i.rev)} IN
  IF S = {} THEN AtEnd ELSE FirstOf(S, i.rev)

\* what the caller observes after a positioning call: Valid(), Key(), Value()
ObsJson(p) == IF p = Unknown THEN "*"
              ELSE IF p = AtEnd THEN [valid |-> FALSE, key |-> <<>>, val |-> -1]
              ELSE [valid |-> TRUE, key |-> p, val |-> m[p]]

\* projection compared after every write: Get of every key
Table(mm) == LET ks == Asc(Keys) IN
             [i \in 1..Len(ks) |-> <<ks[i], IF ks[i] \in DOMAIN mm THEN mm[ks[i]] ELSE -1>>]

Emit(r) == act' = IF EmitOn THEN ToJson(r) ELSE ""

Put(mm, k, v) == [x \in DOMAIN mm \cup {k} |-> IF x = k THEN v ELSE mm[x]]
Del(mm, k) == [x \in DOMAIN mm \ {k} |-> mm[x]]

BatchOps == [t : {"set"}, k : Keys, v : Vals] \cup [t : {"del"}, k : Keys, v : {-1}]
RECURSIVE ApplyOps(_, _)
ApplyOps(mm, ops) ==
  IF ops = <<>> THEN mm
  ELSE LET o == Head(ops) IN
       ApplyOps(IF o.t = "set" THEN Put(mm, o.k, o.v) ELSE Del(mm, o.k), Tail(ops))

EmptyMap == [x \in {} |-> 0]
Init == /\ m = EmptyMap /\ it = NoIt
        /\ act = IF EmitOn THEN ToJson([op |-> "Init"]) ELSE ""

\* writes (only while no iterator is open, see header)
Set(k, v) ==
  /\ ~it.open
  /\ m' = Put(m, k, v) /\ UNCHANGED it
  /\ Emit([op |-> "Set", key |-> k, val |-> v, ret |-> "ok", chk |-> Table(m')])
Delete(k) ==
  /\ ~it.open
  /\ m' = Del(m, k) /\ UNCHANGED it
  /\ Emit([op |-> "Delete", key |-> k, ret |-> "ok", chk |-> Table(m')])
Batch(ops) ==
  /\ ~it.open
  /\ m' = ApplyOps(m, ops) /\ UNCHANGED it
  /\ Emit([op |-> "Batch", ops |-> ops, ret |-> "ok", chk |-> Table(m')])
Get(k) ==
  /\ UNCHANGED <<m, it>>
  /\ Emit([op |-> "Get", key |-> k,
           ret |-> IF k \in DOMAIN m THEN <<"val", m[k]>> ELSE <<"none", -1>>])

ItOpen(s, e, mode, rev) ==
  /\ ~it.open
  /\ it' = [open |-> TRUE, start |-> s, end |-> IF mode = "range" THEN e ELSE <<>>, mode |-> mode,
            rev |-> rev, pos |-> Unknown]
  /\ UNCHANGED m
  /\ Emit([op |-> "ItOpen", start |-> s, end |-> IF mode = "range" THEN e ELSE <<>>, mode |-> mode,
           rev |-> rev, ret |-> "-"])
Rewind ==
  /\ it.open
  /\ it' = [it EXCEPT !.pos = RewindPos(it)] /\ UNCHANGED m
  /\ Emit([op |-> "Rewind", ret |-> ObsJson(it'.pos)])
Seek(t) ==
  /\ it.open
  /\ it' = [it EXCEPT !.pos = IF InRange(it, t) THEN SeekPos(it, t) ELSE Unknown] /\ UNCHANGED m
  /\ Emit([op |-> "Seek", key |-> t, inrange |-> InRange(it, t), ret |-> ObsJson(it'.pos)])
ItNext ==
  /\ it.open /\ it.pos \notin {AtEnd, Unknown}
  /\ it' = [it EXCEPT !.pos = NextPos(it)] /\ UNCHANGED m
  /\ Emit([op |-> "Next", ret |-> ObsJson(it'.pos)])
ItClose ==
  /\ it.open
  /\ it' = NoIt /\ UNCHANGED m
  /\ Emit([op |-> "ItClose", ret |-> "-"])

Next == \/ \E k \in Keys, v \in Vals : Set(k, v)
        \/ \E k \in Keys : Delete(k)
        \/ \E n \in 1..MaxBatch : \E ops \in [1..n -> BatchOps] : Batch(ops)
        \/ \E s \in Bounds, e \in Bounds \ {<<>>}, mode \in Modes, rev \in BOOLEAN :
              (mode = "range" \/ e = CHOOSE x \in Bounds \ {<<>>} : TRUE) /\ ItOpen(s, e, mode, rev)
        \/ Rewind
        \/ \E t \in Bounds \ {<<>>} : Seek(t)
        \/ ItNext
        \/ ItClose

Spec == Init /\ [][Next]_vars

-----------------------------------------------------------------------------
\* The property on the model (checked by TLC on every state / step).

TypeOK ==
  /\ DOMAIN m \subseteq Keys /\ \A k \in DOMAIN m : m[k] \in Vals
  /\ it.open \in BOOLEAN /\ it.rev \in BOOLEAN /\ it.mode \in Modes
  /\ it.pos \in Keys \cup {AtEnd, Unknown}

\* a positioned iterator stands on a stored key of its range
PosInRange == (it.open /\ it.pos \notin {AtEnd, Unknown}) => (it.pos \in DOMAIN m /\ InRange(it, it.pos))

\* the walk Rewind, Next, Next, ... visits exactly the in-range keys, each once, in order
RECURSIVE WalkFrom(_, _)
WalkFrom(i, p) == IF p = AtEnd THEN <<>> ELSE <<p>> \o WalkFrom(i, NextPos([i EXCEPT !.pos = p]))
WalkVisitsRange == it.open => WalkFrom(it, RewindPos(it)) = InDir(RangeKeys(it), it.rev)

\* prefix mode is the key range [start, UB(start)) the backends iterate
PrefixModeIsRange ==
  (it.open /\ it.mode = "prefix") =>
     RangeKeys(it) = {k \in DOMAIN m : LexLeq(it.start, k) /\ LexLess(k, UB(it.start))}

\* a seek lands on the nearest in-range key at or after the target in iteration order
SeekLands ==
  it.open => \A t \in Bounds : InRange(it, t) =>
     LET p == SeekPos(it, t) IN
     /\ p # AtEnd => (p \in RangeKeys(it) /\ (p = t \/ Before(t, p, it.rev)))
     /\ \A k \in RangeKeys(it) : (k = t \/ Before(t, k, it.rev)) => (p # AtEnd /\ (k = p \/ Before(p, k, it.rev)))

\* a batch is atomic and ordered: for every key the last operation on it wins,
\* keys the batch does not mention keep their value
LastOp(ops, k) == LET S == {i \in 1..Len(ops) : ops[i].k = k} IN
                  IF S = {} THEN 0 ELSE CHOOSE i \in S : \A j \in S : j <= i
BatchLastWins ==
  ~it.open => \A n \in 1..MaxBatch : \A ops \in [1..n -> BatchOps] :
     LET mm == ApplyOps(m, ops) IN
     \A k \in Keys :
       LET i == LastOp(ops, k) IN
       IF i = 0 THEN (k \in DOMAIN mm) = (k \in DOMAIN m) /\ (k \in DOMAIN m => mm[k] = m[k])
       ELSE IF ops[i].t = "set" THEN k \in DOMAIN mm /\ mm[k] = ops[i].v
       ELSE k \notin DOMAIN mm

\* a read after a write sees it; a write touches no other key
ReadYourWrite == [][\A k \in Keys, v \in Vals : Set(k, v) =>
                     /\ k \in DOMAIN m' /\ m'[k] = v
                     /\ \A o \in Keys \ {k} : (o \in DOMAIN m') = (o \in DOMAIN m) /\ (o \in DOMAIN m => m'[o] = m[o])]_vars
=============================================================================
