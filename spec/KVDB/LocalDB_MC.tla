----------------------------- MODULE LocalDB_MC -----------------------------
EXTENDS LocalDB
CONSTANTS Alphabet, MaxLen
MCPrefixes == SeqsOf(Alphabet, 0, MaxLen)
MCPrefixesSmall == {<<>>, <<0>>, <<0, 255>>, <<1>>, <<255>>}
MCAllKeys == SeqsOf(Alphabet, 1, MaxLen)
MCKeys2 == {<<0>>, <<0, 255>>}
MCKeys3 == {<<0>>, <<0, 255>>, <<1>>}
MCKeys4 == {<<0>>, <<0, 255>>, <<1>>, <<255, 255>>}
MCBases2 == MapsOver(MCKeys2, {BaseVal})
MCBases3 == MapsOver(MCKeys3, {BaseVal})
MCBases4 == MapsOver(MCKeys4, {BaseVal})
MCBasesAll == MapsOver(MCAllKeys, {BaseVal})
=============================================================================
