SPECIFICATION TSpec
CONSTANTS
  TAlphabet = {0, 1, 2, 255}
  TMaxLen = 3
  Keys <- TKeys
  Prefixes <- TPrefixes
  NLayers = 3
  InitLayers <- TEmpty
  MaxPuts = 1000000
  MaxCount = 1000000
  MaxLists = 1000000
  EmitOn = FALSE
INVARIANTS Mark TypeOK PagingExact PagingPrefix OnlyLive
POSTCONDITION TraceDone
CHECK_DEADLOCK FALSE
