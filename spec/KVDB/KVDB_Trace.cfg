SPECIFICATION TSpec
CONSTANTS
  TAlphabet = {0, 1, 2, 255}
  TMaxLen = 3
  Keys <- TKeys
  Bounds <- TBounds
  Vals = {0, 1, 2, 3}
  MaxBatch = 4
  EmitOn = FALSE
INVARIANTS Mark TypeOK PosInRange WalkVisitsRange PrefixModeIsRange
POSTCONDITION TraceDone
CHECK_DEADLOCK FALSE
