------------------------------ MODULE KVDB_Gen ------------------------------
(* Behaviour generation for KVDB (C06) with `tlc -simulate`: one instance per   *)
(* action kind, its arguments drawn from a linear congruential generator that   *)
(* is part of the state (so a behaviour is a function of TLC's -seed), so that  *)
(* iterator walks are not drowned by the many ways to open an iterator.         *)
EXTENDS KVDB_MC

VARIABLE rng
gvars == <<vars, rng>>

Nth(s, r) == s[1 + (r % Len(s))]
KeysSeq == Asc(Keys)
BoundsSeq == Asc(Bounds)
TargetsSeq == Asc(Bounds \ {<<>>})
ValsSeq == LET RECURSIVE F(_) F(S) == IF S = {} THEN <<>> ELSE LET x == CHOOSE y \in S : \A z \in S : y <= z IN <<x>> \o F(S \ {x}) IN F(Vals)
ModesSeq == <<"prefix", "range", "open", "prefix", "range">>

D(k) == rng \div k
GenOp(r) == IF r % 3 = 0 THEN [t |-> "del", k |-> Nth(KeysSeq, r \div 3), v |-> -1]
            ELSE [t |-> "set", k |-> Nth(KeysSeq, r \div 3), v |-> Nth(ValsSeq, r \div 40)]
GenBatch == [i \in 1..(1 + (rng % MaxBatch)) |-> GenOp(D(i * i + 1) + i)]

\* a positioned iterator mostly keeps walking
Walking == it.open /\ it.pos \notin {AtEnd, Unknown} /\ rng % 4 # 0
GenNext ==
  /\ \E d \in 0..3 : rng' = (75 * (rng + d) + 74) % 65537
  /\ IF Walking THEN ItNext
     ELSE
     \/ Set(Nth(KeysSeq, rng), Nth(ValsSeq, D(13)))
     \/ Set(Nth(KeysSeq, D(7)), Nth(ValsSeq, D(91)))
     \/ Delete(Nth(KeysSeq, D(3)))
     \/ Batch(GenBatch)
     \/ ((~it.open \/ rng % 5 = 0) /\ Get(Nth(KeysSeq, D(5))))
     \/ ItOpen(Nth(BoundsSeq, rng), Nth(TargetsSeq, D(13)), Nth(ModesSeq, D(156)), D(780) % 2 = 0)
     \/ ItOpen(Nth(TargetsSeq, D(3)), Nth(TargetsSeq, D(47)), Nth(ModesSeq, D(11)), D(5) % 2 = 0)
     \/ ((it.pos = Unknown \/ rng % 3 = 0) /\ Rewind)
     \/ Seek(Nth(TargetsSeq, D(2)))
     \/ (it.open /\ RangeKeys(it) # {} /\ Seek(Nth(Asc(RangeKeys(it)), D(17))))
     \/ ItNext
     \/ (it.open /\ (it.pos = AtEnd \/ rng % 7 = 0) /\ ItClose)
GenInit == Init /\ rng \in 0..39
GenSpec == GenInit /\ [][GenNext]_gvars
=============================================================================
