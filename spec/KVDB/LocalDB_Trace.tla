---------------------------- MODULE LocalDB_Trace ----------------------------
(* Trace specification for C08: recorded calls on a real db.NewLocalDB must be   *)
(* steps of LocalDB with the recorded replies; ListAgreesWithGet is evaluated in *)
(* every state the real execution passes through.                                *)
EXTENDS LocalDB, TraceLib
CONSTANTS TAlphabet, TMaxLen
TKeys == SeqsOf(TAlphabet, 1, TMaxLen)
TPrefixes == SeqsOf(TAlphabet, 0, 2)
TBases == {EmptyMap}

VARIABLE l
tvars == <<vars, l>>
Ev == Trace[l]
IsEvent(e) == l <= Len(Trace) /\ Ev.ev = e /\ l' = l + 1

FromDump(d) == [k \in {d[i][1] : i \in 1..Len(d)} |-> d[CHOOSE i \in 1..Len(d) : d[i][1] = k][2]]
PageMatches(enc, obs, pg) ==
  /\ Len(obs) = Len(pg)
  /\ \A i \in 1..Len(pg) : /\ Len(obs[i]) = 2 /\ obs[i][1] = pg[i][1]
                           /\ (enc = "key" \/ obs[i][2] = pg[i][2])

TInit == Init /\ l = 1
TReset == /\ IsEvent("Reset")
          /\ base' = EmptyMap /\ cache' = EmptyMap /\ tx' = EmptyMap /\ intx' = FALSE /\ loaded' = FALSE
          /\ act' = act
TLoad == /\ IsEvent("Load") /\ ~loaded /\ loaded' = TRUE
         /\ base' = FromDump(Ev.base) /\ UNCHANGED <<cache, tx, intx>> /\ act' = act
TBegin == IsEvent("Begin") /\ Begin
TSet == IsEvent("Set") /\ Ev.ret = "ok" /\ Set(Ev.key, Ev.val)
TGet == IsEvent("Get") /\ Get(Ev.key) /\ Ev.ret = GetRet(Read(Ev.key))
TList == /\ IsEvent("List") /\ Ev.key \in ContKeys(Ev.prefix)
         /\ List(Ev.prefix, Ev.key, Ev.count, Ev.rev)
         /\ PageMatches(Ev.enc, Ev.ret, Page(Layers, Ev.prefix, Ev.key, Ev.count, Ev.rev))
TCount == IsEvent("PrefixCount") /\ PrefixCount(Ev.prefix) /\ Ev.ret = PrefixCountOf(Layers, Ev.prefix)
TCommit == IsEvent("Commit") /\ Ev.ret = "ok" /\ Commit
TRollback == IsEvent("Rollback") /\ Rollback

TNext_ == TReset \/ TLoad \/ TBegin \/ TSet \/ TGet \/ TList \/ TCount \/ TCommit \/ TRollback
TSpec == TInit /\ [][TNext_]_tvars
Mark == MarkHWM(l - 1)
=============================================================================
