---------------------------- MODULE Listing_Trace ----------------------------
(* Trace specification for C07: recorded Put / List / PrefixCount calls on the   *)
(* real ListHelper (over one database, a merged iterator database or a LocalDB)  *)
(* must be steps of Listing with the recorded replies; the paging invariants are *)
(* evaluated on the recorded pagination.                                         *)
EXTENDS Listing, TraceLib
CONSTANTS TAlphabet, TMaxLen
TKeys == SeqsOf(TAlphabet, 1, TMaxLen)
TPrefixes == SeqsOf(TAlphabet, 0, TMaxLen)
TEmpty == {[x \in 1..NLayers |-> EmptyMap]}

VARIABLE l
tvars == <<vars, l>>
Ev == Trace[l]
IsEvent(e) == l <= Len(Trace) /\ Ev.ev = e /\ l' = l + 1

\* a reply entry is <<key, value-id>>; the key-only encoding cannot show the value (-1)
PageMatches(enc, obs, pg) ==
  /\ Len(obs) = Len(pg)
  /\ \A i \in 1..Len(pg) : /\ Len(obs[i]) = 2 /\ obs[i][1] = pg[i][1]
                           /\ (enc = "key" \/ obs[i][2] = pg[i][2])

TInit == Init /\ l = 1
TReset == /\ IsEvent("Reset")
          /\ layers' = [x \in 1..NLayers |-> EmptyMap] /\ phase' = "init" /\ cur' = NoCur
          /\ nput' = 0 /\ nlist' = 0 /\ act' = act
TLoad == IsEvent("Load") /\ Load
TPut == IsEvent("Put") /\ Put(Ev.layer, Ev.key, Ev.val # 0) /\ Ev.val \in {0, Ev.layer}
TList == /\ IsEvent("List")
         /\ PageMatches(Ev.enc, Ev.ret, Page(layers, Ev.prefix, Ev.key, Ev.count, Ev.rev))
         /\ IF Ev.key = <<>> THEN PageFirst(Ev.prefix, Ev.rev, Ev.count)
            ELSE /\ cur.prefix = Ev.prefix /\ cur.last = Ev.key /\ cur.count = Ev.count /\ cur.rev = Ev.rev
                 /\ PageNext
TCount == IsEvent("PrefixCount") /\ CountCur /\ Ev.prefix = cur.prefix
          /\ Ev.ret = PrefixCountOf(layers, cur.prefix)

TNext_ == TReset \/ TLoad \/ TPut \/ TList \/ TCount
TSpec == TInit /\ [][TNext_]_tvars
Mark == MarkHWM(l - 1)
=============================================================================
