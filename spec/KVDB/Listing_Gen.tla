---------------------------- MODULE Listing_Gen ----------------------------
(* Behaviour generation for Listing (C07) with `tlc -simulate`: a load phase of  *)
(* random writes into random layers, then paginations with random prefix,        *)
(* direction and page size; arguments come from a linear congruential generator  *)
(* kept in the state, so a behaviour is a function of TLC's -seed.               *)
EXTENDS Listing_MC
VARIABLE rng
gvars == <<vars, rng>>
Nth(s, r) == s[1 + (r % Len(s))]
D(k) == rng \div k
KeysSeq == Asc(Keys)
PrefSeq == Asc(Prefixes)
\* prefixes under which something is stored
UsedPrefixes == {p \in Prefixes : \E k \in AllKeys(layers) : HasPrefix(k, p)}
\* prefixes with at least two live entries (several pages)
BigPrefixes == {p \in Prefixes : Cardinality(Live(layers, p)) >= 2}
GenPrefix == IF BigPrefixes # {} /\ rng % 5 < 3 THEN Nth(Asc(BigPrefixes), D(5))
             ELSE IF UsedPrefixes # {} /\ rng % 5 # 4 THEN Nth(Asc(UsedPrefixes), D(5)) ELSE Nth(PrefSeq, D(7))
CountSeq == <<1, 1, 2, 2, 3, MaxCount>>
\* three out of four writes are live entries
GenNext ==
  /\ \E d \in 0..3 : rng' = (75 * (rng + d) + 74) % 65537
  /\ \/ Load
     \/ (nput < MaxPuts /\ Put(1 + (D(3) % NLayers), Nth(KeysSeq, D(11)), D(2) % 4 # 0))
     \/ (nput >= MaxPuts - (rng % 4) /\ PageFirst(GenPrefix, D(3) % 2 = 0, Nth(CountSeq, D(17))))
     \/ PageNext
     \/ CountCur
GenInit == Init /\ rng \in 0..39
GenSpec == GenInit /\ [][GenNext]_gvars
=============================================================================
