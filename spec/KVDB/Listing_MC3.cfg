SPECIFICATION Spec
CONSTANTS
  Alphabet = {0, 1, 255}
  MaxLen = 2
  Keys <- MCKeys3
  Prefixes <- MCPrefixesSmall
  NLayers = 3
  InitLayers <- MCAll3
  MaxPuts = 0
  MaxCount = 2
  MaxLists = 1
  EmitOn = FALSE
VIEW view
INVARIANTS TypeOK PagingExact PagingPrefix OnlyLive CountIsListing
CHECK_DEADLOCK FALSE
