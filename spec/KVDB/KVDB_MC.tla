------------------------------ MODULE KVDB_MC ------------------------------
(* Model-checking / generation instance of KVDB (C06).                      *)
EXTENDS KVDB

CONSTANTS Alphabet, MaxLen

\* bounds and seek targets: every byte string up to MaxLen over the alphabet
MCBounds == SeqsOf(Alphabet, 0, MaxLen)
\* every non-empty string is storable (generation); the exhaustive run stores a subset
MCAllKeys == SeqsOf(Alphabet, 1, MaxLen)
\* five keys: <<0>> is a prefix of <<0,255>>, UB(<<0>>) = UB(<<0,255>>) = <<1>> is stored,
\* <<255>> and <<255,255>> have no prefix upper bound
MCFewKeys == {<<0>>, <<0, 255>>, <<1>>, <<255>>, <<255, 255>>}
MCFourKeys == {<<0>>, <<0, 255>>, <<1>>, <<255, 255>>}
MCThreeKeys == {<<0>>, <<0, 255>>, <<1>>}

\* facts about byte order the backends' range arithmetic relies on (checked once by TLC)
ASSUME PrefixIsRange(SeqsOf({0, 1, 254, 255}, 0, 3), SeqsOf({0, 1, 254, 255}, 0, 3))
ASSUME OrderIsTotal(SeqsOf({0, 1, 255}, 0, 2) \cup {<<0, 0, 1>>, <<255, 255, 255>>, Inf})

=============================================================================
