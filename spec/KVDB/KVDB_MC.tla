------------------------------ MODULE KVDB_MC ------------------------------
(* Model-checking / generation instance of KVDB (C06).                      *)
EXTENDS KVDB

CONSTANTS Alphabet, MaxLen

\* bounds and seek targets: every byte string up to MaxLen over the alphabet
MCBounds == SeqsOf(Alphabet, 0, MaxLen)
\* every non-empty string is storable (generation); the exhaustive run stores a subset
MCAllKeys == SeqsOf(Alphabet, 1, MaxLen)
\* five keys: <<0>> is a prefix of <<0,255>>, UB(<<0>>) = UB(<<0,255>>) = <<1>> is stored,
\* <<255>> and <<255,255>> have no prefix upper bound
MCFewKeys == {<<0>>, <<0, 255>>, <<1>>, <<255>>, <<255, 255>>}
MCFourKeys == {<<0>>, <<0, 255>>, <<1>>, <<255, 255>>}

\* facts about byte order the backends' range arithmetic relies on (checked once by TLC)
ASSUME PrefixIsRange(SeqsOf({0, 1, 254, 255}, 0, 3), SeqsOf({0, 1, 254, 255}, 0, 3))
ASSUME OrderIsTotal(SeqsOf({0, 1, 255}, 0, 2) \cup {<<0, 0, 1>>, <<255, 255, 255>>, Inf})

-----------------------------------------------------------------------------
\* Behaviour generation (-simulate): one random instance per action kind, so that
\* iterator walks are not drowned by the many ways to open an iterator.
RE(S) == RandomElement(S)
GenBatch == LET n == RE(1..MaxBatch) IN [i \in 1..n |-> RE(BatchOps)]
GenNext ==
  \/ Set(RE(Keys), RE(Vals))
  \/ Set(RE(Keys), RE(Vals))
  \/ Delete(RE(Keys))
  \/ Batch(GenBatch)
  \/ Get(RE(Keys))
  \/ ItOpen(RE(Bounds), RE(Bounds \ {<<>>}), RE(Modes), RE(BOOLEAN))
  \/ ItOpen(RE(Bounds \ {<<>>}), RE(Bounds \ {<<>>}), RE(Modes), RE(BOOLEAN))
  \/ Rewind
  \/ Seek(RE(Bounds \ {<<>>}))
  \/ (it.open /\ RangeKeys(it) # {} /\ Seek(RE(RangeKeys(it))))
  \/ ItNext
  \/ (it.open /\ it.pos = AtEnd /\ ItClose)
GenSpec == Init /\ [][GenNext]_vars
=============================================================================
