---------------------------- MODULE Listing_All ----------------------------
(* Exhaustive behaviour export (GEN-all) for C07: every content of the small     *)
(* configuration x every prefix x direction x page size, each pagination printed *)
(* once as "@@B <json>" (Load, the List requests, PrefixCount).                  *)
EXTENDS Listing_MC
VARIABLE hist
AInit == Init /\ hist = <<>>
ANext == Next /\ hist' = Append(hist, act')
ASpec == AInit /\ [][ANext]_<<vars, hist>>
Done == cur.counted /\ nlist = MaxLists
Export == Done => PrintT(<<"@@B", ToJson(hist)>>)
=============================================================================
