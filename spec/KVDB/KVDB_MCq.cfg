SPECIFICATION Spec
CONSTANTS
  Alphabet = {0, 1, 255}
  MaxLen = 2
  Keys <- MCThreeKeys
  Bounds <- MCBounds
  Vals = {0, 1}
  MaxBatch = 2
  EmitOn = FALSE
VIEW view
INVARIANTS TypeOK PosInRange WalkVisitsRange PrefixModeIsRange SeekLands BatchLastWins
PROPERTIES ReadYourWrite
CHECK_DEADLOCK FALSE
