SPECIFICATION GenSpec
CONSTANTS
  Alphabet = {0, 1, 255}
  MaxLen = 2
  Keys <- MCAllKeys
  Prefixes <- MCPrefixes
  NLayers = 3
  InitLayers <- MCEmpty
  MaxPuts = 15
  MaxCount = 5
  MaxLists = 3
  EmitOn = TRUE
CHECK_DEADLOCK FALSE
