\* every history of 5 events over a TxHeight transaction (window of 3 blocks) and two fillers with the start-up
\* cache rebuild interleaved, single-transaction blocks: the rebuilt duplicate cache must still cover the whole window
SPECIFICATION ASpec
CONSTANTS
  NT = 3
  Profiles <- ProfilesR
  Variants = {"g"}
  BadIds = {}
  LO = 2
  HI = 1
  NOW = 50
  MaxEv = 5
  MaxLen = 1
  FixSig = TRUE
  EmitOn = TRUE
INVARIANTS Export TypeOK SigOK NoDup NoExpired FeeChainOK PoolSigned
CHECK_DEADLOCK FALSE
