---------------------------- MODULE ChainTx_All ----------------------------
(* Exhaustive behaviour export: every history of MaxEv events is printed    *)
(* once as "@@B <json>" (the history of action labels is part of the state).*)
EXTENDS ChainTx_MC
VARIABLE hist
AInit == Init /\ hist = <<act>>
ANext == Next /\ hist' = Append(hist, act')
ASpec == AInit /\ [][ANext]_<<vars, hist>>
Export == (nev = MaxEv) => PrintT(<<"@@B", ToJson(hist)>>)
=============================================================================
