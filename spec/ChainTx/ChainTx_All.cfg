\* every history of 3 events over 2 ids (one with a twin), blocks of <= 2
SPECIFICATION ASpec
CONSTANTS
  NT = 2
  Profiles <- Profiles2
  Variants = {"g", "b"}
  BadIds = {1}
  LO = 1
  HI = 1
  NOW = 50
  MaxEv = 3
  MaxLen = 2
  FixSig = TRUE
  EmitOn = TRUE
INVARIANT Export
CHECK_DEADLOCK FALSE
