\* every history of 4 peer / producer events over a TxHeight transaction and a filler, single-transaction blocks:
\* the duplicate exactly LO+HI blocks after the first inclusion, the cache across a sibling replacement
SPECIFICATION ASpec
CONSTANTS
  NT = 2
  Profiles <- ProfilesH
  Variants = {"g"}
  BadIds = {}
  LO = 1
  HI = 1
  NOW = 50
  MaxEv = 4
  MaxLen = 1
  FixSig = TRUE
  EmitOn = TRUE
INVARIANT Export
CHECK_DEADLOCK FALSE
