---------------------------- MODULE ChainTx_Trace ----------------------------
(* Trace specification (binding B): every step recorded from a real node     *)
(* (random submissions, producer iterations, peer blocks and sibling blocks   *)
(* over more transaction ids than TLC enumerates) must be a step of the       *)
(* mechanism, with the model's reply, and the node's best chain, pool and     *)
(* duplicate lookups recorded afterwards must be the model's; the property    *)
(* evaluated on the real chain ("viol") must be empty.                        *)
EXTENDS ChainTx, TraceLib

VARIABLE l
tvars == <<vars, l>>

Ev == Trace[l]
IsEvent(e) == l <= Len(Trace) /\ Ev.ev = e /\ l' = l + 1

TInit == /\ l = 1 /\ prof = <<>> /\ best = <<>> /\ pool = {} /\ nev = 0 /\ act = ""

TReset == /\ IsEvent("Reset")
          /\ prof' = Ev.prof /\ best' = <<>> /\ pool' = {} /\ nev' = 0 /\ act' = act

Obs == /\ Ev.best = BestJson'
       /\ Ev.pool = SortSet(pool')
       /\ Ev.dup = DupJson'
       /\ Ev.viol = <<>>

TSubmit == /\ IsEvent("Submit") /\ Submit(Ev.x) /\ Ev.ret = SubmitRet(Ev.x) /\ Obs
TMine   == /\ IsEvent("Mine") /\ Mine /\ Ev.ret = MineRet /\ Obs
TExtend == /\ IsEvent("Extend") /\ Extend(Ev.txs) /\ Ev.ret = ExtendRet(Ev.txs) /\ Obs
TFork   == /\ IsEvent("Fork") /\ Fork(Ev.txs) /\ Ev.ret = ForkRet(Ev.txs) /\ Obs

TReinit == /\ IsEvent("Reinit") /\ Reinit /\ Ev.ret = "ok" /\ Obs

TNext == TReset \/ TSubmit \/ TMine \/ TExtend \/ TFork \/ TReinit
TSpec == TInit /\ [][TNext]_tvars

Mark == MarkHWM(l - 1)
=============================================================================
