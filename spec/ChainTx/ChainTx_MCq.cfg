\* quick exhaustive run: 4 ids (one with a twin), blocks of <= 2, 4 events
SPECIFICATION Spec
CONSTANTS
  NT = 4
  Profiles <- ProfilesQ
  Variants = {"g", "b"}
  BadIds = {1}
  LO = 1
  HI = 1
  NOW = 50
  MaxEv = 4
  MaxLen = 2
  FixSig = TRUE
  EmitOn = FALSE
VIEW view
INVARIANTS TypeOK SigOK NoDup NoExpired FeeChainOK PoolSigned
CHECK_DEADLOCK FALSE
