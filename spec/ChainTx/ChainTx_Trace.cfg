SPECIFICATION TSpec
CONSTANTS
  NT = 6
  Profiles = {}
  Variants = {"g", "b"}
  BadIds = {}
  LO = 1
  HI = 1
  NOW = 50
  MaxEv = 1000000
  MaxLen = 3
  FixSig = TRUE
  EmitOn = FALSE
INVARIANTS Mark SigOK NoDup NoExpired FeeChainOK PoolSigned
POSTCONDITION TraceDone
CHECK_DEADLOCK FALSE
