---------------------------- MODULE ChainTx_AllR ----------------------------
(* Exhaustive behaviour export with the start-up cache rebuild interleaved   *)
(* (SpecR): every history of MaxEv events, printed once as "@@B <json>".     *)
EXTENDS ChainTx_MC
VARIABLE hist
AInit == Init /\ hist = <<act>>
ANext == NextR /\ hist' = Append(hist, act')
ASpec == AInit /\ [][ANext]_<<vars, hist>>
Export == (nev = MaxEv) => PrintT(<<"@@B", ToJson(hist)>>)
=============================================================================
