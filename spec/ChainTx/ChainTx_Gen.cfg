\* behaviour generation (simulation)
SPECIFICATION Spec
CONSTANTS
  NT = 4
  Profiles <- ProfilesT
  Variants = {"g", "b"}
  BadIds = {1, 3}
  LO = 1
  HI = 1
  NOW = 50
  MaxEv = 6
  MaxLen = 2
  FixSig = TRUE
  EmitOn = TRUE
CHECK_DEADLOCK FALSE
