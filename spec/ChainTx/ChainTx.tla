------------------------------ MODULE ChainTx ------------------------------
(***************************************************************************)
(* Property C28: every transaction in every block of the best chain,      *)
(* however the block arrived and across reorganisations, is unique on      *)
(* that chain within its validity window, unexpired at the block's height  *)
(* and time, correctly signed, and passes the fee and chain-id checks.     *)
(*                                                                         *)
(* MECHANISM model of the two arrival paths of chain33:                    *)
(*  - producer path: Submit (mempool admission: signature, fee, chain id,  *)
(*    expiry at the next height, duplicate against chain / height-window   *)
(*    cache and pool) and Mine (one iteration of the solo block loop:      *)
(*    RequestTx drops entries expired at the next height, CheckTxDup drops *)
(*    duplicates, the rest is packed and executed with errReturn = false); *)
(*  - peer path: Extend (a peer block on the tip) and Fork (a heavier      *)
(*    sibling of the tip: the tip is disconnected, its transactions go     *)
(*    back to the pool, then the sibling is validated; if it is invalid    *)
(*    the chain STAYS at the fork point, as the code does - that is C27's  *)
(*    finding, not this property's).  Validation = util.PreExecBlock with  *)
(*    errReturn = true: signatures of the transactions that are not in     *)
(*    the local pool, duplicates (inside the block, against the chain:     *)
(*    tx index for ordinary transactions, the height-window cache for      *)
(*    TxHeight transactions), then the executor's checkTx (expiry at the   *)
(*    block's height/time, fee, chain id).                                 *)
(*                                                                         *)
(* A transaction is an id t in 1..NT with attributes prof[t] = [k, p]:     *)
(*   none    never expires                                                 *)
(*   height  Expire = trunk height + p : expired at relative height r      *)
(*           iff p <= r                                                    *)
(*   time    Expire = trunk time + p   : expired at block time bt          *)
(*           iff p <= bt (block times: trunk tip 0, peer blocks parent+1,  *)
(*           produced blocks NOW; the wall clock is far beyond every p,    *)
(*           so the pool never admits such a transaction)                  *)
(*   txh     TxHeight p: valid iff p-LO <= r <= p+HI; duplicates are       *)
(*           looked up in the cache of the last LO+HI blocks only; the     *)
(*           pool admits it only when it is valid at the current height    *)
(*           too (the executor's pre-check), i.e. not before its window    *)
(*   lowfee / chainid   statically invalid                                 *)
(* An instance <<t, v>> is the transaction with genuine signature (v="g")  *)
(* or with corrupted signature bytes (v="b": same hash, the "twin").       *)
(*                                                                         *)
(* FixSig = FALSE is the code as found (PreExecBlock skipped the signature *)
(* check for every transaction whose HASH is in the pool); TRUE is the     *)
(* repaired code (skipped only when the pooled transaction is the very     *)
(* same bytes).  TLC refutes SigOK for FALSE; the counterexample is the    *)
(* candidate the harness replays on the real code.                         *)
(*                                                                         *)
(* Deliberately not modelled / not compared: error codes (only accept /    *)
(* reject), transaction order inside a block, reorganisations deeper than  *)
(* one block (the pool's re-admission after deeper ones depends on the     *)
(* scheduling of the bus and is not part of this property), groups.        *)
(***************************************************************************)
EXTENDS Integers, Sequences, FiniteSets, Json, TLC

CONSTANTS NT,         \* number of transaction ids
          Profiles,   \* set of attribute tuples <<[k, p], ...>> of length NT
          Variants,   \* {"g"} or {"g", "b"}
          BadIds,     \* ids that may occur in variant "b"
          LO, HI,     \* TxHeight window
          NOW,        \* abstract block time of produced blocks (larger than every p)
          MaxEv,      \* events per behaviour
          MaxLen,     \* instances per offered block
          FixSig,
          EmitOn

VARIABLES prof, best, pool, nev, act
vars == <<prof, best, pool, nev, act>>
view == <<prof, best, pool, nev>>

Ids == DOMAIN prof
Inst == {<<t, v>> \in Ids \X Variants : v = "g" \/ t \in BadIds}
Key(x) == 2 * x[1] + (IF x[2] = "b" THEN 1 ELSE 0)

\* offered transaction lists: non-decreasing sequences (order inside a block is not observed)
Lists == UNION {{s \in [1..n -> Inst] : \A i \in 1..(n - 1) : Key(s[i]) <= Key(s[i + 1])} : n \in 1..MaxLen}

RECURSIVE SortSet(_)
SortSet(S) == IF S = {} THEN <<>>
              ELSE LET m == CHOOSE x \in S : \A y \in S : Key(x) <= Key(y)
                   IN <<m>> \o SortSet(S \ {m})

SeqIds(s) == {s[i][1] : i \in 1..Len(s)}
SetIds(S) == {x[1] : x \in S}

K(t) == prof[t].k
P(t) == prof[t].p
Expired(t, r, bt) ==
  CASE K(t) = "height" -> P(t) <= r
    [] K(t) = "time"   -> P(t) <= bt
    [] K(t) = "txh"    -> ~(P(t) - LO <= r /\ r <= P(t) + HI)
    [] OTHER           -> FALSE
Static(t) == K(t) \notin {"lowfee", "chainid"}

W == LO + HI
\* what the duplicate lookup of the node answers for t on chain ch
Seen(t, ch) ==
  IF K(t) = "txh" THEN \E i \in 1..Len(ch) : i > Len(ch) - W /\ t \in SeqIds(ch[i].txs)
  ELSE \E i \in 1..Len(ch) : t \in SeqIds(ch[i].txs)

TipBt(ch) == IF Len(ch) = 0 THEN 0 ELSE ch[Len(ch)].bt
PeerBt(ch) == IF TipBt(ch) >= NOW THEN TipBt(ch) ELSE TipBt(ch) + 1

\* pool after EventAddBlock of blk (connected at relative height r, time bt)
AfterAdd(p, txs, r, bt) == {x \in p : x[1] \notin SeqIds(txs) /\ ~Expired(x[1], r + 1, bt)}
\* transactions of a disconnected block that the pool takes back (header = tip of ch)
Returned(old, ch, p) ==
  {x \in {old.txs[i] : i \in 1..Len(old.txs)} :
      /\ ~Seen(x[1], ch) /\ Static(x[1]) /\ K(x[1]) # "time"
      /\ ~Expired(x[1], Len(ch) + 1, TipBt(ch))
      /\ x[1] \notin SetIds(p)}

\* validation of a peer block with transactions txs on chain ch, with pool p
SigSkipped(x, p) == IF FixSig THEN x \in p ELSE x[1] \in SetIds(p)
PeerOK(txs, ch, p) ==
  LET r == Len(ch) + 1
      bt == PeerBt(ch)
  IN /\ \A i \in 1..Len(txs) : txs[i][2] = "g" \/ SigSkipped(txs[i], p)
     /\ \A i, j \in 1..Len(txs) : i # j => txs[i][1] # txs[j][1]
     /\ \A i \in 1..Len(txs) : ~Seen(txs[i][1], ch)
     /\ \A i \in 1..Len(txs) : ~Expired(txs[i][1], r, bt) /\ Static(txs[i][1])

-----------------------------------------------------------------------------
\* projection compared with the real node after every step
BestJson == [i \in 1..Len(best) |-> best[i].txs]
DupJson == [t \in Ids |-> Seen(t, best)]
Chk == [best |-> BestJson, pool |-> SortSet(pool), dup |-> DupJson, viol |-> <<>>]

Emit(r) == act' = IF EmitOn THEN ToJson(r) ELSE ""

Init == /\ prof \in Profiles
        /\ best = <<>> /\ pool = {} /\ nev = 0
        /\ act = IF EmitOn THEN ToJson([op |-> "Cfg", prof |-> prof, lo |-> LO, hi |-> HI]) ELSE ""

SubmitOK(x) ==
  LET t == x[1]
  IN /\ x[2] = "g" /\ Static(t) /\ K(t) # "time"
     /\ ~Expired(t, Len(best) + 1, TipBt(best))  \* the pool's own check: the next height
     /\ ~Expired(t, Len(best), TipBt(best))      \* the executor's check (EventCheckTx): the current height
     /\ ~Seen(t, best)
     /\ t \notin SetIds(pool)
SubmitRet(x) == IF SubmitOK(x) THEN "ok" ELSE "rej"
Submit(x) ==
  /\ nev < MaxEv /\ nev' = nev + 1
  /\ pool' = IF SubmitOK(x) THEN pool \cup {x} ELSE pool
  /\ UNCHANGED <<prof, best>>
  /\ Emit([op |-> "Submit", x |-> x, ret |-> SubmitRet(x), chk |-> Chk'])

MineCand == {x \in pool : ~Expired(x[1], Len(best) + 1, TipBt(best)) /\ ~Seen(x[1], best)}
MineRet == IF MineCand = {} THEN "none" ELSE "blk"
Mine ==
  LET r == Len(best) + 1
      blk == [txs |-> SortSet(MineCand), bt |-> NOW, src |-> "self"]
  IN /\ nev < MaxEv /\ nev' = nev + 1
     /\ IF MineCand = {} THEN UNCHANGED <<best, pool>>
        ELSE /\ best' = Append(best, blk)
             /\ pool' = AfterAdd(pool, blk.txs, r, NOW)
     /\ UNCHANGED prof
     /\ Emit([op |-> "Mine", ret |-> MineRet, chk |-> Chk'])

ExtendRet(txs) == IF PeerOK(txs, best, pool) THEN "ok" ELSE "rej"
Extend(txs) ==
  LET r == Len(best) + 1
      bt == PeerBt(best)
      ok == PeerOK(txs, best, pool)
  IN /\ nev < MaxEv /\ nev' = nev + 1
     /\ IF ok THEN /\ best' = Append(best, [txs |-> txs, bt |-> bt, src |-> "peer"])
                   /\ pool' = AfterAdd(pool, txs, r, bt)
        ELSE UNCHANGED <<best, pool>>
     /\ UNCHANGED prof
     /\ Emit([op |-> "Extend", txs |-> txs, ret |-> ExtendRet(txs), chk |-> Chk'])

\* a heavier sibling of the tip: the tip is disconnected first, then the sibling is validated
ForkRet(txs) == IF PeerOK(txs, SubSeq(best, 1, Len(best) - 1), pool) THEN "ok" ELSE "rej"
Fork(txs) ==
  LET n == Len(best)
      base == SubSeq(best, 1, n - 1)
      old == best[n]
      bt == PeerBt(base)
      ok == PeerOK(txs, base, pool)
      newc == Append(base, [txs |-> txs, bt |-> bt, src |-> "fork"])
  IN /\ nev < MaxEv /\ nev' = nev + 1
     /\ n >= 1
     /\ IF ok THEN /\ best' = newc
                   /\ LET p1 == AfterAdd(pool, txs, n, bt)
                      IN pool' = p1 \cup Returned(old, newc, p1)
        ELSE /\ best' = base
             /\ pool' = pool \cup Returned(old, base, pool)
     /\ UNCHANGED prof
     /\ Emit([op |-> "Fork", txs |-> txs, ret |-> IF ok THEN "ok" ELSE "rej", chk |-> Chk'])

Next == \/ \E x \in Inst : Submit(x)
        \/ Mine
        \/ \E txs \in Lists : Extend(txs)
        \/ \E txs \in Lists : Fork(txs)

Spec == Init /\ [][Next]_vars

\* Start-up rebuild of the node's volatile lookup caches from its database (BlockChain.InitCache:
\* the block cache of the last DefCacheSize blocks and the TxHeight duplicate cache of the last
\* LO+HI blocks).  The abstract state is what the database holds, so the step changes nothing the
\* model sees: Seen(t, best) must answer after it exactly as before.  Kept out of Next so that the
\* configurations sized for Next keep their state counts; SpecR is Spec with the rebuild interleaved.
Reinit ==
  /\ nev < MaxEv /\ nev' = nev + 1
  /\ Len(best) >= 1
  /\ UNCHANGED <<prof, best, pool>>
  /\ Emit([op |-> "Reinit", ret |-> "ok", chk |-> Chk'])
NextR == Next \/ Reinit
SpecR == Init /\ [][NextR]_vars

-----------------------------------------------------------------------------
\* The property, on the best chain of every reachable state.
Pos == UNION {{<<i, j>> : j \in 1..Len(best[i].txs)} : i \in 1..Len(best)}
At(q) == best[q[1]].txs[q[2]]

TypeOK == /\ pool \subseteq Inst
          /\ \A i \in 1..Len(best) : Len(best[i].txs) >= 1
SigOK == \A q \in Pos : At(q)[2] = "g"
NoDup == \A q1, q2 \in Pos : q1 # q2 => At(q1)[1] # At(q2)[1]
NoExpired == \A q \in Pos : ~Expired(At(q)[1], q[1], best[q[1]].bt)
FeeChainOK == \A q \in Pos : Static(At(q)[1])
\* the pool only ever holds correctly signed transactions (what makes skipping their check sound)
PoolSigned == \A x \in pool : x[2] = "g"

\* anti-vacuity probes (expected to be violated)
NeverTwoOnChain == Cardinality(Pos) < 3
NeverReadmit == ~(\E x \in pool : nev > 0 /\ Len(best) > 0 /\ best[Len(best)].src = "fork")
=============================================================================
