----------------------------- MODULE ChainTx_MC -----------------------------
(* Attribute profiles for exhaustive checking / behaviour generation.       *)
EXTENDS ChainTx

A(k, p) == [k |-> k, p |-> p]
\* one of each expiry kind (LO = HI = 1: the TxHeight transaction is valid at heights 1..3,
\* the height-bounded one at height 1 only, the time-bounded one in a peer block at time 1 only)
PA == <<A("none", 0), A("height", 2), A("txh", 2), A("time", 2)>>
\* statically invalid transactions next to ordinary ones
PB == <<A("none", 0), A("none", 0), A("lowfee", 0), A("chainid", 0)>>
\* TxHeight windows that open late / close early, a later height bound
PC == <<A("txh", 1), A("txh", 3), A("height", 3), A("none", 0)>>
\* windows around a reorganisation: both TxHeight, one ordinary, one time-bounded further out
PD == <<A("txh", 2), A("txh", 4), A("none", 0), A("time", 3)>>
ProfilesQ == {PA, PB}
ProfilesT == {PA, PB, PC, PD}
\* the twin scenario: two ordinary transactions
P2 == <<A("none", 0), A("height", 3)>>
Profiles2 == {P2}
\* the TxHeight window edges: a window transaction and an ordinary one as filler
PH == <<A("txh", 2), A("none", 0)>>
ProfilesH == {PH}
\* the cache rebuild (LO = 2, HI = 1): a window transaction valid at heights 1..4 and two fillers
PR == <<A("txh", 3), A("none", 0), A("none", 0)>>
ProfilesR == {PR}
=============================================================================
