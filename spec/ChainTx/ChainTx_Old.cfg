\* the code as found (signature check skipped by hash): TLC refutes SigOK (candidate for replay)
SPECIFICATION Spec
CONSTANTS
  NT = 2
  Profiles <- Profiles2
  Variants = {"g", "b"}
  BadIds = {1}
  LO = 1
  HI = 1
  NOW = 50
  MaxEv = 4
  MaxLen = 2
  FixSig = FALSE
  EmitOn = FALSE
VIEW view
INVARIANTS TypeOK SigOK
CHECK_DEADLOCK FALSE
