\* thorough exhaustive run: 8 events, two ids with twins, four profiles
SPECIFICATION Spec
CONSTANTS
  NT = 4
  Profiles <- ProfilesT
  Variants = {"g", "b"}
  BadIds = {1, 3}
  LO = 1
  HI = 1
  NOW = 50
  MaxEv = 8
  MaxLen = 2
  FixSig = TRUE
  EmitOn = FALSE
VIEW view
INVARIANTS TypeOK SigOK NoDup NoExpired FeeChainOK PoolSigned
CHECK_DEADLOCK FALSE
