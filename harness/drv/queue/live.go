package main

import (
	"encoding/json"
	"fmt"
	"sync"
	"sync/atomic"
	"time"

	"github.com/33cn/chain33/queue"
	"verif/harness/core"
)

// Choreographed close-time scenarios: the shapes of the liveness counterexamples TLC finds on the
// implementation variants Queue_LivePreLow / Queue_LivePreSweep, plus the wake-ups the fair model promises.
// Oracle: ClosedCallsReturn of Queue.tla - once the close has returned, the call in progress returns.

type liveResult struct {
	Name       string `json:"name"`
	NonTrivial bool   `json:"nontrivial"`
	Cases      int    `json:"cases"`
	Blocked    string `json:"blocked,omitempty"`
	Sig        string `json:"signature,omitempty"`
	Dump       string `json:"dump,omitempty"`
	Note       string `json:"note,omitempty"`
}

type callRes struct {
	err error
}

// startCall runs f in a goroutine; started is closed right before the bus call.
func startCall(f func() error) (ret chan callRes) {
	ret = make(chan callRes, 1)
	go func() { ret <- callRes{f()} }()
	return ret
}

// stillBlocked reports whether the call has not returned after d (used to establish the blocked
// precondition of a scenario; a call that returned means the scenario is not applicable, not a verdict).
func stillBlocked(ret chan callRes, d time.Duration) (bool, callRes) {
	select {
	case r := <-ret:
		return false, r
	case <-time.After(d):
		return true, callRes{}
	}
}

func fillLow(c queue.Client, topic string) int {
	n, full := 0, 0
	for full < 3 {
		m := c.NewMessage(topic, tyReq, &payload{Req: -1})
		if err := c.SendTimeout(m, false, 0); err != nil {
			full++
			time.Sleep(2 * time.Millisecond) // a pump may still take a few
			continue
		}
		full = 0
		n++
	}
	return n
}

func fillHigh(c queue.Client, topic string) int {
	n := 0
	for {
		m := c.NewMessage(topic, tyReq, &payload{Req: -1, WR: true})
		if err := c.SendTimeout(m, true, 0); err != nil {
			return n
		}
		n++
	}
}

func expectReturn(res *liveResult, ret chan callRes, grace time.Duration, what, sig string) {
	bl, r := stillBlocked(ret, grace)
	if bl {
		res.Blocked = fmt.Sprintf("%s still blocked %.0fs after the close returned", what, grace.Seconds())
		res.Sig = sig
		res.Dump = clipS(goroutineDump(), 12000)
		return
	}
	if r.err == nil {
		res.Note += what + " returned nil; "
	}
}

func liveScenarios(grace time.Duration, hammer int) []*liveResult {
	var out []*liveResult
	pre := 100 * time.Millisecond
	// 1. asynchronous Send blocked on a full low-priority buffer (no subscriber), then queue.Close
	{
		res := &liveResult{Name: "lowfull-queueclose", Cases: 1}
		q := queue.New("live1")
		c := q.Client()
		fillLow(c, "T")
		ret := startCall(func() error { return c.Send(c.NewMessage("T", tyReq, &payload{Req: 1}), false) })
		if bl, _ := stillBlocked(ret, pre); bl {
			res.NonTrivial = true
			q.Close()
			expectReturn(res, ret, grace, "Send(waitReply=false, timeout=-1) on a full low-priority buffer", "blocked-after-close|Send|wr=false,mode=block")
		}
		out = append(out, res)
	}
	// 2. the same with a subscriber that stopped reading, closed by client.Close
	{
		res := &liveResult{Name: "lowfull-clientclose", Cases: 1}
		q := queue.New("live2")
		sub := q.Client()
		sub.Sub("T")
		c := q.Client()
		fillLow(c, "T")
		ret := startCall(func() error { return c.Send(c.NewMessage("T", tyReq, &payload{Req: 1}), false) })
		if bl, _ := stillBlocked(ret, pre); bl {
			res.NonTrivial = true
			cdone := make(chan struct{})
			go func() { sub.Close(); close(cdone) }()
			go func() { // the subscriber keeps draining so that Close can finish
				for range sub.Recv() {
				}
			}()
			select {
			case <-cdone:
				expectReturn(res, ret, grace, "Send(waitReply=false, timeout=-1) on a full low-priority buffer (client.Close)", "blocked-after-close|Send|wr=false,mode=block")
			case <-time.After(grace):
				res.Note = "client.Close did not return (not a Send/Wait): scenario not evaluated"
				res.NonTrivial = false
			}
		}
		q.Close()
		out = append(out, res)
	}
	// 3. synchronous Send blocked on a full high-priority buffer, then queue.Close
	{
		res := &liveResult{Name: "highfull-queueclose", Cases: 1}
		q := queue.New("live3")
		c := q.Client()
		fillHigh(c, "T")
		ret := startCall(func() error { return c.Send(c.NewMessage("T", tyReq, &payload{Req: 1, WR: true}), true) })
		if bl, _ := stillBlocked(ret, pre); bl {
			res.NonTrivial = true
			q.Close()
			expectReturn(res, ret, grace, "Send(waitReply=true, timeout=-1) on a full high-priority buffer", "blocked-after-close|Send|wr=true,mode=block")
		}
		out = append(out, res)
	}
	// 4. Wait with no reply coming: woken by the subscriber's Close, by the own client's Close, by queue.Close
	for _, how := range []string{"subscriber-close", "own-close", "queue-close"} {
		res := &liveResult{Name: "wait-" + how, Cases: 1}
		q := queue.New("live4")
		sub := q.Client()
		sub.Sub("T")
		own := q.Client()
		own.Sub("OWN")
		m := own.NewMessage("T", tyReq, &payload{Req: 1, WR: true})
		if err := own.Send(m, true); err != nil {
			res.Note = "send failed: " + err.Error()
			out = append(out, res)
			continue
		}
		ret := startCall(func() error { _, err := own.Wait(m); return err })
		if bl, _ := stillBlocked(ret, pre); bl {
			res.NonTrivial = true
			switch how {
			case "subscriber-close":
				go func() {
					for range sub.Recv() {
					}
				}()
				sub.Close()
			case "own-close":
				go func() {
					for range own.Recv() {
					}
				}()
				own.Close()
			default:
				q.Close()
			}
			expectReturn(res, ret, grace, "Wait("+how+")", "blocked-after-close|Wait|mode=block|"+how)
		}
		q.Close()
		out = append(out, res)
	}
	// 5. requests on topics first used while queue.Close is running: a Send that succeeded must not
	//    leave its Wait blocked once Close has returned (topic created behind the sweep)
	{
		res := &liveResult{Name: "fresh-topic-during-queueclose"}
		const G = 6
		for it := 0; it < hammer && res.Blocked == ""; it++ {
			q := queue.New("live5")
			c := q.Client()
			c.Sub("KEEP")
			var start int32
			var wg sync.WaitGroup
			type sr struct {
				m   *queue.Message
				err error
			}
			outc := make([]sr, G)
			for g := 0; g < G; g++ {
				wg.Add(1)
				go func(g int) {
					defer wg.Done()
					m := c.NewMessage(fmt.Sprintf("FRESH-%d", g), tyReq, &payload{Req: g + 1, WR: true})
					for atomic.LoadInt32(&start) == 0 {
					}
					for k := 0; k < g*(it%7)*5; k++ {
						_ = atomic.LoadInt32(&start)
					}
					outc[g] = sr{m, c.SendTimeout(m, true, 0)}
				}(g)
			}
			atomic.StoreInt32(&start, 1)
			if j := it % 12; j > 0 { // vary where Close falls relative to the sends
				time.Sleep(time.Duration(j*j*3) * time.Microsecond)
			}
			q.Close()
			wg.Wait()
			for g := 0; g < G && res.Blocked == ""; g++ {
				if outc[g].err != nil {
					continue
				}
				res.Cases++
				m := outc[g].m
				ret := startCall(func() error { _, err := c.Wait(m); return err })
				// fast path first: almost always the Wait returns at once
				if bl, _ := stillBlocked(ret, 50*time.Millisecond); bl {
					expectReturn(res, ret, grace, "Wait on a request whose Send succeeded on a topic first used during queue.Close", "blocked-after-close|Wait|mode=block|fresh-topic")
				}
			}
		}
		res.NonTrivial = res.Cases > 0
		out = append(out, res)
	}
	return out
}

func liveCmd(env *core.Env, _ []string) int {
	grace := time.Duration(env.OptInt("grace", 10)) * time.Second
	rs := liveScenarios(grace, env.OptInt("hammer", 300))
	b, _ := json.Marshal(rs)
	fmt.Println("@@LIVE " + string(b))
	return 0
}
