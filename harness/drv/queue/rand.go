package main

import (
	"fmt"
	"math/rand"
	"time"

	"verif/harness/core"
)

// worldShape picks the population of one random world.
type worldShape struct {
	Reqs, Resps, Closers []int
	Topics               []int
}

func pickShape(r *rand.Rand, maxReq int) worldShape {
	var sh worldShape
	nreq := 2 + r.Intn(maxReq-1)
	for i := 1; i <= nreq; i++ {
		sh.Reqs = append(sh.Reqs, i)
	}
	ntop := 1 + r.Intn(2)
	for k := 1; k <= ntop; k++ {
		sh.Topics = append(sh.Topics, k)
		if k == 1 || r.Intn(3) > 0 { // topic 2 sometimes has no subscriber at all
			sh.Resps = append(sh.Resps, 100+10*k)
			if r.Intn(3) == 0 {
				sh.Resps = append(sh.Resps, 100+10*k+1)
			}
			if r.Intn(4) == 0 { // a module that serves topic k and also sends requests
				sh.Reqs = append(sh.Reqs, 50+k)
			}
		}
	}
	sh.Closers = []int{201, 202}
	return sh
}

// runRandomWorld runs one seeded concurrent world and returns its result.
func runRandomWorld(r *rand.Rand, sh worldShape, budget, delay int, grace time.Duration, emit func(map[string]any)) *sessionResult {
	s := newSession(sh.Reqs, sh.Resps, sh.Closers, emit)
	s.w.timed = time.Duration(200+r.Intn(2000)) * time.Microsecond
	pIgnore := []int{0, 5, 15}[r.Intn(3)]
	pAsync := []int{0, 15, 30}[r.Intn(3)]
	for _, x := range sh.Resps {
		s.wgResp.Add(1)
		go s.responderLoop(s.resps[x], rand.New(rand.NewSource(r.Int63())), delay, pIgnore)
	}
	for _, x := range sh.Reqs {
		s.wgReq.Add(1)
		go s.requesterLoop(s.reqs[x], rand.New(rand.NewSource(r.Int63())), budget, sh.Topics, delay, pAsync)
	}
	// closes at random points of the run (measured in operations, not in time)
	plan := r.Intn(10)
	total := int64(budget * len(sh.Reqs))
	cr := rand.New(rand.NewSource(r.Int63()))
	if plan < 7 {
		at1 := int64(cr.Intn(int(total)*3/4 + 1))
		at2 := at1 + int64(cr.Intn(int(total)/3+1))
		s.wgClose.Add(1)
		go func() {
			defer s.wgClose.Done()
			defer s.guard("closer")
			k1, k2 := s.closers[201], s.closers[202]
			waitOps(s, at1)
			switch {
			case plan < 3 && len(s.subs) > 0: // client close, later the queue
				k1.CloseClient(s.subs[cr.Intn(len(s.subs))])
				waitOps(s, at2)
				if cr.Intn(2) == 0 {
					k1.CloseQueue()
				}
			case plan < 5 && len(s.subs) > 0: // both concurrently
				done := make(chan struct{})
				go func() {
					defer close(done)
					defer s.guard("closer2")
					k2.CloseQueue()
				}()
				k1.CloseClient(s.subs[cr.Intn(len(s.subs))])
				<-done
			case plan < 6: // close of a client that never subscribed: a no-op
				k1.CloseClient(sh.Reqs[0])
				waitOps(s, at2)
				k1.CloseQueue()
			default:
				k1.CloseQueue()
			}
		}()
	}
	s.waitQuiet(30*time.Millisecond, 20*time.Second)
	return s.finish(grace)
}

func waitOps(s *session, n int64) {
	t0 := time.Now()
	for s.opsNow() < n && !s.isStopping() && time.Since(t0) < 5*time.Second {
		time.Sleep(50 * time.Microsecond)
	}
}

// recordRand: binding B, small worlds whose events are validated by Queue_Trace.
func recordRand(env *core.Env, emit func(map[string]any)) (*core.Summary, error) {
	sum := &core.Summary{Counters: map[string]int{}}
	n := env.OptInt("n", 20)
	budget := env.OptInt("budget", 10)
	maxReq := env.OptInt("maxreq", 3)
	delay := env.OptInt("delay", 150)
	grace := time.Duration(env.OptInt("grace", 20)) * time.Second
	r := rand.New(rand.NewSource(env.Seed*7919 + int64(env.OptInt("salt", 0))))
	for i := 0; i < n; i++ {
		var evs []any
		cnt := 0
		em := func(ev map[string]any) {
			if cnt < 14 {
				evs = append(evs, ev)
			}
			cnt++
			emit(ev)
		}
		sh := pickShape(r, maxReq)
		res := runRandomWorld(r, sh, budget, delay, grace, lockedEmit(em))
		account(sum, res, fmt.Sprintf("rand-%d-%d", env.Seed, i), map[string]any{"shape": sh, "trace_prefix": evs})
		if len(res.Blocked) > 0 {
			break // goroutines of this world are stuck: stop recording here
		}
	}
	return sum, nil
}
