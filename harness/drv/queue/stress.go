package main

import (
	"encoding/json"
	"fmt"
	"math/rand"
	"time"

	"verif/harness/core"
)

// stressCmd: the large population of the property's quantifier (16 requesters, 4 responders, 3 topics,
// random delays, recycling, timeouts, closes at random points). No event log: "own reply", "at most once",
// "error after close" and "no call blocked after the close" are checked on the spot. Prints one JSON summary.
func stressCmd(env *core.Env, _ []string) int {
	sum := &core.Summary{Counters: map[string]int{}}
	rounds := env.OptInt("rounds", 20)
	budget := env.OptInt("budget", 60)
	delay := env.OptInt("delay", 100)
	nreq := env.OptInt("requesters", 16)
	grace := time.Duration(env.OptInt("grace", 20)) * time.Second
	r := rand.New(rand.NewSource(env.Seed*104729 + int64(env.OptInt("salt", 0))))
	for i := 0; i < rounds; i++ {
		sh := worldShape{Topics: []int{1, 2, 3}, Resps: []int{110, 111, 120, 130}, Closers: []int{201, 202}}
		for x := 1; x <= nreq-2; x++ {
			sh.Reqs = append(sh.Reqs, x)
		}
		sh.Reqs = append(sh.Reqs, 51, 52) // two modules that serve a topic and also send requests
		res := runRandomWorld(r, sh, budget, delay, grace, nil)
		account(sum, res, fmt.Sprintf("stress-%d-%d", env.Seed, i), map[string]any{"shape": sh})
		if len(res.Blocked) > 0 {
			break
		}
	}
	b, _ := json.Marshal(sum)
	fmt.Println("@@SUMMARY " + string(b))
	return 0
}
