package main

import (
	"fmt"
	"math/rand"
	"runtime"
	"sort"
	"sync"
	"sync/atomic"
	"time"
)

// session = one world plus its logical threads and the common end game.
type session struct {
	w        *world
	reqs     map[int]*reqT
	resps    map[int]*respT
	closers  map[int]*closeT
	subs     []int // subscribed clients
	stopping int32
	ops      int64
	wgReq    sync.WaitGroup
	wgResp   sync.WaitGroup
	wgClose  sync.WaitGroup
}

type sessionResult struct {
	Violations []violation   `json:"violations"`
	Blocked    []blockedCall `json:"blocked"`
	Dump       string        `json:"dump,omitempty"`
	NonTrivial bool          `json:"nontrivial"`
	Counters   map[string]int64
}

func newSession(reqIDs, respIDs, closerIDs []int, emit func(map[string]any)) *session {
	cset := map[int]bool{}
	for _, x := range reqIDs {
		cset[clientOfThread(x)] = true
	}
	for _, x := range respIDs {
		cset[clientOfThread(x)] = true
	}
	var clients []int
	for c := range cset {
		clients = append(clients, c)
	}
	sort.Ints(clients)
	if emit != nil {
		emit(map[string]any{"ev": "Reset", "clients": clients})
	}
	s := &session{w: newWorld(clients, emit), reqs: map[int]*reqT{}, resps: map[int]*respT{}, closers: map[int]*closeT{}}
	for _, c := range clients {
		if subOf(c) != 0 {
			s.subs = append(s.subs, c)
		}
	}
	for _, x := range reqIDs {
		s.reqs[x] = newReq(s.w, x)
	}
	for _, x := range respIDs {
		s.resps[x] = newResp(s.w, x)
	}
	for _, x := range closerIDs {
		s.closers[x] = &closeT{w: s.w, id: x}
	}
	return s
}

func (s *session) isStopping() bool { return atomic.LoadInt32(&s.stopping) == 1 }

func pause(r *rand.Rand, maxMicro int) {
	if maxMicro <= 0 {
		return
	}
	switch x := r.Intn(4); x {
	case 0:
	case 1:
		for i := r.Intn(3) + 1; i > 0; i-- {
			runtime.Gosched()
		}
	default:
		time.Sleep(time.Duration(r.Intn(maxMicro)+1) * time.Microsecond)
	}
}

// requesterLoop: New -> Send -> Wait -> Free cycles with random modes, obeying the FreeMessage contract.
func (s *session) requesterLoop(t *reqT, r *rand.Rand, budget int, topics []int, delay int, pAsync int) {
	defer s.wgReq.Done()
	defer s.guard(fmt.Sprintf("requester %d", t.id))
	for n := 0; n < budget && !s.isStopping(); n++ {
		atomic.AddInt64(&s.ops, 1)
		switch t.pc {
		case "idle":
			t.New(topics[r.Intn(len(topics))], r.Intn(100) >= pAsync)
		case "have":
			switch x := r.Intn(10); {
			case x < 6:
				t.Send("block")
			case x < 8:
				t.Send("zero")
			default:
				t.Send("timed")
			}
		case "sent":
			switch x := r.Intn(20); {
			case x < 12:
				t.Wait("block")
			case x < 19:
				t.Wait("timed")
			default:
				t.Drop()
			}
		case "got":
			if r.Intn(10) < 8 {
				t.Free()
			} else {
				t.Drop()
			}
		case "fail":
			if r.Intn(2) == 0 {
				t.Free()
			} else {
				t.Drop()
			}
		}
		pause(r, delay)
	}
}

// responderLoop: Recv -> Reply (mostly) until the receive channel is closed or the world stops.
func (s *session) responderLoop(t *respT, r *rand.Rand, delay int, pIgnore int) {
	defer s.wgResp.Done()
	defer s.guard(fmt.Sprintf("responder %d", t.id))
	for {
		if !t.Recv() || t.pc == "end" {
			return
		}
		pause(r, delay)
		switch {
		case t.wr && r.Intn(100) >= pIgnore:
			t.Reply()
		case !t.wr && r.Intn(2) == 0:
			t.FreeAsync()
		default:
			t.Ignore()
		}
		pause(r, delay)
	}
}

// drainLoop keeps a subscriber's receive channel moving during the end game (a pump blocked on a
// full receive buffer would keep client.Close waiting, which is outside the property).
func (s *session) drainLoop(t *respT) {
	defer s.wgResp.Done()
	defer s.guard(fmt.Sprintf("drainer %d", t.id))
	for {
		if !t.Recv() || t.pc == "end" {
			return
		}
		t.Ignore()
	}
}

// guard turns a panic of a harness goroutine that came out of a bus call into a "crash" violation.
func (s *session) guard(who string) {
	if r := recover(); r != nil {
		s.w.violate(violation{Kind: "crash", Sig: "panic-in-bus-call", Expected: "an error return", Observed: fmt.Sprint(r), Detail: who + "\n" + goroutineDump()})
	}
}

// finish: drain, close the queue, and require every Send/Wait in progress to return.
func (s *session) finish(grace time.Duration) *sessionResult {
	atomic.StoreInt32(&s.stopping, 1)
	for _, c := range s.subs {
		id := 100 + 10*(c-100) + 9
		d := newResp(s.w, id)
		s.resps[id] = d
		s.wgResp.Add(1)
		go s.drainLoop(d)
	}
	fin := &closeT{w: s.w, id: 209}
	qdone := make(chan struct{})
	go func() {
		defer close(qdone)
		defer s.guard("final queue.Close")
		fin.CloseQueue()
	}()
	res := &sessionResult{Counters: map[string]int64{}}
	select {
	case <-qdone:
	case <-time.After(grace):
		res.Blocked = append(res.Blocked, blockedCall{Call: "queue.Close()", For: grace.Seconds()})
	}
	// queue.Close may have been started by a closer thread: wait for its return as well
	deadline := time.Now().Add(grace)
	for atomic.LoadInt32(&s.w.qRet) == 0 && time.Now().Before(deadline) {
		time.Sleep(time.Millisecond)
	}
	var rl []*reqT
	for _, r := range s.reqs {
		rl = append(rl, r)
	}
	bl := awaitCalls(rl, grace)
	if len(bl) > 0 {
		res.Blocked = append(res.Blocked, bl...)
		res.Dump = goroutineDump()
	} else {
		waitTimeout(&s.wgReq, grace)
		waitTimeout(&s.wgClose, grace)
	}
	s.w.stopAll()
	if len(bl) == 0 {
		waitTimeout(&s.wgResp, grace)
	}
	s.w.mu.Lock()
	res.Violations = append(res.Violations, s.w.viol...)
	s.w.mu.Unlock()
	w := s.w
	res.Counters["replies_ok"] = atomic.LoadInt64(&w.nReplyOK)
	res.Counters["overlap"] = atomic.LoadInt64(&w.nOverlap)
	res.Counters["close_with_outstanding"] = atomic.LoadInt64(&w.nCloseWithOutstanding)
	res.Counters["recycled"] = atomic.LoadInt64(&w.nRecycled)
	res.Counters["err_after_close"] = atomic.LoadInt64(&w.nErrAfterClose)
	res.Counters["woken_by_close"] = atomic.LoadInt64(&w.nWokenByClose)
	res.Counters["requests"] = atomic.LoadInt64(&w.nreq)
	res.NonTrivial = res.Counters["overlap"] > 0 || res.Counters["close_with_outstanding"] > 0
	return res
}

func waitTimeout(wg *sync.WaitGroup, d time.Duration) bool {
	c := make(chan struct{})
	go func() { wg.Wait(); close(c) }()
	select {
	case <-c:
		return true
	case <-time.After(d):
		return false
	}
}

// waitQuiet waits until the requesters finished their budgets or nothing moved for `quiet`.
func (s *session) waitQuiet(quiet, max time.Duration) {
	done := make(chan struct{})
	go func() { s.wgReq.Wait(); close(done) }()
	last, lastT := int64(-1), time.Now()
	t0 := time.Now()
	for {
		select {
		case <-done:
			return
		case <-time.After(2 * time.Millisecond):
		}
		cur := atomic.LoadInt64(&s.ops)
		if cur != last {
			last, lastT = cur, time.Now()
		} else if time.Since(lastT) > quiet {
			return
		}
		if time.Since(t0) > max {
			return
		}
	}
}
