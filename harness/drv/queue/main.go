// Driver for the Queue family (C36): chain33's message bus (queue.New / Client) under
// TLC-generated call schedules (recorder "sched"), seeded concurrent small worlds (recorder
// "rand"), a large concurrent stress run with on-the-spot oracles ("stress") and
// choreographed close-time scenarios ("live").
package main

import (
	"fmt"

	"github.com/33cn/chain33/queue"
	"verif/harness/core"
)

type nodrv struct{}

func (nodrv) Reset(*core.Env, *core.Behaviour) error { return fmt.Errorf("the queue family has no step replayer") }
func (nodrv) Apply(core.Step) (any, any, error)      { return nil, nil, fmt.Errorf("not supported") }
func (nodrv) Close()                                 {}

func main() {
	queue.DisableLog()
	core.Main(&core.Family{
		Name:      "queue",
		NewDriver: func() core.Driver { return nodrv{} },
		Recorders: map[string]core.Recorder{"rand": recordRand, "sched": recordSched},
		Extra: map[string]func(env *core.Env, args []string) int{
			"stress": stressCmd,
			"live":   liveCmd,
		},
	})
}
