package main

import (
	"fmt"
	"runtime"
	"sync"
	"sync/atomic"
	"time"

	"github.com/33cn/chain33/queue"
)

// Naming convention shared with spec/Queue/Queue.tla:
//   requester x < 50 owns client x; requester 50+k shares subscriber client 100+k;
//   responder 100+10k+j reads client 100+k; client 100+k is subscribed to topic k;
//   closers are >= 200.

const (
	tyReq   = 7001
	tyReply = 7002
)

type payload struct {
	Req int
	WR  bool
}

type rpayload struct {
	Echo int
}

type violation struct {
	Kind     string `json:"kind"`
	Sig      string `json:"signature"`
	Expected string `json:"expected"`
	Observed string `json:"observed"`
	Detail   string `json:"detail,omitempty"`
}

type world struct {
	q       queue.Queue
	clients map[int]queue.Client
	emit    func(map[string]any)
	timed   time.Duration

	mu       sync.Mutex
	objID    map[*queue.Message]int
	deliv    map[int]int
	viol     []violation
	closing  map[int]bool // client Close started
	cRet     map[int]bool // client Close returned (effective)
	qStarted bool
	nreq     int64
	qRet     int32
	stop     chan struct{}
	stopOnce sync.Once

	// counters (non-triviality)
	nReplyOK, nOverlap, nCloseWithOutstanding, nRecycled, nErrAfterClose, nWokenByClose int64
	outstanding                                                                        int64 // sends ok (wr) not yet waited to completion
	inWait                                                                             int64
}

func topicName(t int) string { return fmt.Sprintf("T%d", t) }

func clientOfThread(x int) int {
	switch {
	case x < 50:
		return x
	case x < 100:
		return x + 50
	case x < 200:
		return 100 + (x-100)/10
	}
	return 0
}

func subOf(c int) int {
	if c > 100 {
		return c - 100
	}
	return 0
}

// newWorld creates a fresh queue with the given clients; clients > 100 subscribe to their topic.
func newWorld(clients []int, emit func(map[string]any)) *world {
	w := &world{q: queue.New("verif"), clients: map[int]queue.Client{}, emit: emit, timed: 2 * time.Millisecond,
		objID: map[*queue.Message]int{}, deliv: map[int]int{}, closing: map[int]bool{}, cRet: map[int]bool{},
		stop: make(chan struct{})}
	for _, c := range clients {
		cl := w.q.Client()
		if t := subOf(c); t != 0 {
			cl.Sub(topicName(t))
		}
		w.clients[c] = cl
	}
	return w
}

func (w *world) log(ev map[string]any) {
	if w.emit != nil {
		w.emit(ev)
	}
}

func (w *world) violate(v violation) {
	w.mu.Lock()
	w.viol = append(w.viol, v)
	w.mu.Unlock()
}

func (w *world) oid(m *queue.Message) int {
	w.mu.Lock()
	defer w.mu.Unlock()
	id, ok := w.objID[m]
	if !ok {
		id = len(w.objID) + 1
		w.objID[m] = id
	}
	return id
}

func (w *world) seen(m *queue.Message) bool {
	w.mu.Lock()
	defer w.mu.Unlock()
	_, ok := w.objID[m]
	return ok
}

func (w *world) afterClose(c, topic int) bool {
	if atomic.LoadInt32(&w.qRet) == 1 {
		return true
	}
	w.mu.Lock()
	defer w.mu.Unlock()
	return w.cRet[c] || w.cRet[100+topic]
}

// ---------------------------------------------------------------------------------
// requester

type reqT struct {
	w     *world
	id    int
	c     int
	pc    string // idle have sent got fail
	cur   *queue.Message
	reply *queue.Message
	req   int
	wr    bool
	topic int
	seq   int
	// in-flight call, for the blocked-call report
	call      atomic.Value // string
	callStart atomic.Int64
}

func newReq(w *world, id int) *reqT {
	t := &reqT{w: w, id: id, c: clientOfThread(id), pc: "idle"}
	t.call.Store("")
	return t
}

func (t *reqT) ev(name string, kv map[string]any) {
	t.seq++
	kv["ev"] = name
	kv["th"] = t.id
	kv["seq"] = t.seq
	t.w.log(kv)
}

func (t *reqT) cl() queue.Client { return t.w.clients[t.c] }

// Legal tells whether op may be issued in the requester's current lifecycle stage.
func (t *reqT) Legal(op string) bool {
	switch op {
	case "New":
		return t.pc == "idle"
	case "SendS":
		return t.pc == "have"
	case "WaitS":
		return t.pc == "sent"
	case "Free":
		return t.pc == "got" || t.pc == "fail"
	case "Drop":
		return t.pc == "got" || t.pc == "fail" || t.pc == "sent"
	}
	return false
}

func (t *reqT) New(topic int, wr bool) {
	req := int(atomic.AddInt64(&t.w.nreq, 1))
	m := t.cl().NewMessage(topicName(topic), tyReq, &payload{Req: req, WR: wr})
	if t.w.seen(m) {
		atomic.AddInt64(&t.w.nRecycled, 1)
	}
	t.cur, t.req, t.wr, t.topic, t.reply = m, req, wr, topic, nil
	t.pc = "have"
	t.ev("New", map[string]any{"m": t.w.oid(m), "req": req, "topic": topic, "wr": wr})
}

func errClass(err error) string {
	switch err {
	case nil:
		return "ok"
	case queue.ErrQueueTimeout:
		return "timeout"
	case queue.ErrQueueChannelFull:
		return "full"
	}
	return "closed"
}

func (t *reqT) begin(call string) {
	t.callStart.Store(time.Now().UnixNano())
	t.call.Store(call)
}
func (t *reqT) end() { t.call.Store("") }

func (t *reqT) Send(mode string) {
	aft := t.w.afterClose(t.c, t.topic)
	t.ev("SendS", map[string]any{"mode": mode})
	t.begin(fmt.Sprintf("Send(th=%d,topic=%d,wr=%v,mode=%s)", t.id, t.topic, t.wr, mode))
	var err error
	switch mode {
	case "block":
		err = t.cl().Send(t.cur, t.wr)
	case "zero":
		err = t.cl().SendTimeout(t.cur, t.wr, 0)
	default:
		err = t.cl().SendTimeout(t.cur, t.wr, t.w.timed)
	}
	t.end()
	ret := errClass(err)
	t.ev("SendE", map[string]any{"ret": ret})
	if ret == "ok" {
		if aft {
			t.w.violate(violation{Kind: "okAfterClose", Sig: fmt.Sprintf("send-ok-after-close|wr=%v|mode=%s", t.wr, mode),
				Expected: "error from a Send started after the close returned", Observed: "nil error",
				Detail: fmt.Sprintf("th=%d req=%d topic=%d", t.id, t.req, t.topic)})
		}
		if t.wr {
			t.pc = "sent"
			if atomic.AddInt64(&t.w.outstanding, 1) >= 2 {
				atomic.AddInt64(&t.w.nOverlap, 1)
			}
		} else {
			t.pc, t.cur = "idle", nil
		}
	} else {
		if aft {
			atomic.AddInt64(&t.w.nErrAfterClose, 1)
		}
		t.pc = "fail"
	}
}

func (t *reqT) Wait(mode string) {
	t.ev("WaitS", map[string]any{"mode": mode})
	t.begin(fmt.Sprintf("Wait(th=%d,topic=%d,mode=%s)", t.id, t.topic, mode))
	atomic.AddInt64(&t.w.inWait, 1)
	t0 := time.Now()
	var rep *queue.Message
	var err error
	if mode == "block" {
		rep, err = t.cl().Wait(t.cur)
	} else {
		rep, err = t.cl().WaitTimeout(t.cur, t.w.timed)
	}
	atomic.AddInt64(&t.w.inWait, -1)
	t.end()
	_ = t0
	switch {
	case err == nil:
		echo := -1
		if rep != nil {
			if rp, ok := rep.Data.(*rpayload); ok {
				echo = rp.Echo
			}
		}
		t.ev("WaitE", map[string]any{"ret": "reply", "echo": echo})
		atomic.AddInt64(&t.w.outstanding, -1)
		if echo != t.req {
			t.w.violate(violation{Kind: "crossTalk", Sig: "wait-returned-foreign-reply",
				Expected: fmt.Sprintf("reply echoing request %d", t.req), Observed: fmt.Sprintf("reply echoing %d", echo),
				Detail: fmt.Sprintf("th=%d topic=%d", t.id, t.topic)})
		} else {
			atomic.AddInt64(&t.w.nReplyOK, 1)
		}
		t.reply = rep
		t.pc = "got"
	case err == queue.ErrQueueTimeout:
		t.ev("WaitE", map[string]any{"ret": "timeout", "echo": 0})
		t.pc = "sent"
	default:
		t.ev("WaitE", map[string]any{"ret": "err", "echo": 0})
		atomic.AddInt64(&t.w.outstanding, -1)
		if t.w.afterCloseStarted(t.c, t.topic) {
			atomic.AddInt64(&t.w.nWokenByClose, 1)
		}
		t.pc, t.cur = "idle", nil
	}
}

func (w *world) afterCloseStarted(c, topic int) bool {
	w.mu.Lock()
	defer w.mu.Unlock()
	return w.qStarted || w.closing[c] || w.closing[100+topic]
}

// Free recycles the request (and the consumed reply) as the FreeMessage contract allows.
func (t *reqT) Free() {
	t.ev("Free", map[string]any{"m": t.w.oid(t.cur)})
	if t.reply != nil && t.reply != t.cur {
		t.cl().FreeMessage(t.cur, t.reply)
	} else {
		t.cl().FreeMessage(t.cur)
	}
	t.pc, t.cur, t.reply = "idle", nil, nil
}

func (t *reqT) Drop() {
	t.ev("Drop", map[string]any{})
	if t.pc == "sent" {
		atomic.AddInt64(&t.w.outstanding, -1)
	}
	t.pc, t.cur, t.reply = "idle", nil, nil
}

// ---------------------------------------------------------------------------------
// responder

type respT struct {
	w    *world
	id   int
	c    int
	pc   string // idle hold end
	cur  *queue.Message
	req  int
	wr   bool
	seq  int
	busy int32
}

func newResp(w *world, id int) *respT { return &respT{w: w, id: id, c: clientOfThread(id), pc: "idle"} }

func (t *respT) ev(name string, kv map[string]any) {
	t.seq++
	kv["ev"] = name
	kv["th"] = t.id
	kv["seq"] = t.seq
	t.w.log(kv)
}

func (t *respT) Legal(op string) bool {
	switch op {
	case "RecvS":
		return t.pc == "idle"
	case "Reply":
		return t.pc == "hold" && t.wr
	case "Ignore":
		return t.pc == "hold"
	case "Free":
		return t.pc == "hold" && !t.wr
	}
	return false
}

// Recv blocks on client.Recv() until a message arrives, the channel is closed or the world stops
// (then no end event is logged: the call is still in progress when the trace ends).
func (t *respT) Recv() bool {
	t.ev("RecvS", map[string]any{})
	cl := t.w.clients[t.c]
	select {
	case m, ok := <-cl.Recv():
		if !ok || m == nil {
			t.ev("RecvE", map[string]any{"ret": "closed", "m": 0, "req": 0, "wr": false})
			t.pc = "end"
			return true
		}
		p, ok := m.Data.(*payload)
		if !ok {
			t.w.violate(violation{Kind: "garbage", Sig: "recv-unknown-message", Expected: "a message that was sent", Observed: fmt.Sprintf("%v", m)})
			t.ev("RecvE", map[string]any{"ret": "msg", "m": t.w.oid(m), "req": 0, "wr": false})
			t.pc, t.cur, t.req, t.wr = "hold", m, 0, false
			return true
		}
		t.w.mu.Lock()
		t.w.deliv[p.Req]++
		n := t.w.deliv[p.Req]
		t.w.mu.Unlock()
		if n > 1 {
			t.w.violate(violation{Kind: "dupDelivery", Sig: "message-received-twice", Expected: "each sent message received at most once",
				Observed: fmt.Sprintf("request %d received %d times", p.Req, n)})
		}
		t.pc, t.cur, t.req, t.wr = "hold", m, p.Req, p.WR
		t.ev("RecvE", map[string]any{"ret": "msg", "m": t.w.oid(m), "req": p.Req, "wr": p.WR})
		return true
	case <-t.w.stop:
		return false
	}
}

func (t *respT) Reply() {
	t.ev("Reply", map[string]any{"m": t.w.oid(t.cur), "req": t.req})
	cl := t.w.clients[t.c]
	t.cur.Reply(cl.NewMessage("", tyReply, &rpayload{Echo: t.req}))
	t.pc, t.cur = "idle", nil
}

func (t *respT) Ignore() {
	t.ev("Ignore", map[string]any{})
	t.pc, t.cur = "idle", nil
}

func (t *respT) FreeAsync() {
	t.ev("Free", map[string]any{"m": t.w.oid(t.cur)})
	t.w.clients[t.c].FreeMessage(t.cur)
	t.pc, t.cur = "idle", nil
}

// ---------------------------------------------------------------------------------
// closer

type closeT struct {
	w   *world
	id  int
	seq int
}

func (t *closeT) ev(name string, kv map[string]any) {
	t.seq++
	kv["ev"] = name
	kv["th"] = t.id
	kv["seq"] = t.seq
	t.w.log(kv)
}

// CloseClient closes client c once per world (concurrent / repeated Close of one client is outside the property).
func (t *closeT) CloseClient(c int) bool {
	t.w.mu.Lock()
	if t.w.closing[c] {
		t.w.mu.Unlock()
		return false
	}
	t.w.closing[c] = true
	if atomic.LoadInt64(&t.w.outstanding) > 0 || atomic.LoadInt64(&t.w.inWait) > 0 {
		atomic.AddInt64(&t.w.nCloseWithOutstanding, 1)
	}
	t.w.mu.Unlock()
	t.ev("CloseCS", map[string]any{"c": c})
	t.w.clients[c].Close()
	if subOf(c) != 0 {
		t.w.mu.Lock()
		t.w.cRet[c] = true
		t.w.mu.Unlock()
	}
	t.ev("CloseCE", map[string]any{"c": c})
	return true
}

func (t *closeT) CloseQueue() bool {
	t.w.mu.Lock()
	if t.w.qStarted {
		t.w.mu.Unlock()
		return false
	}
	t.w.qStarted = true
	if atomic.LoadInt64(&t.w.outstanding) > 0 || atomic.LoadInt64(&t.w.inWait) > 0 {
		atomic.AddInt64(&t.w.nCloseWithOutstanding, 1)
	}
	t.w.mu.Unlock()
	t.ev("CloseQS", map[string]any{})
	t.w.q.Close()
	atomic.StoreInt32(&t.w.qRet, 1)
	t.ev("CloseQE", map[string]any{})
	return true
}

// ---------------------------------------------------------------------------------
// end of a world: the queue is closed, then every Send/Wait still in progress has to return

type blockedCall struct {
	Call string  `json:"call"`
	For  float64 `json:"blocked_s"`
}

// awaitCalls waits until no requester is inside Send/Wait, up to grace. Returns the calls still blocked.
func awaitCalls(reqs []*reqT, grace time.Duration) []blockedCall {
	deadline := time.Now().Add(grace)
	for {
		var bl []blockedCall
		for _, r := range reqs {
			if c := r.call.Load().(string); c != "" {
				bl = append(bl, blockedCall{Call: c, For: time.Since(time.Unix(0, r.callStart.Load())).Seconds()})
			}
		}
		if len(bl) == 0 || time.Now().After(deadline) {
			return bl
		}
		time.Sleep(2 * time.Millisecond)
	}
}

func goroutineDump() string {
	buf := make([]byte, 1<<20)
	n := runtime.Stack(buf, true)
	return string(buf[:n])
}

func (w *world) stopAll() { w.stopOnce.Do(func() { close(w.stop) }) }
