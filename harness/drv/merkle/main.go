// Driver for the Merkle family (C18): common/merkle on real SHA-256 double hashes.
//
// TLC exports, per leaf count, the expected tree SHAPE (nested index lists) of the root and of
// every branch element; this driver evaluates the shape with crypto/sha256 over seeded random
// leaves and compares it with merkle.GetMerkleRoot (under every worker count through hook H1),
// Computation, GetMerkleBranch, GetMerkleRootFromBranch, CalcMerkleRoot, CalcMerkleRootCache and
// CalcMultiLayerMerkleInfo.
package main

import (
	"bytes"
	"crypto/sha256"
	"encoding/binary"
	"encoding/hex"
	"fmt"
	"strings"
	"sync"

	"github.com/33cn/chain33/common/merkle"
	"github.com/33cn/chain33/types"
	"verif/harness/core"
)

// the worker-count override of hook H1 is a process global: serialise "set; call"
var ncpuMu sync.Mutex

func rootWith(ncpu int, leaves [][]byte) []byte {
	ncpuMu.Lock()
	defer ncpuMu.Unlock()
	merkle.VerifSetNCPU(ncpu)
	defer merkle.VerifSetNCPU(0)
	// getMerkleRoot overwrites the slice it is given: always hand it a private copy
	return merkle.GetMerkleRoot(cp(leaves))
}

// rootWithStep also reports the chunk size the code really used (hook H1b; 0 = sequential path)
func rootWithStep(ncpu int, leaves [][]byte) ([]byte, int) {
	ncpuMu.Lock()
	defer ncpuMu.Unlock()
	merkle.VerifSetNCPU(ncpu)
	defer merkle.VerifSetNCPU(0)
	merkle.VerifLastStep()
	r := merkle.GetMerkleRoot(cp(leaves))
	return r, merkle.VerifLastStep()
}

func pow2(x int) bool { return x > 0 && x&(x-1) == 0 }

func cp(l [][]byte) [][]byte {
	out := make([][]byte, len(l))
	copy(out, l)
	return out
}

// h2 is the node hash of the format: SHA-256(SHA-256(left || right)), written here with the
// standard library only (independent of common.Sha2Sum / merkle.GetHashFromTwoHash)
func h2(l, r []byte) []byte {
	var buf [64]byte
	copy(buf[:32], l)
	copy(buf[32:], r)
	a := sha256.Sum256(buf[:])
	b := sha256.Sum256(a[:])
	return b[:]
}

type drv struct {
	env  *core.Env
	salt []byte
	cfg  *types.Chain33Config
}

var (
	cfgOnce sync.Once
	cfgVal  *types.Chain33Config
)

func chainCfg() *types.Chain33Config {
	cfgOnce.Do(func() { cfgVal = types.NewChain33Config(types.GetDefaultCfgstring()) })
	return cfgVal
}

func (d *drv) Reset(env *core.Env, b *core.Behaviour) error {
	d.env = env
	d.salt = []byte(fmt.Sprintf("%d|%s|%s", env.Seed, b.ID, env.Opt("salt", "0")))
	return nil
}

func (d *drv) Close() {}

// leaf id -> 32 seeded pseudo-random bytes (equal ids give equal leaves)
func (d *drv) leaf(id int) []byte {
	var n [8]byte
	binary.BigEndian.PutUint64(n[:], uint64(id))
	h := sha256.Sum256(append(append([]byte("leaf|"), d.salt...), n[:]...))
	return h[:]
}

func (d *drv) leavesN(n int) [][]byte {
	out := make([][]byte, n)
	for i := range out {
		out[i] = d.leaf(i + 1)
	}
	return out
}

// eval evaluates a tree shape: number -> leafOf(id), [l, r] -> h2(eval l, eval r)
func eval(shape any, leafOf func(int) []byte) ([]byte, error) {
	switch v := shape.(type) {
	case float64:
		return leafOf(int(v)), nil
	case []any:
		if len(v) != 2 {
			return nil, fmt.Errorf("shape node with %d children", len(v))
		}
		l, err := eval(v[0], leafOf)
		if err != nil {
			return nil, err
		}
		r, err := eval(v[1], leafOf)
		if err != nil {
			return nil, err
		}
		return h2(l, r), nil
	}
	return nil, fmt.Errorf("bad shape %T", shape)
}

func same(exp, got []byte, what string) any {
	if bytes.Equal(exp, got) {
		return "T"
	}
	if got == nil {
		return "X:" + what + ":nil"
	}
	return "X:" + what + ":" + hex.EncodeToString(got)[:16]
}

func (d *drv) Apply(s core.Step) (any, any, error) {
	switch s.Op() {
	case "Root":
		return d.root(s)
	case "Branch":
		return d.branch(s)
	case "Pair":
		return d.pair(s)
	case "Multi":
		return d.multi(s)
	case "Sweep":
		return d.sweep(s)
	case "Regime":
		return d.regime(s)
	}
	return nil, nil, fmt.Errorf("unknown op %q", s.Op())
}

func (d *drv) root(s core.Step) (any, any, error) {
	n := s.Int("n")
	leaves := d.leavesN(n)
	exp, err := eval(s["tree"], d.leaf)
	if err != nil {
		return nil, nil, err
	}
	ret := map[string]any{}
	ret["seq"] = same(exp, rootWith(1, leaves), "seq")
	var par []any
	for _, w := range s.Ints("ws") {
		r, st := rootWithStep(w, leaves)
		v := same(exp, r, fmt.Sprintf("par(w=%d,step=%d)", w, st))
		if st != 0 && !pow2(st) {
			// the specification's assumption on the chunk size (Merkle.tla, IsPow2) does not hold
			// for the code: TLC's equality result does not carry over
			if v == "T" {
				v = fmt.Sprintf("X:par(w=%d,step=%d):root equal but the chunk size is not a power of two", w, st)
			} else {
				v = fmt.Sprintf("X:par(w=%d,step=%d):root differs; the chunk size is not a power of two", w, st)
			}
		}
		par = append(par, v)
	}
	ret["par"] = par
	r1, _, _ := merkle.Computation(cp(leaves), 1, 0)
	r3, _, _ := merkle.Computation(cp(leaves), 3, uint32(n-1))
	r4, _ := merkle.GetMerkleRootAndBranch(cp(leaves), 0)
	c := same(exp, r1, "comp1")
	if c == "T" {
		c = same(exp, r3, "comp3")
	}
	if c == "T" {
		c = same(exp, r4, "rootAndBranch")
	}
	ret["comp"] = c
	return ret, nil, nil
}

// stepOf mirrors only the *reporting* of which chunk size a worker count selects (used in
// signatures and the non-triviality rule; never in a comparison)
func stepOf(n, ncpu int) int {
	if n <= 80 || ncpu <= 1 {
		return 0
	}
	q := n / ncpu
	lv := 0
	for q > 1 {
		q /= 2
		lv++
	}
	if lv < 1 {
		lv = 1
	}
	st := 1 << uint(lv)
	if st > 256 {
		st = 256
	}
	return st
}

func (d *drv) branch(s core.Step) (any, any, error) {
	n, pos := s.Int("n"), s.Int("pos")
	leaves := d.leavesN(n)
	got := merkle.GetMerkleBranch(cp(leaves), uint32(pos))
	ret := map[string]any{"branch": "T", "verify": "T"}
	want := s.List("branch")
	if len(got) != len(want) {
		ret["branch"] = fmt.Sprintf("X:len=%d,want=%d", len(got), len(want))
	} else {
		for i := range want {
			e, err := eval(want[i], d.leaf)
			if err != nil {
				return nil, nil, err
			}
			if !bytes.Equal(e, got[i]) {
				ret["branch"] = fmt.Sprintf("X:elem%d", i)
				break
			}
		}
	}
	root := rootWith(1, leaves)
	ret["verify"] = same(root, merkle.GetMerkleRootFromBranch(got, leaves[pos], uint32(pos)), "fromBranch")
	return ret, nil, nil
}

func (d *drv) idsLeaves(ids []int) [][]byte {
	out := make([][]byte, len(ids))
	for i, id := range ids {
		out[i] = d.leaf(id)
	}
	return out
}

func (d *drv) pair(s core.Step) (any, any, error) {
	la, lb := d.idsLeaves(s.Ints("a")), d.idsLeaves(s.Ints("b"))
	w := d.env.OptInt("w", 4)
	ra, rb := rootWith(w, la), rootWith(w, lb)
	ca, _, _ := merkle.Computation(cp(la), 1, 0)
	cb, mb, _ := merkle.Computation(cp(lb), 1, 0)
	if !bytes.Equal(ra, ca) || !bytes.Equal(rb, cb) {
		return map[string]any{"eq": "X:Computation root differs from GetMerkleRoot", "flag": mb}, nil, nil
	}
	return map[string]any{"eq": bytes.Equal(ra, rb), "flag": mb}, nil, nil
}

// sweep: for every n in [from,to] and every worker count at which the chunk size changes, the
// parallel root equals the sequential root and the constant-space root (TLC has shown the
// three ALGORITHMS equal on this range; this compares the three IMPLEMENTATIONS).
func (d *drv) sweep(s core.Step) (any, any, error) {
	from, to, maxw := s.Int("from"), s.Int("to"), s.Int("maxw")
	all := d.leavesN(to)
	for n := from; n <= to; n++ {
		leaves := all[:n:n]
		seq := rootWith(1, leaves)
		c, _, _ := merkle.Computation(cp(leaves), 1, 0)
		if !bytes.Equal(seq, c) {
			return fmt.Sprintf("X:comp!=seq n=%d", n), nil, nil
		}
		last := -1
		for w := 2; w <= maxw; w++ {
			st := stepOf(n, w)
			if st == last {
				continue
			}
			last = st
			if p := rootWith(w, leaves); !bytes.Equal(seq, p) {
				return fmt.Sprintf("X:par!=seq n=%d w=%d step=%d", n, w, st), nil, nil
			}
		}
	}
	return "same", nil, nil
}

// regime: one (leaf count, worker count) pair at a boundary of the chunk-size regimes (TLC has
// shown the two root algorithms equal for exactly this pair): the chunk size the code uses is a
// power of two, the parallel root equals the sequential and the constant-space root, and branches
// at both ends, the middle and the start of the last chunk verify against the parallel root (the
// value a block header carries).
func (d *drv) regime(s core.Step) (any, any, error) {
	n, w := s.Int("n"), s.Int("w")
	leaves := d.leavesN(n)
	seq := rootWith(1, leaves)
	par, st := rootWithStep(w, leaves)
	if !bytes.Equal(seq, par) {
		if st != 0 && !pow2(st) {
			return fmt.Sprintf("X:par!=seq (chunk size is not a power of two) n=%d w=%d step=%d", n, w, st), nil, nil
		}
		return fmt.Sprintf("X:par!=seq n=%d w=%d step=%d", n, w, st), nil, nil
	}
	if st != 0 && !pow2(st) {
		// the specification's assumption (Merkle.tla, IsPow2) does not hold for the code
		return fmt.Sprintf("X:chunk size is not a power of two: n=%d w=%d step=%d", n, w, st), nil, nil
	}
	if c, _, _ := merkle.Computation(cp(leaves), 1, 0); !bytes.Equal(c, seq) {
		return fmt.Sprintf("X:comp!=seq n=%d", n), nil, nil
	}
	pos := []int{0, n - 1, n / 2}
	if st > 0 {
		pos = append(pos, ((n-1)/st)*st)
	}
	for _, p := range pos {
		br := merkle.GetMerkleBranch(cp(leaves), uint32(p))
		if !bytes.Equal(merkle.GetMerkleRootFromBranch(br, leaves[p], uint32(p)), par) {
			return fmt.Sprintf("X:branch does not verify n=%d pos=%d", n, p), nil, nil
		}
	}
	return "same", nil, nil
}

// ---------------------------------------------------------------------------------------------
// multi-layer

var mainExecs = []string{"coins", "none", "user.write", "token"}

func (d *drv) title(c int) string {
	h := sha256.Sum256(append([]byte("title|"), d.salt...))
	names := []string{"game", "p", "user", "a", "para", "Zz9", "x_y", "0"}
	return "user.p." + names[(int(h[0])+c*3)%len(names)] + fmt.Sprint(c) + "."
}

func (d *drv) tx(id, chain int) *types.Transaction {
	l := d.leaf(id)
	exec := mainExecs[int(l[0])%len(mainExecs)]
	if chain > 0 {
		exec = d.title(chain) + mainExecs[int(l[1])%len(mainExecs)]
	}
	return &types.Transaction{
		Execer:  []byte(exec),
		Payload: l[2 : 2+int(l[2])%24],
		Fee:     int64(binary.BigEndian.Uint32(l[4:8])),
		Nonce:   int64(id),
		To:      "1" + hex.EncodeToString(l[8:24]),
		Expire:  int64(l[9]),
		// a signature so that Hash() (signature stripped) and FullHash() differ
		Signature: &types.Signature{Ty: 1, Pubkey: l[10:20], Signature: l[12:30]},
	}
}

func (d *drv) multi(s core.Step) (any, any, error) {
	cfg := chainCfg()
	const hPre, hPost = int64(0), int64(10)
	if cfg.IsFork(hPre, "ForkRootHash") || !cfg.IsFork(hPost, "ForkRootHash") {
		return nil, nil, fmt.Errorf("default config: ForkRootHash not between heights %d and %d", hPre, hPost)
	}
	var txs []*types.Transaction
	byID := map[int]*types.Transaction{}
	var chains []int
	for _, t := range s.List("txs") {
		p, _ := t.([]any)
		if len(p) != 2 {
			return nil, nil, fmt.Errorf("bad tx %v", t)
		}
		id, c := core.ToInt(p[0]), core.ToInt(p[1])
		if byID[id] == nil {
			byID[id] = d.tx(id, c)
		}
		txs = append(txs, byID[id])
		chains = append(chains, c)
	}
	full := func(id int) []byte { return byID[id].FullHash() }
	short := func(id int) []byte { return byID[id].Hash() }
	ret := map[string]any{"root": "T", "flat": "T", "segs": "T", "childs": "T", "proofs": "T"}

	// before the fork: one layer over Hash()
	expFlat, err := eval(s["flat"], short)
	if err != nil {
		return nil, nil, err
	}
	ret["flat"] = same(expFlat, withNCPU(d.env.OptInt("w", 4), func() []byte { return merkle.CalcMerkleRoot(cfg, hPre, txs) }), "CalcMerkleRoot(pre)")
	if ret["flat"] == "T" {
		var cache []*types.TransactionCache
		for _, t := range txs {
			cache = append(cache, types.NewTransactionCache(t))
		}
		ret["flat"] = same(expFlat, merkle.CalcMerkleRootCache(cache), "CalcMerkleRootCache")
	}
	if r, cc := merkle.CalcMultiLayerMerkleInfo(cfg, hPre, txs); r != nil || cc != nil {
		ret["flat"] = "X:CalcMultiLayerMerkleInfo answers before the fork"
	}

	// after the fork: child chains over FullHash()
	exp, err := eval(s["tree"], full)
	if err != nil {
		return nil, nil, err
	}
	var root []byte
	var childs []*types.ChildChain
	root = withNCPU(d.env.OptInt("w", 4), func() []byte {
		var r []byte
		r, childs = merkle.CalcMultiLayerMerkleInfo(cfg, hPost, txs)
		return r
	})
	ret["root"] = same(exp, root, "CalcMultiLayerMerkleInfo")
	if ret["root"] == "T" {
		ret["root"] = same(exp, merkle.CalcMerkleRoot(cfg, hPost, txs), "CalcMerkleRoot(post)")
	}
	segs := s.List("segs")
	wantChild := s.List("childs")
	if len(childs) != len(segs) || len(wantChild) != len(segs) {
		ret["segs"] = fmt.Sprintf("X:%d child chains, want %d", len(childs), len(segs))
		return ret, nil, nil
	}
	var childHashes [][]byte
	for j, sg := range segs {
		q, _ := sg.([]any)
		t, st, cnt := core.ToInt(q[0]), core.ToInt(q[1]), core.ToInt(q[2])
		title := types.MainChainName
		if t > 0 {
			title = d.title(t)
		}
		c := childs[j]
		if c.Title != title || int(c.StartIndex) != st || int(c.TxCount) != cnt {
			ret["segs"] = fmt.Sprintf("X:child %d is (%s,%d,%d), want (%s,%d,%d)", j, c.Title, c.StartIndex, c.TxCount, title, st, cnt)
			return ret, nil, nil
		}
		e, err := eval(wantChild[j], full)
		if err != nil {
			return nil, nil, err
		}
		if !bytes.Equal(e, c.ChildHash) && ret["childs"] == "T" {
			ret["childs"] = fmt.Sprintf("X:child %d hash", j)
		}
		childHashes = append(childHashes, c.ChildHash)
	}

	// proofs, composed from the reported child chains exactly as blockchain.getMultiLayerProofs does
	for _, pj := range s.List("proofs") {
		pm, _ := pj.(map[string]any)
		p := core.ToInt(pm["p"])
		if p < 0 || p >= len(txs) {
			return nil, nil, fmt.Errorf("proof position %d outside the list", p)
		}
		leafHash := txs[p].FullHash()
		bad := func(f string, a ...any) {
			if ret["proofs"] == "T" {
				ret["proofs"] = fmt.Sprintf("X:tx %d: ", p) + fmt.Sprintf(f, a...)
			}
		}
		if len(childs) == 1 {
			all := make([][]byte, len(txs))
			for i, t := range txs {
				all[i] = t.FullHash()
			}
			br := merkle.GetMerkleBranch(all, uint32(p))
			if !branchIs(br, pm["txbranch"], full) {
				bad("single-layer branch differs")
			}
			if !bytes.Equal(merkle.GetMerkleRootFromBranch(br, leafHash, uint32(p)), root) {
				bad("single-layer proof does not verify")
			}
			continue
		}
		j := -1
		for k, c := range childs {
			if int(c.StartIndex) <= p && p < int(c.StartIndex+c.TxCount) {
				j = k
			}
		}
		if j < 0 {
			bad("in no child chain")
			continue
		}
		var ch [][]byte
		for i := childs[j].StartIndex; i < childs[j].StartIndex+childs[j].TxCount; i++ {
			ch = append(ch, txs[i].FullHash())
		}
		idx := uint32(p - int(childs[j].StartIndex))
		txb := merkle.GetMerkleBranch(ch, idx)
		chb := merkle.GetMerkleBranch(cp(childHashes), uint32(j))
		if core.ToInt(pm["txidx"]) != int(idx) || core.ToInt(pm["chidx"]) != j {
			bad("indexes (%d,%d), want (%v,%v)", idx, j, pm["txidx"], pm["chidx"])
		}
		if !branchIs(txb, pm["txbranch"], full) || !branchIs(chb, pm["chbranch"], full) {
			bad("two-level branch differs")
		}
		cr := merkle.GetMerkleRootFromBranch(txb, leafHash, idx)
		if !bytes.Equal(cr, childs[j].ChildHash) {
			bad("child proof does not reach the child root")
		}
		if !bytes.Equal(merkle.GetMerkleRootFromBranch(chb, cr, uint32(j)), root) {
			bad("two-level proof does not verify")
		}
	}
	return ret, nil, nil
}

func withNCPU(n int, f func() []byte) []byte {
	ncpuMu.Lock()
	defer ncpuMu.Unlock()
	merkle.VerifSetNCPU(n)
	defer merkle.VerifSetNCPU(0)
	return f()
}

func branchIs(got [][]byte, want any, leafOf func(int) []byte) bool {
	w, _ := want.([]any)
	if len(w) != len(got) {
		return false
	}
	for i := range w {
		e, err := eval(w[i], leafOf)
		if err != nil || !bytes.Equal(e, got[i]) {
			return false
		}
	}
	return true
}

// ---------------------------------------------------------------------------------------------

// NonTrivial (C18): a leaf count above 80 under a chunking worker count, a branch whose path
// crosses an odd-sized level, a colliding (duplicated-tail) pair, or >= 2 child chains.
func (d *drv) NonTrivial(env *core.Env, b *core.Behaviour) bool {
	for _, s := range b.Steps {
		switch s.Op() {
		case "Root":
			if s.Int("n") > 80 && len(s.Ints("ws")) > 1 {
				return true
			}
		case "Branch":
			if oddOnPath(s.Int("n"), s.Int("pos")) {
				return true
			}
		case "Pair":
			if r, ok := s["ret"].(map[string]any); ok && r["eq"] == true && core.J(s["a"]) != core.J(s["b"]) {
				return true
			}
		case "Multi":
			if len(s.List("segs")) >= 2 {
				return true
			}
		case "Sweep":
			if s.Int("to") > 80 {
				return true
			}
		case "Regime":
			if s.Int("n") > 80 && s.Int("w") > 1 {
				return true
			}
		}
	}
	return false
}

// oddOnPath: does the path of leaf pos meet a level with an odd number of nodes where it is
// the last (self-paired) node?
func oddOnPath(n, pos int) bool {
	for n > 1 {
		if n%2 == 1 && pos == n-1 {
			return true
		}
		n = (n + 1) / 2
		pos /= 2
	}
	return false
}

// Signature: the operation, the class of its input, and WHICH sub-checks failed (never concrete
// hashes, leaf counts or positions)
func (d *drv) Signature(b *core.Behaviour, idx int, field string, exp, obs any) string {
	if idx < 0 || idx >= len(b.Steps) {
		return field
	}
	s := b.Steps[idx]
	fails := func(v any) string {
		m, ok := v.(map[string]any)
		if !ok {
			return "shape"
		}
		var out []string
		for _, k := range []string{"seq", "comp", "par", "branch", "verify", "root", "flat", "segs", "childs", "proofs"} {
			x, ok := m[k]
			if !ok {
				continue
			}
			bad := false
			if l, isl := x.([]any); isl {
				for _, y := range l {
					bad = bad || y != "T"
				}
			} else {
				bad = x != "T"
			}
			if bad {
				out = append(out, k)
			}
		}
		return strings.Join(out, ",")
	}
	kv := func(v any) string {
		m, _ := v.(map[string]any)
		return fmt.Sprintf("eq:%v,flag:%v", m["eq"], m["flag"])
	}
	switch s.Op() {
	case "Root":
		cl := ""
		if strings.Contains(core.J(obs), "not a power of two") {
			cl = "|chunk size is not a power of two"
			if strings.Contains(core.J(obs), "root equal but") {
				cl += " (roots equal)"
			}
		}
		return fmt.Sprintf("Root|n%s80|fails=%s%s", map[bool]string{true: ">", false: "<="}[s.Int("n") > 80], fails(obs), cl)
	case "Branch":
		return fmt.Sprintf("Branch|oddlevel=%v|fails=%s", oddOnPath(s.Int("n"), s.Int("pos")), fails(obs))
	case "Pair":
		return fmt.Sprintf("Pair|exp=%s|got=%s", kv(exp), kv(obs))
	case "Multi":
		ch := "1"
		if len(s.List("segs")) >= 2 {
			ch = ">=2"
		}
		return fmt.Sprintf("Multi|chains%s|fails=%s", ch, fails(obs))
	case "Regime":
		o, _ := obs.(string)
		for _, c := range []string{"X:par!=seq (chunk size is not a power of two)", "X:chunk size is not a power of two", "X:par!=seq", "X:comp!=seq", "X:branch does not verify"} {
			if strings.HasPrefix(o, c) {
				return "Regime|" + c[2:]
			}
		}
		return "Regime|" + clipS(o, 40)
	case "Sweep":
		o, _ := obs.(string)
		var n, w, st int
		if _, err := fmt.Sscanf(o, "X:par!=seq n=%d w=%d step=%d", &n, &w, &st); err == nil && st > 0 {
			return fmt.Sprintf("Sweep|par!=seq|partial-last-chunk=%v", n%st != 0)
		}
		if strings.HasPrefix(o, "X:comp!=seq") {
			return "Sweep|comp!=seq"
		}
		return "Sweep|" + clipS(o, 40)
	}
	return fmt.Sprintf("%s|%s", s.Op(), field)
}

func clipS(s string, n int) string {
	if len(s) > n {
		return s[:n]
	}
	return s
}

func main() {
	core.Main(&core.Family{
		Name:      "merkle",
		NewDriver: func() core.Driver { return &drv{} },
		Recorders: map[string]core.Recorder{"default": record},
	})
}
