package main

import (
	"bytes"
	"encoding/hex"
	"fmt"
	"math/rand"

	"github.com/33cn/chain33/common/merkle"
	"verif/harness/core"
)

// record: seeded random lists of leaves (distinct prefixes, explicit duplicated tails, near
// misses, arbitrary repeats) are pushed through the real root / branch functions under random
// worker counts. Roots are logged as small ids in first-seen order (binding table: equal bytes
// <=> equal id), so the trace specification can decide which lists the CODE considers equal.
func record(env *core.Env, emit func(map[string]any)) (*core.Summary, error) {
	sum := &core.Summary{Counters: map[string]int{}}
	ntr := env.OptInt("n", 10)
	big := env.OptInt("big", 2) // every big-th trace uses lists above the chunking threshold
	r := rand.New(rand.NewSource(env.Seed*7919 + int64(env.OptInt("salt", 0))))
	ws := []int{1, 2, 3, 4, 8, 16, 23, 64, 200}
	for t := 0; t < ntr; t++ {
		d := &drv{env: env, salt: []byte(fmt.Sprintf("rec|%d|%d", env.Seed, t))}
		emit(map[string]any{"ev": "Reset"})
		rids := map[string]int{}
		collide, chunked := false, false
		var evs []any
		var first []int
		root := func(ids []int, w int) {
			leaves := d.idsLeaves(ids)
			rt := rootWith(w, leaves)
			_, mut, _ := merkle.Computation(cp(leaves), 1, 0)
			k := hex.EncodeToString(rt)
			id, ok := rids[k]
			if !ok {
				id = len(rids) + 1
				rids[k] = id
			} else {
				collide = true
			}
			if len(ids) > 80 && stepOf(len(ids), w) > 0 {
				chunked = true
			}
			ev := map[string]any{"ev": "Root", "list": ids, "w": w, "ret": id, "mutated": mut}
			emit(ev)
			sum.Steps++
			if len(evs) < 6 && len(ids) <= 24 {
				evs = append(evs, ev)
			}
		}
		branch := func(ids []int) {
			leaves := d.idsLeaves(ids)
			pos := r.Intn(len(ids))
			if r.Intn(2) == 0 {
				pos = len(ids) - 1
			}
			br := merkle.GetMerkleBranch(cp(leaves), uint32(pos))
			ok := bytes.Equal(merkle.GetMerkleRootFromBranch(br, leaves[pos], uint32(pos)), rootWith(1, leaves))
			emit(map[string]any{"ev": "Branch", "list": ids, "pos": pos, "ret": ok})
			sum.Steps++
		}
		nbase := 1 + r.Intn(3)
		for bi := 0; bi < nbase; bi++ {
			k := 1 + r.Intn(24)
			if big > 0 && t%big == big-1 && bi == 0 {
				k = 81 + r.Intn(260)
			}
			base := make([]int, k)
			for i := range base {
				base[i] = i + 1 + bi*1000
			}
			if first == nil {
				first = base
			}
			root(base, ws[r.Intn(len(ws))])
			branch(base)
			// explicit duplicated-tail expansions, each also queried; then near misses of them
			cur := base
			for step := 0; step < 4; step++ {
				nx := dupStep(cur, r)
				if nx == nil {
					break
				}
				cur = nx
				root(cur, ws[r.Intn(len(ws))])
				if r.Intn(2) == 0 {
					branch(cur)
				}
				miss := append([]int{}, cur...)
				miss[len(miss)-1-r.Intn(min(len(miss), 3))] = 900000 + r.Intn(3)
				root(miss, ws[r.Intn(len(ws))])
			}
			// arbitrary repeats: append copies of random earlier elements
			rep := append([]int{}, base...)
			for i := 0; i < 1+r.Intn(4); i++ {
				rep = append(rep, rep[len(rep)-1-r.Intn(min(len(rep), 4))])
				root(rep, ws[r.Intn(len(ws))])
			}
			// the odd-length list with its last element written twice (the smallest collision)
			if k%2 == 1 && k > 1 {
				root(append(append([]int{}, base...), base[k-1]), ws[r.Intn(len(ws))])
			}
		}
		// close with a repeated query whose root id is already bound (also the self-test's target)
		root(first, 1)
		sum.Behaviours++
		if collide || chunked {
			sum.NonTrivial++
		}
		if len(sum.Samples) < 2 {
			sum.Samples = append(sum.Samples, map[string]any{"trace_prefix": evs})
		}
	}
	return sum, nil
}

// dupStep: one explicit duplication (append a copy of the last 2^k-aligned block of a list whose
// length is an odd multiple >= 3 of 2^k); nil when the list admits none
func dupStep(l []int, r *rand.Rand) []int {
	var ks []int
	for k := 0; (1 << uint(k)) <= len(l); k++ {
		b := 1 << uint(k)
		if len(l)%b == 0 && (len(l)/b)%2 == 1 && len(l)/b >= 3 {
			ks = append(ks, b)
		}
	}
	if len(ks) == 0 {
		return nil
	}
	b := ks[r.Intn(len(ks))]
	return append(append([]int{}, l...), l[len(l)-b:]...)
}
