package main

import (
	"bytes"
	"encoding/hex"
	"fmt"

	dbm "github.com/33cn/chain33/common/db"
	"github.com/33cn/chain33/types"
	"verif/harness/core"
)

// kvSub binds specification KVDB (C06) to one real backend: --opt db=mem|leveldb|badger.
type kvSub struct {
	st   *stores
	env  *core.Env
	kind string
	db   dbm.DB
	c    *conc
	it   dbm.Iterator
	itS  core.Step // the ItOpen step of the open iterator
	gen  int
}

func maxSmallByte(b *core.Behaviour) int {
	m := 1
	var walk func(v any)
	walk = func(v any) {
		switch x := v.(type) {
		case []any:
			for _, e := range x {
				walk(e)
			}
		case map[string]any:
			for _, e := range x {
				walk(e)
			}
		case float64:
			if int(x) > m && int(x) < 255 {
				m = int(x)
			}
		}
	}
	for _, s := range b.Steps {
		for k, v := range s {
			if k == "key" || k == "start" || k == "end" || k == "ops" || k == "prefix" || k == "base" || k == "layers" {
				walk(v)
			}
		}
	}
	if m > 8 {
		m = 8
	}
	return m
}

func (k *kvSub) reset(env *core.Env, b *core.Behaviour) error {
	k.env = env
	k.kind = env.Opt("db", "mem")
	k.c = newConc(env, b.ID, k.kind == "badger", maxSmallByte(b))
	db, err := k.st.get(k.kind, "kv")
	if err != nil {
		return err
	}
	k.db = db
	k.it = nil
	k.gen = 0
	if b.Meta == nil {
		b.Meta = map[string]any{}
	}
	b.Meta["concretisation"] = k.c.table()
	b.Meta["db"] = k.kind
	return nil
}

func (k *kvSub) close() {
	if k.it != nil {
		k.it.Close()
		k.it = nil
	}
}

func errRet(err error) any {
	if err == nil || isNotFound(err) {
		// the error value for an absent key is not part of the property (memdb: ErrNotFound, LevelDB: nil)
		return "ok"
	}
	return "err:" + err.Error()
}

func (k *kvSub) get(key []byte) any {
	v, err := k.db.Get(key)
	if err != nil {
		if isNotFound(err) {
			return []any{"none", -1}
		}
		return []any{"err", err.Error()}
	}
	return k.decode(key, v)
}

// decode turns a concrete value read under concrete key `key` into the model's reply.
func (k *kvSub) decode(key, v []byte) any {
	mv, vk, _, ok := decodeValue(v)
	if !ok {
		return []any{"garbage", hex.EncodeToString(v)}
	}
	if mv != 0 && !bytes.Equal(vk, key) {
		a, _ := k.c.abs(vk)
		return []any{"other", a}
	}
	return []any{"val", mv}
}

func (k *kvSub) table(s core.Step) any {
	exp, ok := s["chk"].([]any)
	if !ok {
		return nil
	}
	out := []any{}
	for _, e := range exp {
		p, _ := e.([]any)
		if len(p) != 2 {
			continue
		}
		mk := ints(p[0])
		r := k.get(k.c.key(mk))
		var v any = r
		if l, ok := r.([]any); ok && len(l) == 2 {
			if l[0] == "val" {
				v = l[1]
			} else if l[0] == "none" {
				v = -1
			}
		}
		out = append(out, []any{p[0], v})
	}
	return out
}

func (k *kvSub) obs() any {
	if !k.it.Valid() {
		return map[string]any{"valid": false, "key": []any{}, "val": -1}
	}
	key := append([]byte{}, k.it.Key()...)
	val := append([]byte{}, k.it.Value()...)
	cp := k.it.ValueCopy()
	var ak any
	if a, ok := k.c.abs(key); ok {
		ak = a
	} else {
		ak = "raw:" + hex.EncodeToString(key)
	}
	var av any
	d := k.decode(key, val)
	if l, ok := d.([]any); ok && len(l) == 2 && l[0] == "val" {
		av = l[1]
	} else {
		av = d
	}
	if !bytes.Equal(cp, val) {
		av = []any{"valuecopy-differs", hex.EncodeToString(cp)}
	}
	return map[string]any{"valid": true, "key": ak, "val": av}
}

func (k *kvSub) apply(s core.Step) (any, any, error) {
	switch s.Op() {
	case "Set":
		key := k.c.key(ints(s["key"]))
		k.gen++
		k.st.note(k.kind, "kv", key)
		var err error
		if k.gen%3 == 0 {
			err = k.db.SetSync(key, value(key, s.Int("val"), k.gen))
		} else {
			err = k.db.Set(key, value(key, s.Int("val"), k.gen))
		}
		return errRet(err), k.table(s), nil
	case "Delete":
		key := k.c.key(ints(s["key"]))
		k.gen++
		var err error
		if k.gen%3 == 0 {
			err = k.db.DeleteSync(key)
		} else {
			err = k.db.Delete(key)
		}
		return errRet(err), k.table(s), nil
	case "Batch":
		k.gen++
		b := k.db.NewBatch(k.gen%2 == 0)
		for _, o := range s.List("ops") {
			om, _ := o.(map[string]any)
			key := k.c.key(ints(om["k"]))
			if om["t"] == "set" {
				k.st.note(k.kind, "kv", key)
				b.Set(key, value(key, core.ToInt(om["v"]), k.gen))
			} else {
				b.Delete(key)
			}
		}
		err := b.Write()
		return errRet(err), k.table(s), nil
	case "Get":
		return k.get(k.c.key(ints(s["key"]))), nil, nil
	case "ItOpen":
		if k.it != nil {
			return nil, nil, fmt.Errorf("iterator already open")
		}
		start := k.c.bound(ints(s["start"]))
		var end []byte
		switch s.Str("mode") {
		case "prefix":
			end = nil
		case "range":
			end = k.c.key(ints(s["end"]))
		case "open":
			end = types.EmptyValue
		}
		k.it = k.db.Iterator(start, end, s.Bool("rev"))
		k.itS = s
		return "-", nil, nil
	case "Rewind":
		k.it.Rewind()
		return k.obs(), nil, nil
	case "Seek":
		k.it.Seek(k.c.key(ints(s["key"])))
		if !s.Bool("inrange") {
			// outside the iterator's range the contract leaves the landing open; only Valid()
			// is exercised so that a crash would still surface
			k.it.Valid()
			return "*", nil, nil
		}
		return k.obs(), nil, nil
	case "Next":
		k.it.Next()
		return k.obs(), nil, nil
	case "ItClose":
		k.it.Close()
		k.it = nil
		return "-", nil, nil
	}
	return nil, nil, fmt.Errorf("kvdb: unknown op %q", s.Op())
}

// nonTrivial (C06): an iterator walk of >= 2 visited keys under a non-default bound, or a
// batch containing a delete.
func (k *kvSub) nonTrivial(env *core.Env, b *core.Behaviour) bool {
	bounded := false
	run := 0
	for _, s := range b.Steps {
		switch s.Op() {
		case "Batch":
			for _, o := range s.List("ops") {
				if om, _ := o.(map[string]any); om != nil && om["t"] == "del" {
					return true
				}
			}
		case "ItOpen":
			bounded = len(s.List("start")) > 0 || s.Str("mode") == "range"
			run = 0
		case "Rewind", "Seek", "Next":
			if r, ok := s["ret"].(map[string]any); ok && r["valid"] == true {
				if s.Op() == "Next" {
					run++
				} else {
					run = 1
				}
				if bounded && run >= 2 {
					return true
				}
			} else {
				run = 0
			}
		}
	}
	return false
}

func obsClass(v any) string {
	switch x := v.(type) {
	case map[string]any:
		if x["valid"] == true {
			return "at"
		}
		return "end"
	case []any:
		if len(x) > 0 {
			return fmt.Sprint(x[0])
		}
	case string:
		if len(x) > 12 {
			return x[:12]
		}
		return x
	}
	return fmt.Sprint(v)
}

// keyRel classifies an observed key against the open iterator's bounds.
func (k *kvSub) keyRel(obs any) string {
	o, _ := obs.(map[string]any)
	if o == nil || o["valid"] != true || k.itS == nil {
		return "-"
	}
	ak, ok := o["key"].([]any)
	if !ok {
		return "key-not-in-universe"
	}
	g := k.c.key(ints(ak))
	start := k.c.bound(ints(k.itS["start"]))
	switch k.itS.Str("mode") {
	case "prefix":
		ub := bytesPrefixRef(start)
		switch {
		case ub != nil && bytes.Equal(g, ub):
			return "key=prefix-upper-bound"
		case !bytes.HasPrefix(g, start):
			return "key-outside-prefix"
		}
	case "range":
		end := k.c.key(ints(k.itS["end"]))
		switch {
		case bytes.Equal(g, end):
			return "key=end-bound"
		case bytes.Compare(g, end) > 0:
			return "key>end"
		case bytes.Compare(g, start) < 0:
			return "key<start"
		}
	case "open":
		if bytes.Compare(g, start) < 0 {
			return "key<start"
		}
	}
	return "key-in-range"
}

// bytesPrefixRef: the harness' own statement of "least string above all strings with this prefix".
func bytesPrefixRef(p []byte) []byte {
	for i := len(p) - 1; i >= 0; i-- {
		if p[i] < 0xff {
			out := append([]byte{}, p[:i+1]...)
			out[i]++
			return out
		}
	}
	return nil
}

func (k *kvSub) signature(b *core.Behaviour, idx int, field string, exp, obs any) string {
	s := b.Steps[idx]
	switch s.Op() {
	case "Rewind", "Seek", "Next":
		dir := "fwd"
		mode := "?"
		if k.itS != nil {
			mode = k.itS.Str("mode")
			if k.itS.Bool("rev") {
				dir = "rev"
			}
		}
		return fmt.Sprintf("kvdb|%s|%s|%s,%s|exp=%s|got=%s|%s", k.kind, s.Op(), mode, dir, obsClass(exp), obsClass(obs), k.keyRel(obs))
	case "Get":
		return fmt.Sprintf("kvdb|%s|Get|exp=%s|got=%s", k.kind, obsClass(exp), obsClass(obs))
	}
	if field == "chk" {
		e, _ := exp.([]any)
		o, _ := obs.([]any)
		for i := range e {
			if i < len(o) && !core.Match(e[i], o[i]) {
				ep, _ := e[i].([]any)
				op, _ := o[i].([]any)
				if len(ep) == 2 && len(op) == 2 {
					return fmt.Sprintf("kvdb|%s|%s|read-after|exp=%s|got=%s", k.kind, s.Op(), valClass(ep[1]), valClass(op[1]))
				}
			}
		}
	}
	return fmt.Sprintf("kvdb|%s|%s|%s|exp=%s|got=%s", k.kind, s.Op(), field, obsClass(exp), obsClass(obs))
}

func valClass(v any) string {
	switch x := v.(type) {
	case float64:
		switch {
		case x < 0:
			return "none"
		case x == 0:
			return "empty"
		}
		return "val"
	case []any:
		if len(x) > 0 {
			return fmt.Sprint(x[0])
		}
	}
	return fmt.Sprint(v)
}
