package main

import (
	"fmt"
	"math/rand"
	"sort"

	"verif/harness/core"
)

// Recorders (binding B): seeded random drivers over a larger key universe (alphabet
// {0,1,2,255}, length <= 3 = 84 keys) and longer histories than TLC generates; every real
// call is logged with its reply in abstract form and validated by the *_Trace specs.

var recAlphabet = []int{0, 1, 2, 255}

func randKey(r *rand.Rand, minLen, maxLen int) []any {
	n := minLen + r.Intn(maxLen-minLen+1)
	out := make([]any, n)
	for i := range out {
		out[i] = float64(recAlphabet[r.Intn(len(recAlphabet))])
	}
	return out
}

// a small hot set makes collisions (overwrites, deletes of present keys, shared prefixes) likely
func hotKeys(r *rand.Rand, n int) [][]any {
	out := make([][]any, n)
	for i := range out {
		out[i] = randKey(r, 1, 3)
	}
	return out
}

func lexCmp(a, b []int) int {
	for i := 0; i < len(a) && i < len(b); i++ {
		if a[i] != b[i] {
			if a[i] < b[i] {
				return -1
			}
			return 1
		}
	}
	switch {
	case len(a) < len(b):
		return -1
	case len(a) > len(b):
		return 1
	}
	return 0
}

func inRange(open core.Step, k []int) bool {
	start := ints(open["start"])
	switch open.Str("mode") {
	case "prefix":
		return hasPrefixInts(k, start)
	case "range":
		return lexCmp(start, k) <= 0 && lexCmp(k, ints(open["end"])) < 0
	}
	return lexCmp(start, k) <= 0
}

func emitStep(emit func(map[string]any), st core.Step, ret any) map[string]any {
	ev := map[string]any{"ev": st.Op(), "ret": ret}
	for k, v := range st {
		if k != "op" && k != "ret" && k != "chk" {
			ev[k] = v
		}
	}
	emit(ev)
	return ev
}

// flat form of an iterator observation for traces: [valid, key, val]; anomalies are mapped
// to values no model state can produce ([-9] / -9) so that TLC rejects instead of erroring
func flatObs(o any) any {
	m, ok := o.(map[string]any)
	if !ok {
		return []any{false, []any{}, -1}
	}
	key, ok := m["key"].([]any)
	if !ok {
		key = []any{-9}
	}
	val := -9
	switch v := m["val"].(type) {
	case int:
		val = v
	case float64:
		val = int(v)
	}
	return []any{m["valid"], key, val}
}

func flatGet(o any) any {
	if l, ok := o.([]any); ok && len(l) == 2 {
		if l[0] == "val" || l[0] == "none" {
			return l
		}
	}
	return []any{"bad", -9}
}

func flatList(o any) any {
	l, ok := o.([]any)
	if !ok {
		return []any{[]any{[]any{-9}, -9}}
	}
	out := []any{}
	for _, e := range l {
		p, _ := e.([]any)
		if len(p) != 2 {
			out = append(out, []any{[]any{-9}, -9})
			continue
		}
		k, ok := p[0].([]any)
		if !ok {
			k = []any{-9}
		}
		v := -9
		switch x := p[1].(type) {
		case int:
			v = x
		case float64:
			v = int(x)
		}
		out = append(out, []any{k, v})
	}
	return out
}

func recordKV(env *core.Env, emit func(map[string]any)) (*core.Summary, error) {
	sum := &core.Summary{Counters: map[string]int{}}
	n := env.OptInt("n", 20)
	depth := env.OptInt("depth", 80)
	r := rand.New(rand.NewSource(env.Seed*31 + 5))
	d := newDrv().(*drv)
	env.Opts["spec"] = "kvdb"
	for t := 0; t < n; t++ {
		b := &core.Behaviour{ID: fmt.Sprintf("rec-kv-%d-%d", env.Seed, t), Steps: []core.Step{{"op": "x", "key": []any{float64(2)}}}}
		if err := d.Reset(env, b); err != nil {
			return nil, err
		}
		k := d.cur.(*kvSub)
		emit(map[string]any{"ev": "Reset"})
		hot := hotKeys(r, 6+r.Intn(10))
		pick := func() []any {
			if r.Intn(5) == 0 {
				return randKey(r, 1, 3)
			}
			return hot[r.Intn(len(hot))]
		}
		bound := func() []any {
			switch r.Intn(6) {
			case 0:
				return []any{}
			case 1:
				return randKey(r, 1, 2)
			}
			h := hot[r.Intn(len(hot))]
			return h[:1+r.Intn(len(h))]
		}
		var open core.Step
		positioned := false
		walk, nontriv := 0, false
		var evs []any
		for i := 0; i < depth; i++ {
			var st core.Step
			x := r.Intn(100)
			mkSeek := func() core.Step {
				t := pick()
				return core.Step{"op": "Seek", "key": t, "inrange": inRange(open, ints(t))}
			}
			switch {
			case open == nil && (x < 35 || i < 10):
				st = core.Step{"op": "Set", "key": pick(), "val": float64(r.Intn(4))}
			case open == nil && x < 45:
				st = core.Step{"op": "Delete", "key": pick()}
			case open == nil && x < 60:
				var ops []any
				for j := 1 + r.Intn(4); j > 0; j-- {
					if r.Intn(3) == 0 {
						ops = append(ops, map[string]any{"t": "del", "k": pick(), "v": float64(-1)})
						nontriv = true
					} else {
						ops = append(ops, map[string]any{"t": "set", "k": pick(), "v": float64(r.Intn(4))})
					}
				}
				st = core.Step{"op": "Batch", "ops": ops}
			case open == nil && x < 70:
				st = core.Step{"op": "Get", "key": pick()}
			case open == nil:
				mode := []string{"prefix", "range", "open", "prefix"}[r.Intn(4)]
				end := []any{}
				if mode == "range" {
					end = randKey(r, 1, 2)
					if r.Intn(2) == 0 {
						end = pick()
					}
				}
				st = core.Step{"op": "ItOpen", "start": bound(), "end": end, "mode": mode, "rev": r.Intn(2) == 0}
			case positioned && x < 60:
				st = core.Step{"op": "Next"}
			case positioned && x < 75:
				st = mkSeek()
			case positioned && x < 80:
				st = core.Step{"op": "Rewind"}
			case !positioned && x < 35:
				st = core.Step{"op": "Rewind"}
			case !positioned && x < 70:
				st = mkSeek()
			case x < 85:
				st = core.Step{"op": "Get", "key": pick()}
			default:
				st = core.Step{"op": "ItClose"}
			}
			ret, _, err := k.apply(st)
			if err != nil {
				return nil, err
			}
			var ev map[string]any
			switch st.Op() {
			case "ItOpen":
				open, positioned, walk = st, false, 0
				ev = emitStep(emit, st, ret)
			case "ItClose":
				open, positioned = nil, false
				ev = emitStep(emit, st, ret)
			case "Rewind", "Next", "Seek":
				if st.Op() == "Seek" && !st.Bool("inrange") {
					positioned = false
					ev = emitStep(emit, st, []any{false, []any{}, -1})
					break
				}
				f := flatObs(ret)
				positioned = f.([]any)[0] == true
				if positioned {
					walk++
					if walk >= 2 && (len(open.List("start")) > 0 || open.Str("mode") == "range") {
						nontriv = true
					}
				} else {
					walk = 0
				}
				ev = emitStep(emit, st, f)
			case "Get":
				ev = emitStep(emit, st, flatGet(ret))
			default:
				ev = emitStep(emit, st, ret)
			}
			sum.Steps++
			if len(evs) < 14 {
				evs = append(evs, ev)
			}
		}
		if open != nil {
			st := core.Step{"op": "ItClose"}
			ret, _, _ := k.apply(st)
			emitStep(emit, st, ret)
		}
		{
			st := core.Step{"op": "Get", "key": pick()}
			ret, _, _ := k.apply(st)
			emitStep(emit, st, flatGet(ret))
		}
		d.Close()
		sum.Behaviours++
		if nontriv {
			sum.NonTrivial++
		}
		if len(sum.Samples) < 2 {
			sum.Samples = append(sum.Samples, map[string]any{"trace_prefix": evs, "db": k.kind, "concretisation": k.c.table()})
		}
	}
	return sum, nil
}

func recordListing(env *core.Env, emit func(map[string]any)) (*core.Summary, error) {
	sum := &core.Summary{Counters: map[string]int{}}
	n := env.OptInt("n", 20)
	nl := env.OptInt("layers", 1)
	nputs := env.OptInt("puts", 30)
	r := rand.New(rand.NewSource(env.Seed*37 + int64(nl)))
	d := newDrv().(*drv)
	env.Opts["spec"] = "listing"
	encs := []string{"val", "kv", "key"}
	for t := 0; t < n; t++ {
		lay := make([]any, nl)
		for i := range lay {
			lay[i] = []any{}
		}
		b := &core.Behaviour{ID: fmt.Sprintf("rec-ls-%d-%d", env.Seed, t), Steps: []core.Step{{"op": "Load", "layers": lay, "key": []any{float64(2)}}}}
		if err := d.Reset(env, b); err != nil {
			return nil, err
		}
		ls := d.cur.(*listSub)
		emit(map[string]any{"ev": "Reset"})
		st := core.Step{"op": "Load", "layers": lay}
		ret, _, err := ls.apply(st)
		if err != nil {
			return nil, err
		}
		var evs []any
		evs = append(evs, emitStep(emit, st, ret))
		hot := hotKeys(r, 8+r.Intn(16))
		tomb := false
		for i := 0; i < nputs; i++ {
			layer := 1 + r.Intn(nl)
			v := layer
			if r.Intn(4) == 0 {
				v = 0
				tomb = true
			}
			key := hot[r.Intn(len(hot))]
			if r.Intn(6) == 0 {
				key = randKey(r, 1, 3)
			}
			st := core.Step{"op": "Put", "layer": float64(layer), "key": key, "val": float64(v)}
			ret, _, err := ls.apply(st)
			if err != nil {
				return nil, err
			}
			ev := emitStep(emit, st, ret)
			if len(evs) < 6 {
				evs = append(evs, ev)
			}
		}
		multi := false
		for p := 0; p < env.OptInt("lists", 6); p++ {
			var prefix []any
			switch r.Intn(5) {
			case 0:
				prefix = []any{}
			case 1:
				prefix = randKey(r, 1, 2)
			default:
				h := hot[r.Intn(len(hot))]
				prefix = h[:1+r.Intn(len(h))]
				if len(prefix) > 1 && r.Intn(2) == 0 {
					prefix = prefix[:1]
				}
			}
			rev := r.Intn(2) == 0
			count := 1 + r.Intn(4)
			enc := encs[r.Intn(3)]
			key := []any{}
			pages := 0
			for guard := 0; guard < 200; guard++ {
				st := core.Step{"op": "List", "prefix": prefix, "key": key, "count": float64(count), "rev": rev, "enc": enc}
				ret, _, err := ls.apply(st)
				if err != nil {
					return nil, err
				}
				f := flatList(ret).([]any)
				ev := emitStep(emit, st, f)
				if len(evs) < 16 {
					evs = append(evs, ev)
				}
				sum.Steps++
				if len(f) == 0 {
					break
				}
				pages++
				key = f[len(f)-1].([]any)[0].([]any)
				if len(key) == 1 && core.ToInt(key[0]) == -9 {
					break // anomaly already logged; TLC rejects this event
				}
			}
			if pages >= 2 {
				multi = true
			}
			st := core.Step{"op": "PrefixCount", "prefix": prefix}
			ret, _, err := ls.apply(st)
			if err != nil {
				return nil, err
			}
			ev := emitStep(emit, st, ret)
			if len(evs) < 16 {
				evs = append(evs, ev)
			}
		}
		d.Close()
		sum.Behaviours++
		if multi && tomb {
			sum.NonTrivial++
		}
		if len(sum.Samples) < 2 {
			sum.Samples = append(sum.Samples, map[string]any{"trace_prefix": evs, "bind": ls.bind, "concretisation": ls.c.table()})
		}
	}
	return sum, nil
}

func recordLocalDB(env *core.Env, emit func(map[string]any)) (*core.Summary, error) {
	sum := &core.Summary{Counters: map[string]int{}}
	n := env.OptInt("n", 20)
	depth := env.OptInt("depth", 80)
	r := rand.New(rand.NewSource(env.Seed*41 + 3))
	d := newDrv().(*drv)
	env.Opts["spec"] = "localdb"
	encs := []string{"val", "kv", "key"}
	for t := 0; t < n; t++ {
		b := &core.Behaviour{ID: fmt.Sprintf("rec-ldb-%d-%d", env.Seed, t), Steps: []core.Step{{"op": "x", "key": []any{float64(2)}}}}
		if err := d.Reset(env, b); err != nil {
			return nil, err
		}
		ld := d.cur.(*ldbSub)
		emit(map[string]any{"ev": "Reset"})
		hot := hotKeys(r, 6+r.Intn(10))
		// pre-populated base: sorted, unique keys
		seen := map[string]bool{}
		var base []any
		for i := 0; i < len(hot); i++ {
			if r.Intn(2) == 0 && !seen[core.J(hot[i])] {
				seen[core.J(hot[i])] = true
				base = append(base, []any{hot[i], float64(3)})
			}
		}
		if base == nil {
			base = []any{}
		}
		st := core.Step{"op": "Load", "base": base}
		ret, _, err := ld.apply(st)
		if err != nil {
			return nil, err
		}
		var evs []any
		evs = append(evs, emitStep(emit, st, ret))
		lower := map[string]bool{}
		for k := range seen {
			lower[k] = true
		}
		intx, shadow, nontriv := false, false, false
		txk := map[string]bool{}
		// the recorder's own bookkeeping of the layers, only used to pick continuation keys a
		// client could hold (keys the listing currently shows) and to classify the trace
		type mv struct {
			k []any
			v int
		}
		baseM, cacheM, txM := map[string]mv{}, map[string]mv{}, map[string]mv{}
		for _, e := range base {
			p := e.([]any)
			baseM[core.J(p[0])] = mv{p[0].([]any), 3}
		}
		live := func(prefix []any) [][]any {
			var out [][]any
			seenK := map[string]bool{}
			layers := []map[string]mv{cacheM, baseM}
			if intx {
				layers = []map[string]mv{txM, cacheM, baseM}
			}
			for _, m := range layers {
				for id, e := range m {
					if seenK[id] {
						continue
					}
					seenK[id] = true
					if e.v > 0 && hasPrefixInts(ints(e.k), ints(prefix)) {
						out = append(out, e.k)
					}
				}
			}
			sort.Slice(out, func(i, j int) bool { return lexCmp(ints(out[i]), ints(out[j])) < 0 })
			return out
		}
		for i := 0; i < depth; i++ {
			var st core.Step
			key := hot[r.Intn(len(hot))]
			if r.Intn(8) == 0 {
				key = randKey(r, 1, 3)
			}
			x := r.Intn(100)
			switch {
			case x < 8 && !intx:
				st = core.Step{"op": "Begin"}
			case x < 14 && intx:
				st = core.Step{"op": "Commit"}
			case x < 20 && intx:
				st = core.Step{"op": "Rollback"}
			case x < 50:
				st = core.Step{"op": "Set", "key": key, "val": float64(r.Intn(3))}
			case x < 70:
				st = core.Step{"op": "Get", "key": key}
			case x < 92:
				prefix := []any{}
				if r.Intn(3) > 0 {
					prefix = key[:1+r.Intn(len(key))]
					if r.Intn(2) == 0 {
						prefix = prefix[:1]
					}
				}
				cont := []any{}
				if lv := live(prefix); len(lv) > 0 && r.Intn(3) > 0 {
					cont = lv[r.Intn(len(lv))]
				}
				st = core.Step{"op": "List", "prefix": prefix, "key": cont, "count": float64(1 + r.Intn(4)), "rev": r.Intn(2) == 0, "enc": encs[r.Intn(3)]}
			default:
				prefix := []any{}
				if r.Intn(3) > 0 {
					prefix = key[:1]
				}
				st = core.Step{"op": "PrefixCount", "prefix": prefix}
			}
			ret, _, err := ld.apply(st)
			if err != nil {
				return nil, err
			}
			switch st.Op() {
			case "Get":
				ret = flatGet(ret)
			case "List":
				ret = flatList(ret)
			case "Begin":
				intx, shadow, txk = true, false, map[string]bool{}
				txM = map[string]mv{}
			case "Set":
				id := core.J(st["key"])
				e := mv{st["key"].([]any), st.Int("val")}
				if intx {
					txk[id] = true
					txM[id] = e
					if lower[id] {
						shadow = true
					}
				} else {
					lower[id] = true
					cacheM[id] = e
				}
			case "Commit", "Rollback":
				if shadow {
					nontriv = true
				}
				if st.Op() == "Commit" {
					for k := range txk {
						lower[k] = true
					}
					for id, e := range txM {
						cacheM[id] = e
					}
				}
				txM = map[string]mv{}
				intx = false
			}
			ev := emitStep(emit, st, ret)
			sum.Steps++
			if len(evs) < 14 {
				evs = append(evs, ev)
			}
		}
		{
			st := core.Step{"op": "Get", "key": hot[r.Intn(len(hot))]}
			ret, _, _ := ld.apply(st)
			emitStep(emit, st, flatGet(ret))
		}
		d.Close()
		sum.Behaviours++
		if nontriv {
			sum.NonTrivial++
		}
		if len(sum.Samples) < 2 {
			sum.Samples = append(sum.Samples, map[string]any{"trace_prefix": evs, "db": ld.kind, "concretisation": ld.c.table()})
		}
	}
	return sum, nil
}
