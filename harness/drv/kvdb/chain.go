package main

import (
	"fmt"
	"sync"

	"github.com/33cn/chain33/client"
	dbm "github.com/33cn/chain33/common/db"
	clog "github.com/33cn/chain33/common/log"
	_ "github.com/33cn/chain33/system"
	"github.com/33cn/chain33/types"
	"github.com/33cn/chain33/util/testnode"
)

// chainRig: one real node per process; the LocalDB is reached through the blockchain
// module's EventLocalNew/Begin/Set/Get/List/Commit/Rollback/Close handlers
// (blockchain/localdb.go) via the queue client API, the base database is the blockchain's
// own database (BlockChain.GetDB()). There is no handler for a transaction-scoped
// PrefixCount (EventLocalPrefixCount ignores the transaction id), so PrefixCount steps are
// not replayed through this binding.
type chainRig struct {
	mock *testnode.Chain33Mock
	api  client.QueueProtocolAPI
	db   dbm.DB
	mu   sync.Mutex
	n    int
}

var (
	rigMu  sync.Mutex
	theRig *chainRig
)

func getChainRig() (*chainRig, error) {
	rigMu.Lock()
	defer rigMu.Unlock()
	if theRig != nil {
		return theRig, nil
	}
	clog.SetLogLevel("crit")
	cfg := types.NewChain33Config(types.GetDefaultCfgstring())
	cfg.GetModuleConfig().Consensus.Minerstart = false
	mock := testnode.NewWithConfig(cfg, nil)
	if mock == nil {
		return nil, fmt.Errorf("testnode did not start")
	}
	clog.SetLogLevel("crit")
	if err := mock.WaitHeightTimeout(0, 60); err != nil {
		mock.Close()
		return nil, fmt.Errorf("no genesis block: %v", err)
	}
	theRig = &chainRig{mock: mock, api: mock.GetAPI(), db: mock.GetBlockChain().GetDB()}
	return theRig, nil
}

func closeChainRig() {
	rigMu.Lock()
	defer rigMu.Unlock()
	if theRig != nil {
		theRig.mock.Close()
		theRig = nil
	}
}

func (r *chainRig) next() int {
	r.mu.Lock()
	defer r.mu.Unlock()
	r.n++
	return r.n
}

// chainLocal is one LocalDB object held by the blockchain module, addressed by its id.
type chainLocal struct {
	r  *chainRig
	id *types.Int64
}

func (r *chainRig) newLocal() (*chainLocal, error) {
	id, err := r.api.LocalNew(false)
	if err != nil {
		return nil, err
	}
	return &chainLocal{r: r, id: id}, nil
}

func (c *chainLocal) closeTx() { c.r.api.LocalClose(c.id) }

func (c *chainLocal) Get(key []byte) ([]byte, error) {
	rep, err := c.r.api.LocalGet(&types.LocalDBGet{Txid: c.id.Data, Keys: [][]byte{key}})
	if err != nil {
		return nil, err
	}
	if len(rep.Values) != 1 {
		return nil, fmt.Errorf("LocalGet returned %d values for 1 key", len(rep.Values))
	}
	if rep.Values[0] == nil {
		return nil, types.ErrNotFound
	}
	return rep.Values[0], nil
}

func (c *chainLocal) Set(key, value []byte) error {
	return c.r.api.LocalSet(&types.LocalDBSet{Txid: c.id.Data, KV: []*types.KeyValue{{Key: key, Value: value}}})
}

func (c *chainLocal) Begin() {
	if err := c.r.api.LocalBegin(c.id); err != nil {
		panic("LocalBegin: " + err.Error())
	}
}
func (c *chainLocal) Commit() error { return c.r.api.LocalCommit(c.id) }
func (c *chainLocal) Rollback() {
	if err := c.r.api.LocalRollback(c.id); err != nil {
		panic("LocalRollback: " + err.Error())
	}
}

func (c *chainLocal) List(prefix, key []byte, count, direction int32) ([][]byte, error) {
	rep, err := c.r.api.LocalList(&types.LocalDBList{Txid: c.id.Data, Prefix: prefix, Key: key, Count: count, Direction: direction})
	if err != nil {
		return nil, err
	}
	return rep.Values, nil
}

func (c *chainLocal) PrefixCount(prefix []byte) int64 {
	panic("PrefixCount is not reachable through the blockchain handlers with a transaction id")
}
