package main

import (
	"fmt"

	"verif/harness/core"
)

type listSub struct{ st *stores }

func (l *listSub) reset(env *core.Env, b *core.Behaviour) error { return fmt.Errorf("not built") }
func (l *listSub) apply(s core.Step) (any, any, error)           { return nil, nil, fmt.Errorf("not built") }
func (l *listSub) close()                                         {}
func (l *listSub) nonTrivial(env *core.Env, b *core.Behaviour) bool { return false }
func (l *listSub) signature(b *core.Behaviour, idx int, field string, exp, obs any) string {
	return ""
}

type ldbSub struct{ st *stores }

func (l *ldbSub) reset(env *core.Env, b *core.Behaviour) error { return fmt.Errorf("not built") }
func (l *ldbSub) apply(s core.Step) (any, any, error)           { return nil, nil, fmt.Errorf("not built") }
func (l *ldbSub) close()                                         {}
func (l *ldbSub) nonTrivial(env *core.Env, b *core.Behaviour) bool { return false }
func (l *ldbSub) signature(b *core.Behaviour, idx int, field string, exp, obs any) string {
	return ""
}

func recordKV(env *core.Env, emit func(map[string]any)) (*core.Summary, error) {
	return nil, fmt.Errorf("not built")
}
func recordListing(env *core.Env, emit func(map[string]any)) (*core.Summary, error) {
	return nil, fmt.Errorf("not built")
}
func recordLocalDB(env *core.Env, emit func(map[string]any)) (*core.Summary, error) {
	return nil, fmt.Errorf("not built")
}
