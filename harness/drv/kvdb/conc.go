package main

import (
	"bytes"
	"encoding/hex"
	"fmt"
	"math/rand"
	"os"
	"path/filepath"
	"strconv"
	"strings"
	"sync"

	dbm "github.com/33cn/chain33/common/db"
	"github.com/33cn/chain33/types"
	"verif/harness/core"
)

// ----------------------------------------------------------------------------------
// Order-preserving concretisation (DESIGN 2.4).
//
// A model key is a short sequence over a tiny byte alphabet {0,1,2,...,255}. The
// concrete key is  P ++ f(b1) f(b2) ...  where P is a common lead-in drawn from a hostile
// pool (0xff runs, 0x00, text) and f maps model bytes to concrete bytes monotonically:
// f(x) = lo + x for the small bytes (adjacent, so that "prefix upper bound = next key"
// situations of the model are the same situations concretely) and f(255) = 0xff.
// bytes.Compare order, the prefix relation and "is all 0xff after position i" are
// preserved exactly. For Badger (property: keys and bounds without 0xff) f(255) and P
// avoid 0xff/0xfe; the model's answers do not depend on the byte values, only on order
// and prefix relation, so they remain the expected ones.
type conc struct {
	lead []byte
	lo   byte
	ff   byte
	nilS bool // concretise an empty bound as nil (else empty non-nil slice) when lead is empty
}

var leadPool = [][]byte{
	nil, []byte("a"), {0x00}, {0xff}, {0xff, 0xff}, []byte("k\xff"), []byte("mavl-x-\xff\xfe"), {0x00, 0x00},
	[]byte("LODB-"), {0xfe}, []byte("FFFFFFFFempty"),
}
var leadPoolNoFF = [][]byte{
	nil, []byte("a"), {0x00}, []byte("k\xfd"), []byte("LODB-"), {0x00, 0x00}, []byte("mavl-x-"), []byte("FFFFFFFFempty"),
}
var loPool = []byte{0x00, 0x01, '-', '.', 'a', 0x7f, 0x80, 0xf0}

func strHash(s string) int64 {
	h := int64(1469598103934665603 & 0x7fffffffffffffff)
	for _, c := range s {
		h = (h*1099511 + int64(c)) & 0x7fffffffffffffff
	}
	return h
}

// newConc derives the concretisation from seed, behaviour id, salt; noFF for Badger.
func newConc(env *core.Env, id string, noFF bool, maxSmall int) *conc {
	r := rand.New(rand.NewSource(env.Seed*1000003 + strHash(id) + int64(env.OptInt("salt", 0))*7919))
	c := &conc{}
	if noFF {
		c.lead = leadPoolNoFF[r.Intn(len(leadPoolNoFF))]
	} else {
		c.lead = leadPool[r.Intn(len(leadPool))]
	}
	c.lo = loPool[r.Intn(len(loPool))]
	if r.Intn(4) == 0 {
		// small bytes directly below the top byte
		if noFF {
			c.lo = byte(0xfc - maxSmall)
		} else {
			c.lo = byte(0xfe - maxSmall)
		}
	}
	if noFF {
		c.ff = 0xfd
		if r.Intn(2) == 0 && int(c.lo)+maxSmall+1 < 0xfd {
			c.ff = byte(int(c.lo) + maxSmall + 1 + r.Intn(0xfd-int(c.lo)-maxSmall-1))
		}
	} else {
		c.ff = 0xff
	}
	c.nilS = r.Intn(2) == 0
	return c
}

func (c *conc) table() map[string]any {
	return map[string]any{"lead": hex.EncodeToString(c.lead), "lo": int(c.lo), "ff": int(c.ff)}
}

func ints(v any) []int {
	l, _ := v.([]any)
	out := make([]int, 0, len(l))
	for _, x := range l {
		out = append(out, core.ToInt(x))
	}
	return out
}

// key concretises a non-empty model key.
func (c *conc) key(m []int) []byte {
	out := append([]byte{}, c.lead...)
	for _, x := range m {
		if x == 255 {
			out = append(out, c.ff)
		} else {
			out = append(out, c.lo+byte(x))
		}
	}
	return out
}

// bound concretises a bound / prefix (the empty model string is the common lead-in).
func (c *conc) bound(m []int) []byte {
	if len(m) == 0 && len(c.lead) == 0 {
		if c.nilS {
			return nil
		}
		return []byte{}
	}
	return c.key(m)
}

// abs is the inverse of key; ok=false if b is not the image of a model key.
func (c *conc) abs(b []byte) ([]any, bool) {
	if !bytes.HasPrefix(b, c.lead) {
		return nil, false
	}
	out := []any{}
	for _, x := range b[len(c.lead):] {
		switch {
		case x == c.ff:
			out = append(out, 255)
		case x >= c.lo && int(x-c.lo) < 250 && x < c.ff:
			out = append(out, int(x-c.lo))
		default:
			return nil, false
		}
	}
	return out, true
}

// value concretises model value v for concrete key k: 0 is the empty value, others carry
// the key they were written under so that a value surfacing under another key is noticed.
func value(k []byte, v int, gen int) []byte {
	if v == 0 {
		if gen%2 == 0 {
			return nil
		}
		return []byte{}
	}
	pad := strings.Repeat(string(rune('A'+(v*7+len(k))%26)), (len(k)*7+v*13+gen*5)%60)
	return []byte("v" + strconv.Itoa(v) + "|" + hex.EncodeToString(k) + "|" + strconv.Itoa(gen) + "|" + pad)
}

// decodeValue returns (v, key, gen, ok).
func decodeValue(b []byte) (int, []byte, int, bool) {
	if len(b) == 0 {
		return 0, nil, 0, true
	}
	p := strings.SplitN(string(b), "|", 4)
	if len(p) != 4 || !strings.HasPrefix(p[0], "v") {
		return 0, nil, 0, false
	}
	v, err := strconv.Atoi(p[0][1:])
	if err != nil {
		return 0, nil, 0, false
	}
	k, err := hex.DecodeString(p[1])
	if err != nil {
		return 0, nil, 0, false
	}
	g, _ := strconv.Atoi(p[2])
	return v, k, g, true
}

// ----------------------------------------------------------------------------------
// real databases, reused across behaviours (opening Badger / LevelDB per behaviour would
// dominate the run); wiped and checked empty before each behaviour.

var (
	tmpMu   sync.Mutex
	tmpDirs []string
)

func tmpBase() string {
	if wd, err := os.Getwd(); err == nil && strings.HasPrefix(filepath.Base(wd), "verif-") {
		return wd // the check's scratch directory, removed by bin/check
	}
	return ""
}

func newTmp() (string, error) {
	d, err := os.MkdirTemp(tmpBase(), "vh-kvdb-")
	if err == nil {
		tmpMu.Lock()
		tmpDirs = append(tmpDirs, d)
		tmpMu.Unlock()
	}
	return d, err
}

func cleanupTmp() {
	tmpMu.Lock()
	defer tmpMu.Unlock()
	for _, d := range tmpDirs {
		os.RemoveAll(d)
	}
	tmpDirs = nil
}

type store struct {
	kind string
	db   dbm.DB
	dir  string
	uses int
}

func openStore(kind string) (*store, error) {
	s := &store{kind: kind}
	var err error
	switch kind {
	case "mem":
		s.db, err = dbm.NewGoMemDB("kv", "", 0)
	case "leveldb":
		if s.dir, err = newTmp(); err != nil {
			return nil, err
		}
		s.db, err = dbm.NewGoLevelDB("kv", s.dir, 4)
	case "badger":
		if s.dir, err = newTmp(); err != nil {
			return nil, err
		}
		s.db, err = dbm.NewGoBadgerDB("kv", s.dir, 128)
	default:
		err = fmt.Errorf("unknown db kind %q", kind)
	}
	if err != nil {
		return nil, err
	}
	return s, nil
}

func (s *store) close() {
	if s.db != nil {
		s.db.Close()
		s.db = nil
	}
	if s.dir != "" {
		os.RemoveAll(s.dir)
	}
}

func isNotFound(err error) bool {
	return err == types.ErrNotFound || (err != nil && strings.Contains(strings.ToLower(err.Error()), "not found"))
}

// fresh returns a store of the kind that is empty: memdb is recreated, the disk backends
// are wiped through their own API and verified empty (harness precondition, not a verdict).
func (s *store) wipe(written [][]byte) error {
	for _, k := range written {
		if err := s.db.Delete(k); err != nil && !isNotFound(err) {
			return fmt.Errorf("wipe %s: %v", s.kind, err)
		}
	}
	it := s.db.Iterator(nil, types.EmptyValue, false)
	defer it.Close()
	if it.Rewind(); it.Valid() {
		return fmt.Errorf("wipe %s: database not empty after wipe (key %x)", s.kind, it.Key())
	}
	return nil
}

// pool of stores per driver instance
type stores struct {
	m       map[string]*store
	written map[string][][]byte
}

func (p *stores) get(kind string, slot string) (dbm.DB, error) {
	if p.m == nil {
		p.m = map[string]*store{}
		p.written = map[string][][]byte{}
	}
	id := kind + "/" + slot
	if kind == "mem" {
		if s := p.m[id]; s != nil {
			s.close()
		}
		s, err := openStore(kind)
		if err != nil {
			return nil, err
		}
		p.m[id] = s
		return s.db, nil
	}
	s := p.m[id]
	if s != nil && s.uses >= 300 {
		s.close()
		s = nil
	}
	if s == nil {
		var err error
		if s, err = openStore(kind); err != nil {
			return nil, err
		}
		p.m[id] = s
		p.written[id] = nil
	}
	if err := s.wipe(p.written[id]); err != nil {
		return nil, err
	}
	p.written[id] = nil
	s.uses++
	return s.db, nil
}

// note records a key written into a reused store so that the next behaviour can wipe it.
func (p *stores) note(kind, slot string, k []byte) {
	if kind == "mem" {
		return
	}
	id := kind + "/" + slot
	p.written[id] = append(p.written[id], append([]byte{}, k...))
}

func (p *stores) closeAll() {
	for _, s := range p.m {
		s.close()
	}
	p.m = nil
}
