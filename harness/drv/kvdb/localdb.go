package main

import (
	"fmt"

	dbm "github.com/33cn/chain33/common/db"
	"verif/harness/core"
)

// kvdbAPI is the surface of the layered local database the specification LocalDB (C08)
// talks about; implemented by db.NewLocalDB directly and by the blockchain's EventLocal*
// handlers (chain.go).
type kvdbAPI interface {
	lister
	Get(key []byte) ([]byte, error)
	Set(key, value []byte) error
	Begin()
	Commit() error
	Rollback()
}

// ldbSub binds specification LocalDB to db.NewLocalDB(base, false): --opt db=mem|leveldb|badger
// selects the base database; --opt proj=1 compares the whole projection (every Get, both
// complete listings, the count) after every state-changing call.
type ldbSub struct {
	st   *stores
	env  *core.Env
	kind string
	base dbm.DB
	api  kvdbAPI
	c    *conc
	lc   listCore
	gen  int
	proj bool
	bind string
	node *chainRig
}

func (l *ldbSub) reset(env *core.Env, b *core.Behaviour) error {
	l.env = env
	l.kind = env.Opt("db", "mem")
	l.bind = env.Opt("bind", "direct")
	l.proj = env.Opt("proj", "0") == "1"
	l.c = newConc(env, b.ID, l.kind == "badger", maxSmallByte(b))
	l.api = nil
	l.gen = 0
	if l.bind == "chain" {
		// the blockchain's database holds other records: every model key lives under a
		// lead-in no chain33 record uses, unique per behaviour
		rig, err := getChainRig()
		if err != nil {
			return err
		}
		l.node = rig
		l.c.lead = append([]byte(fmt.Sprintf("VERIF-C08-%d-", rig.next())), l.c.lead...)
		l.base = rig.db
	} else {
		db, err := l.st.get(l.kind, "ldb")
		if err != nil {
			return err
		}
		l.base = db
	}
	l.lc = listCore{c: l.c}
	if b.Meta == nil {
		b.Meta = map[string]any{}
	}
	b.Meta["concretisation"] = l.c.table()
	b.Meta["db"] = l.kind
	b.Meta["bind"] = l.bind
	return nil
}

func (l *ldbSub) close() {
	if l.bind == "chain" && l.api != nil {
		if c, ok := l.api.(*chainLocal); ok {
			c.closeTx()
		}
		l.api = nil
	}
}

func (l *ldbSub) get(mk []int) any {
	key := l.c.key(mk)
	v, err := l.api.Get(key)
	if err != nil {
		if isNotFound(err) {
			return []any{"none", -1}
		}
		return []any{"err", err.Error()}
	}
	mv, vk, _, ok := decodeValue(v)
	switch {
	case !ok:
		return []any{"garbage", string(v)}
	case mv == 0:
		return []any{"empty-value", -1}
	case string(vk) != string(key):
		return []any{"other", l.lc.absKey(vk)}
	}
	return []any{"val", mv}
}

func (l *ldbSub) projection(s core.Step) any {
	if !l.proj {
		return nil
	}
	exp, _ := s["chk"].(map[string]any)
	if exp == nil {
		return nil
	}
	gets := []any{}
	for _, e := range exp["gets"].([]any) {
		p, _ := e.([]any)
		if len(p) == 2 {
			gets = append(gets, []any{p[0], l.get(ints(p[0]))})
		}
	}
	full := func(rev bool) any {
		return l.lc.list(core.Step{"prefix": []any{}, "key": []any{}, "count": 100000, "rev": rev, "enc": "all"})
	}
	var cnt any = -1
	if l.bind != "chain" {
		cnt = l.lc.count(core.Step{"prefix": []any{}})
	}
	return map[string]any{"gets": gets, "list": full(false), "rlist": full(true), "count": cnt}
}

func (l *ldbSub) apply(s core.Step) (any, any, error) {
	if s.Op() != "Load" && l.api == nil {
		return nil, nil, fmt.Errorf("localdb: %s before Load", s.Op())
	}
	switch s.Op() {
	case "Load":
		for _, e := range s.List("base") {
			p, _ := e.([]any)
			if len(p) != 2 {
				continue
			}
			key := l.c.key(ints(p[0]))
			l.gen++
			if l.bind != "chain" {
				l.st.note(l.kind, "ldb", key)
			}
			if err := l.base.Set(key, value(key, core.ToInt(p[1]), l.gen)); err != nil {
				return nil, nil, err
			}
		}
		if l.bind == "chain" {
			api, err := l.node.newLocal()
			if err != nil {
				return nil, nil, err
			}
			l.api = api
		} else {
			l.api = dbm.NewLocalDB(l.base, false)
		}
		l.lc.l = l.api
		return "ok", l.projection(s), nil
	case "Begin":
		l.api.Begin()
		return "ok", l.projection(s), nil
	case "Commit":
		if err := l.api.Commit(); err != nil {
			return "err:" + err.Error(), l.projection(s), nil
		}
		return "ok", l.projection(s), nil
	case "Rollback":
		l.api.Rollback()
		return "ok", l.projection(s), nil
	case "Set":
		key := l.c.key(ints(s["key"]))
		l.gen++
		if err := l.api.Set(key, value(key, s.Int("val"), l.gen)); err != nil {
			return "err:" + err.Error(), l.projection(s), nil
		}
		return "ok", l.projection(s), nil
	case "Get":
		return l.get(ints(s["key"])), nil, nil
	case "List":
		return l.lc.list(s), nil, nil
	case "PrefixCount":
		return l.lc.count(s), nil, nil
	}
	return nil, nil, fmt.Errorf("localdb: unknown op %q", s.Op())
}

// nonTrivial (C08): a key written inside an open transaction that a lower layer (overlay or
// base) also holds, followed by Commit or Rollback.
func (l *ldbSub) nonTrivial(env *core.Env, b *core.Behaviour) bool {
	lower := map[string]bool{}
	intx := false
	shadow := false
	txKeys := map[string]bool{}
	for _, s := range b.Steps {
		switch s.Op() {
		case "Load":
			for _, e := range s.List("base") {
				if p, _ := e.([]any); len(p) == 2 {
					lower[core.J(p[0])] = true
				}
			}
		case "Begin":
			intx, shadow, txKeys = true, false, map[string]bool{}
		case "Set":
			k := core.J(s["key"])
			if intx {
				txKeys[k] = true
				if lower[k] {
					shadow = true
				}
			} else {
				lower[k] = true
			}
		case "Commit", "Rollback":
			if intx && shadow {
				return true
			}
			if s.Op() == "Commit" {
				for k := range txKeys {
					lower[k] = true
				}
			}
			intx = false
		}
	}
	return false
}

func getClass(v any) string {
	if l, ok := v.([]any); ok && len(l) > 0 {
		if l[0] == "val" && len(l) == 2 {
			return fmt.Sprintf("val%v", l[1])
		}
		return fmt.Sprint(l[0])
	}
	return obsClass(v)
}

func (l *ldbSub) signature(b *core.Behaviour, idx int, field string, exp, obs any) string {
	s := b.Steps[idx]
	intx := false
	for _, p := range b.Steps[:idx+1] {
		switch p.Op() {
		case "Begin":
			intx = true
		case "Commit", "Rollback":
			intx = false
		}
	}
	ctx := "no-tx"
	if intx {
		ctx = "in-tx"
	}
	head := fmt.Sprintf("localdb|%s|%s|%s|%s", l.bind, l.kind, s.Op(), ctx)
	if field == "chk" {
		e, _ := exp.(map[string]any)
		o, _ := obs.(map[string]any)
		if e != nil && o != nil {
			eg, _ := e["gets"].([]any)
			og, _ := o["gets"].([]any)
			for i := range eg {
				if i < len(og) && !core.Match(eg[i], og[i]) {
					ep, _ := eg[i].([]any)
					op, _ := og[i].([]any)
					if len(ep) == 2 && len(op) == 2 {
						return fmt.Sprintf("%s|after:get|exp=%s|got=%s", head, getClass(ep[1]), getClass(op[1]))
					}
				}
			}
			for _, f := range []string{"list", "rlist"} {
				if !core.Match(e[f], o[f]) {
					return fmt.Sprintf("%s|after:%s|%s", head, f, listDiff(nil, e[f], o[f]))
				}
			}
			if !core.Match(e["count"], o["count"]) {
				return fmt.Sprintf("%s|after:count|exp=%v|got=%v", head, e["count"], o["count"])
			}
		}
		return head + "|after:?"
	}
	switch s.Op() {
	case "Get":
		return fmt.Sprintf("%s|exp=%s|got=%s", head, getClass(exp), getClass(obs))
	case "List":
		return fmt.Sprintf("%s|%s", head, listDiff(ints(s["prefix"]), exp, obs))
	case "PrefixCount":
		return fmt.Sprintf("%s|exp=%v|got=%v", head, exp, obs)
	}
	return fmt.Sprintf("%s|%s|exp=%s|got=%s", head, field, obsClass(exp), obsClass(obs))
}
