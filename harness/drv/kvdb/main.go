// Driver for the KVDB family: common/db key-value backends (C06), paged listing through
// ListHelper / merged iterators / LocalDB (C07) and LocalDB transaction semantics (C08).
// The specification a behaviour belongs to is selected with --opt spec=kvdb|listing|localdb.
package main

import (
	"fmt"
	"sync"

	"verif/harness/core"
)

// sub is the per-specification part of the driver.
type sub interface {
	reset(env *core.Env, b *core.Behaviour) error
	apply(s core.Step) (any, any, error)
	close()
	nonTrivial(env *core.Env, b *core.Behaviour) bool
	signature(b *core.Behaviour, idx int, field string, exp, obs any) string
}

type drv struct {
	env    *core.Env
	stores stores
	subs   map[string]sub
	cur    sub
}

var (
	allMu   sync.Mutex
	allDrvs []*drv
)

func newDrv() core.Driver {
	d := &drv{subs: map[string]sub{}}
	allMu.Lock()
	allDrvs = append(allDrvs, d)
	allMu.Unlock()
	return d
}

func (d *drv) pick(env *core.Env) (sub, error) {
	name := env.Opt("spec", "kvdb")
	if s, ok := d.subs[name]; ok {
		return s, nil
	}
	var s sub
	switch name {
	case "kvdb":
		s = &kvSub{st: &d.stores}
	case "listing":
		s = &listSub{st: &d.stores}
	case "localdb":
		s = &ldbSub{st: &d.stores}
	default:
		return nil, fmt.Errorf("unknown spec %q", name)
	}
	d.subs[name] = s
	return s, nil
}

func (d *drv) Reset(env *core.Env, b *core.Behaviour) error {
	d.env = env
	s, err := d.pick(env)
	if err != nil {
		return err
	}
	d.cur = s
	return s.reset(env, b)
}

func (d *drv) Apply(s core.Step) (any, any, error) { return d.cur.apply(s) }

func (d *drv) Close() {
	if d.cur != nil {
		d.cur.close()
	}
}

func (d *drv) NonTrivial(env *core.Env, b *core.Behaviour) bool {
	s, err := d.pick(env)
	if err != nil {
		return false
	}
	return s.nonTrivial(env, b)
}

func (d *drv) Signature(b *core.Behaviour, idx int, field string, exp, obs any) string {
	if d.cur == nil {
		return ""
	}
	return d.cur.signature(b, idx, field, exp, obs)
}

func main() {
	defer func() {
		allMu.Lock()
		for _, d := range allDrvs {
			d.stores.closeAll()
		}
		allMu.Unlock()
		closeChainRig()
		cleanupTmp()
	}()
	core.Main(&core.Family{
		Name:      "kvdb",
		NewDriver: newDrv,
		Recorders: map[string]core.Recorder{
			"kvdb":    recordKV,
			"listing": recordListing,
			"localdb": recordLocalDB,
		},
	})
}
