package main

import (
	"bytes"
	"encoding/hex"
	"fmt"
	"math/rand"
	"sort"
	"strings"

	dbm "github.com/33cn/chain33/common/db"
	"github.com/33cn/chain33/types"
	"verif/harness/core"
)

// lister is what ListHelper, KVDBList and LocalDB offer.
type lister interface {
	List(prefix, key []byte, count, direction int32) ([][]byte, error)
	PrefixCount(prefix []byte) int64
}

type helperLister struct{ h *dbm.ListHelper }

func (h helperLister) List(prefix, key []byte, count, direction int32) ([][]byte, error) {
	return h.h.List(prefix, key, count, direction), nil
}
func (h helperLister) PrefixCount(prefix []byte) int64 { return h.h.PrefixCount(prefix) }

// listCore holds what List/PrefixCount steps need, shared by the Listing and LocalDB bindings.
type listCore struct {
	c   *conc
	l   lister
	cur map[string][]byte // concrete key -> concrete value the merged view must show (top layer), for stale detection
}

func dirFlags(rev bool, enc string) int32 {
	d := dbm.ListASC
	if rev {
		d = dbm.ListDESC
	}
	switch enc {
	case "kv":
		d |= dbm.ListWithKey
	case "key":
		d |= dbm.ListKeyOnly
	}
	return d
}

func (lc *listCore) absKey(k []byte) any {
	if a, ok := lc.c.abs(k); ok {
		return a
	}
	return "raw:" + hex.EncodeToString(k)
}

// listOne issues one real List call in one encoding and decodes it to [[key, value-id], ...].
func (lc *listCore) listOne(prefix, key []byte, count int, rev bool, enc string) any {
	vals, err := lc.l.List(prefix, key, int32(count), dirFlags(rev, enc))
	if err != nil && !isNotFound(err) {
		return "err:" + err.Error()
	}
	out := []any{}
	for _, it := range vals {
		switch enc {
		case "val":
			v, vk, _, ok := decodeValue(it)
			if !ok || v == 0 {
				out = append(out, []any{"garbage-or-empty:" + hex.EncodeToString(it), -1})
				continue
			}
			out = append(out, []any{lc.absKey(vk), v})
		case "kv":
			var kv types.KeyValue
			if err := types.Decode(it, &kv); err != nil {
				out = append(out, []any{"undecodable", -1})
				continue
			}
			v, vk, _, ok := decodeValue(kv.Value)
			if !ok || v == 0 {
				out = append(out, []any{lc.absKey(kv.Key), "garbage-or-empty"})
				continue
			}
			if !bytes.Equal(vk, kv.Key) {
				out = append(out, []any{lc.absKey(kv.Key), []any{"value-of", lc.absKey(vk)}})
				continue
			}
			out = append(out, []any{lc.absKey(kv.Key), v})
		case "key":
			out = append(out, []any{lc.absKey(it), -1})
		}
	}
	return out
}

// list answers a List step; enc "all" issues the request in the three encodings and merges.
func (lc *listCore) list(s core.Step) any {
	prefix := lc.c.bound(ints(s["prefix"]))
	var key []byte
	if mk := ints(s["key"]); len(mk) > 0 {
		key = lc.c.key(mk)
	}
	count := s.Int("count")
	rev := s.Bool("rev")
	enc := s.Str("enc")
	if enc != "all" {
		return lc.listOne(prefix, key, count, rev, enc)
	}
	a := lc.listOne(prefix, key, count, rev, "val")
	b := lc.listOne(prefix, key, count, rev, "kv")
	c := lc.listOne(prefix, key, count, rev, "key")
	al, aok := a.([]any)
	bl, bok := b.([]any)
	cl, cok := c.([]any)
	same := aok && bok && cok && len(al) == len(bl) && len(bl) == len(cl)
	if same {
		for i := range al {
			x, y, z := al[i].([]any), bl[i].([]any), cl[i].([]any)
			// an entry whose value is empty cannot name its key in the values-only encoding
			emptyBoth := core.J(y[1]) == `"garbage-or-empty"` && len(x) == 2 && core.J(x[1]) == "-1"
			if (core.J(x) != core.J(y) && !emptyBoth) || core.J(y[0]) != core.J(z[0]) {
				same = false
				break
			}
		}
	}
	if same {
		return bl
	}
	return map[string]any{"encodings-disagree": true, "val": a, "kv": b, "key": c}
}

func (lc *listCore) count(s core.Step) any {
	return int(lc.l.PrefixCount(lc.c.bound(ints(s["prefix"]))))
}

// ----------------------------------------------------------------------------------
// Listing (C07)

type listSub struct {
	st     *stores
	env    *core.Env
	bind   string
	kinds  []string
	dbs    []dbm.DB
	ldb    dbm.KVDB
	lc     listCore
	c      *conc
	nl     int
	gen    int
	pend   []pendPut // localdb binding: writes buffered until the first query
	mater  bool
	rnd    *rand.Rand
	prefix []int
}

type pendPut struct {
	layer int
	key   []byte
	val   []byte
}

func layerKinds(env *core.Env, n int) []string {
	k := env.Opt("db", "mem")
	out := make([]string, n)
	for i := range out {
		out[i] = k
		if k == "mix" {
			out[i] = []string{"mem", "leveldb", "mem"}[i%3]
			if i == n-1 {
				out[i] = "leveldb"
			}
		}
	}
	return out
}

func (l *listSub) reset(env *core.Env, b *core.Behaviour) error {
	l.env = env
	l.bind = env.Opt("bind", "helper")
	l.nl = 1
	for _, s := range b.Steps {
		if s.Op() == "Load" {
			l.nl = len(s.List("layers"))
		}
	}
	l.kinds = layerKinds(env, l.nl)
	noFF := false
	for _, k := range l.kinds {
		if k == "badger" {
			noFF = true
		}
	}
	l.c = newConc(env, b.ID, noFF, maxSmallByte(b))
	l.rnd = rand.New(rand.NewSource(env.Seed*7 + strHash(b.ID)))
	l.dbs = nil
	for i, k := range l.kinds {
		if l.bind == "localdb" && i < l.nl-1 {
			l.dbs = append(l.dbs, nil) // overlay layers live inside the LocalDB
			continue
		}
		db, err := l.st.get(k, fmt.Sprintf("list%d", i))
		if err != nil {
			return err
		}
		l.dbs = append(l.dbs, db)
	}
	l.pend = nil
	l.mater = false
	l.ldb = nil
	l.gen = 0
	l.lc = listCore{c: l.c}
	switch l.bind {
	case "helper":
		if l.nl != 1 {
			return fmt.Errorf("bind=helper needs 1 layer, behaviour has %d", l.nl)
		}
		l.lc.l = helperLister{dbm.NewListHelper(l.dbs[0])}
	case "kvdblist":
		if l.nl != 1 {
			return fmt.Errorf("bind=kvdblist needs 1 layer")
		}
		l.lc.l = dbm.NewKVDB(l.dbs[0])
	case "merged":
		its := make([]dbm.IteratorDB, len(l.dbs))
		for i, d := range l.dbs {
			its[i] = d
		}
		l.lc.l = helperLister{dbm.NewListHelper(dbm.NewMergedIteratorDB(its))}
	case "localdb":
		if l.nl != 2 && l.nl != 3 {
			return fmt.Errorf("bind=localdb needs 2 or 3 layers")
		}
	default:
		return fmt.Errorf("unknown bind %q", l.bind)
	}
	if b.Meta == nil {
		b.Meta = map[string]any{}
	}
	b.Meta["concretisation"] = l.c.table()
	b.Meta["bind"] = l.bind
	b.Meta["layers"] = strings.Join(l.kinds, "+")
	return nil
}

func (l *listSub) close() {}

func (l *listSub) put(layer int, mk []int, v int) error {
	key := l.c.key(mk)
	l.gen++
	val := value(key, v, l.gen)
	if l.bind == "localdb" {
		l.pend = append(l.pend, pendPut{layer, key, val})
		return nil
	}
	l.st.note(l.kinds[layer-1], fmt.Sprintf("list%d", layer-1), key)
	return l.dbs[layer-1].Set(key, val)
}

// materialise (localdb binding): base writes go to the main database, overlay writes through
// LocalDB.Set outside a transaction, top-layer writes through Begin + Set.
func (l *listSub) materialise() error {
	if l.bind != "localdb" || l.mater {
		return nil
	}
	l.mater = true
	base := l.dbs[l.nl-1]
	for _, p := range l.pend {
		if p.layer == l.nl {
			l.st.note(l.kinds[l.nl-1], fmt.Sprintf("list%d", l.nl-1), p.key)
			if err := base.Set(p.key, p.val); err != nil {
				return err
			}
		}
	}
	l.ldb = dbm.NewLocalDB(base, false)
	for _, p := range l.pend {
		if p.layer == l.nl-1 {
			if err := l.ldb.Set(p.key, p.val); err != nil {
				return err
			}
		}
	}
	if l.nl == 3 {
		l.ldb.Begin()
		for _, p := range l.pend {
			if p.layer == 1 {
				if err := l.ldb.Set(p.key, p.val); err != nil {
					return err
				}
			}
		}
	}
	l.lc.l = l.ldb
	return nil
}

func (l *listSub) apply(s core.Step) (any, any, error) {
	switch s.Op() {
	case "Load":
		type ent struct {
			layer int
			k     []int
			v     int
		}
		var all []ent
		for li, lay := range s.List("layers") {
			es, _ := lay.([]any)
			for _, e := range es {
				p, _ := e.([]any)
				if len(p) == 2 {
					all = append(all, ent{li + 1, ints(p[0]), core.ToInt(p[1])})
				}
			}
		}
		l.rnd.Shuffle(len(all), func(i, j int) { all[i], all[j] = all[j], all[i] })
		for _, e := range all {
			if err := l.put(e.layer, e.k, e.v); err != nil {
				return nil, nil, err
			}
		}
		return "ok", nil, nil
	case "Put":
		if l.mater {
			return nil, nil, fmt.Errorf("Put after the first query is not supported by bind=localdb")
		}
		if err := l.put(s.Int("layer"), ints(s["key"]), s.Int("val")); err != nil {
			return nil, nil, err
		}
		return "ok", nil, nil
	case "List":
		if err := l.materialise(); err != nil {
			return nil, nil, err
		}
		l.prefix = ints(s["prefix"])
		return l.lc.list(s), nil, nil
	case "PrefixCount":
		if err := l.materialise(); err != nil {
			return nil, nil, err
		}
		return l.lc.count(s), nil, nil
	}
	return nil, nil, fmt.Errorf("listing: unknown op %q", s.Op())
}

// nonTrivial (C07): a pagination of >= 2 non-empty pages over a content that has a deleted
// marker or a key at the prefix edge (equal to the prefix, or to its upper bound).
func (l *listSub) nonTrivial(env *core.Env, b *core.Behaviour) bool {
	tomb := false
	keys := map[string]bool{}
	note := func(k any, v int) {
		keys[core.J(k)] = true
		if v == 0 {
			tomb = true
		}
	}
	pages := 0
	for _, s := range b.Steps {
		switch s.Op() {
		case "Load":
			for _, lay := range s.List("layers") {
				es, _ := lay.([]any)
				for _, e := range es {
					if p, _ := e.([]any); len(p) == 2 {
						note(p[0], core.ToInt(p[1]))
					}
				}
			}
		case "Put":
			note(s["key"], s.Int("val"))
		case "List":
			if len(s.List("key")) == 0 {
				pages = 0
			}
			if len(s.List("ret")) > 0 {
				pages++
			}
			if pages >= 2 {
				p := ints(s["prefix"])
				edge := keys[core.J(s["prefix"])]
				if ub := ubModel(p); ub != nil && keys[core.J(ub)] {
					edge = true
				}
				if tomb || edge {
					return true
				}
			}
		}
	}
	return false
}

// ubModel: prefix upper bound on model keys (nil: none).
func ubModel(p []int) []int {
	for i := len(p) - 1; i >= 0; i-- {
		if p[i] < 255 {
			out := append([]int{}, p[:i+1]...)
			out[i]++
			return out
		}
	}
	return nil
}

func toIntsAny(v any) ([]int, bool) {
	l, ok := v.([]any)
	if !ok {
		return nil, false
	}
	return ints(l), true
}

func hasPrefixInts(k, p []int) bool {
	if len(p) > len(k) {
		return false
	}
	for i := range p {
		if k[i] != p[i] {
			return false
		}
	}
	return true
}

// listDiff classifies the first difference between the expected and the observed page.
func listDiff(prefix []int, exp, obs any) string {
	e, _ := exp.([]any)
	o, ok := obs.([]any)
	if !ok {
		if m, _ := obs.(map[string]any); m != nil && m["encodings-disagree"] == true {
			return "encodings-disagree"
		}
		return "reply=" + obsClass(obs)
	}
	expKeys := map[string]bool{}
	for _, x := range e {
		if p, _ := x.([]any); len(p) == 2 {
			expKeys[core.J(p[0])] = true
		}
	}
	for i := 0; i < len(o); i++ {
		op, _ := o[i].([]any)
		if len(op) != 2 {
			return "malformed-entry"
		}
		if i < len(e) && core.Match(e[i], o[i]) {
			continue
		}
		if !expKeys[core.J(op[0])] {
			k, isKey := toIntsAny(op[0])
			switch {
			case !isKey:
				return "extra-entry:not-a-key-of-the-universe"
			case !hasPrefixInts(k, prefix):
				if ub := ubModel(prefix); ub != nil && core.J(ub) == core.J(k) {
					return "extra-entry:key=prefix-upper-bound"
				}
				return "extra-entry:outside-prefix"
			}
			if core.J(op[1]) == `"garbage-or-empty"` {
				return "extra-entry:deleted-marker-listed"
			}
			return "extra-entry:inside-prefix(hidden,before-continuation-key-or-beyond-count)"
		}
		if i < len(e) {
			ep, _ := e[i].([]any)
			if len(ep) == 2 && core.J(ep[0]) == core.J(op[0]) {
				return fmt.Sprintf("wrong-value:exp=%v,got=%v", ep[1], valOrClass(op[1]))
			}
		}
		return "order-or-duplicate"
	}
	if len(o) < len(e) {
		if len(o) == 0 {
			return "missing-entries:empty-page"
		}
		return "missing-entries"
	}
	return "other"
}

func valOrClass(v any) string {
	if f, ok := v.(float64); ok {
		return fmt.Sprint(int(f))
	}
	return obsClass(v)
}

func (l *listSub) signature(b *core.Behaviour, idx int, field string, exp, obs any) string {
	s := b.Steps[idx]
	head := fmt.Sprintf("listing|%s|%s|%s", l.bind, strings.Join(uniq(l.kinds), "+"), s.Op())
	switch s.Op() {
	case "List":
		dir := "fwd"
		if s.Bool("rev") {
			dir = "rev"
		}
		first := "first-page"
		if len(s.List("key")) > 0 {
			first = "continued"
		}
		return fmt.Sprintf("%s|%s,%s|%s", head, dir, first, listDiff(ints(s["prefix"]), exp, obs))
	case "PrefixCount":
		e, o := core.ToInt(exp), core.ToInt(obs)
		c := "less"
		if o > e {
			c = "more"
		}
		return fmt.Sprintf("%s|count-%s", head, c)
	}
	return fmt.Sprintf("%s|%s|exp=%s|got=%s", head, field, obsClass(exp), obsClass(obs))
}

func uniq(in []string) []string {
	m := map[string]bool{}
	var out []string
	for _, x := range in {
		if !m[x] {
			m[x] = true
			out = append(out, x)
		}
	}
	sort.Strings(out)
	return out
}
