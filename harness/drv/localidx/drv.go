package main

import (
	"bytes"
	"encoding/json"
	"fmt"
	"os"
	"sort"
	"strings"
	"sync"
	"time"

	"github.com/33cn/chain33/common"
	"github.com/33cn/chain33/types"
	"github.com/33cn/chain33/util/testnode"
	"verif/harness/core"
	"verif/harness/drv/chain/rig"
)

// drv replays one LocalIdx behaviour: blocks described by the model are manufactured by the
// factory, added to a real node with every local-index plugin enabled, and removed again by a REAL
// reorganisation onto a heavier sibling block (Swap) or, on a node configured as a para chain, by
// ProcessBlock(addBlock=false) (Del). After every step the node's query results are compared with
// the model's, and - the property itself - with those of a fresh node that only ever saw the
// blocks of the final chain.
//
// options: mvcc=1 (enable the kvmvcc plugin), ref=each|end (when the fresh-node comparison is made).
type drv struct {
	env  *core.Env
	n    *rig.Node
	na   int
	para bool
	base *snapshot // query results right after the trunk

	pendD  []desc
	pendTx []*types.Transaction
	chain  []*cblock // blocks above the trunk
	allTx  []txRec   // every transaction ever put into a block of this behaviour
	refAt  string
}

type cblock struct {
	blk   *types.Block
	descs []desc
	exp   int // work exponent
}

type txRec struct {
	hash []byte
	d    desc
}

func newDriver() core.Driver { return &drv{} }

func nodeOpts(para, mvcc bool) rig.Opts {
	return rig.Opts{RecordSeq: false, Miner: false, Mutate: func(cfg *types.Chain33Config) {
		m := cfg.GetModuleConfig()
		m.Exec.EnableAddrFeeIndex = true
		m.Exec.EnableStat = true
		m.Exec.EnableMVCC = mvcc
		m.Exec.DisableAddrIndex = false
		m.Exec.DisableTxIndex = false
		m.Exec.DisableFeeIndex = false
		m.BlockChain.IsParaChain = para
	}}
}

var startMu sync.Mutex

// startNode starts a receiver and feeds it the trunk. A node configured as a para chain never
// leaves the start-up download mode (its sync routine is not started), which rig.Start waits for:
// it is started here the same way without that wait (blocks are handed to ProcessBlock directly,
// which does not look at the mode).
func startNode(para, mvcc bool) (*rig.Node, error) {
	var n *rig.Node
	var err error
	startMu.Lock()
	if !para {
		n, err = rig.Start(nodeOpts(para, mvcc))
	} else {
		o := nodeOpts(para, mvcc)
		cfg := rig.Config(o)
		mock := testnode.NewWithConfig(cfg, nil)
		if mock == nil {
			err = fmt.Errorf("para-chain testnode did not start")
		} else {
			n = &rig.Node{Mock: mock, Chain: mock.GetBlockChain(), Cfg: cfg, Opts: o}
			deadline := time.Now().Add(120 * time.Second)
			for n.Chain.GetBlockHeight() < 0 {
				if time.Now().After(deadline) {
					n.Close()
					n, err = nil, fmt.Errorf("para-chain node has no genesis block")
					break
				}
				time.Sleep(2 * time.Millisecond)
			}
		}
	}
	startMu.Unlock()
	if err != nil {
		return nil, err
	}
	for h := 1; h <= trunkH; h++ {
		r := n.Deliver(w.trunk[h], false, "trunk")
		if r.Err != nil || !r.Main {
			n.Close()
			return nil, fmt.Errorf("trunk block %d not connected: main=%v err=%v", h, r.Main, r.Err)
		}
	}
	return n, nil
}

func (d *drv) Reset(env *core.Env, b *core.Behaviour) error {
	d.env = env
	d.refAt = env.Opt("ref", "each")
	d.pendD, d.pendTx, d.chain, d.allTx, d.base = nil, nil, nil, nil, nil
	d.na, d.para = 3, false
	if len(b.Steps) > 0 && b.Steps[0].Op() == "Cfg" {
		d.na = b.Steps[0].Int("na")
		d.para = b.Steps[0].Bool("para")
	}
	if d.na > maxAddr {
		return fmt.Errorf("at most %d addresses", maxAddr)
	}
	if err := w.init(env.Seed); err != nil {
		return err
	}
	n, err := startNode(d.para, env.Opt("mvcc", "0") == "1")
	if err != nil {
		return err
	}
	d.n = n
	d.base, err = d.snap(n)
	if err != nil {
		n.Close()
		return err
	}
	return nil
}

func (d *drv) Close() {
	if d.n != nil {
		d.n.Close()
		d.n = nil
	}
}

func (d *drv) tip() *types.Block {
	if len(d.chain) == 0 {
		return w.trunk[trunkH]
	}
	return d.chain[len(d.chain)-1].blk
}

func wantOf(ds []desc) []int32 {
	out := make([]int32, len(ds))
	for i, x := range ds {
		switch x.K {
		case "pay", "g1", "g2":
			out[i] = types.ExecOk
			if x.F == x.T { // the account layer refuses a transfer to oneself
				out[i] = types.ExecPack
			}
		default:
			out[i] = types.ExecPack
		}
	}
	return out
}

func (d *drv) Apply(s core.Step) (any, any, error) {
	switch s.Op() {
	case "Cfg":
		return nil, nil, nil
	case "Put":
		raw, _ := json.Marshal(s["txs"])
		var ds []desc
		if err := json.Unmarshal(raw, &ds); err != nil {
			return nil, nil, err
		}
		txs, err := w.concretise(ds, d.na)
		if err != nil {
			return nil, nil, err
		}
		d.pendD = append(d.pendD, ds...)
		d.pendTx = append(d.pendTx, txs...)
		for i, tx := range txs {
			d.allTx = append(d.allTx, txRec{hash: tx.Hash(), d: ds[i]})
		}
		return nil, nil, nil
	case "Add", "Swap":
		k := 0
		if s.Op() == "Swap" {
			k = s.Int("k")
		}
		if k > len(d.chain) || len(d.pendTx) == 0 {
			return nil, nil, fmt.Errorf("%s(%d) with %d blocks above the trunk and %d pending transactions", s.Op(), k, len(d.chain), len(d.pendTx))
		}
		base := d.chain[:len(d.chain)-k]
		parent := w.trunk[trunkH]
		if len(base) > 0 {
			parent = base[len(base)-1].blk
		}
		exp := 0
		for _, c := range d.chain[len(d.chain)-k:] {
			if c.exp+2 > exp {
				exp = c.exp + 2 // 2^(e+2) outweighs two blocks of at most 2^e each
			}
		}
		if exp > 14 {
			return nil, nil, fmt.Errorf("too many reorganisations on one height for the difficulty encoding")
		}
		blk, err := w.makeBlock(parent, d.pendTx, wantOf(d.pendD), workBits(exp))
		if err != nil {
			return nil, nil, err
		}
		r := d.n.Deliver(blk, false, "peer-1")
		if os.Getenv("VERIF_LOCALIDX_DEBUG") != "" {
			fmt.Fprintf(os.Stderr, "%s k=%d txs=%v -> main=%v err=%v\n", s.Op(), k, d.pendD, r.Main, r.Err)
		}
		if r.Err != nil {
			return nil, nil, fmt.Errorf("valid block refused: %v", r.Err)
		}
		removed := d.chain[len(d.chain)-k:]
		d.chain = append(append([]*cblock{}, base...), &cblock{blk: blk, descs: d.pendD, exp: exp})
		d.pendD, d.pendTx = nil, nil
		return d.observe(removed)
	case "Del":
		if !d.para || len(d.chain) == 0 {
			return nil, nil, fmt.Errorf("Del needs a para-chain node and a block above the trunk")
		}
		top := d.chain[len(d.chain)-1]
		det, err := d.n.Chain.GetBlock(top.blk.Height)
		if err != nil {
			return nil, nil, err
		}
		cp := types.Clone(det).(*types.BlockDetail)
		_, _, _, err = d.n.Chain.ProcessBlock(false, cp, "self", false, -1)
		if err != nil {
			return nil, nil, fmt.Errorf("para-chain style removal refused: %v", err)
		}
		removed := []*cblock{top}
		d.chain = d.chain[:len(d.chain)-1]
		return d.observe(removed)
	}
	return nil, nil, fmt.Errorf("unknown op %q", s.Op())
}

// ---------------------------------------------------------------------------------
// queries

// snapshot is every local query result of interest, keyed by a stable query name.
type snapshot struct {
	q    map[string]string
	rows []row // per model address
	totF int64
	totN int64
}

type row struct {
	cnt, all, from, to, recv, nfee, fee int64
}

func (d *drv) addrs() []string {
	var out []string
	for i := 1; i <= d.na+2; i++ {
		out = append(out, w.addrOf(i, d.na))
	}
	return out
}

func (d *drv) snap(n *rig.Node) (*snapshot, error) {
	s := &snapshot{q: map[string]string{}}
	api := n.Mock.GetAPI()
	tipHash, height, err := n.Tip()
	if err != nil {
		return nil, err
	}
	for i, a := range d.addrs() {
		name := fmt.Sprintf("A%d", i+1)
		var r row
		ov, err := n.Chain.ProcGetAddrOverview(&types.ReqAddr{Addr: a})
		if err != nil {
			return nil, fmt.Errorf("GetAddrOverview(%s): %v", name, err)
		}
		r.cnt, r.recv = ov.TxCount, ov.Reciver
		s.q["count/"+name] = fmt.Sprint(ov.TxCount)
		s.q["received/"+name] = fmt.Sprint(ov.Reciver)
		for flag, fname := range map[int32]string{0: "all", 1: "from", 2: "to"} {
			for _, dir := range []int32{0, 1} {
				rep, err := n.Chain.ProcGetTransactionByAddr(&types.ReqAddr{Addr: a, Flag: flag, Count: 500, Direction: dir, Height: -1})
				var items []string
				if err == nil {
					for _, x := range rep.TxInfos {
						items = append(items, fmt.Sprintf("%d.%d:%s", x.Height, x.Index, common.ToHex(x.Hash)[:14]))
					}
				} else if !strings.Contains(err.Error(), "does not exist") && err != types.ErrNotFound && !strings.Contains(err.Error(), "NotFound") {
					return nil, fmt.Errorf("GetTransactionByAddr(%s,%s): %v", name, fname, err)
				}
				s.q[fmt.Sprintf("list-%s-%d/%s", fname, dir, name)] = strings.Join(items, ",")
				if dir == 0 {
					switch flag {
					case 0:
						r.all = int64(len(items))
					case 1:
						r.from = int64(len(items))
					case 2:
						r.to = int64(len(items))
					}
				}
			}
		}
		fl, err := api.Query("coins", "GetTxsFeeByAddr", &types.ReqAddr{Addr: a, Count: 500, Direction: 0, Height: -1})
		var fitems []string
		if err == nil {
			for _, x := range fl.(*types.AddrTxFeeInfos).TxInfos {
				fitems = append(fitems, fmt.Sprintf("%d.%d:%s:fee=%d:st=%d:%s>%s:%s", x.Height, x.Index, x.TxHash[:14], x.Fee, x.TxStatus, short(x.FromAddr), short(x.ToAddr), x.Exec))
				r.nfee++
				r.fee += x.Fee
			}
		} else if !strings.Contains(err.Error(), "does not exist") && err != types.ErrNotFound && !strings.Contains(err.Error(), "NotFound") {
			return nil, fmt.Errorf("GetTxsFeeByAddr(%s): %v", name, err)
		}
		s.q["fee-list/"+name] = strings.Join(fitems, ",")
		s.rows = append(s.rows, r)
	}
	// fee totals: at every height of the best chain, by the hash of its block
	for h := int64(0); h <= height; h++ {
		hash, err := n.HashAt(h)
		if err != nil {
			return nil, err
		}
		f, cnt, ok, err := totalFee(n, hash)
		if err != nil {
			return nil, err
		}
		s.q[fmt.Sprintf("total-fee/h%d", h)] = fmt.Sprintf("%v:%d:%d", ok, f, cnt)
		if bytes.Equal(hash, tipHash) {
			s.totF, s.totN = f, cnt
		}
	}
	return s, nil
}

func short(a string) string {
	if len(a) > 8 {
		return a[:8]
	}
	return a
}

func totalFee(n *rig.Node, hash []byte) (int64, int64, bool, error) {
	rep, err := n.Mock.GetAPI().LocalGet(&types.LocalDBGet{Keys: [][]byte{types.TotalFeeKey(hash)}})
	if err != nil {
		return 0, 0, false, fmt.Errorf("LocalGet(TotalFeeKey): %v", err)
	}
	if len(rep.Values) != 1 || len(rep.Values[0]) == 0 {
		return 0, 0, false, nil
	}
	var f types.TotalFee
	if err := types.Decode(rep.Values[0], &f); err != nil {
		return 0, 0, false, err
	}
	return f.Fee, f.TxCount, true, nil
}

// lookups adds the by-hash queries for every transaction and block this behaviour ever made, and
// returns "ok" or what is wrong with them on the node (found iff on the best chain, right position).
func (d *drv) lookups(n *rig.Node, s *snapshot, removed []*cblock) string {
	on := map[string][2]int64{}
	for _, c := range d.chain {
		for i, tx := range c.blk.Txs {
			on[string(tx.Hash())] = [2]int64{c.blk.Height, int64(i)}
		}
	}
	bad := ""
	_, height, _ := n.Tip()
	for i, t := range d.allTx {
		det, err := n.Chain.ProcQueryTxMsg(t.hash)
		found := err == nil && det != nil
		pos, want := on[string(t.hash)]
		v := "absent"
		if found {
			v = fmt.Sprintf("%d.%d:ty=%d", det.Height, det.Index, det.GetReceipt().GetTy())
		}
		dl, err := n.Chain.GetDuplicateTxHashList(&types.TxHashList{Hashes: [][]byte{t.hash}, Expire: []int64{0}, Count: height + 1})
		has := err == nil && len(dl.Hashes) > 0
		s.q[fmt.Sprintf("tx/%03d-%s", i, t.d.K)] = fmt.Sprintf("%s:has=%v", v, has)
		switch {
		case bad != "":
		case want && !found:
			bad = "on-chain-transaction-not-found|tx=" + t.d.K
		case want && (det.Height != pos[0] || det.Index != pos[1]):
			bad = "transaction-at-wrong-position|tx=" + t.d.K
		case !want && found:
			bad = "removed-transaction-still-found|tx=" + t.d.K
		case want != has:
			bad = fmt.Sprintf("HasTx=%v-but-on-chain=%v|tx=%s", has, want, t.d.K)
		}
	}
	for _, c := range removed {
		_, _, ok, err := totalFee(n, c.blk.Hash(n.Cfg))
		if err == nil && ok && bad == "" {
			bad = "fee-total-of-removed-block-still-stored"
		}
	}
	if bad == "" {
		return "ok"
	}
	return bad
}

func rowJSON(r, b row) map[string]any {
	return map[string]any{"cnt": r.cnt - b.cnt, "all": r.all - b.all, "from": r.from - b.from, "to": r.to - b.to,
		"recv": (r.recv - b.recv) / amtUnit, "nfee": r.nfee - b.nfee, "fee": (r.fee - b.fee) / feeUnit}
}

// observe reads the node after a block event and makes the fresh-node comparison.
func (d *drv) observe(removed []*cblock) (any, any, error) {
	s, err := d.snap(d.n)
	if err != nil {
		return nil, nil, err
	}
	lookup := d.lookups(d.n, s, removed)
	rows := make([]any, len(s.rows))
	for i := range s.rows {
		if (s.rows[i].recv-d.base.rows[i].recv)%amtUnit != 0 {
			// a received amount that is no multiple of the model's unit can only be the oversized amount of a failed transfer
			rows[i] = map[string]any{"cnt": s.rows[i].cnt - d.base.rows[i].cnt, "recv": fmt.Sprintf("raw:%d", s.rows[i].recv-d.base.rows[i].recv)}
			continue
		}
		rows[i] = rowJSON(s.rows[i], d.base.rows[i])
	}
	ntx := 0
	for _, c := range d.chain {
		ntx += len(c.blk.Txs)
	}
	chk := map[string]any{"rows": rows, "totfee": (s.totF - d.base.totF) / feeUnit, "totn": s.totN - d.base.totN,
		"ntx": ntx, "len": len(d.chain), "lookup": lookup, "undo": "same"}
	if len(removed) > 0 || d.refAt == "each" {
		u, err := d.fresh(s, removed)
		if err != nil {
			return nil, nil, err
		}
		chk["undo"] = u
	}
	return "ok", chk, nil
}

// fresh compares every query result of the node with those of a fresh node that received the
// trunk and the blocks of the current chain only (it never saw a removed block).
func (d *drv) fresh(s *snapshot, removed []*cblock) (string, error) {
	ref, err := startNode(false, d.env.Opt("mvcc", "0") == "1")
	if err != nil {
		return "", err
	}
	defer ref.Close()
	for _, c := range d.chain {
		r := ref.Deliver(c.blk, false, "ref")
		if r.Err != nil || !r.Main {
			return "", fmt.Errorf("reference node refused a block of the chain: main=%v err=%v", r.Main, r.Err)
		}
	}
	rs, err := d.snap(ref)
	if err != nil {
		return "", err
	}
	d.lookups(ref, rs, nil)
	var keys []string
	for k := range s.q {
		keys = append(keys, k)
	}
	for k := range rs.q {
		if _, ok := s.q[k]; !ok {
			keys = append(keys, k)
		}
	}
	sort.Strings(keys)
	for _, k := range keys {
		if s.q[k] != rs.q[k] {
			if os.Getenv("VERIF_LOCALIDX_DEBUG") != "" {
				fmt.Fprintf(os.Stderr, "UNDO differs at %s:\n  node  %s\n  fresh %s\n", k, s.q[k], rs.q[k])
			}
			return "differs|" + d.diffClass(k, removed), nil
		}
	}
	return "same", nil
}

// diffClass names a differing query narrowly: the query, and - for per-address queries - the roles
// the address has in the removed blocks (sender / receiver of which transaction kinds).
func (d *drv) diffClass(key string, removed []*cblock) string {
	q := key
	who := ""
	if i := strings.Index(key, "/"); i > 0 {
		q, who = key[:i], key[i+1:]
	}
	if strings.HasPrefix(q, "list-") {
		q = q[:strings.LastIndex(q, "-")] // direction of the listing is not part of the class
	}
	if strings.HasPrefix(who, "A") {
		idx := 0
		fmt.Sscanf(who[1:], "%d", &idx)
		roles := map[string]bool{}
		for _, c := range removed {
			for _, x := range c.descs {
				if x.F == idx {
					roles["sender-of-"+x.K] = true
				}
				if x.T == idx {
					roles["receiver-of-"+x.K] = true
				}
			}
		}
		var rs []string
		for r := range roles {
			rs = append(rs, r)
		}
		sort.Strings(rs)
		if len(rs) == 0 {
			rs = []string{"not-in-removed-blocks"}
		}
		return "query=" + q + "|address-was=" + strings.Join(rs, "+")
	}
	if q == "tx" {
		return "query=tx-by-hash|tx=" + who[strings.Index(who, "-")+1:]
	}
	return "query=" + q
}

// ---------------------------------------------------------------------------------

// NonTrivial: a removed block in which some address occurs at least twice.
func (d *drv) NonTrivial(env *core.Env, b *core.Behaviour) bool {
	var chain [][]desc
	var pend []desc
	rep := func(blk []desc) bool {
		occ := map[int]int{}
		for _, x := range blk {
			occ[x.F]++
			occ[x.T]++
		}
		for a, c := range occ {
			if a <= maxAddr && c >= 2 {
				return true
			}
		}
		return false
	}
	for _, s := range b.Steps {
		switch s.Op() {
		case "Put":
			raw, _ := json.Marshal(s["txs"])
			var ds []desc
			json.Unmarshal(raw, &ds)
			pend = append(pend, ds...)
		case "Add":
			chain = append(chain, pend)
			pend = nil
		case "Swap", "Del":
			k := 1
			if s.Op() == "Swap" {
				k = s.Int("k")
			}
			if k > len(chain) {
				return false
			}
			for _, blk := range chain[len(chain)-k:] {
				if rep(blk) {
					return true
				}
			}
			chain = chain[:len(chain)-k]
			if s.Op() == "Swap" {
				chain = append(chain, pend)
				pend = nil
			}
		}
	}
	return false
}

func asMap(v any) map[string]any {
	m, _ := v.(map[string]any)
	return m
}

// Signature: a failed restoration is named by the differing query and the shapes involved; other
// disagreements are conformance disagreements named by the first differing field.
func (d *drv) Signature(b *core.Behaviour, idx int, field string, expected, observed any) string {
	s := b.Steps[idx]
	if field == "panic" {
		return fmt.Sprintf("C14|node-panic|%s|%s", s.Op(), clip(fmt.Sprint(observed), 80))
	}
	e, o := asMap(expected), asMap(observed)
	if e == nil || o == nil {
		return ""
	}
	if u := fmt.Sprint(o["undo"]); u != "same" {
		return "C14|not-restored|" + s.Op() + "|" + strings.TrimPrefix(u, "differs|")
	}
	if l := fmt.Sprint(o["lookup"]); l != "ok" {
		return "C14|lookup|" + s.Op() + "|" + l
	}
	for _, k := range []string{"len", "ntx", "totfee", "totn"} {
		if !core.Match(e[k], o[k]) {
			return fmt.Sprintf("conf|%s|%s|exp=%v|got=%v", s.Op(), k, e[k], o[k])
		}
	}
	er, _ := e["rows"].([]any)
	or, _ := o["rows"].([]any)
	for i := range er {
		if i >= len(or) {
			break
		}
		em, om := asMap(er[i]), asMap(or[i])
		for _, k := range []string{"cnt", "all", "from", "to", "recv", "nfee", "fee"} {
			if !core.Match(em[k], om[k]) {
				return fmt.Sprintf("conf|%s|row.%s|exp=%v|got=%v", s.Op(), k, em[k], clip(fmt.Sprint(om[k]), 20))
			}
		}
	}
	return ""
}

func clip(s string, n int) string {
	if len(s) > n {
		return s[:n] + "…"
	}
	return s
}
