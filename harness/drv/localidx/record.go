package main

import (
	"fmt"
	"math/rand"

	"verif/harness/core"
)

// probe tells whether a node configuration can run at all: mvcc (the kvmvcc plugin on a fresh
// node) or para (blockchain.isParaChain, needed for the removal without a replacing block).
// Prints "ok" or the failure; exit code 0 either way (a panic of the node ends the process: exit 2).
func probe(env *core.Env, args []string) int {
	if err := w.init(env.Seed); err != nil {
		fmt.Println("init:", err)
		return 0
	}
	what := "mvcc"
	if len(args) > 0 {
		what = args[0]
	}
	n, err := startNode(what == "para", what == "mvcc")
	if err != nil {
		fmt.Println("start:", err)
		return 0
	}
	n.Close()
	fmt.Println("ok")
	return 0
}

// recordDefault: binding B. Random blocks over 4 addresses with up to 8 transactions (self-transfers,
// repeated senders and receivers, failed transfers, none and manage transactions, groups), added,
// replaced by heavier siblings one or two blocks deep and (para=1) removed without replacement.
//
// options: n (traces), len (block events per trace), maxtx, para (0|1).
func recordDefault(env *core.Env, emit func(map[string]any)) (*core.Summary, error) {
	sum := &core.Summary{Counters: map[string]int{}}
	ntr := env.OptInt("n", 3)
	length := env.OptInt("len", 6)
	maxtx := env.OptInt("maxtx", 8)
	para := env.OptInt("para", 0) == 1
	na := maxAddr
	if err := w.init(env.Seed); err != nil {
		return nil, err
	}
	r := rand.New(rand.NewSource(env.Seed*2671 + int64(env.OptInt("salt", 0))*31 + int64(length)))
	for t := 0; t < ntr; t++ {
		d := &drv{env: env, na: na, para: para, refAt: "each"}
		n, err := startNode(para, false)
		if err != nil {
			return nil, err
		}
		d.n = n
		if d.base, err = d.snap(n); err != nil {
			n.Close()
			return nil, err
		}
		emit(map[string]any{"ev": "Reset", "na": na, "para": para})
		nontrivial := false
		for e := 0; e < length; e++ {
			// a block: a few hot addresses so that repetitions are frequent
			hot := 1 + r.Intn(na)
			pick := func() int {
				if r.Intn(3) > 0 {
					return hot
				}
				return 1 + r.Intn(na)
			}
			var all []any
			k := 1 + r.Intn(maxtx)
			for len(all) < k {
				var ds []desc
				switch x := r.Intn(12); {
				case x < 5:
					ds = []desc{{K: "pay", F: pick(), T: pick(), A: int64(1 + r.Intn(5)), Fee: 1}}
				case x < 7:
					ds = []desc{{K: "fail", F: pick(), T: pick(), A: int64(1 + r.Intn(5)), Fee: 1}}
				case x < 9:
					ds = []desc{{K: "none", F: pick(), T: na + 1, Fee: 1}}
				case x < 10:
					ds = []desc{{K: "mng", F: pick(), T: na + 2, Fee: 1}}
				default:
					f, t2 := pick(), pick()
					for t2 == f {
						t2 = 1 + r.Intn(na)
					}
					ds = []desc{{K: "g1", F: f, T: t2, A: 3, Fee: 2}, {K: "g2", F: t2, T: f, A: 1, Fee: 0}}
				}
				var js []any
				for _, x := range ds {
					js = append(js, map[string]any{"k": x.K, "f": float64(x.F), "t": float64(x.T), "a": float64(x.A), "fee": float64(x.Fee)})
				}
				if _, _, err := d.Apply(core.Step{"op": "Put", "txs": js}); err != nil {
					d.Close()
					return nil, err
				}
				all = append(all, js...)
			}
			s := core.Step{"op": "Add"}
			switch x := r.Intn(10); {
			case x >= 5 && len(d.chain) >= 2 && r.Intn(2) == 0:
				s = core.Step{"op": "Swap", "k": float64(2)}
			case x >= 5 && len(d.chain) >= 1:
				s = core.Step{"op": "Swap", "k": float64(1)}
			}
			if s.Op() == "Swap" {
				nontrivial = true
			}
			_, chk, err := d.Apply(s)
			if err != nil {
				d.Close()
				return nil, fmt.Errorf("trace %d event %d: %v", t, e, err)
			}
			c := chk.(map[string]any)
			ev := map[string]any{"ev": s.Op(), "txs": all}
			if s.Op() == "Swap" {
				ev["k"] = s["k"]
			}
			for k, v := range c {
				ev[k] = v
			}
			emit(ev)
			sum.Steps++
			if para && len(d.chain) >= 1 && r.Intn(3) == 0 {
				_, chk, err := d.Apply(core.Step{"op": "Del"})
				if err != nil {
					d.Close()
					return nil, fmt.Errorf("trace %d event %d (Del): %v", t, e, err)
				}
				ev := map[string]any{"ev": "Del"}
				for k, v := range chk.(map[string]any) {
					ev[k] = v
				}
				emit(ev)
				nontrivial = true
				sum.Steps++
			}
		}
		d.Close()
		sum.Behaviours++
		if nontrivial {
			sum.NonTrivial++
		}
		if len(sum.Samples) < 2 {
			sum.Samples = append(sum.Samples, map[string]any{"trace": t, "block_events": length, "addresses": na, "max_txs_per_block": maxtx, "para": para})
		}
	}
	sum.Distinct = sum.Behaviours
	return sum, nil
}
