package main

import (
	"bytes"
	"fmt"
	"sync"

	"github.com/33cn/chain33/common"
	"github.com/33cn/chain33/common/address"
	"github.com/33cn/chain33/common/crypto"
	"github.com/33cn/chain33/common/merkle"
	cty "github.com/33cn/chain33/system/dapp/coins/types"
	"github.com/33cn/chain33/types"
	"github.com/33cn/chain33/util"
	"verif/harness/drv/chain/rig"
)

// world: the process-wide block factory (Chain family rig), the 12-block trunk that funds the
// model's addresses, and the concretisation of transaction descriptors.
type world struct {
	once  sync.Once
	err   error
	f     *rig.Factory
	trunk []*types.Block
	mu    sync.Mutex
	priv  []crypto.PrivKey
	addr  []string // model address i (1..maxAddr); then the none and manage executor addresses
	nonce int64
}

const (
	trunkH  = 12
	maxAddr = 4
	feeUnit = 100000
	amtUnit = 1000000
	funded  = int64(1e12)
)

var w = &world{}

func (w *world) init(seed int64) error {
	w.once.Do(func() {
		cr, err := crypto.Load(types.GetSignName("", types.SECP256K1), -1)
		if err != nil {
			w.err = err
			return
		}
		w.priv = make([]crypto.PrivKey, maxAddr+1)
		w.addr = make([]string, maxAddr+1)
		for i := 1; i <= maxAddr; i++ {
			k, err := cr.PrivKeyFromBytes(common.Sha256([]byte(fmt.Sprintf("verif-localidx-addr-%d", i))))
			if err != nil {
				w.err = err
				return
			}
			w.priv[i] = k
			w.addr[i] = address.PubKeyToAddr(address.DefaultID, k.PubKey().Bytes())
		}
		f, err := rig.NewFactory(seed)
		if err != nil {
			w.err = err
			return
		}
		w.f = f
		w.nonce = seed<<24 + 11
		g, err := f.N.Genesis()
		if err != nil {
			w.err = err
			return
		}
		bits, _ := rig.WorkBits(1)
		w.trunk = []*types.Block{g}
		parent := g
		for h := 1; h <= trunkH; h++ {
			txs := []*types.Transaction{f.CoinsTx(h, int64(h)*100000)}
			if h == 1 {
				txs = []*types.Transaction{f.FundTx(1e15)}
				for i := 1; i <= maxAddr; i++ {
					txs = append(txs, w.sign(w.coinsTx(w.addr[i], funded), f.Genesis))
				}
			}
			b, err := f.Make(parent, txs, bits)
			if err != nil {
				w.err = err
				return
			}
			w.trunk = append(w.trunk, b)
			parent = b
		}
	})
	return w.err
}

func (w *world) close() {
	if w.f != nil {
		w.f.Close()
	}
}

func (w *world) nextNonce() int64 {
	w.mu.Lock()
	defer w.mu.Unlock()
	w.nonce++
	return w.nonce
}

func (w *world) coinsTx(to string, amount int64) *types.Transaction {
	v := &cty.CoinsAction_Transfer{Transfer: &types.AssetsTransfer{Amount: amount}}
	return &types.Transaction{Execer: []byte("coins"), Payload: types.Encode(&cty.CoinsAction{Value: v, Ty: cty.CoinsActionTransfer}),
		To: to, Fee: feeUnit, Nonce: w.nextNonce(), ChainID: w.f.N.Cfg.GetChainID()}
}

func (w *world) sign(tx *types.Transaction, priv crypto.PrivKey) *types.Transaction {
	tx.Sign(types.SECP256K1, priv)
	return tx
}

// desc is the model's transaction descriptor.
type desc struct {
	K   string `json:"k"`
	F   int    `json:"f"`
	T   int    `json:"t"`
	A   int64  `json:"a"`
	Fee int64  `json:"fee"`
}

// addrOf maps a model address to the real one (na+1: none executor, na+2: manage executor).
func (w *world) addrOf(i, na int) string {
	switch {
	case i >= 1 && i <= na:
		return w.addr[i]
	case i == na+1:
		return address.ExecAddress("none")
	case i == na+2:
		return address.ExecAddress("manage")
	}
	return ""
}

// concretise builds the transactions of a Put step (one descriptor, or the two members of a group).
func (w *world) concretise(ds []desc, na int) ([]*types.Transaction, error) {
	cfg := w.f.N.Cfg
	mk := func(d desc) (*types.Transaction, error) {
		if d.F < 1 || d.F > na || d.F > maxAddr {
			return nil, fmt.Errorf("sender %d out of range", d.F)
		}
		switch d.K {
		case "pay", "g1", "g2":
			return w.coinsTx(w.addrOf(d.T, na), d.A*amtUnit), nil
		case "fail":
			// more than the sender can own: the fee is taken, the transfer is not executed
			return w.coinsTx(w.addrOf(d.T, na), 1e17+d.A*amtUnit), nil
		case "none":
			tx := util.CreateNoneTx(cfg, nil)
			tx.Nonce, tx.Fee, tx.Expire = w.nextNonce(), feeUnit, 0
			return tx, nil
		case "mng":
			// a configuration change by an account that is no manager: fee taken, not executed
			tx := util.CreateManageTx(cfg, w.priv[d.F], "verif-key", "add", fmt.Sprintf("v%d", w.nextNonce()))
			tx.Nonce, tx.Fee, tx.Expire = w.nextNonce(), feeUnit, 0
			return tx, nil
		}
		return nil, fmt.Errorf("unknown descriptor kind %q", d.K)
	}
	if len(ds) == 2 && ds[0].K == "g1" && ds[1].K == "g2" {
		t1, err := mk(ds[0])
		if err != nil {
			return nil, err
		}
		t2, err := mk(ds[1])
		if err != nil {
			return nil, err
		}
		g, err := types.CreateTxGroup([]*types.Transaction{t1, t2}, cfg.GetMinTxFeeRate())
		if err != nil {
			return nil, err
		}
		g.SignN(0, types.SECP256K1, w.priv[ds[0].F])
		g.SignN(1, types.SECP256K1, w.priv[ds[1].F])
		if g.Txs[0].Fee != 2*feeUnit || g.Txs[1].Fee != 0 {
			return nil, fmt.Errorf("group fees %d/%d are not the model's 2/0 units", g.Txs[0].Fee, g.Txs[1].Fee)
		}
		return g.Txs, nil
	}
	var out []*types.Transaction
	for _, d := range ds {
		tx, err := mk(d)
		if err != nil {
			return nil, err
		}
		out = append(out, w.sign(tx, w.priv[d.F]))
	}
	return out, nil
}

// makeBlock manufactures a valid block with the given transactions on parent. want[i] is the
// receipt type the model expects of transaction i (ExecOk / ExecPack).
func (w *world) makeBlock(parent *types.Block, txs []*types.Transaction, want []int32, bits uint32) (*types.Block, error) {
	cfg := w.f.N.Cfg
	in := make([]*types.Transaction, len(txs))
	for i := range txs {
		in[i] = types.Clone(txs[i]).(*types.Transaction)
	}
	blk := &types.Block{Height: parent.Height + 1, BlockTime: parent.BlockTime + 1, ParentHash: parent.Hash(cfg), Difficulty: bits}
	blk.Txs = in
	blk.TxHash = merkle.CalcMerkleRoot(cfg, blk.Height, blk.Txs)
	w.mu.Lock()
	detail, del, err := util.ExecBlock(w.f.N.Client(), parent.StateHash, blk, false, true, false)
	w.mu.Unlock()
	if err != nil {
		return nil, fmt.Errorf("factory exec: %v", err)
	}
	if len(del) != 0 || len(detail.Block.Txs) != len(txs) {
		return nil, fmt.Errorf("factory dropped %d of %d transactions", len(txs)-len(detail.Block.Txs), len(txs))
	}
	for i, r := range detail.Receipts {
		if r.Ty != want[i] {
			return nil, fmt.Errorf("factory: transaction %d has receipt type %d, the model expects %d", i, r.Ty, want[i])
		}
		if !bytes.Equal(detail.Block.Txs[i].Hash(), txs[i].Hash()) {
			return nil, fmt.Errorf("factory reordered the block")
		}
	}
	return types.Clone(detail.Block).(*types.Block), nil
}

// workBits: target (2^16-1) >> k: the work doubles with k.
func workBits(k int) uint32 { return 0x03000000 | uint32(0xffff>>uint(k)) }
