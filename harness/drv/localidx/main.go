// Driver for the LocalIdx family (C14): blocks described by the model are added to a real node
// with every local-index plugin enabled and removed again by real reorganisations; every local
// query result is compared with the model and with a fresh node that never saw the removed blocks.
package main

import (
	"fmt"
	"os"
	"path/filepath"
	"strconv"
	"strings"

	"verif/harness/core"
	"verif/harness/drv/chain/rig"
)

func sweep() {
	ds, _ := filepath.Glob("/dev/shm/verif-chain-*")
	for _, d := range ds {
		p := strings.Split(filepath.Base(d), "-")
		if len(p) < 3 {
			continue
		}
		pid, err := strconv.Atoi(p[2])
		if err != nil {
			continue
		}
		if _, err := os.Stat(fmt.Sprintf("/proc/%d", pid)); err != nil {
			os.RemoveAll(d)
		}
	}
}

func main() {
	sweep()
	if len(os.Args) > 1 && os.Args[1] == "sweep" {
		return
	}
	cleanup := rig.UseFastTmp()
	defer cleanup()
	defer w.close()
	core.Main(&core.Family{
		Name:      "localidx",
		NewDriver: newDriver,
		Recorders: map[string]core.Recorder{"default": recordDefault},
		Extra: map[string]func(*core.Env, []string) int{
			"sweep": func(*core.Env, []string) int { return 0 },
			"probe": probe,
		},
	})
}
