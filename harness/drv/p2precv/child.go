package main

// The child process: owns the real broadcast protocol instance ("world") of the behaviour
// being replayed and executes the steps sent by the parent.

import (
	"bufio"
	"context"
	"crypto/rand"
	"encoding/json"
	"fmt"
	"os"
	"strings"
	"sync"
	"time"

	"github.com/33cn/chain33/client"
	commlog "github.com/33cn/chain33/common/log"
	"github.com/33cn/chain33/p2p"
	"github.com/33cn/chain33/queue"
	"github.com/33cn/chain33/system/mempool"
	net "github.com/33cn/chain33/system/p2p/dht/extension"
	prototypes "github.com/33cn/chain33/system/p2p/dht/protocol"
	"github.com/33cn/chain33/system/p2p/dht/protocol/broadcast"
	p2pty "github.com/33cn/chain33/system/p2p/dht/types"
	"github.com/33cn/chain33/types"
	"github.com/libp2p/go-libp2p"
	"github.com/libp2p/go-libp2p/core/crypto"
	"github.com/libp2p/go-libp2p/core/host"
	"github.com/libp2p/go-libp2p/core/peer"

	"verif/harness/core"
)

const (
	evMarker   = 990001 // harness marker on the "blockchain" topic
	stepWait   = 240 * time.Second
	pendTimeMS = 3600 * 1000 // pending timeout of the instance: never reached by wall-clock time
)

var (
	chainCfgs  = map[bool]*types.Chain33Config{}
	chainCfgMu sync.Mutex
)

// getCfg: the default configuration with p2p types ["dht"], or ["dht","gossip"] (dual) where the
// p2p manager de-duplicates broadcasts across the two networks
func getCfg(dual bool) *types.Chain33Config {
	chainCfgMu.Lock()
	defer chainCfgMu.Unlock()
	if c, ok := chainCfgs[dual]; ok {
		return c
	}
	s := types.GetDefaultCfgstring()
	ty := `types=["dht"]`
	if dual {
		ty = `types=["dht","gossip"]`
	}
	s = strings.Replace(s, "[p2p]\nenable=false", "[p2p]\n"+ty+"\nenable=false", 1)
	c := types.NewChain33Config(s)
	chainCfgs[dual] = c
	return c
}

// blacklist stands in for the connection blacklist of the p2p module
type blacklist struct {
	mu sync.Mutex
	m  map[string]time.Duration
}

func (b *blacklist) Add(s string, t time.Duration) {
	b.mu.Lock()
	b.m[s] = t
	b.mu.Unlock()
}
func (b *blacklist) Has(s string) bool {
	b.mu.Lock()
	defer b.mu.Unlock()
	_, ok := b.m[s]
	return ok
}
func (b *blacklist) List() *types.Blacklist { return &types.Blacklist{} }

type posted struct {
	pid   string
	block *types.Block
}

type world struct {
	seed   int64
	bid    string
	opts   map[string]string
	q      queue.Queue
	host   host.Host
	cancel context.CancelFunc
	env    *prototypes.P2PEnv
	h      *broadcast.VerifHandle
	out    chan interface{}
	cli    queue.Client // harness client (markers)
	mu     sync.Mutex
	posted []posted
	txs    []*types.Transaction // transactions handed to the mempool (EventTx)
	marks  chan int64
	markN  int64
	reqs   []reqSeen
	cache  *mempool.SHashTxCache
	height int64
	conc   *conc
	peers  []peer.ID
	rig    *rig
}

type reqSeen struct {
	topic  string
	height int64
	msgID  int32
}

func newIdentity() (crypto.PrivKey, peer.ID) {
	priv, pub, err := crypto.GenerateEd25519Key(rand.Reader)
	if err != nil {
		panic(err)
	}
	id, _ := peer.IDFromPublicKey(pub)
	return priv, id
}

func newWorld(seed int64, bid string, opts map[string]string) (*world, error) {
	cfg := getCfg(opts["dual"] == "1")
	w := &world{seed: seed, bid: bid, opts: opts, marks: make(chan int64, 16)}
	w.q = queue.New("verif")
	w.q.SetConfig(cfg)
	go w.q.Start()
	priv, _ := newIdentity()
	hopts := []libp2p.Option{libp2p.Identity(priv)}
	if opts["listen"] == "1" {
		hopts = append(hopts, libp2p.ListenAddrStrings("/ip4/127.0.0.1/tcp/0"))
	} else {
		hopts = append(hopts, libp2p.NoListenAddrs)
	}
	hst, err := libp2p.New(hopts...)
	if err != nil {
		return nil, err
	}
	w.host = hst
	mgr := p2p.NewP2PMgr(cfg)
	mgr.Client = w.q.Client()
	mgr.SysAPI, _ = client.New(mgr.Client, nil)
	sub := &p2pty.P2PSubConfig{}
	sub.Broadcast.LtBlockPendTimeout = pendTimeMS
	if ms := opts["pendms"]; ms != "" {
		fmt.Sscan(ms, &sub.Broadcast.LtBlockPendTimeout)
	}
	if opts["noval"] == "1" {
		sub.Broadcast.DisableValidation = true
	}
	ctx, cancel := context.WithCancel(context.Background())
	w.cancel = cancel
	env := &prototypes.P2PEnv{
		ChainCfg:    cfg,
		QueueClient: w.q.Client(),
		Host:        hst,
		P2PManager:  mgr,
		SubConfig:   sub,
		Ctx:         ctx,
	}
	env.ConnBlackList = &blacklist{m: map[string]time.Duration{}}
	env.API, _ = client.New(w.q.Client(), nil)
	env.Pubsub, err = net.NewPubSub(ctx, hst, &p2pty.PubSubConfig{})
	if err != nil {
		return nil, err
	}
	w.env = env
	w.cache = mempool.NewSHashTxCache(10240)
	w.cli = w.q.Client()
	w.startMempool()
	w.startBlockchain()
	prototypes.ClearEventHandler()
	w.h = broadcast.VerifNew(env, opts["realtick"] != "1")
	w.out = w.h.SubOutgoing()
	for i := 0; i < 6; i++ {
		_, id := newIdentity()
		w.peers = append(w.peers, id)
	}
	w.conc = newConc(w)
	return w, nil
}

func (w *world) close() {
	if w.rig != nil {
		w.rig.att.Close()
	}
	w.h.Release()
	w.cancel()
	w.host.Close()
	w.q.Close()
}

// the "mempool" module stand-in: answers short-hash look-ups from the real short-hash cache
func (w *world) startMempool() {
	c := w.q.Client()
	c.Sub("mempool")
	go func() {
		for msg := range c.Recv() {
			switch msg.Ty {
			case types.EventTxListByHash:
				req, _ := msg.Data.(*types.ReqTxHashList)
				var rep types.ReplyTxList
				w.mu.Lock()
				for _, sh := range req.GetHashes() {
					rep.Txs = append(rep.Txs, w.cache.GetSHashTxCache(sh))
				}
				w.mu.Unlock()
				msg.Reply(c.NewMessage("p2p", types.EventReplyTxList, &rep))
			case types.EventTx:
				if tx, ok := msg.Data.(*types.Transaction); ok {
					w.mu.Lock()
					w.txs = append(w.txs, tx)
					w.mu.Unlock()
				}
				msg.Reply(c.NewMessage("p2p", types.EventReply, &types.Reply{IsOk: true}))
			case types.EventGetMempoolSize:
				msg.Reply(c.NewMessage("p2p", types.EventMempoolSize, &types.MempoolSize{Size: 1}))
			default:
				msg.Reply(c.NewMessage("p2p", types.EventReply, &types.Reply{IsOk: true}))
			}
		}
	}()
}

// the "blockchain" module stand-in: records broadcast blocks, serves GetBlocks
func (w *world) startBlockchain() {
	c := w.q.Client()
	c.Sub("blockchain")
	go func() {
		for msg := range c.Recv() {
			switch msg.Ty {
			case types.EventBroadcastAddBlock:
				if bp, ok := msg.Data.(*types.BlockPid); ok {
					w.mu.Lock()
					w.posted = append(w.posted, posted{pid: bp.Pid, block: bp.Block})
					w.mu.Unlock()
					if h := bp.Block.GetHeight(); h >= 2000 && h < 2400 {
						// blocks of the malformed classes are refused by the chain: their publisher gets denied
						msg.Reply(c.NewMessage("p2p", types.EventReply, &types.Reply{Msg: []byte(types.ErrBlockHashNoMatch.Error())}))
						break
					}
				}
				msg.Reply(c.NewMessage("p2p", types.EventReply, &types.Reply{IsOk: true}))
			case evMarker:
				w.marks <- msg.Data.(int64)
			case types.EventGetBlocks:
				req, _ := msg.Data.(*types.ReqBlocks)
				det := &types.BlockDetails{}
				for hgt := req.GetStart(); hgt <= req.GetEnd() && hgt-req.GetStart() < 4; hgt++ {
					det.Items = append(det.Items, &types.BlockDetail{Block: &types.Block{Height: hgt, Txs: []*types.Transaction{{Payload: []byte("m")}}}})
				}
				msg.Reply(c.NewMessage("p2p", types.EventBlocks, det))
			case types.EventGetLastHeader:
				msg.Reply(c.NewMessage("p2p", types.EventHeader, &types.Header{Height: w.height}))
			default:
				msg.Reply(c.NewMessage("p2p", types.EventReply, &types.Reply{IsOk: true}))
			}
		}
	}()
}

// flush waits until everything the protocol sent so far (blocks to "blockchain", messages to
// the network) has been recorded: markers travel behind them through the same FIFO channels.
func (w *world) flush() error {
	w.markN++
	id := w.markN
	if err := w.cli.Send(w.cli.NewMessage("blockchain", evMarker, id), true); err != nil {
		return err
	}
	w.h.PubMarker(id)
	t := time.NewTimer(stepWait)
	defer t.Stop()
	for got := false; !got; {
		select {
		case m := <-w.marks:
			got = m == id
		case <-t.C:
			return fmt.Errorf("flush: blockchain marker not seen")
		}
	}
	for {
		select {
		case v := <-w.out:
			o := w.h.DecodeOut(v)
			if o.Marker == id {
				return nil
			}
			if pm, ok := o.Msg.(*types.PeerPubSubMsg); ok {
				r := reqSeen{topic: o.Topic, msgID: pm.GetMsgID(), height: -1}
				if pm.GetMsgID() == broadcast.VerifBlockReqMsgID {
					var ri types.ReqInt
					if types.Decode(pm.GetProtoMsg(), &ri) == nil {
						r.height = ri.Height
					}
				}
				w.mu.Lock()
				w.reqs = append(w.reqs, r)
				w.mu.Unlock()
			}
		case <-t.C:
			return fmt.Errorf("flush: outgoing marker not seen")
		}
	}
}

func childMain() {
	commlog.SetLogLevel("crit")
	out := os.NewFile(3, "reply")
	enc := json.NewEncoder(out)
	sc := bufio.NewScanner(os.Stdin)
	sc.Buffer(make([]byte, 1<<20), 1<<26)
	var w *world
	for sc.Scan() {
		var rq request
		if err := json.Unmarshal(sc.Bytes(), &rq); err != nil {
			enc.Encode(reply{Err: "bad request: " + err.Error()})
			continue
		}
		switch rq.Cmd {
		case "reset":
			if w != nil {
				w.close()
				w = nil
			}
			var err error
			w, err = newWorld(rq.Seed, rq.BID, rq.Opts)
			if err != nil {
				enc.Encode(reply{Err: err.Error()})
				continue
			}
			enc.Encode(reply{OK: true})
		case "step":
			if w == nil {
				enc.Encode(reply{Err: "no world"})
				continue
			}
			ret, chk, err := w.apply(rq.Step)
			if err != nil {
				enc.Encode(reply{Err: err.Error()})
				continue
			}
			enc.Encode(reply{OK: true, Ret: ret, Chk: chk})
		case "live":
			if w != nil {
				w.close()
				w = nil
			}
			evs, nt, err := runLive(rq.Seed, rq.Idx, rq.Opts)
			if err != nil {
				enc.Encode(reply{Err: err.Error()})
				continue
			}
			enc.Encode(reply{OK: true, Ret: map[string]any{"events": evs, "nontrivial": nt}})
		case "close":
			if w != nil {
				w.close()
				w = nil
			}
			enc.Encode(reply{OK: true})
		default:
			enc.Encode(reply{Err: "unknown cmd"})
		}
	}
}

var _ = core.J
