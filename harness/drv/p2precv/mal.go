package main

// RecvMalformed(class): structurally and byte-level malformed input on the receive paths of the
// broadcast protocol other than the light-block announcement proper. Structural variants are
// enumerated; "any content" is sampled by seeded mutation of valid encodings (both of the
// protobuf layer and of the snappy layer). Every payload goes through the production chain
// validator -> decodeMsg -> handleBroadcastReceive (VerifHandle.ReceiveRaw).

import (
	"fmt"
	"math/rand"

	"github.com/33cn/chain33/system/p2p/dht/protocol/broadcast"
	"github.com/33cn/chain33/types"
	"github.com/golang/snappy"

	"verif/harness/core"
)

// mutate returns a corrupted copy of b.
func mutate(r *rand.Rand, b []byte) []byte {
	o := append([]byte{}, b...)
	switch r.Intn(9) {
	case 0: // bit flips
		for i := 0; i < 1+r.Intn(4) && len(o) > 0; i++ {
			o[r.Intn(len(o))] ^= 1 << uint(r.Intn(8))
		}
	case 1: // truncate
		if len(o) > 0 {
			o = o[:r.Intn(len(o))]
		}
	case 2: // random tail
		t := make([]byte, 1+r.Intn(40))
		r.Read(t)
		o = append(o, t...)
	case 3: // overwrite a run with 0xff (huge varints / lengths)
		if len(o) > 0 {
			p := r.Intn(len(o))
			for i := p; i < len(o) && i < p+1+r.Intn(10); i++ {
				o[i] = 0xff
			}
		}
	case 4: // zero a run
		if len(o) > 0 {
			p := r.Intn(len(o))
			for i := p; i < len(o) && i < p+1+r.Intn(10); i++ {
				o[i] = 0
			}
		}
	case 5: // duplicate a slice in place
		if len(o) > 2 {
			p := r.Intn(len(o) - 1)
			q := p + 1 + r.Intn(len(o)-p-1)
			o = append(o[:q:q], append(append([]byte{}, o[p:q]...), o[q:]...)...)
		}
	case 6: // random bytes of the same length
		r.Read(o)
	case 7: // empty
		o = nil
	case 8: // splice two halves swapped
		if len(o) > 3 {
			p := r.Intn(len(o))
			o = append(append([]byte{}, o[p:]...), o[:p]...)
		}
	}
	return o
}

// wire variants of a message: valid, protobuf-level mutation (re-compressed), snappy-level mutation
func (w *world) wireVariants(r *rand.Rand, m types.Message, n int) [][]byte {
	pb := types.Encode(m)
	out := [][]byte{w.h.EncodeMsg(m)}
	for i := 0; i < n; i++ {
		if r.Intn(2) == 0 {
			out = append(out, snappy.Encode(nil, mutate(r, pb)))
		} else {
			out = append(out, mutate(r, w.h.EncodeMsg(m)))
		}
	}
	return out
}

func (w *world) recvMalformed(class string, s core.Step) error {
	c := w.conc
	r := c.r
	n := 6
	fmt.Sscan(w.opts["fuzz"], &n)
	txT, batchT, blkT, ltT, peerT := w.h.Topics(w.host.ID())
	from := w.peers[5] // never a sender of model blocks: it may get denied
	send := func(topic string, raws [][]byte) {
		for _, raw := range raws {
			w.h.ReceiveRaw(topic, raw, from, from)
		}
	}
	switch class {
	case "blk":
		blk := c.origBlock([]string{"S", "G2"}, 1, int64(2000+r.Intn(50)))
		empty := &types.Block{}
		big := c.origBlock([]string{"S"}, 2, 1<<60)
		neg := c.origBlock(nil, 1, -int64(r.Intn(1000)))
		notx := &types.Block{Height: 2100, TxHash: []byte("x")}
		for _, b := range []*types.Block{blk, empty, big, neg, notx} {
			send(blkT, w.wireVariants(r, b, n))
		}
	case "tx":
		for _, t := range []*types.Transaction{c.newTx(), {}, c.G(90, 3).Tx(), {GroupCount: 7, Header: []byte{1, 2, 3}}, {GroupCount: -1}} {
			send(txT, w.wireVariants(r, t, n))
		}
	case "batch":
		many := &types.Transactions{}
		for i := 0; i < 30; i++ {
			many.Txs = append(many.Txs, c.newTx())
		}
		for _, b := range []*types.Transactions{many, {}, {Txs: []*types.Transaction{{}, {}, c.G(91, 2).Tx()}}} {
			send(batchT, w.wireVariants(r, b, n))
		}
	case "blkreq":
		heights := []int64{-5, 0, 3, 7, 1 << 62, int64(r.Intn(20))}
		for _, h := range heights {
			pm := &types.PeerPubSubMsg{MsgID: broadcast.VerifBlockReqMsgID, ProtoMsg: types.Encode(&types.ReqInt{Height: h})}
			send(peerT, w.wireVariants(r, pm, 1))
		}
		junk := make([]byte, r.Intn(30))
		r.Read(junk)
		send(peerT, w.wireVariants(r, &types.PeerPubSubMsg{MsgID: broadcast.VerifBlockReqMsgID, ProtoMsg: junk}, n))
		// the queued requests are served by blockRequestLoop once the local height reaches them
		if !w.h.Tick(broadcast.VerifLoopBlockReq, stepWait) {
			return fmt.Errorf("blockRequestLoop does not take ticks")
		}
		w.height = 5
		w.h.AddBlock(w.cli.NewMessage("p2p", types.EventAddBlock, &types.Block{Height: w.height}))
		if !w.h.Tick(broadcast.VerifLoopBlockReq, stepWait) {
			return fmt.Errorf("blockRequestLoop does not take ticks")
		}
	case "blkresp":
		blk := c.origBlock([]string{"G3"}, 1, int64(2200+r.Intn(50)))
		pms := []*types.PeerPubSubMsg{
			{MsgID: broadcast.VerifBlockRespMsgID, ProtoMsg: types.Encode(blk)},
			{MsgID: broadcast.VerifBlockRespMsgID, ProtoMsg: types.Encode(blk)}, // the same block again
			{MsgID: broadcast.VerifBlockRespMsgID},
			{MsgID: broadcast.VerifBlockRespMsgID, ProtoMsg: mutate(r, types.Encode(blk))},
			{MsgID: broadcast.VerifBlockRespMsgID, ProtoMsg: []byte{0xff, 0xff, 0xff}},
		}
		for _, pm := range pms {
			send(peerT, w.wireVariants(r, pm, n/2))
		}
	case "peermsg":
		pms := []*types.PeerPubSubMsg{{}, {MsgID: 99}, {MsgID: -1, ProtoMsg: []byte("x")}, {MsgID: 0, ProtoMsg: make([]byte, 4096)}}
		for _, pm := range pms {
			send(peerT, w.wireVariants(r, pm, n/2))
		}
	case "ltraw":
		blk := c.origBlock([]string{"S", "G2", "S"}, 1, int64(2300+r.Intn(50)))
		lb := w.h.BuildLtBlock(blk)
		send(ltT, w.wireVariants(r, lb, 3*n)[1:])
		lb2 := &types.LightBlock{} // no header at all
		send(ltT, w.wireVariants(r, lb2, 1))
	case "ltdup":
		// the last light block again (byte-identical), and a different announcement under the same block hash
		if c.last != nil {
			send(ltT, [][]byte{w.h.EncodeMsg(c.last)})
			blk := c.origBlock([]string{"S"}, 1, c.last.GetHeader().GetHeight())
			lb := w.h.BuildLtBlock(blk)
			lb.Header.Hash = c.last.GetHeader().GetHash()
			send(ltT, [][]byte{w.h.EncodeMsg(lb)})
		}
	case "dlreply", "dlserve", "peerreply", "peerserve", "proof":
		return w.recvNet(class)
	default:
		return fmt.Errorf("unknown malformed class %q", class)
	}
	// let manageDeniedPeer collect the module replies for what was forwarded (deny path)
	if w.h.HasValidator() && !w.h.Tick(broadcast.VerifLoopDenied, stepWait) {
		return fmt.Errorf("manageDeniedPeer does not take ticks")
	}
	return nil
}

func fuzzMain(env *core.Env, args []string) int {
	fmt.Println("not implemented")
	return 2
}
