package main

// RecvMalformed classes on the stream-based receive paths: download replies and requests
// (protocol/download), peer info / version announcements (protocol/peer), and state proofs
// (system/store/mavl/db). The node under test talks over real libp2p streams (TCP loopback)
// to a hostile peer living in the same child process.

import (
	"context"
	"encoding/binary"
	"fmt"
	"io"
	"math/rand"
	"sync"
	"time"

	dbm "github.com/33cn/chain33/common/db"
	"github.com/33cn/chain33/system/p2p/dht/manage"
	prototypes "github.com/33cn/chain33/system/p2p/dht/protocol"
	"github.com/33cn/chain33/system/p2p/dht/protocol/download"
	ppeer "github.com/33cn/chain33/system/p2p/dht/protocol/peer"
	mavl "github.com/33cn/chain33/system/store/mavl/db"
	"github.com/33cn/chain33/types"
	"github.com/libp2p/go-libp2p"
	"github.com/libp2p/go-libp2p/core/host"
	"github.com/libp2p/go-libp2p/core/network"
	"github.com/libp2p/go-libp2p/core/peer"
	"github.com/libp2p/go-libp2p/core/protocol"
)

var streamHeader = append(append([]byte{16}, []byte("/protobuf/msgio")...), '\n')

type rig struct {
	att    host.Host
	dl     *download.VerifRecv
	pr     *ppeer.VerifRecv
	mu     sync.Mutex
	script map[protocol.ID]func(network.Stream) // what the hostile peer does with the next stream
}

func (w *world) netRig() (*rig, error) {
	if w.rig != nil {
		if w.host.Network().Connectedness(w.rig.att.ID()) != network.Connected {
			if err := w.connect(w.rig); err != nil {
				return nil, err
			}
		}
		return w.rig, nil
	}
	priv, _ := newIdentity()
	att, err := libp2p.New(libp2p.Identity(priv), libp2p.ListenAddrStrings("/ip4/127.0.0.1/tcp/0"))
	if err != nil {
		return nil, err
	}
	r := &rig{att: att, script: map[protocol.ID]func(network.Stream){}}
	w.env.PeerInfoManager = manage.NewPeerInfoManager(w.env.Ctx, w.host, w.q.Client())
	w.env.SubConfig.VerLimit = "6.8.0"
	r.dl = download.VerifRecvNew(w.env)
	r.pr = ppeer.VerifRecvNew(w.env)
	ids := []string{}
	o, n := r.dl.ProtocolIDs()
	ids = append(ids, o, n)
	for _, id := range r.pr.ProtocolIDs() {
		ids = append(ids, id)
	}
	for _, id := range ids {
		pid := protocol.ID(id)
		att.SetStreamHandler(pid, func(s network.Stream) {
			r.mu.Lock()
			f := r.script[pid]
			r.mu.Unlock()
			if f == nil {
				s.Reset()
				return
			}
			f(s)
		})
	}
	if err := w.connect(r); err != nil {
		att.Close()
		return nil, err
	}
	w.rig = r
	return r, nil
}

func (w *world) connect(r *rig) error {
	ctx, cancel := context.WithTimeout(context.Background(), stepWait)
	defer cancel()
	return w.host.Connect(ctx, peer.AddrInfo{ID: r.att.ID(), Addrs: r.att.Addrs()})
}

func (r *rig) set(id string, f func(network.Stream)) {
	r.mu.Lock()
	r.script[protocol.ID(id)] = f
	r.mu.Unlock()
}

// frame: stream header + msgio length prefix + payload
func frame(payload []byte) []byte {
	out := append([]byte{}, streamHeader...)
	var l [4]byte
	binary.BigEndian.PutUint32(l[:], uint32(len(payload)))
	return append(append(out, l[:]...), payload...)
}

// replyVariants: hostile ways to answer a request whose well-formed reply is good
func replyVariants(r *rand.Rand, good []types.Message, n int) []func(network.Stream) {
	drain := func(s network.Stream) {
		s.SetReadDeadline(time.Now().Add(200 * time.Millisecond))
		io.Copy(io.Discard, io.LimitReader(s, 1<<16))
	}
	write := func(b []byte, closeAfter bool) func(network.Stream) {
		return func(s network.Stream) {
			s.Write(b)
			if closeAfter {
				s.Close()
			} else {
				s.Reset()
			}
		}
	}
	var out []func(network.Stream)
	for _, g := range good {
		pb := types.Encode(g)
		out = append(out, write(frame(pb), true))
		for i := 0; i < n; i++ {
			out = append(out, write(frame(mutate(r, pb)), true))
		}
		out = append(out, write(frame(pb)[:len(streamHeader)+2], true))                                            // truncated length
		out = append(out, write(frame(pb)[:len(frame(pb))-1-r.Intn(len(pb)+1)], false))                            // truncated body, reset
		out = append(out, write(mutate(r, frame(pb)), true))                                                       // damaged framing
		out = append(out, write(append(append([]byte{}, streamHeader...), 0xff, 0xff, 0xff, 0xff, 1, 2, 3), true)) // 4GB length
		out = append(out, write(append(append([]byte{}, streamHeader...), 0x01, 0x00, 0x00, 0x00), true))          // 16MB announced, nothing sent
	}
	out = append(out, write(nil, true), write(nil, false), write([]byte("garbage-without-header"), true),
		write(frame(nil), true), func(s network.Stream) { drain(s); s.Close() })
	return out
}

func (w *world) recvNet(class string) error {
	r := w.conc.r
	n := 4
	fmt.Sscan(w.opts["fuzz"], &n)
	if class == "proof" {
		return w.proofClass(r, 10*n)
	}
	rg, err := w.netRig()
	if err != nil {
		return fmt.Errorf("net rig: %v", err)
	}
	att := rg.att.ID()
	dlOld, dlNew := rg.dl.ProtocolIDs()
	ids := rg.pr.ProtocolIDs()
	blk := w.conc.origBlock([]string{"S", "G2"}, 1, 77)
	switch class {
	case "dlreply": // the node downloads a block, the peer answers
		good := []types.Message{
			&types.MessageGetBlocksResp{Message: &types.InvDatas{Items: []*types.InvData{{Ty: 2, Value: &types.InvData_Block{Block: blk}}}}},
			&types.MessageGetBlocksResp{},
			&types.MessageGetBlocksResp{Message: &types.InvDatas{}},
			&types.MessageGetBlocksResp{Message: &types.InvDatas{Items: []*types.InvData{{Ty: 2}}}},
			&types.MessageGetBlocksResp{Message: &types.InvDatas{Items: []*types.InvData{{Ty: 1, Value: &types.InvData_Tx{Tx: w.conc.newTx()}}}}},
			&types.MessageGetBlocksResp{Message: &types.InvDatas{Items: []*types.InvData{{Ty: 2, Value: &types.InvData_Block{}}}}},
			&types.MessageGetBlocksResp{Message: &types.InvDatas{Items: []*types.InvData{{Ty: 2, Value: &types.InvData_Block{Block: &types.Block{Height: -3}}}}}},
		}
		for i, f := range replyVariants(r, good, n) {
			rg.set(dlOld, f)
			b, err := rg.dl.FetchOld(77, att)
			if i == 0 && (err != nil || b.GetHeight() != 77) { // anti-vacuity: the well-formed reply is understood
				return fmt.Errorf("harness: well-formed download reply not accepted: %v", err)
			}
		}
		for i, f := range replyVariants(r, []types.Message{blk, &types.Block{}}, n) {
			rg.set(dlNew, f)
			b, err := rg.dl.Fetch(77, att)
			if i == 0 && (err != nil || b.GetHeight() != 77) {
				return fmt.Errorf("harness: well-formed download reply (new protocol) not accepted: %v", err)
			}
		}
	case "peerreply": // the node asks for peer info / version, the peer answers
		hdr := &types.Header{Height: 1 << 40, Hash: []byte("h")}
		good := []types.Message{
			&types.Peer{Name: att.Pretty(), Header: hdr, Version: "6.0.0@6.9.1", Addr: "1.2.3.4", Port: 13803},
			&types.Peer{Name: "not-a-peer-id", Version: "@", Addr: "x"},
			&types.Peer{Version: "1@2@3"},
			&types.Peer{Name: att.Pretty(), Version: "6.0.0@6", Header: &types.Header{Height: -9}},
			&types.Peer{Name: att.Pretty(), Version: "a@.....", Header: hdr},
			&types.Peer{Name: att.Pretty(), Version: "a@6.8", Header: hdr},
		}
		for i, f := range replyVariants(r, good, n) {
			rg.set(ids["peerInfo"], f)
			pi, err := rg.pr.QueryPeerInfo(att)
			if i == 0 && (err != nil || pi.GetName() != att.Pretty()) {
				return fmt.Errorf("harness: well-formed peer info not accepted: %v", err)
			}
			rg.set(ids["peerInfo"], f)
			rg.pr.RefreshPeerInfo([]peer.ID{att})
			if w.host.Network().Connectedness(att) != network.Connected { // a refused version closes the peer
				if err := w.connect(rg); err != nil {
					return err
				}
			}
		}
		rg.pr.CheckOutBound(1 << 41)
		// queryPeerInfoOld / queryVersionOld have no caller in the node: not exercised
		addrs := []string{"/ip4/8.8.8.8/tcp/13803", "/ip4/8.8.8.8/tcp/x", "/ip4/8.8.8.8/tcp/80/bogus", "////", "8.8.8.8",
			"/ip4/999.1.1.1/tcp/1", "/ip6/::1/tcp/1", "/ip4/8.8.8.8/tcp/99999999999999999999", ""}
		var vers []types.Message
		for _, a := range addrs {
			vers = append(vers, &types.P2PVersion{AddrFrom: a, AddrRecv: addrs[r.Intn(len(addrs))]})
		}
		for _, f := range replyVariants(r, vers, 1) {
			rg.set(ids["peerVersion"], func(s network.Stream) { readSome(s); f(s) })
			rg.pr.QueryVersion(att)
		}
	case "dlserve", "peerserve": // the peer opens streams to the node's handlers
		var reqs map[string][]types.Message
		if class == "dlserve" {
			reqs = map[string][]types.Message{
				dlOld: {&types.MessageGetBlocksReq{}, &types.MessageGetBlocksReq{Message: &types.P2PGetBlocks{StartHeight: 5, EndHeight: 1}},
					&types.MessageGetBlocksReq{Message: &types.P2PGetBlocks{StartHeight: -1 << 62, EndHeight: 1 << 62}},
					&types.MessageGetBlocksReq{Message: &types.P2PGetBlocks{StartHeight: 1, EndHeight: 2}}},
				dlNew: {&types.ReqBlocks{}, &types.ReqBlocks{Start: 9, End: 1}, &types.ReqBlocks{Start: -1 << 62, End: 1 << 62},
					&types.ReqBlocks{Start: 1, End: 300}, &types.ReqBlocks{Start: 3, End: 3, Pid: []string{"x"}}},
			}
		} else {
			ch := w.env.SubConfig.Channel
			reqs = map[string][]types.Message{
				ids["peerVersion"]: {&types.P2PVersion{Version: ch, AddrFrom: "/ip4/8.8.8.8/tcp/x", AddrRecv: "/ip4/8.8.8.8/tcp/80/bogus"},
					&types.P2PVersion{Version: ch, AddrFrom: "////", AddrRecv: "/ip4/9.9.9.9/tcp/1"},
					&types.P2PVersion{Version: ch, AddrFrom: "/ip4/8.8.4.4/tcp/13803", AddrRecv: ""}},
				ids["peerVersionOld"]: {&types.MessageP2PVersionReq{Message: &types.P2PVersion{Version: ch, AddrFrom: "/ip4/8.8.8.8/udp/1", AddrRecv: "/ip4/8.8.8.8/tcp/80/bogus"}}},
				ids["peerInfoOld"]:    {&types.MessagePeerInfoReq{}},
				ids["peerInfo"]:       {&types.P2PVersion{}},
				ids["statistical"]:    {&types.P2PVersion{}},
			}
		}
		served := 0
		for id, ms := range reqs {
			for _, m := range ms {
				pb := types.Encode(m)
				payloads := [][]byte{frame(pb), frame(nil), []byte("junk"), nil, mutate(r, frame(pb)),
					append(append([]byte{}, streamHeader...), 0xff, 0xff, 0xff, 0xff)}
				for i := 0; i < n; i++ {
					payloads = append(payloads, frame(mutate(r, pb)))
				}
				for _, p := range payloads {
					if w.host.Network().Connectedness(att) != network.Connected {
						if err := w.connect(rg); err != nil {
							return err
						}
					}
					got, err := attack(rg.att, w.host.ID(), id, p)
					if err != nil {
						return err
					}
					served += got
				}
			}
		}
		if served == 0 { // anti-vacuity: at least one request was answered with data
			return fmt.Errorf("harness: the node's %s handlers never answered", class)
		}
		if class == "peerserve" { // a version from another channel: the node blacklists and drops the connection
			attack(rg.att, w.host.ID(), ids["peerVersion"], frame(types.Encode(&types.P2PVersion{Version: w.env.SubConfig.Channel + 1})))
			attack(rg.att, w.host.ID(), ids["peerVersionOld"], frame(types.Encode(&types.MessageP2PVersionReq{})))
		}
	default:
		return fmt.Errorf("unknown net class %q", class)
	}
	return nil
}

func readSome(s network.Stream) {
	s.SetReadDeadline(time.Now().Add(2 * time.Second))
	buf := make([]byte, 4096)
	s.Read(buf)
}

// attack: the hostile peer opens a stream to the node, writes payload, half-closes and waits
// until the node's handler has finished with the stream (EOF or reset).
func attack(att host.Host, node peer.ID, proto string, payload []byte) (int, error) {
	ctx, cancel := context.WithTimeout(context.Background(), stepWait)
	defer cancel()
	s, err := att.NewStream(ctx, node, protocol.ID(proto))
	if err != nil {
		return 0, nil // refused (e.g. blacklisted after a channel mismatch): a rejection, not a harness failure
	}
	s.Write(payload)
	s.CloseWrite()
	s.SetReadDeadline(time.Now().Add(stepWait))
	n, _ := io.Copy(io.Discard, io.LimitReader(s, 1<<22))
	s.Reset()
	if n > 0 {
		return 1, nil
	}
	return 0, nil
}

// state proofs: mutated proofs of a real tree never make verification panic
func (w *world) proofClass(r *rand.Rand, n int) error {
	db, err := dbm.NewGoMemDB("proof", "", 0)
	if err != nil {
		return err
	}
	defer db.Close()
	tree := mavl.NewTree(db, true, nil)
	var kvs []*types.KeyValue
	for i := 0; i < 9; i++ {
		kv := &types.KeyValue{Key: []byte(fmt.Sprintf("key-%d-%d", i, r.Intn(100))), Value: []byte(fmt.Sprintf("v%d", r.Int63()))}
		kvs = append(kvs, kv)
		tree.Set(kv.Key, kv.Value)
	}
	root := tree.Save()
	for _, kv := range kvs[:3] {
		proof, err := mavl.GetKVPairProof(db, root, kv.Key, nil)
		if err != nil || proof == nil {
			return fmt.Errorf("harness: no proof for an existing key: %v", err)
		}
		if !mavl.VerifyKVPairProof(db, root, kv, proof) {
			return fmt.Errorf("harness: genuine proof rejected")
		}
		for i := 0; i < n; i++ {
			mavl.VerifyKVPairProof(db, root, kv, mutate(r, proof))
			mavl.VerifyKVPairProof(db, mutate(r, root), kv, proof)
			mavl.VerifyKVPairProof(db, root, &types.KeyValue{Key: mutate(r, kv.Key), Value: kv.Value}, mutate(r, proof))
		}
		mavl.VerifyKVPairProof(db, nil, nil, nil)
		mavl.VerifyKVPairProof(db, root, kv, nil)
	}
	return nil
}

var _ = prototypes.WriteStream
