// Driver for the P2PRecv family (C33, C34): the receive side of the dht broadcast protocol
// (system/p2p/dht/protocol/broadcast) plus the other peer-facing receive paths.
//
// Process survival is the observable of C33, so the real protocol never runs inside the
// replay process: every parallel driver owns a CHILD process (this binary, sub-command
// "child") which stands up the real broadcastProtocol and executes the steps. The parent
// forwards steps over a pipe; if the child dies (a panic on a goroutine without recover,
// e.g. pendBlockLoop) the parent reports alive=false for the step in flight together with
// the panic text from the child's stderr.
package main

import (
	"bufio"
	"encoding/json"
	"fmt"
	"io"
	"os"
	"os/exec"
	"regexp"
	"strings"
	"sync"
	"time"

	"verif/harness/core"
)

type request struct {
	Cmd  string            `json:"cmd"`
	BID  string            `json:"bid,omitempty"`
	Seed int64             `json:"seed,omitempty"`
	Idx  int               `json:"idx,omitempty"`
	Prop string            `json:"prop,omitempty"`
	Tier string            `json:"tier,omitempty"`
	Opts map[string]string `json:"opts,omitempty"`
	Step core.Step         `json:"step,omitempty"`
}

type reply struct {
	OK  bool   `json:"ok"`
	Ret any    `json:"ret,omitempty"`
	Chk any    `json:"chk,omitempty"`
	Err string `json:"err,omitempty"`
}

// ring keeps the tail of the child's stderr/stdout (the panic report).
type ring struct {
	mu  sync.Mutex
	buf []byte
}

func (r *ring) Write(p []byte) (int, error) {
	r.mu.Lock()
	r.buf = append(r.buf, p...)
	if len(r.buf) > 1<<16 {
		r.buf = r.buf[len(r.buf)-(1<<15):]
	}
	r.mu.Unlock()
	return len(p), nil
}

func (r *ring) String() string {
	r.mu.Lock()
	defer r.mu.Unlock()
	return string(r.buf)
}

type child struct {
	cmd   *exec.Cmd
	in    io.WriteCloser
	out   *bufio.Reader
	outf  *os.File
	errs  *ring
	dead  bool
	waitc chan struct{}
}

func spawn() (*child, error) {
	exe, err := os.Executable()
	if err != nil {
		return nil, err
	}
	pr, pw, err := os.Pipe()
	if err != nil {
		return nil, err
	}
	c := &child{errs: &ring{}, waitc: make(chan struct{})}
	c.cmd = exec.Command(exe, "child")
	c.cmd.ExtraFiles = []*os.File{pw}
	c.cmd.Stdout = c.errs
	c.cmd.Stderr = c.errs
	c.in, err = c.cmd.StdinPipe()
	if err != nil {
		return nil, err
	}
	if err := c.cmd.Start(); err != nil {
		return nil, err
	}
	pw.Close()
	c.outf = pr
	c.out = bufio.NewReaderSize(pr, 1<<20)
	go func() { c.cmd.Wait(); close(c.waitc) }()
	return c, nil
}

func (c *child) kill() {
	if c == nil {
		return
	}
	c.in.Close()
	if c.cmd.Process != nil {
		c.cmd.Process.Kill()
	}
	<-c.waitc
	c.outf.Close()
	c.dead = true
}

// call sends one request; died=true when the child process ended instead of answering.
func (c *child) call(rq *request, timeout time.Duration) (rp *reply, died bool, err error) {
	b, _ := json.Marshal(rq)
	if _, werr := c.in.Write(append(b, '\n')); werr != nil {
		<-c.waitc
		c.dead = true
		return nil, true, nil
	}
	type res struct {
		line []byte
		err  error
	}
	ch := make(chan res, 1)
	go func() {
		l, e := c.out.ReadBytes('\n')
		ch <- res{l, e}
	}()
	select {
	case r := <-ch:
		if r.err != nil {
			<-c.waitc
			c.dead = true
			return nil, true, nil
		}
		rp = &reply{}
		if e := json.Unmarshal(r.line, rp); e != nil {
			return nil, false, fmt.Errorf("bad child reply: %v", e)
		}
		return rp, false, nil
	case <-time.After(timeout):
		c.kill()
		return nil, false, fmt.Errorf("child did not answer %s within %s; output tail: %s", rq.Cmd, timeout, tail(c.errs.String(), 1500))
	}
}

func tail(s string, n int) string {
	if len(s) > n {
		return s[len(s)-n:]
	}
	return s
}

// pdrv is the parent-side driver.
type pdrv struct {
	env   *core.Env
	c     *child
	crash string // panic report of the last dead child
}

const callTimeout = 300 * time.Second

func (d *pdrv) Reset(env *core.Env, b *core.Behaviour) error {
	d.env = env
	d.crash = ""
	if d.c == nil || d.c.dead {
		c, err := spawn()
		if err != nil {
			return err
		}
		d.c = c
	}
	rp, died, err := d.c.call(&request{Cmd: "reset", BID: b.ID, Seed: env.Seed, Prop: env.Prop, Tier: env.Tier, Opts: env.Opts}, callTimeout)
	if err != nil {
		return err
	}
	if died {
		return fmt.Errorf("child died during reset: %s", tail(d.c.errs.String(), 2000))
	}
	if !rp.OK {
		return fmt.Errorf("child reset: %s", rp.Err)
	}
	return nil
}

func (d *pdrv) Apply(s core.Step) (any, any, error) {
	if d.c == nil || d.c.dead {
		return nil, nil, fmt.Errorf("no child")
	}
	rp, died, err := d.c.call(&request{Cmd: "step", Step: s}, callTimeout)
	if err != nil {
		return nil, nil, err
	}
	if died {
		d.crash = d.c.errs.String()
		ret := map[string]any{"alive": false}
		if s.Op() == "Probe" {
			ret["recv"], ret["loop"], ret["val"] = "dead", "dead", "dead"
		}
		return ret, nil, nil
	}
	if !rp.OK {
		return nil, nil, fmt.Errorf("child step %s: %s", s.Op(), rp.Err)
	}
	return rp.Ret, rp.Chk, nil
}

func (d *pdrv) Close() {
	if d.c == nil || d.c.dead {
		return
	}
	_, died, err := d.c.call(&request{Cmd: "close"}, callTimeout)
	if err != nil || died {
		d.c.kill()
	}
}

var (
	rePanic = regexp.MustCompile(`(?m)^panic: (.*)$`)
	reFatal = regexp.MustCompile(`(?m)^fatal error: (.*)$`)
	reFrame = regexp.MustCompile(`(?m)^github\.com/33cn/chain33/([^\s(]+(?:\([^)]*\))?[^\s(]*)\(`)
	reNum   = regexp.MustCompile(`\d+`)
)

// crashClass: the panic / fatal-error message with numbers abstracted plus the innermost chain33 frame.
func crashClass(report string) string {
	msg, fr := "?", "?"
	at := -1
	if m := rePanic.FindStringSubmatchIndex(report); m != nil {
		msg = report[m[2]:m[3]]
		at = m[0]
	} else if m := reFatal.FindStringSubmatchIndex(report); m != nil {
		msg = "fatal: " + report[m[2]:m[3]]
		at = m[0]
	}
	msg = reNum.ReplaceAllString(msg, "N")
	if i := strings.Index(msg, " [recovered]"); i > 0 {
		msg = msg[:i]
	}
	if at >= 0 {
		if m := reFrame.FindStringSubmatch(report[at:]); m != nil {
			fr = m[1]
		}
	}
	if len(msg) > 80 {
		msg = msg[:80]
	}
	return msg + " @ " + fr
}

func (d *pdrv) Signature(b *core.Behaviour, idx int, field string, expected, observed any) string {
	op := "?"
	var st core.Step
	if idx >= 0 && idx < len(b.Steps) {
		st = b.Steps[idx]
		op = st.Op()
	}
	if om, ok := observed.(map[string]any); ok && field == "ret" {
		if a, ok := om["alive"].(bool); ok && !a {
			return fmt.Sprintf("crash|%s|%s|%s", op, crashClass(d.crash), shapeOf(b, idx))
		}
		return fmt.Sprintf("ret|%s|exp=%s|got=%s", op, core.J(expected), core.J(observed))
	}
	if field == "chk" {
		// first differing block status
		e, _ := expected.(map[string]any)
		o, _ := observed.(map[string]any)
		es, _ := e["st"].([]any)
		os_, _ := o["st"].([]any)
		for i := range es {
			var ov any = "missing"
			if i < len(os_) {
				ov = os_[i]
			}
			if !core.Match(es[i], ov) {
				return fmt.Sprintf("status|%s|exp=%v|got=%v|%s", op, es[i], ov, blockShape(b, i+1))
			}
		}
	}
	return fmt.Sprintf("%s|%s|exp=%s|got=%s", op, field, clip(core.J(expected), 60), clip(core.J(observed), 60))
}

func clip(s string, n int) string {
	if len(s) > n {
		return s[:n]
	}
	return s
}

// shapeOf describes the light blocks received before step idx (the relation class of the inputs).
func shapeOf(b *core.Behaviour, idx int) string {
	var parts []string
	for i := 0; i <= idx && i < len(b.Steps); i++ {
		s := b.Steps[i]
		if s.Op() == "RecvLight" {
			parts = append(parts, shape(s))
		}
		if s.Op() == "RecvMalformed" && i == idx {
			parts = append(parts, "class="+s.Str("class"))
		}
	}
	if len(parts) > 2 {
		parts = parts[len(parts)-2:]
	}
	return strings.Join(parts, ";")
}

func blockShape(b *core.Behaviour, id int) string {
	for _, s := range b.Steps {
		if s.Op() == "RecvLight" && s.Int("id") == id {
			return shape(s)
		}
	}
	return "?"
}

func shape(s core.Step) string {
	lay := layoutOf(s)
	g := "genuine"
	if !genuine(s) {
		g = fmt.Sprintf("n=%d,m=%d,miner=%v", s.Int("n"), s.Int("m"), s.Bool("miner"))
	}
	return fmt.Sprintf("lay=%s,%s", strings.Join(lay, "."), g)
}

func layoutOf(s core.Step) []string {
	var lay []string
	for _, x := range s.List("lay") {
		lay = append(lay, fmt.Sprint(x))
	}
	return lay
}

func segSize(k string) int {
	switch k {
	case "G2":
		return 2
	case "G3":
		return 3
	}
	return 1
}

func trueN(lay []string) int {
	n := 1
	for _, k := range lay {
		n += segSize(k)
	}
	return n
}

func genuine(s core.Step) bool {
	n := trueN(layoutOf(s))
	return s.Int("n") == n && s.Int("m") == n && s.Bool("miner")
}

// NonTrivial (DESIGN §4): C33 — a structurally inconsistent message, a malformed input on another
// path, or a pool update after a pending block; C34 — a genuine block containing a group that is
// received with some of its transactions missing and whose pool changes (or was pre-filled).
func (d *pdrv) NonTrivial(env *core.Env, b *core.Behaviour) bool {
	seenLight, prefilled, c33, groupPend, c34 := false, false, false, false, false
	for _, s := range b.Steps {
		switch s.Op() {
		case "SetPool":
			prefilled = true
		case "RecvLight":
			seenLight = true
			if !genuine(s) {
				c33 = true
			} else {
				hasG := false
				for _, k := range layoutOf(s) {
					if k != "S" {
						hasG = true
					}
				}
				if hasG && statusOf(s, s.Int("id")) == "pend" {
					groupPend = true
					if prefilled {
						c34 = true
					}
				}
			}
		case "PoolUpdate":
			if seenLight {
				c33 = true
			}
			if groupPend {
				c34 = true
			}
		case "RecvMalformed":
			c33 = true
		}
	}
	if env.Prop == "C34" {
		return c34
	}
	return c33
}

func statusOf(s core.Step, id int) string {
	if m, ok := s["chk"].(map[string]any); ok {
		if l, ok := m["st"].([]any); ok && id >= 1 && id <= len(l) {
			return fmt.Sprint(l[id-1])
		}
	}
	return ""
}

func main() {
	if len(os.Args) > 1 && os.Args[1] == "child" {
		childMain()
		return
	}
	core.Main(&core.Family{
		Name:      "P2PRecv",
		NewDriver: func() core.Driver { return &pdrv{} },
		Recorders: map[string]core.Recorder{"default": recordLive, "live": recordLive},
		Extra: map[string]func(env *core.Env, args []string) int{
			"fuzz": fuzzMain,
		},
	})
}
