package main

// Concretisation of the model's light blocks / pool and execution of the model steps on the
// real protocol instance.

import (
	"bytes"
	"encoding/hex"
	"fmt"
	"math/rand"

	"github.com/33cn/chain33/common/merkle"
	"github.com/33cn/chain33/system/p2p/dht/protocol/broadcast"
	"github.com/33cn/chain33/types"
	"github.com/libp2p/go-libp2p/core/peer"

	"verif/harness/core"
)

// conc holds the concrete objects behind the model's hash ids.
type conc struct {
	w      *world
	r      *rand.Rand
	single map[int]*types.Transaction     // id -> T(id)
	group  map[[2]int]*types.Transactions // (id, k) -> G(id, k)
	blocks map[int]*cblock                // model block id -> concrete block
	poolOf map[int]string                 // id -> kind currently in the pool
	nonce  int64
	last   *types.LightBlock // the last model light block delivered
}

const hugeCount = 99 // model number standing for an announced transaction count of 2^40

type cblock struct {
	id     int
	orig   *types.Block
	hash   string // hex of the header hash announced
	height int64
	from   peer.ID
	gen    bool
}

func newConc(w *world) *conc {
	h := int64(0)
	for _, c := range w.bid {
		h = h*131 + int64(c)
	}
	salt := int64(0)
	fmt.Sscan(w.opts["salt"], &salt)
	return &conc{w: w, r: rand.New(rand.NewSource(w.seed*1000003 + h + salt*7919)),
		single: map[int]*types.Transaction{}, group: map[[2]int]*types.Transactions{},
		blocks: map[int]*cblock{}, poolOf: map[int]string{}}
}

var execers = []string{"coins", "none", "token", "user.p.para.coins", "manage"}

func (c *conc) newTx() *types.Transaction {
	c.nonce++
	pl := make([]byte, c.r.Intn(180))
	c.r.Read(pl)
	to := make([]byte, 20)
	c.r.Read(to)
	return &types.Transaction{Execer: []byte(execers[c.r.Intn(len(execers))]), Payload: pl,
		Fee: int64(100000 + c.r.Intn(1000000)), Expire: int64(c.r.Intn(1000)), Nonce: c.r.Int63(),
		To: "1" + hex.EncodeToString(to)[:33]}
}

func (c *conc) T(id int) *types.Transaction {
	if t, ok := c.single[id]; ok {
		return t
	}
	t := c.newTx()
	c.single[id] = t
	return t
}

func (c *conc) G(id, k int) *types.Transactions {
	key := [2]int{id, k}
	if g, ok := c.group[key]; ok {
		return g
	}
	var txs []*types.Transaction
	for i := 0; i < k; i++ {
		txs = append(txs, c.newTx())
	}
	g, err := types.CreateTxGroup(txs, c.w.env.ChainCfg.GetMinTxFeeRate())
	if err != nil {
		panic("CreateTxGroup: " + err.Error())
	}
	c.group[key] = g
	return g
}

func kindSize(k string) int {
	switch k {
	case "g2":
		return 2
	case "g3":
		return 3
	}
	return 1
}

// fullHash: the transaction hash whose short form the block announces for (id, kind)
func (c *conc) fullHash(id int, kind string) []byte {
	if kind == "tx" {
		return c.T(id).Hash()
	}
	return c.G(id, kindSize(kind)).GetTxs()[0].Hash()
}

// poolObj: what the mempool stores for (id, kind): the tx, or the group transaction
func (c *conc) poolObj(id int, kind string) *types.Transaction {
	if kind == "tx" {
		return c.T(id)
	}
	return c.G(id, kindSize(kind)).Tx()
}

var kinds = []string{"tx", "g2", "g3"}

// setPool makes the pool answer every short hash of id with the object of the given kind
// (the entry under the object's own short hash is a genuine one; the entries under the other
// two short hashes stand for a short-hash collision / a hostile announcement).
func (c *conc) setPool(id int, kind string) {
	c.w.mu.Lock()
	defer c.w.mu.Unlock()
	for _, k := range kinds {
		c.w.cache.Remove(string(c.fullHash(id, k)))
	}
	if kind != "absent" {
		obj := c.poolObj(id, kind)
		for _, k := range kinds {
			c.w.cache.Push(obj, c.fullHash(id, k))
		}
	}
	c.poolOf[id] = kind
}

func segKind(s string) string {
	switch s {
	case "G2":
		return "g2"
	case "G3":
		return "g3"
	}
	return "tx"
}

// build the original block of a layout
func (c *conc) origBlock(lay []string, base int, height int64) *types.Block {
	miner := c.newTx()
	miner.Execer = []byte("ticket")
	txs := []*types.Transaction{miner}
	for j, seg := range lay {
		id := base + j
		if seg == "S" {
			txs = append(txs, c.T(id))
		} else {
			txs = append(txs, c.G(id, segSize(seg)).GetTxs()...)
		}
	}
	ph := make([]byte, 32)
	c.r.Read(ph)
	sh := make([]byte, 32)
	c.r.Read(sh)
	cfg := c.w.env.ChainCfg
	b := &types.Block{Version: 0, ParentHash: ph, StateHash: sh, Height: height, BlockTime: 1600000000 + height,
		Difficulty: 520159231, Txs: txs}
	b.TxHash = merkle.CalcMerkleRoot(cfg, height, txs)
	return b
}

func (c *conc) junkShort() string {
	b := make([]byte, 5)
	c.r.Read(b)
	return hex.EncodeToString(b)
}

// ---------------------------------------------------------------------------------------

func (w *world) apply(s core.Step) (ret any, chk any, err error) {
	alive := map[string]any{"alive": true}
	switch s.Op() {
	case "SetPool":
		for i, v := range s.List("pool") {
			if k := fmt.Sprint(v); k != "absent" {
				w.conc.setPool(i+1, k)
			}
		}
		return alive, nil, nil
	case "PoolUpdate":
		w.conc.setPool(s.Int("h"), s.Str("k"))
	case "RecvLight":
		if err := w.recvLight(s); err != nil {
			return nil, nil, err
		}
	case "Expire":
		if cb := w.conc.blocks[s.Int("id")]; cb != nil {
			w.h.Expire(cb.hash)
		}
	case "Tick":
		if !w.h.Tick(broadcast.VerifLoopPendBlock, stepWait) {
			return map[string]any{"alive": true, "loop": "stalled"}, nil, nil
		}
	case "RecvMalformed":
		if err := w.recvMalformed(s.Str("class"), s); err != nil {
			return nil, nil, err
		}
	case "Probe":
		r, err := w.probe()
		if err != nil {
			return nil, nil, err
		}
		if err := w.flush(); err != nil {
			return nil, nil, err
		}
		return r, w.statuses(s), nil
	default:
		return nil, nil, fmt.Errorf("unknown op %s", s.Op())
	}
	if err := w.flush(); err != nil {
		return nil, nil, err
	}
	return alive, w.statuses(s), nil
}

func (w *world) recvLight(s core.Step) error {
	c := w.conc
	id := s.Int("id")
	lay := layoutOf(s)
	base := s.Int("base")
	n, m, miner := s.Int("n"), s.Int("m"), s.Bool("miner")
	height := int64(1000 + id)
	orig := c.origBlock(lay, base, height)
	lb := w.h.BuildLtBlock(orig)
	cb := &cblock{id: id, orig: orig, hash: hex.EncodeToString(lb.GetHeader().GetHash()), height: height,
		from: w.peers[1+id%3], gen: genuine(s)}
	c.blocks[id] = cb
	// malformations of the announcement
	lb.Header.TxCount = int64(n)
	if n == hugeCount {
		lb.Header.TxCount = 1 << 40
	}
	c.last = lb
	if m < len(lb.STxHashes) {
		lb.STxHashes = lb.STxHashes[:m]
	}
	for len(lb.STxHashes) < m {
		lb.STxHashes = append(lb.STxHashes, c.junkShort())
	}
	if !miner {
		lb.MinerTx = nil
	}
	return w.deliverLight(lb, cb.from)
}

// deliverLight: wire encoding -> topic validator -> decode -> handleBroadcastReceive
func (w *world) deliverLight(lb *types.LightBlock, from peer.ID) error {
	_, _, _, ltTopic, _ := w.h.Topics(w.host.ID())
	raw := w.h.EncodeMsg(lb)
	// the forwarding neighbour (receiveFrom, the "sender" a full block is requested from) differs from the publisher
	_, decodeFailed := w.h.ReceiveRaw(ltTopic, raw, from, w.peers[0])
	if decodeFailed {
		return fmt.Errorf("harness: own light block did not decode")
	}
	return nil
}

// statuses: observed status of every model block received so far.
func (w *world) statuses(s core.Step) any {
	var exp []any
	if m, ok := s["chk"].(map[string]any); ok {
		exp, _ = m["st"].([]any)
	}
	pend := map[string]bool{}
	for _, h := range w.h.Pending() {
		pend[h] = true
	}
	w.mu.Lock()
	defer w.mu.Unlock()
	out := []any{}
	for id := 1; id <= len(w.conc.blocks); id++ {
		cb := w.conc.blocks[id]
		if cb == nil {
			out = append(out, "none")
			continue
		}
		st := w.statusOf(cb, pend)
		if id-1 < len(exp) && exp[id-1] == "posted|req" && (st == "posted" || st == "req") {
			st = "posted|req" // either outcome is accepted (see the specification header)
		}
		out = append(out, st)
	}
	return map[string]any{"st": out}
}

func (w *world) statusOf(cb *cblock, pend map[string]bool) string {
	_, _, _, _, topic := w.h.Topics(cb.from)
	st := ""
	nposted := 0
	for _, p := range w.posted {
		if p.block.GetHeight() != cb.height {
			continue
		}
		nposted++
		if sameBlock(w, p.block, cb.orig) {
			st = "posted"
		} else {
			st = "posted-wrong"
		}
	}
	if nposted > 1 {
		st += fmt.Sprintf("x%d", nposted)
	}
	for _, r := range w.reqs {
		if r.msgID == broadcast.VerifBlockReqMsgID && r.height == cb.height {
			q := "req"
			if r.topic != topic {
				q = "req-wrongpeer"
			}
			if st == "" {
				st = q
			} else if st != q {
				st += "+" + q
			}
		}
	}
	if pend[cb.hash] {
		if st == "" {
			return "pend"
		}
		return st + "+pend"
	}
	if st == "" {
		return "lost"
	}
	return st
}

// sameBlock: same header, same transactions in the same positions, same hash, and the
// transactions hash to the announced merkle root.
func sameBlock(w *world, got, orig *types.Block) bool {
	cfg := w.env.ChainCfg
	if len(got.GetTxs()) != len(orig.GetTxs()) {
		return false
	}
	for i := range orig.Txs {
		if got.Txs[i] == nil || !bytes.Equal(types.Encode(got.Txs[i]), types.Encode(orig.Txs[i])) {
			return false
		}
	}
	if !bytes.Equal(got.Hash(cfg), orig.Hash(cfg)) {
		return false
	}
	return bytes.Equal(merkle.CalcMerkleRoot(cfg, got.Height, got.Txs), orig.TxHash)
}

// probe: is the receive path still serving well-formed light blocks, and is the loop iterating?
func (w *world) probe() (map[string]any, error) {
	c := w.conc
	res := map[string]any{"alive": true, "recv": "?", "loop": "?", "val": "ok"}
	_, _, _, _, _ = w.h.Topics(w.host.ID())
	// A: one ordinary transaction, present in the pool -> posted on receipt
	ta := c.newTx()
	w.mu.Lock()
	w.cache.Push(ta, ta.Hash())
	w.mu.Unlock()
	mk := func(tx *types.Transaction, height int64, from peer.ID) (*cblock, *types.LightBlock) {
		miner := c.newTx()
		txs := []*types.Transaction{miner, tx}
		b := &types.Block{Height: height, BlockTime: 1700000000, ParentHash: []byte("probe-parent-hash-0000000000000"), Txs: txs}
		b.TxHash = merkle.CalcMerkleRoot(w.env.ChainCfg, height, txs)
		lb := w.h.BuildLtBlock(b)
		return &cblock{orig: b, hash: hex.EncodeToString(lb.GetHeader().GetHash()), height: height, from: from, gen: true}, lb
	}
	ca, la := mk(ta, 5001, w.peers[0])
	if err := w.deliverLight(la, ca.from); err != nil {
		return nil, err
	}
	if err := w.flush(); err != nil {
		return nil, err
	}
	res["recv"] = w.lockedStatus(ca)
	// B: its transaction never arrives -> pending, timeout, next iteration requests it from the sender
	cbk, lbk := mk(c.newTx(), 5002, w.peers[4])
	if err := w.deliverLight(lbk, cbk.from); err != nil {
		return nil, err
	}
	w.h.Expire(cbk.hash)
	if !w.h.Tick(broadcast.VerifLoopPendBlock, stepWait) {
		res["loop"] = "stalled"
		return res, nil
	}
	if err := w.flush(); err != nil {
		return nil, err
	}
	res["loop"] = w.lockedStatus(cbk)
	// the validator's reply-collecting loop (manageDeniedPeer) still iterates
	if w.h.HasValidator() && !w.h.Tick(broadcast.VerifLoopDenied, stepWait) {
		res["val"] = "stalled"
	}
	return res, nil
}

func (w *world) lockedStatus(cb *cblock) string {
	pend := map[string]bool{}
	for _, h := range w.h.Pending() {
		pend[h] = true
	}
	w.mu.Lock()
	defer w.mu.Unlock()
	return w.statusOf(cb, pend)
}
