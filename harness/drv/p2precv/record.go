package main

// Recorder "live" (binding B): the real protocol runs with its own 200 ms tickers and a real
// pending timeout; a seeded scenario delivers light blocks and changes the pool while the
// loops run concurrently. What the harness does (Recv, Pool) and what it observes (Posted,
// Req, Final) is logged in one global order; loop iterations and the passing of the timeout
// are not logged - the trace specification treats them as silent steps.

import (
	"encoding/hex"
	"fmt"
	"math/rand"
	"sync"
	"time"

	"github.com/33cn/chain33/types"

	"verif/harness/core"
)

const liveTimeoutMS = 300

type liveRec struct {
	w        *world
	mu       sync.Mutex // orders harness actions, pool changes and the log
	events   []map[string]any
	deadline map[int]time.Time // block id -> earliest moment its timeout can have passed
	mayexp   map[int]bool
	seenPost map[int]bool
	seenReq  map[int]bool
}

// log appends an event; before it, every block whose timeout may have passed by now is announced.
func (l *liveRec) log(ev map[string]any) {
	now := time.Now()
	for id := 1; id <= len(l.deadline); id++ {
		if !l.mayexp[id] && !now.Before(l.deadline[id]) {
			l.mayexp[id] = true
			l.events = append(l.events, map[string]any{"ev": "MayExpire", "id": id})
		}
	}
	l.events = append(l.events, ev)
}

// observe drains what the protocol sent and logs new postings / requests of model blocks.
func (l *liveRec) observe() error {
	if err := l.w.flush(); err != nil {
		return err
	}
	l.w.mu.Lock()
	posted := append([]posted{}, l.w.posted...)
	reqs := append([]reqSeen{}, l.w.reqs...)
	l.w.mu.Unlock()
	for id := 1; id <= len(l.w.conc.blocks); id++ {
		cb := l.w.conc.blocks[id]
		if !l.seenPost[id] {
			for _, p := range posted {
				if p.block.GetHeight() == cb.height {
					l.seenPost[id] = true
					l.log(map[string]any{"ev": "Posted", "id": id, "ok": sameBlock(l.w, p.block, cb.orig)})
					break
				}
			}
		}
		if !l.seenReq[id] {
			_, _, _, _, topic := l.w.h.Topics(cb.from)
			for _, r := range reqs {
				if r.height == cb.height {
					l.seenReq[id] = true
					l.log(map[string]any{"ev": "Req", "id": id, "peerok": r.topic == topic})
					break
				}
			}
		}
	}
	return nil
}

var liveLayouts = [][]string{{}, {"S"}, {"S", "S"}, {"G2"}, {"S", "G2"}, {"G2", "S"}, {"G3"}, {"S", "S", "S"},
	{"G2", "G2"}, {"S", "G3"}, {"G3", "S", "S"}, {"S", "G2", "S"}}

// runLive executes one scenario and returns its events.
func runLive(seed int64, idx int, opts map[string]string) ([]map[string]any, bool, error) {
	o := map[string]string{"realtick": "1", "pendms": fmt.Sprint(liveTimeoutMS)}
	for k, v := range opts {
		o[k] = v
	}
	w, err := newWorld(seed, fmt.Sprintf("live-%d", idx), o)
	if err != nil {
		return nil, false, err
	}
	defer w.close()
	r := rand.New(rand.NewSource(seed*7919 + int64(idx)*104729))
	l := &liveRec{w: w, deadline: map[int]time.Time{}, mayexp: map[int]bool{}, seenPost: map[int]bool{}, seenReq: map[int]bool{}}
	nblocks := 2 + r.Intn(3)
	nh := 4
	nontrivial := false
	type blk struct {
		lay  []string
		base int
	}
	var blks []blk
	settled := map[int]bool{}
	pause := func() { time.Sleep(time.Duration(r.Intn(160)) * time.Millisecond) }
	steps := 6 + r.Intn(8)
	for s := 0; s < steps; s++ {
		l.mu.Lock()
		switch {
		case len(blks) < nblocks && (len(blks) == 0 || r.Intn(3) == 0):
			lay := liveLayouts[r.Intn(len(liveLayouts))]
			base := 1
			if len(lay) > 0 && len(lay) < nh {
				base = 1 + r.Intn(nh-len(lay)+1)
			}
			n := trueN(lay)
			m, miner := n, true
			if r.Intn(5) == 0 { // a hostile announcement now and then
				switch r.Intn(4) {
				case 0:
					n = r.Intn(6) - 1
				case 1:
					m = r.Intn(6)
				case 2:
					miner = false
				case 3:
					n = hugeCount
				}
			}
			id := len(blks) + 1
			blks = append(blks, blk{lay, base})
			st := core.Step{"op": "RecvLight", "id": float64(id), "lay": toAny(lay), "base": float64(base), "n": float64(n), "m": float64(m), "miner": miner}
			l.deadline[id] = time.Now().Add(liveTimeoutMS * time.Millisecond)
			l.log(map[string]any{"ev": "Recv", "id": id, "lay": lay, "base": base, "n": n, "m": m, "miner": miner})
			if err := w.recvLight(st); err != nil {
				l.mu.Unlock()
				return nil, false, err
			}
			if !contains(w.h.Pending(), w.conc.blocks[id].hash) {
				settled[id] = true // posted or dropped at receipt: no later request can be outstanding
			}
			for _, k := range lay {
				if k != "S" {
					nontrivial = true
				}
			}
		default:
			h := 1 + r.Intn(nh)
			k := "absent"
			if r.Intn(4) != 0 {
				k = kinds[r.Intn(len(kinds))]
				// mostly the kind some received block expects behind h
				if r.Intn(4) != 0 {
					for _, b := range blks {
						if j := h - b.base; j >= 0 && j < len(b.lay) {
							k = segKind(b.lay[j])
						}
					}
				}
			}
			l.log(map[string]any{"ev": "Pool", "h": h, "k": k})
			w.conc.setPool(h, k)
		}
		if err := l.observe(); err != nil {
			l.mu.Unlock()
			return nil, false, err
		}
		l.mu.Unlock()
		pause()
	}
	// quiescence: every pending block is built or times out; the loops run on their own
	deadline := time.Now().Add(stepWait)
	for len(w.h.Pending()) > 0 {
		if time.Now().After(deadline) {
			return nil, false, fmt.Errorf("live: blocks still pending %s after their timeout (loop not iterating or machine stalled)", stepWait)
		}
		time.Sleep(20 * time.Millisecond)
	}
	l.mu.Lock()
	defer l.mu.Unlock()
	// a block leaves the pending list inside buildPendList, its request is published by the loop a
	// moment later: poll until every block is accounted for (or report it as lost after the deadline)
	var fin []any
	lostDeadline := time.Now().Add(60 * time.Second)
	for {
		if err := l.observe(); err != nil {
			return nil, false, err
		}
		pend := map[string]bool{}
		for _, h := range w.h.Pending() {
			pend[h] = true
		}
		fin = fin[:0]
		lost := false
		w.mu.Lock()
		for id := 1; id <= len(w.conc.blocks); id++ {
			st := w.statusOf(w.conc.blocks[id], pend)
			lost = lost || (st == "lost" && !settled[id])
			fin = append(fin, st)
		}
		w.mu.Unlock()
		if !lost || time.Now().After(lostDeadline) {
			break
		}
		time.Sleep(10 * time.Millisecond)
	}
	l.log(map[string]any{"ev": "Final", "st": fin})
	return l.events, nontrivial, nil
}

func contains(l []string, x string) bool {
	for _, y := range l {
		if y == x {
			return true
		}
	}
	return false
}

func toAny(s []string) []any {
	out := make([]any, len(s))
	for i, x := range s {
		out[i] = x
	}
	return out
}

// recordLive is the parent-side recorder: scenarios run in child processes (a crash is an event).
func recordLive(env *core.Env, emit func(map[string]any)) (*core.Summary, error) {
	n := env.OptInt("n", 12)
	par := env.OptInt("par", 4)
	sum := &core.Summary{Counters: map[string]int{}}
	type res struct {
		idx    int
		events []map[string]any
		nt     bool
		crash  string
		err    error
	}
	out := make([]res, n)
	var wg sync.WaitGroup
	jobs := make(chan int)
	for p := 0; p < par; p++ {
		wg.Add(1)
		go func() {
			defer wg.Done()
			var c *child
			defer func() {
				if c != nil && !c.dead {
					c.kill()
				}
			}()
			for i := range jobs {
				if c == nil || c.dead {
					var err error
					c, err = spawn()
					if err != nil {
						out[i] = res{idx: i, err: err}
						continue
					}
				}
				rp, died, err := c.call(&request{Cmd: "live", Seed: env.Seed, Idx: i, Opts: env.Opts}, 4*callTimeout)
				switch {
				case err != nil:
					out[i] = res{idx: i, err: err}
				case died:
					out[i] = res{idx: i, crash: crashClass(c.errs.String())}
				case !rp.OK:
					out[i] = res{idx: i, err: fmt.Errorf("%s", rp.Err)}
				default:
					m, _ := rp.Ret.(map[string]any)
					var evs []map[string]any
					if l, ok := m["events"].([]any); ok {
						for _, e := range l {
							if em, ok := e.(map[string]any); ok {
								evs = append(evs, em)
							}
						}
					}
					nt, _ := m["nontrivial"].(bool)
					out[i] = res{idx: i, events: evs, nt: nt}
				}
			}
		}()
	}
	for i := 0; i < n; i++ {
		jobs <- i
	}
	close(jobs)
	wg.Wait()
	for _, r := range out {
		if r.err != nil {
			return nil, fmt.Errorf("trace %d: %v", r.idx, r.err)
		}
		emit(map[string]any{"ev": "Reset", "trace": r.idx})
		if r.crash != "" {
			emit(map[string]any{"ev": "Crash", "trace": r.idx, "msg": r.crash})
			continue
		}
		for _, e := range r.events {
			emit(e)
		}
		sum.Behaviours++
		if r.nt {
			sum.NonTrivial++
		}
		if len(sum.Samples) < 2 {
			sum.Samples = append(sum.Samples, map[string]any{"trace": r.idx, "events": r.events})
		}
	}
	return sum, nil
}

var _ = hex.EncodeToString
var _ types.Message
