package main

import (
	"fmt"
	"math/rand"

	"verif/harness/core"
)

var allOps = []string{"Transfer", "Mint", "Burn", "GenesisInit", "TransferToExec", "TransferWithdraw", "GenesisInitExec",
	"ExecFrozen", "ExecActive", "ExecTransfer", "ExecTransferFrozen", "ExecDepositFrozen", "ExecDeposit", "ExecWithdraw",
	"ExecIssueCoins"}

func fl(xs []int64) []any {
	out := make([]any, len(xs))
	for i, x := range xs {
		out[i] = float64(x)
	}
	return out
}

// intsOnly replaces anomalies (strings) in a projection by 0 and reports whether there were any;
// TLC must only ever see integers in these positions.
func intsOnly(p map[string]any) (map[string]any, bool) {
	bad := false
	fix := func(v any) any {
		switch x := v.(type) {
		case int64:
			if x > 2000000000 || x < -2000000000 {
				bad = true
				return 0
			}
			return x
		case float64, int:
			return x
		}
		bad = true
		return 0
	}
	out := map[string]any{}
	for _, k := range []string{"bal", "x"} {
		l, _ := p[k].([]any)
		r := make([]any, len(l))
		for i := range l {
			r[i] = fix(l[i])
		}
		out[k] = r
	}
	for _, k := range []string{"sb", "sf"} {
		l, _ := p[k].([]any)
		r := make([]any, len(l))
		for i := range l {
			row, _ := l[i].([]any)
			rr := make([]any, len(row))
			for j := range row {
				rr[j] = fix(row[j])
			}
			r[i] = rr
		}
		out[k] = r
	}
	if _, ok := p["stray"]; ok {
		bad = true
	}
	if _, ok := p["changed_on_error"]; ok {
		bad = true
	}
	return out, bad
}

// record: seeded random histories on the real account.DB with more accounts and a finer amount
// unit than TLC explores exhaustively. Every call is logged with its arguments (identities and
// spellings), its result class and the whole ledger read back under every spelling.
// Validated by Account_Trace (all invariants evaluated at every step).
func record(env *core.Env, emit func(map[string]any)) (*core.Summary, error) {
	sum := &core.Summary{Counters: map[string]int{}}
	n := env.OptInt("n", 20)
	nu := env.OptInt("users", 6)
	ne := env.OptInt("execs", 3)
	depth := env.OptInt("depth", 50)
	if env.Opts == nil {
		env.Opts = map[string]string{}
	}
	if _, ok := env.Opts["unit"]; !ok {
		env.Opts["unit"] = "1e14"
	}
	r := rand.New(rand.NewSource(env.Seed*7 + 3 + int64(env.OptInt("rsalt", 0))*104729))
	for t := 0; t < n; t++ {
		d := &drv{}
		b := &core.Behaviour{ID: fmt.Sprintf("rec-%d-%d", env.Seed, t), Steps: []core.Step{{"op": "Setup"}}}
		if err := d.Reset(env, b); err != nil {
			return nil, err
		}
		var unit float64
		fmt.Sscanf(env.Opts["unit"], "%g", &unit)
		u64 := int64(unit)
		opL, balL, intL := int64(1e17)/u64, int64(9e18)/u64, int64(9223372036854775807)/u64
		// initial ledger
		var hexs, miners []any
		for u := 1; u <= nu; u++ {
			if u%2 == 1 {
				hexs = append(hexs, float64(u))
			}
		}
		miners = append(miners, float64(1))
		pick := func(max int64) int64 {
			v := pick0(r, max, opL)
			if v > max {
				v = max
			}
			if v < 0 {
				v = 0
			}
			return v
		}
		_ = pick
		bal := make([]int64, nu)
		for i := range bal {
			bal[i] = pick(balL)
		}
		x := make([]int64, ne)
		sb := make([]any, ne)
		sf := make([]any, ne)
		drift := t%4 == 3
		for e := 0; e < ne; e++ {
			rb, rf := make([]int64, nu), make([]int64, nu)
			left := balL
			if e > 0 {
				left = pick(balL)
			}
			for u := 0; u < nu; u++ {
				if drift && e == 0 && u < 2 {
					// raw deposits have pushed these records towards the integer limit
					rb[u] = intL - r.Int63n(2*opL)
					rf[u] = r.Int63n(opL)
					continue
				}
				v := pick(left)
				if v > left {
					v = left
				}
				f := int64(0)
				if r.Intn(2) == 0 {
					f = r.Int63n(v + 1)
				}
				rb[u], rf[u] = v-f, f
				left -= v
			}
			var tot int64
			for u := 0; u < nu; u++ {
				if !(drift && e == 0 && u < 2) {
					tot += rb[u] + rf[u]
				}
			}
			x[e] = tot
			sb[e], sf[e] = fl(rb), fl(rf)
		}
		setup := core.Step{"op": "Setup", "hex": hexs, "miners": miners, "lim": fl([]int64{opL, balL, intL}),
			"chk": map[string]any{"bal": fl(bal), "x": fl(x), "sb": sb, "sf": sf}}
		_, chk, err := d.Apply(setup)
		if err != nil {
			return nil, err
		}
		c0, bad0 := intsOnly(chk.(map[string]any))
		ev0 := map[string]any{"ev": "Reset", "bad": b2i(bad0)}
		for k, v := range c0 {
			ev0[k] = v
		}
		emit(ev0)
		two, limErr := false, false
		var evs []any
		cur := c0
		cellv := func(k string, i, j int) int64 {
			l, _ := cur[k].([]any)
			if i < 1 || i > len(l) {
				return 0
			}
			if j == 0 {
				return toI64(l[i-1])
			}
			row, _ := l[i-1].([]any)
			if j < 1 || j > len(row) {
				return 0
			}
			return toI64(row[j-1])
		}
		for i := 0; i < depth; i++ {
			op := allOps[r.Intn(len(allOps))]
			var st core.Step
			var src int64 // funds the operation draws from (-1: none needed)
			for try := 0; try < 4; try++ {
				st = core.Step{"op": op}
				user := func(k, ks string) int {
					u := 1 + r.Intn(nu)
					sp := 1
					if u%2 == 1 {
						sp = 1 + r.Intn(3)
					}
					st[k], st[ks] = float64(u), float64(sp)
					return u
				}
				src = -1
				switch op {
				case "Transfer", "ExecTransfer", "ExecTransferFrozen":
					f := user("f", "fs")
					if r.Intn(3) == 0 {
						// the same account again, under an independent spelling
						sp := 1
						if f%2 == 1 {
							sp = 1 + r.Intn(3)
						}
						st["t"], st["ts"] = float64(f), float64(sp)
					} else {
						user("t", "ts")
					}
					src = cellv("bal", f, 0)
					if op != "Transfer" {
						e := 1 + r.Intn(ne)
						st["e"] = float64(e)
						if op == "ExecTransfer" {
							src = cellv("sb", e, f)
						} else {
							src = cellv("sf", e, f)
						}
					}
				case "ExecIssueCoins":
					st["e"] = float64(1 + r.Intn(ne))
					if r.Intn(2) == 0 {
						st["e"] = float64(1)
					}
				case "Mint", "GenesisInit":
					user("u", "us")
				case "Burn":
					src = cellv("bal", user("u", "us"), 0)
				default:
					u := user("u", "us")
					e := 1 + r.Intn(ne)
					if op == "ExecDepositFrozen" && r.Intn(2) == 0 {
						e = 1
					}
					st["e"] = float64(e)
					switch op {
					case "TransferToExec":
						src = cellv("bal", u, 0)
					case "TransferWithdraw", "ExecFrozen", "ExecWithdraw":
						src = cellv("sb", e, u)
					case "ExecActive":
						src = cellv("sf", e, u)
					}
				}
				if src != 0 {
					break
				}
			}
			var amt int64
			switch x := r.Intn(20); {
			case x == 0:
				amt = 0
			case x == 1:
				amt = -1 - r.Int63n(3)
			case x == 2:
				amt = opL
			case x == 3:
				amt = opL + 1 + r.Int63n(5)
			case x < 7:
				amt = opL - 1
			case x < 9:
				amt = 1 + r.Int63n(3)
			case x < 11 && src > 0:
				amt = src // everything
			case x < 12 && src > 0:
				amt = src + 1 // one unit too much
			case src > 0:
				m := src
				if m > opL-1 {
					m = opL - 1
				}
				amt = 1 + r.Int63n(m)
			default:
				amt = 1 + r.Int63n(opL-1)
			}
			if op == "GenesisInit" {
				switch r.Intn(4) {
				case 0:
					amt = balL - r.Int63n(opL)
				case 1:
					amt = r.Int63n(balL)
				case 2:
					amt = 0
				default:
					if amt < 0 {
						amt = -amt
					}
				}
			}
			if op == "GenesisInitExec" && (amt <= 0 || amt >= opL) {
				amt = 1 + r.Int63n(opL-1) // see the assumption in Account.tla
			}
			st["amt"] = float64(amt)
			ret, chk, err := d.Apply(st)
			if err != nil {
				d.Close()
				return nil, err
			}
			c, bad := intsOnly(chk.(map[string]any))
			cur = c
			ev := map[string]any{"ev": op, "ret": ret, "chk": c, "bad": b2i(bad)}
			for k, v := range st {
				if k != "op" {
					ev[k] = v
				}
			}
			// uniform shape for TLC: absent arguments are 0
			for _, k := range []string{"u", "us", "f", "fs", "t", "ts", "e"} {
				if _, ok := ev[k]; !ok {
					ev[k] = 0
				}
			}
			emit(ev)
			sum.Steps++
			if twoSpellings(st) {
				two = true
			}
			if ret == "err" && amt > 0 && amt < opL {
				limErr = true
			}
			if len(evs) < 10 {
				small := map[string]any{}
				for k, v := range ev {
					if k != "chk" {
						small[k] = v
					}
				}
				evs = append(evs, small)
			}
		}
		d.Close()
		sum.Behaviours++
		if two && limErr {
			sum.NonTrivial++
		}
		if len(sum.Samples) < 2 {
			sum.Samples = append(sum.Samples, map[string]any{"trace_prefix": evs})
		}
	}
	return sum, nil
}

func b2i(b bool) int {
	if b {
		return 1
	}
	return 0
}

func pick0(r *rand.Rand, max, opL int64) int64 {
	switch r.Intn(6) {
	case 0:
		return 0
	case 1:
		return 1 + r.Int63n(opL)
	case 2:
		return max - r.Int63n(opL)
	case 3:
		return max
	}
	return r.Int63n(3 * opL)
}

func toI64(v any) int64 {
	switch x := v.(type) {
	case int64:
		return x
	case int:
		return int64(x)
	case float64:
		return int64(x)
	}
	return 0
}
