// Driver for the Account family (C15): the real account.DB (coins ledger or a token
// ledger) over a memdb-backed KV. Model identities are concretised into base58 and hex
// addresses; a hex user is addressed under the spelling the step names (1 lower, 2 upper,
// 3 mixed case). After every operation the balance / frozen amount of every account is
// read back under EVERY spelling (LoadAccount / LoadExecAccount) and the raw store is
// inspected (records outside the canonical keys, changes made by a failed operation).
package main

import (
	"encoding/hex"
	"fmt"
	"math"
	"math/rand"
	"sort"
	"strings"
	"sync"

	"github.com/33cn/chain33/account"
	"github.com/33cn/chain33/common/address"
	dbm "github.com/33cn/chain33/common/db"
	clog "github.com/33cn/chain33/common/log"
	_ "github.com/33cn/chain33/system/address" // btc + eth address drivers
	"github.com/33cn/chain33/types"
	ethcommon "github.com/ethereum/go-ethereum/common"
	"verif/harness/core"
)

var (
	cfgOnce sync.Once
	cfg     *types.Chain33Config
)

func config() *types.Chain33Config {
	cfgOnce.Do(func() { cfg = types.NewChain33Config(types.GetDefaultCfgstring()) })
	return cfg
}

// executors offered to the model: miners first (ExecIssueCoins allowed), then ordinary ones
var minerNames = []string{"ticket", "autonomy"}
var plainNames = []string{"token", "trade", "paracross", "retrieve", "manage"}

type drv struct {
	env    *core.Env
	db     dbm.DB
	acc    *account.DB
	nu, ne int
	hexU   map[int]bool
	miners map[int]bool
	users  [][]string // users[u-1] = spellings (1 for base58, 3 for hex)
	execs  []string
	unit   int64
	lim    [3]int64 // OpLimit, BalLimit, IntMax in units
	r      *rand.Rand
	snap   map[string]string
	bid    string
	known  map[string]bool
	prefix string
}

func idHash(s string) int64 {
	h := int64(0)
	for _, c := range s {
		h = h*131 + int64(c)
	}
	return h
}

func hexSpellings(r *rand.Rand) []string {
	for {
		b := make([]byte, 20)
		r.Read(b)
		h := hex.EncodeToString(b)
		if !strings.ContainsAny(h, "abcdef") {
			continue
		}
		lower := "0x" + h
		upper := "0x" + strings.ToUpper(h)
		mixed := ethcommon.BytesToAddress(b).Hex() // EIP-55 checksum spelling
		if mixed == lower || mixed == upper {
			continue
		}
		return []string{lower, upper, mixed}
	}
}

func (d *drv) setup(s core.Step, id string) error {
	chk, _ := s["chk"].(map[string]any)
	if chk == nil {
		return fmt.Errorf("Setup without chk")
	}
	balL, _ := chk["bal"].([]any)
	xL, _ := chk["x"].([]any)
	d.nu, d.ne = len(balL), len(xL)
	d.hexU, d.miners = map[int]bool{}, map[int]bool{}
	for _, u := range s.Ints("hex") {
		d.hexU[u] = true
	}
	for _, e := range s.Ints("miners") {
		d.miners[e] = true
	}
	lim := s.Ints("lim")
	if len(lim) != 3 {
		return fmt.Errorf("Setup without lim")
	}
	c := config()
	d.unit = int64(1e16)
	if v := d.env.Opt("unit", ""); v != "" {
		var f float64
		fmt.Sscanf(v, "%g", &f)
		d.unit = int64(f)
	}
	for i := range lim {
		d.lim[i] = int64(lim[i])
	}
	// the scaled limits of the model must be the real ones
	if d.lim[0]*d.unit != types.MaxCoin*c.GetCoinPrecision() || d.lim[1]*d.unit != types.MaxTokenBalance ||
		d.lim[2] != math.MaxInt64/d.unit {
		return fmt.Errorf("model limits %v x unit %d are not the code's (%d, %d, %d)", d.lim, d.unit,
			types.MaxCoin*c.GetCoinPrecision(), types.MaxTokenBalance, int64(math.MaxInt64))
	}
	d.r = rand.New(rand.NewSource(d.env.Seed*1000003 + idHash(id) + int64(d.env.OptInt("salt", 0))*7919))
	d.users = nil
	for u := 1; u <= d.nu; u++ {
		if d.hexU[u] {
			d.users = append(d.users, hexSpellings(d.r))
		} else {
			pk := make([]byte, 33)
			d.r.Read(pk)
			d.users = append(d.users, []string{address.PubKeyToAddr(0, pk)})
		}
	}
	d.execs = nil
	mi, pi := 0, 0
	mn := append([]string{}, c.GetMinerExecs()...)
	if len(mn) == 0 {
		mn = minerNames
	}
	for e := 1; e <= d.ne; e++ {
		var name string
		if d.miners[e] {
			if mi >= len(mn) {
				return fmt.Errorf("not enough miner executors in the configuration")
			}
			name = c.ExecName(mn[mi])
			mi++
		} else {
			name = c.ExecName(plainNames[pi%len(plainNames)])
			pi++
		}
		d.execs = append(d.execs, address.ExecAddress(name))
	}
	var err error
	d.db, err = dbm.NewGoMemDB("account", "", 0)
	if err != nil {
		return err
	}
	if d.env.Opt("ledger", "coins") == "token" {
		d.acc, err = account.NewAccountDB(c, "token", "VRF", d.db)
		if err != nil {
			return err
		}
	} else {
		d.acc = account.NewCoinsAccount(c)
		d.acc.SetDB(d.db)
	}
	d.prefix = string(d.acc.AccountKey(""))
	d.known = map[string]bool{}
	for _, sp := range d.users {
		d.known[string(d.acc.AccountKey(sp[0]))] = true
		for _, ex := range d.execs {
			d.known[d.prefix+"exec-"+ex+":"+string(address.FormatAddrKey(sp[0]))] = true
		}
	}
	for _, ex := range d.execs {
		d.known[string(d.acc.AccountKey(ex))] = true
	}
	// seed the initial ledger through the public Save API, each record under a random spelling
	for u := 1; u <= d.nu; u++ {
		v := int64(core.ToInt(balL[u-1]))
		if v != 0 || d.r.Intn(2) == 0 {
			d.acc.SaveAccount(&types.Account{Addr: d.anySpell(u), Balance: v * d.unit})
		}
	}
	sbL, _ := chk["sb"].([]any)
	sfL, _ := chk["sf"].([]any)
	for e := 1; e <= d.ne; e++ {
		v := int64(core.ToInt(xL[e-1]))
		if v != 0 || d.r.Intn(2) == 0 {
			d.acc.SaveAccount(&types.Account{Addr: d.execs[e-1], Balance: v * d.unit})
		}
		sbe, _ := sbL[e-1].([]any)
		sfe, _ := sfL[e-1].([]any)
		for u := 1; u <= d.nu; u++ {
			b, f := int64(core.ToInt(sbe[u-1])), int64(core.ToInt(sfe[u-1]))
			if b != 0 || f != 0 || d.r.Intn(2) == 0 {
				d.acc.SaveExecAccount(d.execs[e-1], &types.Account{Addr: d.anySpell(u), Balance: b * d.unit, Frozen: f * d.unit})
			}
		}
	}
	d.snap = d.snapshot()
	return nil
}

func (d *drv) anySpell(u int) string {
	sp := d.users[u-1]
	return sp[d.r.Intn(len(sp))]
}

// spell returns the address of user u under spelling index s (1-based; base58 users have one)
func (d *drv) spell(u, s int) (string, error) {
	if u < 1 || u > len(d.users) {
		return "", fmt.Errorf("user %d out of range", u)
	}
	sp := d.users[u-1]
	if s < 1 || s > len(sp) {
		return "", fmt.Errorf("spelling %d of user %d out of range", s, u)
	}
	return sp[s-1], nil
}

func (d *drv) exec(e int) (string, error) {
	if e < 1 || e > len(d.execs) {
		return "", fmt.Errorf("executor %d out of range", e)
	}
	return d.execs[e-1], nil
}

func (d *drv) Reset(env *core.Env, b *core.Behaviour) error {
	d.env = env
	d.db, d.acc = nil, nil
	d.bid = b.ID
	if len(b.Steps) == 0 || b.Steps[0].Op() != "Setup" {
		return fmt.Errorf("behaviour %s does not start with Setup", b.ID)
	}
	return nil
}

func (d *drv) Close() {
	if d.db != nil {
		d.db.Close()
		d.db = nil
	}
}

func (d *drv) snapshot() map[string]string {
	m := map[string]string{}
	it := d.db.Iterator(nil, nil, false)
	for it.Rewind(); it.Valid(); it.Next() {
		m[string(it.Key())] = string(it.ValueCopy())
	}
	it.Close()
	return m
}

// val converts a real amount into model units; anything not representable is named
func (d *drv) val(v int64) any {
	if v%d.unit == 0 {
		return v / d.unit
	}
	return fmt.Sprintf("raw:%d", v)
}

// cell reports one (balance, frozen) pair read under all spellings
func (d *drv) cell(accs []*types.Account, wantFrozen bool) (any, any) {
	same := true
	for _, a := range accs[1:] {
		if a.Balance != accs[0].Balance || a.Frozen != accs[0].Frozen {
			same = false
		}
	}
	if !same {
		var bs, fs []string
		for _, a := range accs {
			bs = append(bs, fmt.Sprint(d.val(a.Balance)))
			fs = append(fs, fmt.Sprint(d.val(a.Frozen)))
		}
		return "split:" + strings.Join(bs, "/"), "split:" + strings.Join(fs, "/")
	}
	if !wantFrozen && accs[0].Frozen != 0 {
		return fmt.Sprintf("frozen-in-main:%v", d.val(accs[0].Frozen)), nil
	}
	return d.val(accs[0].Balance), d.val(accs[0].Frozen)
}

// project reads the whole ledger through the public API under every spelling
func (d *drv) project() map[string]any {
	bal := make([]any, d.nu)
	for u := 1; u <= d.nu; u++ {
		var accs []*types.Account
		for _, sp := range d.users[u-1] {
			accs = append(accs, d.acc.LoadAccount(sp))
		}
		bal[u-1], _ = d.cell(accs, false)
	}
	x := make([]any, d.ne)
	sb := make([]any, d.ne)
	sf := make([]any, d.ne)
	for e := 1; e <= d.ne; e++ {
		x[e-1], _ = d.cell([]*types.Account{d.acc.LoadAccount(d.execs[e-1])}, false)
		rb := make([]any, d.nu)
		rf := make([]any, d.nu)
		for u := 1; u <= d.nu; u++ {
			var accs []*types.Account
			for _, sp := range d.users[u-1] {
				accs = append(accs, d.acc.LoadExecAccount(sp, d.execs[e-1]))
			}
			rb[u-1], rf[u-1] = d.cell(accs, true)
		}
		sb[e-1], sf[e-1] = rb, rf
	}
	return map[string]any{"bal": bal, "x": x, "sb": sb, "sf": sf}
}

// observe = projection + raw-store anomalies (only present when something is wrong)
func (d *drv) observe(ret string) map[string]any {
	p := d.project()
	now := d.snapshot()
	var stray []string
	for k := range now {
		if !d.known[k] {
			stray = append(stray, k)
		}
	}
	if len(stray) > 0 {
		sort.Strings(stray)
		p["stray"] = stray
	}
	if ret != "ok" {
		changed := len(now) != len(d.snap)
		for k, v := range now {
			if ov, ok := d.snap[k]; !ok || ov != v {
				changed = true
			}
		}
		if changed {
			p["changed_on_error"] = true
		}
	}
	d.snap = now
	return p
}

func (d *drv) call(s core.Step) (ret string, err error) {
	amt := int64(s.Int("amt")) * d.unit
	var u, f, t, e string
	if _, ok := s["u"]; ok {
		if u, err = d.spell(s.Int("u"), s.Int("us")); err != nil {
			return
		}
	}
	if _, ok := s["f"]; ok {
		if f, err = d.spell(s.Int("f"), s.Int("fs")); err != nil {
			return
		}
		if t, err = d.spell(s.Int("t"), s.Int("ts")); err != nil {
			return
		}
	}
	if _, ok := s["e"]; ok {
		if e, err = d.exec(s.Int("e")); err != nil {
			return
		}
	}
	defer func() {
		if r := recover(); r != nil {
			ret = "panic"
		}
	}()
	var cerr error
	switch s.Op() {
	case "Transfer":
		_, cerr = d.acc.Transfer(f, t, amt)
	case "Mint":
		_, cerr = d.acc.Mint(u, amt)
	case "Burn":
		_, cerr = d.acc.Burn(u, amt)
	case "GenesisInit":
		_, cerr = d.acc.GenesisInit(u, amt)
	case "TransferToExec":
		_, cerr = d.acc.TransferToExec(u, e, amt)
	case "TransferWithdraw":
		_, cerr = d.acc.TransferWithdraw(u, e, amt)
	case "GenesisInitExec":
		_, cerr = d.acc.GenesisInitExec(u, amt, e)
	case "ExecFrozen":
		_, cerr = d.acc.ExecFrozen(u, e, amt)
	case "ExecActive":
		_, cerr = d.acc.ExecActive(u, e, amt)
	case "ExecTransfer":
		_, cerr = d.acc.ExecTransfer(f, t, e, amt)
	case "ExecTransferFrozen":
		_, cerr = d.acc.ExecTransferFrozen(f, t, e, amt)
	case "ExecDepositFrozen":
		_, cerr = d.acc.ExecDepositFrozen(u, e, amt)
	case "ExecDeposit":
		_, cerr = d.acc.ExecDeposit(u, e, amt)
	case "ExecWithdraw":
		_, cerr = d.acc.ExecWithdraw(e, u, amt)
	case "ExecIssueCoins":
		_, cerr = d.acc.ExecIssueCoins(e, amt)
	default:
		return "", fmt.Errorf("unknown op %q", s.Op())
	}
	if cerr != nil {
		return "err", nil
	}
	return "ok", nil
}

func (d *drv) Apply(s core.Step) (any, any, error) {
	if s.Op() == "Setup" {
		if err := d.setup(s, d.bid); err != nil {
			return nil, nil, err
		}
		return "ok", d.observe("ok"), nil
	}
	if d.acc == nil {
		return nil, nil, fmt.Errorf("%s before Setup", s.Op())
	}
	ret, err := d.call(s)
	if err != nil {
		return nil, nil, err
	}
	return ret, d.observe(ret), nil
}

// two address arguments naming one account under different spellings?
func twoSpellings(s core.Step) bool {
	_, ok := s["f"]
	return ok && s.Int("f") == s.Int("t") && s.Int("fs") != s.Int("ts")
}

func (d *drv) amtClass(s core.Step, lim0 int64) string {
	a := int64(s.Int("amt"))
	switch {
	case a <= 0:
		return "amt<=0"
	case lim0 > 0 && a >= lim0:
		return "amt>=oplimit"
	}
	return "amt-valid"
}

// NonTrivial (C15): one operation naming an account under two spellings; or an account that
// holds funds addressed under >= 2 spellings across successful operations; or an error caused
// by a limit / missing funds (amount itself valid).
func (d *drv) NonTrivial(env *core.Env, b *core.Behaviour) bool {
	var lim0 int64
	if len(b.Steps) > 0 {
		if l := b.Steps[0].Ints("lim"); len(l) == 3 {
			lim0 = int64(l[0])
		}
	}
	seen := map[int]map[int]bool{}
	note := func(u, sp int) bool {
		if seen[u] == nil {
			seen[u] = map[int]bool{}
		}
		seen[u][sp] = true
		return len(seen[u]) >= 2
	}
	for _, s := range b.Steps[1:] {
		if twoSpellings(s) {
			return true
		}
		ret := s.Str("ret")
		if ret == "err" && d.amtClass(s, lim0) == "amt-valid" && s.Op() != "GenesisInit" {
			return true
		}
		if ret == "ok" {
			multi := false
			if _, ok := s["u"]; ok {
				multi = note(s.Int("u"), s.Int("us")) || multi
			}
			if _, ok := s["f"]; ok {
				multi = note(s.Int("f"), s.Int("fs")) || multi
				multi = note(s.Int("t"), s.Int("ts")) || multi
			}
			if multi {
				return true
			}
		}
	}
	return false
}

func spellName(i int) string {
	switch i {
	case 1:
		return "lower"
	case 2:
		return "upper"
	case 3:
		return "mixed"
	}
	return fmt.Sprint(i)
}

// relation class of the address arguments of a step
func (d *drv) relation(s core.Step) string {
	kind := func(u int) string {
		if d.hexU[u] {
			return "hex"
		}
		return "b58"
	}
	if _, ok := s["f"]; ok {
		f, t := s.Int("f"), s.Int("t")
		if f == t {
			if s.Int("fs") == s.Int("ts") {
				return "same-account,same-spelling," + kind(f)
			}
			return "same-account,two-spellings"
		}
		return "distinct-accounts"
	}
	if _, ok := s["u"]; ok {
		return "one-account," + kind(s.Int("u"))
	}
	return "executor-only"
}

func valClass(exp, obs any) string {
	if s, ok := obs.(string); ok {
		switch {
		case strings.HasPrefix(s, "split:"):
			return "split-between-spellings"
		case strings.HasPrefix(s, "raw:-"):
			return "negative"
		case strings.HasPrefix(s, "raw:"):
			return "not-a-unit-multiple"
		}
		return strings.SplitN(s, ":", 2)[0]
	}
	e, _ := exp.(float64)
	o, _ := obs.(float64)
	switch {
	case o < 0:
		return "negative"
	case o > e:
		return "more-than-expected"
	case o < e:
		return "less-than-expected"
	}
	return "equal"
}

// first differing cell of two projections: (ledger part, class)
func diffCell(exp, obs map[string]any) (string, string) {
	for _, k := range []string{"bal", "x"} {
		el, _ := exp[k].([]any)
		ol, _ := obs[k].([]any)
		for i := range el {
			if i < len(ol) && !core.Match(el[i], ol[i]) {
				return k, valClass(el[i], ol[i])
			}
		}
	}
	for _, k := range []string{"sb", "sf"} {
		el, _ := exp[k].([]any)
		ol, _ := obs[k].([]any)
		for i := range el {
			er, _ := el[i].([]any)
			if i >= len(ol) {
				continue
			}
			or, _ := ol[i].([]any)
			for j := range er {
				if j < len(or) && !core.Match(er[j], or[j]) {
					return k, valClass(er[j], or[j])
				}
			}
		}
	}
	if _, ok := obs["stray"]; ok {
		return "store", "record-under-non-canonical-key"
	}
	if _, ok := obs["changed_on_error"]; ok {
		return "store", "changed-by-failed-operation"
	}
	return "?", "?"
}

// does the step push some touched amount over a limit of the model (from the previous projection)?
func (d *drv) nearLimit(b *core.Behaviour, idx int) string {
	if idx < 1 {
		return "none"
	}
	prev, _ := b.Steps[idx-1]["chk"].(map[string]any)
	lim := b.Steps[0].Ints("lim")
	if prev == nil || len(lim) != 3 {
		return "none"
	}
	s := b.Steps[idx]
	a := s.Int("amt")
	get := func(k string, i, j int) int {
		l, _ := prev[k].([]any)
		if i < 1 || i > len(l) {
			return 0
		}
		if j == 0 {
			return core.ToInt(l[i-1])
		}
		r, _ := l[i-1].([]any)
		if j < 1 || j > len(r) {
			return 0
		}
		return core.ToInt(r[j-1])
	}
	u, e := s.Int("u"), s.Int("e")
	if _, ok := s["t"]; ok {
		u = s.Int("t")
	}
	over := func(k string, i, j, lim int) bool { return get(k, i, j)+a > lim }
	// the cells the operation adds to
	var subB, subF, main, xb bool
	switch s.Op() {
	case "Transfer", "Mint", "GenesisInit", "TransferWithdraw":
		main = true
	case "TransferToExec", "GenesisInitExec":
		xb, subB = true, true
	case "ExecFrozen":
		subF = true
	case "ExecActive", "ExecTransfer", "ExecTransferFrozen", "ExecDeposit":
		subB = true
	case "ExecDepositFrozen":
		xb, subF = true, true
	case "ExecIssueCoins":
		xb = true
	}
	switch {
	case subB && over("sb", e, u, lim[2]), subF && over("sf", e, u, lim[2]):
		return "sub-ledger-sum>int64"
	case main && over("bal", u, 0, lim[1]):
		return "balance-sum>limit"
	case xb && over("x", e, 0, lim[1]):
		return "executor-sum>limit"
	}
	return "none"
}

// Signature: op | relation of the address arguments | amount class | limit class | field | expected/observed class
func (d *drv) Signature(b *core.Behaviour, idx int, field string, exp, obs any) string {
	s := b.Steps[idx]
	var lim0 int64
	if l := b.Steps[0].Ints("lim"); len(l) == 3 {
		lim0 = int64(l[0])
	}
	head := fmt.Sprintf("%s|%s|%s|near=%s", s.Op(), d.relation(s), d.amtClass(s, lim0), d.nearLimit(b, idx))
	if field == "ret" {
		return fmt.Sprintf("%s|ret exp=%v got=%v", head, exp, obs)
	}
	if field == "chk" {
		em, _ := exp.(map[string]any)
		om, _ := obs.(map[string]any)
		part, cls := diffCell(em, om)
		return fmt.Sprintf("%s|ret=%v|%s %s", head, s["ret"], part, cls)
	}
	return fmt.Sprintf("%s|%s", head, field)
}

func main() {
	clog.SetLogLevel("crit") // the ledger logs every refused ExecFrozen
	core.Main(&core.Family{
		Name:      "account",
		NewDriver: func() core.Driver { return &drv{} },
		Recorders: map[string]core.Recorder{"default": record},
	})
}
