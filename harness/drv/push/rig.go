package main

// Real chain33 test nodes for the Push family (C32): a *receiver* node (testnode with
// isRecordBlockSequence + enablePushSubscribe, mining off) that gets blocks through
// BlockChain.ProcessBlock, and a *factory* node that manufactures valid blocks on any parent
// (executing them on the parent's state so that state/tx roots are the real ones).
// Same construction as the block-chain families' rig (harness/drv/chain/rig), kept local so
// that the families stay independent.

import (
	"errors"
	"fmt"
	"strings"
	"sync"
	"time"

	"github.com/33cn/chain33/blockchain"
	"github.com/33cn/chain33/common/address"
	"github.com/33cn/chain33/common/crypto"
	"github.com/33cn/chain33/common/log"
	_ "github.com/33cn/chain33/system" // solo, coins, none, mavl, timeline
	"github.com/33cn/chain33/types"
	"github.com/33cn/chain33/util"
	"github.com/33cn/chain33/util/testnode"
)

func init() { log.SetLogLevel("crit") }

type node struct {
	mock  *testnode.Chain33Mock
	chain *blockchain.BlockChain
	cfg   *types.Chain33Config
}

func nodeConfig() *types.Chain33Config {
	s := types.GetDefaultCfgstring()
	s = strings.Replace(s, "minerstart=true", "minerstart=false", 1)
	cfg := types.NewChain33Config(s)
	m := cfg.GetModuleConfig()
	m.Consensus.Minerstart = false
	m.BlockChain.IsRecordBlockSequence = true
	m.BlockChain.EnablePushSubscribe = true
	return cfg
}

var startMu sync.Mutex

func startNode() (*node, error) {
	cfg := nodeConfig()
	startMu.Lock()
	mock := testnode.NewWithConfig(cfg, nil)
	startMu.Unlock()
	log.SetLogLevel("crit")
	if mock == nil {
		return nil, errors.New("testnode did not start")
	}
	n := &node{mock: mock, chain: mock.GetBlockChain(), cfg: cfg}
	deadline := time.Now().Add(300 * time.Second)
	for {
		if n.chain.GetBlockHeight() >= 0 && n.chain.GetDownloadSyncStatus() == 0 {
			break
		}
		if time.Now().After(deadline) {
			n.close()
			return nil, fmt.Errorf("node not ready (height %d)", n.chain.GetBlockHeight())
		}
		time.Sleep(2 * time.Millisecond)
	}
	return n, nil
}

func (n *node) close() {
	if n != nil && n.mock != nil {
		n.mock.Close()
		n.mock = nil
	}
}

func (n *node) genesis() (*types.Block, error) {
	d, err := n.chain.GetBlock(0)
	if err != nil {
		return nil, err
	}
	return d.Block, nil
}

// deliver hands a copy of the block to BlockChain.ProcessBlock (what ProcAddBlockMsg calls).
func (n *node) deliver(b *types.Block) (isMain bool, err error) {
	cp := types.Clone(b).(*types.Block)
	_, main, _, err := n.chain.ProcessBlock(true, &types.BlockDetail{Block: cp}, "verif-peer", true, -1)
	return main, err
}

func (n *node) lastSeq() (int64, error) {
	return n.chain.GetStore().LoadBlockLastSequence()
}

func (n *node) seqRecord(seq int64) (*types.BlockSequence, error) {
	return n.chain.GetStore().GetBlockSequence(seq)
}

func (n *node) tip() (*types.Block, error) {
	return n.chain.ProcGetLastBlockMsg()
}

// ---------------------------------------------------------------------------------

type factory struct {
	n     *node
	mu    sync.Mutex
	nonce int64
	priv  crypto.PrivKey
	addrs []string
	base  map[bool]int // size of a block without padding, by class (calibrated on the fly)
}

func newFactory(seed int64) (*factory, error) {
	n, err := startNode()
	if err != nil {
		return nil, err
	}
	f := &factory{n: n, nonce: seed<<24 + 1, priv: n.mock.GetGenesisKey(), base: map[bool]int{}}
	for i := 0; i < 4; i++ {
		f.addrs = append(f.addrs, address.PubKeyToAddr(address.DefaultID, util.TestPrivkeyList[2+i].PubKey().Bytes()))
	}
	return f, nil
}

func (f *factory) close() { f.n.close() }

func (f *factory) coinsTx() *types.Transaction {
	f.nonce++
	tx := util.CreateCoinsTx(f.n.cfg, nil, f.addrs[int(f.nonce)%len(f.addrs)], 1e5+f.nonce%1000)
	tx.Nonce = f.nonce
	tx.Expire = 0
	tx.Sign(types.SECP256K1, f.priv)
	return tx
}

// noneTx makes a transaction of the none executor whose payload is pad bytes long (padding
// blocks to a nominal size, see make).
func (f *factory) noneTx(pad int) *types.Transaction {
	f.nonce++
	if pad < 4 {
		pad = 4
	}
	payload := make([]byte, pad)
	for i := range payload {
		payload[i] = byte('a' + (int(f.nonce)+i)%26)
	}
	tx := &types.Transaction{Execer: []byte("none"), Payload: payload}
	tx.To = address.ExecAddress("none")
	tx, err := types.FormatTx(f.n.cfg, "none", tx)
	if err != nil {
		return nil
	}
	tx.Nonce = f.nonce
	tx.Expire = 0
	tx.Sign(types.SECP256K1, f.priv)
	return tx
}

// Nominal sizes of the stored block detail (what push.go's getBlockSeqs adds up): a block
// without a coins transfer is one unit, a block with one is two units. Real sizes lie in
// [nominal-sizeSlack, nominal].
const (
	sizeUnit  = 4000
	sizeSlack = 150
)

func nominalSize(rel bool) int {
	if rel {
		return 2 * sizeUnit
	}
	return sizeUnit
}

func detailSize(d *types.BlockDetail) int {
	return (&types.BlockDetail{Block: d.Block, Receipts: d.Receipts}).Size()
}

// make builds a valid block on parent. rel = the block carries a coins transfer (what the
// receipt subscribers of this harness ask for). Every block carries a transaction of the none
// executor whose payload pads the block to its nominal size.
func (f *factory) make(parent *types.Block, rel bool) (*types.Block, error) {
	f.mu.Lock()
	defer f.mu.Unlock()
	target := nominalSize(rel)
	pad := target - f.base[rel] - sizeSlack/2
	if f.base[rel] == 0 {
		pad = 4
	}
	for try := 0; try < 4; try++ {
		var txs []*types.Transaction
		if rel {
			txs = append(txs, f.coinsTx())
		}
		ntx := f.noneTx(pad)
		if ntx == nil {
			return nil, errors.New("factory: cannot format the padding transaction")
		}
		txs = append(txs, ntx)
		blk := util.CreateNewBlock(f.n.cfg, parent, txs)
		blk.Difficulty = parent.Difficulty
		detail, del, err := util.ExecBlock(f.n.mock.GetClient(), parent.StateHash, blk, false, true, false)
		if err != nil {
			return nil, fmt.Errorf("factory exec: %v", err)
		}
		if len(del) != 0 || len(detail.Block.Txs) != len(txs) {
			return nil, fmt.Errorf("factory dropped a transaction")
		}
		if rel && detail.Receipts[0].Ty != types.ExecOk {
			return nil, fmt.Errorf("factory coins transfer receipt type %d", detail.Receipts[0].Ty)
		}
		sz := detailSize(detail)
		if f.base == nil {
			f.base = map[bool]int{}
		}
		f.base[rel] = sz - pad
		if sz <= target && sz >= target-sizeSlack {
			return types.Clone(detail.Block).(*types.Block), nil
		}
		pad = target - f.base[rel] - sizeSlack/2
	}
	return nil, fmt.Errorf("factory: cannot pad a block to %d bytes", target)
}
