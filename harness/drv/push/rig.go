package main

// Real chain33 test nodes for the Push family (C32): a *receiver* node (testnode with
// isRecordBlockSequence + enablePushSubscribe, mining off) that gets blocks through
// BlockChain.ProcessBlock, and a *factory* node that manufactures valid blocks on any parent
// (executing them on the parent's state so that state/tx roots are the real ones).
// Same construction as the block-chain families' rig (harness/drv/chain/rig), kept local so
// that the families stay independent.

import (
	"errors"
	"fmt"
	"strings"
	"sync"
	"time"

	"github.com/33cn/chain33/blockchain"
	"github.com/33cn/chain33/common/address"
	"github.com/33cn/chain33/common/crypto"
	"github.com/33cn/chain33/common/log"
	_ "github.com/33cn/chain33/system" // solo, coins, none, mavl, timeline
	"github.com/33cn/chain33/types"
	"github.com/33cn/chain33/util"
	"github.com/33cn/chain33/util/testnode"
)

func init() { log.SetLogLevel("crit") }

type node struct {
	mock  *testnode.Chain33Mock
	chain *blockchain.BlockChain
	cfg   *types.Chain33Config
}

func nodeConfig() *types.Chain33Config {
	s := types.GetDefaultCfgstring()
	s = strings.Replace(s, "minerstart=true", "minerstart=false", 1)
	cfg := types.NewChain33Config(s)
	m := cfg.GetModuleConfig()
	m.Consensus.Minerstart = false
	m.BlockChain.IsRecordBlockSequence = true
	m.BlockChain.EnablePushSubscribe = true
	return cfg
}

var startMu sync.Mutex

func startNode() (*node, error) {
	cfg := nodeConfig()
	startMu.Lock()
	mock := testnode.NewWithConfig(cfg, nil)
	startMu.Unlock()
	log.SetLogLevel("crit")
	if mock == nil {
		return nil, errors.New("testnode did not start")
	}
	n := &node{mock: mock, chain: mock.GetBlockChain(), cfg: cfg}
	deadline := time.Now().Add(300 * time.Second)
	for {
		if n.chain.GetBlockHeight() >= 0 && n.chain.GetDownloadSyncStatus() == 0 {
			break
		}
		if time.Now().After(deadline) {
			n.close()
			return nil, fmt.Errorf("node not ready (height %d)", n.chain.GetBlockHeight())
		}
		time.Sleep(2 * time.Millisecond)
	}
	return n, nil
}

func (n *node) close() {
	if n != nil && n.mock != nil {
		n.mock.Close()
		n.mock = nil
	}
}

func (n *node) genesis() (*types.Block, error) {
	d, err := n.chain.GetBlock(0)
	if err != nil {
		return nil, err
	}
	return d.Block, nil
}

// deliver hands a copy of the block to BlockChain.ProcessBlock (what ProcAddBlockMsg calls).
func (n *node) deliver(b *types.Block) (isMain bool, err error) {
	cp := types.Clone(b).(*types.Block)
	_, main, _, err := n.chain.ProcessBlock(true, &types.BlockDetail{Block: cp}, "verif-peer", true, -1)
	return main, err
}

func (n *node) lastSeq() (int64, error) {
	return n.chain.GetStore().LoadBlockLastSequence()
}

func (n *node) seqRecord(seq int64) (*types.BlockSequence, error) {
	return n.chain.GetStore().GetBlockSequence(seq)
}

func (n *node) tip() (*types.Block, error) {
	return n.chain.ProcGetLastBlockMsg()
}

// ---------------------------------------------------------------------------------

type factory struct {
	n     *node
	mu    sync.Mutex
	nonce int64
	priv  crypto.PrivKey
	addrs []string
	// blocks made so far by hash (parents for further blocks)
}

func newFactory(seed int64) (*factory, error) {
	n, err := startNode()
	if err != nil {
		return nil, err
	}
	f := &factory{n: n, nonce: seed<<24 + 1, priv: n.mock.GetGenesisKey()}
	for i := 0; i < 4; i++ {
		f.addrs = append(f.addrs, address.PubKeyToAddr(address.DefaultID, util.TestPrivkeyList[2+i].PubKey().Bytes()))
	}
	return f, nil
}

func (f *factory) close() { f.n.close() }

func (f *factory) coinsTx() *types.Transaction {
	f.nonce++
	tx := util.CreateCoinsTx(f.n.cfg, nil, f.addrs[int(f.nonce)%len(f.addrs)], 1e5+f.nonce%1000)
	tx.Nonce = f.nonce
	tx.Expire = 0
	tx.Sign(types.SECP256K1, f.priv)
	return tx
}

func (f *factory) noneTx() *types.Transaction {
	f.nonce++
	tx := util.CreateNoneTx(f.n.cfg, nil)
	tx.Nonce = f.nonce
	tx.Expire = 0
	tx.Sign(types.SECP256K1, f.priv)
	return tx
}

// make builds a valid block on parent. rel = the block carries a coins transfer (what the
// receipt subscribers of this harness ask for); otherwise a transaction of the none executor.
func (f *factory) make(parent *types.Block, rel bool) (*types.Block, error) {
	f.mu.Lock()
	defer f.mu.Unlock()
	var tx *types.Transaction
	if rel {
		tx = f.coinsTx()
	} else {
		tx = f.noneTx()
	}
	blk := util.CreateNewBlock(f.n.cfg, parent, []*types.Transaction{tx})
	blk.Difficulty = parent.Difficulty
	detail, del, err := util.ExecBlock(f.n.mock.GetClient(), parent.StateHash, blk, false, true, false)
	if err != nil {
		return nil, fmt.Errorf("factory exec: %v", err)
	}
	if len(del) != 0 || len(detail.Block.Txs) != 1 {
		return nil, fmt.Errorf("factory dropped the transaction")
	}
	if ty := detail.Receipts[0].Ty; ty != types.ExecOk && !(ty == types.ExecPack && !rel) {
		return nil, fmt.Errorf("factory transaction receipt type %d", detail.Receipts[0].Ty)
	}
	return types.Clone(detail.Block).(*types.Block), nil
}
