package main

// The subscriber side: a real HTTP server (net/http/httptest) per subscriber that receives
// what blockchain/push.go posts (gzip body, JSON or protobuf, one of the push types),
// decodes the sequence numbers it carries and answers as the harness decides.

import (
	"bytes"
	"compress/gzip"
	"fmt"
	"io"
	"net/http"
	"net/http/httptest"
	"sync"

	"github.com/33cn/chain33/common"
	"github.com/33cn/chain33/types"
)

// push types of blockchain/push.go
const (
	pushBlock       = 0
	pushBlockHeader = 1
	pushTxReceipt   = 2
	pushTxResult    = 3
)

// item is what a posted payload says about one sequence number.
type item struct {
	Num    int64  // sequence number
	Type   int64  // types.AddBlock / types.DelBlock
	Hash   string // block hash (hex)
	Height int64
}

// request is one POST that reached a subscriber's server.
type request struct {
	id      int
	sub     *subscriber
	items   []item
	bad     string      // decode problem ("" = none)
	reply   chan string // harness decision (reply mode)
	decided bool
}

type subscriber struct {
	id     int // model id
	name   string
	ptype  int32
	encode string
	srv    *httptest.Server
	hub    *hub
}

// hub collects the requests of all subscribers of one scenario.
type hub struct {
	mu     sync.Mutex
	nextID int
	held   []*request // waiting for a decision, arrival order
	// free mode: decide is called by the handler itself (recorder)
	decide func(r *request) string
	subs   map[int]*subscriber
}

func newHub() *hub { return &hub{subs: map[int]*subscriber{}} }

// drain answers everything held with a dropped connection and makes the endpoints answer
// every later request the same way at once (used while the scenario's node is being stopped).
func (h *hub) drain() {
	h.mu.Lock()
	held := h.held
	h.held = nil
	h.decide = func(*request) string { return "fail-close" }
	h.mu.Unlock()
	for _, r := range held {
		if !r.decided {
			r.decided = true
			r.reply <- "fail-close"
		}
	}
}

// close stops the servers (after drain and after the node's push tasks were stopped).
func (h *hub) close() {
	h.drain()
	h.mu.Lock()
	subs := h.subs
	h.subs = map[int]*subscriber{}
	h.mu.Unlock()
	for _, s := range subs {
		s.srv.CloseClientConnections()
		s.srv.Close()
	}
}

func (h *hub) heldCount() int {
	h.mu.Lock()
	defer h.mu.Unlock()
	return len(h.held)
}

func (h *hub) heldOf(sub int) []*request {
	h.mu.Lock()
	defer h.mu.Unlock()
	var out []*request
	for _, r := range h.held {
		if r.sub.id == sub {
			out = append(out, r)
		}
	}
	return out
}

// answer releases a held request with the given reply mode.
func (h *hub) answer(r *request, mode string) {
	h.mu.Lock()
	for i, x := range h.held {
		if x == r {
			h.held = append(h.held[:i], h.held[i+1:]...)
			break
		}
	}
	r.decided = true
	h.mu.Unlock()
	r.reply <- mode
}

func (h *hub) addSubscriber(id int, name string, ptype int32, encode string) *subscriber {
	s := &subscriber{id: id, name: name, ptype: ptype, encode: encode, hub: h}
	s.srv = httptest.NewServer(http.HandlerFunc(s.handle))
	h.mu.Lock()
	h.subs[id] = s
	h.mu.Unlock()
	return s
}

func (s *subscriber) handle(w http.ResponseWriter, req *http.Request) {
	r := &request{sub: s, reply: make(chan string, 1)}
	body, err := io.ReadAll(req.Body)
	if err != nil {
		r.bad = "read: " + err.Error()
	} else {
		r.items, r.bad = decodePayload(body, req.Header.Get("Content-Encoding"), s.ptype, s.encode)
	}
	h := s.hub
	h.mu.Lock()
	h.nextID++
	r.id = h.nextID
	decide := h.decide
	if decide == nil {
		h.held = append(h.held, r)
	}
	h.mu.Unlock()
	var mode string
	if decide != nil {
		mode = decide(r)
	} else {
		mode = <-r.reply
	}
	switch mode {
	case "ok":
		io.WriteString(w, "ok")
	case "OK":
		io.WriteString(w, "OK")
	case "fail-body":
		io.WriteString(w, "error")
	case "fail-case":
		io.WriteString(w, "Ok") // push.go accepts exactly "ok" and "OK"
	case "fail-empty":
		w.WriteHeader(http.StatusOK)
	case "fail-500":
		w.WriteHeader(http.StatusInternalServerError)
		io.WriteString(w, "internal error")
	default: // fail-close: drop the connection without an answer
		if hj, ok := w.(http.Hijacker); ok {
			if c, _, err := hj.Hijack(); err == nil {
				c.Close()
				return
			}
		}
		w.WriteHeader(http.StatusBadGateway)
	}
}

var okModes = []string{"ok", "OK"}
var failModes = []string{"fail-body", "fail-case", "fail-empty", "fail-500", "fail-close"}

func decodePayload(body []byte, contentEncoding string, ptype int32, encode string) ([]item, string) {
	if contentEncoding != "gzip" {
		return nil, "content-encoding " + contentEncoding
	}
	zr, err := gzip.NewReader(bytes.NewReader(body))
	if err != nil {
		return nil, "gzip: " + err.Error()
	}
	data, err := io.ReadAll(zr)
	if err != nil {
		return nil, "gunzip: " + err.Error()
	}
	dec := func(msg types.Message) error {
		if encode == "jrpc" {
			return types.JSONToPB(data, msg)
		}
		return types.Decode(data, msg)
	}
	var out []item
	switch ptype {
	case pushBlock:
		var m types.BlockSeqs
		if err := dec(&m); err != nil {
			return nil, "decode BlockSeqs: " + err.Error()
		}
		for _, s := range m.Seqs {
			if s.Seq == nil || s.Detail == nil || s.Detail.Block == nil {
				return nil, fmt.Sprintf("BlockSeq %d without seq/detail", s.Num)
			}
			out = append(out, item{Num: s.Num, Type: s.Seq.Type, Hash: common.ToHex(s.Seq.Hash), Height: s.Detail.Block.Height})
		}
	case pushBlockHeader:
		var m types.HeaderSeqs
		if err := dec(&m); err != nil {
			return nil, "decode HeaderSeqs: " + err.Error()
		}
		for _, s := range m.Seqs {
			if s.Seq == nil || s.Header == nil {
				return nil, fmt.Sprintf("HeaderSeq %d without seq/header", s.Num)
			}
			if common.ToHex(s.Header.Hash) != common.ToHex(s.Seq.Hash) {
				return nil, fmt.Sprintf("HeaderSeq %d: header hash differs from the sequence record", s.Num)
			}
			out = append(out, item{Num: s.Num, Type: s.Seq.Type, Hash: common.ToHex(s.Seq.Hash), Height: s.Header.Height})
		}
	case pushTxResult:
		var m types.TxResultSeqs
		if err := dec(&m); err != nil {
			return nil, "decode TxResultSeqs: " + err.Error()
		}
		for _, s := range m.Items {
			out = append(out, item{Num: s.SeqNum, Type: int64(s.AddDelType), Hash: common.ToHex(s.BlockHash), Height: s.Height})
		}
	case pushTxReceipt:
		var m types.TxReceipts4Subscribe
		if err := dec(&m); err != nil {
			return nil, "decode TxReceipts4Subscribe: " + err.Error()
		}
		for _, s := range m.TxReceipts {
			if len(s.Tx) == 0 || len(s.Tx) != len(s.ReceiptData) {
				return nil, fmt.Sprintf("receipt entry %d: %d txs, %d receipts", s.SeqNum, len(s.Tx), len(s.ReceiptData))
			}
			out = append(out, item{Num: s.SeqNum, Type: int64(s.AddDelType), Hash: common.ToHex(s.BlockHash), Height: s.Height})
		}
	default:
		return nil, fmt.Sprintf("push type %d", ptype)
	}
	if len(out) == 0 {
		return nil, "empty payload"
	}
	return out, ""
}
