package main

import (
	"fmt"
	"time"

	"verif/harness/core"
)

// probe: rig timings (manual use).
func probe(env *core.Env, args []string) int {
	t0 := time.Now()
	f, err := getFactory(env.Seed)
	if err != nil {
		fmt.Println(err)
		return 2
	}
	fmt.Println("factory", time.Since(t0))
	t0 = time.Now()
	n, err := getShared(env.Seed)
	if err != nil {
		fmt.Println(err)
		return 2
	}
	fmt.Println("shared node + trunk", time.Since(t0))
	for seq := int64(1); seq <= 6; seq++ {
		d, sz, err := n.chain.GetStore().LoadBlockBySequence(seq)
		if err != nil {
			fmt.Println(err)
			return 2
		}
		h, _ := n.chain.GetStore().GetBlockHeaderByHash(d.Block.Hash(n.cfg))
		fmt.Println("seq", seq, "txs", len(d.Block.Txs), "stored detail size", sz, "factory-side size", detailSize(d), "header size", h.Size())
	}
	t0 = time.Now()
	ts := readTaskStates()
	fmt.Println("task states", ts, time.Since(t0))
	n.close()
	f.close()
	return 0
}
