package main

// Quiescence detection without wall-clock guesses: the states of the push task goroutines
// are read from the runtime's goroutine dump. A task goroutine is
//   idle     parked in the select of its own loop (top frame runTask.func1, state "select"):
//            by Go's channel semantics nothing is queued for it
//   gated    parked inside the harness gate (verifPushGate)
//   posting  parked inside PushClient.PostData (waiting for the subscriber's answer)
//   busy     anything else (running, runnable, sleeping its back-off tick, ...)
// The system is settled when no task is busy, no trigeRun helper goroutine is pending and the
// number of posting tasks equals the number of requests the endpoints are holding (so no
// request or answer is still travelling). One node with push tasks per process.

import (
	"fmt"
	"runtime"
	"strings"
	"time"
)

type taskStates struct {
	idle, gated, posting, busy, helpers int
}

func (t taskStates) total() int { return t.idle + t.gated + t.posting + t.busy }

func dumpGoroutines() string {
	buf := make([]byte, 1<<20)
	for {
		n := runtime.Stack(buf, true)
		if n < len(buf) {
			return string(buf[:n])
		}
		buf = make([]byte, 2*len(buf))
	}
}

func parked(state string) bool {
	if i := strings.IndexByte(state, ','); i >= 0 {
		state = state[:i]
	}
	switch state {
	case "running", "runnable", "syscall", "sleep":
		return false
	}
	return true
}

func readTaskStates() taskStates { return statesOf(dumpGoroutines()) }

func statesOf(dump string) taskStates {
	var ts taskStates
	for _, blk := range strings.Split(dump, "\n\n") {
		lines := strings.Split(blk, "\n")
		if len(lines) < 2 || !strings.HasPrefix(lines[0], "goroutine ") {
			continue
		}
		hdr := lines[0]
		i, j := strings.IndexByte(hdr, '['), strings.LastIndexByte(hdr, ']')
		if i < 0 || j < i {
			continue
		}
		state := hdr[i+1 : j]
		var funcs []string
		creator := ""
		for _, l := range lines[1:] {
			if strings.HasPrefix(l, "created by ") {
				creator = l
				continue
			}
			if strings.HasPrefix(l, "\t") {
				continue
			}
			funcs = append(funcs, l)
		}
		// identified by their creator: a goroutine that was spawned but has not run yet shows
		// only its entry wrapper, not runTask.func1
		isTask := strings.HasPrefix(creator, "created by github.com/33cn/chain33/blockchain.(*Push).runTask in ")
		isHelper := strings.HasPrefix(creator, "created by github.com/33cn/chain33/blockchain.trigeRun in ")
		if isHelper && !isTask {
			ts.helpers++
			continue
		}
		if !isTask {
			continue
		}
		if len(funcs) == 0 {
			ts.busy++
			continue
		}
		has := func(sub string) bool {
			for _, f := range funcs {
				if strings.Contains(f, sub) {
					return true
				}
			}
			return false
		}
		switch {
		case !parked(state):
			ts.busy++
		case has("blockchain.verifPushGate("):
			ts.gated++
		case has("blockchain.(*PushClient).PostData("):
			ts.posting++
		case strings.Contains(funcs[0], "blockchain.(*Push).runTask.func1(") && strings.HasPrefix(state, "select"):
			ts.idle++
		default:
			ts.busy++
		}
	}
	return ts
}

// settle waits until the push tasks are settled (see above) and returns their states.
func settle(held func() int, deadline time.Duration) (taskStates, error) {
	end := time.Now().Add(deadline)
	var ts taskStates
	stable := 0
	for {
		ts = readTaskStates()
		if ts.busy == 0 && ts.helpers == 0 && ts.posting == held() {
			stable++
			if stable >= 2 { // two consecutive identical verdicts: also covers a request between accept and handler
				return ts, nil
			}
		} else {
			stable = 0
		}
		if time.Now().After(end) {
			return ts, fmt.Errorf("push tasks did not settle: %+v, held=%d", ts, held())
		}
		time.Sleep(500 * time.Microsecond)
	}
}

// closeStuck reports, on one goroutine snapshot, that Push.Close will never return: Close has
// closed every registered task's channel and waits for the tasks (WaitGroup), while a task
// goroutine is still parked in its select -- it was not woken by the closed channel, so it is
// not among the registered tasks and nothing will ever end it.
func closeStuck() bool {
	dump := dumpGoroutines()
	closing := false
	for _, blk := range strings.Split(dump, "\n\n") {
		if strings.Contains(blk, "blockchain.(*Push).Close(") && strings.Contains(blk, "sync.(*WaitGroup).Wait(") {
			closing = true
		}
	}
	if !closing {
		return false
	}
	ts := statesOf(dump)
	return ts.idle > 0 && ts.busy == 0 && ts.posting == 0 && ts.gated == 0 && ts.helpers == 0
}
