package main

// Recorder (binding B): seeded random scenarios on a real node with *free-running* push
// tasks -- the endpoints answer at once following a seeded fault script, blocks (and
// reorganisations) arrive while tasks are posting, subscribers re-register and the push
// service restarts at arbitrary moments. Every harness call is logged at its start and end,
// every POST when the endpoint answers it, all under one lock, so the log order is a
// linearisation. spec/Push/Push_Trace.tla validates the log.

import (
	"fmt"
	"math/rand"
	"sync"
	"time"

	"github.com/33cn/chain33/blockchain"
	"github.com/33cn/chain33/types"
	"verif/harness/core"
)

type recorder struct {
	d           *drv
	rng         *rand.Rand // scenario choices (harness goroutine only)
	frng        *rand.Rand // fault script (endpoint handlers, under mu)
	mu          sync.Mutex // log order; guards frng, failP, flags
	emit        func(map[string]any)
	nfail       map[int]int // consecutive failures decided per subscriber (keeps scenarios alive)
	failP       float64
	events      int
	failed      bool
	okAfterFail bool
	recvs       int
}

func (r *recorder) setFailP(p float64) float64 {
	r.mu.Lock()
	defer r.mu.Unlock()
	old := r.failP
	r.failP = p
	return old
}

func (r *recorder) log(ev map[string]any) {
	r.emit(ev)
	r.events++
}

// decide is the endpoint's fault script: called by the HTTP handler for every POST.
func (r *recorder) decide(q *request) string {
	r.mu.Lock()
	defer r.mu.Unlock()
	reply := "ok"
	if q.bad != "" {
		// an undecodable payload is logged with an impossible batch so that validation fails
		r.log(map[string]any{"ev": "Recv", "s": q.sub.id, "seqs": []int{-7}, "reply": "fail", "bad": q.bad})
		return "fail-body"
	}
	if r.frng.Float64() < r.failP {
		reply = "fail"
	}
	seqs := seqsOf(q, r.d)
	// payload integrity is not part of the abstract trace: check it here
	for i, it := range q.items {
		rec, err := r.d.n.seqRecord(it.Num)
		if err != nil || rec.Type != it.Type || fmt.Sprintf("%x", rec.Hash) != it.Hash[2:] {
			seqs[i] = -7
		}
	}
	r.log(map[string]any{"ev": "Recv", "s": q.sub.id, "seqs": seqs, "reply": reply})
	r.recvs++
	if reply == "ok" {
		if r.failed {
			r.okAfterFail = true
		}
		return okModes[r.frng.Intn(len(okModes))]
	}
	r.failed = true
	return failModes[r.frng.Intn(len(failModes))]
}

func (r *recorder) appendBlocks(recs []map[string]any, f func() error) error {
	r.mu.Lock()
	r.log(map[string]any{"ev": "AppendBegin", "recs": recs})
	r.mu.Unlock()
	if err := f(); err != nil {
		return err
	}
	l, err := r.d.lastModel()
	if err != nil {
		return err
	}
	r.mu.Lock()
	r.log(map[string]any{"ev": "AppendEnd", "ret": l})
	r.mu.Unlock()
	return nil
}

func (r *recorder) addBlock(rel bool) error {
	return r.appendBlocks([]map[string]any{{"k": "add", "rel": rel}}, func() error { return r.d.addBlock(rel) })
}

func (r *recorder) reorg(n int, rel bool) error {
	d := r.d
	f := theFac
	if n > len(d.stack) {
		n = len(d.stack)
	}
	if n < 1 {
		return r.addBlock(rel)
	}
	h := len(d.mc) - 1
	parent := d.mc[h-n]
	var side []*types.Block
	for i := 0; i <= n; i++ {
		b, err := f.make(parent, rel)
		if err != nil {
			return err
		}
		side = append(side, b)
		parent = b
	}
	// the first n side blocks are stored without touching the sequence log
	for i := 0; i < n; i++ {
		if main, err := d.n.deliver(side[i]); err != nil || main {
			return fmt.Errorf("side block %d: main=%v err=%v", i, main, err)
		}
	}
	var recs []map[string]any
	for i := 0; i < n; i++ {
		recs = append(recs, map[string]any{"k": "del", "rel": d.stack[len(d.stack)-1-i]})
	}
	for i := 0; i <= n; i++ {
		recs = append(recs, map[string]any{"k": "add", "rel": rel})
	}
	return r.appendBlocks(recs, func() error {
		main, err := d.n.deliver(side[n])
		if err != nil || !main {
			return fmt.Errorf("reorganising block: main=%v err=%v", main, err)
		}
		for i := 0; i < n; i++ {
			d.rel = append(d.rel, d.stack[len(d.stack)-1-i])
		}
		d.stack = d.stack[:len(d.stack)-n]
		for i := 0; i <= n; i++ {
			d.rel = append(d.rel, rel)
			d.stack = append(d.stack, rel)
		}
		d.mc = append(d.mc[:h-n+1], side...)
		if !d.fresh {
			sharedMC = d.mc
		}
		return nil
	})
}

func (r *recorder) register(id, start int) error {
	r.mu.Lock()
	r.log(map[string]any{"ev": "RegBegin", "s": id, "start": start})
	r.mu.Unlock()
	ret, err := r.d.register(id, start)
	if err != nil {
		return err
	}
	r.mu.Lock()
	r.log(map[string]any{"ev": "RegEnd", "s": id, "ret": ret})
	r.mu.Unlock()
	return nil
}

func (r *recorder) restart() error {
	r.mu.Lock()
	r.log(map[string]any{"ev": "RestartBegin"})
	r.mu.Unlock()
	if err := r.d.restart(); err != nil {
		return err
	}
	r.mu.Lock()
	r.log(map[string]any{"ev": "RestartEnd"})
	r.mu.Unlock()
	return nil
}

func (r *recorder) lastSeq(id int) {
	st, ok := r.d.subs[id]
	if !ok {
		return
	}
	r.mu.Lock()
	defer r.mu.Unlock()
	v := -1
	if l, err := r.d.n.chain.ProcGetLastPushSeq(st.sub.name); err == nil {
		v = r.d.model(l)
	}
	r.log(map[string]any{"ev": "LastSeq", "s": id, "ret": v})
}

func (r *recorder) quiet() error {
	if _, err := settle(func() int { return 0 }, 300*time.Second); err != nil {
		return err
	}
	r.mu.Lock()
	r.log(map[string]any{"ev": "Quiet"})
	r.mu.Unlock()
	return nil
}

// one independent trace
func (r *recorder) scenario(env *core.Env, idx int, nsubs, maxRecs int) error {
	d := r.d
	rng := r.rng
	base0 := 1
	if rng.Intn(4) == 0 {
		base0 = 0
	}
	fsleep := rng.Intn(4)
	kinds := make([]any, nsubs)
	for i := range kinds {
		kinds[i] = []string{"block", "header", "result", "receipt"}[rng.Intn(4)]
	}
	b := &core.Behaviour{ID: fmt.Sprintf("rec%d-%d", env.Seed, idx)}
	if err := d.Reset(env, b); err != nil {
		return err
	}
	defer d.Close()
	msize := []int{100, 2, 3, 4}[rng.Intn(4)]
	if err := d.initScenario(core.Step{"gate": false, "base0": float64(base0), "fsleep": float64(fsleep), "kind": kinds, "msize": float64(msize)}); err != nil {
		return err
	}
	d.hub.decide = r.decide
	r.mu.Lock()
	r.failP = []float64{0, 0.15, 0.35, 0.6}[rng.Intn(4)]
	r.failed, r.okAfterFail = false, false
	r.log(map[string]any{"ev": "Reset", "base0": base0, "fsleep": fsleep, "kind": kinds, "msize": msize})
	r.mu.Unlock()
	recs := func() int { return len(d.rel) - 1 }
	steps := 6 + rng.Intn(18)
	backlog := rng.Intn(3) == 0 // let a subscriber fall more than a batch behind
	for i := 0; i < steps && recs() < maxRecs-6; i++ {
		var err error
		switch x := rng.Intn(20); {
		case x < 8:
			err = r.addBlock(rng.Intn(2) == 0)
		case x < 10 && base0 == 1:
			err = r.reorg(1+rng.Intn(2), rng.Intn(2) == 0)
		case x < 15:
			id := 1 + rng.Intn(nsubs)
			start := -1
			if known, _ := blockchain.VerifPushRecord(d.n.chain, d.subOf(id).sub.name); !known && rng.Intn(2) == 0 {
				if l := recs(); l >= 1 || base0 == 1 {
					lo := 0
					if base0 == 0 {
						lo = 1
					}
					if l >= lo {
						start = lo + rng.Intn(l-lo+1)
					}
				}
			}
			err = r.register(id, start)
		case x < 16:
			err = r.restart()
		case x < 18:
			r.lastSeq(1 + rng.Intn(nsubs))
		default:
			err = r.quiet()
			if err == nil && backlog {
				backlog = false
				// everything the endpoints get from now on fails until the subscribers are
				// deactivated, the log grows by more than a batch, then they come back
				saved := r.setFailP(1)
				for j := 0; j < 4 && err == nil; j++ {
					err = r.addBlock(true)
				}
				if err == nil {
					err = r.quiet()
				}
				for j := 0; j < 9 && err == nil && recs() < maxRecs-8; j++ {
					err = r.addBlock(j%3 != 0)
				}
				r.setFailP(saved)
				for id := 1; id <= nsubs && err == nil; id++ {
					if _, ok := d.subs[id]; ok {
						err = r.register(id, -1)
					}
				}
			}
		}
		if err != nil {
			return err
		}
		// pin the unlogged task steps down every now and then (keeps the validation search small)
		if rng.Intn(env.OptInt("quiet", 2)) == 0 {
			if err := r.quiet(); err != nil {
				return err
			}
		}
	}
	// closing observations: everything idle, then the stored last pushed sequences
	r.setFailP(0)
	if err := r.addBlock(true); err != nil {
		return err
	}
	if err := r.quiet(); err != nil {
		return err
	}
	for id := 1; id <= nsubs; id++ {
		r.lastSeq(id)
	}
	return nil
}

func record(env *core.Env, emit func(map[string]any)) (*core.Summary, error) {
	n := env.OptInt("n", 10)
	nsubs := env.OptInt("subs", 2)
	maxRecs := env.OptInt("maxrecs", 70)
	r := &recorder{d: &drv{}, rng: rand.New(rand.NewSource(env.Seed*7919 + int64(env.OptInt("salt", 0)))),
		frng: rand.New(rand.NewSource(env.Seed*104729 + 17 + int64(env.OptInt("salt", 0)))), emit: emit, nfail: map[int]int{}}
	sum := &core.Summary{Counters: map[string]int{}}
	for i := 0; i < n; i++ {
		before := r.events
		if err := r.scenario(env, i, nsubs, maxRecs); err != nil {
			return nil, fmt.Errorf("scenario %d: %v", i, err)
		}
		sum.Behaviours++
		sum.Steps += r.events - before
		if r.okAfterFail {
			sum.NonTrivial++
		}
		sum.Counters["recv"] = r.recvs
		if len(sum.Samples) < 2 {
			sum.Samples = append(sum.Samples, map[string]any{"trace": i, "events": r.events - before, "kind": "recorded trace (Reset .. LastSeq)"})
		}
	}
	return sum, nil
}
