package main

import (
	"encoding/json"
	"fmt"
	"math/rand"
	"os"
	"sort"
	"strings"

	"github.com/33cn/chain33/common"
	"github.com/33cn/chain33/types"
	"verif/harness/core"
	"verif/harness/drv/chain/rig"
)

// drv replays one Chain behaviour on a fresh receiver node.
//
// options: via=process|msg|bus (entry point), bcast=0|1|mix, seq=1|0 (sequence recording),
// salt=<n> (concretisation), tkind / bkind (force a tampering / invalidity kind),
// clause=ab|c (which C27 clauses are evaluated on the real observations), pool=all|some|none|mix
// (how many transactions of a block with a bad block signature are put into the receiver's
// mempool before it is delivered: pooled transactions are not verified again).
type drv struct {
	env  *core.Env
	beh  *core.Behaviour
	n    *rig.Node
	ct   *ctree
	ts   *treeSpec
	rnd  *rand.Rand
	seq  bool
	via  string
	prop string

	last     rig.Result // result of the delivery in progress
	lastBus  string
	cur      core.Step
	before   []string       // best chain hashes (above base) before the delivery
	gdel     map[int]bool   // genuine body delivered
	anyT     bool           // some tampered body delivered
	rejected map[int]bool   // blocks whose tampered body the real node rejected by execution
	pendRej  []int          // blocks the mechanism says failed to connect in this delivery
	tfate    map[int]string // what became of the tampered body of a block: fate:pid
	lastTK   string         // tampering kind / pool state of the last tampered delivery
	stepIdx  int
}

func newDriver() core.Driver { return &drv{} }

func (d *drv) Reset(env *core.Env, b *core.Behaviour) error {
	d.env, d.beh = env, b
	d.prop = env.Prop
	d.seq = env.Opt("seq", "1") != "0"
	d.via = env.Opt("via", "process")
	if err := w.init(env.Seed); err != nil {
		return err
	}
	h := int64(0)
	for _, c := range b.ID {
		h = h*131 + int64(c)
	}
	d.rnd = rand.New(rand.NewSource(env.Seed*7919 + h + int64(env.OptInt("salt", 0))*104729))
	d.ct, d.ts = nil, nil
	d.gdel, d.rejected, d.tfate = map[int]bool{}, map[int]bool{}, map[int]string{}
	d.anyT = false
	d.pendRej = nil
	d.stepIdx = 0
	n, err := startReceiver(d.seq)
	if err != nil {
		return err
	}
	d.n = n
	return nil
}

// startReceiver starts a node (mining off) and feeds it the trunk.
func startReceiver(seq bool) (*rig.Node, error) { return startReceiverTo(seq, trunkH) }

// startReceiverTo feeds the trunk up to height upto only.
func startReceiverTo(seq bool, upto int) (*rig.Node, error) {
	n, err := rig.Start(rig.Opts{RecordSeq: seq})
	if err != nil {
		return nil, err
	}
	for h := 1; h <= upto; h++ {
		r := n.Deliver(w.trunk[h], true, "trunk")
		if r.Err != nil || !r.Main {
			n.Close()
			return nil, fmt.Errorf("trunk block %d not connected: main=%v err=%v", h, r.Main, r.Err)
		}
	}
	return n, nil
}

func (d *drv) Close() {
	if d.n != nil {
		d.n.Close()
		d.n = nil
	}
}

func decodeTree(s core.Step) (*treeSpec, error) {
	b, _ := json.Marshal(s)
	var ts treeSpec
	if err := json.Unmarshal(b, &ts); err != nil {
		return nil, err
	}
	if len(ts.Parent) != ts.N || len(ts.Work) != ts.N || len(ts.Kind) != ts.N || len(ts.Tamper) != ts.N {
		return nil, fmt.Errorf("malformed tree %s", b)
	}
	return &ts, nil
}

func (d *drv) tree() (*ctree, error) {
	if d.ct != nil {
		return d.ct, nil
	}
	if d.ts == nil {
		return nil, fmt.Errorf("delivery before any Tree step")
	}
	ct, err := w.build(*d.ts, d.env.Seed*31+int64(d.env.OptInt("salt", 0)), d.env.Opt("tkind", ""), d.env.Opt("bkind", ""))
	if err != nil {
		return nil, err
	}
	d.ct = ct
	return ct, nil
}

func errClass(c string) string {
	switch c {
	case "ok":
		return "ok"
	case "ErrBlockExist":
		return "exist"
	}
	return "invalid"
}

// bestHashes lists the main-chain hashes above the base height.
func (d *drv) bestHashes() ([]string, error) {
	_, height, err := d.n.Tip()
	if err != nil {
		return nil, err
	}
	var out []string
	for h := int64(d.ts.Base + 1); h <= height; h++ {
		hash, err := d.n.HashAt(h)
		if err != nil {
			return nil, fmt.Errorf("hash at %d: %v", h, err)
		}
		out = append(out, string(hash))
	}
	return out, nil
}

func (d *drv) Apply(s core.Step) (any, any, error) {
	d.stepIdx++
	switch s.Op() {
	case "Tree":
		ts, err := decodeTree(s)
		if err != nil {
			return nil, nil, err
		}
		d.ts, d.ct = ts, nil
		return nil, nil, nil
	case "Deliver":
		ct, err := d.tree()
		if err != nil {
			return nil, nil, err
		}
		b, v, pid := s.Int("b"), s.Str("v"), s.Str("pid")
		blk := ct.blocks[b]
		if v == "t" {
			blk = ct.tamp[b]
		}
		if blk == nil {
			return nil, nil, fmt.Errorf("no block for %d/%s", b, v)
		}
		d.lastTK = ""
		if v == "t" {
			d.lastTK = ct.tkind[b]
			if ct.tkind[b] == "blocksig" {
				mode := d.env.Opt("pool", "mix")
				if mode == "mix" {
					mode = []string{"all", "some", "none"}[d.rnd.Intn(3)]
				}
				d.lastTK += "/pooled-" + mode
				for i, tx := range blk.Txs {
					if mode == "all" || (mode == "some" && i == 0) {
						_ = d.n.Pool(tx) // refused when already on the chain: then it is simply not pooled
					}
				}
			}
		}
		if err := d.deliver(blk, s, pid); err != nil {
			return nil, nil, err
		}
	case "Disconnect", "Orphan":
	case "Connect":
		if ok, has := s["ok"].(bool); has && !ok {
			d.pendRej = append(d.pendRej, s.Int("b"))
		}
	default:
		return nil, nil, fmt.Errorf("unknown op %q", s.Op())
	}
	if !s.Bool("fin") {
		return nil, nil, nil
	}
	return d.observe(s)
}

// deliver hands the block to the node through the configured entry point.
func (d *drv) deliver(blk *types.Block, s core.Step, pid string) error {
	var err error
	if d.before, err = d.bestHashes(); err != nil {
		return err
	}
	rpid := pid
	if pid != "download" {
		rpid = fmt.Sprintf("peer-%d", 1+d.rnd.Intn(3))
	}
	bcast := false
	switch d.env.Opt("bcast", "mix") {
	case "1":
		bcast = true
	case "mix":
		bcast = d.rnd.Intn(2) == 0
	}
	if pid == "download" {
		bcast = false
	}
	d.cur = s
	d.pendRej = nil
	d.lastBus = ""
	switch d.via {
	case "process":
		d.last = d.n.Deliver(blk, bcast, rpid)
		if os.Getenv("VERIF_CHAIN_DEBUG") != "" {
			fmt.Fprintf(os.Stderr, "DELIVER %v pid=%s bcast=%v -> main=%v orphan=%v err=%v\n", s, rpid, bcast, d.last.Main, d.last.Orphan, d.last.Err)
		}
	case "msg":
		d.last = rig.Result{Err: d.n.DeliverMsg(blk, bcast, rpid)}
	case "bus":
		ok, msg, err := d.n.DeliverBus(blk, bcast, rpid)
		if err != nil {
			return fmt.Errorf("bus delivery: %v", err)
		}
		d.last = rig.Result{}
		if !ok {
			d.lastBus = msg
			if msg == "" {
				d.lastBus = "unknown error"
			}
		}
	default:
		return fmt.Errorf("unknown via %q", d.via)
	}
	return nil
}

func asMap(v any) map[string]any {
	m, _ := v.(map[string]any)
	return m
}

// observe builds the reply and the projection at the end of a delivery.
func (d *drv) observe(s core.Step) (any, any, error) {
	ct := d.ct
	expRet, expChk := asMap(s["ret"]), asMap(s["chk"])
	b, v, pid := d.cur.Int("b"), d.cur.Str("v"), d.cur.Str("pid")
	cls, chk, servedV, after, height, tipHash, err := d.raw(d.seq && d.prop != "C25" && d.prop != "C27")
	if err != nil {
		return nil, nil, err
	}
	ret := map[string]any{"main": d.last.Main, "orphan": d.last.Orphan, "err": cls}
	if d.via != "process" { // isMain / isOrphan are not visible through these entry points
		ret["main"], ret["orphan"] = expRet["main"], expRet["orphan"]
	}
	for _, k := range []string{"last", "seq", "final", "seqok", "prop"} {
		if _, ok := chk[k]; !ok {
			chk[k] = expChk[k]
		}
	}
	_ = height
	// ---- C25: persisted chain against a fresh node fed only the heaviest branch
	if d.prop != "C26" && d.prop != "C27" && expChk["final"] == "same" {
		chk["final"] = d.final(tipHash)
	}
	// ---- C27 clauses on the real observations
	if v == "g" {
		defer func() { d.gdel[b] = true }()
	} else {
		d.anyT = true
	}
	if v == "t" && cls != "exist" {
		fate := "stored-unexecuted"
		switch {
		case cls == "invalid":
			fate = "executed-rejected"
		case d.last.Orphan || expRet["orphan"] == true:
			fate = "orphaned"
		}
		d.tfate[b] = fate + ":" + pid
	}
	if d.prop == "C27" {
		var viol []any
		clause := d.env.Opt("clause", "ab")
		kindOf := func(x int, vv string) string {
			if vv == "t" {
				return "tampered"
			}
			if ct.spec.Kind[x-1] != "ok" {
				return "invalid:" + ct.spec.Kind[x-1]
			}
			return "genuine"
		}
		changed := strings.Join(d.before, "") != strings.Join(after, "")
		fully := v == "g" && ct.ancOK(b)
		if strings.Contains(clause, "a") && !fully && changed {
			why := kindOf(b, v)
			if v == "g" && ct.spec.Kind[b-1] == "ok" {
				why = "valid-on-invalid-ancestor"
			}
			viol = append(viol, fmt.Sprintf("C27|rejected-block-changed-best-chain|delivered=%s|chain=%s", why, chainMove(d.before, after)))
		}
		if strings.Contains(clause, "b") && fully {
			ancDelivered := true
			for x := ct.spec.Parent[b-1]; x > 0; x = ct.spec.Parent[x-1] {
				if !d.gdel[x] {
					ancDelivered = false
				}
			}
			first := !d.gdel[b]
			inOrph := d.n.KnownOrphan(ct.hash[b])
			switch {
			case cls == "exist" && first:
				// the node claims to have a block whose genuine body it never received
				viol = append(viol, fmt.Sprintf("C27|valid-block-refused-as-existing|earlier=%s", d.earlier(b)))
			case cls == "invalid" && ancDelivered && servedV[b] != "g":
				// the failure is the block's own: what the node executed / keeps under its hash is not
				// the genuine body just delivered (an error caused by an orphan child leaves served = g)
				viol = append(viol, fmt.Sprintf("C27|valid-block-rejected-stale-body-executed|earlier=%s", d.earlierAny(b)))
			case cls == "ok" && !inOrph && servedV[b] != "g":
				viol = append(viol, fmt.Sprintf("C27|valid-block-accepted-but-other-body-stored|earlier=%s", d.earlier(b)))
			}
		}
		// bookkeeping of real rejections: the delivered tampered body itself, or the block the
		// mechanism names as failing inside a reorganisation (only when the real reply is an error too)
		if cls == "invalid" {
			if v == "t" && len(d.pendRej) == 0 {
				d.rejected[b] = true
			}
			for _, x := range d.pendRej {
				if x > 0 && ct.tamp[x] != nil {
					d.rejected[x] = true
				}
			}
		}
		if strings.Contains(clause, "c") {
			var xs []int
			for x := range d.rejected {
				xs = append(xs, x)
			}
			sort.Ints(xs)
			for _, x := range xs {
				if servedV[x] == "t" {
					viol = append(viol, fmt.Sprintf("C27|rejected-body-served-under-genuine-hash|%s", d.earlier(x)))
					break
				}
			}
		}
		if viol == nil {
			viol = []any{}
		}
		if len(viol) > 1 {
			viol = viol[:1]
		}
		chk["prop"] = viol
	}
	return ret, chk, nil
}

// raw reads what the node shows after a delivery: reply class, projection (with the sequence
// log and the C26 check on the real data when withSeq), served variants, best chain hashes.
func (d *drv) raw(withSeq bool) (string, map[string]any, []string, []string, int64, []byte, error) {
	ct := d.ct
	cls := errClass(d.last.Class())
	if d.via == "bus" {
		switch {
		case d.lastBus == "":
			cls = "ok"
		case d.lastBus == types.ErrBlockExist.Error():
			cls = "exist"
		default:
			cls = "invalid"
		}
	}
	tipHash, height, err := d.n.Tip()
	if err != nil {
		return "", nil, nil, nil, 0, nil, err
	}
	after, err := d.bestHashes()
	if err != nil {
		return "", nil, nil, nil, 0, nil, err
	}
	best := make([]any, len(after))
	for i, h := range after {
		best[i] = w.id(ct, []byte(h))
	}
	served := make([]any, ct.spec.N)
	inorph := make([]any, ct.spec.N)
	servedV := make([]string, ct.spec.N+1)
	for x := 1; x <= ct.spec.N; x++ {
		det, err := d.n.BlockByHash(ct.hash[x])
		if err != nil {
			det = nil
		}
		servedV[x] = ct.variantOf(x, det)
		served[x-1] = servedV[x]
		inorph[x-1] = d.n.KnownOrphan(ct.hash[x])
	}
	chk := map[string]any{"tip": w.id(ct, tipHash), "height": height, "best": best, "served": served, "inorph": inorph}
	if withSeq {
		items, last, err := d.n.Sequences()
		if err != nil {
			return "", nil, nil, nil, 0, nil, fmt.Errorf("sequences: %v", err)
		}
		chk["last"] = last
		seq := []any{}
		ok := int64(len(items)) == last+1
		var replay [][]byte
		for i, it := range items {
			if it == nil {
				ok = false
				continue
			}
			ty := "add"
			if it.Type == types.DelBlock {
				ty = "del"
			} else if it.Type != types.AddBlock {
				ty = fmt.Sprint(it.Type)
			}
			if i > trunkH {
				seq = append(seq, []any{ty, w.id(ct, it.Hash)})
			}
			if ty == "add" {
				replay = append(replay, it.Hash)
			} else if len(replay) > 0 && string(replay[len(replay)-1]) == string(it.Hash) {
				replay = replay[:len(replay)-1]
			} else {
				ok = false
			}
		}
		chk["seq"] = seq
		// the property itself on the real data: replaying the real log gives the real height index
		if int64(len(replay)) != height+1 {
			ok = false
		} else {
			for h := int64(0); h <= height; h++ {
				hh, err := d.n.HashAt(h)
				if err != nil || string(hh) != string(replay[h]) {
					ok = false
				}
			}
		}
		lastStored, err := d.n.Chain.GetStore().LoadBlockLastSequence()
		if err != nil || lastStored != last {
			ok = false
		}
		chk["seqok"] = ok
	}
	return cls, chk, servedV, after, height, tipHash, nil
}

// tclass groups tampering kinds by what the node can detect first.
func tclass(k string) string {
	switch k {
	case "sig", "payload":
		return "bad-signature"
	case "blocksig":
		return "bad-block-signature"
	case "dupdrop":
		return "duplicate-tx"
	}
	return "tx-root" // subst, reorder
}

// earlier describes what the node received under the hash of b before and what it did with it:
// tampered/<executed-rejected|stored-unexecuted|orphaned>:<pid class of that delivery>.
func (d *drv) earlier(b int) string {
	if f, ok := d.tfate[b]; ok {
		return "tampered/" + f
	}
	return "nothing"
}

// earlierAny also looks at the ancestors (a poisoned ancestor makes a valid descendant fail).
func (d *drv) earlierAny(b int) string {
	for x := b; x > 0; x = d.ct.spec.Parent[x-1] {
		if e := d.earlier(x); e != "nothing" {
			if x == b {
				return e
			}
			return "ancestor-" + e
		}
	}
	return "nothing"
}

func chainMove(before, after []string) string {
	i := 0
	for i < len(before) && i < len(after) && before[i] == after[i] {
		i++
	}
	if len(before)-i > 0 {
		return "old-branch-detached"
	}
	return "extended"
}

func (ct *ctree) parentHash(b int) []byte {
	p := ct.spec.Parent[b-1]
	if p <= 0 {
		return w.trunk[-p].Hash(w.f.N.Cfg)
	}
	return ct.hash[p]
}

// final compares the node's persisted chain with that of a fresh node that received only the
// heaviest branch (by real difficulty), in order. Returns "same" or a description.
func (d *drv) final(tipHash []byte) string {
	ct := d.ct
	hv, unique := ct.heaviest(w)
	if !unique {
		return "harness: heaviest branch not unique by real difficulty"
	}
	if hv > 0 && string(tipHash) != string(ct.hash[hv]) || hv <= 0 && string(tipHash) != string(w.trunk[trunkH].Hash(w.f.N.Cfg)) {
		return fmt.Sprintf("tip is block %d, heaviest is %d", w.id(ct, tipHash), hv)
	}
	addrs := append([]string{w.f.GenesisAddr(), w.f.SenderAddr()}, w.f.Addrs...)
	key := fmt.Sprintf("%s|%d|%v", ct.key, hv, d.seq)
	w.mu.Lock()
	re, ok := w.refs[key]
	if !ok {
		re = &refEntry{}
		w.refs[key] = re
	}
	w.mu.Unlock()
	re.once.Do(func() {
		// the fresh node receives the winning chain only: the trunk up to the fork point, then the branch
		upto := trunkH
		if hv > 0 {
			upto = -ct.spec.Parent[ct.path(hv)[0]-1]
		}
		n, err := startReceiverTo(d.seq, upto)
		if err != nil {
			re.err = err
			return
		}
		defer n.Close()
		if hv > 0 {
			for _, x := range ct.path(hv) {
				r := n.Deliver(ct.blocks[x], true, "ref")
				if r.Err != nil || !r.Main {
					re.err = fmt.Errorf("reference node refused block %d of the heaviest branch: main=%v err=%v", x, r.Main, r.Err)
					return
				}
			}
		}
		re.snap, re.err = n.Snapshot(ct.txs, addrs)
	})
	if re.err != nil {
		return "harness: " + re.err.Error()
	}
	snap, err := d.n.Snapshot(ct.txs, addrs)
	if err != nil {
		return "snapshot: " + err.Error()
	}
	diff := snap.Diff(re.snap)
	if len(diff) == 0 {
		return "same"
	}
	sort.Strings(diff)
	return "differs: " + strings.Join(diff[:min(3, len(diff))], "; ")
}

func min(a, b int) int {
	if a < b {
		return a
	}
	return b
}

// NonTrivial: C25 an orphan and a reorganisation; C26 a delete record; C27 a tampered or invalid
// block delivered before the genuine block of the same position / any later valid block.
func (d *drv) NonTrivial(env *core.Env, b *core.Behaviour) bool {
	orphan, reorg, bad := false, false, false
	for i, s := range b.Steps {
		switch s.Op() {
		case "Disconnect":
			reorg = true
		case "Deliver":
			if r := asMap(s["ret"]); r != nil && r["orphan"] == true {
				orphan = true
			}
			if s.Str("v") == "t" && i < len(b.Steps)-1 {
				bad = true
			}
		case "Connect":
			if ok, has := s["ok"].(bool); has && !ok {
				bad = true
			}
		}
		if r := asMap(s["ret"]); r != nil && r["err"] == "invalid" {
			bad = true
		}
	}
	switch env.Prop {
	case "C25":
		return orphan && reorg
	case "C26":
		return reorg
	case "C27":
		return bad
	}
	return true
}

// Signature: the C27 clause strings are signatures by themselves; everything else is a
// conformance or C25/C26 disagreement named by the first differing field.
func (d *drv) Signature(b *core.Behaviour, idx int, field string, expected, observed any) string {
	op, v, pid := "?", "", ""
	for i := idx; i >= 0 && i < len(b.Steps); i-- {
		if b.Steps[i].Op() == "Deliver" {
			op, v, pid = "Deliver", b.Steps[i].Str("v"), b.Steps[i].Str("pid")
			break
		}
	}
	if field == "panic" {
		return fmt.Sprintf("C27|node-panic|%s|v=%s|pid=%s|%s", op, v, pid, clip(fmt.Sprint(observed), 70))
	}
	if field == "ret" {
		e, o := asMap(expected), asMap(observed)
		tk := ""
		if v == "t" && d.lastTK != "" {
			tk = "|tampering=" + d.lastTK
		}
		return fmt.Sprintf("conf|%s|ret|v=%s%s|pid=%s|exp=%v/%v/%v|got=%v/%v/%v", op, v, tk, pid, e["main"], e["orphan"], e["err"], o["main"], o["orphan"], o["err"])
	}
	if field != "chk" {
		return ""
	}
	e, o := asMap(expected), asMap(observed)
	if e == nil || o == nil {
		return ""
	}
	if ps, ok := o["prop"].([]any); ok && len(ps) > 0 {
		return fmt.Sprint(ps[0])
	}
	for _, k := range []string{"final", "seqok", "tip", "height", "best", "served", "inorph", "last", "seq"} {
		if !core.Match(e[k], o[k]) {
			switch k {
			case "final":
				s := fmt.Sprint(o[k])
				if i := strings.Index(s, ":"); i > 0 {
					s = s[:i] + ":" + firstField(s[i+1:])
				}
				return "C25|persisted-chain|" + s
			case "seqok":
				return "C26|real-log-does-not-replay-to-best-chain"
			case "seq", "last":
				return fmt.Sprintf("conf|seqlog|%s|v=%s|exp=%s|got=%s", k, v, clip(core.J(e[k]), 80), clip(core.J(o[k]), 80))
			}
			return fmt.Sprintf("conf|%s|v=%s|pid=%s|exp=%s|got=%s", k, v, pid, clip(core.J(e[k]), 60), clip(core.J(o[k]), 60))
		}
	}
	return ""
}

func firstField(s string) string {
	s = strings.TrimSpace(s)
	if i := strings.IndexAny(s, "[:"); i > 0 {
		return s[:i]
	}
	return clip(s, 30)
}

func clip(s string, n int) string {
	if len(s) > n {
		return s[:n] + "…"
	}
	return s
}

var _ = common.ToHex
