package main

import (
	"bytes"
	"encoding/json"
	"fmt"
	"math/big"
	"math/rand"
	"sync"

	"github.com/33cn/chain33/common"
	"github.com/33cn/chain33/types"
	"verif/harness/drv/chain/rig"
)

// world is the process-wide block factory with its trunk and the concrete trees built so far.
type world struct {
	once  sync.Once
	err   error
	f     *rig.Factory
	trunk []*types.Block // index = height (0 = genesis)
	mu    sync.Mutex
	trees map[string]*ctree
	refs  map[string]*refEntry
}

type refEntry struct {
	once sync.Once
	snap *rig.ChainSnapshot
	err  error
}

const trunkH = 12

var w = &world{trees: map[string]*ctree{}, refs: map[string]*refEntry{}}

func (w *world) init(seed int64) error {
	w.once.Do(func() {
		f, err := rig.NewFactory(seed)
		if err != nil {
			w.err = err
			return
		}
		w.f = f
		g, err := f.N.Genesis()
		if err != nil {
			w.err = err
			return
		}
		bits, _ := rig.WorkBits(1)
		w.trunk = []*types.Block{g}
		parent := g
		for h := 1; h <= trunkH; h++ {
			tx := f.CoinsTx(h, int64(h)*100000)
			if h == 1 {
				tx = f.FundTx(1e15) // the only transaction of an account the nodes' wallets watch; never reorganised
			}
			b, err := f.Make(parent, []*types.Transaction{tx}, bits)
			if err != nil {
				w.err = err
				return
			}
			w.trunk = append(w.trunk, b)
			parent = b
		}
	})
	return w.err
}

func (w *world) close() {
	if w.f != nil {
		w.f.Close()
	}
}

// treeSpec is the abstract tree of a behaviour (the "Tree" step / "Reset" event).
type treeSpec struct {
	N      int      `json:"n"`
	Parent []int    `json:"parent"`
	Work   []int    `json:"work"`
	Kind   []string `json:"kind"`
	Tamper []bool   `json:"tamper"`
	Trunk  int      `json:"trunk"`
	Base   int      `json:"base"`
}

// ctree is a tree made concrete: real blocks manufactured by the factory.
type ctree struct {
	spec   treeSpec
	key    string
	blocks []*types.Block // [b] the block delivered as variant "g" (for kind exec/height: the invalid block itself)
	valid  []*types.Block // [b] the valid block it was derived from (state for children)
	tamp   []*types.Block // [b] variant "t": genuine header, different body (nil if not tamperable)
	tkind  []string       // how the body of "t" differs
	bkind  []string       // how an "exec" block is invalid
	hash   [][]byte
	ids    map[string]int // hash -> id (trunk: -height)
	txs    [][]byte       // every transaction hash used in the tree (incl. tampered bodies)
	td     []*big.Int     // real total difficulty relative to the trunk base (free blocks)
}

var tamperKinds = []string{"subst", "reorder", "payload", "sig", "dupdrop", "blocksig"}
var badKinds = []string{"state", "txroot", "time", "drop", "add", "duptail"}

func (w *world) id(ct *ctree, hash []byte) int {
	if id, ok := ct.ids[string(hash)]; ok {
		return id
	}
	return 999
}

// parentOf returns hash, state, height, time of the parent of free block b.
func (ct *ctree) parentInfo(w *world, b int) (hash, state []byte, height, btime int64) {
	p := ct.spec.Parent[b-1]
	if p <= 0 {
		pb := w.trunk[-p]
		return pb.Hash(w.f.N.Cfg), pb.StateHash, pb.Height, pb.BlockTime
	}
	return ct.hash[p], ct.valid[p].StateHash, ct.blocks[p].Height, ct.blocks[p].BlockTime
}

func (ct *ctree) isAncestor(a, b int) bool { // a is an ancestor of (or equal to) b
	for x := b; x > 0; x = ct.spec.Parent[x-1] {
		if x == a {
			return true
		}
	}
	return false
}

// build manufactures the blocks of a tree. conc seeds the concretisation (number of
// transactions, transactions shared between branches, tampering / invalidity kinds).
func (w *world) build(ts treeSpec, conc int64, forceT, forceB string) (*ctree, error) {
	if ts.Trunk != trunkH {
		return nil, fmt.Errorf("trunk height %d not supported (built %d)", ts.Trunk, trunkH)
	}
	kb, _ := json.Marshal(ts)
	key := fmt.Sprintf("%s|%d|%s|%s", kb, conc, forceT, forceB)
	w.mu.Lock()
	if ct, ok := w.trees[key]; ok {
		w.mu.Unlock()
		return ct, nil
	}
	w.mu.Unlock()
	cfg := w.f.N.Cfg
	h := int64(0)
	for _, c := range kb {
		h = h*131 + int64(c)
	}
	r := rand.New(rand.NewSource(conc*1000003 + h))
	n := ts.N
	ct := &ctree{spec: ts, key: key, blocks: make([]*types.Block, n+1), valid: make([]*types.Block, n+1),
		tamp: make([]*types.Block, n+1), tkind: make([]string, n+1), bkind: make([]string, n+1),
		hash: make([][]byte, n+1), ids: map[string]int{}, td: make([]*big.Int, n+1)}
	for hgt := 0; hgt <= trunkH; hgt++ {
		ct.ids[string(w.trunk[hgt].Hash(cfg))] = -hgt
	}
	addTx := func(tx *types.Transaction) { ct.txs = append(ct.txs, tx.Hash()) }
	for b := 1; b <= n; b++ {
		ph, pstate, pheight, ptime := ct.parentInfo(w, b)
		bits, err := rig.WorkBits(ts.Work[b-1])
		if err != nil {
			return nil, err
		}
		ntx := 1 + r.Intn(3)
		if ts.Tamper[b-1] || ts.Kind[b-1] != "ok" {
			ntx = 2 + r.Intn(2)
		}
		var txs []*types.Transaction
		// share one transaction with a block of another branch (not an ancestor) now and then
		if r.Intn(3) == 0 {
			var cands []int
			for c := 1; c < b; c++ {
				if !ct.isAncestor(c, b) && ts.Kind[c-1] == "ok" {
					cands = append(cands, c)
				}
			}
			if len(cands) > 0 {
				c := cands[r.Intn(len(cands))]
				tx := ct.valid[c].Txs[r.Intn(len(ct.valid[c].Txs))]
				// not if an ancestor already contains it
				dup := false
				for x := ts.Parent[b-1]; x > 0; x = ts.Parent[x-1] {
					for _, t := range ct.valid[x].Txs {
						if bytes.Equal(t.Hash(), tx.Hash()) {
							dup = true
						}
					}
				}
				if !dup {
					txs = append(txs, tx)
					ntx++ // always at least one transaction of its own: siblings must not coincide
				}
			}
		}
		for len(txs) < ntx {
			if r.Intn(4) == 0 {
				txs = append(txs, w.f.NoneTx())
			} else {
				txs = append(txs, w.f.CoinsTx(r.Intn(4), int64(1+r.Intn(900))*1000))
			}
		}
		v, err := w.f.MakeOn(ph, pstate, pheight+1, ptime+1, txs, bits)
		if err != nil {
			return nil, fmt.Errorf("block %d: %v", b, err)
		}
		for _, tx := range v.Txs {
			addTx(tx)
		}
		ct.valid[b] = v
		blk := types.Clone(v).(*types.Block)
		switch ts.Kind[b-1] {
		case "ok":
		case "height":
			blk.Height++
		case "exec":
			k := badKinds[r.Intn(len(badKinds))]
			if forceB != "" {
				k = forceB
			}
			ct.bkind[b] = k
			switch k {
			case "state":
				blk.StateHash[5] ^= 0x40
			case "txroot":
				blk.TxHash[7] ^= 0x01
			case "time":
				blk.BlockTime = ptime - 1
			case "drop":
				blk.Txs = blk.Txs[:len(blk.Txs)-1]
			case "add":
				tx := w.f.CoinsTx(1, 777000)
				addTx(tx)
				blk.Txs = append(blk.Txs, tx)
			case "duptail":
				blk.Txs = append(blk.Txs, types.Clone(blk.Txs[len(blk.Txs)-1]).(*types.Transaction))
			default:
				return nil, fmt.Errorf("unknown invalid kind %q", k)
			}
		default:
			return nil, fmt.Errorf("unknown block kind %q", ts.Kind[b-1])
		}
		// signed by its producer (the signature is not covered by the hash); trunk blocks carry none
		w.f.SignBlock(blk)
		w.f.SignBlock(v)
		ct.blocks[b] = blk
		ct.hash[b] = blk.Hash(cfg)
		if ts.Kind[b-1] != "ok" && bytes.Equal(ct.hash[b], v.Hash(cfg)) {
			return nil, fmt.Errorf("block %d: invalid variant %s kept the hash", b, ct.bkind[b])
		}
		if old, ok := ct.ids[string(ct.hash[b])]; ok {
			return nil, fmt.Errorf("block %d has the hash of block %d", b, old)
		}
		ct.ids[string(ct.hash[b])] = b
		if ts.Tamper[b-1] {
			k := tamperKinds[r.Intn(len(tamperKinds))]
			if forceT != "" {
				k = forceT
			}
			ct.tkind[b] = k
			t := types.Clone(blk).(*types.Block)
			switch k {
			case "subst":
				tx := w.f.CoinsTx(2, 555000)
				addTx(tx)
				t.Txs[len(t.Txs)-1] = tx
			case "reorder":
				t.Txs[0], t.Txs[1] = t.Txs[1], t.Txs[0]
			case "payload":
				tx := t.Txs[0]
				tx.Payload[len(tx.Payload)-1] ^= 0x01
				addTx(tx)
			case "sig":
				tx := t.Txs[0]
				tx.Signature.Signature[len(tx.Signature.Signature)-2] ^= 0x10
			case "dupdrop":
				t.Txs[1] = types.Clone(t.Txs[0]).(*types.Transaction)
			case "blocksig":
				// genuine transactions, block signature that does not verify
				t.Signature.Signature = w.f.Priv.Sign([]byte("something else")).Bytes()
			default:
				return nil, fmt.Errorf("unknown tamper kind %q", k)
			}
			if !bytes.Equal(t.Hash(cfg), ct.hash[b]) {
				return nil, fmt.Errorf("block %d: tampered body (%s) changed the block hash", b, k)
			}
			if bytes.Equal(types.Encode(t), types.Encode(blk)) {
				return nil, fmt.Errorf("block %d: tampered body (%s) equals the genuine one", b, k)
			}
			ct.tamp[b] = t
		}
		// real total difficulty above the trunk base
		td := new(big.Int).Set(rig.Work(blk))
		if p := ts.Parent[b-1]; p > 0 {
			td.Add(td, ct.td[p])
		} else {
			for hgt := ts.Base + 1; hgt <= -p; hgt++ {
				td.Add(td, rig.Work(w.trunk[hgt]))
			}
		}
		ct.td[b] = td
	}
	w.mu.Lock()
	if old, ok := w.trees[key]; ok {
		ct = old
	} else {
		w.trees[key] = ct
	}
	w.mu.Unlock()
	return ct, nil
}

// heaviest returns the id of the block with the greatest real total difficulty among the free
// blocks and the trunk tip, and whether it is unique.
func (ct *ctree) heaviest(w *world) (int, bool) {
	best := -trunkH
	btd := new(big.Int)
	for hgt := ct.spec.Base + 1; hgt <= trunkH; hgt++ {
		btd.Add(btd, rig.Work(w.trunk[hgt]))
	}
	unique := true
	for b := 1; b <= ct.spec.N; b++ {
		switch ct.td[b].Cmp(btd) {
		case 1:
			best, btd, unique = b, ct.td[b], true
		case 0:
			unique = false
		}
	}
	return best, unique
}

// path lists the free blocks from the trunk to b.
func (ct *ctree) path(b int) []int {
	var rev []int
	for x := b; x > 0; x = ct.spec.Parent[x-1] {
		rev = append(rev, x)
	}
	out := make([]int, len(rev))
	for i := range rev {
		out[len(rev)-1-i] = rev[i]
	}
	return out
}

// height of a block id (claimed height for free blocks).
func (ct *ctree) height(id int) int {
	if id <= 0 {
		return -id
	}
	return int(ct.valid[id].Height)
}

func (ct *ctree) ancOK(b int) bool {
	for x := b; x > 0; x = ct.spec.Parent[x-1] {
		if ct.spec.Kind[x-1] != "ok" {
			return false
		}
	}
	return true
}

// variantOf names the body a node serves under the hash of block b.
func (ct *ctree) variantOf(b int, d *types.BlockDetail) string {
	if d == nil || d.Block == nil {
		return "none"
	}
	enc := func(blk *types.Block) []byte {
		return append(types.Encode(&types.Transactions{Txs: blk.Txs}), types.Encode(blk.Signature)...)
	}
	got := enc(d.Block)
	if bytes.Equal(got, enc(ct.blocks[b])) {
		return "g"
	}
	if ct.tamp[b] != nil && bytes.Equal(got, enc(ct.tamp[b])) {
		return "t"
	}
	return "?" + common.ToHex(common.Sha256(got))[:10]
}
