// Driver for the Chain family (C25, C26, C27): block trees manufactured by a factory node are
// delivered to fresh receiver nodes (real BlockChain, executor, mavl store, mempool, solo
// consensus with mining off) in the order and through the entry points a behaviour names.
package main

import (
	"fmt"
	"os"
	"path/filepath"
	"strconv"
	"strings"

	"verif/harness/core"
	"verif/harness/drv/chain/rig"
)

// sweep removes temp dirs left by dead processes of this driver (tmpfs is memory).
func sweep() {
	ds, _ := filepath.Glob("/dev/shm/verif-chain-*")
	for _, d := range ds {
		p := strings.Split(filepath.Base(d), "-")
		if len(p) < 3 {
			continue
		}
		pid, err := strconv.Atoi(p[2])
		if err != nil {
			continue
		}
		if _, err := os.Stat(fmt.Sprintf("/proc/%d", pid)); err != nil {
			os.RemoveAll(d)
		}
	}
}

func main() {
	sweep()
	if len(os.Args) > 1 && os.Args[1] == "sweep" {
		return
	}
	cleanup := rig.UseFastTmp()
	// core.Main leaves through os.Exit on several paths (then the next start sweeps); on the
	// normal return path clean up here
	defer cleanup()
	defer w.close()
	core.Main(&core.Family{
		Name:      "chain",
		NewDriver: newDriver,
		Recorders: map[string]core.Recorder{"default": recordDefault},
		Extra:     map[string]func(*core.Env, []string) int{"sweep": func(*core.Env, []string) int { return 0 }},
	})
}
