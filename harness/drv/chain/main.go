// Driver for the Chain family (C25, C26, C27).
package main

import (
	"fmt"
	"time"

	"github.com/33cn/chain33/common"
	"github.com/33cn/chain33/types"
	"verif/harness/core"
	"verif/harness/drv/chain/rig"
)

func probe(env *core.Env, args []string) int {
	defer rig.UseFastTmp()()
	t0 := time.Now()
	f, err := rig.NewFactory(env.Seed)
	if err != nil {
		fmt.Println("factory:", err)
		return 2
	}
	defer f.Close()
	fmt.Println("factory start", time.Since(t0))
	g, _ := f.N.Genesis()
	t0 = time.Now()
	trunk, err := f.ChainOf(g, 12, 0)
	if err != nil {
		fmt.Println(err)
		return 2
	}
	fmt.Println("trunk built", time.Since(t0), "bits", fmt.Sprintf("%x", g.Difficulty))
	a, err := f.ChainOf(trunk[9], 3, 0)
	if err != nil {
		fmt.Println(err)
		return 2
	}
	b, err := f.ChainOf(trunk[9], 2, 0x1f00fffe)
	if err != nil {
		fmt.Println(err)
		return 2
	}
	_ = b
	for rnd := 0; rnd < 2; rnd++ {
		t0 = time.Now()
		n, err := rig.Start(rig.Opts{RecordSeq: true})
		if err != nil {
			fmt.Println(err)
			return 2
		}
		fmt.Println("receiver start", time.Since(t0))
		t0 = time.Now()
		for _, blk := range trunk {
			r := n.Deliver(blk, true, "p1")
			if r.Err != nil || !r.Main {
				fmt.Println("trunk deliver", blk.Height, r)
			}
		}
		fmt.Println("trunk delivered", time.Since(t0))
		for _, i := range []int{2, 1, 0} {
			r := n.Deliver(a[i], rnd == 0, "p2")
			h, ht, _ := n.Tip()
			fmt.Println("deliver a", i, r.Main, r.Orphan, r.Class(), "tip", ht, common.ToHex(h)[:10])
		}
		r := n.Deliver(a[1], true, "p2")
		fmt.Println("dup", r.Main, r.Orphan, r.Class())
		seqs, last, err := n.Sequences()
		fmt.Println("seqs", len(seqs), last, err)
		for i, s := range seqs {
			if i > 10 {
				fmt.Println(i, s.Type, common.ToHex(s.Hash)[:10])
			}
		}
		t0 = time.Now()
		snap, err := n.Snapshot(nil, append([]string{f.GenesisAddr()}, f.Addrs...))
		fmt.Println("snapshot", time.Since(t0), err, snap.Height, snap.State)
		ok, msg, err := n.DeliverBus(b[0], true, "p3")
		fmt.Println("bus", ok, msg, err)
		ok, msg, err = n.DeliverBus(b[1], false, "p3")
		fmt.Println("bus", ok, msg, err)
		h, ht, _ := n.Tip()
		fmt.Println("tip", ht, common.ToHex(h)[:10], common.ToHex(b[1].Hash(n.Cfg))[:10])
		t0 = time.Now()
		n.Close()
		fmt.Println("close", time.Since(t0))
	}
	_ = types.ErrBlockExist
	return 0
}

func main() {
	core.Main(&core.Family{
		Name:      "chain",
		NewDriver: nil,
		Extra:     map[string]func(env *core.Env, args []string) int{"probe": probe},
	})
}
