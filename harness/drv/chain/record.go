package main

import (
	"fmt"
	"math/rand"

	"verif/harness/core"
)

// recordDefault: binding B. Random trees (bigger than TLC enumerates), random delivery orders with
// duplicates, through a random entry point per trace; every delivery is recorded with the reply and
// the projection the node shows afterwards. With opt bad=1 tampered bodies, invalid blocks and the
// "download" pid are mixed in. The trace is validated by Chain_Trace.
//
// options: n (traces), size (free blocks), bad (0|1), seed via --seed.
func recordDefault(env *core.Env, emit func(map[string]any)) (*core.Summary, error) {
	sum := &core.Summary{Counters: map[string]int{}}
	if err := w.init(env.Seed); err != nil {
		return nil, err
	}
	ntr := env.OptInt("n", 4)
	size := env.OptInt("size", 9)
	bad := env.OptInt("bad", 0) == 1
	r := rand.New(rand.NewSource(env.Seed*977 + int64(size)*13 + int64(env.OptInt("salt", 0))))
	vias := []string{"process", "process", "msg", "bus"}
	for t := 0; t < ntr; t++ {
		n := size - 2 + r.Intn(5)
		ts := treeSpec{N: n, Trunk: trunkH, Base: 10}
		for b := 1; b <= n; b++ {
			var p int
			if b == 1 || r.Intn(3) == 0 {
				p = -(10 + r.Intn(3))
			} else {
				p = 1 + r.Intn(b-1)
				if r.Intn(2) == 0 { // prefer extending recent blocks: longer branches
					p = b - 1 - r.Intn(min(2, b-1))
				}
			}
			ts.Parent = append(ts.Parent, p)
			ts.Work = append(ts.Work, []int{1, 1, 2, 4}[r.Intn(4)])
			kind, tam := "ok", false
			if bad {
				switch r.Intn(8) {
				case 0:
					kind = "exec"
				case 1:
					kind = "height"
				case 2, 3:
					tam = true
				}
			}
			ts.Kind = append(ts.Kind, kind)
			ts.Tamper = append(ts.Tamper, tam)
		}
		d := &drv{env: env, prop: env.Prop, seq: true, via: vias[r.Intn(len(vias))], ts: &ts,
			gdel: map[int]bool{}, rejected: map[int]bool{}, tfate: map[int]string{}}
		d.rnd = rand.New(rand.NewSource(r.Int63()))
		ct, err := w.build(ts, env.Seed*31+int64(t), "", "")
		if err != nil {
			return nil, err
		}
		d.ct = ct
		node, err := startReceiver(true)
		if err != nil {
			return nil, err
		}
		d.n = node
		emit(map[string]any{"ev": "Reset", "n": ts.N, "parent": ts.Parent, "work": ts.Work, "kind": ts.Kind, "tamper": ts.Tamper, "via": d.via})
		type item struct {
			b   int
			v   string
			pid string
		}
		var items []item
		for _, b := range r.Perm(n) {
			b++
			pid := "peer"
			if bad && (ts.Tamper[b-1] || ts.Kind[b-1] != "ok") && r.Intn(3) == 0 {
				pid = "download"
			}
			items = append(items, item{b, "g", pid})
		}
		if bad {
			for b := 1; b <= n; b++ {
				if ts.Tamper[b-1] {
					pid := "peer"
					if r.Intn(3) == 0 {
						pid = "download"
					}
					at := r.Intn(len(items) + 1)
					items = append(items[:at], append([]item{{b, "t", pid}}, items[at:]...)...)
				}
			}
		}
		for k := 0; k < n/3; k++ { // duplicates
			src := items[r.Intn(len(items))]
			at := r.Intn(len(items) + 1)
			items = append(items[:at], append([]item{src}, items[at:]...)...)
		}
		orphan, reorg, rejected := false, false, false
		for _, it := range items {
			blk := ct.blocks[it.b]
			if it.v == "t" {
				blk = ct.tamp[it.b]
			}
			step := core.Step{"op": "Deliver", "b": it.b, "v": it.v, "pid": it.pid}
			if err := d.deliver(blk, step, it.pid); err != nil {
				node.Close()
				return nil, err
			}
			cls, chk, _, _, _, _, err := d.raw(true)
			if err != nil {
				node.Close()
				return nil, err
			}
			emit(map[string]any{"ev": "Deliver", "b": it.b, "v": it.v, "pid": it.pid})
			ev := map[string]any{"ev": "Done", "err": cls}
			if d.via == "process" {
				ev["main"], ev["orphan"] = d.last.Main, d.last.Orphan
				orphan = orphan || d.last.Orphan
			}
			for k, v := range chk {
				ev[k] = v
			}
			if chk["seqok"] != true {
				sum.Notes = append(sum.Notes, fmt.Sprintf("trace %d: real sequence log does not replay to the real chain", t))
			}
			for _, s := range chk["seq"].([]any) {
				if s.([]any)[0] == "del" {
					reorg = true
				}
			}
			rejected = rejected || cls == "invalid"
			emit(ev)
			sum.Steps++
		}
		node.Close()
		sum.Behaviours++
		if (!bad && reorg) || (bad && rejected) {
			sum.NonTrivial++
		}
		_ = orphan
		if len(sum.Samples) < 2 {
			sum.Samples = append(sum.Samples, map[string]any{"trace": t, "tree": ts, "via": d.via, "deliveries": len(items)})
		}
	}
	sum.Distinct = sum.Behaviours
	return sum, nil
}
